import KB.Bytes
import KB.Coder
import KB.Engine
import KB.Scan
import KB.Backend
import KB.Props.C10
