import KB.Bytes
