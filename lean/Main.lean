/-
  kbmodel — line-protocol driver for the Lean model (same protocol as /verif/harness kbharness).
  Core-only imports so that it links as a `lean_exe`.
-/
import KB.Backend
import KB.Driver.Util
import KB.Driver.Suites
open KB KB.Driver

partial def loop (h : IO.FS.Stream) (suiteName : String) (st : SuiteState) : IO Unit := do
  let line ← h.getLine
  if line.isEmpty then return ()
  let line := line.trimAscii.toString
  if line.isEmpty || line.startsWith "#" then loop h suiteName st
  else
    let toks := (line.splitOn " ").filter (· ≠ "")
    let (st', out) := stepSuite suiteName st toks
    IO.println out
    (← IO.getStdout).flush
    loop h suiteName st'

def main (args : List String) : IO Unit := do
  let suiteName := match args with
    | ["-suite", s] => s
    | [s] => s
    | _ => "backend"
  loop (← IO.getStdin) suiteName (initSuite suiteName [])
