/-
  kbmodel — line-protocol driver for the Lean model (same protocol as /verif/harness kbharness).
  Core-only imports so that it links as a `lean_exe`. One `(init, step)` pair per suite.
-/
import KB.Backend
import KB.Driver.Util
import KB.Driver.Suites
import KB.Driver.Sched
import KB.Driver.Election
import KB.Driver.Roles
import KB.Driver.Etcd
import KB.Driver.Watch
import KB.Driver.Native
open KB KB.Driver

partial def loop {σ : Type} (h : IO.FS.Stream) (step : σ → List String → σ × String) (st : σ) : IO Unit := do
  let line ← h.getLine
  if line.isEmpty then return ()
  let line := line.trimAscii.toString
  if line.isEmpty || line.startsWith "#" then loop h step st
  else
    let toks := (line.splitOn " ").filter (· ≠ "")
    let (st', out) := step st toks
    IO.println out
    (← IO.getStdout).flush
    loop h step st'

def main (args : List String) : IO Unit := do
  let suiteName := match args with
    | ["-suite", s] => s
    | [s] => s
    | _ => "backend"
  let stdin ← IO.getStdin
  match suiteName with
  -- one line per suite: `| "name" => loop stdin Name.step Name.init`
  | "sched" => loop stdin Sched.step Sched.init
  | "election" => loop stdin Election.step Election.init
  | "roles" => loop stdin Roles.step Roles.init
  | "etcd" => loop stdin Etcd.step Etcd.init
  | "watch" => loop stdin Watch.step Watch.init
  | "native" => loop stdin Native.step Native.init
  | _ => loop stdin (stepSuite suiteName) (initSuite suiteName [])
