/-
  KB.Watch — the watch pipeline of pkg/backend (ring.go, watch.go, watcherhub.go and the sequencer loop
  `collectStorageWriteEvents` of backend.go) as a labelled transition system.

  Part 1: the event cache `Ring` with the LITERAL index arithmetic of ring.go (`index i = i % l`,
  `sort.Search`, the two-segment `copy` across the wrap).
  Part 2: the pipeline LTS `WState`: sequencer (`commit`, `produce`, `flush`), hub (`fanout` — the code
  after d65a4b9 — and the pre-fix pair `fanoutAsync` / `deleteRun`), the three phases of `Backend.Watch`
  (`subscribe`, `readCache`, `decide`), `processEvents` (`forward`) and the client (`consume`).
  Every action is one atomic step of the real code: one channel send / receive or one mutex-protected
  section (see DESIGN-C05.md). Capacities are parameters (`PCfg`).
  Ghost fields (never read by a step): `produced`, `delivered`, `missed`, `subAt`, `subProduced`,
  `readAt`, `taken`.
-/
import KB.Backend
namespace KB
open Generated

/-! ## Part 1 — ring.go, literally -/

/-- `r.index(i)` = `int(i % int64(r.l))` -/
def Ring.index (r : Ring) (i : Nat) : Nat := i % r.cap

/-- Go's builtin `copy(dst, src)`: overwrites the first `min (len dst) (len src)` elements of `dst`. -/
def goCopy {α : Type} (dst src : List α) : List α := src.take dst.length ++ dst.drop src.length

/-- Go slice expression `a[i:j]` (caller guarantees `i ≤ j ≤ len a`). -/
def goSlice {α : Type} (a : List α) (i j : Nat) : List α := (a.drop i).take (j - i)

/-- smallest `i` in `[start, start + n)` with `f i`, else `start + n` -/
def firstIdx (f : Nat → Bool) : Nat → Nat → Nat
  | 0, i => i
  | n + 1, i => if f i then i else firstIdx f n (i + 1)

/-- `sort.Search(n, f)` by its documented contract: the smallest index in `[0, n)` at which `f` holds
(`n` if none). -/
def searchFirst (n : Nat) (f : Nat → Bool) : Nat := firstIdx f n 0

/-- The loop of Go's `sort.Search`, literally (`h := int(uint(i+j) >> 1)`); `fuel` bounds the iterations. -/
def goSearchLoop (f : Nat → Bool) : Nat → Nat → Nat → Nat
  | 0, i, _ => i
  | fuel + 1, i, j =>
    if i < j then
      let h := (i + j) / 2
      if !f h then goSearchLoop f fuel (h + 1) j else goSearchLoop f fuel i h
    else i

def goSearch (n : Nat) (f : Nat → Bool) : Nat := goSearchLoop f n 0 n

/-- The tail of `FindEvents` after `idx` was computed:
```
ret.events = make([]*proto.Event, e-s-idx)
if r.index(r.e) > r.index(r.s+idx) { copy(ret.events, r.arr[r.index(r.s+idx):r.index(r.e)]); return }
copy(ret.events, r.arr[r.index(r.s+idx):])
copy(ret.events[r.l-r.index(r.s+idx):], r.arr[:r.index(r.e)])
```
`none` = the slice expression `ret.events[l-a:]` would be out of range (run-time panic). -/
def Ring.findCopy (r : Ring) (idx : Nat) : Option (List (Option Event)) :=
  let n := r.e - r.s - idx
  let dst : List (Option Event) := List.replicate n none
  let a := r.index (r.s + idx)
  let b := r.index r.e
  if b > a then some (goCopy dst (goSlice r.arr a b))
  else
    let dst := goCopy dst (r.arr.drop a)
    if r.cap - a > n then none
    else some (dst.take (r.cap - a) ++ goCopy (dst.drop (r.cap - a)) (r.arr.take b))

/-- the predicate handed to `sort.Search`: `r.arr[r.index(r.s+i)].Revision >= revision` -/
def Ring.searchPred (r : Ring) (rev : Nat) (i : Nat) : Bool :=
  match r.at (r.s + i) with
  | some e => decide (rev ≤ e.rev)
  | none => true

/-- all pointers of the copied slice are non-nil -/
def allSome {α : Type} : List (Option α) → Option (List α)
  | [] => some []
  | none :: _ => none
  | some a :: rest => (allSome rest).map (a :: ·)

/-- `Ring.FindEvents(revision)`, literally. A nil dereference / slice panic is rendered as `.empty`
(shown unreachable by `KB.C05.ring_find_spec`). -/
def Ring.findLit (r : Ring) (rev : Nat) : FindRet :=
  if r.e == 0 then .empty else
  match r.at (r.e - 1), r.at r.s with
  | some newest, some oldest =>
    if rev > newest.rev then .high
    else if rev < oldest.rev then .low oldest.rev
    else
      let idx := searchFirst (r.e - r.s) (r.searchPred rev)
      match (r.findCopy idx).bind allSome with
      | some evs => .events newest.rev evs
      | none => .empty
  | _, _ => .empty

/-- the ring after `Add`ing the events of `evs` in order to a fresh ring of capacity `cap` -/
def ringOf (cap : Nat) (evs : List Event) : Ring := evs.foldl Ring.add (Ring.new cap)

/-- strictly increasing revisions -/
def SortedRev (evs : List Event) : Prop := evs.Pairwise (fun a b => a.rev < b.rev)

/-- What `FindEvents S` must answer after the events `evs` were added to a ring of capacity `cap`:
the window is the last `min n cap` events. -/
def findSpec (cap : Nat) (evs : List Event) (S : Nat) : FindRet :=
  let win := evs.drop (evs.length - cap)
  match win.head?, win.getLast? with
  | some oldest, some newest =>
    if S > newest.rev then .high
    else if S < oldest.rev then .low oldest.rev
    else .events newest.rev (win.filter (fun e => decide (S ≤ e.rev)))
  | _, _ => .empty

/-! ## Part 2 — the pipeline -/

namespace Watch

structure PCfg where
  ringCap : Nat := historyCapacity
  /-- capacity of a subscriber channel (`watchBuffer`) -/
  subCap : Nat := watchBuffer
  /-- capacity of the result channel (`resultChanLength`) -/
  outCap : Nat := resultChanLength
  /-- `eventBatchSize` (catch-up chunking) -/
  batchMax : Nat := eventBatchSize
  deriving Repr

/-- progress of one `Backend.Watch` call -/
inductive Phase where
  | subscribed                   -- `AddWatcher` done (yield point "watch.subscribed")
  | cacheRead (ret : FindRet)    -- `watchCache.FindEvents` done (yield point "watch.cache_read")
  | live                         -- the result channel was returned; `processEvents` runs
  | refused                      -- an error was returned
  | hung                         -- `catchUpEvents` blocked on the result channel: never returns
  deriving Repr

def Phase.isLive : Phase → Bool
  | .live => true
  | _ => false

def Phase.isRefused : Phase → Bool
  | .refused => true
  | _ => false

structure W where
  pfx : Bytes
  start : Nat
  phase : Phase := .subscribed
  /-- the `revision` argument of `processEvents` -/
  from_ : Nat := 0
  /-- subscriber channel hub → processEvents (capacity `subCap`) -/
  sub : List (List Event) := []
  /-- the hub closed the channel and removed it from `subs` (one critical section) -/
  subClosed : Bool := false
  /-- pre-fix code only: a `go DeleteWatcher(sub)` was spawned and has not run yet -/
  pendingDelete : Bool := false
  /-- the batch `processEvents` holds between `range in` and `out <- evs` ([] = none) -/
  hand : List Event := []
  /-- result channel processEvents → client (capacity `outCap`) -/
  out : List (List Event) := []
  outClosed : Bool := false
  -- ghost
  delivered : List Event := []
  /-- a batch was not put into `sub` because it was full -/
  missed : Bool := false
  /-- number of events the hub had already fanned out when the watcher subscribed -/
  subAt : Nat := 0
  /-- number of events produced when the watcher subscribed -/
  subProduced : Nat := 0
  /-- number of events produced when the cache was read -/
  readAt : Nat := 0
  /-- number of events `processEvents` has received from `sub` -/
  taken : Nat := 0
  deriving Repr

structure WState where
  /-- `tso.GetRevision()` -/
  committed : Nat := 0
  ring : Ring
  /-- the sequencer's local `events[:cnt]` -/
  batch : List Event := []
  /-- `watchChan` -/
  chan : List (List Event) := []
  ws : List W := []
  /-- ghost: every event the sequencer has produced, in order -/
  produced : List Event := []
  deriving Repr

def WState.init (c : PCfg) : WState := { ring := Ring.new c.ringCap }

inductive Act where
  | commit (n : Nat)                         -- sequencer: `SetCurrentRevision(n)` (valid or invalid slot)
  | produce (e : Event)                      -- sequencer: `watchCache.Add(e)`; `events[cnt] = e`
  | flush                                    -- sequencer: `watchChan <- events[:cnt]`
  | fanout                                   -- hub (fixed): one batch to every subscriber, full ones closed
  | fanoutAsync                              -- hub (pre-fix): full ones only get `go DeleteWatcher`
  | deleteRun (i : Nat)                      -- pre-fix: the spawned `DeleteWatcher` runs
  | subscribe (pfx : Bytes) (start : Nat)    -- Watch: `AddWatcher`
  | readCache (i : Nat)                      -- Watch: `FindEvents` (or, for revision 0, return live)
  | decide (i : Nat)                         -- Watch: the decision table, catch-up, spawn processEvents
  | forward (i : Nat)                        -- processEvents: one receive or one send
  | consume (i : Nat)                        -- client: one receive from the result channel
  deriving Repr

/-- actions of the code after d65a4b9 -/
def Act.fixed : Act → Bool
  | .fanoutAsync => false
  | .deleteRun _ => false
  | _ => true

def inflight (s : WState) : List Event := s.chan.flatten ++ s.batch

def matches_ (pfx : Bytes) (e : Event) : Bool := hasPrefix e.key pfx

/-- hub: non-blocking send of one batch; a full subscriber is closed and removed in the same step -/
def W.offer (c : PCfg) (w : W) (b : List Event) : W :=
  if w.subClosed then w
  else if w.sub.length < c.subCap then { w with sub := w.sub ++ [b] }
  else { w with subClosed := true, missed := true }

/-- pre-fix hub: a full subscriber stays registered, only a deletion goroutine is spawned -/
def W.offerAsync (c : PCfg) (w : W) (b : List Event) : W :=
  if w.subClosed then w
  else if w.sub.length < c.subCap then { w with sub := w.sub ++ [b] }
  else { w with pendingDelete := true, missed := true }

/-- outcome of the decision table of `Watch` -/
inductive Decision where
  | refuse
  | live (from_ : Nat) (catchUp : List Event)
  deriving Repr

def decideRet (pfx : Bytes) (S committed : Nat) : FindRet → Decision
  | .empty => if S > committed then .live S [] else .refuse
  | .high => .live S []
  | .low _ => .refuse
  | .events newest evs =>
    let c := evs.filter (matches_ pfx)
    if c.isEmpty then .live S [] else .live (newest + 1) c

/-- batch size used by `catchUpEvents` -/
def catchUpBatch (c : PCfg) (n : Nat) : Nat :=
  if n > c.outCap * c.batchMax then n / (c.outCap - 1) else c.batchMax

/-- the loop of `catchUpEvents`: `if len(events) > batchSize { out <- events[:batchSize]; events =
events[batchSize:] } else { out <- events; break }` (`fuel` ≥ the number of iterations) -/
def cuLoop (bs : Nat) : Nat → List Event → List (List Event)
  | 0, evs => [evs]
  | fuel + 1, evs =>
    if evs.length > bs then evs.take bs :: cuLoop bs fuel (evs.drop bs) else [evs]

/-- the batches `catchUpEvents` sends (called only with a non-empty list); `none` = the loop never
terminates (batch size 0, impossible for the real constants) -/
def catchUpChunks (c : PCfg) (evs : List Event) : Option (List (List Event)) :=
  if evs.isEmpty then some []
  else if catchUpBatch c evs.length = 0 then none
  else some (cuLoop (catchUpBatch c evs.length) evs.length evs)

def W.decide (c : PCfg) (committed : Nat) (w : W) : W :=
  match w.phase with
  | .cacheRead ret =>
    match decideRet w.pfx w.start committed ret with
    | .refuse => { w with phase := .refused, subClosed := true }
    | .live f cu =>
      match catchUpChunks c cu with
      | some chunks =>
        -- the sends happen before the channel is returned: more batches than slots block forever
        if chunks.length ≤ c.outCap then { w with phase := .live, from_ := f, out := chunks }
        else { w with phase := .hung }
      | none => { w with phase := .hung }
  | _ => w

def W.readCache (ring : Ring) (nProduced : Nat) (w : W) : W :=
  match w.phase with
  | .subscribed =>
    if w.start == 0 then { w with phase := .live, from_ := 0 }
    else { w with phase := .cacheRead (ring.findLit w.start), readAt := nProduced }
  | _ => w

/-- processEvents: one step — send the batch in hand, or receive the next one (filtering it), or, when the
subscription is closed and drained, close the result channel -/
def W.forward (c : PCfg) (w : W) : W :=
  if !w.phase.isLive then w
  else if !w.hand.isEmpty then
    if w.out.length < c.outCap then { w with out := w.out ++ [w.hand], hand := [] } else w
  else
    match w.sub with
    | b :: rest => { w with sub := rest, hand := filterEvents w.pfx w.from_ b, taken := w.taken + b.length }
    | [] => if w.subClosed && !w.outClosed then { w with outClosed := true } else w

def W.consume (w : W) : W :=
  if !w.phase.isLive then w
  else match w.out with
    | b :: rest => { w with out := rest, delivered := w.delivered ++ b }
    | [] => w

def W.deleteRun (w : W) : W :=
  if w.pendingDelete then { w with pendingDelete := false, subClosed := true } else w

def updAt (ws : List W) (i : Nat) (f : W → W) : List W := ws.modify i f

def act (c : PCfg) (s : WState) : Act → WState
  | .commit n => { s with committed := n }
  | .produce e =>
    if s.produced.all (fun x => decide (x.rev < e.rev)) then
      { s with ring := s.ring.add e, batch := s.batch ++ [e], produced := s.produced ++ [e] }
    else s
  | .flush => if s.batch.isEmpty then s else { s with chan := s.chan ++ [s.batch], batch := [] }
  | .fanout =>
    match s.chan with
    | [] => s
    | b :: rest => { s with chan := rest, ws := s.ws.map (fun w => w.offer c b) }
  | .fanoutAsync =>
    match s.chan with
    | [] => s
    | b :: rest => { s with chan := rest, ws := s.ws.map (fun w => w.offerAsync c b) }
  | .deleteRun i => { s with ws := updAt s.ws i W.deleteRun }
  | .subscribe pfx start =>
    { s with ws := s.ws ++ [{ pfx := pfx, start := start,
                              subAt := s.produced.length - (inflight s).length,
                              subProduced := s.produced.length }] }
  | .readCache i => { s with ws := updAt s.ws i (W.readCache s.ring s.produced.length) }
  | .decide i => { s with ws := updAt s.ws i (W.decide c s.committed) }
  | .forward i => { s with ws := updAt s.ws i (W.forward c) }
  | .consume i => { s with ws := updAt s.ws i W.consume }

def run (c : PCfg) (s : WState) (sched : List Act) : WState := sched.foldl (act c) s

/-- reachable with the code as it is after d65a4b9 -/
def Reachable (c : PCfg) (s : WState) : Prop :=
  ∃ sched : List Act, (∀ a ∈ sched, a.fixed = true) ∧ run c (WState.init c) sched = s

/-- what the client of watcher `w` must see, given everything produced so far -/
def specOf (w : W) (produced : List Event) : List Event :=
  if w.start = 0 then (produced.drop w.subAt).filter (matches_ w.pfx)
  else produced.filter (fun e => decide (w.start ≤ e.rev) && matches_ w.pfx e)

/-- everything already in the client-side part of the stream -/
def W.stream (w : W) : List Event := w.delivered ++ w.out.flatten ++ w.hand

/-- everything that will still reach the client if nothing more is put into `sub` -/
def W.total (w : W) : List Event := w.stream ++ w.sub.flatMap (filterEvents w.pfx w.from_)

end Watch
end KB
