/-
  KB.ServerGen — the follower read-sync LTS of KB.Server (Part 2) with the repair proposed in
  proposed-fixes/C18-fresh-follower-read.diff modelled AS THE DIFF IS WRITTEN, one atomic instruction per step:

      arrived := atomic.LoadUint64(&r.fetchGen)                       -- step `arrive`
      for {
        v, err, _ := r.flight.Do("get_revision", func() … {           -- steps `fetchStart` (group empty: owner)
          gen := atomic.AddUint64(&r.fetchGen, 1)                     --       `genBump`    (owner, inside fn)
          revision, err := r.getRevisionFromLeaderWithRetry()         --       `leaderAnswer`
          return fetchedRevision{revision, gen}, err })               --       `fetchReply` (everyone waiting)
        if res.gen > arrived { return res.revision, err }             --   or `fetchJoin`  (group busy: waiter)
      }

  KB.Server's `fixed` variant abstracts the generation numbers into one ghost bit per read (`late`: joined a
  fetch the leader had already answered).  The diff is coarser than that bit in one direction (a joiner of a
  fetch that is still PENDING but was numbered before the joiner arrived goes round again although its result
  would be fresh) and finer in the other (between `flight.Do` registering the call and the owner's
  `AddUint64` a reader may load the old generation and then accept the result: this is the window the proof has
  to close — the GET is sent after the increment, hence after that reader began).  This file carries the
  counters themselves so that the sufficiency of the diff — not of an abstraction of it — is a theorem
  (KB.Props.C18Gen).  The store into the backend is `tso.Commit` as it is in /repo since db7d4ff (only raises).

  Core-only.
-/
import KB.Server
namespace KB.ServerGen
open KB.Server (LeaderBehaviour)

/-- Where a follower read is in the repaired `SyncReadRevision` / its handler. -/
inductive Phase
  /-- not begun -/
  | idle
  /-- handler entered; before the load of `fetchGen` -/
  | begun
  /-- `arrived` loaded; at the head of the `for` loop, before `flight.Do` -/
  | looping
  /-- inside `flight.Do` (owner or waiter) -/
  | waiting
  /-- `singleFlightGetRevisionFromLeader` returned (`none` = error); before `SetCurrentRevision` -/
  | got (v : Option Nat)
  /-- `SetCurrentRevision` done; before the backend read -/
  | synced
  /-- the backend read ran at this read revision -/
  | served (rev : Nat)
  /-- `SyncReadRevision` returned an error -/
  | failed
  deriving DecidableEq, Repr

structure Read where
  phase : Phase := .idle
  /-- ghost: the leader's committed revision when the read began -/
  beginRev : Nat := 0
  /-- the local `arrived` -/
  arrived : Nat := 0
  deriving DecidableEq, Repr

/-- The single-flight group: at most one outstanding call. -/
inductive Flight
  | none
  /-- `flight.Do` has registered the owner's call; the owner has not executed `AddUint64` yet -/
  | registered
  /-- the owner numbered the fetch `g` and the GET /status is outstanding -/
  | pending (g : Nat)
  /-- the leader's handler has run: the reply value is fixed but not delivered -/
  | answered (g : Nat) (v : Option Nat)
  deriving DecidableEq, Repr

structure State where
  leaderRev : Nat
  followerRev : Nat
  /-- `revisionSyncer.fetchGen` -/
  fetchGen : Nat := 0
  flight : Flight := .none
  reads : Nat → Read := fun _ => {}
  /-- ghost: the leader's committed revision at the last `genBump` -/
  bumpRev : Nat := 0

inductive Step
  | leaderCommit
  | readBegin (r : Nat)
  /-- `arrived := atomic.LoadUint64(&r.fetchGen)` -/
  | arrive (r : Nat)
  /-- `flight.Do`, group empty: `r` becomes the owner -/
  | fetchStart (r : Nat)
  /-- the owner's `atomic.AddUint64(&r.fetchGen, 1)`; the GET is sent after it -/
  | genBump
  /-- `flight.Do`, group busy (registered, pending or answered): `r` waits for that call's result -/
  | fetchJoin (r : Nat)
  | leaderAnswer (b : LeaderBehaviour)
  /-- the owner's function returns: the call leaves the group, every waiter receives (value, gen) and
  compares `gen > arrived` -/
  | fetchReply
  | setRev (r : Nat)
  | readServe (r : Nat)
  deriving DecidableEq, Repr

def upd (f : Nat → Read) (r : Nat) (x : Read) : Nat → Read := fun i => if i = r then x else f i

/-- What a waiter becomes when the call numbered `g` completes with value `v`: it takes the value iff
`g > arrived`, otherwise it is back at the head of its loop (with the SAME `arrived`). -/
def deliver (g : Nat) (v : Option Nat) (x : Read) : Read :=
  match x.phase with
  | .waiting => if x.arrived < g then { x with phase := .got v } else { x with phase := .looping }
  | _ => x

def step (s : State) : Step → Option State
  | .leaderCommit => some { s with leaderRev := s.leaderRev + 1 }
  | .readBegin r =>
    match (s.reads r).phase with
    | .idle => some { s with reads := upd s.reads r { phase := .begun, beginRev := s.leaderRev } }
    | _ => none
  | .arrive r =>
    match (s.reads r).phase with
    | .begun => some { s with reads := upd s.reads r { s.reads r with phase := .looping, arrived := s.fetchGen } }
    | _ => none
  | .fetchStart r =>
    match (s.reads r).phase, s.flight with
    | .looping, .none => some { s with flight := .registered, reads := upd s.reads r { s.reads r with phase := .waiting } }
    | _, _ => none
  | .genBump =>
    match s.flight with
    | .registered => some { s with flight := .pending (s.fetchGen + 1), fetchGen := s.fetchGen + 1, bumpRev := s.leaderRev }
    | _ => none
  | .fetchJoin r =>
    match (s.reads r).phase, s.flight with
    | .looping, .none => none
    | .looping, _ => some { s with reads := upd s.reads r { s.reads r with phase := .waiting } }
    | _, _ => none
  | .leaderAnswer b =>
    match s.flight with
    | .pending g => some { s with flight := .answered g (match b with | .ok => some s.leaderRev | _ => none) }
    | _ => none
  | .fetchReply =>
    match s.flight with
    | .answered g v => some { s with flight := .none, reads := fun i => deliver g v (s.reads i) }
    | _ => none
  | .setRev r =>
    match (s.reads r).phase with
    | .got (some v) =>
      some { s with followerRev := max s.followerRev v, reads := upd s.reads r { s.reads r with phase := .synced } }
    | .got none => some { s with reads := upd s.reads r { s.reads r with phase := .failed } }
    | _ => none
  | .readServe r =>
    match (s.reads r).phase with
    | .synced => some { s with reads := upd s.reads r { s.reads r with phase := .served s.followerRev } }
    | _ => none

def run : State → List Step → Option State
  | s, [] => some s
  | s, st :: rest =>
    match step s st with
    | some s' => run s' rest
    | none => none

/-- Follower and leader both at revision `n`, `g` fetches done so far. -/
def init (n g : Nat) : State := { leaderRev := n, followerRev := n, fetchGen := g, bumpRev := n }

def Reachable (s : State) : Prop := ∃ n g tr, run (init n g) tr = some s

/-- Every read that has been served was served at a revision not below the leader's committed revision
when that read began. -/
def Fresh (s : State) : Prop := ∀ r v, (s.reads r).phase = .served v → (s.reads r).beginRev ≤ v

end KB.ServerGen
