import KB.Str
/-
  KB.Locks — lock-discipline table (static side) and an abstract trace model of a Go process
  (dynamic side), with the generic theorem that a disciplined table admits no data race.

  STATIC SIDE.  `Access` is one syntactic access to a shared struct field as emitted by
  harness/cmd/kbextract/locks.go into KB/Generated/LockTable.lean.  `locDisciplined tbl x` is the
  (decidable, boolean) lock discipline for the location (struct field) `x`:
    (A) every access that is not thread-confined is atomic, or
    (B) there is ONE lock `L` such that every access that is not thread-confined is a plain access
        made while `L` is held, and every such WRITE holds `L` in write (exclusive) mode
        (so two readers may share the read lock; any conflicting pair has a writer holding `L`
        exclusively), or
    (C) every access that is not thread-confined is a READ (the location is written only before it is
        shared — by the constructor — and is immutable afterwards).
  A location all of whose accesses are thread-confined satisfies (A) vacuously.

  DYNAMIC SIDE (simplified but honest happens-before model; what it is and is not):
    * a trace is a finite list of events in one global order (the order in which the synchronising
      operations take effect; plain accesses are placed anywhere consistent with program order);
    * events: `acq t l w` / `rel t l w` — thread `t` acquires / releases lock `l` in write (`w = true`,
      Mutex.Lock / RWMutex.Lock) or read (`w = false`, RWMutex.RLock) mode; `acc t x write atomic site`
      — thread `t` reads or writes location `x`, plainly or with sync/atomic, executing table entry `site`;
    * locations and locks are *instances*: a static name (struct field / mutex field) paired with an
      object id, so two `Ring`s have different locations and different locks;
    * happens-before `HB` is the least transitive relation containing
        - program order (same thread, earlier in the trace),
        - write-release → any later acquire of the same lock,
        - read-release  → any later WRITE-acquire of the same lock,
        - atomic access → any later atomic access of the same location
      (this is the Go memory model restricted to mutexes, RW-mutexes and sync/atomic; channel,
      WaitGroup, Once, `go` statement and goroutine-exit edges are NOT modelled, i.e. the model has
      FEWER edges than Go, hence reports MORE races: sound for race freedom);
    * lock semantics `WellFormed`: two acquisitions of the same lock of which at least one is in write
      mode are separated by a release, by the first acquirer, of that acquisition (mutual exclusion
      of a Mutex / RWMutex; locks are released by the thread that acquired them — Go permits
      unlocking from another goroutine, the code under verification never does);
    * a data race is a pair of accesses to the same location by different threads, at least one a
      write, not both atomic, unordered by `HB` (Go: "a write concurrent with another access, unless
      both are sync/atomic").
  `Conforms tbl tr` ties a trace to the table (this is exactly what is TRUSTED about the extractor):
  every access event executes a table entry with that field / kind / mode, the locks the entry lists
  are held (in the listed mode) by the accessing thread at that point of the trace *on the same owner
  object*, and an access the table calls thread-confined is ordered (either way) with every access
  of another thread to the same location (confinement / publication-before-sharing assumption).
-/
namespace KB.Locks
open KB

inductive AccessKind | read | write
  deriving DecidableEq, Repr

inductive AccessMode | plain | atomic
  deriving DecidableEq, Repr

/-- One syntactic access to a shared location (struct field). -/
structure Access where
  file : String
  line : Nat
  func : String
  field : Name
  access : AccessKind
  mode : AccessMode
  /-- every lock held at this point (lexically, or by all callers / by protocol), any mode -/
  locksHeld : List Name
  /-- the subset of `locksHeld` held in write (exclusive) mode -/
  locksWrite : List Name
  /-- some lock is held but none exclusively -/
  readLockOnly : Bool
  /-- the location (or this access: constructor before publication) is touched by one goroutine only -/
  threadConfined : Bool
  note : String
  deriving Repr

/-! ### static discipline -/

/-- `a` is a plain access protected by `L` (exclusively when it is a write), or is confined. -/
def guardedBy (L : Name) (a : Access) : Bool :=
  a.threadConfined ||
    (a.mode == .plain && a.locksHeld.contains L && (a.access == .read || a.locksWrite.contains L))

def atomicOrConfined (a : Access) : Bool := a.threadConfined || a.mode == .atomic

def accessesOf (tbl : List Access) (x : Name) : List Access := tbl.filter (fun a => a.field == x)

/-- all lock names mentioned by accesses of `x` (candidates for the protecting lock) -/
def candidateLocks (tbl : List Access) (x : Name) : List Name :=
  (accessesOf tbl x).flatMap (·.locksHeld)

/-- a shared (not thread-confined) access that does not write -/
def readOrConfined (a : Access) : Bool := a.threadConfined || a.access == .read

def locDisciplined (tbl : List Access) (x : Name) : Bool :=
  (accessesOf tbl x).all atomicOrConfined ||
  (accessesOf tbl x).all readOrConfined ||
    (candidateLocks tbl x).any (fun L => (accessesOf tbl x).all (guardedBy L))

def fieldsOf (tbl : List Access) : List Name := (tbl.map (·.field)).eraseDups

/-- the whole table is disciplined, except for the listed locations -/
def tableDisciplinedExcept (tbl : List Access) (except : List Name) : Bool :=
  (fieldsOf tbl).all (fun x => except.contains x || locDisciplined tbl x)

def tableDisciplined (tbl : List Access) : Bool := tableDisciplinedExcept tbl []

/-- the locations of the table that violate the discipline -/
def undisciplined (tbl : List Access) : List Name :=
  (fieldsOf tbl).filter (fun x => !locDisciplined tbl x)

/-! ### dynamic model -/

abbrev Thread := Nat
abbrev Obj := Nat

structure Loc where
  field : Name
  obj : Obj
  deriving DecidableEq, Repr

structure LockId where
  name : Name
  obj : Obj
  deriving DecidableEq, Repr

inductive Ev
  | acq (t : Thread) (l : LockId) (w : Bool)
  | rel (t : Thread) (l : LockId) (w : Bool)
  | acc (t : Thread) (x : Loc) (write : Bool) (atomic : Bool) (site : Nat)
  deriving DecidableEq, Repr

def Ev.thread : Ev → Thread
  | .acq t _ _ => t
  | .rel t _ _ => t
  | .acc t _ _ _ _ => t

abbrev Trace := List Ev

/-- happens-before on trace positions -/
inductive HB (tr : Trace) : Nat → Nat → Prop
  | po {i j a b} : i < j → tr[i]? = some a → tr[j]? = some b → a.thread = b.thread → HB tr i j
  | relW {i j t t' l w} : i < j → tr[i]? = some (Ev.rel t l true) → tr[j]? = some (Ev.acq t' l w) → HB tr i j
  | relR {i j t t' l} : i < j → tr[i]? = some (Ev.rel t l false) → tr[j]? = some (Ev.acq t' l true) → HB tr i j
  | atom {i j t t' x w w' s s'} : i < j → tr[i]? = some (Ev.acc t x w true s) →
      tr[j]? = some (Ev.acc t' x w' true s') → HB tr i j
  | trans {i j k} : HB tr i j → HB tr j k → HB tr i k

/-- thread `t` holds lock `l` in mode `w` just before position `i`: it acquired it at some earlier
position and has not released it since -/
def HeldAt (tr : Trace) (i : Nat) (t : Thread) (l : LockId) (w : Bool) : Prop :=
  ∃ k : Nat, k < i ∧ tr[k]? = some (Ev.acq t l w) ∧ ∀ (m : Nat) (w' : Bool), k < m → m < i → tr[m]? ≠ some (Ev.rel t l w')

/-- lock semantics: conflicting acquisitions of one lock are separated by the first one's release -/
def WellFormed (tr : Trace) : Prop :=
  ∀ (k k' : Nat) (t t' : Thread) (l : LockId) (w w' : Bool), k < k' → tr[k]? = some (Ev.acq t l w) →
    tr[k']? = some (Ev.acq t' l w') → (w || w') = true → ∃ m : Nat, k < m ∧ m < k' ∧ tr[m]? = some (Ev.rel t l w)

/-- positions `i < j` are a data race on location `x` -/
def RaceOn (tr : Trace) (x : Loc) (i j : Nat) : Prop :=
  ∃ (t t' : Thread) (w w' a a' : Bool) (s s' : Nat), i < j ∧ tr[i]? = some (Ev.acc t x w a s) ∧ tr[j]? = some (Ev.acc t' x w' a' s') ∧
    t ≠ t' ∧ (w || w') = true ∧ (a && a') = false ∧ ¬ HB tr i j

def RaceFreeOn (tr : Trace) (x : Loc) : Prop := ∀ i j, ¬ RaceOn tr x i j

/-- the trace is an execution of the program described by the table (the trusted tie) -/
def Conforms (tbl : List Access) (tr : Trace) : Prop :=
  ∀ (i : Nat) (t : Thread) (x : Loc) (w a : Bool) (s : Nat), tr[i]? = some (Ev.acc t x w a s) →
    ∃ e : Access, tbl[s]? = some e ∧ e.field = x.field ∧
      w = (e.access == .write) ∧ a = (e.mode == .atomic) ∧
      (∀ L, L ∈ e.locksHeld → ∃ m, HeldAt tr i t ⟨L, x.obj⟩ m ∧ (L ∈ e.locksWrite → m = true)) ∧
      (e.threadConfined = true → ∀ (j : Nat) (t' : Thread) (w' a' : Bool) (s' : Nat), tr[j]? = some (Ev.acc t' x w' a' s') → t' ≠ t →
        HB tr i j ∨ HB tr j i)


/-! ### the theorem: a disciplined location has no data race -/

/-- happens-before only relates earlier positions to later ones -/
theorem HB.lt {tr : Trace} {i j : Nat} (h : HB tr i j) : i < j := by
  induction h with
  | po h _ _ _ => exact h
  | relW h _ _ => exact h
  | relR h _ _ => exact h
  | atom h _ _ => exact h
  | trans _ _ ih1 ih2 => exact Nat.lt_trans ih1 ih2

/-- Key lemma: two accesses by different threads that both hold the same lock instance, at least one
of them exclusively, are ordered by happens-before. -/
theorem held_common_lock_ordered (tr : Trace) (hwf : WellFormed tr)
    (i j : Nat) (hij : i < j) (t t' : Thread) (ht : t ≠ t') (l : LockId) (m m' : Bool)
    (ei ej : Ev) (hi : tr[i]? = some ei) (hj : tr[j]? = some ej)
    (hti : ei.thread = t) (htj : ej.thread = t')
    (hnri : ∀ w, ei ≠ Ev.rel t l w)
    (hhi : HeldAt tr i t l m) (hhj : HeldAt tr j t' l m') (hm : (m || m') = true) : HB tr i j := by
  obtain ⟨k, hki, hk, hnk⟩ := hhi
  obtain ⟨k', hkj, hk', hnk'⟩ := hhj
  rcases Nat.lt_trichotomy k k' with hlt | heq | hgt
  · obtain ⟨r, hkr, hrk', hr⟩ := hwf k k' t t' l m m' hlt hk hk' hm
    have hir : i < r := by
      rcases Nat.lt_trichotomy r i with h | h | h
      · exact absurd hr (hnk r m hkr h)
      · subst h; rw [hi] at hr; exact absurd (Option.some.inj hr) (hnri m)
      · exact h
    have h1 : HB tr i r := HB.po hir hi hr (by rw [hti]; rfl)
    have h2 : HB tr r k' := by
      cases m with
      | true => exact HB.relW hrk' hr hk'
      | false =>
        simp at hm; subst hm
        exact HB.relR hrk' hr hk'
    have h3 : HB tr k' j := HB.po hkj hk' hj (by rw [htj]; rfl)
    exact HB.trans h1 (HB.trans h2 h3)
  · subst heq; rw [hk] at hk'
    injection hk' with h; injection h with h
    exact absurd h ht
  · have hm' : (m' || m) = true := by rw [Bool.or_comm]; exact hm
    obtain ⟨r, hkr, hrk, hr⟩ := hwf k' k t' t l m' m hgt hk' hk hm'
    exact absurd hr (hnk' r m' hkr (by omega))

theorem mem_accessesOf {tbl : List Access} {s : Nat} {e : Access} {f : Name}
    (h : tbl[s]? = some e) (hf : e.field = f) : e ∈ accessesOf tbl f := by
  unfold accessesOf
  rw [List.mem_filter]
  exact ⟨List.mem_of_getElem? h, by simp [hf]⟩

/-- If location `x.field` satisfies the static discipline in `tbl`, no well-formed trace that
conforms to `tbl` has a data race on (any instance of) that location. -/
theorem disciplined_no_race (tbl : List Access) (tr : Trace) (hwf : WellFormed tr) (hc : Conforms tbl tr)
    (x : Loc) (hd : locDisciplined tbl x.field = true) : RaceFreeOn tr x := by
  intro i j ⟨t, t', w, w', a, a', s, s', hij, hi, hj, htt, hww, haa, hnhb⟩
  obtain ⟨e, hes, hef, hew, hea, hel, hec⟩ := hc i t x w a s hi
  obtain ⟨e', hes', hef', hew', hea', hel', hec'⟩ := hc j t' x w' a' s' hj
  have hmem := mem_accessesOf hes hef
  have hmem' := mem_accessesOf hes' hef'
  by_cases hconf : e.threadConfined = true
  · rcases hec hconf j t' w' a' s' hj (Ne.symm htt) with h | h
    · exact hnhb h
    · exact absurd h.lt (by omega)
  by_cases hconf' : e'.threadConfined = true
  · rcases hec' hconf' i t w a s hi htt with h | h
    · exact absurd h.lt (by omega)
    · exact hnhb h
  unfold locDisciplined at hd
  rw [Bool.or_eq_true, Bool.or_eq_true] at hd
  rcases hd with (hA | hC) | hB
  · rw [List.all_eq_true] at hA
    have h1 := hA e hmem
    have h2 := hA e' hmem'
    simp [atomicOrConfined, hconf, hconf'] at h1 h2
    simp [h1, h2] at hea hea'
    subst hea hea'; simp at haa
  · rw [List.all_eq_true] at hC
    have h1 := hC e hmem
    have h2 := hC e' hmem'
    simp [readOrConfined, hconf, hconf'] at h1 h2
    rw [hew, hew', h1, h2] at hww
    exact absurd hww (by decide)
  · rw [List.any_eq_true] at hB
    obtain ⟨L, _, hall⟩ := hB
    rw [List.all_eq_true] at hall
    have h1 := hall e hmem
    have h2 := hall e' hmem'
    simp [guardedBy, hconf, hconf'] at h1 h2
    obtain ⟨⟨_, hL⟩, hrw⟩ := h1
    obtain ⟨⟨_, hL'⟩, hrw'⟩ := h2
    obtain ⟨m, hheld, hmw⟩ := hel L hL
    obtain ⟨m', hheld', hmw'⟩ := hel' L hL'
    have hm : (m || m') = true := by
      rw [Bool.or_eq_true] at hww ⊢
      rcases hww with h | h
      · left
        rcases hrw with hr | hr
        · rw [hew, hr] at h; exact absurd h (by decide)
        · exact hmw hr
      · right
        rcases hrw' with hr | hr
        · rw [hew', hr] at h; exact absurd h (by decide)
        · exact hmw' hr
    exact hnhb (held_common_lock_ordered tr hwf i j hij t t' htt ⟨L, x.obj⟩ m m' _ _ hi hj rfl rfl
      (fun _ h => Ev.noConfusion h) hheld hheld' hm)


/-- the corollary for whole tables: outside the exception list no location has a race -/
theorem table_disciplined_no_race (tbl : List Access) (except : List Name)
    (hd : tableDisciplinedExcept tbl except = true)
    (tr : Trace) (hwf : WellFormed tr) (hc : Conforms tbl tr)
    (x : Loc) (hx : x.field ∉ except) : RaceFreeOn tr x := by
  by_cases hf : x.field ∈ fieldsOf tbl
  · apply disciplined_no_race tbl tr hwf hc x
    unfold tableDisciplinedExcept at hd
    rw [List.all_eq_true] at hd
    have h := hd x.field hf
    rw [Bool.or_eq_true] at h
    rcases h with h | h
    · exact absurd (List.contains_iff_mem.mp h) hx
    · exact h
  · intro i j ⟨t, t', w, w', a, a', s, s', _, hi, _⟩
    obtain ⟨e, hes, hef, _⟩ := hc i t x w a s hi
    apply hf
    unfold fieldsOf
    rw [List.mem_eraseDups, List.mem_map]
    exact ⟨e, List.mem_of_getElem? hes, hef⟩

/-! ### the hypotheses are satisfiable; the conclusion is not vacuous -/

def exTbl : List Access :=
  [ { file := "ex.go", line := 10, func := "Get", field := b!"f", access := .read, mode := .plain,
      locksHeld := [b!"m"], locksWrite := [], readLockOnly := true, threadConfined := false, note := "" },
    { file := "ex.go", line := 20, func := "Set", field := b!"f", access := .write, mode := .plain,
      locksHeld := [b!"m"], locksWrite := [b!"m"], readLockOnly := false, threadConfined := false, note := "" } ]

theorem exTbl_disciplined : locDisciplined exTbl (b!"f") = true := by decide

def exLoc : Loc := ⟨b!"f", 0⟩
def exLock : LockId := ⟨b!"m", 0⟩

/-- thread 1 reads `f` under the read lock, then thread 2 writes `f` under the write lock -/
def exTrace : Trace :=
  [ .acq 1 exLock false, .acc 1 exLoc false false 0, .rel 1 exLock false,
    .acq 2 exLock true, .acc 2 exLoc true false 1, .rel 2 exLock true ]

theorem exTrace_wf : WellFormed exTrace := by
  intro k k' t t' l w w' hlt hk hk' hww
  rcases k' with _ | _ | _ | _ | k'
  · omega
  · simp [exTrace] at hk'
  · simp [exTrace] at hk'
  · rcases k with _ | _ | _ | k
    · simp [exTrace] at hk
      obtain ⟨rfl, rfl, rfl⟩ := hk
      exact ⟨2, by omega, by omega, by simp [exTrace]⟩
    · simp [exTrace] at hk
    · simp [exTrace] at hk
    · omega
  · rcases k' with _ | _ | k'
    · simp [exTrace] at hk'
    · simp [exTrace] at hk'
    · simp [exTrace] at hk'

theorem exTrace_conforms : Conforms exTbl exTrace := by
  intro i t x w a s hi
  rcases i with _ | _ | _ | _ | _ | _ | i
  · simp [exTrace] at hi
  · simp [exTrace] at hi
    obtain ⟨rfl, rfl, rfl, rfl, rfl⟩ := hi
    refine ⟨_, rfl, rfl, by decide, by decide, ?_, by simp⟩
    intro L hL
    simp at hL; subst hL
    refine ⟨false, ⟨0, by omega, rfl, fun m _ h1 h2 => by omega⟩, by simp⟩
  · simp [exTrace] at hi
  · simp [exTrace] at hi
  · simp [exTrace] at hi
    obtain ⟨rfl, rfl, rfl, rfl, rfl⟩ := hi
    refine ⟨_, rfl, rfl, by decide, by decide, ?_, by simp⟩
    intro L hL
    simp at hL; subst hL
    refine ⟨true, ⟨3, by omega, rfl, fun m _ h1 h2 => by omega⟩, by simp⟩
  · simp [exTrace] at hi
  · simp [exTrace] at hi

/-- so the theorem applies to the example: no race on `f` -/
theorem exTrace_race_free : RaceFreeOn exTrace exLoc :=
  disciplined_no_race exTbl exTrace exTrace_wf exTrace_conforms exLoc exTbl_disciplined

/-- two unlocked plain writes by different threads -/
def exBad : Trace := [ .acc 1 exLoc true false 0, .acc 2 exLoc true false 1 ]

theorem exBad_no_hb : ∀ i j, ¬ HB exBad i j := by
  intro i j h
  induction h with
  | trans _ _ ih _ => exact ih
  | @po i j a b hlt ha hb hab =>
    rcases j with _ | _ | j
    · omega
    · have : i = 0 := by omega
      subst this
      simp [exBad] at ha hb
      subst ha hb
      simp [Ev.thread] at hab
    · simp [exBad] at hb
  | @relW i j t t' l w hlt ha hb =>
    rcases i with _ | _ | i <;> simp [exBad] at ha
  | @relR i j t t' l hlt ha hb =>
    rcases i with _ | _ | i <;> simp [exBad] at ha
  | @atom i j t t' x w w' s s' hlt ha hb =>
    rcases i with _ | _ | i <;> simp [exBad] at ha

theorem exBad_race : RaceOn exBad exLoc 0 1 :=
  ⟨1, 2, true, true, false, false, 0, 1, by omega, rfl, rfl, by decide, rfl, rfl, exBad_no_hb 0 1⟩

/-! ### operational justification of `WellFormed`: traces accepted by a RW-lock machine -/

/-- the state of all locks: the exclusive holder, and the (multi)set of shared holders -/
structure LockState where
  writer : LockId → Option Thread
  readers : LockId → List Thread

def LockState.empty : LockState := ⟨fun _ => none, fun _ => []⟩

/-- one step of the lock machine (`none` = the event is not enabled):
`Lock` needs no holder at all, `RLock` needs no exclusive holder, `Unlock` / `RUnlock` need the
thread to be the exclusive holder / one of the shared holders; accesses are always enabled. -/
def LockState.step (s : LockState) : Ev → Option LockState
  | .acq t l true =>
    if s.writer l = none ∧ s.readers l = [] then
      some { s with writer := fun l' => if l' = l then some t else s.writer l' } else none
  | .acq t l false =>
    if s.writer l = none then
      some { s with readers := fun l' => if l' = l then t :: s.readers l else s.readers l' } else none
  | .rel t l true =>
    if s.writer l = some t then
      some { s with writer := fun l' => if l' = l then none else s.writer l' } else none
  | .rel t l false =>
    if t ∈ s.readers l then
      some { s with readers := fun l' => if l' = l then (s.readers l).erase t else s.readers l' } else none
  | .acc _ _ _ _ _ => some s

def LockState.run (s : LockState) : Trace → Option LockState
  | [] => some s
  | e :: tr =>
    match s.step e with
    | some s' => s'.run tr
    | none => none

/-- the machine runs the whole trace from the state where no lock is held -/
def Accepted (tr : Trace) : Prop := (LockState.empty.run tr).isSome = true

/-- thread `t` holds `l` in mode `w` in state `s` -/
def LockState.holds (s : LockState) (t : Thread) (l : LockId) : Bool → Prop
  | true => s.writer l = some t
  | false => t ∈ s.readers l

theorem LockState.step_acq_blocked {s : LockState} {t t' : Thread} {l : LockId} {w w' : Bool}
    (h : s.holds t l w) (hw : (w || w') = true) : s.step (.acq t' l w') = none := by
  cases w <;> cases w' <;> simp [holds] at h hw <;> simp [step, h]
  intro _ h2
  rw [h2] at h
  cases h

theorem LockState.step_acq_holds {s s1 : LockState} {t : Thread} {l : LockId} {w : Bool}
    (h : s.step (.acq t l w) = some s1) : s1.holds t l w := by
  cases w <;> simp [step] at h <;> obtain ⟨_, rfl⟩ := h <;> simp [holds]

theorem LockState.step_preserves {s s1 : LockState} {t : Thread} {l : LockId} {w : Bool} {e : Ev}
    (h : s.holds t l w) (hs : s.step e = some s1) (hne : e ≠ .rel t l w) : s1.holds t l w := by
  cases e with
  | acc => simp [step] at hs; subst hs; exact h
  | acq t2 l2 w2 =>
    cases w2 <;> cases w <;> simp [step, holds] at hs h ⊢ <;> obtain ⟨h0, rfl⟩ := hs <;> simp
    · split
      · next heq => subst heq; exact List.mem_cons_of_mem _ h
      · exact h
    · exact h
    · exact h
    · split
      · next heq => subst heq; rw [h0.1] at h; cases h
      · exact h
  | rel t2 l2 w2 =>
    cases w2 <;> cases w <;> simp [step, holds] at hs h hne ⊢ <;> obtain ⟨h0, rfl⟩ := hs <;> simp
    · split
      · next heq =>
        subst heq
        exact (List.mem_erase_of_ne (fun h' => hne h'.symm rfl)).mpr h
      · exact h
    · exact h
    · exact h
    · refine ⟨fun heq => ?_, h⟩
      subst heq
      rw [h0] at h
      exact hne (Option.some.inj h) rfl


/-- a lock held in state `s` blocks every conflicting acquisition until it is released -/
theorem LockState.run_blocked (tr : Trace) : ∀ (s : LockState) (k' : Nat) (t t' : Thread) (l : LockId) (w w' : Bool),
    s.holds t l w → (s.run tr).isSome = true → tr[k']? = some (.acq t' l w') → (w || w') = true →
    ∃ m, m < k' ∧ tr[m]? = some (.rel t l w) := by
  induction tr with
  | nil => intro s k' t t' l w w' _ _ hk'; simp at hk'
  | cons e tr ih =>
    intro s k' t t' l w w' hh hrun hk' hw
    cases k' with
    | zero =>
      simp at hk'; subst hk'
      simp [run, step_acq_blocked hh hw] at hrun
    | succ k' =>
      simp at hk'
      by_cases he : e = .rel t l w
      · exact ⟨0, by omega, by simp [he]⟩
      · simp only [run] at hrun
        split at hrun
        · next s1 hs =>
          obtain ⟨m, hm, hr⟩ := ih s1 k' t t' l w w' (step_preserves hh hs he) hrun hk' hw
          exact ⟨m + 1, by omega, by simpa using hr⟩
        · simp at hrun

theorem LockState.run_wellFormed (tr : Trace) : ∀ (s : LockState), (s.run tr).isSome = true → WellFormed tr := by
  induction tr with
  | nil => intro s _ k k' t t' l w w' _ hk; simp at hk
  | cons e tr ih =>
    intro s hrun k k' t t' l w w' hlt hk hk' hw
    simp only [run] at hrun
    split at hrun
    · next s1 hs =>
      cases k' with
      | zero => omega
      | succ k' =>
        simp at hk'
        cases k with
        | zero =>
          simp at hk; subst hk
          obtain ⟨m, hm, hr⟩ := run_blocked tr s1 k' t t' l w w' (step_acq_holds hs) hrun hk' hw
          exact ⟨m + 1, by omega, by omega, by simpa using hr⟩
        | succ k =>
          simp at hk
          obtain ⟨m, h1, h2, hr⟩ := ih s1 hrun k k' t t' l w w' (by omega) hk hk' hw
          exact ⟨m + 1, by omega, by omega, by simpa using hr⟩
    · simp at hrun

/-- every trace the lock machine accepts satisfies the axiomatic lock semantics `WellFormed` -/
theorem accepted_wellFormed (tr : Trace) (h : Accepted tr) : WellFormed tr :=
  LockState.run_wellFormed tr LockState.empty h

/-- the example trace is accepted by the machine (so `Accepted` is satisfiable by a locking trace) -/
theorem exTrace_accepted : Accepted exTrace := by
  simp [Accepted, exTrace, LockState.run, LockState.step, LockState.empty]

end KB.Locks
