/- Helper lemmas about the reference engine (sorted association list), used by C11. -/
import KB.Engine
namespace KB

/-! ### `Store.Sorted` as `List.Pairwise` -/

theorem Store.sorted_iff_pairwise (s : Store) :
    s.Sorted ↔ s.Pairwise (fun x y => cmp x.1 y.1 = .lt) := by
  induction s with
  | nil => simp [Store.Sorted]
  | cons x rest ih =>
    obtain ⟨k1, v1⟩ := x
    cases rest with
    | nil => simp [Store.Sorted]
    | cons y rest =>
      obtain ⟨k2, v2⟩ := y
      rw [List.pairwise_cons, ← ih]
      simp only [Store.Sorted]
      constructor
      · rintro ⟨h1, h2⟩
        refine ⟨?_, h2⟩
        intro z hz
        rcases List.mem_cons.1 hz with rfl | hz
        · exact h1
        · have hp := (List.pairwise_cons.1 (ih.1 h2)).1 z hz
          exact cmp_lt_trans h1 hp
      · rintro ⟨h1, h2⟩
        exact ⟨h1 (k2, v2) (List.mem_cons_self ..), h2⟩

theorem Store.sorted_cons {x : Bytes × Bytes} {s : Store} :
    Store.Sorted (x :: s) ↔ (∀ z ∈ s, cmp x.1 z.1 = .lt) ∧ Store.Sorted s := by
  rw [Store.sorted_iff_pairwise, Store.sorted_iff_pairwise, List.pairwise_cons]

/-! ### get / put / erase -/

theorem Store.get_eq_none_of_forall_lt (s : Store) (k : Bytes)
    (h : ∀ z ∈ s, cmp k z.1 = .lt) : s.get k = none := by
  cases s with
  | nil => rfl
  | cons x rest =>
    obtain ⟨k0, v0⟩ := x
    have := h (k0, v0) (List.mem_cons_self ..)
    simp only at this
    simp [Store.get, this]

theorem Store.mem_put {s : Store} {k v : Bytes} {z : Bytes × Bytes} (hz : z ∈ s.put k v) :
    z.1 = k ∨ z ∈ s := by
  induction s with
  | nil =>
    simp only [Store.put, List.mem_singleton] at hz
    subst hz; exact .inl rfl
  | cons x rest ih =>
    obtain ⟨k0, v0⟩ := x
    cases hc : cmp k k0 with
    | lt =>
      simp only [Store.put, hc, List.mem_cons] at hz
      rcases hz with rfl | hz
      · exact .inl rfl
      · exact .inr (List.mem_cons.2 hz)
    | eq =>
      simp only [Store.put, hc, List.mem_cons] at hz
      rcases hz with rfl | hz
      · exact .inl (cmp_eq_iff.1 hc).symm
      · exact .inr (List.mem_cons_of_mem _ hz)
    | gt =>
      simp only [Store.put, hc, List.mem_cons] at hz
      rcases hz with rfl | hz
      · exact .inr (List.mem_cons_self ..)
      · rcases ih hz with h | h
        · exact .inl h
        · exact .inr (List.mem_cons_of_mem _ h)

theorem Store.mem_erase {s : Store} {k : Bytes} {z : Bytes × Bytes} (hz : z ∈ s.erase k) :
    z ∈ s := by
  induction s with
  | nil => simp [Store.erase] at hz
  | cons x rest ih =>
    obtain ⟨k0, v0⟩ := x
    cases hc : cmp k k0 with
    | lt => simpa [Store.erase, hc] using hz
    | eq =>
      simp only [Store.erase, hc] at hz
      exact List.mem_cons_of_mem _ hz
    | gt =>
      simp only [Store.erase, hc, List.mem_cons] at hz
      rcases hz with rfl | hz
      · exact List.mem_cons_self ..
      · exact List.mem_cons_of_mem _ (ih hz)

theorem Store.put_sorted (s : Store) (hs : s.Sorted) (k v : Bytes) : (s.put k v).Sorted := by
  induction s with
  | nil => simp [Store.put, Store.Sorted]
  | cons x rest ih =>
    obtain ⟨k0, v0⟩ := x
    have hs' := Store.sorted_cons.1 hs
    cases hc : cmp k k0 with
    | lt =>
      simp only [Store.put, hc]
      refine Store.sorted_cons.2 ⟨?_, hs⟩
      intro z hz
      rcases List.mem_cons.1 hz with rfl | hz
      · exact hc
      · exact cmp_lt_trans hc (hs'.1 z hz)
    | eq =>
      simp only [Store.put, hc]
      exact Store.sorted_cons.2 ⟨hs'.1, hs'.2⟩
    | gt =>
      simp only [Store.put, hc]
      refine Store.sorted_cons.2 ⟨?_, ih hs'.2⟩
      intro z hz
      rcases Store.mem_put hz with h | h
      · rw [h]; exact cmp_gt_iff.1 hc
      · exact hs'.1 z h

theorem Store.erase_sorted (s : Store) (hs : s.Sorted) (k : Bytes) : (s.erase k).Sorted := by
  induction s with
  | nil => simp [Store.erase, Store.Sorted]
  | cons x rest ih =>
    obtain ⟨k0, v0⟩ := x
    have hs' := Store.sorted_cons.1 hs
    cases hc : cmp k k0 with
    | lt => simpa only [Store.erase, hc] using hs
    | eq => simpa only [Store.erase, hc] using hs'.2
    | gt =>
      simp only [Store.erase, hc]
      refine Store.sorted_cons.2 ⟨?_, ih hs'.2⟩
      intro z hz
      exact hs'.1 z (Store.mem_erase hz)

theorem Store.get_put (s : Store) (hs : s.Sorted) (k k' v : Bytes) :
    (s.put k v).get k' = if k' = k then some v else s.get k' := by
  induction s with
  | nil =>
    by_cases h : k' = k
    · subst h; simp [Store.put, Store.get]
    · have hne : cmp k' k ≠ .eq := fun hc => h (cmp_eq_iff.1 hc)
      simp only [Store.put, Store.get, h, if_false]
      cases hc : cmp k' k <;> simp_all
  | cons x rest ih =>
    obtain ⟨k0, v0⟩ := x
    have hs' := Store.sorted_cons.1 hs
    have ih := ih hs'.2
    cases hc : cmp k k0 with
    | lt =>
      simp only [Store.put, hc]
      by_cases h : k' = k
      · subst h; simp [Store.get]
      · have hne : cmp k' k ≠ .eq := fun hc => h (cmp_eq_iff.1 hc)
        simp only [h, if_false]
        cases hc' : cmp k' k with
        | lt =>
          have := cmp_lt_trans hc' hc
          simp [Store.get, hc', this]
        | eq => exact absurd hc' hne
        | gt => simp [Store.get, hc']
    | eq =>
      have hk : k = k0 := cmp_eq_iff.1 hc
      subst hk
      simp only [Store.put, hc]
      by_cases h : k' = k
      · subst h; simp [Store.get]
      · have hne : cmp k' k ≠ .eq := fun hc => h (cmp_eq_iff.1 hc)
        simp only [h, if_false, Store.get]
        cases hc' : cmp k' k with
        | lt => rfl
        | eq => exact absurd hc' hne
        | gt => rfl
    | gt =>
      simp only [Store.put, hc]
      by_cases h : k' = k
      · subst h
        simp only [Store.get, hc, ih, if_true]
      · simp only [h, if_false] at ih ⊢
        simp only [Store.get, ih]

theorem Store.get_erase (s : Store) (hs : s.Sorted) (k k' : Bytes) :
    (s.erase k).get k' = if k' = k then none else s.get k' := by
  induction s with
  | nil => simp [Store.erase, Store.get]
  | cons x rest ih =>
    obtain ⟨k0, v0⟩ := x
    have hs' := Store.sorted_cons.1 hs
    have ih := ih hs'.2
    cases hc : cmp k k0 with
    | lt =>
      simp only [Store.erase, hc]
      by_cases h : k' = k
      · subst h; simp [Store.get, hc]
      · simp [h]
    | eq =>
      have hk : k = k0 := cmp_eq_iff.1 hc
      subst hk
      simp only [Store.erase, hc]
      by_cases h : k' = k
      · subst h
        simp only [if_true]
        exact Store.get_eq_none_of_forall_lt _ _ hs'.1
      · have hne : cmp k' k ≠ .eq := fun hc => h (cmp_eq_iff.1 hc)
        simp only [h, if_false, Store.get]
        cases hc' : cmp k' k with
        | lt =>
          simp only
          exact Store.get_eq_none_of_forall_lt _ _
            (fun z hz => cmp_lt_trans hc' (hs'.1 z hz))
        | eq => exact absurd hc' hne
        | gt => rfl
    | gt =>
      simp only [Store.erase, hc]
      by_cases h : k' = k
      · subst h
        simp only [Store.get, hc, ih, if_true]
      · simp only [h, if_false] at ih ⊢
        simp only [Store.get, ih]

/-! ### `takeWhile` on a list along which the predicate is downward closed -/

theorem takeWhile_eq_filter_of_pairwise {α : Type _} (p : α → Bool) (R : α → α → Prop)
    (l : List α) (hl : l.Pairwise R) (hp : ∀ x y, R x y → p x = false → p y = false) :
    l.takeWhile p = l.filter p := by
  induction l with
  | nil => rfl
  | cons x xs ih =>
    have hl' := List.pairwise_cons.1 hl
    cases hx : p x with
    | true => simp [hx, ih hl'.2]
    | false =>
      simp only [List.takeWhile_cons, List.filter_cons, hx]
      symm
      simp only [Bool.false_eq_true, if_false]
      apply List.filter_eq_nil_iff.2
      intro y hy
      simp [hp x y (hl'.1 y hy) hx]

end KB
