/- Helper lemmas for C09 (unknown outcomes and the retry loop). -/
import KB.Props.C02Store
import KB.Props.C01
import KB.Props.C03
import KB.Lemmas.Engine
namespace KB
open Generated SysStore

/-! ### case analysis of a client step, keeping the link between the written key / value and the request -/

/-- key and value a create-path request writes (exactly the inline `match` of `stepClient`) -/
def ReqKind.kv : ReqKind → Bytes × Bytes
  | .create k v => (k, v)
  | .update k v _ => (k, v)
  | .delete k _ => (k, [])

theorem ReqKind.kv_key (k : ReqKind) : k.kv.1 = k.key := by cases k <;> rfl

theorem stepClient_cases' {P : G → Prop} (g : G) (c : Client) (f : Fault)
    (hStartCreate : ∀ key val, c.pc = .start → c.kind = .create key val →
      P (G.setClient { g with dealt := g.dealt + 1 } { c with pc := .createCommit (g.dealt + 1) }))
    (hStartUpdate : ∀ key val exp, c.pc = .start → c.kind = .update key val exp →
      P (if exp == 0 then G.setClient { g with dealt := g.dealt + 1 } { c with pc := .createCommit (g.dealt + 1) }
         else if g.dealt + 1 ≤ exp then
           (G.notify { g with dealt := g.dealt + 1 } (mkW (g.dealt + 1) exp false .put key val)).finish c (.error .drift) (g.dealt + 1)
         else G.setClient { g with dealt := g.dealt + 1 } { c with pc := .updateCommit (g.dealt + 1) }))
    (hCreateCommit : ∀ rev key val r st, c.pc = .createCommit rev → c.kind.kv = (key, val) →
      doCommit g.cfg g.store (createOps key val rev) f = (r, st) →
      P (match r with
         | .conflict idx cv =>
           if idx == some 0 then createSawIndex (afterCommit g r st f key rev (some val) .absent) c key val rev (cv.getD [])
           else (afterCommit g r st f key rev (some val) .absent).setClient { c with pc := .createReread rev }
         | r' => finishCreate (afterCommit g r st f key rev (some val) .absent) c key val rev r'))
    (hCreateReread : ∀ rev key val, c.pc = .createReread rev → c.kind.kv = (key, val) →
      P (match g.store.get (idxKey key) with
         | some old => createSawIndex g c key val rev old
         | none => g.setClient { c with pc := .createRetry rev }))
    (hCreateRetry : ∀ rev key val r st, c.pc = .createRetry rev → c.kind.kv = (key, val) →
      doCommit g.cfg g.store (createOps key val rev) f = (r, st) →
      P (finishCreate (afterCommit g r st f key rev (some val) .absent) c key val rev r))
    (hCreateOver : ∀ rev old att key val r st, c.pc = .createOver rev old att → c.kind.kv = (key, val) →
      doCommit g.cfg g.store [BOp.cas (idxKey key) (be8 rev) old, BOp.put (encode key rev) val] f = (r, st) →
      P (match r with
         | .conflict _ _ => (afterCommit g r st f key rev (some val) .absent).setClient { c with pc := .createRecheck rev att }
         | r' => finishCreate (afterCommit g r st f key rev (some val) .absent) c key val rev r'))
    (hCreateRecheck : ∀ rev att key val, c.pc = .createRecheck rev att → c.kind.kv = (key, val) →
      P (match g.store.get (idxKey key) with
         | some cur =>
           if g.cfg.creatorNoReeval || att ≥ 3 then finishCreate g c key val rev (.conflict none none)
           else createSawIndex g c key val rev cur (att + 1)
         | none => g.setClient { c with pc := .createRetry rev }))
    (hUpdateCommit : ∀ rev key val exp r st, c.pc = .updateCommit rev → c.kind = .update key val exp →
      doCommit g.cfg g.store [BOp.cas (idxKey key) (be8 rev) (be8 exp), BOp.put (encode key rev) val] f = (r, st) →
      P (match r with
         | .ok => ((afterCommit g r st f key rev (some val) (.rev exp)).notify
                    (mkW rev exp (r == .ok) .put key val (r == .uncertain))).finish c (.ok rev) rev
         | .conflict _ _ => ((afterCommit g r st f key rev (some val) (.rev exp)).notify
                    (mkW rev exp (r == .ok) .put key val (r == .uncertain))).setClient { c with pc := .readLatest rev none }
         | r' => ((afterCommit g r st f key rev (some val) (.rev exp)).notify
                    (mkW rev exp (r == .ok) .put key val (r == .uncertain))).finish c (.error (commitErr r')) rev))
    (hStartDelete : ∀ key exp, c.pc = .start → c.kind = .delete key exp →
      P (match bget g.cfg g.store key 0 with
         | .notFound _ => g.setClient { c with pc := .deleteDeal none }
         | .found v m => g.setClient { c with pc := .deleteDeal (some (v, m)) }))
    (hDeleteDealNone : ∀ key exp, c.pc = .deleteDeal none → c.kind = .delete key exp →
      P ((G.notify { g with dealt := g.dealt + 1 } (mkW (g.dealt + 1) 0 false .delete key [])).finish c
          (.notFound (g.dealt + 1)) (g.dealt + 1)))
    (hDeleteDealSome : ∀ oldVal modRev key exp, c.pc = .deleteDeal (some (oldVal, modRev)) → c.kind = .delete key exp →
      P (if exp > 0 && g.dealt + 1 ≤ exp then
           (G.notify { g with dealt := g.dealt + 1 } (mkW (g.dealt + 1) modRev false .delete key oldVal)).finish c (.error .drift) (g.dealt + 1)
         else if exp > 0 && exp != modRev then
           (G.notify { g with dealt := g.dealt + 1 } (mkW (g.dealt + 1) modRev false .delete key oldVal)).setClient
             { c with pc := .readLatest (g.dealt + 1) (some (key, oldVal, modRev)) }
         else if g.dealt + 1 ≤ modRev then
           (G.notify { g with dealt := g.dealt + 1 } (mkW (g.dealt + 1) modRev false .delete key oldVal)).finish c (.error .other) (g.dealt + 1)
         else G.setClient { g with dealt := g.dealt + 1 } { c with pc := .deleteCommit (g.dealt + 1) oldVal modRev }))
    (hDeleteCommit : ∀ rev oldVal modRev key exp r st, c.pc = .deleteCommit rev oldVal modRev → c.kind = .delete key exp →
      doCommit g.cfg g.store [BOp.cas (idxKey key) (be8 rev ++ [0]) (be8 modRev), BOp.put (encode key rev) tombstone] f = (r, st) →
      P (match r with
         | .ok => ((afterCommit g r st f key rev none (.rev modRev)).notify
                    (mkW rev modRev (r == .ok) .delete key oldVal (r == .uncertain))).finish c (.ok rev) rev
         | .conflict _ _ => ((afterCommit g r st f key rev none (.rev modRev)).notify
                    (mkW rev modRev (r == .ok) .delete key oldVal (r == .uncertain))).setClient
                      { c with pc := .readLatest rev (some (key, oldVal, modRev)) }
         | r' => ((afterCommit g r st f key rev none (.rev modRev)).notify
                    (mkW rev modRev (r == .ok) .delete key oldVal (r == .uncertain))).finish c (.error (commitErr r')) rev))
    (hReadLatest : ∀ rev fb, c.pc = .readLatest rev fb →
      P (match bget g.cfg g.store c.kind.key 0 with
         | .found v m => g.finish c (.condFailed (max rev m) (some (c.kind.key, v, m))) rev
         | .notFound _ => g.finish c (.condFailed rev fb) rev))
    (hNop : P g)
    (hRefuse : dealSite c = true → g.windowFull = true → P (g.refuse c (refusal c))) : P (stepClient g c f) := by
  unfold stepClient
  split
  · rename_i h
    simp only [Bool.and_eq_true] at h
    exact hRefuse h.1 h.2
  clear hRefuse
  obtain ⟨id, kind, pc, bd⟩ := c
  unfold stepClientCore
  split
  · exact hStartCreate _ _ ‹_› ‹_›
  · exact hStartUpdate _ _ _ ‹_› ‹_›
  · cases kind <;>
    · simp only []
      generalize hdc : doCommit g.cfg g.store (createOps _ _ _) f = p
      obtain ⟨r, st⟩ := p
      have hL := hCreateCommit _ _ _ r st ‹_› rfl hdc
      cases r <;> simpa only [afterCommit] using hL
  · cases kind <;> exact hCreateReread _ _ _ ‹_› rfl
  · cases kind <;>
    · simp only []
      generalize hdc : doCommit g.cfg g.store (createOps _ _ _) f = p
      obtain ⟨r, st⟩ := p
      have hL := hCreateRetry _ _ _ r st ‹_› rfl hdc
      cases r <;> simpa only [afterCommit] using hL
  · cases kind <;>
    · simp only []
      generalize hdc : doCommit g.cfg g.store _ f = p
      obtain ⟨r, st⟩ := p
      have hL := hCreateOver _ _ _ _ _ r st ‹_› rfl hdc
      cases r <;> simpa only [afterCommit] using hL
  · cases kind <;> exact hCreateRecheck _ _ _ _ ‹_› rfl
  · simp only []
    generalize hdc : doCommit g.cfg g.store _ f = p
    obtain ⟨r, st⟩ := p
    have hL := hUpdateCommit _ _ _ _ r st ‹_› ‹_› hdc
    cases r <;> simpa only [afterCommit] using hL
  · exact hStartDelete _ _ ‹_› ‹_›
  · exact hDeleteDealNone _ _ ‹_› ‹_›
  · exact hDeleteDealSome _ _ _ _ ‹_› ‹_›
  · simp only []
    generalize hdc : doCommit g.cfg g.store _ f = p
    obtain ⟨r, st⟩ := p
    have hL := hDeleteCommit _ _ _ _ _ r st ‹_› ‹_› hdc
    cases r <;> simpa only [afterCommit] using hL
  · exact hReadLatest _ _ ‹_›
  · exact hNop

/-! ### the effect of one client step -/

/-- the value a request writes (`none` for a delete) -/
def ReqKind.wval : ReqKind → Option Bytes
  | .create _ v => some v
  | .update _ v _ => some v
  | .delete _ _ => none

def Pc.createPath : Pc → Bool
  | .createCommit _ | .createReread _ | .createRetry _ | .createOver _ _ _ | .createRecheck _ _ => true
  | _ => false

def ValOK (v : Bytes) : Prop := v ≠ [] ∧ v ≠ tombstone

/-- per-request well-formedness: only creates / updates are on the create path -/
structure CK (c : Client) : Prop where
  path : c.pc.createPath = true → c.kind.wval = some c.kind.kv.2

/-- request kinds the convergence theorem is about: key over the alphabet, value neither empty nor the
deletion marker -/
structure KOK (k : ReqKind) : Prop where
  alph : Alphabet k.key
  val : ∀ v, k.wval = some v → ValOK v

/-- a revision the stepping request may report to the sequencer -/
def RevI (g : G) (c : Client) (r : Nat) : Prop :=
  c.pc.inflight = some r ∨ (c.pc.held = none ∧ r = g.dealt + 1)

/-- a revision the stepping request may hold / return with -/
def RevH (g : G) (c : Client) (r : Nat) : Prop :=
  c.pc.held = some r ∨ (c.pc.held = none ∧ r = g.dealt + 1)

theorem RevI.toH {g : G} {c : Client} {r : Nat} (h : RevI g c r) : RevH g c r := by
  rcases h with h | h
  · exact .inl (Pc.held_of_inflight h)
  · exact .inr h

def VerbOK (s : WEvent) (x : WLog) : Prop := (s.verb == .delete) = x.val.isNone

/-- what no client step touches -/
structure Frame (g g' : G) : Prop where
  cfg : g'.cfg = g.cfg
  retryQ : g'.retryQ = g.retryQ
  emitted : g'.emitted = g.emitted
  committed : g'.committed = g.committed
  retryPc : g'.retryPc = g.retryPc

/-- the step applied a batch: one log entry, its slot filled in the same step, the request returns -/
structure AppliedEff (g : G) (c : Client) (g' : G) (x : WLog) (s : WEvent) (d : Done) : Prop where
  frame : Frame g g'
  wlog : g'.wlog = g.wlog ++ [x]
  store : g'.store = wstore g.store x.key x.rev (be8 x.rev ++ flagOf x.val) (x.val.getD tombstone)
  slots : g'.slots = g.slots ++ [s]
  done : g'.done = g.done ++ [d]
  clients : g'.clients = others g.clients c.id
  dealt : g'.dealt = g.dealt
  infl : c.pc.inflight = some x.rev
  xkey : x.key = c.kind.key
  xval : ∀ v, x.val = some v → c.kind.wval = some v
  skey : s.key = x.key
  srev : s.rev = x.rev
  sflag : s.valid = true ∨ s.uncertain = true
  verb : VerbOK s x
  dkind : d.kind = c.kind
  drev : d.rev = x.rev
  dres : d.res = .ok x.rev ∨ ∃ e, d.res = .error e

/-- the step applied nothing -/
structure IdleEff (g : G) (c : Client) (g' : G) : Prop where
  frame : Frame g g'
  wlog : g'.wlog = g.wlog
  store : g'.store = g.store
  slots : ∃ sl, g'.slots = g.slots ++ sl ∧ sl.length ≤ 1 ∧
    ∀ s ∈ sl, s.valid = false ∧ s.key = c.kind.key ∧ RevI g c s.rev
  done : g'.done = g.done ∨ ∃ d, g'.done = g.done ++ [d] ∧ d.kind = c.kind ∧ (∀ rv, d.res ≠ .ok rv) ∧ RevH g c d.rev
  clients : ∀ c' ∈ g'.clients, (c' ∈ g.clients ∧ c'.id ≠ c.id) ∨
    (c'.id = c.id ∧ c'.kind = c.kind ∧ CK c' ∧ ∀ r, c'.pc.held = some r → RevH g c r)
  dealt : g'.dealt = g.dealt ∨ (g'.dealt = g.dealt + 1 ∧ c.pc.held = none)

def Eff (g : G) (c : Client) (g' : G) : Prop :=
  (∃ x s d, AppliedEff g c g' x s d) ∨ IdleEff g c g'

/-- intermediate state of a step that applies nothing: only `dealt` and `slots` may have moved -/
structure Mid (g : G) (c : Client) (g1 : G) (sl : List WEvent) : Prop where
  frame : Frame g g1
  wlog : g1.wlog = g.wlog
  store : g1.store = g.store
  slots : g1.slots = g.slots ++ sl
  done : g1.done = g.done
  clients : g1.clients = g.clients
  dealt : g1.dealt = g.dealt ∨ (g1.dealt = g.dealt + 1 ∧ c.pc.held = none)

theorem Mid.refl (g : G) (c : Client) : Mid g c g [] :=
  ⟨⟨rfl, rfl, rfl, rfl, rfl⟩, rfl, rfl, by simp, rfl, rfl, .inl rfl⟩

theorem Mid.deal (g : G) (c : Client) (h : c.pc.held = none) : Mid g c { g with dealt := g.dealt + 1 } [] :=
  ⟨⟨rfl, rfl, rfl, rfl, rfl⟩, rfl, rfl, by simp, rfl, rfl, .inr ⟨rfl, h⟩⟩

theorem Mid.notify {g : G} {c : Client} {g1 : G} (h : Mid g c g1 []) (s : WEvent) (hs : s.rev ≠ 0) :
    Mid g c (g1.notify s) [s] := by
  obtain ⟨⟨a1, a2, a3, a4, a5⟩, b, c', d, e, f', g'⟩ := h
  have hn : g1.notify s = { g1 with slots := g1.slots ++ [s] } := by simp [G.notify, hs]
  rw [hn]
  exact ⟨⟨a1, a2, a3, a4, a5⟩, b, c', by simpa using d, e, f', g'⟩

theorem mem_setClient {g : G} {c' x : Client} (h : x ∈ (g.setClient c').clients) :
    (x ∈ g.clients ∧ x.id ≠ c'.id) ∨ x = c' := by
  simp only [G.setClient, List.mem_map] at h
  obtain ⟨y, hy, rfl⟩ := h
  by_cases e : y.id = c'.id
  · right; simp [e]
  · left; simp [e, hy]

theorem Mid.finish {g : G} {c : Client} {g1 : G} {sl : List WEvent} (h : Mid g c g1 sl) (hl : sl.length ≤ 1)
    (hsl : ∀ s ∈ sl, s.valid = false ∧ s.key = c.kind.key ∧ RevI g c s.rev)
    {res : WriteRes} (hres : ∀ rv, res ≠ .ok rv) {rev : Nat} (hrev : RevH g c rev) :
    IdleEff g c (g1.finish c res rev) := by
  obtain ⟨⟨a1, a2, a3, a4, a5⟩, b, c', d, e, f', g'⟩ := h
  refine ⟨⟨a1, a2, a3, a4, a5⟩, b, c', ⟨sl, d, hl, hsl⟩, .inr ⟨_, by simp only [G.finish, e]; rfl, rfl, hres, hrev⟩, ?_, g'⟩
  intro x hx
  simp only [G.finish_clients, mem_others, f'] at hx
  exact .inl hx

theorem Mid.set {g : G} {c : Client} {g1 : G} {sl : List WEvent} (h : Mid g c g1 sl) (hl : sl.length ≤ 1)
    (hsl : ∀ s ∈ sl, s.valid = false ∧ s.key = c.kind.key ∧ RevI g c s.rev)
    {c' : Client} (hid : c'.id = c.id) (hkd : c'.kind = c.kind) (hck : CK c')
    (hh : ∀ r, c'.pc.held = some r → RevH g c r) :
    IdleEff g c (g1.setClient c') := by
  obtain ⟨⟨a1, a2, a3, a4, a5⟩, b, c'', d, e, f', g'⟩ := h
  refine ⟨⟨a1, a2, a3, a4, a5⟩, b, c'', ⟨sl, d, hl, hsl⟩, .inl e, ?_, g'⟩
  intro x hx
  rcases mem_setClient hx with ⟨h1, h2⟩ | rfl
  · rw [f'] at h1; rw [hid] at h2; exact .inl ⟨h1, h2⟩
  · exact .inr ⟨hid, hkd, hck, hh⟩

theorem afterCommit_idle {g : G} {r : CommitRes} {f : Fault} (ha : applied r f = false) (key : Bytes) (rev : Nat)
    (val : Option Bytes) (exp : Expect) : afterCommit g r g.store f key rev val exp = g := by
  simp [afterCommit, ha]

theorem applied_cases {r : CommitRes} {f : Fault} (ha : applied r f = true) : r = .ok ∨ r = .uncertain := by
  cases r <;> simp [applied] at ha ⊢

theorem not_ok_of_idle {r : CommitRes} {f : Fault} (ha : applied r f = false) : r ≠ .ok := by
  rintro rfl; simp [applied] at ha

theorem AppliedEff.mk' {g : G} {c : Client} {r : CommitRes} {f : Fault} {st : Store} {key : Bytes} {rev : Nat}
    {val : Option Bytes} {exp : Expect} {s : WEvent} {res : WriteRes}
    (ha : applied r f = true) (hst : st = wstore g.store key rev (be8 rev ++ flagOf val) (val.getD tombstone))
    (hi : c.pc.inflight = some rev) (h0 : rev ≠ 0) (hk : key = c.kind.key) (hv : ∀ v, val = some v → c.kind.wval = some v)
    (hsk : s.key = key) (hsr : s.rev = rev) (hsf : s.valid = true ∨ s.uncertain = true)
    (hverb : (s.verb == .delete) = val.isNone) (hres : res = .ok rev ∨ ∃ e, res = .error e) :
    AppliedEff g c (((afterCommit g r st f key rev val exp).notify s).finish c res rev)
      ⟨key, rev, val, exp⟩ s ⟨c.id, c.kind, res, rev, c.beginDealt, g.dealt⟩ := by
  have hs0 : (s.rev == 0) = false := by simp [hsr, h0]
  constructor <;> (try simp only [afterCommit, ha, if_true, G.notify, hs0, Bool.false_eq_true, if_false, G.finish,
    G.logWrite, hst])
  all_goals first
    | assumption
    | rfl
    | exact ⟨rfl, rfl, rfl, rfl, rfl⟩

theorem CK.setPc {c : Client} (h : CK c) {pc : Pc} (hp : pc.createPath = true → c.kind.wval = some c.kind.kv.2) :
    CK { c with pc := pc } := ⟨hp⟩

theorem eff_finishCreate_idle {g : G} {c : Client} {g1 : G} (h : Mid g c g1 []) (hck : CK c) {key : Bytes} (val : Bytes)
    {rev : Nat} (hi : c.pc.inflight = some rev) (h0 : rev ≠ 0) (hk : key = c.kind.key) {r : CommitRes} (hr : r ≠ .ok) :
    IdleEff g c (finishCreate g1 c key val rev r) := by
  unfold finishCreate
  have hm := h.notify (mkW rev 0 (r == .ok) .create key val (r == .uncertain)) h0
  have hsl : ∀ s ∈ [mkW rev 0 (r == .ok) .create key val (r == .uncertain)],
      s.valid = false ∧ s.key = c.kind.key ∧ RevI g c s.rev := by
    intro s hs
    simp only [List.mem_singleton] at hs
    subst hs
    exact ⟨by simp [mkW, hr], hk, .inl hi⟩
  have hh : RevH g c rev := .inl (Pc.held_of_inflight hi)
  split
  · exact absurd rfl hr
  · split
    · refine hm.set (by simp) hsl rfl rfl (hck.setPc (by simp [Pc.createPath])) ?_
      intro r' hr'
      simp only [Pc.held, Option.some.injEq] at hr'
      subst hr'; exact hh
    · exact hm.finish (by simp) hsl (by simp) hh
  · exact hm.finish (by simp) hsl (by simp) hh

theorem eff_createSawIndex {g : G} {c : Client} (hck : CK c) {key : Bytes} (val : Bytes)
    {rev : Nat} (hi : c.pc.inflight = some rev) (h0 : rev ≠ 0) (hk : key = c.kind.key)
    (hcp : c.pc.createPath = true) (old : Bytes) (att : Nat) :
    IdleEff g c (createSawIndex g c key val rev old att) := by
  have hne : (if att == 0 then CommitRes.err else CommitRes.conflict none none) ≠ .ok := by split <;> simp
  unfold createSawIndex
  split
  · exact eff_finishCreate_idle (Mid.refl g c) hck val hi h0 hk hne
  · split
    · refine (Mid.refl g c).set (by simp) (by simp) rfl rfl (hck.setPc (fun _ => hck.path hcp)) ?_
      intro r' hr'
      simp only [Pc.held, Pc.inflight, Option.some.injEq] at hr'
      subst hr'; exact .inl (Pc.held_of_inflight hi)
    · exact eff_finishCreate_idle (Mid.refl g c) hck val hi h0 hk (tombAbove_ne_ok _ _)

theorem eff_finishCreate_applied {g : G} {c : Client} (hck : CK c) {key val : Bytes} {rev : Nat}
    (hi : c.pc.inflight = some rev) (h0 : rev ≠ 0) (hkv : c.kind.kv = (key, val)) (hcp : c.pc.createPath = true)
    {r : CommitRes} {f : Fault} {st : Store} (ha : applied r f = true)
    (hst : st = (g.store.put (idxKey key) (be8 rev)).put (encode key rev) val) :
    ∃ x s d, AppliedEff g c (finishCreate (afterCommit g r st f key rev (some val) .absent) c key val rev r) x s d := by
  have hk : key = c.kind.key := by rw [← ReqKind.kv_key, hkv]
  have hv : ∀ v, some val = some v → c.kind.wval = some v := by
    intro v hv
    have := hck.path hcp
    rw [hkv] at this
    rw [this]; exact hv
  have hst' : st = wstore g.store key rev (be8 rev ++ flagOf (some val)) ((some val).getD tombstone) := by
    simp [wstore, flagOf, hst]
  rcases applied_cases ha with rfl | rfl
  · have h := AppliedEff.mk' (g := g) (c := c) (exp := .absent)
      (s := mkW rev 0 (CommitRes.ok == .ok) .create key val (CommitRes.ok == .uncertain)) (res := .ok rev)
      ha hst' hi h0 hk hv rfl rfl (.inl rfl) rfl (.inl rfl)
    exact ⟨_, _, _, by simpa only [finishCreate] using h⟩
  · have h := AppliedEff.mk' (g := g) (c := c) (exp := .absent)
      (s := mkW rev 0 (CommitRes.uncertain == .ok) .create key val (CommitRes.uncertain == .uncertain))
      (res := .error (commitErr .uncertain))
      ha hst' hi h0 hk hv rfl rfl (.inr rfl) rfl (.inr ⟨_, rfl⟩)
    exact ⟨_, _, _, by simpa only [finishCreate] using h⟩

/-- generic not-applied commit of update / delete: notify, then return ... -/
theorem eff_notify_finish_idle {g : G} {c : Client} {key : Bytes} {rev : Nat}
    (hi : c.pc.inflight = some rev) (h0 : rev ≠ 0) (hk : key = c.kind.key)
    (s : WEvent) (hs : s.rev = rev ∧ s.key = key ∧ s.valid = false) {res : WriteRes} (hres : ∀ rv, res ≠ .ok rv) :
    IdleEff g c ((g.notify s).finish c res rev) := by
  have hm := (Mid.refl g c).notify s (by rw [hs.1]; exact h0)
  refine hm.finish (by simp) ?_ hres (.inl (Pc.held_of_inflight hi))
  intro s' hs'
  simp only [List.mem_singleton] at hs'
  subst hs'
  exact ⟨hs.2.2, hs.2.1.trans hk, .inl (hs.1 ▸ hi)⟩

/-- ... or go on to read the latest value -/
theorem eff_notify_set_idle {g : G} {c : Client} (hck : CK c) {key : Bytes} {rev : Nat}
    (hi : c.pc.inflight = some rev) (h0 : rev ≠ 0) (hk : key = c.kind.key)
    (s : WEvent) (hs : s.rev = rev ∧ s.key = key ∧ s.valid = false) (fb : Option (Bytes × Bytes × Nat)) :
    IdleEff g c ((g.notify s).setClient { c with pc := .readLatest rev fb }) := by
  have hm := (Mid.refl g c).notify s (by rw [hs.1]; exact h0)
  refine hm.set (by simp) ?_ rfl rfl (hck.setPc (by simp [Pc.createPath])) ?_
  · intro s' hs'
    simp only [List.mem_singleton] at hs'
    subst hs'
    exact ⟨hs.2.2, hs.2.1.trans hk, .inl (hs.1 ▸ hi)⟩
  · intro r' hr'
    simp only [Pc.held, Option.some.injEq] at hr'
    subst hr'; exact .inl (Pc.held_of_inflight hi)

/-- Summary of one client step. -/
theorem stepClient_eff {g : G} {c : Client} (f : Fault) (hck : CK c) (hpos : ∀ r, c.pc.inflight = some r → r ≠ 0)
    (hid : ∀ c' ∈ g.clients, c'.id = c.id → c' = c) : Eff g c (stepClient g c f) := by
  apply stepClient_cases'
  · -- start / create
    intro key val hpc hk
    have hh : c.pc.held = none := by rw [hpc]; rfl
    refine .inr ((Mid.deal g c hh).set (by simp) (by simp) rfl rfl (hck.setPc (fun _ => by rw [hk]; rfl)) ?_)
    intro r hr
    simp only [Pc.held, Pc.inflight, Option.some.injEq] at hr
    exact .inr ⟨hh, hr.symm⟩
  · -- start / update
    intro key val exp hpc hk
    have hh : c.pc.held = none := by rw [hpc]; rfl
    have hkey : key = c.kind.key := by rw [hk]; rfl
    split
    · refine .inr ((Mid.deal g c hh).set (by simp) (by simp) rfl rfl (hck.setPc (fun _ => by rw [hk]; rfl)) ?_)
      intro r hr
      simp only [Pc.held, Pc.inflight, Option.some.injEq] at hr
      exact .inr ⟨hh, hr.symm⟩
    · split
      · refine .inr (((Mid.deal g c hh).notify _ (by simp [mkW])).finish (by simp) ?_ (by simp) (.inr ⟨hh, rfl⟩))
        intro s hs
        simp only [List.mem_singleton] at hs
        subst hs
        exact ⟨rfl, hkey, .inr ⟨hh, rfl⟩⟩
      · refine .inr ((Mid.deal g c hh).set (by simp) (by simp) rfl rfl (hck.setPc (by simp [Pc.createPath])) ?_)
        intro r hr
        simp only [Pc.held, Pc.inflight, Option.some.injEq] at hr
        exact .inr ⟨hh, hr.symm⟩
  · -- createCommit
    intro rev key val r st hpc hkv hdc
    have hi : c.pc.inflight = some rev := by rw [hpc]; rfl
    have hcp : c.pc.createPath = true := by rw [hpc]; rfl
    have h0 := hpos rev hi
    have hk : key = c.kind.key := by rw [← ReqKind.kv_key, hkv]
    rcases doCommit_pine_cases hdc with ⟨ha, _, hst⟩ | ⟨ha, hst⟩
    · have := eff_finishCreate_applied hck hi h0 hkv hcp ha hst
      rcases applied_cases ha with rfl | rfl <;> exact .inl this
    · subst hst
      rw [afterCommit_idle ha]
      have hne := not_ok_of_idle ha
      split
      · split
        · exact .inr (eff_createSawIndex hck val hi h0 hk hcp _ _)
        · refine .inr ((Mid.refl g c).set (by simp) (by simp) rfl rfl (hck.setPc (fun _ => hck.path hcp)) ?_)
          intro r' hr'
          simp only [Pc.held, Pc.inflight, Option.some.injEq] at hr'
          subst hr'; exact .inl (Pc.held_of_inflight hi)
      · exact .inr (eff_finishCreate_idle (Mid.refl g c) hck val hi h0 hk hne)
  · -- createReread
    intro rev key val hpc hkv
    have hi : c.pc.inflight = some rev := by rw [hpc]; rfl
    have hcp : c.pc.createPath = true := by rw [hpc]; rfl
    have h0 := hpos rev hi
    have hk : key = c.kind.key := by rw [← ReqKind.kv_key, hkv]
    split
    · exact .inr (eff_createSawIndex hck val hi h0 hk hcp _ _)
    · refine .inr ((Mid.refl g c).set (by simp) (by simp) rfl rfl (hck.setPc (fun _ => hck.path hcp)) ?_)
      intro r' hr'
      simp only [Pc.held, Pc.inflight, Option.some.injEq] at hr'
      subst hr'; exact .inl (Pc.held_of_inflight hi)
  · -- createRetry
    intro rev key val r st hpc hkv hdc
    have hi : c.pc.inflight = some rev := by rw [hpc]; rfl
    have hcp : c.pc.createPath = true := by rw [hpc]; rfl
    have h0 := hpos rev hi
    have hk : key = c.kind.key := by rw [← ReqKind.kv_key, hkv]
    rcases doCommit_pine_cases hdc with ⟨ha, _, hst⟩ | ⟨ha, hst⟩
    · exact .inl (eff_finishCreate_applied hck hi h0 hkv hcp ha hst)
    · subst hst
      rw [afterCommit_idle ha]
      exact .inr (eff_finishCreate_idle (Mid.refl g c) hck val hi h0 hk (not_ok_of_idle ha))
  · -- createOver
    intro rev old att key val r st hpc hkv hdc
    have hi : c.pc.inflight = some rev := by rw [hpc]; rfl
    have hcp : c.pc.createPath = true := by rw [hpc]; rfl
    have h0 := hpos rev hi
    have hk : key = c.kind.key := by rw [← ReqKind.kv_key, hkv]
    rcases doCommit_cas_cases hdc with ⟨ha, _, hst⟩ | ⟨ha, hst⟩
    · have := eff_finishCreate_applied hck hi h0 hkv hcp ha hst
      rcases applied_cases ha with rfl | rfl <;> exact .inl this
    · subst hst
      rw [afterCommit_idle ha]
      have hne := not_ok_of_idle ha
      split
      · refine .inr ((Mid.refl g c).set (by simp) (by simp) rfl rfl (hck.setPc (fun _ => hck.path hcp)) ?_)
        intro r' hr'
        simp only [Pc.held, Pc.inflight, Option.some.injEq] at hr'
        subst hr'; exact .inl (Pc.held_of_inflight hi)
      · exact .inr (eff_finishCreate_idle (Mid.refl g c) hck val hi h0 hk hne)
  · -- createRecheck
    intro rev att key val hpc hkv
    have hi : c.pc.inflight = some rev := by rw [hpc]; rfl
    have hcp : c.pc.createPath = true := by rw [hpc]; rfl
    have h0 := hpos rev hi
    have hk : key = c.kind.key := by rw [← ReqKind.kv_key, hkv]
    split
    · split
      · exact .inr (eff_finishCreate_idle (Mid.refl g c) hck val hi h0 hk (by simp))
      · exact .inr (eff_createSawIndex hck val hi h0 hk hcp _ _)
    · refine .inr ((Mid.refl g c).set (by simp) (by simp) rfl rfl (hck.setPc (fun _ => hck.path hcp)) ?_)
      intro r' hr'
      simp only [Pc.held, Pc.inflight, Option.some.injEq] at hr'
      subst hr'; exact .inl (Pc.held_of_inflight hi)
  · -- updateCommit
    intro rev key val exp r st hpc hkind hdc
    have hi : c.pc.inflight = some rev := by rw [hpc]; rfl
    have h0 := hpos rev hi
    have hk : key = c.kind.key := by rw [hkind]; rfl
    rcases doCommit_cas_cases hdc with ⟨ha, _, hst⟩ | ⟨ha, hst⟩
    · have hv : ∀ v, some val = some v → c.kind.wval = some v := fun v hv => by rw [hkind]; exact hv
      have hst' : st = wstore g.store key rev (be8 rev ++ flagOf (some val)) ((some val).getD tombstone) := by
        simp [wstore, flagOf, hst]
      rcases applied_cases ha with rfl | rfl
      · exact .inl ⟨_, _, _, AppliedEff.mk' ha hst' hi h0 hk hv rfl rfl (.inl rfl) rfl (.inl rfl)⟩
      · exact .inl ⟨_, _, _, AppliedEff.mk' ha hst' hi h0 hk hv rfl rfl (.inr rfl) rfl (.inr ⟨_, rfl⟩)⟩
    · subst hst
      rw [afterCommit_idle ha]
      have hne := not_ok_of_idle ha
      cases r with
      | ok => exact absurd rfl hne
      | conflict i cv => exact .inr (eff_notify_set_idle hck hi h0 hk _ ⟨rfl, rfl, rfl⟩ _)
      | _ => exact .inr (eff_notify_finish_idle hi h0 hk _ ⟨rfl, rfl, rfl⟩ (by simp))
  · -- start / delete
    intro key exp hpc hkind
    have hh : c.pc.held = none := by rw [hpc]; rfl
    split <;>
    · refine .inr ((Mid.refl g c).set (by simp) (by simp) rfl rfl (hck.setPc (by simp [Pc.createPath])) ?_)
      intro r hr
      simp [Pc.held, Pc.inflight] at hr
  · -- deleteDeal none
    intro key exp hpc hkind
    have hh : c.pc.held = none := by rw [hpc]; rfl
    have hkey : key = c.kind.key := by rw [hkind]; rfl
    refine .inr (((Mid.deal g c hh).notify _ (by simp [mkW])).finish (by simp) ?_ (by simp) (.inr ⟨hh, rfl⟩))
    intro s hs
    simp only [List.mem_singleton] at hs
    subst hs
    exact ⟨rfl, hkey, .inr ⟨hh, rfl⟩⟩
  · -- deleteDeal some
    intro oldVal modRev key exp hpc hkind
    have hh : c.pc.held = none := by rw [hpc]; rfl
    have hkey : key = c.kind.key := by rw [hkind]; rfl
    have hsl : ∀ s ∈ [mkW (g.dealt + 1) modRev false .delete key oldVal],
        s.valid = false ∧ s.key = c.kind.key ∧ RevI g c s.rev := by
      intro s hs
      simp only [List.mem_singleton] at hs
      subst hs
      exact ⟨rfl, hkey, .inr ⟨hh, rfl⟩⟩
    have hm := (Mid.deal g c hh).notify (mkW (g.dealt + 1) modRev false .delete key oldVal) (by simp [mkW])
    split
    · exact .inr (hm.finish (by simp) hsl (by simp) (.inr ⟨hh, rfl⟩))
    · split
      · refine .inr (hm.set (by simp) hsl rfl rfl (hck.setPc (by simp [Pc.createPath])) ?_)
        intro r hr
        simp only [Pc.held, Option.some.injEq] at hr
        exact .inr ⟨hh, hr.symm⟩
      · split
        · exact .inr (hm.finish (by simp) hsl (by simp) (.inr ⟨hh, rfl⟩))
        · refine .inr ((Mid.deal g c hh).set (by simp) (by simp) rfl rfl (hck.setPc (by simp [Pc.createPath])) ?_)
          intro r hr
          simp only [Pc.held, Pc.inflight, Option.some.injEq] at hr
          exact .inr ⟨hh, hr.symm⟩
  · -- deleteCommit
    intro rev oldVal modRev key exp r st hpc hkind hdc
    have hi : c.pc.inflight = some rev := by rw [hpc]; rfl
    have h0 := hpos rev hi
    have hk : key = c.kind.key := by rw [hkind]; rfl
    rcases doCommit_cas_cases hdc with ⟨ha, _, hst⟩ | ⟨ha, hst⟩
    · have hv : ∀ v, (none : Option Bytes) = some v → c.kind.wval = some v := by simp
      have hst' : st = wstore g.store key rev (be8 rev ++ flagOf none) ((none : Option Bytes).getD tombstone) := by
        simp [wstore, flagOf, hst]
      rcases applied_cases ha with rfl | rfl
      · exact .inl ⟨_, _, _, AppliedEff.mk' ha hst' hi h0 hk hv rfl rfl (.inl rfl) rfl (.inl rfl)⟩
      · exact .inl ⟨_, _, _, AppliedEff.mk' ha hst' hi h0 hk hv rfl rfl (.inr rfl) rfl (.inr ⟨_, rfl⟩)⟩
    · subst hst
      rw [afterCommit_idle ha]
      have hne := not_ok_of_idle ha
      cases r with
      | ok => exact absurd rfl hne
      | conflict i cv => exact .inr (eff_notify_set_idle hck hi h0 hk _ ⟨rfl, rfl, rfl⟩ _)
      | _ => exact .inr (eff_notify_finish_idle hi h0 hk _ ⟨rfl, rfl, rfl⟩ (by simp))
  · -- readLatest
    intro rev fb hpc
    have hh : RevH g c rev := .inl (by rw [hpc]; rfl)
    split
    · exact .inr ((Mid.refl g c).finish (by simp) (by simp) (by simp) hh)
    · exact .inr ((Mid.refl g c).finish (by simp) (by simp) (by simp) hh)
  · refine .inr ⟨⟨rfl, rfl, rfl, rfl, rfl⟩, rfl, rfl, ⟨[], by simp, by simp, by simp⟩, .inl rfl, fun c' hc' => ?_, .inl rfl⟩
    by_cases e : c'.id = c.id
    · have := hid c' hc' e
      subst this
      exact .inr ⟨rfl, rfl, hck, fun r hr => .inl hr⟩
    · exact .inl ⟨hc', e⟩
  · -- `Deal` refused: the request returns, nothing else moves
    intro _ _
    refine .inr ⟨⟨rfl, rfl, rfl, rfl, rfl⟩, rfl, rfl, ⟨[], by simp [G.refuse], by simp, by simp⟩, .inl rfl, fun c' hc' => ?_, .inl rfl⟩
    simp only [G.refuse, List.mem_filter, bne_iff_ne, ne_eq] at hc'
    exact .inl hc'

/-! ### acknowledged ⇒ applied, definite failure ⇒ not applied -/

/-- a definite failure: condition failed or key not found -/
def WriteRes.definite (r : WriteRes) : Prop := (∃ h kv, r = .condFailed h kv) ∨ (∃ h, r = .notFound h)

structure AckInv (g : G) : Prop where
  ck : ∀ c ∈ g.clients, CK c
  wle : ∀ w ∈ g.wlog, w.rev ≤ g.dealt
  held : ∀ c ∈ g.clients, ∀ r, c.pc.held = some r → ∀ w ∈ g.wlog, w.rev ≠ r
  ok : ∀ d ∈ g.done, ∀ rev, d.res = .ok rev → ∃ w ∈ g.wlog, w.rev = rev ∧ w.key = d.kind.key
  cf : ∀ d ∈ g.done, d.res.definite → ∀ w ∈ g.wlog, w.rev ≠ d.rev

theorem AckInv.init {g : G} (h : C02.Init g) : AckInv g := by
  obtain ⟨⟨_, _, hcl, _⟩, _, hw, hd⟩ := h
  constructor <;> simp [hcl, hw, hd]

theorem mem_client {g : G} {id : Nat} {c : Client} (h : g.client id = some c) : c ∈ g.clients ∧ c.id = id := by
  refine ⟨List.mem_of_find?_eq_some h, ?_⟩
  simpa using List.find?_some h

theorem AckInv.stepClient {g : G} (hf : FInv g.view) (h : AckInv g) {c : Client} (hc : c ∈ g.clients) (f : Fault) :
    AckInv (stepClient g c f) := by
  obtain ⟨hs, hd⟩ := hf
  have hpos : ∀ r, c.pc.inflight = some r → r ≠ 0 := by
    intro r hr
    have := hs.inflR c hc r hr
    omega
  have hid : ∀ c' ∈ g.clients, c'.id = c.id → c' = c := fun c' hc' e => hs.idU c' hc' c hc e
  rcases stepClient_eff f (h.ck c hc) hpos hid with ⟨x, s, d, e⟩ | e
  · have hxh : c.pc.held = some x.rev := Pc.held_of_inflight e.infl
    constructor
    · intro c' hc'
      rw [e.clients] at hc'
      exact h.ck c' (mem_others.mp hc').1
    · intro w hw
      rw [e.wlog] at hw
      rw [e.dealt]
      rcases List.mem_append.mp hw with hw | hw
      · exact h.wle w hw
      · simp only [List.mem_singleton] at hw
        subst hw
        exact (hs.inflD c hc _ e.infl).2
    · intro c' hc' r hr w hw
      rw [e.clients] at hc'
      obtain ⟨hc', hne⟩ := mem_others.mp hc'
      rw [e.wlog] at hw
      rcases List.mem_append.mp hw with hw | hw
      · exact h.held c' hc' r hr w hw
      · simp only [List.mem_singleton] at hw
        subst hw
        intro e'
        rw [← e'] at hr
        exact hne (congrArg Client.id (hs.heldU c' hc' c hc _ hr hxh))
    · intro d' hd' rev hres
      rw [e.done] at hd'
      rw [e.wlog]
      rcases List.mem_append.mp hd' with hd' | hd'
      · obtain ⟨w, hw, h1, h2⟩ := h.ok d' hd' rev hres
        exact ⟨w, List.mem_append_left _ hw, h1, h2⟩
      · simp only [List.mem_singleton] at hd'
        subst hd'
        refine ⟨x, by simp, ?_, by rw [e.xkey, e.dkind]⟩
        rcases e.dres with h1 | ⟨er, h1⟩
        · rw [h1] at hres; injection hres
        · rw [h1] at hres; cases hres
    · intro d' hd' hdef w hw
      rw [e.done] at hd'
      rw [e.wlog] at hw
      rcases List.mem_append.mp hd' with hd' | hd'
      · rcases List.mem_append.mp hw with hw | hw
        · exact h.cf d' hd' hdef w hw
        · simp only [List.mem_singleton] at hw
          subst hw
          intro e'
          exact hd.dHeld d' hd' c hc (by rw [← e']; exact hxh)
      · simp only [List.mem_singleton] at hd'
        subst hd'
        exfalso
        rcases e.dres with h1 | ⟨er, h1⟩ <;> rcases hdef with ⟨a, b, h2⟩ | ⟨a, h2⟩ <;> rw [h1] at h2 <;> cases h2
  · have hfresh : ∀ r, RevH g c r → ∀ w ∈ g.wlog, w.rev ≠ r := by
      intro r hr w hw
      rcases hr with hr | ⟨_, rfl⟩
      · exact h.held c hc r hr w hw
      · have := h.wle w hw; omega
    have hdl : g.dealt ≤ (KB.stepClient g c f).dealt := by
      rcases e.dealt with h1 | ⟨h1, _⟩ <;> omega
    constructor
    · intro c' hc'
      rcases e.clients c' hc' with ⟨h1, _⟩ | ⟨_, _, h1, _⟩
      · exact h.ck c' h1
      · exact h1
    · intro w hw
      rw [e.wlog] at hw
      exact Nat.le_trans (h.wle w hw) hdl
    · intro c' hc' r hr w hw
      rw [e.wlog] at hw
      rcases e.clients c' hc' with ⟨h1, _⟩ | ⟨_, _, _, h1⟩
      · exact h.held c' h1 r hr w hw
      · exact hfresh r (h1 r hr) w hw
    · intro d' hd' rev hres
      rw [e.wlog]
      rcases e.done with h1 | ⟨d, h1, _, h2, _⟩
      · rw [h1] at hd'; exact h.ok d' hd' rev hres
      · rw [h1] at hd'
        rcases List.mem_append.mp hd' with hd' | hd'
        · exact h.ok d' hd' rev hres
        · simp only [List.mem_singleton] at hd'
          subst hd'
          exact absurd hres (h2 rev)
    · intro d' hd' hdef w hw
      rw [e.wlog] at hw
      rcases e.done with h1 | ⟨d, h1, _, _, h2⟩
      · rw [h1] at hd'; exact h.cf d' hd' hdef w hw
      · rw [h1] at hd'
        rcases List.mem_append.mp hd' with hd' | hd'
        · exact h.cf d' hd' hdef w hw
        · simp only [List.mem_singleton] at hd'
          subst hd'
          exact hfresh _ h2 w hw

theorem AckInv.stepSeq {g : G} (h : AckInv g) : AckInv (stepSeq g) := by
  unfold KB.stepSeq
  split
  · exact h
  · exact ⟨h.ck, fun w hw => Nat.le_trans (h.wle w hw) (Nat.le_max_left _ _), h.held, h.ok, h.cf⟩

theorem AckInv.stepRetryRead {g : G} (h : AckInv g) : AckInv (stepRetryRead g) := by
  apply stepRetryRead_cases
  · intros; exact h
  · intros; exact h
  · intros; exact ⟨h.ck, h.wle, h.held, h.ok, h.cf⟩
  · intros
    exact ⟨h.ck, fun w hw => Nat.le_trans (h.wle w hw) (Nat.le_succ _), h.held, h.ok, h.cf⟩
  · intros; exact h

theorem AckInv.stepRetryCommit {g : G} (hf : FInv g.view) (h : AckInv g) (f : Fault) : AckInv (stepRetryCommit g f) := by
  obtain ⟨hs, hd⟩ := hf
  apply stepRetryCommit_cases
  · intro _; exact h
  · intro p r st hp _
    have hrpc : g.view.rpc = some p.rev := by simp [G.view, hp]
    have hsub : ∀ x ∈ (afterCommit { g with retryPc := none, retryQ := if r == CommitRes.ok || r.isCas then g.retryQ.drop 1 else g.retryQ }
            r st f p.w.key p.rev (if isTomb p.val then none else some p.val) (.rev p.w.rev)).wlog,
        x ∈ g.wlog ∨ x.rev = p.rev := by
      intro x hx
      unfold afterCommit at hx
      split at hx
      · simp only [G.logWrite, List.mem_append, List.mem_singleton] at hx
        rcases hx with hx | rfl
        · exact .inl hx
        · exact .inr rfl
      · exact .inl hx
    constructor
    · intro c hc
      simp only [G.notify_clients, afterCommit_clients] at hc
      exact h.ck c hc
    · intro x hx
      simp only [G.notify_wlog] at hx
      simp only [G.notify_dealt, afterCommit_dealt]
      rcases hsub x hx with hx | hx
      · exact h.wle x hx
      · have := (hs.rpcR _ hrpc).2
        have : p.rev ≤ g.dealt := this
        omega
    · intro c hc r' hr x hx
      simp only [G.notify_clients, afterCommit_clients] at hc
      simp only [G.notify_wlog] at hx
      rcases hsub x hx with hx | hx
      · exact h.held c hc r' hr x hx
      · intro e
        exact hs.rpcHeld c hc r' hr (by rw [hrpc, ← e, hx])
    · intro d hd' rev hres
      simp only [G.notify_done] at hd'
      have hd'' : d ∈ g.done := by
        unfold afterCommit at hd'; split at hd' <;> exact hd'
      obtain ⟨x, hx, h1, h2⟩ := h.ok d hd'' rev hres
      refine ⟨x, ?_, h1, h2⟩
      simp only [G.notify_wlog]
      unfold afterCommit; split
      · exact List.mem_append_left _ hx
      · exact hx
    · intro d hd' hdef x hx
      simp only [G.notify_done] at hd'
      have hd'' : d ∈ g.done := by
        unfold afterCommit at hd'; split at hd' <;> exact hd'
      simp only [G.notify_wlog] at hx
      rcases hsub x hx with hx | hx
      · exact h.cf d hd'' hdef x hx
      · intro e
        exact hd.dRpc d hd'' (by rw [hrpc, ← e, hx])

theorem AckInv.act {g : G} (hf : FInv g.view) (h : AckInv g) (a : Action) : AckInv (act g a) := by
  cases a with
  | begin id kind =>
    unfold KB.act; simp only []
    split
    · exact h
    · have hmem : ∀ x ∈ g.clients ++ [{ id := id, kind := kind, pc := .start, beginDealt := g.dealt }],
          x ∈ g.clients ∨ x.pc = .start := by
        intro x hx
        rcases List.mem_append.mp hx with hx | hx
        · exact .inl hx
        · simp only [List.mem_singleton] at hx; subst hx; exact .inr rfl
      refine ⟨?_, h.wle, ?_, h.ok, h.cf⟩
      · intro c hc
        rcases hmem c hc with hc | hc
        · exact h.ck c hc
        · exact ⟨by rw [hc]; intro e; cases e⟩
      · intro c hc r hr
        rcases hmem c hc with hc | hc
        · exact h.held c hc r hr
        · rw [hc] at hr; cases hr
  | step id f =>
    unfold KB.act; simp only []
    split
    · exact h
    · rename_i c hfind
      exact h.stepClient hf (mem_client hfind).1 f
  | seq => exact h.stepSeq
  | retry f => exact h.stepRetryRead.stepRetryCommit (stepRetryRead_P FInv.closed hf) f
  | retryRead => exact h.stepRetryRead
  | retryCommit f => exact h.stepRetryCommit hf f

/-- induction over reachable states, with reachability of the predecessor available -/
theorem Reachable.induct {g0 : G} {P : G → Prop} (h0 : P g0)
    (hstep : ∀ g a, Reachable g0 g → P g → P (act g a)) {g : G} (hr : Reachable g0 g) : P g := by
  obtain ⟨sched, rfl⟩ := hr
  suffices ∀ g, Reachable g0 g → P g → Reachable g0 (run g sched) ∧ P (run g sched) from
    (this g0 ⟨[], rfl⟩ h0).2
  induction sched with
  | nil => intro g hr hp; exact ⟨hr, hp⟩
  | cons a as ih => intro g hr hp; exact ih (KB.act g a) (hr.step a) (hstep g a hr hp)

theorem AckInv.reachable {g0 g : G} (h0 : C02.Init g0) (hr : Reachable g0 g) : AckInv g :=
  hr.induct (AckInv.init h0) (fun _ a hr' h => h.act (C02.finv h0 hr') a)

/-! ### the point read of a key returns its last applied write -/

/-- a sorted engine store all of whose keys are encodings (alphabet keys, 8-byte revisions) is the
encoding of a sorted decoded store -/
theorem exists_recs (store : Store) (hs : store.Sorted)
    (hk : ∀ kv ∈ store, ∃ k r, kv.1 = encode k r ∧ Alphabet k ∧ r < 2 ^ 64) :
    ∃ recs : List Rec, store = encodeStore recs ∧ SortedRecs recs ∧ ∀ r ∈ recs, Alphabet r.key ∧ r.rev < 2 ^ 64 := by
  induction store with
  | nil => exact ⟨[], rfl, List.Pairwise.nil, by simp⟩
  | cons x rest ih =>
    obtain ⟨hlt, hs'⟩ := Store.sorted_cons.mp hs
    obtain ⟨recs, hst, hsr, hall⟩ := ih hs' (fun kv hkv => hk kv (List.mem_cons_of_mem _ hkv))
    obtain ⟨k, r, hx, hka, hr⟩ := hk x (List.mem_cons_self ..)
    refine ⟨{ key := k, rev := r, val := x.2, ik := x.1 } :: recs, ?_, ?_, ?_⟩
    · simp only [encodeStore, List.map_cons]
      rw [← hx]
      congr 1
    · refine List.Pairwise.cons ?_ hsr
      intro q hq
      have hm : (encode q.key q.rev, q.val) ∈ rest := by rw [hst]; exact List.mem_map.mpr ⟨q, hq, rfl⟩
      have := hlt _ hm
      simp only [hx] at this
      rw [encode_cmp hka (hall q hq).1 hr (hall q hq).2] at this
      unfold recLt
      by_cases e : k = q.key
      · right
        simp only [e, if_true] at this
        exact ⟨e, Nat.compare_eq_lt.mp this⟩
      · left
        simpa [e] using this
    · intro q hq
      rcases List.mem_cons.mp hq with rfl | hq
      · exact ⟨hka, hr⟩
      · exact hall q hq

/-- The point read of a key returns its last applied write. -/
theorem getInternal_last (cfg : Cfg) {store : Store} {wlog : List WLog} (hs : store.Sorted)
    (hk : ∀ kv ∈ store, ∃ k r, kv.1 = encode k r ∧ Alphabet k ∧ r < 2 ^ 64 ∧
      (r = 0 ∨ ∃ x ∈ wlog, x.key = k ∧ x.rev = r))
    (hpw : ∀ k, ((wlog.filter (fun w => w.key == k)).map (·.rev)).Pairwise (· < ·))
    {k : Bytes} (hka : Alphabet k) {w : WLog} (hl : lastW wlog k = some w) (h0 : 0 < w.rev) (hb : w.rev < 2 ^ 64)
    {v : Bytes} (hget : store.get (encode k w.rev) = some v) :
    getInternal cfg store k 0 = some (v, w.rev) := by
  obtain ⟨recs, hst, hsr, hall⟩ := exists_recs store hs (fun kv hkv => by
    obtain ⟨k, r, h1, h2, h3, _⟩ := hk kv hkv
    exact ⟨k, r, h1, h2, h3⟩)
  rw [hst, C03.get_spec cfg hsr hall k hka 0 (by decide)]
  simp only [beq_self_eq_true, if_true]
  -- the record of the last write
  have hm : (encode k w.rev, v) ∈ encodeStore recs := by rw [← hst]; exact Store.mem_of_get hget
  obtain ⟨rs, hrs, e⟩ := List.mem_map.mp hm
  simp only [Prod.mk.injEq] at e
  obtain ⟨e1, e2⟩ := encode_inj (hall rs hrs).2 hb e.1
  have hvis : vis (2 ^ 64 - 1) k rs = true := vis_iff.mpr ⟨e1, by omega, by omega⟩
  have hmf : rs ∈ recs.filter (vis (2 ^ 64 - 1) k) := List.mem_filter.mpr ⟨hrs, hvis⟩
  rw [visible_def]
  cases hlast : (recs.filter (vis (2 ^ 64 - 1) k)).getLast? with
  | none =>
    rw [List.getLast?_eq_none_iff] at hlast
    rw [hlast] at hmf; cases hmf
  | some l =>
    have hlm := List.mem_filter.mp (List.mem_of_getLast? hlast)
    obtain ⟨hlk, hl0, _⟩ := vis_iff.mp hlm.2
    -- `l` is a logged write of `k`, hence not newer than `w`
    have hle : l.rev ≤ w.rev := by
      have hm' : (encode l.key l.rev, l.val) ∈ store := by rw [hst]; exact List.mem_map.mpr ⟨l, hlm.1, rfl⟩
      obtain ⟨k', r', h1, _, h3, h4⟩ := hk _ hm'
      obtain ⟨e3, e4⟩ := encode_inj (hall l hlm.1).2 h3 h1
      rcases h4 with h4 | ⟨x, hx, hxk, hxr⟩
      · omega
      · have hxm : x ∈ wlog.filter (fun w => w.key == k) :=
          List.mem_filter.mpr ⟨hx, by simp [hxk, ← e3, hlk]⟩
        have := pairwise_le_last (hpw k) hl hxm
        omega
    have : rs = l := by
      rcases pairwise_getLast (List.Pairwise.filter _ hsr) hlast hmf with h | h
      · exact h
      · exfalso
        rcases h with h | ⟨_, h⟩
        · rw [e1, hlk] at h; simp at h
        · omega
    subst this
    simp [e2, e.2]


/-! ### the convergence invariant -/

/-- the last applied write `w` of a key is accounted for: already emitted, or in a filled slot that the
sequencer will emit or queue, or in the retry queue -/
def Covered (em : List Event) (sl rq : List WEvent) (w : WLog) : Prop :=
  (∃ e ∈ em, e.rev = w.rev ∧ e.key = w.key ∧ (e.verb == .delete) = w.val.isNone) ∨
  (∃ s ∈ sl, s.rev = w.rev ∧ (s.valid = true ∨ s.uncertain = true)) ∨
  (∃ q ∈ rq, q.rev = w.rev)

theorem Covered.mono {em em' : List Event} {sl sl' rq rq' : List WEvent} {w : WLog} (h : Covered em sl rq w)
    (h1 : ∀ e ∈ em, e ∈ em') (h2 : ∀ s ∈ sl, s ∈ sl') (h3 : ∀ q ∈ rq, q ∈ rq') : Covered em' sl' rq' w := by
  rcases h with ⟨e, he, h⟩ | ⟨s, hs, h⟩ | ⟨q, hq, h⟩
  · exact .inl ⟨e, h1 e he, h⟩
  · exact .inr (.inl ⟨s, h2 s hs, h⟩)
  · exact .inr (.inr ⟨q, h3 q hq, h⟩)

def StoreKeys (store : Store) (wlog : List WLog) : Prop :=
  ∀ kv ∈ store, ∃ k r, kv.1 = encode k r ∧ Alphabet k ∧ r < 2 ^ 64 ∧ (r = 0 ∨ ∃ x ∈ wlog, x.key = k ∧ x.rev = r)

theorem StoreKeys.write {store : Store} {wlog : List WLog} (h : StoreKeys store wlog) (x : WLog) (new v : Bytes)
    (ha : Alphabet x.key) (hr : x.rev < 2 ^ 64) : StoreKeys (wstore store x.key x.rev new v) (wlog ++ [x]) := by
  intro kv hkv
  rcases Store.mem_put hkv with h1 | h1
  · exact ⟨x.key, x.rev, h1, ha, hr, .inr ⟨x, by simp, rfl, rfl⟩⟩
  · rcases Store.mem_put h1 with h2 | h2
    · exact ⟨x.key, 0, h2, ha, by decide, .inl rfl⟩
    · obtain ⟨k, r, a, b, c, d⟩ := h kv h2
      refine ⟨k, r, a, b, c, ?_⟩
      rcases d with d | ⟨y, hy, d⟩
      · exact .inl d
      · exact .inr ⟨y, List.mem_append_left _ hy, d⟩

theorem sorted_wstore {store : Store} (h : store.Sorted) (key : Bytes) (rev : Nat) (new v : Bytes) :
    (wstore store key rev new v).Sorted :=
  KB.Store.put_sorted _ (KB.Store.put_sorted _ h _ _) _ _

structure Cv (g : G) : Prop where
  kok : ∀ c ∈ g.clients, KOK c.kind
  salph : ∀ s ∈ g.slots, Alphabet s.key
  qalph : ∀ q ∈ g.retryQ, Alphabet q.key
  wval : ∀ x ∈ g.wlog, ∀ v, x.val = some v → ValOK v
  sorted : g.store.Sorted
  skeys : StoreKeys g.store g.wlog
  sv : ∀ s ∈ g.slots, ∀ x ∈ g.wlog, x.rev = s.rev → x.key = s.key ∧ VerbOK s x
  qv : ∀ q ∈ g.retryQ, ∀ x ∈ g.wlog, x.rev = q.rev → x.key = q.key ∧ VerbOK q x
  svalid : ∀ s ∈ g.slots, s.valid = true → ∃ x ∈ g.wlog, x.rev = s.rev
  suniq : ∀ s1 ∈ g.slots, ∀ s2 ∈ g.slots, s1.rev = s2.rev → s1 = s2
  qle : ∀ q ∈ g.retryQ, q.rev ≤ g.committed
  em : ∀ e ∈ g.emitted, e.rev ≤ g.committed ∧
    ∃ x ∈ g.wlog, x.rev = e.rev ∧ x.key = e.key ∧ (e.verb == .delete) = x.val.isNone
  emsorted : (g.emitted.map (·.rev)).Pairwise (· < ·)
  cover : ∀ k w, lastW g.wlog k = some w → Covered g.emitted g.slots g.retryQ w
  /-- the retry loop between its read and its commit is repairing the head of its queue ... -/
  pq : ∀ p, g.retryPc = some p → ∃ rest, g.retryQ = p.w :: rest
  /-- ... the value it read is not empty ... -/
  pne : ∀ p, g.retryPc = some p → p.val ≠ []
  /-- ... and is a deletion marker iff the write it repairs was a deletion -/
  pv : ∀ p, g.retryPc = some p → ∀ x ∈ g.wlog, x.rev = p.w.rev → isTomb p.val = x.val.isNone

/-- what is known of every reachable state (from the empty store) -/
structure Ctx (g0 g : G) : Prop where
  finv : FInv g.view
  sinv : SysStore.SInv g0 g
  ack : AckInv g
  st0 : g0.store = []

theorem G0OK.of_empty {g0 : G} (hs : g0.store = []) : G0OK g0 := by
  constructor
  · intro kv hkv; rw [hs] at hkv; cases hkv
  · intro k v m t hget; rw [hs] at hget; simp [Store.get] at hget

theorem Ctx.reachable {g0 g : G} (h0 : C02.Init g0) (hs : g0.store = []) (hr : Reachable g0 g) : Ctx g0 g := by
  refine ⟨C02.finv h0 hr, ?_, AckInv.reachable h0 hr, hs⟩
  obtain ⟨sched, rfl⟩ := hr
  exact (SysStore.SInv.init h0 (G0OK.of_empty hs)).run (G0OK.of_empty hs) (vinv_init h0) sched

theorem Cv.init {g : G} (h : C02.Init g) (hs : g.store = []) (hem : g.emitted = []) : Cv g := by
  obtain ⟨⟨_, hsl, hcl, hq, hp⟩, _, hw, _⟩ := h
  constructor <;> simp [hcl, hsl, hq, hp, hw, hs, hem, Store.Sorted, StoreKeys, lastW]

theorem Cv.stepSeq {g : G} (h : Cv g) : Cv (stepSeq g) := by
  unfold KB.stepSeq
  split
  · exact h
  · rename_i s hfind
    have hsm : s ∈ g.slots := List.mem_of_find?_eq_some hfind
    have hsr : s.rev = g.committed + 1 := by simpa using List.find?_some hfind
    have hfil : ∀ x, x ∈ g.slots.filter (fun x => x.rev != s.rev) ↔ x ∈ g.slots ∧ x.rev ≠ s.rev := by
      simp [List.mem_filter]
    have hrq : ∀ q ∈ (if (!s.valid && s.uncertain) = true then g.retryQ ++ [s] else g.retryQ),
        q ∈ g.retryQ ∨ (q = s ∧ s.valid = false ∧ s.uncertain = true) := by
      intro q hq
      split at hq
      · rename_i hc
        simp only [Bool.and_eq_true, Bool.not_eq_true'] at hc
        rcases List.mem_append.mp hq with hq | hq
        · exact .inl hq
        · exact .inr ⟨by simpa using hq, hc.1, hc.2⟩
      · exact .inl hq
    have hem : ∀ e ∈ (if s.valid = true then g.emitted ++ [mkEvent s] else g.emitted),
        e ∈ g.emitted ∨ (e = mkEvent s ∧ s.valid = true) := by
      intro e he
      split at he
      · rcases List.mem_append.mp he with he | he
        · exact .inl he
        · exact .inr ⟨by simpa using he, ‹_›⟩
      · exact .inl he
    constructor
    · exact h.kok
    · intro x hx; exact h.salph x ((hfil x).mp hx).1
    · intro q hq
      rcases hrq q hq with hq | ⟨rfl, _⟩
      · exact h.qalph q hq
      · exact h.salph q hsm
    · exact h.wval
    · exact h.sorted
    · exact h.skeys
    · intro x hx; exact h.sv x ((hfil x).mp hx).1
    · intro q hq
      rcases hrq q hq with hq | ⟨rfl, _⟩
      · exact h.qv q hq
      · exact h.sv q hsm
    · intro x hx; exact h.svalid x ((hfil x).mp hx).1
    · intro x hx y hy; exact h.suniq x ((hfil x).mp hx).1 y ((hfil y).mp hy).1
    · intro q hq
      show q.rev ≤ s.rev
      rcases hrq q hq with hq | ⟨rfl, _⟩
      · have := h.qle q hq; omega
      · exact Nat.le_refl _
    · intro e he
      show e.rev ≤ s.rev ∧ _
      rcases hem e he with he | ⟨rfl, hv⟩
      · obtain ⟨h1, h2⟩ := h.em e he
        exact ⟨by omega, h2⟩
      · obtain ⟨x, hx, hxr⟩ := h.svalid s hsm hv
        obtain ⟨hk, hvb⟩ := h.sv s hsm x hx hxr
        exact ⟨Nat.le_refl _, x, hx, hxr, hk, hvb⟩
    · show (List.map (·.rev) (if s.valid = true then g.emitted ++ [mkEvent s] else g.emitted)).Pairwise (· < ·)
      split
      · rw [List.map_append, List.pairwise_append]
        refine ⟨h.emsorted, by simp, ?_⟩
        intro a ha b hb
        obtain ⟨e, he, rfl⟩ := List.mem_map.mp ha
        simp only [List.map_cons, List.map_nil, List.mem_singleton] at hb
        subst hb
        have := (h.em e he).1
        show e.rev < s.rev
        omega
      · exact h.emsorted
    · intro k w hl
      show Covered (if s.valid = true then g.emitted ++ [mkEvent s] else g.emitted)
        (g.slots.filter (fun x => x.rev != s.rev))
        (if (!s.valid && s.uncertain) = true then g.retryQ ++ [s] else g.retryQ) w
      have hsubE : ∀ e ∈ g.emitted, e ∈ (if s.valid = true then g.emitted ++ [mkEvent s] else g.emitted) := by
        intro e he; split
        · exact List.mem_append_left _ he
        · exact he
      have hsubQ : ∀ q ∈ g.retryQ, q ∈ (if (!s.valid && s.uncertain) = true then g.retryQ ++ [s] else g.retryQ) := by
        intro q hq; split
        · exact List.mem_append_left _ hq
        · exact hq
      rcases h.cover k w hl with ⟨e, he, hh⟩ | ⟨s', hs', hr', hfl⟩ | ⟨q, hq, hh⟩
      · exact .inl ⟨e, hsubE e he, hh⟩
      · by_cases e : s'.rev = s.rev
        · have := h.suniq s' hs' s hsm e
          subst this
          by_cases hv : s'.valid = true
          · left
            obtain ⟨hk, hvb⟩ := h.sv s' hsm w (lastW_some hl).1 hr'.symm
            refine ⟨mkEvent s', by simp [hv], hr', hk.symm, hvb⟩
          · right; right
            have hu : s'.uncertain = true := by
              rcases hfl with hfl | hfl
              · exact absurd hfl hv
              · exact hfl
            have hv' : s'.valid = false := by simpa using hv
            exact ⟨s', by simp [hv', hu], hr'⟩
        · exact .inr (.inl ⟨s', (hfil s').mpr ⟨hs', e⟩, hr', hfl⟩)
      · exact .inr (.inr ⟨q, hsubQ q hq, hh⟩)
    · intro p hp
      obtain ⟨rest, hr⟩ := h.pq p hp
      show ∃ rest', (if (!s.valid && s.uncertain) = true then g.retryQ ++ [s] else g.retryQ) = p.w :: rest'
      split
      · exact ⟨rest ++ [s], by rw [hr]; rfl⟩
      · exact ⟨rest, hr⟩
    · exact h.pne
    · exact h.pv

theorem lastW_mem_ne {l : List WLog} {x : WLog} {k : Bytes} {w : WLog} (h : lastW (l ++ [x]) k = some w)
    (hne : x.key ≠ k) : lastW l k = some w := by
  rw [lastW_append, if_neg hne] at h; exact h

theorem Cv.stepClient {g0 g : G} (ctx : Ctx g0 g) (h : Cv g) {c : Client} (hc : c ∈ g.clients) (f : Fault)
    (hb : (stepClient g c f).dealt < 2 ^ 64) : Cv (stepClient g c f) := by
  obtain ⟨hs, hd⟩ := ctx.finv
  have hA := ctx.ack
  have hcore := ctx.sinv.core
  have hpos : ∀ r, c.pc.inflight = some r → r ≠ 0 := by
    intro r hr
    have := hs.inflR c hc r hr
    omega
  have hid : ∀ c' ∈ g.clients, c'.id = c.id → c' = c := fun c' hc' e => hs.idU c' hc' c hc e
  -- a revision the step may report is fresh: neither logged, nor in a slot
  have hfreshW : ∀ r, RevI g c r → ∀ x ∈ g.wlog, x.rev ≠ r := by
    intro r hr x hx
    rcases hr with hr | ⟨_, rfl⟩
    · exact hA.held c hc r (Pc.held_of_inflight hr) x hx
    · have := hA.wle x hx; omega
  have hfreshS : ∀ r, RevI g c r → ∀ s ∈ g.slots, s.rev ≠ r := by
    intro r hr s hsm e
    rcases hr with hr | ⟨_, rfl⟩
    · exact hs.slotInfl s hsm c hc (e ▸ hr)
    · have := (hs.slotR s hsm).2
      have : s.rev ≤ g.dealt := this
      omega
  have hkok := h.kok c hc
  rcases stepClient_eff f (hA.ck c hc) hpos hid with ⟨x, s, d, e⟩ | e
  · -- a batch was applied
    have hri : RevI g c x.rev := .inl e.infl
    have hxle : x.rev < 2 ^ 64 := by
      have := (hs.inflD c hc _ e.infl).2
      have h2 : x.rev ≤ g.dealt := this
      rw [e.dealt] at hb
      omega
    have hxa : Alphabet x.key := by rw [e.xkey]; exact hkok.alph
    have hcm : g.committed < x.rev := hs.inflR c hc _ e.infl
    constructor
    · intro c' hc'
      rw [e.clients] at hc'
      exact h.kok c' (mem_others.mp hc').1
    · intro s' hs'
      rw [e.slots] at hs'
      rcases List.mem_append.mp hs' with hs' | hs'
      · exact h.salph s' hs'
      · simp only [List.mem_singleton] at hs'; subst hs'; rw [e.skey]; exact hxa
    · rw [e.frame.retryQ]; exact h.qalph
    · intro y hy v hv
      rw [e.wlog] at hy
      rcases List.mem_append.mp hy with hy | hy
      · exact h.wval y hy v hv
      · simp only [List.mem_singleton] at hy; subst hy
        exact hkok.val v (e.xval v hv)
    · rw [e.store]; exact sorted_wstore h.sorted ..
    · rw [e.store, e.wlog]; exact h.skeys.write x _ _ hxa hxle
    · intro s' hs' y hy hyr
      rw [e.slots] at hs'
      rw [e.wlog] at hy
      rcases List.mem_append.mp hs' with hs' | hs'
      · rcases List.mem_append.mp hy with hy | hy
        · exact h.sv s' hs' y hy hyr
        · simp only [List.mem_singleton] at hy; subst hy
          exact absurd hyr.symm (hfreshS _ hri s' hs')
      · simp only [List.mem_singleton] at hs'; subst hs'
        rcases List.mem_append.mp hy with hy | hy
        · exact absurd (hyr.trans e.srev) (hfreshW _ hri y hy)
        · simp only [List.mem_singleton] at hy; subst hy
          exact ⟨e.skey.symm, e.verb⟩
    · intro q hq y hy hyr
      rw [e.frame.retryQ] at hq
      rw [e.wlog] at hy
      rcases List.mem_append.mp hy with hy | hy
      · exact h.qv q hq y hy hyr
      · simp only [List.mem_singleton] at hy; subst hy
        have := h.qle q hq
        omega
    · intro s' hs' hv
      rw [e.slots] at hs'
      rw [e.wlog]
      rcases List.mem_append.mp hs' with hs' | hs'
      · obtain ⟨y, hy, hyr⟩ := h.svalid s' hs' hv
        exact ⟨y, List.mem_append_left _ hy, hyr⟩
      · simp only [List.mem_singleton] at hs'; subst hs'
        exact ⟨x, by simp, e.srev.symm⟩
    · intro s1 h1 s2 h2 e12
      rw [e.slots] at h1 h2
      rcases List.mem_append.mp h1 with h1' | h1' <;> rcases List.mem_append.mp h2 with h2' | h2'
      · exact h.suniq s1 h1' s2 h2' e12
      · simp only [List.mem_singleton] at h2'
        exact absurd (e12.trans (h2' ▸ e.srev)) (hfreshS _ hri s1 h1')
      · simp only [List.mem_singleton] at h1'
        exact absurd (e12.symm.trans (h1' ▸ e.srev)) (hfreshS _ hri s2 h2')
      · simp only [List.mem_singleton] at h1' h2'; rw [h1', h2']
    · rw [e.frame.retryQ, e.frame.committed]; exact h.qle
    · intro ev hev
      rw [e.frame.emitted] at hev
      rw [e.frame.committed, e.wlog]
      obtain ⟨h1, y, hy, h2⟩ := h.em ev hev
      exact ⟨h1, y, List.mem_append_left _ hy, h2⟩
    · rw [e.frame.emitted]; exact h.emsorted
    · intro k w hl
      rw [e.frame.emitted, e.slots, e.frame.retryQ]
      rw [e.wlog, lastW_append] at hl
      split at hl
      · simp only [Option.some.injEq] at hl; subst hl
        exact .inr (.inl ⟨s, by simp, e.srev, e.sflag⟩)
      · exact (h.cover k w hl).mono (fun _ h => h) (fun _ h => List.mem_append_left _ h) (fun _ h => h)
    · rw [e.frame.retryPc, e.frame.retryQ]; exact h.pq
    · rw [e.frame.retryPc]; exact h.pne
    · intro p hp y hy hyr
      rw [e.frame.retryPc] at hp
      rw [e.wlog] at hy
      rcases List.mem_append.mp hy with hy | hy
      · exact h.pv p hp y hy hyr
      · simp only [List.mem_singleton] at hy; subst hy
        obtain ⟨rest, hr⟩ := h.pq p hp
        have := h.qle p.w (by rw [hr]; exact List.mem_cons_self ..)
        omega
  · -- nothing applied
    obtain ⟨sl, hsl, hlen, hprop⟩ := e.slots
    have hcm : g.committed = (KB.stepClient g c f).committed := e.frame.committed.symm
    constructor
    · intro c' hc'
      rcases e.clients c' hc' with ⟨h1, _⟩ | ⟨_, h1, _, _⟩
      · exact h.kok c' h1
      · rw [h1]; exact hkok
    · intro s' hs'
      rw [hsl] at hs'
      rcases List.mem_append.mp hs' with hs' | hs'
      · exact h.salph s' hs'
      · rw [(hprop s' hs').2.1]; exact hkok.alph
    · rw [e.frame.retryQ]; exact h.qalph
    · rw [e.wlog]; exact h.wval
    · rw [e.store]; exact h.sorted
    · rw [e.store, e.wlog]; exact h.skeys
    · intro s' hs' y hy hyr
      rw [hsl] at hs'
      rw [e.wlog] at hy
      rcases List.mem_append.mp hs' with hs' | hs'
      · exact h.sv s' hs' y hy hyr
      · exact absurd hyr (hfreshW _ (hprop s' hs').2.2 y hy)
    · rw [e.frame.retryQ, e.wlog]; exact h.qv
    · intro s' hs' hv
      rw [hsl] at hs'
      rw [e.wlog]
      rcases List.mem_append.mp hs' with hs' | hs'
      · exact h.svalid s' hs' hv
      · rw [(hprop s' hs').1] at hv; cases hv
    · intro s1 h1 s2 h2 e12
      rw [hsl] at h1 h2
      rcases List.mem_append.mp h1 with h1 | h1 <;> rcases List.mem_append.mp h2 with h2 | h2
      · exact h.suniq s1 h1 s2 h2 e12
      · exact absurd e12 (hfreshS _ (hprop s2 h2).2.2 s1 h1)
      · exact absurd e12.symm (hfreshS _ (hprop s1 h1).2.2 s2 h2)
      · match sl, hlen, h1, h2 with
        | [a], _, h1, h2 =>
          simp only [List.mem_singleton] at h1 h2; rw [h1, h2]
    · rw [e.frame.retryQ, e.frame.committed]; exact h.qle
    · rw [e.frame.emitted, e.frame.committed, e.wlog]; exact h.em
    · rw [e.frame.emitted]; exact h.emsorted
    · intro k w hl
      rw [e.frame.emitted, hsl, e.frame.retryQ]
      rw [e.wlog] at hl
      exact (h.cover k w hl).mono (fun _ h => h) (fun _ h => List.mem_append_left _ h) (fun _ h => h)
    · rw [e.frame.retryPc, e.frame.retryQ]; exact h.pq
    · rw [e.frame.retryPc]; exact h.pne
    · rw [e.frame.retryPc, e.wlog]; exact h.pv

theorem tombstone_ne_nil : tombstone ≠ [] := by decide

theorem isTomb_getD {o : Option Bytes} (h : ∀ v, o = some v → ValOK v) :
    isTomb (o.getD tombstone) = o.isNone ∧ o.getD tombstone ≠ [] := by
  cases o with
  | none => exact ⟨by simp [isTomb], tombstone_ne_nil⟩
  | some v =>
    obtain ⟨h1, h2⟩ := h v rfl
    exact ⟨by simp [isTomb, h2], h1⟩

/-- in a reachable state the point read of a key returns its last applied write -/
theorem read_last {g0 g : G} (ctx : Ctx g0 g) (h : Cv g) (hb : g.dealt < 2 ^ 64) {k : Bytes} (hka : Alphabet k)
    {w : WLog} (hl : lastW g.wlog k = some w) :
    getInternal g.cfg g.store k 0 = some (w.val.getD tombstone, w.rev) ∧
      g.store.get (idxKey k) = some (be8 w.rev ++ flagOf w.val) := by
  have hcore := ctx.sinv.core
  have hi := hcore.idx hb k
  rw [hl] at hi
  simp only [IdxOK] at hi
  have hr := hcore.revs w (lastW_some hl).1
  refine ⟨?_, hi.1⟩
  exact getInternal_last g.cfg h.sorted h.skeys (fun k => chain_pairwise (hcore.chain hb) k) hka hl
    (by omega) (by omega) hi.2

theorem flag_eq_iff {b : Bool} {o : Option Bytes} (h : (if b = true then ([0] : Bytes) else []) = flagOf o) :
    b = o.isNone := by
  cases b <;> cases o <;> simp [flagOf] at h ⊢

theorem flag_of_eq {b : Bool} {o : Option Bytes} (h : b = o.isNone) :
    (if b = true then ([0] : Bytes) else []) = flagOf o := by
  subst h; cases o <;> rfl

/-- a commit whose condition holds never answers "conflict" -/
theorem doCommit_ok_not_conflict {c : Cfg} {st st' : Store} {ops : List BOp} {f : Fault}
    (h : commit c.q st ops = .ok st') (i : Option Nat) (cv : Option Bytes) : (doCommit c st ops f).1 ≠ .conflict i cv := by
  unfold doCommit
  rw [h]
  cases f <;> simp

/-- projections of the state after the retry loop's rewrite -/
theorem retry_write_proj (g : G) (q : WEvent) (rev : Nat) (Q : List WEvent) (r : CommitRes) (st : Store) (f : Fault)
    (val : Option Bytes) (h0 : rev ≠ 0) :
    let x : WLog := ⟨q.key, rev, val, .rev q.rev⟩
    let s : WEvent := { q with rev := rev, valid := r == .ok, uncertain := r == .uncertain }
    let g' := (afterCommit { g with retryPc := none, retryQ := Q } r st f q.key rev val (.rev q.rev)).notify s
    g'.slots = g.slots ++ [s] ∧ g'.retryQ = Q ∧ g'.emitted = g.emitted ∧ g'.committed = g.committed ∧
      g'.clients = g.clients ∧ g'.dealt = g.dealt ∧ g'.store = st ∧ g'.cfg = g.cfg ∧ g'.retryPc = none ∧
      g'.wlog = (if applied r f = true then g.wlog ++ [x] else g.wlog) := by
  simp only [G.notify, afterCommit, h0, beq_iff_eq, if_false]
  split <;> simp [G.logWrite]

/-- The retry loop's read: the head is dropped only if it is not the last write of its key; otherwise the
loop remembers what it read. -/
theorem Cv.stepRetryRead {g0 g : G} (ctx : Ctx g0 g) (h : Cv g)
    (hb' : (stepRetryRead g).dealt < 2 ^ 64) : Cv (stepRetryRead g) := by
  revert hb'
  apply stepRetryRead_cases (P := fun g' => g'.dealt < 2 ^ 64 → Cv g')
  · intro _ _ _; exact h
  · intro _ _ _; exact h
  · -- the head is dropped: it is not the last write of its key
    intro q rest hn hq hpop hb
    have hsub : ∀ x ∈ rest, x ∈ g.retryQ := fun x hx => by rw [hq]; exact List.mem_cons_of_mem _ hx
    have hqm : q ∈ g.retryQ := by rw [hq]; exact List.mem_cons_self ..
    refine ⟨h.kok, h.salph, fun x hx => h.qalph x (hsub x hx), h.wval, h.sorted, h.skeys, h.sv,
      fun x hx => h.qv x (hsub x hx), h.svalid, h.suniq, fun x hx => h.qle x (hsub x hx), h.em, h.emsorted, ?_,
      ?_, ?_, ?_⟩
    rotate_left
    · intro p hp
      have hp' : g.retryPc = some p := hp
      rw [hn] at hp'; cases hp'
    · intro p hp
      have hp' : g.retryPc = some p := hp
      rw [hn] at hp'; cases hp'
    · intro p hp
      have hp' : g.retryPc = some p := hp
      rw [hn] at hp'; cases hp'
    intro k w hl
    show Covered g.emitted g.slots rest w
    rcases h.cover k w hl with hc | hc | ⟨q', hq', hr'⟩
    · exact .inl hc
    · exact .inr (.inl hc)
    · rw [hq] at hq'
      rcases List.mem_cons.mp hq' with rfl | hq'
      · exfalso
        obtain ⟨hk, _⟩ := h.qv q' hqm w (lastW_some hl).1 hr'.symm
        have hkk : k = q'.key := (lastW_some hl).2.symm.trans hk
        subst hkk
        obtain ⟨hget, _⟩ := read_last ctx h hb (h.qalph q' hqm) hl
        have hne := (isTomb_getD (h.wval w (lastW_some hl).1)).2
        rcases hpop with hp | ⟨val, m, hp, hp'⟩
        · rw [hp] at hget; cases hget
        · rw [hp] at hget
          simp only [Option.some.injEq, Prod.mk.injEq] at hget
          rcases hp' with hp' | hp'
          · exact hne (hget.1 ▸ hp')
          · exact hp' (hget.2.trans hr'.symm)
      · exact .inr (.inr ⟨q', hq', hr'⟩)
  · -- the head is still the newest version of its key: a revision is dealt, nothing else moves
    intro w rest val hn hq hget hne _ hb
    have hb0 : g.dealt < 2 ^ 64 := by
      have : g.dealt + 1 < 2 ^ 64 := hb
      omega
    have hqm : w ∈ g.retryQ := by rw [hq]; exact List.mem_cons_self ..
    refine ⟨h.kok, h.salph, h.qalph, h.wval, h.sorted, h.skeys, h.sv, h.qv, h.svalid, h.suniq, h.qle, h.em,
      h.emsorted, h.cover, ?_, ?_, ?_⟩
    · intro p hp
      have hp' : some ({ w := w, rev := g.dealt + 1, val := val } : RetryPc) = some p := hp
      simp only [Option.some.injEq] at hp'
      subst hp'
      exact ⟨rest, hq⟩
    · intro p hp
      have hp' : some ({ w := w, rev := g.dealt + 1, val := val } : RetryPc) = some p := hp
      simp only [Option.some.injEq] at hp'
      subst hp'
      exact hne
    · intro p hp x hx hxr
      have hp' : some ({ w := w, rev := g.dealt + 1, val := val } : RetryPc) = some p := hp
      simp only [Option.some.injEq] at hp'
      subst hp'
      have hx' : x ∈ g.wlog := hx
      have hxr' : x.rev = w.rev := hxr
      obtain ⟨hk, hvb⟩ := h.qv w hqm x hx' hxr'
      cases hl : lastW g.wlog w.key with
      | none =>
        exfalso
        have hnil : g.wlog.filter (fun y => y.key == w.key) = [] := List.getLast?_eq_none_iff.mp hl
        have : x ∈ g.wlog.filter (fun y => y.key == w.key) := List.mem_filter.mpr ⟨hx', by simp [hk]⟩
        rw [hnil] at this; cases this
      | some x' =>
        obtain ⟨hget', _⟩ := read_last ctx h hb0 (h.qalph w hqm) hl
        rw [hget] at hget'
        simp only [Option.some.injEq, Prod.mk.injEq] at hget'
        have ht := (isTomb_getD (h.wval x' (lastW_some hl).1)).1
        obtain ⟨_, hvb'⟩ := h.qv w hqm x' (lastW_some hl).1 hget'.2.symm
        show isTomb val = x.val.isNone
        rw [hget'.1, ht]
        unfold VerbOK at hvb hvb'
        rw [← hvb, ← hvb']
  · intro _ _ _; exact h

/-- The retry loop's commit. Applied: the rewrite is the key's last write, covered by its own slot. Not
applied and the head popped (its compare-and-swap failed): the head was not the last write of its key any more. -/
theorem Cv.stepRetryCommit {g0 g : G} (ctx : Ctx g0 g) (h : Cv g) (f : Fault)
    (hb : g.dealt < 2 ^ 64) : Cv (stepRetryCommit g f) := by
  obtain ⟨hs, hd⟩ := ctx.finv
  have hA := ctx.ack
  have hcore := ctx.sinv.core
  apply stepRetryCommit_cases
  · intro _; exact h
  · intro p r st hp hdc
    obtain ⟨rest, hq⟩ := h.pq p hp
    have hrpc : g.view.rpc = some p.rev := by simp [G.view, hp]
    obtain ⟨hpc, hpd⟩ := hs.rpcR _ hrpc
    have hpc : g.committed < p.rev := hpc
    have hpd : p.rev ≤ g.dealt := hpd
    have hp0 : p.rev ≠ 0 := by omega
    obtain ⟨hfr, hlt⟩ := ctx.sinv.rp p hp
    have hne := h.pne p hp
    have hQ : (if (r == CommitRes.ok || r.isCas) = true then List.drop 1 g.retryQ else g.retryQ) =
        (if (r == CommitRes.ok || r.isCas) = true then rest else p.w :: rest) := by rw [hq]; rfl
    rw [hQ]
    have hqm : p.w ∈ g.retryQ := by rw [hq]; exact List.mem_cons_self ..
    obtain ⟨pS, pQ, pE, pC, pCl, pD, pSt, pCfg, pP, pW⟩ := retry_write_proj g p.w p.rev
      (if r == CommitRes.ok || r.isCas then rest else p.w :: rest) r st f (if isTomb p.val then none else some p.val) hp0
    generalize hg' : G.notify _ _ = g' at pS pQ pE pC pCl pD pSt pCfg pP pW ⊢
    have hQsub : ∀ x ∈ (if r == CommitRes.ok || r.isCas then rest else p.w :: rest), x ∈ g.retryQ := by
      intro x hx
      rw [hq]
      split at hx
      · exact List.mem_cons_of_mem _ hx
      · exact hx
    have hqa := h.qalph p.w hqm
    have hslot : ∀ s ∈ g.slots, s.rev ≠ p.rev := fun s hsm e => hs.rpcSlot s hsm (by rw [hrpc, e])
    have hwl : ∀ y ∈ g.wlog, y.rev ≠ p.rev := hfr.2.2
    have hppc : ∀ p', g'.retryPc = some p' → False := fun p' hp' => by rw [pP] at hp'; cases hp'
    have hsuniq : ∀ s1 ∈ g.slots ++ [{ p.w with rev := p.rev, valid := r == .ok, uncertain := r == .uncertain }],
        ∀ s2 ∈ g.slots ++ [{ p.w with rev := p.rev, valid := r == .ok, uncertain := r == .uncertain }],
        s1.rev = s2.rev → s1 = s2 := by
      intro s1 h1 s2 h2 e12
      rcases List.mem_append.mp h1 with h1' | h1' <;> rcases List.mem_append.mp h2 with h2' | h2'
      · exact h.suniq s1 h1' s2 h2' e12
      · simp only [List.mem_singleton] at h2'
        have := hslot s1 h1'; rw [h2'] at e12; exact absurd e12 this
      · simp only [List.mem_singleton] at h1'
        have := hslot s2 h2'; rw [h1'] at e12; exact absurd e12.symm this
      · simp only [List.mem_singleton] at h1' h2'; rw [h1', h2']
    rcases doCommit_cas_cases hdc with ⟨ha, hidx, hst⟩ | ⟨ha, hst⟩
    · -- applied: the key's last write is now the rewrite, covered by its own slot
      rw [if_pos ha] at pW
      -- the CAS succeeded, so the head was the last write of its key
      obtain ⟨w, hl, hwr, hfl⟩ : ∃ w, lastW g.wlog p.w.key = some w ∧ w.rev = p.w.rev ∧
          isTomb p.val = w.val.isNone := by
        have hi := hcore.idx hb p.w.key
        cases hl : lastW g.wlog p.w.key with
        | none =>
          rw [hl] at hi; simp only [IdxOK] at hi
          rw [hidx, ctx.st0] at hi; simp [Store.get] at hi
        | some w =>
          rw [hl] at hi; simp only [IdxOK] at hi
          have hwle := (hcore.revs w (lastW_some hl).1).2
          have := hi.1; rw [hidx] at this
          obtain ⟨e1, e2⟩ := be8_append_inj (by omega) (by omega) (Option.some.inj this)
          exact ⟨w, rfl, e1.symm, flag_eq_iff e2⟩
      have hverb : VerbOK p.w w := (h.qv p.w hqm w (lastW_some hl).1 hwr).2
      have hxv : (p.w.verb == Verb.delete) = (if isTomb p.val = true then none else some p.val : Option Bytes).isNone := by
        rw [hverb, ← hfl]
        cases isTomb p.val <;> rfl
      have hrr := applied_cases ha
      have hst' : st = wstore g.store p.w.key p.rev
          (be8 p.rev ++ if isTomb p.val then [0] else []) p.val := by rw [hst]; rfl
      constructor
      · rw [pCl]; exact h.kok
      · intro s hsm
        rw [pS] at hsm
        rcases List.mem_append.mp hsm with hsm | hsm
        · exact h.salph s hsm
        · simp only [List.mem_singleton] at hsm; rw [hsm]; exact hqa
      · rw [pQ]; intro x hx; exact h.qalph x (hQsub x hx)
      · intro y hy v hv
        rw [pW] at hy
        rcases List.mem_append.mp hy with hy | hy
        · exact h.wval y hy v hv
        · simp only [List.mem_singleton] at hy; subst hy
          simp only at hv
          split at hv
          · cases hv
          · rename_i ht
            simp only [Option.some.injEq] at hv; subst hv
            exact ⟨hne, by simpa [isTomb] using ht⟩
      · rw [pSt, hst']; exact sorted_wstore h.sorted ..
      · rw [pSt, pW, hst']
        exact h.skeys.write ⟨p.w.key, p.rev, _, _⟩ _ _ hqa (by show p.rev < 2 ^ 64; omega)
      · intro s hsm y hy hyr
        rw [pS] at hsm
        rw [pW] at hy
        rcases List.mem_append.mp hsm with hsm | hsm
        · rcases List.mem_append.mp hy with hy | hy
          · exact h.sv s hsm y hy hyr
          · simp only [List.mem_singleton] at hy; subst hy
            exact absurd hyr.symm (hslot s hsm)
        · simp only [List.mem_singleton] at hsm; subst hsm
          rcases List.mem_append.mp hy with hy | hy
          · exact absurd hyr (hwl y hy)
          · simp only [List.mem_singleton] at hy; subst hy
            exact ⟨rfl, hxv⟩
      · intro q' hq' y hy hyr
        rw [pQ] at hq'
        rw [pW] at hy
        have hq'' := hQsub q' hq'
        rcases List.mem_append.mp hy with hy | hy
        · exact h.qv q' hq'' y hy hyr
        · simp only [List.mem_singleton] at hy; subst hy
          have := h.qle q' hq''
          simp only at hyr; omega
      · intro s hsm hv
        rw [pS] at hsm
        rw [pW]
        rcases List.mem_append.mp hsm with hsm | hsm
        · obtain ⟨y, hy, hyr⟩ := h.svalid s hsm hv
          exact ⟨y, List.mem_append_left _ hy, hyr⟩
        · simp only [List.mem_singleton] at hsm; subst hsm
          exact ⟨_, List.mem_append_right _ (List.mem_singleton_self _), rfl⟩
      · rw [pS]; exact hsuniq
      · rw [pQ, pC]; intro x hx; exact h.qle x (hQsub x hx)
      · intro ev hev
        rw [pE] at hev
        rw [pC, pW]
        obtain ⟨h1, y, hy, h2⟩ := h.em ev hev
        exact ⟨h1, y, List.mem_append_left _ hy, h2⟩
      · rw [pE]; exact h.emsorted
      · intro k w0 hl0
        rw [pE, pS, pQ]
        rw [pW, lastW_append] at hl0
        by_cases hkk : p.w.key = k
        · rw [if_pos hkk] at hl0
          simp only [Option.some.injEq] at hl0; subst hl0
          refine .inr (.inl ⟨_, List.mem_append_right _ (List.mem_singleton_self _), rfl, ?_⟩)
          rcases hrr with rfl | rfl
          · exact .inl rfl
          · exact .inr rfl
        · rw [if_neg hkk] at hl0
          have hkne := hkk
          rcases h.cover k w0 hl0 with hc | ⟨s, hsm, hc⟩ | ⟨q', hq', hr'⟩
          · exact .inl hc
          · exact .inr (.inl ⟨s, List.mem_append_left _ hsm, hc⟩)
          · refine .inr (.inr ⟨q', ?_, hr'⟩)
            rw [hq] at hq'
            rcases List.mem_cons.mp hq' with rfl | hq'
            · exfalso
              obtain ⟨hk, _⟩ := h.qv p.w hqm w0 (lastW_some hl0).1 hr'.symm
              exact hkne (hk.symm.trans (lastW_some hl0).2)
            · split
              · exact hq'
              · exact List.mem_cons_of_mem _ hq'
      · intro p' hp'; exact (hppc p' hp').elim
      · intro p' hp'; exact (hppc p' hp').elim
      · intro p' hp'; exact (hppc p' hp').elim
    · -- not applied
      have ha' : ¬ applied r f = true := by rw [ha]; simp
      rw [if_neg ha'] at pW
      subst hst
      have hrne : r ≠ .ok := not_ok_of_idle ha
      constructor
      · rw [pCl]; exact h.kok
      · intro s hsm
        rw [pS] at hsm
        rcases List.mem_append.mp hsm with hsm | hsm
        · exact h.salph s hsm
        · simp only [List.mem_singleton] at hsm; rw [hsm]; exact hqa
      · rw [pQ]; intro x hx; exact h.qalph x (hQsub x hx)
      · rw [pW]; exact h.wval
      · rw [pSt]; exact h.sorted
      · rw [pSt, pW]; exact h.skeys
      · intro s hsm y hy hyr
        rw [pS] at hsm
        rw [pW] at hy
        rcases List.mem_append.mp hsm with hsm | hsm
        · exact h.sv s hsm y hy hyr
        · simp only [List.mem_singleton] at hsm; subst hsm
          exact absurd hyr (hwl y hy)
      · rw [pQ, pW]; intro x hx; exact h.qv x (hQsub x hx)
      · intro s hsm hv
        rw [pS] at hsm
        rw [pW]
        rcases List.mem_append.mp hsm with hsm | hsm
        · exact h.svalid s hsm hv
        · simp only [List.mem_singleton] at hsm; subst hsm
          simp only [beq_iff_eq] at hv
          exact absurd hv hrne
      · rw [pS]; exact hsuniq
      · rw [pQ, pC]; intro x hx; exact h.qle x (hQsub x hx)
      · rw [pE, pC, pW]; exact h.em
      · rw [pE]; exact h.emsorted
      · intro k w0 hl0
        rw [pE, pS, pQ]
        rw [pW] at hl0
        rcases h.cover k w0 hl0 with hc | ⟨s, hsm, hc⟩ | ⟨q', hq', hr'⟩
        · exact .inl hc
        · exact .inr (.inl ⟨s, List.mem_append_left _ hsm, hc⟩)
        · refine .inr (.inr ⟨q', ?_, hr'⟩)
          rw [hq] at hq'
          split
          · rename_i hcond
            rcases List.mem_cons.mp hq' with rfl | hq'
            · -- the condition of the rewrite cannot fail while the head is the last write of its key
              exfalso
              obtain ⟨hk, _⟩ := h.qv p.w hqm w0 (lastW_some hl0).1 hr'.symm
              have hkk : k = p.w.key := (lastW_some hl0).2.symm.trans hk
              subst hkk
              obtain ⟨_, hidx⟩ := read_last ctx h hb hqa hl0
              have hfl := h.pv p hp w0 (lastW_some hl0).1 hr'.symm
              rw [← hr', ← flag_of_eq hfl] at hidx
              have hcm := (commit_cas_put g.cfg.q g.store (idxKey p.w.key)
                (be8 p.rev ++ if isTomb p.val then [0] else [])
                (be8 p.w.rev ++ if isTomb p.val then [0] else []) (encode p.w.key p.rev) p.val _).mpr ⟨hidx, rfl⟩
              have hnc := doCommit_ok_not_conflict (f := f) hcm
              rw [hdc] at hnc
              simp only [Bool.or_eq_true, beq_iff_eq] at hcond
              rcases hcond with hcond | hcond
              · exact hrne hcond
              · cases r <;> simp [CommitRes.isCas] at hcond
                exact hnc _ _ rfl
            · exact hq'
          · exact hq'
      · intro p' hp'; exact (hppc p' hp').elim
      · intro p' hp'; exact (hppc p' hp').elim
      · intro p' hp'; exact (hppc p' hp').elim

/-- requests the convergence theorem admits -/
def ActOK (a : Action) : Prop := ∀ id kind, a = .begin id kind → KOK kind

theorem stepRetryRead_dealt_le (g : G) : g.dealt ≤ (stepRetryRead g).dealt := by
  apply stepRetryRead_cases (P := fun g' => g.dealt ≤ g'.dealt) <;> intros <;> simp

theorem stepRetryCommit_dealt (g : G) (f : Fault) : (stepRetryCommit g f).dealt = g.dealt := by
  apply stepRetryCommit_cases (P := fun g' => g'.dealt = g.dealt) <;> intros <;> simp

theorem act_dealt_le {g0 g : G} (ctx : Ctx g0 g) (a : Action) : g.dealt ≤ (act g a).dealt := by
  obtain ⟨hs, _⟩ := ctx.finv
  cases a with
  | begin id kind => unfold KB.act; simp only []; split <;> exact Nat.le_refl _
  | step id f =>
    unfold KB.act; simp only []
    split
    · exact Nat.le_refl _
    · rename_i c hfind
      have hc := (mem_client hfind).1
      have hpos : ∀ r, c.pc.inflight = some r → r ≠ 0 := by
        intro r hr
        have := hs.inflR c hc r hr
        omega
      have hid : ∀ c' ∈ g.clients, c'.id = c.id → c' = c := fun c' hc' e => hs.idU c' hc' c hc e
      rcases stepClient_eff f (ctx.ack.ck c hc) hpos hid with ⟨x, s, d, e⟩ | e
      · rw [e.dealt]; exact Nat.le_refl _
      · rcases e.dealt with h | ⟨h, _⟩ <;> omega
  | seq =>
    unfold KB.act KB.stepSeq; simp only []
    split
    · exact Nat.le_refl _
    · exact Nat.le_max_left _ _
  | retry f =>
    exact Nat.le_trans (stepRetryRead_dealt_le g) (Nat.le_of_eq (stepRetryCommit_dealt _ f).symm)
  | retryRead => exact stepRetryRead_dealt_le g
  | retryCommit f => exact Nat.le_of_eq (stepRetryCommit_dealt g f).symm

theorem Cv.act {g0 g : G} (h0 : C02.Init g0) (hs0 : g0.store = []) (hr : Reachable g0 g) (h : Cv g) (a : Action)
    (ha : ActOK a) (hb : (act g a).dealt < 2 ^ 64) : Cv (act g a) := by
  have ctx := Ctx.reachable h0 hs0 hr
  cases a with
  | begin id kind =>
    unfold KB.act; simp only []
    split
    · exact h
    · refine ⟨?_, h.salph, h.qalph, h.wval, h.sorted, h.skeys, h.sv, h.qv, h.svalid, h.suniq, h.qle, h.em,
        h.emsorted, h.cover, h.pq, h.pne, h.pv⟩
      intro c hc
      rcases List.mem_append.mp hc with hc | hc
      · exact h.kok c hc
      · simp only [List.mem_singleton] at hc; subst hc
        exact ha id kind rfl
  | step id f =>
    unfold KB.act at hb ⊢; simp only [] at hb ⊢
    split
    · exact h
    · rename_i c hfind
      rw [hfind] at hb
      exact h.stepClient ctx (mem_client hfind).1 f hb
  | seq => exact h.stepSeq
  | retry f =>
    have hb1 : (KB.stepRetryRead g).dealt < 2 ^ 64 := by
      have : (KB.stepRetryCommit (KB.stepRetryRead g) f).dealt < 2 ^ 64 := hb
      rwa [stepRetryCommit_dealt] at this
    have ctx' := Ctx.reachable h0 hs0 (hr.step .retryRead)
    exact (h.stepRetryRead ctx hb1).stepRetryCommit ctx' f hb1
  | retryRead => exact h.stepRetryRead ctx hb
  | retryCommit f =>
    have : (KB.stepRetryCommit g f).dealt < 2 ^ 64 := hb
    rw [stepRetryCommit_dealt] at this
    exact h.stepRetryCommit ctx f this

theorem Cv.run {g0 : G} (h0 : C02.Init g0) (hs : g0.store = []) (hem : g0.emitted = []) (sched : List Action)
    (hok : ∀ a ∈ sched, ActOK a) (hb : (run g0 sched).dealt < 2 ^ 64) : Cv (run g0 sched) := by
  suffices ∀ sched g, Reachable g0 g → (g.dealt < 2 ^ 64 → Cv g) → (∀ a ∈ sched, ActOK a) →
      ((KB.run g sched).dealt < 2 ^ 64 → Cv (KB.run g sched)) from
    this sched g0 ⟨[], rfl⟩ (fun _ => Cv.init h0 hs hem) hok hb
  intro sched
  induction sched with
  | nil => intro g _ hJ _; exact hJ
  | cons a as ih =>
    intro g hr hJ hok
    have ctx := Ctx.reachable h0 hs hr
    refine ih (KB.act g a) (hr.step a) ?_ (fun b hb => hok b (List.mem_cons_of_mem _ hb))
    intro hb'
    exact Cv.act h0 hs hr (hJ (Nat.lt_of_le_of_lt (act_dealt_le ctx a) hb')) a (hok a (List.mem_cons_self ..)) hb'

/-- at quiescence the last applied write of every key is its last emitted event -/
theorem Cv.converged {g0 g : G} (ctx : Ctx g0 g) (h : Cv g) (hb : g.dealt < 2 ^ 64) (hsl : g.slots = [])
    (hrq : g.retryQ = []) (k : Bytes) :
    (lastW g.wlog k).map (fun w => (w.rev, w.val.isNone)) =
      ((g.emitted.filter (fun e => e.key == k)).getLast?).map (fun e => (e.rev, e.verb == .delete)) := by
  have hcore := ctx.sinv.core
  have hpw := chain_pairwise (hcore.chain hb) k
  -- every emitted event of `k` is a logged write of `k`
  have hev : ∀ e ∈ g.emitted.filter (fun e => e.key == k), ∃ x ∈ g.wlog.filter (fun w => w.key == k), x.rev = e.rev := by
    intro e he
    obtain ⟨he1, he2⟩ := List.mem_filter.mp he
    obtain ⟨_, x, hx, h1, h2, _⟩ := h.em e he1
    refine ⟨x, List.mem_filter.mpr ⟨hx, ?_⟩, h1⟩
    simp only [beq_iff_eq] at he2 ⊢
    rw [h2, he2]
  have hsorted : (g.emitted.filter (fun e => e.key == k)).Pairwise (fun a b => a.rev < b.rev) :=
    List.Pairwise.filter _ (List.pairwise_map.mp h.emsorted)
  cases hl : lastW g.wlog k with
  | none =>
    have hnil : g.wlog.filter (fun w => w.key == k) = [] := List.getLast?_eq_none_iff.mp hl
    have : g.emitted.filter (fun e => e.key == k) = [] := by
      apply List.eq_nil_iff_forall_not_mem.mpr
      intro e he
      obtain ⟨x, hx, _⟩ := hev e he
      rw [hnil] at hx; cases hx
    rw [this]; rfl
  | some w =>
    have hwk := (lastW_some hl).2
    rcases h.cover k w hl with ⟨e, he, h1, h2, h3⟩ | ⟨s, hs, _⟩ | ⟨q, hq, _⟩
    · have hem : e ∈ g.emitted.filter (fun e => e.key == k) :=
        List.mem_filter.mpr ⟨he, by simp [h2, hwk]⟩
      cases hlast : (g.emitted.filter (fun e => e.key == k)).getLast? with
      | none =>
        rw [List.getLast?_eq_none_iff] at hlast
        rw [hlast] at hem; cases hem
      | some e' =>
        obtain ⟨x', hx', hxr⟩ := hev e' (List.mem_of_getLast? hlast)
        have hle := pairwise_le_last hpw hl hx'
        rcases pairwise_getLast hsorted hlast hem with rfl | hlt
        · simp [h1, h3]
        · omega
    · rw [hsl] at hs; cases hs
    · rw [hrq] at hq; cases hq


end KB
