/- Helper lemmas for C09 (unknown outcomes and the retry loop). -/
import KB.Props.C02Store
import KB.Props.C01
namespace KB
end KB
