/- Helper lemmas about the compaction record (floor), used by C08. -/
import KB.Backend
import KB.Lemmas.Coder
namespace KB
end KB
