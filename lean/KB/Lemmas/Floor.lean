/- Helper lemmas about the compaction record (floor), used by C08. -/
import KB.Backend
import KB.Lemmas.Coder
import KB.Lemmas.Pass
namespace KB
open Generated

/-! ### `get` after `put` / `erase` without any sortedness assumption

`put`, `erase` and `get` all walk the list the same way (`cmp key k = .gt` → go on), and `cmp` is a
total order, so the usual map laws for *other* keys hold for `put` on every list, and for `erase`
whenever the looked-up key is present. -/

theorem Store.get_put_self_any (s : Store) (k v : Bytes) : (s.put k v).get k = some v := by
  induction s with
  | nil => simp [Store.put, Store.get]
  | cons x rest ih =>
    obtain ⟨k0, v0⟩ := x
    cases hc : cmp k k0 <;> simp [Store.put, Store.get, hc, ih]

theorem Store.get_put_ne_any (s : Store) (k k' v : Bytes) (h : k' ≠ k) :
    (s.put k v).get k' = s.get k' := by
  have hne : cmp k' k ≠ .eq := fun hc => h (cmp_eq_iff.1 hc)
  induction s with
  | nil =>
    simp only [Store.put, Store.get]
    cases hc : cmp k' k with
    | lt => rfl
    | eq => exact absurd hc hne
    | gt => rfl
  | cons x rest ih =>
    obtain ⟨k0, v0⟩ := x
    cases hc : cmp k k0 with
    | lt =>
      simp only [Store.put, hc]
      cases hc' : cmp k' k with
      | lt =>
        have := cmp_lt_trans hc' hc
        simp [Store.get, hc', this]
      | eq => exact absurd hc' hne
      | gt => simp [Store.get, hc']
    | eq =>
      have hk : k = k0 := cmp_eq_iff.1 hc
      subst hk
      simp only [Store.put, hc, Store.get]
      cases hc' : cmp k' k with
      | lt => rfl
      | eq => exact absurd hc' hne
      | gt => rfl
    | gt =>
      simp only [Store.put, hc, Store.get, ih]

theorem Store.get_erase_of_some (s : Store) (k k' v : Bytes) (h : k' ≠ k)
    (hg : s.get k' = some v) : (s.erase k).get k' = some v := by
  have hne : cmp k' k ≠ .eq := fun hc => h (cmp_eq_iff.1 hc)
  induction s with
  | nil => simp [Store.get] at hg
  | cons x rest ih =>
    obtain ⟨k0, v0⟩ := x
    cases hc : cmp k k0 with
    | lt => simpa only [Store.erase, hc] using hg
    | eq =>
      have hk : k = k0 := cmp_eq_iff.1 hc
      subst hk
      simp only [Store.erase, hc]
      simp only [Store.get] at hg
      cases hc' : cmp k' k with
      | lt => simp [hc'] at hg
      | eq => exact absurd hc' hne
      | gt => simpa [hc'] using hg
    | gt =>
      simp only [Store.erase, hc]
      simp only [Store.get] at hg ⊢
      cases hc' : cmp k' k0 with
      | lt => simp [hc'] at hg
      | eq => simpa [hc'] using hg
      | gt =>
        simp only [hc'] at hg ⊢
        exact ih hg

/-! ### the compaction key is not an object key -/

theorem compactKey_byte (c : Cfg) :
    (compactKeyOf c)[(compactKeyOf c).length - 9]? = some 109 := by
  have hl : (compactKeyOf c).length - 9 = c.pfx.length + 3 := by
    simp [compactKeyOf, compactKeyName]
  rw [hl]
  simp [compactKeyOf, compactKeyName]

theorem decode_compactKey (c : Cfg) (k : Bytes) (r : Nat) : decode (compactKeyOf c) ≠ .ok k r := by
  have hb := compactKey_byte c
  unfold decode
  rw [List.getD_eq_getElem?_getD, hb]
  simp only [splitByte, Option.getD_some]
  repeat' split
  all_goals simp_all

theorem compactKey_ne_encode (c : Cfg) (k : Bytes) (r : Nat) : encode k r ≠ compactKeyOf c := by
  intro h
  have := congrArg (fun l => l.reverse[8]?) h
  simp [compactKeyOf, compactKeyName, encode, be64, beN, splitByte] at this

theorem ne_compactKey_of_decode {c : Cfg} {ik k : Bytes} {r : Nat} (h : decode ik = .ok k r) :
    ik ≠ compactKeyOf c := by
  intro e
  rw [e] at h
  exact decode_compactKey c k r h

/-! ### writes only `put` under encoded keys -/

def BOp.putsAway (k0 : Bytes) : BOp → Prop
  | .pine k _ => k ≠ k0
  | .cas k _ _ => k ≠ k0
  | .put k _ => k ≠ k0
  | _ => False

theorem applyOp_keeps_get {q : Quirks} {s s' : Store} {idx : Nat} {op : BOp} {k0 : Bytes}
    (hop : op.putsAway k0) (h : applyOp q s idx op = .ok s') : s'.get k0 = s.get k0 := by
  cases op with
  | pine k v =>
    simp only [applyOp] at h
    cases hg : s.get k with
    | some old => simp [hg] at h
    | none =>
      simp only [hg, Except.ok.injEq] at h
      subst h
      exact Store.get_put_ne_any _ _ _ _ (Ne.symm hop)
  | cas k new old =>
    simp only [applyOp] at h
    cases hg : s.get k with
    | none => simp only [hg] at h; split at h <;> simp at h
    | some cur =>
      simp only [hg] at h
      split at h
      · simp only [Except.ok.injEq] at h
        subst h
        exact Store.get_put_ne_any _ _ _ _ (Ne.symm hop)
      · simp at h
  | put k v =>
    simp only [applyOp, Except.ok.injEq] at h
    subst h
    exact Store.get_put_ne_any _ _ _ _ (Ne.symm hop)
  | del k => exact hop.elim
  | delcur k v => exact hop.elim

theorem applyOps_keeps_get {q : Quirks} {k0 : Bytes} (ops : List BOp) (hops : ∀ op ∈ ops, op.putsAway k0)
    (s s' : Store) (idx : Nat) (h : applyOps q s idx ops = .ok s') : s'.get k0 = s.get k0 := by
  induction ops generalizing s idx with
  | nil => simp only [applyOps, Except.ok.injEq] at h; subst h; rfl
  | cons op ops ih =>
    simp only [applyOps] at h
    cases ha : applyOp q s idx op with
    | error e => simp [ha] at h
    | ok s1 =>
      simp only [ha] at h
      rw [ih (fun o ho => hops o (List.mem_cons_of_mem _ ho)) s1 (idx + 1) h]
      exact applyOp_keeps_get (hops op (List.mem_cons_self ..)) ha

theorem doCommit_keeps_get (c : Cfg) {k0 : Bytes} (ops : List BOp) (hops : ∀ op ∈ ops, op.putsAway k0)
    (st : Store) (f : Fault) : (doCommit c st ops f).2.get k0 = st.get k0 := by
  unfold doCommit
  cases hcm : commit c.q st ops with
  | error e => cases e <;> rfl
  | ok st' =>
    have := applyOps_keeps_get ops hops st st' 0 hcm
    cases f <;> simp [this]

theorem creatorCreate_keeps_get (c : Cfg) (st : Store) (key val : Bytes) (rev : Nat) (fs : List Fault) :
    (creatorCreate c st key val rev fs).2.1.get (compactKeyOf c) = st.get (compactKeyOf c) := by
  have h1 : ∀ (f : Fault) (st : Store),
      (doCommit c st [BOp.pine (idxKey key) (be8 rev), BOp.put (encode key rev) val] f).2.get (compactKeyOf c)
        = st.get (compactKeyOf c) := fun f st =>
    doCommit_keeps_get c _ (by
      intro op hop
      simp only [List.mem_cons, List.mem_nil_iff, or_false] at hop
      rcases hop with rfl | rfl
      · exact compactKey_ne_encode c key 0
      · exact compactKey_ne_encode c key rev) st f
  have h2 : ∀ (f : Fault) (st : Store) (old : Bytes),
      (doCommit c st [BOp.cas (idxKey key) (be8 rev) old, BOp.put (encode key rev) val] f).2.get (compactKeyOf c)
        = st.get (compactKeyOf c) := fun f st old =>
    doCommit_keeps_get c _ (by
      intro op hop
      simp only [List.mem_cons, List.mem_nil_iff, or_false] at hop
      rcases hop with rfl | rfl
      · exact compactKey_ne_encode c key 0
      · exact compactKey_ne_encode c key rev) st f
  unfold creatorCreate
  simp only []
  repeat' split
  all_goals simp only [h1, h2]

theorem sequence_store' (s : BState) (w : WEvent) : (sequence s w).store = s.store := by
  unfold sequence; split <;> rfl

theorem floorOf_congr (c : Cfg) {st st' : Store} (h : st'.get (compactKeyOf c) = st.get (compactKeyOf c)) :
    floorOf c st' = floorOf c st := by
  unfold floorOf; rw [h]

theorem cas_put_keeps_get (c : Cfg) (st : Store) (key new old val : Bytes) (rev : Nat) (f : Fault) :
    (doCommit c st [BOp.cas (idxKey key) new old, BOp.put (encode key rev) val] f).2.get (compactKeyOf c)
      = st.get (compactKeyOf c) :=
  doCommit_keeps_get c _ (by
    intro op hop
    simp only [List.mem_cons, List.mem_nil_iff, or_false] at hop
    rcases hop with rfl | rfl
    · exact compactKey_ne_encode c key 0
    · exact compactKey_ne_encode c key rev) st f

theorem doCreate_keeps_get (c : Cfg) (s : BState) (k v : Bytes) (fs : List Fault) :
    (doCreate c s k v fs).2.store.get (compactKeyOf c) = s.store.get (compactKeyOf c) := by
  unfold doCreate
  simp only []
  repeat' split
  all_goals simp only [sequence_store', creatorCreate_keeps_get]

theorem doUpdate_keeps_get (c : Cfg) (s : BState) (k v : Bytes) (e : Nat) (fs : List Fault) :
    (doUpdate c s k v e fs).2.store.get (compactKeyOf c) = s.store.get (compactKeyOf c) := by
  unfold doUpdate
  simp only []
  repeat' split
  all_goals simp only [sequence_store', creatorCreate_keeps_get, cas_put_keeps_get]

theorem doDelete_keeps_get (c : Cfg) (s : BState) (k : Bytes) (e : Nat) (fs : List Fault) :
    (doDelete c s k e fs).2.store.get (compactKeyOf c) = s.store.get (compactKeyOf c) := by
  unfold doDelete
  simp only []
  repeat' split
  all_goals simp only [sequence_store', cas_put_keeps_get]

/-! ### compaction deletes -/

def Act.avoids (k0 : Bytes) : Act → Prop
  | .del ik _ => ik ≠ k0
  | .delcur ik _ _ => ik ≠ k0
  | .expire ik _ vers _ => ik ≠ k0 ∧ k0 ∉ vers
  | _ => True

theorem runDelete_keeps_get {mask : Nat → DelOutcome} {st : CompState} {a : Act} {k0 v : Bytes}
    (ha : a.avoids k0) (hg : st.store.get k0 = some v) : (runDelete mask st a).store.get k0 = some v := by
  cases a with
  | emit k v r => exact hg
  | panic => exact hg
  | expire ik w vers raw => exact hg
  | del ik raw =>
    have ha : ik ≠ k0 := ha
    simp only [runDelete]
    repeat' split
    all_goals first | exact hg | exact Store.get_erase_of_some _ _ _ _ (Ne.symm ha) hg
  | delcur ik w raw =>
    have ha : ik ≠ k0 := ha
    simp only [runDelete]
    repeat' split
    all_goals first | exact hg | exact Store.get_erase_of_some _ _ _ _ (Ne.symm ha) hg

theorem runDeletes_keeps_get {mask : Nat → DelOutcome} {k0 v : Bytes} (acts : List Act)
    (ha : ∀ a ∈ acts, a.avoids k0) (st : CompState) (hg : st.store.get k0 = some v) :
    (runDeletes mask st acts).store.get k0 = some v := by
  unfold runDeletes
  induction acts generalizing st with
  | nil => exact hg
  | cons a acts ih =>
    simp only [List.foldl_cons]
    exact ih (fun x hx => ha x (List.mem_cons_of_mem _ hx)) _
      (runDelete_keeps_get (ha a (List.mem_cons_self ..)) hg)

theorem foldl_erase_keeps_get (vers : List Bytes) (s : Store) {k0 v : Bytes} (h : k0 ∉ vers)
    (hg : s.get k0 = some v) : (vers.foldl Store.erase s).get k0 = some v := by
  induction vers generalizing s with
  | nil => exact hg
  | cons x xs ih =>
    simp only [List.foldl_cons]
    have hx : k0 ≠ x := fun e => h (e ▸ List.mem_cons_self ..)
    exact ih _ (fun hm => h (List.mem_cons_of_mem _ hm)) (Store.get_erase_of_some _ _ _ _ hx hg)

/-- the expiry batch leaves a key outside it alone -/
theorem runAct_keeps_get {mask : Nat → DelOutcome} {st : CompState} {a : Act} {k0 v : Bytes}
    (ha : a.avoids k0) (hg : st.store.get k0 = some v) : (runAct mask st a).store.get k0 = some v := by
  cases a with
  | expire ik w vers raw =>
    obtain ⟨h1, h2⟩ : ik ≠ k0 ∧ k0 ∉ vers := ha
    rw [runAct_expire]
    rcases runExpire_cases mask st ik w vers raw with ⟨_, e, _⟩ | ⟨_, _, _, _, e, _⟩ | ⟨_, _, e, _⟩
    · rw [e]; exact hg
    · rw [e]; exact foldl_erase_keeps_get vers _ h2 (Store.get_erase_of_some _ _ _ _ (Ne.symm h1) hg)
    · rw [e]; exact hg
  | emit k w r => exact hg
  | panic => exact hg
  | del ik raw => exact runDelete_keeps_get (mask := mask) (a := .del ik raw) ha hg
  | delcur ik w raw => exact runDelete_keeps_get (mask := mask) (a := .delcur ik w raw) ha hg

theorem runActs_keeps_get {mask : Nat → DelOutcome} {k0 v : Bytes} (acts : List Act)
    (ha : ∀ a ∈ acts, a.avoids k0) (st : CompState) (hg : st.store.get k0 = some v) :
    (runActs mask st acts).store.get k0 = some v := by
  unfold runActs
  induction acts generalizing st with
  | nil => exact hg
  | cons a acts ih =>
    simp only [List.foldl_cons]
    exact ih (fun x hx => ha x (List.mem_cons_of_mem _ hx)) _
      (runAct_keeps_get (ha a (List.mem_cons_self ..)) hg)

theorem versionsOf_sub {k : Bytes} {snap : List Rec} {ik : Bytes} (h : ik ∈ versionsOf k snap) :
    ∃ w ∈ snap, w.ik = ik := by
  unfold versionsOf at h
  obtain ⟨w, hw, e⟩ := List.mem_map.1 h
  exact ⟨w, (List.mem_filter.1 hw).1, e⟩

theorem workerStep_avoids {c : WCfg} {k0 : Bytes} (hk : ∀ k rv, encode k rv ≠ k0) (p : Prev) (r : Rec)
    (hr : r.ik ≠ k0) : ∀ a ∈ (workerStep c p r).1, a.avoids k0 := by
  unfold workerStep
  simp only [emitPrev]
  repeat' split
  all_goals simp [Act.avoids, hr, hk]

theorem workerLoop_avoids {c : WCfg} {k0 : Bytes} (hk : ∀ k rv, encode k rv ≠ k0) (recs : List Rec)
    (hr : ∀ r ∈ recs, r.ik ≠ k0) (p : Prev) : ∀ a ∈ workerLoop c p recs, a.avoids k0 := by
  induction recs generalizing p with
  | nil => simp only [workerLoop, emitPrev]; split <;> simp [Act.avoids]
  | cons r rs ih =>
    intro a ha
    simp only [workerLoop, List.mem_append] at ha
    rcases ha with ha | ha
    · exact workerStep_avoids hk p r (hr r (List.mem_cons_self ..)) a ha
    · exact ih (fun x hx => hr x (List.mem_cons_of_mem _ hx)) _ a ha

theorem decodeRecs_decoded (l : List (Bytes × Bytes)) (recs : List Rec) (h : decodeRecs l = some recs) :
    ∀ r ∈ recs, decode r.ik = .ok r.key r.rev := by
  induction l generalizing recs with
  | nil => simp only [decodeRecs, Option.some.injEq] at h; subst h; simp
  | cons x rest ih =>
    obtain ⟨ik, v⟩ := x
    simp only [decodeRecs] at h
    cases hd : decode ik with
    | panic => simp [hd] at h
    | err => simp only [hd] at h; exact ih recs h
    | ok k r =>
      simp only [hd, Option.map_eq_some_iff] at h
      obtain ⟨l', hl', rfl⟩ := h
      intro x hx
      rcases List.mem_cons.1 hx with rfl | hx
      · exact hd
      · exact ih l' hl' x hx

theorem workerActs_avoids (c : Cfg) (w : WCfg) (l : List (Bytes × Bytes)) (recs : List Rec)
    (h : decodeRecs l = some recs) : ∀ a ∈ workerActs w recs, a.avoids (compactKeyOf c) :=
  workerLoop_avoids (fun k rv => compactKey_ne_encode c k rv) recs
    (fun r hr => ne_compactKey_of_decode (decodeRecs_decoded l recs h r hr)) _

/-- the same for the loop with expiry: whatever it remembers and whatever the outcomes of its calls -/
theorem passLoop_avoids {c : WCfg} {k0 : Bytes} (hk : ∀ k rv, encode k rv ≠ k0) (mask : Nat → DelOutcome)
    (snap : List Rec) (hsnap : ∀ r ∈ snap, r.ik ≠ k0)
    (recs : List Rec) (hr : ∀ r ∈ recs, r.ik ≠ k0) (p : Prev) (live gone : Bytes) (st : CompState) :
    ∀ a ∈ (passLoop c mask snap p live gone st recs).1, a.avoids k0 := by
  induction recs generalizing p live gone st with
  | nil => simp only [passLoop, emitPrev]; split <;> simp [Act.avoids]
  | cons r rs ih =>
    have hr0 := hr r (List.mem_cons_self ..)
    have hrs : ∀ x ∈ rs, x.ik ≠ k0 := fun x hx => hr x (List.mem_cons_of_mem _ hx)
    rw [passLoop_cons]
    cases expiry c live gone r with
    | panic =>
      intro a ha
      rcases List.mem_cons.1 ha with rfl | ha
      · trivial
      · exact ih hrs _ _ _ _ a ha
    | idx =>
      intro a ha
      rcases List.mem_cons.1 ha with rfl | ha
      · refine ⟨hr0, fun hm => ?_⟩
        obtain ⟨w, hw, e⟩ := versionsOf_sub hm
        exact hsnap w hw e
      · exact ih hrs _ _ _ _ a ha
    | gone => exact ih hrs _ _ _ _
    | ver =>
      intro a ha
      rcases List.mem_cons.1 ha with rfl | ha
      · exact hr0
      · exact ih hrs _ _ _ _ a ha
    | noLive =>
      intro a ha
      rcases List.mem_append.1 ha with ha | ha
      · exact workerStep_avoids hk p r hr0 a ha
      · exact ih hrs _ _ _ _ a ha
    | no =>
      intro a ha
      rcases List.mem_append.1 ha with ha | ha
      · exact workerStep_avoids hk p r hr0 a ha
      · exact ih hrs _ _ _ _ a ha

theorem passRun_keeps_get (c : Cfg) (w : WCfg) (mask : Nat → DelOutcome) (l : List (Bytes × Bytes))
    (recs : List Rec) (h : decodeRecs l = some recs) (st : CompState) {v : Bytes}
    (hg : st.store.get (compactKeyOf c) = some v) :
    (passRun w mask st recs).2.store.get (compactKeyOf c) = some v := by
  rw [passRun_eq, passLoop_run]
  exact runActs_keeps_get _ (passLoop_avoids (fun k rv => compactKey_ne_encode c k rv) mask recs
    (fun r hr => ne_compactKey_of_decode (decodeRecs_decoded l recs h r hr)) recs
    (fun r hr => ne_compactKey_of_decode (decodeRecs_decoded l recs h r hr)) _ _ _ _) _ hg

theorem take8_be8 (r : Nat) : (be8 r).take 8 = be8 r := by
  apply List.take_of_length_le; simp [be8, be64]

theorem floorOf_put (c : Cfg) (st : Store) (r : Nat) (hr : r < 2 ^ 64) :
    floorOf c (st.put (compactKeyOf c) (be8 r)) = r := by
  simp only [floorOf, Store.get_put_self_any, take8_be8]
  exact fromBE_be64 hr

theorem floorOf_of_get {c : Cfg} {st : Store} {v : Bytes} (h : st.get (compactKeyOf c) = some v) :
    floorOf c st = fromBE (v.take 8) := by simp [floorOf, h]

theorem foldl_invariant {α β : Type _} (P : α → Prop) (f : α → β → α) (hf : ∀ a b, P a → P (f a b))
    (l : List β) (a : α) (ha : P a) : P (l.foldl f a) := by
  induction l generalizing a with
  | nil => exact ha
  | cons x xs ih => exact ih _ (hf a x ha)

theorem compactRange_floor (c : Cfg) (s : BState) (a b : Bytes) (rev : Nat) (mask : Nat → DelOutcome)
    (calls : Nat) (hrev : rev < 2 ^ 64) :
    floorOf c (compactRange c s a b rev mask calls).1.store = max (floorOf c s.store) rev := by
  -- the record after `checkCompactRace(compact = true)`
  obtain ⟨store, hstore, v, hv, hfl⟩ : ∃ store : Store,
      store = (if s.store.get (compactKeyOf c) == none || floorOf c s.store < rev
        then s.store.put (compactKeyOf c) (be8 rev) else s.store) ∧
      ∃ v, store.get (compactKeyOf c) = some v ∧ fromBE (v.take 8) = max (floorOf c s.store) rev := by
    refine ⟨_, rfl, ?_⟩
    split
    · rename_i h
      refine ⟨be8 rev, Store.get_put_self_any _ _ _, ?_⟩
      rw [take8_be8, be8, fromBE_be64 hrev]
      simp only [Bool.or_eq_true, beq_iff_eq, decide_eq_true_eq] at h
      rcases h with h | h
      · simp [floorOf, h]
      · omega
    · rename_i h
      simp only [Bool.or_eq_true, beq_iff_eq, decide_eq_true_eq, not_or] at h
      cases hg : s.store.get (compactKeyOf c) with
      | none => exact absurd hg h.1
      | some v =>
        refine ⟨v, rfl, ?_⟩
        rw [← floorOf_of_get hg]; omega
  unfold compactRange
  simp only [← hstore]
  cases scanPartitions c a b with
  | none => simp only [floorOf_of_get hv, hfl]
  | some parts =>
    simp only []
    rw [floorOf_of_get (v := v), hfl]
    apply foldl_invariant (fun acc : CompState × Bool => acc.1.store.get (compactKeyOf c) = some v)
    · intro acc p hacc
      cases hd : decodeRecs (iterate c.q store p.1 p.2 0) with
      | none => exact hacc
      | some recs =>
        exact passRun_keeps_get c _ mask _ recs hd _ hacc
    · exact hv

/-- the revision `Backend.Compact` actually compacts at -/
def clampRev (s : BState) (rev : Nat) : Nat :=
  let r := if rev == 0 || rev > s.committed then s.committed else rev
  match s.retryQ.head? with
  | some w => min (w.rev - 1) r
  | none => r

theorem clampRev_le (s : BState) (rev : Nat) : clampRev s rev ≤ s.committed := by
  unfold clampRev
  have : (if rev == 0 || rev > s.committed then s.committed else rev) ≤ s.committed := by
    split
    · exact Nat.le_refl _
    · rename_i h; simp at h; omega
  simp only []
  split <;> omega

/-- `setCompactRecord` -/
def setRecord (c : Cfg) (st : Store) (r : Nat) : Store :=
  match st.get (compactKeyOf c) with
  | some v => if v.length > 0 && fromBE (v.take 8) > r then st else st.put (compactKeyOf c) (be8 r)
  | none => st.put (compactKeyOf c) (be8 r)

/-- the loop over the border pairs -/
def compactFold (c : Cfg) (s : BState) (r : Nat) (mask : Nat → DelOutcome) : BState × Nat × Bool :=
  (pairs (compactBorders c)).foldl (fun (acc : BState × Nat × Bool) b =>
      let (s', calls, p) := compactRange c acc.1 b.1 b.2 r mask acc.2.1
      (s', calls, acc.2.2 || p)) (s, 0, false)

theorem doCompact_eq (c : Cfg) (s : BState) (rev : Nat) (mask : Nat → DelOutcome) :
    doCompact c s rev mask =
      (if (compactFold c { s with store := setRecord c s.store (clampRev s rev) } (clampRev s rev) mask).2.2
        then .panic else .ok (clampRev s rev),
       (compactFold c { s with store := setRecord c s.store (clampRev s rev) } (clampRev s rev) mask).1) := rfl

theorem doCompact_fst (c : Cfg) (s : BState) (rev : Nat) (mask : Nat → DelOutcome) (R : Nat)
    (h : (doCompact c s rev mask).1 = .ok R) : R = clampRev s rev := by
  rw [doCompact_eq] at h
  simp only [] at h
  split at h
  · cases h
  · injection h with h; exact h.symm

theorem setRecord_floor (c : Cfg) (st : Store) (r : Nat) (hr : r < 2 ^ 64) :
    floorOf c (setRecord c st r) = max (floorOf c st) r := by
  unfold setRecord
  cases hg : st.get (compactKeyOf c) with
  | none =>
    simp only [floorOf_put c st r hr]
    simp [floorOf, hg]
  | some v =>
    simp only []
    split
    · rename_i h
      simp only [Bool.and_eq_true, decide_eq_true_eq] at h
      rw [floorOf_of_get hg]; omega
    · rename_i h
      simp only [Bool.and_eq_true, decide_eq_true_eq, not_and] at h
      rw [floorOf_put c st r hr, floorOf_of_get hg]
      by_cases hl : v.length > 0
      · have := h hl; omega
      · have : v = [] := List.length_eq_zero_iff.mp (by omega)
        subst this
        simp [fromBE]

theorem compactFold_floor (c : Cfg) (s : BState) (r : Nat) (mask : Nat → DelOutcome) (hr : r < 2 ^ 64)
    (hs : r ≤ floorOf c s.store) :
    floorOf c (compactFold c s r mask).1.store = floorOf c s.store := by
  unfold compactFold
  apply foldl_invariant (fun acc : BState × Nat × Bool => floorOf c acc.1.store = floorOf c s.store)
  · intro acc b hacc
    simp only [compactRange_floor c acc.1 b.1 b.2 r mask acc.2.1 hr, hacc]
    omega
  · rfl

theorem doCompact_floor (c : Cfg) (s : BState) (rev : Nat) (mask : Nat → DelOutcome)
    (hrev : clampRev s rev < 2 ^ 64) :
    floorOf c (doCompact c s rev mask).2.store = max (floorOf c s.store) (clampRev s rev) := by
  rw [doCompact_eq]
  simp only []
  rw [compactFold_floor c _ _ mask hrev]
  · exact setRecord_floor c s.store _ hrev
  · simp only [setRecord_floor c s.store _ hrev]; omega
end KB

