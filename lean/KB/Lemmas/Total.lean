/-
  Helper lemmas for "no key and no partition border makes the scan index out of range" (/repo 5ace897: `Decode`
  reports a key too short to be an internal key): `decodeRecs`, `adjustBorders`, `scanPartitions` are total, the
  range reads of the backend model (`scanParts`, `scanLimited`, `doList`, `doCount`, `doStream`) never answer
  `ScanRes.panic` — on ANY store, for ANY border bytes, for ANY partitioning — and the one panic left in the
  backend model (the TTL pass of a compaction reading the 8-byte revision of an Event's revision record) is
  characterised.
-/
import KB.Backend
import KB.Lemmas.Coder
import KB.Lemmas.Pass
namespace KB
open Generated

/-! (This file imports neither KB.Lemmas.Scan nor KB.Lemmas.Partition — which cannot be imported together — so that
both C13 and C20 can use it; the small facts about the worker it needs are proved here, on top of KB.Lemmas.Pass,
which imports KB.Scan only.) -/

theorem emitPrev_no_panic (p : Prev) : Act.panic ∉ emitPrev p := by
  unfold emitPrev; split <;> simp

/-- `decodeRecs` is total: whatever an iterator yields, keys that are no internal keys (too short ones included)
are skipped. -/
theorem decodeRecs_total (l : List (Bytes × Bytes)) : ∃ recs, decodeRecs l = some recs := by
  induction l with
  | nil => exact ⟨[], rfl⟩
  | cons x xs ih =>
    obtain ⟨ik, v⟩ := x
    obtain ⟨recs, hrecs⟩ := ih
    simp only [decodeRecs]
    cases hd : decode ik with
    | ok k r => simp [hrecs]
    | err => simp [hrecs]
    | panic => exact absurd hd (decode_never_panics ik)

/-- `adjustPartitionsBorders` is total: ANY border bytes (a client-supplied range end clipped into a region,
1 byte, the bare magic, 12 bytes ...) are either moved to an index position or left alone. -/
theorem adjustBorders_total (pe : Option Bytes) (ps : List (Bytes × Bytes)) :
    ∃ out, adjustBorders pe ps = some out := by
  induction ps generalizing pe with
  | nil => exact ⟨[], rfl⟩
  | cons x xs ih =>
    obtain ⟨s, e⟩ := x
    cases xs with
    | nil => exact ⟨_, rfl⟩
    | cons y ys =>
      rw [adjustBorders.eq_3 pe s e (y :: ys) (by simp)]
      cases hd : decode e with
      | ok k r =>
        obtain ⟨tl, htl⟩ := ih (some (if r != 0 then encode k 0 else e))
        simp only [htl]
        exact ⟨_, rfl⟩
      | err =>
        obtain ⟨tl, htl⟩ := ih (some e)
        simp only [htl]
        exact ⟨_, rfl⟩
      | panic => exact absurd hd (decode_never_panics e)

theorem adjustBorders_isSome (pe : Option Bytes) (ps : List (Bytes × Bytes)) : (adjustBorders pe ps).isSome = true := by
  obtain ⟨out, h⟩ := adjustBorders_total pe ps
  simp [h]

theorem scanPartitions_total (c : Cfg) (start stop : Bytes) : ∃ parts, scanPartitions c start stop = some parts :=
  adjustBorders_total none _

/-! ### where a worker's panic comes from -/

theorem expireStep_panic {w : WCfg} {live gone : Bytes} {snap : List Rec} {r : Rec} {acts : List Act}
    (he : expireStep w live gone snap r = some acts) (h : Act.panic ∈ acts) : acts = [.panic] := by
  unfold expireStep at he
  cases hx : expiry w live gone r with
  | panic => rw [hx] at he; cases he; rfl
  | idx => rw [hx] at he; cases he; simp at h
  | gone => rw [hx] at he; cases he; simp at h
  | ver => rw [hx] at he; cases he; simp at h
  | noLive => rw [hx] at he; cases he
  | no => rw [hx] at he; cases he

/-- `compactIfExpired` panics exactly when `expiry` says so -/
theorem expireStep_eq_panic_iff {w : WCfg} {live gone : Bytes} {snap : List Rec} {r : Rec} :
    expireStep w live gone snap r = some [.panic] ↔ expiry w live gone r = .panic := by
  unfold expireStep
  cases expiry w live gone r <;> simp

/-- the loop body below the `compactIfExpired` call never panics (any configuration): a panic of an iteration is
a panic of `compactIfExpired` -/
theorem workerStep_no_panic (w : WCfg) (p : Prev) (r : Rec) : Act.panic ∉ (workerStep w p r).1 := by
  intro h
  unfold workerStep at h
  by_cases hr : r.rev > w.R
  · simp [hr] at h
  · simp only [hr, if_false] at h
    have ha1 : Act.panic ∉ (if r.key != p.key then emitPrev p
        else if w.compact && decide (p.rev > 0) then [Act.del (encode p.key p.rev) p.key] else []) := by
      split
      · exact emitPrev_no_panic p
      · split <;> simp
    have ha2 : Act.panic ∉ (if w.compact && isTomb r.val then [Act.del r.ik r.key] else []) := by
      split <;> simp
    split at h
    · split at h
      · simp only [List.mem_append] at h
        rcases h with h | h
        · exact ha1 h
        · exact ha2 h
      · simp only [List.mem_append, List.mem_singleton, reduceCtorEq, or_false] at h
        rcases h with h | h
        · exact ha1 h
        · exact ha2 h
    · simp only [List.mem_append] at h
      rcases h with h | h
      · exact ha1 h
      · exact ha2 h

/-- the loop of a worker whose `compactIfExpired` answers "not expired" throughout (`workerLoop`: range reads,
compactions with expiry off) never panics, whatever the configuration -/
theorem workerLoop_no_panic (w : WCfg) (p : Prev) (recs : List Rec) : Act.panic ∉ workerLoop w p recs := by
  induction recs generalizing p with
  | nil => simpa [workerLoop] using emitPrev_no_panic p
  | cons x xs ih =>
    simp only [workerLoop, List.mem_append, not_or]
    exact ⟨workerStep_no_panic w p x, ih _⟩

theorem workerActs_no_panic (w : WCfg) (recs : List Rec) : hasPanic (workerActs w recs) = false := by
  cases h : hasPanic (workerActs w recs) with
  | false => rfl
  | true =>
    exact absurd (by simpa [hasPanic, workerActs] using h) (workerLoop_no_panic w {} recs)

/-- where a worker's panic comes from: the TTL pass (`compactIfExpired`) on an engine without native TTL, with a
non-zero timeout revision, met the REVISION RECORD (revision 0) of an event key whose value is shorter than the 8
bytes `binary.BigEndian.Uint64` reads — a value the backend never writes (revision-record values are 8 or 9 bytes
long: C10 `parseRevision_*`). Stated of the worker loop as it runs (`passLoop`: whatever it remembers — `prev`, the
live event key, the store and the failed key — and whatever the engine answers to its delete calls). -/
theorem passLoop_panic_source {w : WCfg} {mask : Nat → DelOutcome} {snap : List Rec} {p : Prev} {live gone : Bytes}
    {st : CompState} {recs : List Rec} (h : Act.panic ∈ (passLoop w mask snap p live gone st recs).1) :
    w.supportTTL = false ∧ w.timeout ≠ 0 ∧
      ∃ r ∈ recs, r.rev = 0 ∧ isEventKey w r.key = true ∧ r.val.length < 8 := by
  induction recs generalizing p live gone st with
  | nil => exact absurd h (by simpa [passLoop] using emitPrev_no_panic p)
  | cons x xs ih =>
    have lift : (w.supportTTL = false ∧ w.timeout ≠ 0 ∧
          ∃ r ∈ xs, r.rev = 0 ∧ isEventKey w r.key = true ∧ r.val.length < 8) →
        w.supportTTL = false ∧ w.timeout ≠ 0 ∧
          ∃ r ∈ x :: xs, r.rev = 0 ∧ isEventKey w r.key = true ∧ r.val.length < 8 := by
      rintro ⟨a, b, r, hr, hrest⟩
      exact ⟨a, b, r, by simp [hr], hrest⟩
    rw [passLoop_cons] at h
    rcases expiry_cases w live gone x with hno | ⟨hs, hT, hev, hc⟩
    · rw [hno] at h
      simp only [List.mem_append] at h
      rcases h with h | h
      · exact absurd h (workerStep_no_panic w p x)
      · exact lift (ih h)
    · rcases hc with ⟨_, hr, hv⟩ | ⟨he, _⟩ | ⟨he, _⟩ | ⟨he, _⟩ | ⟨he, _⟩
      · exact ⟨hs, hT, x, by simp, hr, hev, hv⟩
      · rw [he] at h
        simp only [List.mem_cons, reduceCtorEq, false_or] at h
        exact lift (ih h)
      · rw [he] at h
        simp only [List.mem_append] at h
        rcases h with h | h
        · exact absurd h (workerStep_no_panic w p x)
        · exact lift (ih h)
      · rw [he] at h
        exact lift (ih h)
      · rw [he] at h
        simp only [List.mem_cons, reduceCtorEq, false_or] at h
        exact lift (ih h)

theorem passRun_panic_source {w : WCfg} {mask : Nat → DelOutcome} {st : CompState} {recs : List Rec}
    (h : hasPanic (passRun w mask st recs).1 = true) :
    w.supportTTL = false ∧ w.timeout ≠ 0 ∧
      ∃ r ∈ recs, r.rev = 0 ∧ isEventKey w r.key = true ∧ r.val.length < 8 := by
  apply passLoop_panic_source (mask := mask) (snap := recs) (p := {}) (live := []) (gone := [])
    (st := { st with lastFailed := [] })
  rw [passRun_eq] at h
  simpa [hasPanic] using h

/-- a worker that neither compacts nor expires (a range read) never panics -/
theorem hasPanic_read (R : Nat) (ttl : Bool) (recs : List Rec) :
    hasPanic (workerActs { R := R, supportTTL := ttl } recs) = false :=
  workerActs_no_panic _ recs

/-- one partition of an unlimited, non-compacting scan always has an output -/
theorem scanPart_some (c : Cfg) (st : Store) (rev : Nat) (p : Bytes × Bytes) :
    (match decodeRecs (iterate c.q st p.1 p.2 0) with
      | none => none
      | some recs =>
        let acts := workerActs { R := rev, supportTTL := c.q.supportTTL } recs
        if hasPanic acts then none else some (emitsOf acts)).isNone = false := by
  obtain ⟨recs, hrecs⟩ := decodeRecs_total (iterate c.q st p.1 p.2 0)
  simp [hrecs, hasPanic_read rev c.q.supportTTL recs]

/-- the answer is not the crash of the request goroutine -/
def ScanRes.notPanic : ScanRes α → Prop
  | .panic => False
  | _ => True

instance (x : ScanRes α) : Decidable x.notPanic := by
  cases x
  · exact isTrue True.intro
  · exact isTrue True.intro
  · exact isFalse (fun h => h)

theorem ScanRes.notPanic_iff {x : ScanRes α} : x.notPanic ↔ (∃ a, x = .ok a) ∨ (∃ e, x = .error e) := by
  cases x with
  | ok a => exact ⟨fun _ => .inl ⟨a, rfl⟩, fun _ => True.intro⟩
  | error e => exact ⟨fun _ => .inr ⟨e, rfl⟩, fun _ => True.intro⟩
  | panic =>
    constructor
    · intro h; exact h.elim
    · rintro (⟨_, h⟩ | ⟨_, h⟩) <;> cases h

/-- THE UNLIMITED SCAN NEVER PANICS: any store (well-formed or not), any start and end bytes, any region borders. -/
theorem scanParts_notPanic (c : Cfg) (st : Store) (start stop : Bytes) (rev : Nat) :
    (scanParts c st start stop rev).notPanic := by
  unfold scanParts
  by_cases hb : belowFloor c st rev = true
  · simp only [hb, if_true]; exact True.intro
  · obtain ⟨parts, hparts⟩ := scanPartitions_total c start stop
    simp only [hb, hparts, Bool.false_eq_true, if_false]
    split
    · rename_i h
      exfalso
      obtain ⟨o, ho, hn⟩ := List.any_eq_true.mp h
      obtain ⟨p, _, rfl⟩ := List.mem_map.mp ho
      have h2 := scanPart_some c st rev p
      exact Bool.noConfusion (h2.symm.trans hn)
    · exact True.intro

theorem scanLimited_notPanic (c : Cfg) (st : Store) (start stop : Bytes) (rev lim : Nat) :
    (scanLimited c st start stop rev lim).notPanic := by
  unfold scanLimited
  by_cases hb : belowFloor c st rev = true
  · simp only [hb, if_true]; exact True.intro
  · obtain ⟨recs, hrecs⟩ := decodeRecs_total (iterate c.q st start stop 0)
    simp only [hb, hrecs, Bool.false_eq_true, if_false]
    exact True.intro

theorem doList_notPanic (c : Cfg) (s : BState) (key stop : Bytes) (rev limit : Nat) :
    (doList c s key stop rev limit).notPanic := by
  unfold doList
  split
  · trivial
  · simp only []
    split
    · trivial
    · split
      · have := scanLimited_notPanic c s.store (encodeBound key) (encodeBound stop)
          (if rev == 0 then s.committed else rev) (limit + 1)
        split <;> first | trivial | (rename_i h; rw [h] at this; exact this)
      · have := scanParts_notPanic c s.store (encodeBound key) (encodeBound stop)
          (if rev == 0 then s.committed else rev)
        split <;> first | trivial | (rename_i h; rw [h] at this; exact this)

theorem doCount_notPanic (c : Cfg) (s : BState) (key stop : Bytes) : (doCount c s key stop).notPanic := by
  unfold doCount
  split
  · trivial
  · have := scanParts_notPanic c s.store (encodeBound key) (encodeBound stop) s.committed
    split <;> first | trivial | (rename_i h; rw [h] at this; exact this)

theorem doStream_notPanic (c : Cfg) (s : BState) (start stop : Bytes) (rev : Nat) :
    (doStream c s start stop rev).notPanic := by
  unfold doStream
  simp only []
  have := scanParts_notPanic c s.store start stop (if rev == 0 then s.committed else rev)
  split <;> first | trivial | (rename_i h; rw [h] at this; exact this)

/-! ### what is left: the TTL pass of a compaction -/

/-- a flag raised by a fold was raised by one of its steps (for a fixed consequence `Q` of a step raising it) -/
theorem foldl_flag {α β : Type} (F : α → β → α) (flag : α → Bool) (Q : Prop)
    (hF : ∀ a b, flag (F a b) = true → flag a = true ∨ Q) (l : List β) (a : α)
    (h : flag (l.foldl F a) = true) : flag a = true ∨ Q := by
  induction l generalizing a with
  | nil => exact .inl h
  | cons x xs ih =>
    rcases ih (F a x) h with h' | h'
    · exact hF a x h'
    · exact .inr h'

/-- what a panic of a compaction means in the model -/
def CompactPanicSource (c : Cfg) : Prop :=
  c.q.supportTTL = false ∧
    ∃ (w : WCfg) (recs : List Rec), w.supportTTL = false ∧ w.timeout ≠ 0 ∧ w.eventsPfx = eventsPrefixOf c ∧
      ∃ r ∈ recs, r.rev = 0 ∧ isEventKey w r.key = true ∧ r.val.length < 8

theorem compactRange_pan {c : Cfg} {s : BState} {start stop : Bytes} {rev : Nat} {mask : Nat → DelOutcome}
    {calls : Nat} (h : (compactRange c s start stop rev mask calls).2.2 = true) : CompactPanicSource c := by
  unfold compactRange at h
  simp only [] at h
  obtain ⟨parts, hparts⟩ := scanPartitions_total c start stop
  simp only [hparts] at h
  generalize timeoutRev c (s.marks ++ [(rev, s.now)]) s.now = tm at h
  obtain ⟨t, marks'⟩ := tm
  simp only [] at h
  generalize hfold : List.foldl _ _ parts = res at h
  obtain ⟨cs, pan⟩ := res
  simp only [] at h
  have hflag : (fun (x : CompState × Bool) => x.2) (cs, pan) = true := h
  rw [← hfold] at hflag
  have := foldl_flag _ (fun (x : CompState × Bool) => x.2) (CompactPanicSource c) ?_ parts _ hflag
  · rcases this with h' | h'
    · cases h'
    · exact h'
  · intro a p hp
    split at hp
    · rename_i hnone
      obtain ⟨recs, hr⟩ := decodeRecs_total (iterate c.q
        (if (s.store.get (compactKeyOf c) == none || decide (floorOf c s.store < rev)) = true
          then s.store.put (compactKeyOf c) (be8 rev) else s.store) p.1 p.2 0)
      rw [hr] at hnone; cases hnone
    · rename_i recs _
      simp only [Bool.or_eq_true] at hp
      rcases hp with hp | hp
      · exact .inl hp
      · right
        obtain ⟨h1, h2, r, hr, h3⟩ := passRun_panic_source hp
        exact ⟨h1, _, recs, h1, h2, rfl, r, hr, h3⟩

/-- A COMPACTION PANICS IN THE MODEL ONLY IN ITS TTL PASS: on an engine without native TTL, with a non-zero timeout
revision, on the revision record of a key under the events prefix whose value is shorter than 8 bytes. Nothing
else is left: no key and no border makes `Decode` index out of range. -/
theorem doCompact_panic_source {c : Cfg} {s : BState} {rev : Nat} {mask : Nat → DelOutcome}
    (h : (doCompact c s rev mask).1.notPanic → False) : CompactPanicSource c := by
  unfold doCompact at h
  simp only [] at h
  generalize hfold : List.foldl _ _ (pairs (compactBorders c)) = res at h
  obtain ⟨s', calls, pan⟩ := res
  simp only [] at h
  cases hpan : pan with
  | false => rw [hpan] at h; exact (h True.intro).elim
  | true =>
    have hflag : (fun (x : BState × Nat × Bool) => x.2.2) (s', calls, pan) = true := hpan
    rw [← hfold] at hflag
    have := foldl_flag _ (fun (x : BState × Nat × Bool) => x.2.2) (CompactPanicSource c) ?_ _ _ hflag
    · rcases this with h' | h'
      · cases h'
      · exact h'
    · intro a b hp
      simp only [Bool.or_eq_true] at hp
      rcases hp with hp | hp
      · exact .inl hp
      · exact .inr (compactRange_pan hp)

/-- ... in particular never on an engine with native TTL (memkv, Badger). -/
theorem doCompact_notPanic_native_ttl (c : Cfg) (hq : c.q.supportTTL = true) (s : BState) (rev : Nat)
    (mask : Nat → DelOutcome) : (doCompact c s rev mask).1.notPanic := by
  cases hd : (doCompact c s rev mask).1 with
  | ok _ => exact True.intro
  | error _ => exact True.intro
  | panic =>
    exfalso
    have := doCompact_panic_source (c := c) (s := s) (rev := rev) (mask := mask) (by rw [hd]; exact id)
    rw [this.1] at hq; cases hq

end KB
