/- The worker loop with expiry (`KB.passLoop`) on a sorted store: for every key the ttl pass has to spare — not an
event key, or an Event whose revision record names a revision above the timeout revision, or an Event whose
revision record the pass did not remove — the records removed are the ones the ordinary compaction rules remove
(`Deletable`), and a removed deletion marker leaves no older version behind (`TombClosed`); an expired Event goes
as a whole or not at all, under every failure mask (`pass_all_or_nothing`: the expiry batch of /repo 74218cc).
Used by C07Expire / C07Atomic. -/
import KB.Lemmas.Compact
import KB.Lemmas.Pass
namespace KB.ExpirePass
open KB KB.Compact Generated

/-! ### the ordinary rules do not look at the expiry settings -/

theorem workerStep_ccfg {c : WCfg} (hc : c.compact = true) (p : Prev) (r : Rec) :
    workerStep c p r = workerStep (ccfg c.R) p r := by
  simp only [workerStep, hc]

/-! ### `runDelete` / `runDeletes`: what they can change -/

def actRaw : Act → Option Bytes
  | .del _ raw => some raw
  | .delcur _ _ raw => some raw
  | .expire _ _ _ raw => some raw
  | _ => none

theorem runDelete_lastFailed (mask : Nat → DelOutcome) (st : CompState) (a : Act) :
    (runDelete mask st a).lastFailed = st.lastFailed ∨ actRaw a = some (runDelete mask st a).lastFailed := by
  cases a with
  | emit k v r => exact .inl rfl
  | panic => exact .inl rfl
  | expire ik v vers raw => exact .inl rfl
  | del ik raw =>
    simp only [runDelete]
    split
    · exact .inl rfl
    · split
      · exact .inl rfl
      · exact .inr rfl
      · exact .inr rfl
  | delcur ik v raw =>
    simp only [runDelete]
    split
    · exact .inl rfl
    · split
      · split <;> exact .inl rfl
      · exact .inr rfl
      · exact .inl rfl

theorem runDeletes_lastFailed (mask : Nat → DelOutcome) (acts : List Act) (st : CompState) :
    (runDeletes mask st acts).lastFailed = st.lastFailed ∨
      ∃ a ∈ acts, actRaw a = some (runDeletes mask st acts).lastFailed := by
  induction acts generalizing st with
  | nil => exact .inl rfl
  | cons a l ih =>
    rw [runDeletes_cons]
    rcases ih (runDelete mask st a) with h | ⟨a', ha', h⟩
    · rcases runDelete_lastFailed mask st a with h' | h'
      · exact .inl (h.trans h')
      · exact .inr ⟨a, by simp, by rw [h]; exact h'⟩
    · exact .inr ⟨a', List.mem_cons_of_mem _ ha', h⟩

/-- a record no action targets stays as it is -/
theorem runDeletes_get_of_not_target (mask : Nat → DelOutcome) (acts : List Act) (st : CompState)
    (h : Store.Sorted st.store) {b : Bytes} (hb : ∀ a ∈ acts, actTarget a ≠ some b) :
    (runDeletes mask st acts).store.get b = st.store.get b := by
  induction acts generalizing st with
  | nil => rfl
  | cons a l ih =>
    rw [runDeletes_cons]
    have hb' : ∀ a' ∈ l, actTarget a' ≠ some b := fun a' ha' => hb a' (List.mem_cons_of_mem _ ha')
    rcases runDelete_store mask st a with e | ⟨ik, ht, e⟩
    · rw [ih _ (e ▸ h) hb', e]
    · rw [ih _ (e ▸ Store.sorted_erase h ik) hb', e, Store.get_erase h]
      have : b ≠ ik := by
        intro hbi; subst hbi
        exact hb a (by simp) ht
      simp [this]

/-- what is gone stays gone -/
theorem runDeletes_get_none_mono (mask : Nat → DelOutcome) (acts : List Act) (st : CompState)
    (h : Store.Sorted st.store) {b : Bytes} (hb : st.store.get b = none) :
    (runDeletes mask st acts).store.get b = none := by
  induction acts generalizing st with
  | nil => exact hb
  | cons a l ih =>
    rw [runDeletes_cons]
    rcases runDelete_store mask st a with e | ⟨ik, _, e⟩
    · exact ih _ (e ▸ h) (e ▸ hb)
    · apply ih _ (e ▸ Store.sorted_erase h ik)
      rw [e, Store.get_erase h]
      split
      · rfl
      · exact hb

/-! ### erasing a list of keys: what the expiry batch does to the store -/

theorem eraseAll_sorted (l : List Bytes) {s : Store} (h : Store.Sorted s) : Store.Sorted (l.foldl Store.erase s) := by
  induction l generalizing s with
  | nil => exact h
  | cons x xs ih => exact ih (Store.sorted_erase h x)

theorem eraseAll_get (l : List Bytes) {s : Store} (h : Store.Sorted s) (b : Bytes) :
    (l.foldl Store.erase s).get b = if b ∈ l then none else s.get b := by
  induction l generalizing s with
  | nil => simp
  | cons x xs ih =>
    simp only [List.foldl_cons, List.mem_cons]
    rw [ih (Store.sorted_erase h x), Store.get_erase h]
    by_cases h1 : b ∈ xs
    · simp [h1]
    · by_cases h2 : b = x
      · simp [h2]
      · simp [h1, h2]

/-- the store after the expiry batch: untouched, or the revision record and all the collected versions gone -/
theorem runExpire_store (mask : Nat → DelOutcome) (st : CompState) (ik v : Bytes) (vers : List Bytes) (raw : Bytes) :
    (runExpire mask st ik v vers raw).store = st.store ∨
      (runExpire mask st ik v vers raw).store = (ik :: vers).foldl Store.erase st.store := by
  rcases runExpire_cases mask st ik v vers raw with ⟨_, e, _⟩ | ⟨_, _, _, _, e, _⟩ | ⟨_, _, e, _⟩
  · exact .inl (by rw [e])
  · exact .inr e
  · exact .inl e

theorem runExpire_sorted (mask : Nat → DelOutcome) (st : CompState) (ik v : Bytes) (vers : List Bytes) (raw : Bytes)
    (h : Store.Sorted st.store) : Store.Sorted (runExpire mask st ik v vers raw).store := by
  rcases runExpire_store mask st ik v vers raw with e | e
  · rw [e]; exact h
  · rw [e]; exact eraseAll_sorted _ h

theorem runExpire_get_none_mono (mask : Nat → DelOutcome) (st : CompState) (ik v : Bytes) (vers : List Bytes)
    (raw : Bytes) (h : Store.Sorted st.store) {b : Bytes} (hb : st.store.get b = none) :
    (runExpire mask st ik v vers raw).store.get b = none := by
  rcases runExpire_store mask st ik v vers raw with e | e
  · rw [e]; exact hb
  · rw [e, eraseAll_get _ h]; split
    · rfl
    · exact hb

/-- a record the batch does not name stays as it is -/
theorem runExpire_get_of_not_target (mask : Nat → DelOutcome) (st : CompState) (ik v : Bytes) (vers : List Bytes)
    (raw : Bytes) (h : Store.Sorted st.store) {b : Bytes} (hb : b ∉ ik :: vers) :
    (runExpire mask st ik v vers raw).store.get b = st.store.get b := by
  rcases runExpire_store mask st ik v vers raw with e | e
  · rw [e]
  · rw [e, eraseAll_get _ h, if_neg hb]

theorem runExpire_lastFailed (mask : Nat → DelOutcome) (st : CompState) (ik v : Bytes) (vers : List Bytes)
    (raw : Bytes) :
    (runExpire mask st ik v vers raw).lastFailed = st.lastFailed ∨ (runExpire mask st ik v vers raw).lastFailed = raw := by
  rcases runExpire_cases mask st ik v vers raw with ⟨_, e, _⟩ | ⟨_, _, _, _, _, e, _⟩ | ⟨_, _, _, e, _⟩
  · exact .inl (by rw [e])
  · exact .inl e
  · exact e

theorem runActs_sorted (mask : Nat → DelOutcome) (acts : List Act) (st : CompState) (h : Store.Sorted st.store) :
    Store.Sorted (runActs mask st acts).store := by
  induction acts generalizing st with
  | nil => exact h
  | cons a l ih =>
    rw [runActs_cons]
    apply ih
    cases a with
    | expire ik v vers raw => exact runExpire_sorted mask st ik v vers raw h
    | emit k v r => exact h
    | panic => exact h
    | del ik raw => exact runDeletes_sorted mask [.del ik raw] st h
    | delcur ik v raw => exact runDeletes_sorted mask [.delcur ik v raw] st h

theorem runActs_get_none_mono (mask : Nat → DelOutcome) (acts : List Act) (st : CompState)
    (h : Store.Sorted st.store) {b : Bytes} (hb : st.store.get b = none) :
    (runActs mask st acts).store.get b = none := by
  induction acts generalizing st with
  | nil => exact hb
  | cons a l ih =>
    rw [runActs_cons]
    cases a with
    | expire ik v vers raw =>
      exact ih _ (runExpire_sorted mask st ik v vers raw h) (runExpire_get_none_mono mask st ik v vers raw h hb)
    | emit k v r => exact ih _ h hb
    | panic => exact ih _ h hb
    | del ik raw =>
      exact ih _ (runDeletes_sorted mask [.del ik raw] st h) (runDeletes_get_none_mono mask [.del ik raw] st h hb)
    | delcur ik v raw =>
      exact ih _ (runDeletes_sorted mask [.delcur ik v raw] st h)
        (runDeletes_get_none_mono mask [.delcur ik v raw] st h hb)

theorem passLoop_get_none_mono (c : WCfg) (mask : Nat → DelOutcome) (snap : List Rec) (rs : List Rec) (p : Prev)
    (live gone : Bytes) (st : CompState) (h : Store.Sorted st.store) {b : Bytes} (hb : st.store.get b = none) :
    (passLoop c mask snap p live gone st rs).2.store.get b = none := by
  rw [passLoop_run]; exact runActs_get_none_mono mask _ st h hb

theorem passLoop_sorted (c : WCfg) (mask : Nat → DelOutcome) (snap : List Rec) (rs : List Rec) (p : Prev)
    (live gone : Bytes) (st : CompState) (h : Store.Sorted st.store) :
    Store.Sorted (passLoop c mask snap p live gone st rs).2.store := by
  rw [passLoop_run]; exact runActs_sorted mask _ st h

/-- the three ways a compare-and-delete can go -/
theorem runDelete_delcur_cases (mask : Nat → DelOutcome) (st : CompState) (ik v : Bytes) {raw : Bytes}
    (hraw : raw ≠ []) :
    (st.lastFailed = raw ∧ runDelete mask st (.delcur ik v raw) = st ∧ delcurErr mask st ik v raw = false) ∨
    (st.lastFailed ≠ raw ∧ delcurErr mask st ik v raw = false ∧
        (runDelete mask st (.delcur ik v raw)).store = st.store.erase ik) ∨
    (st.lastFailed ≠ raw ∧ delcurErr mask st ik v raw = true ∧
        (runDelete mask st (.delcur ik v raw)).store = st.store) := by
  by_cases h : st.lastFailed = raw
  · left
    have hl : raw.length > 0 := List.length_pos_iff.2 hraw
    refine ⟨h, ?_, ?_⟩
    · simp [runDelete, h, hl]
    · simp [delcurErr, h, hl]
  · right
    have hc : (decide (st.lastFailed.length > 0) && st.lastFailed == raw) = false := by simp [h]
    simp only [runDelete, delcurErr, hc]
    cases hmc : mask st.calls with
    | ok =>
      by_cases hg : st.store.get ik = some v
      · left; refine ⟨h, ?_, ?_⟩
        · simp [hg]
        · simp [hg]
      · right; refine ⟨h, ?_, ?_⟩
        · simp [hg]
        · simp [hg]
    | fail => right; exact ⟨h, by simp, rfl⟩
    | failCas => right; exact ⟨h, by simp, rfl⟩


/-! ### the actions of the ordinary rules for one record -/

theorem workerStep_snd_cases {R : Nat} (p : Prev) (r : Rec) :
    (workerStep (ccfg R) p r).2 = p ∨ (workerStep (ccfg R) p r).2 = ⟨r.key, r.rev, r.val⟩ := by
  by_cases hR : R < r.rev
  · rw [workerStep_skip p hR]; exact .inl rfl
  · rw [workerStep_snd p hR]
    split
    · exact .inl rfl
    · exact .inr rfl

/-- every delete of the ordinary rules for `r` is about `r`'s raw key: it targets `r` itself or the `prev` version
of the same key -/
theorem workerStep_acts_key {R : Nat} (p : Prev) (r : Rec) {a : Act} (ha : a ∈ (workerStep (ccfg R) p r).1) :
    (∀ raw, actRaw a = some raw → raw = r.key) ∧
    (∀ ik, actTarget a = some ik → ik = r.ik ∨ (ik = encode r.key p.rev ∧ p.key = r.key)) := by
  by_cases hR : R < r.rev
  · rw [workerStep_skip p hR] at ha; simp at ha
  · rw [workerStep_fst p hR] at ha
    simp only [List.mem_append] at ha
    rcases ha with ha | ha | ha
    · unfold cA1 at ha
      split at ha
      · have := emitPrev_target ha
        unfold emitPrev at ha
        split at ha
        · simp at ha; subst ha; exact ⟨fun _ h => (by cases h), fun _ h => (by cases h)⟩
        · simp at ha
      · rename_i hkey
        have hkey : r.key = p.key := by simpa using hkey
        split at ha
        · simp at ha; subst ha
          refine ⟨fun raw h => ?_, fun ik h => ?_⟩
          · simp only [actRaw, Option.some.injEq] at h; rw [← h, hkey]
          · simp only [actTarget, Option.some.injEq] at h
            exact .inr ⟨by rw [← h, hkey], hkey.symm⟩
        · simp at ha
    · unfold cA2 at ha
      split at ha
      · simp at ha; subst ha
        refine ⟨fun raw h => ?_, fun ik h => ?_⟩
        · simp only [actRaw, Option.some.injEq] at h; exact h.symm
        · simp only [actTarget, Option.some.injEq] at h; exact .inl h.symm
      · simp at ha
    · unfold cA3 at ha
      split at ha
      · simp at ha; subst ha
        refine ⟨fun raw h => ?_, fun ik h => ?_⟩
        · simp only [actRaw, Option.some.injEq] at h; exact h.symm
        · simp only [actTarget, Option.some.injEq] at h; exact .inl h.symm
      · simp at ha

/-! ### the records of the keys the ttl pass has to spare -/

/-- the records of protected keys -/
def pf (prot : Bytes → Bool) (l : List Rec) : List Rec := l.filter (fun r => prot r.key)

theorem mem_pf {prot : Bytes → Bool} {l : List Rec} {x : Rec} : x ∈ pf prot l ↔ x ∈ l ∧ prot x.key = true := by
  simp [pf, List.mem_filter]

theorem pf_append (prot : Bytes → Bool) (a b : List Rec) : pf prot (a ++ b) = pf prot a ++ pf prot b := by
  simp [pf]

theorem pf_cons_pos {prot : Bytes → Bool} {r : Rec} (h : prot r.key = true) (l : List Rec) :
    pf prot (r :: l) = r :: pf prot l := by simp [pf, h]

theorem pf_cons_neg {prot : Bytes → Bool} {r : Rec} (h : prot r.key = false) (l : List Rec) :
    pf prot (r :: l) = pf prot l := by simp [pf, h]

theorem pf_sorted {prot : Bytes → Bool} {l : List Rec} (h : SortedRecs l) : SortedRecs (pf prot l) :=
  List.Pairwise.sublist List.filter_sublist h

theorem pf_sub {prot : Bytes → Bool} {l : List Rec} {x : Rec} (h : x ∈ pf prot l) : x ∈ l := (mem_pf.1 h).1

theorem cmp_irrefl (k : Bytes) : cmp k k ≠ .lt := by rw [cmp_refl]; decide

/-- in a sorted list a record between two records of one key has that key -/
theorem key_between {a b c : Rec} (h1 : recLt a b) (h2 : recLt b c) (h : a.key = c.key) : b.key = a.key := by
  rcases h1 with h1 | ⟨h1, _⟩
  · rcases h2 with h2 | ⟨h2, _⟩
    · exact absurd (h ▸ cmp_lt_trans h1 h2) (cmp_irrefl _)
    · rw [h2, ← h] at h1; exact absurd h1 (cmp_irrefl _)
  · exact h1.symm

/-- `compactIfExpired` remembers the right key: the versions still to come of a protected Event whose revision record
was passed already find their key remembered -/
def LiveInv (c : WCfg) (prot : Bytes → Bool) (live : Bytes) (done rs : List Rec) : Prop :=
  ∀ x ∈ rs, 0 < x.rev → prot x.key = true → isEventKey c x.key = true →
    (∃ i ∈ done, i.key = x.key ∧ i.rev = 0) → live = x.key

/-- the protected Events: the revision record is there and either names a revision above the timeout revision
or is still in the store `fin` -/
def ProtOK (c : WCfg) (prot : Bytes → Bool) (fin : Store) (recs : List Rec) : Prop :=
  ∀ k, prot k = true → isEventKey c k = true →
    ∃ i ∈ recs, i.key = k ∧ i.rev = 0 ∧ 8 ≤ i.val.length ∧
      (c.timeout < fromBE (i.val.take 8) ∨ fin.get i.ik ≠ none)

theorem liveInv_step {c : WCfg} {prot : Bytes → Bool} {live live' : Bytes} {done rs : List Rec} {r : Rec}
    (hpw : (done ++ r :: rs).Pairwise recLt) (h : LiveInv c prot live done (r :: rs))
    (h1 : r.rev ≠ 0 → live' = live)
    (h2 : r.rev = 0 → prot r.key = true → isEventKey c r.key = true → live' = r.key) :
    LiveInv c prot live' (done ++ [r]) rs := by
  intro x hx hpos hp he ⟨i, hi, hik, hi0⟩
  have hpw' := List.pairwise_append.1 hpw
  have hrx : recLt r x := (List.pairwise_cons.1 hpw'.2.1).1 x hx
  rcases List.mem_append.1 hi with hi | hi
  · have hlive := h x (List.mem_cons_of_mem _ hx) hpos hp he ⟨i, hi, hik, hi0⟩
    by_cases hr0 : r.rev = 0
    · have hir : recLt i r := hpw'.2.2 i hi r (by simp)
      have hk : r.key = i.key := key_between hir hrx hik
      rw [h2 hr0 (by rw [hk, hik]; exact hp) (by rw [hk, hik]; exact he), hk, hik]
    · rw [h1 hr0]; exact hlive
  · simp only [List.mem_singleton] at hi; subst hi
    rw [h2 hi0 (hik ▸ hp) (hik ▸ he)]; exact hik

/-- the loop invariant: `done` processed, `rs` to come -/
structure PInv (recs : List Rec) (c : WCfg) (prot : Bytes → Bool) (done rs : List Rec) (p : Prev) (live : Bytes)
    (st : CompState) : Prop where
  pb : PrevBefore p rs
  pd : PrevDom c.R p (pf prot done)
  p64 : p.rev < 2 ^ 64
  ci : CInv (pf prot recs) p st (pf prot rs)
  lv : LiveInv c prot live done rs
  lf : st.lastFailed = [] ∨ ∃ d ∈ done, d.key = st.lastFailed
  dl : ∀ d ∈ pf prot recs, st.store.get d.ik = none → Deletable c.R recs d

section steps
variable {recs : List Rec} {mask : Nat → DelOutcome} {c : WCfg} {prot : Bytes → Bool}

/-- a step on a record of an UNPROTECTED key, whatever it does to records of that key: any new state that leaves the
records of the protected keys as they are -/
theorem step_unprot_gen (hs : SortedRecs recs)
    (hk : ∀ r ∈ recs, Alphabet r.key ∧ r.rev < 2 ^ 64)
    {done rs : List Rec} {r : Rec} (hsplit : recs = done ++ r :: rs) (hr : prot r.key = false)
    {p : Prev} {live : Bytes} {st : CompState} (hI : PInv recs c prot done (r :: rs) p live st)
    {st' : CompState} {p' : Prev} {live' : Bytes}
    (hp' : p' = p ∨ p' = ⟨r.key, r.rev, r.val⟩)
    (hso : Store.Sorted st'.store)
    (hagree : ∀ t ∈ pf prot recs, st'.store.get t.ik = st.store.get t.ik)
    (hlf : st'.lastFailed = st.lastFailed ∨ st'.lastFailed = r.key)
    (hl1 : r.rev ≠ 0 → live' = live) :
    PInv recs c prot (done ++ [r]) rs p' live' st' := by
  have hrm : r ∈ recs := by rw [hsplit]; simp
  have hpwall : (done ++ r :: rs).Pairwise recLt := hsplit ▸ hs
  have hpw' := List.pairwise_append.1 hpwall
  have hpw : (r :: rs).Pairwise recLt := hpw'.2.1
  -- nothing to come of a protected key has the key of the new `prev`
  have hnone : ¬ ∃ x ∈ pf prot rs, x.key = p'.key := by
    rintro ⟨x, hx, hxk⟩
    have hxm := mem_pf.1 hx
    have hrx : recLt r x := (List.pairwise_cons.1 hpw).1 x hxm.1
    have hkey : r.key = x.key := by
      rcases hp' with e | e
      · rw [e] at hxk
        rcases hI.pb r (by simp) with hc | ⟨hc, _⟩
        · rcases hrx with h | ⟨h, _⟩
          · rw [hxk] at h; exact absurd (cmp_lt_trans hc h) (cmp_irrefl _)
          · exact h
        · rw [← hc, hxk]
      · rw [e] at hxk; exact hxk.symm
    rw [← hkey, hr] at hxm; exact absurd hxm.2 (by decide)
  have hdone : pf prot (done ++ [r]) = pf prot done := by
    rw [pf_append, pf_cons_neg hr]; simp [pf]
  refine ⟨?_, ?_, ?_, ?_, ?_, ?_, ?_⟩
  · rcases hp' with e | e
    · rw [e]; exact prevBefore_tail hI.pb
    · rw [e]; exact prevBefore_next hpw
  · rw [hdone]
    rcases hp' with e | e
    · rw [e]; exact hI.pd
    · rw [e]
      intro w hw' _ _
      rcases hpw'.2.2 w (pf_sub hw') r (by simp) with hc | ⟨h1, h2⟩
      · exact .inl hc
      · exact .inr ⟨h1, Nat.le_of_lt h2⟩
  · rcases hp' with e | e
    · rw [e]; exact hI.p64
    · rw [e]; exact (hk r hrm).2
  · refine ⟨hso, ?_, fun h => absurd h hnone⟩
    intro t ht hget htomb hpos w hw' hwk h0 hlt
    rw [hagree w hw']
    rw [hagree t ht] at hget
    exact hI.ci.2.1 t ht hget htomb hpos w hw' hwk h0 hlt
  · exact liveInv_step hpwall hI.lv hl1 (fun _ h => by rw [hr] at h; exact absurd h (by decide))
  · rcases hlf with h | h
    · rw [h]
      rcases hI.lf with h' | ⟨d, hd, h'⟩
      · exact .inl h'
      · exact .inr ⟨d, by simp [hd], h'⟩
    · exact .inr ⟨r, by simp, h.symm⟩
  · intro d hd hget
    rw [hagree d hd] at hget
    exact hI.dl d hd hget

/-- … in particular the single-record deletes of a step on a record of an UNPROTECTED key -/
theorem step_unprot (hs : SortedRecs recs) (hw : WellKeyed recs)
    (hk : ∀ r ∈ recs, Alphabet r.key ∧ r.rev < 2 ^ 64)
    {done rs : List Rec} {r : Rec} (hsplit : recs = done ++ r :: rs) (hr : prot r.key = false)
    {p : Prev} {live : Bytes} {st : CompState} (hI : PInv recs c prot done (r :: rs) p live st)
    {acts : List Act} {p' : Prev} {live' : Bytes}
    (hp' : p' = p ∨ p' = ⟨r.key, r.rev, r.val⟩)
    (hacts : ∀ a ∈ acts, (∀ raw, actRaw a = some raw → raw = r.key) ∧
      (∀ ik, actTarget a = some ik → ∃ n, n < 2 ^ 64 ∧ ik = encode r.key n))
    (hl1 : r.rev ≠ 0 → live' = live) :
    PInv recs c prot (done ++ [r]) rs p' live' (runDeletes mask st acts) := by
  have hsorted := hI.ci.1
  apply step_unprot_gen hs hk hsplit hr hI hp' (runDeletes_sorted mask acts st hsorted) ?_ ?_ hl1
  · -- no action touches a record of a protected key
    intro t ht
    apply runDeletes_get_of_not_target mask acts st hsorted
    intro a ha htgt
    obtain ⟨n, hn, e⟩ := (hacts a ha).2 _ htgt
    have htm := mem_pf.1 ht
    rw [hw t htm.1] at e
    have := (encode_inj (hk t htm.1).2 hn e).1
    rw [this, hr] at htm; exact absurd htm.2 (by decide)
  · rcases runDeletes_lastFailed mask acts st with h | ⟨a, ha, h⟩
    · exact .inl h
    · exact .inr ((hacts a ha).1 _ h)

/-- the expiry batch at the revision record of an UNPROTECTED Event: whether it goes through or not, the records of
the protected keys stay as they are -/
theorem step_unprot_expire (hs : SortedRecs recs) (hw : WellKeyed recs)
    (hk : ∀ r ∈ recs, Alphabet r.key ∧ r.rev < 2 ^ 64)
    {done rs : List Rec} {r : Rec} (hsplit : recs = done ++ r :: rs) (hr : prot r.key = false) (hr0 : r.rev = 0)
    {p : Prev} {live : Bytes} {st : CompState} (hI : PInv recs c prot done (r :: rs) p live st) (live' : Bytes) :
    PInv recs c prot (done ++ [r]) rs p live' (runExpire mask st r.ik r.val (versionsOf r.key recs) r.key) := by
  have hsorted := hI.ci.1
  have hrm : r ∈ recs := by rw [hsplit]; simp
  apply step_unprot_gen hs hk hsplit hr hI (.inl rfl) (runExpire_sorted mask st _ _ _ _ hsorted) ?_
    (runExpire_lastFailed mask st _ _ _ _) (fun h => absurd hr0 h)
  intro t ht
  apply runExpire_get_of_not_target mask st _ _ _ _ hsorted
  have htm := mem_pf.1 ht
  intro hmem
  have hkey : t.key = r.key := by
    rcases List.mem_cons.1 hmem with e | e
    · rw [hw t htm.1, hw r hrm] at e
      exact (encode_inj (hk t htm.1).2 (hk r hrm).2 e).1
    · obtain ⟨w, hwm, hwk, _, _, e'⟩ := mem_versionsOf.1 e
      rw [hw t htm.1, hw w hwm] at e'
      rw [← hwk]; exact ((encode_inj (hk w hwm).2 (hk t htm.1).2 e').1).symm
  rw [hkey, hr] at htm; exact absurd htm.2 (by decide)

/-- a step of the ordinary rules on a record of a PROTECTED key: the invariants of C07's loop, on the protected
records -/
theorem step_prot_ord (hs : SortedRecs recs) (hw : WellKeyed recs)
    (hk : ∀ r ∈ recs, Alphabet r.key ∧ r.rev < 2 ^ 64) (hne : ∀ r ∈ recs, r.key ≠ [])
    {done rs : List Rec} {r : Rec} (hsplit : recs = done ++ r :: rs) (hr : prot r.key = true)
    {p : Prev} {live : Bytes} {st : CompState} (hI : PInv recs c prot done (r :: rs) p live st)
    {live' : Bytes} (hl1 : r.rev ≠ 0 → live' = live)
    (hl2 : r.rev = 0 → isEventKey c r.key = true → live' = r.key) :
    PInv recs c prot (done ++ [r]) rs (workerStep (ccfg c.R) p r).2 live'
      (runDeletes mask st (workerStep (ccfg c.R) p r).1) := by
  have hrm : r ∈ recs := by rw [hsplit]; simp
  have hpwall : (done ++ r :: rs).Pairwise recLt := hsplit ▸ hs
  have hpw : (r :: rs).Pairwise recLt := (List.pairwise_append.1 hpwall).2.1
  have hsP : SortedRecs (pf prot recs) := pf_sorted hs
  have hwP : WellKeyed (pf prot recs) := fun x hx => hw x (pf_sub hx)
  have hkP : ∀ x ∈ pf prot recs, Alphabet x.key ∧ x.rev < 2 ^ 64 := fun x hx => hk x (pf_sub hx)
  have hneP : ∀ x ∈ pf prot recs, x.key ≠ [] := fun x hx => hne x (pf_sub hx)
  have hsplitP : pf prot recs = pf prot done ++ r :: pf prot rs := by
    rw [hsplit, pf_append, pf_cons_pos hr]
  have hpbP : PrevBefore p (r :: pf prot rs) := by
    intro x hx
    rcases List.mem_cons.1 hx with rfl | hx
    · exact hI.pb _ (by simp)
    · exact hI.pb x (List.mem_cons_of_mem _ (pf_sub hx))
  have hciP : CInv (pf prot recs) p st (r :: pf prot rs) := by
    have := hI.ci; rwa [pf_cons_pos hr] at this
  have hdoneP : pf prot (done ++ [r]) = pf prot done ++ [r] := by
    rw [pf_append, pf_cons_pos hr]; simp [pf]
  refine ⟨prevBefore_step hI.pb hpw, ?_, workerStep_rev_lt hI.p64 (hk r hrm).2,
    cinv_step (mask := mask) hsP hwP hkP hneP hsplitP hpbP hI.pd hI.p64 hciP,
    liveInv_step hpwall hI.lv hl1 (fun h0 _ he => hl2 h0 he), ?_, ?_⟩
  · rw [hdoneP]; exact prevDom_step hsP hsplitP hI.pd
  · rcases runDeletes_lastFailed mask (workerStep (ccfg c.R) p r).1 st with h | ⟨a, ha, h⟩
    · rw [h]
      rcases hI.lf with h' | ⟨d, hd, h'⟩
      · exact .inl h'
      · exact .inr ⟨d, by simp [hd], h'⟩
    · exact .inr ⟨r, by simp, ((workerStep_acts_key p r ha).1 _ h).symm⟩
  · intro d hd hget
    rcases runDeletes_get_none mask _ st hI.ci.1 hget with h | ⟨a, ha, ht⟩
    · exact hI.dl d hd h
    · exact step_targets hs hw hk c.R hrm (hI.pb r (by simp)) hI.p64 ha ht (pf_sub hd) rfl

/-- the compare-and-delete of the expired revision record of a PROTECTED Event that leaves the record where it is -/
theorem step_prot_idx (hs : SortedRecs recs)
    {done rs : List Rec} {r : Rec} (hsplit : recs = done ++ r :: rs) (hr : prot r.key = true) (hr0 : r.rev = 0)
    {p : Prev} {live : Bytes} {st : CompState} (hI : PInv recs c prot done (r :: rs) p live st)
    {st' : CompState} {live' : Bytes} (hstore : st'.store = st.store)
    (hlf : st'.lastFailed = st.lastFailed ∨ st'.lastFailed = r.key) (hlive : live' = r.key) :
    PInv recs c prot (done ++ [r]) rs p live' st' := by
  have hpwall : (done ++ r :: rs).Pairwise recLt := hsplit ▸ hs
  have hpw : (r :: rs).Pairwise recLt := (List.pairwise_append.1 hpwall).2.1
  have hdoneP : pf prot (done ++ [r]) = pf prot done ++ [r] := by
    rw [pf_append, pf_cons_pos hr]; simp [pf]
  refine ⟨prevBefore_tail hI.pb, ?_, hI.p64, ⟨hstore ▸ hI.ci.1, hstore ▸ hI.ci.2.1, ?_⟩,
    liveInv_step hpwall hI.lv (fun h => absurd hr0 h) (fun _ _ _ => hlive), ?_, ?_⟩
  · rw [hdoneP]
    intro w hw' h0 hle
    rcases List.mem_append.1 hw' with h | h
    · exact hI.pd w h h0 hle
    · simp only [List.mem_singleton] at h; subst h; omega
  · rintro ⟨x, hx, hxk⟩
    have hrx : recLt r x := (List.pairwise_cons.1 hpw).1 x (pf_sub hx)
    rcases hI.pb r (by simp) with hc | ⟨_, hrev⟩
    · exfalso
      rcases hrx with h | ⟨h, _⟩
      · rw [hxk] at h; exact cmp_irrefl _ (cmp_lt_trans hc h)
      · rw [h, hxk] at hc; exact cmp_irrefl _ hc
    · have hp0 : p.rev = 0 := by
        rcases Nat.eq_zero_or_pos p.rev with h | h
        · exact h
        · have := hrev h; omega
      rw [hp0]; exact .inr (closed_zero _ _ _)
  · rcases hlf with h | h
    · rw [h]
      rcases hI.lf with h' | ⟨d, hd, h'⟩
      · exact .inl h'
      · exact .inr ⟨d, by simp [hd], h'⟩
    · exact .inr ⟨r, by simp, h.symm⟩
  · intro d hd hget
    rw [hstore] at hget
    exact hI.dl d hd hget


/-- the protected Event whose record is under the iterator: its revision record is well-formed and young or
surviving; its versions find the key remembered -/
theorem prot_event_facts (hs : SortedRecs recs) {fin : Store} (hP : ProtOK c prot fin recs)
    {done rs : List Rec} {r : Rec} (hsplit : recs = done ++ r :: rs) (hr : prot r.key = true)
    (hev : isEventKey c r.key = true)
    {p : Prev} {live : Bytes} {st : CompState} (hI : PInv recs c prot done (r :: rs) p live st) :
    (r.rev = 0 → 8 ≤ r.val.length ∧ (c.timeout < fromBE (r.val.take 8) ∨ fin.get r.ik ≠ none)) ∧
    (r.rev ≠ 0 → live = r.key) := by
  have hrm : r ∈ recs := by rw [hsplit]; simp
  obtain ⟨i, hi, hik, hi0, hlen, hdis⟩ := hP r.key hr hev
  constructor
  · intro hr0
    have : i = r := recs_unique hs hi hrm hik (by omega)
    subst this; exact ⟨hlen, hdis⟩
  · intro hr0
    have hpwall : (done ++ r :: rs).Pairwise recLt := hsplit ▸ hs
    have hpw' := List.pairwise_append.1 hpwall
    have hid : i ∈ done := by
      rw [hsplit] at hi
      rcases List.mem_append.1 hi with h | h
      · exact h
      · exfalso
        rcases List.mem_cons.1 h with rfl | h
        · exact hr0 hi0
        · rcases (List.pairwise_cons.1 hpw'.2.1).1 i h with hc | ⟨_, hc⟩
          · rw [hik] at hc; exact cmp_irrefl _ hc
          · omega
    exact hI.lv r (by simp) (Nat.pos_of_ne_zero hr0) hr hev ⟨i, hid, hik, hi0⟩

/-- **The loop with expiry, from any point on.** On a sorted store, with `prot` a set of keys whose Events have a
revision record that is young or still in the final store `fin`: what the pass removes of the protected keys is
what the ordinary compaction rules remove (`Deletable`), and a removed deletion marker of a protected key leaves no
older version behind — under every failure mask. (`gone`, the Event the worker removed as a whole, is never a
protected key: the revision record of a protected Event outlives the pass.) -/
theorem pass_inv (hs : SortedRecs recs) (hw : WellKeyed recs)
    (hk : ∀ r ∈ recs, Alphabet r.key ∧ r.rev < 2 ^ 64) (hne : ∀ r ∈ recs, r.key ≠ [])
    (hcomp : c.compact = true) (hon : c.supportTTL = false) (hT : c.timeout ≠ 0)
    {fin : Store} (hP : ProtOK c prot fin recs) (rs : List Rec) :
    ∀ (done : List Rec) (p : Prev) (live gone : Bytes) (st : CompState), recs = done ++ rs →
      PInv recs c prot done rs p live st → (gone = [] ∨ prot gone = false) →
      (passLoop c mask recs p live gone st rs).2.store = fin →
      TombClosed (pf prot recs) fin ∧ ∀ d ∈ pf prot recs, fin.get d.ik = none → Deletable c.R recs d := by
  induction rs with
  | nil =>
    intro done p live gone st _ hI _ hfin
    simp only [passLoop] at hfin
    subst hfin
    exact ⟨hI.ci.2.1, hI.dl⟩
  | cons r rs ih =>
    intro done p live gone st hsplit hI hG hfin
    have hrm : r ∈ recs := by rw [hsplit]; simp
    have hsplit' : recs = (done ++ [r]) ++ rs := by rw [hsplit]; simp
    have hrik : r.ik = encode r.key r.rev := hw r hrm
    rw [passLoop_cons] at hfin
    -- the delete call of an expiry step on a single record is about `r`
    have hexp : ∀ a : Act, (a = .panic ∨ a = .del r.ik r.key) →
        ∀ a' ∈ [a], (∀ raw, actRaw a' = some raw → raw = r.key) ∧
          (∀ ik, actTarget a' = some ik → ∃ n, n < 2 ^ 64 ∧ ik = encode r.key n) := by
      intro a ha a' ha'
      simp only [List.mem_singleton] at ha'; subst ha'
      rcases ha with rfl | rfl
      · exact ⟨fun _ h => (by cases h), fun _ h => (by cases h)⟩
      · refine ⟨fun raw h => ?_, fun ik h => ⟨r.rev, (hk r hrm).2, ?_⟩⟩
        · simp only [actRaw, Option.some.injEq] at h; exact h.symm
        · simp only [actTarget, Option.some.injEq] at h; rw [← h, hrik]
    -- the deletes of the ordinary rules are about `r`'s key
    have hord : ∀ a ∈ (workerStep (ccfg c.R) p r).1, (∀ raw, actRaw a = some raw → raw = r.key) ∧
          (∀ ik, actTarget a = some ik → ∃ n, n < 2 ^ 64 ∧ ik = encode r.key n) := by
      intro a ha
      refine ⟨(workerStep_acts_key p r ha).1, fun ik h => ?_⟩
      rcases (workerStep_acts_key p r ha).2 ik h with e | ⟨e, _⟩
      · exact ⟨r.rev, (hk r hrm).2, by rw [e, hrik]⟩
      · exact ⟨p.rev, hI.p64, e⟩
    by_cases hr : prot r.key = true
    · -- a record of a protected key
      rcases expiry_cases c live gone r with h0 | ⟨_, _, hev, ⟨h0, hr0, hlen⟩ | ⟨h0, hr0, hlen, hle⟩ |
          ⟨h0, hr0, hlen, hgt⟩ | ⟨h0, hrne, hg⟩ | ⟨h0, hrne, hle, hnl, _⟩⟩
      · -- not expired, nothing remembered: the ordinary rules
        rw [h0] at hfin
        simp only [workerStep_ccfg hcomp] at hfin
        exact ih _ _ _ _ _ hsplit' (step_prot_ord hs hw hk hne hsplit hr hI (fun _ => rfl)
          (fun hr0 hev => absurd h0 (expiry_idx_ne_no hon hT hev hr0 live gone))) hG hfin
      · -- a protected Event has a well-formed revision record
        have := ((prot_event_facts hs hP hsplit hr hev hI).1 hr0).1
        omega
      · -- expired revision record of a protected Event: it is still there at the end, so its batch returned an
        -- error and the key is remembered as alive
        rw [h0] at hfin
        simp only at hfin
        have hsurv : fin.get r.ik ≠ none := by
          rcases ((prot_event_facts hs hP hsplit hr hev hI).1 hr0).2 with h | h
          · omega
          · exact h
        rcases runExpire_cases mask st r.ik r.val (versionsOf r.key recs) r.key with
          ⟨h1, _, _⟩ | ⟨_, _, _, _, h3, _⟩ | ⟨_, h2, h3, h4, _⟩
        · -- `lastCompactFailedRawKey` cannot be the key of a record that was not reached yet
          exfalso
          have h1' := (skipped_iff.1 h1).2
          rcases hI.lf with h | ⟨d, hd, h⟩
          · exact hne r hrm (h1' ▸ h)
          · have hpwall : (done ++ r :: rs).Pairwise recLt := hsplit ▸ hs
            rcases (List.pairwise_append.1 hpwall).2.2 d hd r (by simp) with hc | ⟨_, hc⟩
            · rw [h, h1'] at hc; exact cmp_irrefl _ hc
            · omega
        · exfalso
          apply hsurv
          rw [← hfin]
          apply passLoop_get_none_mono c mask recs rs _ _ _ _ (runExpire_sorted mask st _ _ _ _ hI.ci.1)
          rw [h3]
          have := eraseAll_get (r.ik :: versionsOf r.key recs) hI.ci.1 r.ik
          simp only [List.foldl_cons, List.mem_cons, true_or, if_true] at this
          exact this
        · rw [h2] at hfin
          simp only [if_true] at hfin
          refine ih _ _ _ _ _ hsplit' (step_prot_idx hs hsplit hr hr0 hI h3 h4 rfl) hG hfin
      · -- young revision record: the key is remembered, then the ordinary rules
        rw [h0] at hfin
        simp only [workerStep_ccfg hcomp] at hfin
        exact ih _ _ _ _ _ hsplit' (step_prot_ord hs hw hk hne hsplit hr hI (fun h => absurd hr0 h)
          (fun _ _ => rfl)) hG hfin
      · -- the gone Event is never a protected one
        exfalso
        rcases hG with h | h
        · exact hne r hrm (hg.trans h)
        · rw [← hg, hr] at h; cases h
      · -- a version of a protected Event never expires: its key is remembered
        exact absurd ((prot_event_facts hs hP hsplit hr hev hI).2 hrne).symm hnl
    · -- a record of an unprotected key: whatever happens to it leaves the protected records alone
      have hr : prot r.key = false := by simpa using hr
      rcases expiry_cases c live gone r with h0 | ⟨_, _, hev, ⟨h0, hr0, hlen⟩ | ⟨h0, hr0, hlen, hle⟩ |
          ⟨h0, hr0, hlen, hgt⟩ | ⟨h0, hrne, hg⟩ | ⟨h0, hrne, hle, hnl, _⟩⟩
      · rw [h0] at hfin
        simp only [workerStep_ccfg hcomp] at hfin
        exact ih _ _ _ _ _ hsplit' (step_unprot hs hw hk hsplit hr hI (workerStep_snd_cases p r) hord
          (fun _ => rfl)) hG hfin
      · rw [h0] at hfin
        simp only at hfin
        have hstep := step_unprot (mask := mask) (acts := [.panic]) (live' := live) hs hw hk hsplit hr hI (.inl rfl)
          (hexp _ (.inl rfl)) (fun _ => rfl)
        exact ih _ p live gone st hsplit' hstep hG hfin
      · rw [h0] at hfin
        simp only at hfin
        refine ih _ _ _ _ _ hsplit' (step_unprot_expire hs hw hk hsplit hr hr0 hI _) ?_ hfin
        split
        · exact hG
        · exact .inr hr
      · rw [h0] at hfin
        simp only [workerStep_ccfg hcomp] at hfin
        exact ih _ _ _ _ _ hsplit' (step_unprot hs hw hk hsplit hr hI (workerStep_snd_cases p r) hord
          (fun h => absurd hr0 h)) hG hfin
      · rw [h0] at hfin
        simp only at hfin
        have hstep := step_unprot (mask := mask) (acts := []) (live' := live) hs hw hk hsplit hr hI (.inl rfl)
          (fun _ h => by simp at h) (fun _ => rfl)
        exact ih _ p live gone st hsplit' hstep hG hfin
      · rw [h0] at hfin
        simp only at hfin
        exact ih _ _ _ _ _ hsplit' (step_unprot (acts := [.del r.ik r.key]) hs hw hk hsplit hr hI
          (.inl rfl) (hexp _ (.inr rfl)) (fun _ => rfl)) hG hfin


/-- One worker over a sorted store, from the start (`passRun`). -/
theorem passRun_inv (hs : SortedRecs recs) (hw : WellKeyed recs)
    (hk : ∀ r ∈ recs, Alphabet r.key ∧ r.rev < 2 ^ 64) (hne : ∀ r ∈ recs, r.key ≠ [])
    (hcomp : c.compact = true) (hon : c.supportTTL = false) (hT : c.timeout ≠ 0)
    (hP : ProtOK c prot (passRun c mask { store := encodeStore recs } recs).2.store recs) :
    TombClosed (pf prot recs) (passRun c mask { store := encodeStore recs } recs).2.store ∧
    ∀ d ∈ pf prot recs, (passRun c mask { store := encodeStore recs } recs).2.store.get d.ik = none →
      Deletable c.R recs d := by
  have hinit : ∀ t ∈ pf prot recs, (encodeStore recs).get t.ik ≠ none := by
    intro t ht h
    rw [hw t (pf_sub ht), encodeStore_get hs hk (pf_sub ht)] at h; cases h
  rw [passRun_eq] at hP ⊢
  apply pass_inv hs hw hk hne hcomp hon hT hP recs [] {} [] [] { store := encodeStore recs, lastFailed := [] } rfl
  · refine ⟨prevBefore_init _, fun _ h => by simp [pf] at h, by decide,
      ⟨encodeStore_sorted hs hk, fun t ht hget => absurd hget (hinit t ht), fun _ => .inr (closed_zero _ _ _)⟩,
      fun _ _ _ _ _ ⟨_, hi, _⟩ => by simp at hi, .inl rfl, fun d hd hget => absurd hget (hinit d hd)⟩
  · exact .inl rfl
  · rfl

end steps

/-! ### a point read only looks at the records of its key -/

theorem readAt_filter_key {recs : List Rec} (hs : SortedRecs recs) (keep : Rec → Bool) (R R' : Nat)
    (hR : R ≤ R') (k : Bytes)
    (h12 : ∀ d ∈ recs, d.key = k → keep d = false → Deletable R recs d)
    (h3 : ∀ t ∈ recs, t.key = k → keep t = false → isTomb t.val = true → 0 < t.rev →
      ∀ w ∈ recs, w.key = t.key → 0 < w.rev → w.rev < t.rev → keep w = false) :
    readAt R' (recs.filter keep) k = readAt R' recs k := by
  unfold readAt
  rw [visible_filter, visible_eq]
  have hF : (recs.filter (visPred R' k)).Pairwise recLt := List.Pairwise.sublist List.filter_sublist hs
  have hmem : ∀ x ∈ recs.filter (visPred R' k), x ∈ recs ∧ x.key = k ∧ 0 < x.rev ∧ x.rev ≤ R' := by
    intro x hx
    rw [List.mem_filter, visPred_iff] at hx
    exact hx
  rcases List.eq_nil_or_concat (recs.filter (visPred R' k)) with h | ⟨init, n, h⟩
  · rw [h]; rfl
  · rw [List.concat_eq_append] at h
    rw [h] at hF hmem
    rw [h, List.filter_append, List.getLast?_concat]
    obtain ⟨hn, hnk, hn0, hnR⟩ := hmem n (by simp)
    have hinit : ∀ x ∈ init, x ∈ recs ∧ x.key = n.key ∧ 0 < x.rev ∧ x.rev < n.rev := by
      intro x hx
      obtain ⟨hx1, hx2, hx3, _⟩ := hmem x (by simp [hx])
      refine ⟨hx1, hx2.trans hnk.symm, hx3, ?_⟩
      rcases (List.pairwise_append.1 hF).2.2 x hx n (by simp) with hc | ⟨_, hc⟩
      · rw [hx2, hnk, cmp_refl] at hc; cases hc
      · exact hc
    cases hkn : keep n with
    | true =>
      simp [hkn]
    | false =>
      simp only [List.filter_cons, hkn, Bool.false_eq_true, if_false, List.filter_nil, List.append_nil]
      obtain ⟨hnle, _, hpos⟩ := h12 n hn hnk hkn
      have htomb : isTomb n.val = true := by
        rcases hpos hn0 with ht | ⟨r', hr', hkey, hlt, hle⟩
        · exact ht
        · exfalso
          have hr'F : r' ∈ init ++ [n] := by
            rw [← h, List.mem_filter, visPred_iff]
            exact ⟨hr', hkey.trans hnk, by omega, by omega⟩
          simp only [List.mem_append, List.mem_singleton] at hr'F
          rcases hr'F with hi | rfl
          · have := (hinit r' hi).2.2.2; omega
          · omega
      have hnil : init.filter keep = [] := by
        rw [List.filter_eq_nil_iff]
        intro x hx
        obtain ⟨hx1, hx2, hx3, hx4⟩ := hinit x hx
        simp [h3 n hn hnk hkn htomb hn0 x hx1 hx2 hx3 hx4]
      rw [hnil]
      simp [htomb]

/-- a filter of the store that preserves the point reads of the keys in `sp` preserves the range read on them -/
theorem scan_filter_on {recs : List Rec} (hs : SortedRecs recs) (keep : Rec → Bool) (R : Nat) (sp : Bytes → Bool)
    (h : ∀ k, sp k = true → readAt R (recs.filter keep) k = readAt R recs k) :
    (scanRecs R (recs.filter keep)).filter (fun e => sp e.1) = (scanRecs R recs).filter (fun e => sp e.1) := by
  have hs' : SortedRecs (recs.filter keep) := List.Pairwise.sublist List.filter_sublist hs
  rw [scanRecs_eq_filter hs', scanRecs_eq_filter hs, List.filter_map, List.filter_map, List.filter_filter,
    List.filter_filter, List.filter_filter]
  congr 1
  apply List.filter_congr
  intro r hr
  cases hsp : sp r.key with
  | false => simp [triple, hsp]
  | true =>
    have hread := h r.key hsp
    simp only [Function.comp, triple, hsp, Bool.true_and]
    cases hk : keep r with
    | true =>
      have hr' : r ∈ recs.filter keep := List.mem_filter.2 ⟨hr, hk⟩
      simp only [Bool.and_true]
      apply decide_eq_decide.2
      rw [top_iff_readAt hs' R hr', top_iff_readAt hs R hr, hread]
    | false =>
      simp only [Bool.and_false]
      symm
      apply decide_eq_false
      intro ht
      have h1 := (top_iff_readAt hs R hr).1 ht
      rw [← hread] at h1
      obtain ⟨x, hx, hxk, _, hxn, _⟩ := readAt_some h1
      have hx' := List.mem_filter.1 hx
      have : x = r := recs_unique hs hx'.1 hr hxk hxn
      subst this
      rw [hk] at hx'; exact absurd hx'.2 (by decide)


/-! ### the ordinary rules for any configuration: what they target -/

theorem workerStep_rev_cases (c : WCfg) (p : Prev) (r : Rec) :
    (workerStep c p r).2.rev = p.rev ∨ (workerStep c p r).2.rev = r.rev := by
  unfold workerStep
  repeat' split
  all_goals first | exact .inl rfl | exact .inr rfl

theorem workerStep_mem (c : WCfg) (p : Prev) (r : Rec) {a : Act} (ha : a ∈ (workerStep c p r).1) :
    a ∈ emitPrev p ∨ (a = .del (encode p.key p.rev) p.key ∧ r.key = p.key ∧ 0 < p.rev) ∨ a = .del r.ik r.key ∨
      a = .delcur r.ik r.val r.key := by
  have h1 : ∀ a, a ∈ (if r.key != p.key then emitPrev p
        else if c.compact && decide (p.rev > 0) then [Act.del (encode p.key p.rev) p.key] else []) →
      a ∈ emitPrev p ∨ (a = .del (encode p.key p.rev) p.key ∧ r.key = p.key ∧ 0 < p.rev) := by
    intro a ha
    split at ha
    · exact .inl ha
    · rename_i hkey
      have hkey : r.key = p.key := by simpa using hkey
      split at ha
      · rename_i hc
        simp only [Bool.and_eq_true, decide_eq_true_eq] at hc
        simp at ha; exact .inr ⟨ha, hkey, hc.2⟩
      · simp at ha
  have h2 : ∀ a, a ∈ (if c.compact && isTomb r.val then [Act.del r.ik r.key] else []) → a = .del r.ik r.key := by
    intro a ha
    split at ha
    · simpa using ha
    · simp at ha
  unfold workerStep at ha
  split at ha
  · simp at ha
  · simp only at ha
    split at ha
    · split at ha
      · rcases List.mem_append.1 ha with ha | ha
        · rcases h1 a ha with h | h
          · exact .inl h
          · exact .inr (.inl h)
        · exact .inr (.inr (.inl (h2 a ha)))
      · rcases List.mem_append.1 ha with ha | ha
        · rcases List.mem_append.1 ha with ha | ha
          · rcases h1 a ha with h | h
            · exact .inl h
            · exact .inr (.inl h)
          · exact .inr (.inr (.inl (h2 a ha)))
        · simp at ha; exact .inr (.inr (.inr ha))
    · rcases List.mem_append.1 ha with ha | ha
      · rcases h1 a ha with h | h
        · exact .inl h
        · exact .inr (.inl h)
      · exact .inr (.inr (.inl (h2 a ha)))

theorem workerStep_targets_key (c : WCfg) (p : Prev) (r : Rec) (hr64 : r.rev < 2 ^ 64) (hp64 : p.rev < 2 ^ 64)
    (hrik : r.ik = encode r.key r.rev) :
    ∀ a ∈ (workerStep c p r).1, ∀ ik, actTarget a = some ik → ∃ n, n < 2 ^ 64 ∧ ik = encode r.key n := by
  intro a ha ik h
  rcases workerStep_mem c p r ha with hn | ⟨rfl, hkey, _⟩ | rfl | rfl
  · rw [emitPrev_target hn] at h; cases h
  · simp only [actTarget, Option.some.injEq] at h; exact ⟨p.rev, hp64, by rw [← h, hkey]⟩
  · simp only [actTarget, Option.some.injEq] at h; exact ⟨r.rev, hr64, by rw [← h, hrik]⟩
  · simp only [actTarget, Option.some.injEq] at h; exact ⟨r.rev, hr64, by rw [← h, hrik]⟩

/-! ### an expired Event goes as a whole when every call succeeds -/

theorem runDelete_ok_lastFailed {mask : Nat → DelOutcome} (hok : ∀ i, mask i = .ok) (st : CompState) (a : Act) :
    (runDelete mask st a).lastFailed = st.lastFailed := by
  cases a with
  | emit k v r => rfl
  | panic => rfl
  | expire ik v vers raw => rfl
  | del ik raw => simp only [runDelete, hok]; split <;> rfl
  | delcur ik v raw =>
    simp only [runDelete, hok]
    split
    · rfl
    · split <;> rfl

theorem runDeletes_ok_lastFailed {mask : Nat → DelOutcome} (hok : ∀ i, mask i = .ok) (acts : List Act)
    (st : CompState) : (runDeletes mask st acts).lastFailed = st.lastFailed := by
  induction acts generalizing st with
  | nil => rfl
  | cons a l ih => rw [runDeletes_cons, ih, runDelete_ok_lastFailed hok]

theorem runExpire_ok_lastFailed {mask : Nat → DelOutcome} (hok : ∀ i, mask i = .ok) (st : CompState)
    (ik v : Bytes) (vers : List Bytes) (raw : Bytes) :
    (runExpire mask st ik v vers raw).lastFailed = st.lastFailed := by
  simp only [runExpire, hok]
  split
  · rfl
  · split <;> rfl

/-- every record of `k` in the snapshot is named by the expiry batch made at `k`'s revision record `i` -/
theorem mem_batch_of_key (hs : SortedRecs recs) {k : Bytes} {i : Rec} (hi : i ∈ recs) (hik : i.key = k)
    (hi0 : i.rev = 0) (hmax : ∀ w ∈ recs, w.key = k → w.rev < 2 ^ 64 - 1) {w : Rec} (hwm : w ∈ recs)
    (hwk : w.key = k) : w.ik ∈ i.ik :: versionsOf k recs := by
  by_cases h0 : w.rev = 0
  · have : w = i := recs_unique hs hwm hi (hwk.trans hik.symm) (by omega)
    subst this; simp
  · exact List.mem_cons_of_mem _ (mem_versionsOf.2 ⟨w, hwm, hwk, h0, hmax w hwm hwk, rfl⟩)

/-- the keys an expiry batch names belong to the raw key it is made for -/
theorem batch_keys (hw : WellKeyed recs) (hk : ∀ r ∈ recs, Alphabet r.key ∧ r.rev < 2 ^ 64)
    {r : Rec} (hrm : r ∈ recs) {b : Bytes} (hb : b ∈ r.ik :: versionsOf r.key recs) :
    ∃ n, n < 2 ^ 64 ∧ b = encode r.key n := by
  rcases List.mem_cons.1 hb with e | e
  · exact ⟨r.rev, (hk r hrm).2, by rw [e, hw r hrm]⟩
  · obtain ⟨w, hwm, hwk, _, _, e'⟩ := mem_versionsOf.1 e
    exact ⟨w.rev, (hk w hwm).2, by rw [← e', hw w hwm, hwk]⟩

/-- the invariant of the loop for the records of the expired Event `k`, every call succeeding: either all of them
are gone (the batch at the revision record went through), or the pass has not yet reached the revision record (or
there is none) and removes the versions one by one -/
structure WInv (recs : List Rec) (k : Bytes) (done rs : List Rec) (p : Prev) (live gone : Bytes) (st : CompState) :
    Prop where
  lf : st.lastFailed = []
  so : Store.Sorted st.store
  p64 : p.rev < 2 ^ 64
  alt : (∀ w ∈ recs, w.key = k → st.store.get w.ik = none) ∨
    ((∀ w ∈ done, w.key = k → st.store.get w.ik = none) ∧
     (∀ w ∈ rs, w.key = k → st.store.get w.ik = some w.val) ∧ live ≠ k ∧ gone ≠ k)

section whole
variable {recs : List Rec} {mask : Nat → DelOutcome} {c : WCfg}

/-- a step that names only keys `encode r.key n` of another raw key, or — once everything of `k` is gone — any step -/
theorem winv_step (hw : WellKeyed recs) (hk : ∀ r ∈ recs, Alphabet r.key ∧ r.rev < 2 ^ 64)
    {k : Bytes} {done rs : List Rec} {r : Rec} (hsplit : recs = done ++ r :: rs)
    {p : Prev} {live gone : Bytes} {st : CompState} (hI : WInv recs k done (r :: rs) p live gone st)
    {st' : CompState} {p' : Prev} {live' gone' : Bytes} (hp' : p'.rev < 2 ^ 64)
    (hlf : st'.lastFailed = st.lastFailed) (hso : Store.Sorted st'.store)
    (hmono : ∀ b, st.store.get b = none → st'.store.get b = none)
    (hother : r.key ≠ k → (∀ b, (∀ n, n < 2 ^ 64 → b ≠ encode r.key n) → st'.store.get b = st.store.get b) ∧
      (live' = live ∨ live' = r.key) ∧ (gone' = gone ∨ gone' = r.key))
    (hself : r.key = k → (∀ w ∈ done, w.key = k → st.store.get w.ik = none) →
      (∀ w ∈ r :: rs, w.key = k → st.store.get w.ik = some w.val) → live ≠ k → gone ≠ k →
      (∀ w ∈ recs, w.key = k → st'.store.get w.ik = none) ∨
      (st'.store.get r.ik = none ∧ (∀ w ∈ rs, w.key = k → st'.store.get w.ik = some w.val) ∧
        live' = live ∧ gone' = gone)) :
    WInv recs k (done ++ [r]) rs p' live' gone' st' := by
  refine ⟨hlf ▸ hI.lf, hso, hp', ?_⟩
  rcases hI.alt with hL | ⟨hg, ht, hlv, hgn⟩
  · exact .inl (fun w hwm hwk => hmono _ (hL w hwm hwk))
  · by_cases hrk : r.key = k
    · rcases hself hrk hg ht hlv hgn with h | ⟨h1, h2, h3, h4⟩
      · exact .inl h
      · right
        refine ⟨?_, h2, h3 ▸ hlv, h4 ▸ hgn⟩
        intro w hwd hwk
        rcases List.mem_append.1 hwd with h | h
        · exact hmono _ (hg w h hwk)
        · simp only [List.mem_singleton] at h; subst h; exact h1
    · obtain ⟨hsame, hl, hgo⟩ := hother hrk
      have hnt : ∀ w ∈ recs, w.key = k → st'.store.get w.ik = st.store.get w.ik := by
        intro w hwm hwk
        apply hsame
        intro n hn e
        rw [hw w hwm] at e
        exact hrk ((encode_inj (hk w hwm).2 hn e).1.symm.trans hwk)
      right
      refine ⟨?_, ?_, ?_, ?_⟩
      · intro w hwd hwk
        rcases List.mem_append.1 hwd with h | h
        · exact hmono _ (hg w h hwk)
        · simp only [List.mem_singleton] at h; subst h; exact absurd hwk hrk
      · intro w hwr hwk
        rw [hnt w (by rw [hsplit]; simp [hwr]) hwk]
        exact ht w (List.mem_cons_of_mem _ hwr) hwk
      · rcases hl with h | h <;> rw [h]
        · exact hlv
        · exact hrk
      · rcases hgo with h | h <;> rw [h]
        · exact hgn
        · exact hrk

/-- single-record deletes that name only keys of `r.key` -/
theorem runDeletes_same_off_key (mask : Nat → DelOutcome) (acts : List Act) (st : CompState)
    (hso : Store.Sorted st.store) {key : Bytes}
    (hacts : ∀ a ∈ acts, ∀ ik, actTarget a = some ik → ∃ n, n < 2 ^ 64 ∧ ik = encode key n) :
    ∀ b, (∀ n, n < 2 ^ 64 → b ≠ encode key n) → (runDeletes mask st acts).store.get b = st.store.get b := by
  intro b hb
  apply runDeletes_get_of_not_target mask acts st hso
  intro a ha htgt
  obtain ⟨n, hn, e⟩ := hacts a ha _ htgt
  exact hb n hn e

/-- **Wholly, for the whole pass.** An Event whose revision record and versions all lie at or below the timeout
revision, in a pass all of whose calls succeed: no record of it is left. -/
theorem pass_removes_expired (hs : SortedRecs recs) (hw : WellKeyed recs)
    (hk : ∀ r ∈ recs, Alphabet r.key ∧ r.rev < 2 ^ 64)
    (hon : c.supportTTL = false) (hT : c.timeout ≠ 0) (hok : ∀ i, mask i = .ok)
    {k : Bytes} (hev : isEventKey c k = true)
    (hidx : ∀ i ∈ recs, i.key = k → i.rev = 0 → 8 ≤ i.val.length ∧ fromBE (i.val.take 8) ≤ c.timeout)
    (hver : ∀ w ∈ recs, w.key = k → w.rev ≤ c.timeout)
    (hmax : ∀ w ∈ recs, w.key = k → w.rev < 2 ^ 64 - 1) (rs : List Rec) :
    ∀ (done : List Rec) (p : Prev) (live gone : Bytes) (st : CompState), recs = done ++ rs →
      WInv recs k done rs p live gone st →
      ∀ w ∈ recs, w.key = k → (passLoop c mask recs p live gone st rs).2.store.get w.ik = none := by
  induction rs with
  | nil =>
    intro done p live gone st hsplit hI w hwm hwk
    simp only [passLoop]
    rcases hI.alt with h | ⟨h, _⟩
    · exact h w hwm hwk
    · exact h w (by simpa [hsplit] using hwm) hwk
  | cons r rs ih =>
    intro done p live gone st hsplit hI
    have hrm : r ∈ recs := by rw [hsplit]; simp
    have hsplit' : recs = (done ++ [r]) ++ rs := by rw [hsplit]; simp
    have hrik : r.ik = encode r.key r.rev := hw r hrm
    have hpw : (r :: rs).Pairwise recLt := by rw [hsplit] at hs; exact (List.pairwise_append.1 hs).2.1
    have hoff : ¬ (c.supportTTL || c.timeout == 0) = true := by simp [hon, hT]
    have hnotskip : (decide (st.lastFailed.length > 0) && st.lastFailed == r.key) = false := by simp [hI.lf]
    -- the versions to come of `k` are not `r`
    have hne_ik : ∀ w ∈ rs, w.ik ≠ r.ik := by
      intro w hwr e
      have hwm : w ∈ recs := by rw [hsplit]; simp [hwr]
      rw [hw w hwm, hw r hrm] at e
      obtain ⟨e1, e2⟩ := encode_inj (hk w hwm).2 (hk r hrm).2 e
      rcases (List.pairwise_cons.1 hpw).1 w hwr with hc | ⟨_, hc⟩
      · rw [e1] at hc; exact cmp_irrefl _ hc
      · omega
    -- a successful single delete of `r` itself
    have hdel_self : ∀ st' : CompState, st'.store = st.store.erase r.ik →
        (∀ w ∈ r :: rs, w.key = k → st.store.get w.ik = some w.val) →
        st'.store.get r.ik = none ∧ (∀ w ∈ rs, w.key = k → st'.store.get w.ik = some w.val) := by
      intro st' hst ht
      refine ⟨by rw [hst, Store.get_erase hI.so]; simp, fun w hwr hwk => ?_⟩
      rw [hst, Store.get_erase hI.so, if_neg (hne_ik w hwr)]
      exact ht w (List.mem_cons_of_mem _ hwr) hwk
    have hmono_del : ∀ a : Act, ∀ b, st.store.get b = none → (runDelete mask st a).store.get b = none :=
      fun a b hb => runDeletes_get_none_mono mask [a] st hI.so hb
    rw [passLoop_cons]
    rcases expiry_cases c live gone r with h0 | ⟨_, _, hevr, ⟨h0, hr0, hlen⟩ | ⟨h0, hr0, hlen, hle⟩ |
        ⟨h0, hr0, hlen, hgt⟩ | ⟨h0, hrne, hg⟩ | ⟨h0, hrne, hle, hnl, hng⟩⟩
    · -- the ordinary rules: never for a record of `k` that is still there
      rw [h0]
      simp only
      refine ih _ _ _ _ _ hsplit' (winv_step hw hk hsplit hI ?_ (runDeletes_ok_lastFailed hok _ _)
        (runDeletes_sorted mask _ st hI.so) (fun b hb => runDeletes_get_none_mono mask _ st hI.so hb) ?_ ?_)
      · rcases workerStep_rev_cases c p r with h | h <;> rw [h]
        · exact hI.p64
        · exact (hk r hrm).2
      · intro _
        exact ⟨runDeletes_same_off_key mask _ st hI.so (workerStep_targets_key c p r (hk r hrm).2 hI.p64 hrik),
          .inl rfl, .inl rfl⟩
      · intro hrk _ _ hlv hgn
        exfalso
        have hev' : isEventKey c r.key = true := hrk ▸ hev
        by_cases hr0 : r.rev = 0
        · exact expiry_idx_ne_no hon hT hev' hr0 live gone h0
        · have : expiry c live gone r = .ver := by
            unfold expiry
            rw [if_neg hoff, if_pos hev', if_neg (by simp [hr0]), if_neg (by simp [hrk]; exact fun h => hgn h.symm),
              if_pos (by simp [hrk]; exact ⟨hver r hrm hrk, fun h => hlv h.symm⟩)]
          rw [this] at h0; cases h0
    · -- panic: not for the revision record of `k` (it is well-formed)
      rw [h0]
      simp only
      refine ih _ _ _ _ _ hsplit' (winv_step (st' := st) hw hk hsplit hI hI.p64 rfl hI.so (fun _ h => h) ?_ ?_)
      · intro _; exact ⟨fun _ _ => rfl, .inl rfl, .inl rfl⟩
      · intro hrk _ _ _ _
        have := (hidx r hrm hrk hr0).1; omega
    · -- the batch at an expired revision record
      rw [h0]
      simp only
      refine ih _ _ _ _ _ hsplit' (winv_step hw hk hsplit hI hI.p64 (runExpire_ok_lastFailed hok _ _ _ _ _)
        (runExpire_sorted mask st _ _ _ _ hI.so)
        (fun b hb => runExpire_get_none_mono mask st _ _ _ _ hI.so hb) ?_ ?_)
      · intro _
        refine ⟨fun b hb => ?_, ?_, ?_⟩
        · apply runExpire_get_of_not_target mask st _ _ _ _ hI.so
          intro hmem
          obtain ⟨n, hn, e⟩ := batch_keys hw hk hrm hmem
          exact hb n hn e
        · split
          · exact .inr rfl
          · exact .inl rfl
        · split
          · exact .inl rfl
          · exact .inr rfl
      · intro hrk _ ht _ _
        left
        have hget : st.store.get r.ik = some r.val := ht r (by simp) hrk
        rcases runExpire_cases mask st r.ik r.val (versionsOf r.key recs) r.key with
          ⟨h1, _, _⟩ | ⟨_, _, _, _, h3, _⟩ | ⟨_, h2, _⟩
        · simp [skipped, hI.lf] at h1
        · intro w hwm hwk
          rw [h3]
          have := eraseAll_get (r.ik :: versionsOf r.key recs) hI.so w.ik
          simp only [List.foldl_cons] at this
          rw [this, if_pos]
          rw [hrk]
          exact mem_batch_of_key hs hrm hrk hr0 hmax hwm hwk
        · simp [expireErr, hnotskip, hok, hget] at h2
    · -- a young revision record: not `k`'s
      rw [h0]
      simp only
      refine ih _ _ _ _ _ hsplit' (winv_step hw hk hsplit hI ?_ (runDeletes_ok_lastFailed hok _ _)
        (runDeletes_sorted mask _ st hI.so) (fun b hb => runDeletes_get_none_mono mask _ st hI.so hb) ?_ ?_)
      · rcases workerStep_rev_cases c p r with h | h <;> rw [h]
        · exact hI.p64
        · exact (hk r hrm).2
      · intro _
        exact ⟨runDeletes_same_off_key mask _ st hI.so (workerStep_targets_key c p r (hk r hrm).2 hI.p64 hrik),
          .inr rfl, .inl rfl⟩
      · intro hrk _ _ _ _
        have := (hidx r hrm hrk hr0).2; omega
    · -- a version of the gone key: no call
      rw [h0]
      simp only
      refine ih _ _ _ _ _ hsplit' (winv_step (st' := st) hw hk hsplit hI hI.p64 rfl hI.so (fun _ h => h) ?_ ?_)
      · intro _; exact ⟨fun _ _ => rfl, .inl rfl, .inl rfl⟩
      · intro hrk _ _ _ hgn
        exact absurd (hg.symm.trans hrk) hgn
    · -- a version deleted on its own
      rw [h0]
      simp only
      have hst : (runDelete mask st (.del r.ik r.key)).store = st.store.erase r.ik := by
        simp [runDelete, hnotskip, hok]
      refine ih _ _ _ _ _ hsplit' (winv_step hw hk hsplit hI hI.p64 (runDelete_ok_lastFailed hok _ _)
        (hst ▸ Store.sorted_erase hI.so _) (hmono_del _) ?_ ?_)
      · intro _
        refine ⟨fun b hb => ?_, .inl rfl, .inl rfl⟩
        rw [hst, Store.get_erase hI.so, if_neg (fun e => hb r.rev (hk r hrm).2 (e.trans hrik))]
      · intro _ _ ht _ _
        exact .inr ⟨(hdel_self _ hst ht).1, (hdel_self _ hst ht).2, rfl, rfl⟩

end whole

/-! ### all or nothing, under every failure mask -/

section atomic
variable {recs : List Rec} {mask : Nat → DelOutcome} {c : WCfg}

/-- **All or nothing, for the whole pass.** The Event `k` has the EXPIRED revision record `i` in the snapshot. Whatever
the engine answers to the calls of the pass (and wherever the pass is cut short: a crash is the mask that fails every
call from some point on): from any point of the loop at which `k` is untouched-or-gone on, at the end either no
record of `k` is left, or its revision record is still what it was — nothing of `k` is ever removed WITHOUT its
revision record: the only call that names the revision record of an expired Event is the batch, and the batch names
every version the snapshot shows. -/
theorem pass_all_or_nothing (hs : SortedRecs recs) (hw : WellKeyed recs)
    (hk : ∀ r ∈ recs, Alphabet r.key ∧ r.rev < 2 ^ 64)
    (hon : c.supportTTL = false) (hT : c.timeout ≠ 0)
    {k : Bytes} (hev : isEventKey c k = true) {i : Rec} (hi : i ∈ recs) (hik : i.key = k) (hi0 : i.rev = 0)
    (h8 : 8 ≤ i.val.length) (hexp : fromBE (i.val.take 8) ≤ c.timeout)
    (hmax : ∀ w ∈ recs, w.key = k → w.rev < 2 ^ 64 - 1) (rs : List Rec) :
    ∀ (done : List Rec) (p : Prev) (live gone : Bytes) (st : CompState), recs = done ++ rs →
      Store.Sorted st.store → p.rev < 2 ^ 64 →
      ((∀ w ∈ recs, w.key = k → st.store.get w.ik = none) ∨ st.store.get i.ik = some i.val) →
      ((∀ w ∈ recs, w.key = k → (passLoop c mask recs p live gone st rs).2.store.get w.ik = none) ∨
        (passLoop c mask recs p live gone st rs).2.store.get i.ik = some i.val) := by
  have hiik : i.ik = encode k 0 := by rw [hw i hi, hik, hi0]
  induction rs with
  | nil =>
    intro done p live gone st _ _ _ h
    simpa only [passLoop] using h
  | cons r rs ih =>
    intro done p live gone st hsplit hso hp64 halt
    have hrm : r ∈ recs := by rw [hsplit]; simp
    have hsplit' : recs = (done ++ [r]) ++ rs := by rw [hsplit]; simp
    have hrik : r.ik = encode r.key r.rev := hw r hrm
    have hoff : ¬ (c.supportTTL || c.timeout == 0) = true := by simp [hon, hT]
    -- a step whose new state keeps what is gone gone, and the revision record of `k` when it names no key
    -- `encode k 0`
    have step : ∀ (st' : CompState), Store.Sorted st'.store →
        (∀ b, st.store.get b = none → st'.store.get b = none) →
        (st.store.get i.ik = some i.val →
          (∀ w ∈ recs, w.key = k → st'.store.get w.ik = none) ∨ st'.store.get i.ik = some i.val) →
        ((∀ w ∈ recs, w.key = k → st'.store.get w.ik = none) ∨ st'.store.get i.ik = some i.val) := by
      intro st' _ hmono hkeep
      rcases halt with h | h
      · exact .inl (fun w hwm hwk => hmono _ (h w hwm hwk))
      · exact hkeep h
    -- the single-record deletes of the ordinary rules never name the revision record of `k`… unless `r` is it
    have hord : r.ik ≠ i.ik → ∀ a ∈ (workerStep c p r).1, actTarget a ≠ some i.ik := by
      intro hne a ha htgt
      rcases workerStep_mem c p r ha with hn | ⟨rfl, hkey, hpos⟩ | rfl | rfl
      · rw [emitPrev_target hn] at htgt; cases htgt
      · simp only [actTarget, Option.some.injEq] at htgt
        rw [hiik] at htgt
        have := (encode_inj hp64 (by decide) htgt).2
        omega
      · simp only [actTarget, Option.some.injEq] at htgt; exact hne htgt
      · simp only [actTarget, Option.some.injEq] at htgt; exact hne htgt
    have hri : r.key = k → r.rev = 0 → r = i := fun h1 h2 =>
      recs_unique hs hrm hi (h1.trans hik.symm) (by omega)
    have hne_of : (r.key ≠ k ∨ r.rev ≠ 0) → r.ik ≠ i.ik := by
      intro h e
      rw [hrik, hiik] at e
      obtain ⟨e1, e2⟩ := encode_inj (hk r hrm).2 (by decide) e
      rcases h with h | h
      · exact h e1
      · exact h e2
    rw [passLoop_cons]
    rcases expiry_cases c live gone r with h0 | ⟨_, _, hevr, ⟨h0, hr0, hlen⟩ | ⟨h0, hr0, hlen, hle⟩ |
        ⟨h0, hr0, hlen, hgt⟩ | ⟨h0, hrne, hg⟩ | ⟨h0, hrne, hle, hnl, hng⟩⟩
    · -- the ordinary rules
      rw [h0]
      simp only
      have hne : r.ik ≠ i.ik := by
        apply hne_of
        by_cases hrk : r.key = k
        · right; intro hr0
          exact expiry_idx_ne_no hon hT (hrk ▸ hev) hr0 live gone h0
        · exact .inl hrk
      refine ih _ _ _ _ _ hsplit' (runDeletes_sorted mask _ st hso) ?_
        (step _ (runDeletes_sorted mask _ st hso) (fun b hb => runDeletes_get_none_mono mask _ st hso hb) ?_)
      · rcases workerStep_rev_cases c p r with h | h <;> rw [h]
        · exact hp64
        · exact (hk r hrm).2
      · intro hget
        right
        rw [runDeletes_get_of_not_target mask _ st hso (hord hne)]; exact hget
    · -- panic: no call
      rw [h0]
      simp only
      exact ih _ _ _ _ _ hsplit' hso hp64 halt
    · -- the batch at an expired revision record
      rw [h0]
      simp only
      refine ih _ _ _ _ _ hsplit' (runExpire_sorted mask st _ _ _ _ hso) hp64
        (step _ (runExpire_sorted mask st _ _ _ _ hso)
          (fun b hb => runExpire_get_none_mono mask st _ _ _ _ hso hb) ?_)
      intro hget
      by_cases hrk : r.key = k
      · -- the batch of `k` itself: all of it, or nothing
        have hri' : r = i := hri hrk hr0
        rcases runExpire_store mask st r.ik r.val (versionsOf r.key recs) r.key with e | e
        · right; rw [e]; exact hget
        · left
          intro w hwm hwk
          rw [e, eraseAll_get _ hso, if_pos]
          rw [hrk, hri']
          exact mem_batch_of_key hs hi hik hi0 hmax hwm hwk
      · -- the batch of another Event names none of `k`'s records
        right
        rw [runExpire_get_of_not_target mask st _ _ _ _ hso]
        · exact hget
        · intro hmem
          obtain ⟨n, hn, e⟩ := batch_keys hw hk hrm hmem
          rw [hiik] at e
          exact hrk ((encode_inj (by decide) hn e).1).symm
    · -- a young revision record: not `k`'s; the ordinary rules
      rw [h0]
      simp only
      have hne : r.ik ≠ i.ik := by
        apply hne_of
        left; intro hrk
        have := hri hrk hr0
        subst this; omega
      refine ih _ _ _ _ _ hsplit' (runDeletes_sorted mask _ st hso) ?_
        (step _ (runDeletes_sorted mask _ st hso) (fun b hb => runDeletes_get_none_mono mask _ st hso hb) ?_)
      · rcases workerStep_rev_cases c p r with h | h <;> rw [h]
        · exact hp64
        · exact (hk r hrm).2
      · intro hget
        right
        rw [runDeletes_get_of_not_target mask _ st hso (hord hne)]; exact hget
    · -- a version of the gone key: no call
      rw [h0]
      simp only
      exact ih _ _ _ _ _ hsplit' hso hp64 halt
    · -- a version deleted on its own
      rw [h0]
      simp only
      have hne : r.ik ≠ i.ik := hne_of (.inr hrne)
      have hso' : Store.Sorted (runDelete mask st (.del r.ik r.key)).store :=
        runDeletes_sorted mask [.del r.ik r.key] st hso
      refine ih _ _ _ _ _ hsplit' hso' hp64
        (step _ hso' (fun b hb => runDeletes_get_none_mono mask [.del r.ik r.key] st hso hb) ?_)
      intro hget
      right
      have := runDeletes_get_of_not_target mask [.del r.ik r.key] st hso (b := i.ik)
        (fun a ha => by
          simp only [List.mem_singleton] at ha; subst ha
          simp only [actTarget, ne_eq, Option.some.injEq]; exact hne)
      rw [show runDelete mask st (.del r.ik r.key) = runDeletes mask st [.del r.ik r.key] from rfl, this]
      exact hget

end atomic

end KB.ExpirePass
