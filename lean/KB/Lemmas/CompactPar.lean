/- Helper lemmas for C07Par: several compaction workers, each over its own key range, racing each other
   and the writers. Everything here is per-key locality: the store restricted to a set of raw keys
   (`proj`), and how the steps of the race commute with that restriction. -/
import KB.Props.C07Race
namespace KB.Par
open KB KB.Compact KB.Race KB.C07 Generated

/-! ### the store restricted to a set of raw keys -/

/-- does the internal key `ik` belong to a raw key in `K`? (anything that does not decode belongs to no
raw key) -/
def inDom (K : Bytes → Bool) (ik : Bytes) : Bool :=
  match decode ik with
  | .ok k _ => K k
  | _ => false

/-- the records of the raw keys in `K` -/
def proj (K : Bytes → Bool) (s : Store) : Store := s.filter (fun kv => inDom K kv.1)

theorem inDom_encode (K : Bytes → Bool) (k : Bytes) {n : Nat} (hn : n < 2 ^ 64) :
    inDom K (encode k n) = K k := by
  simp only [inDom, decode_encode k n hn]

theorem inDom_idxKey (K : Bytes → Bool) (k : Bytes) : inDom K (idxKey k) = K k :=
  inDom_encode K k (by decide)

theorem proj_sorted (K : Bytes → Bool) {s : Store} (hs : s.Sorted) : (proj K s).Sorted := by
  rw [KB.Store.sorted_iff_pairwise] at hs ⊢
  exact List.Pairwise.sublist List.filter_sublist hs

theorem proj_goodKeys (K : Bytes → Bool) {s : Store} (hg : GoodKeys s) : GoodKeys (proj K s) :=
  fun kv hkv => hg kv (List.mem_filter.1 hkv).1

theorem get_proj (K : Bytes → Bool) {s : Store} (hs : s.Sorted) (x : Bytes) :
    (proj K s).get x = if inDom K x = true then s.get x else none := by
  apply Option.ext
  intro v
  constructor
  · intro h
    have hm := List.mem_filter.1 (mem_of_get h)
    simp only at hm
    rw [if_pos hm.2]
    exact get_of_mem hs hm.1
  · intro h
    by_cases hx : inDom K x = true
    · rw [if_pos hx] at h
      exact get_of_mem (proj_sorted K hs) (List.mem_filter.2 ⟨mem_of_get h, hx⟩)
    · rw [if_neg hx] at h; cases h

theorem get_proj_in (K : Bytes → Bool) {s : Store} (hs : s.Sorted) {x : Bytes} (hx : inDom K x = true) :
    (proj K s).get x = s.get x := by rw [get_proj K hs, if_pos hx]

theorem proj_erase (K : Bytes → Bool) {s : Store} (hs : s.Sorted) (ik : Bytes) :
    proj K (s.erase ik) = (proj K s).erase ik := by
  have h1 := KB.Store.erase_sorted s hs ik
  apply store_ext (proj_sorted K h1) (KB.Store.erase_sorted _ (proj_sorted K hs) ik)
  intro x
  rw [get_proj K h1, KB.Store.get_erase _ (proj_sorted K hs), KB.Store.get_erase _ hs, get_proj K hs]
  by_cases hx : x = ik <;> by_cases hd : inDom K x = true <;> simp [hx, hd]

theorem proj_erase_out (K : Bytes → Bool) {s : Store} (hs : s.Sorted) {ik : Bytes}
    (hik : inDom K ik = false) : proj K (s.erase ik) = proj K s := by
  have h1 := KB.Store.erase_sorted s hs ik
  apply store_ext (proj_sorted K h1) (proj_sorted K hs)
  intro x
  rw [get_proj K h1, get_proj K hs, KB.Store.get_erase _ hs]
  by_cases hx : x = ik
  · subst hx; simp [hik]
  · simp [hx]

theorem proj_put_put_in (K : Bytes → Bool) {s : Store} (hs : s.Sorted) {a b : Bytes} (va vb : Bytes)
    (ha : inDom K a = true) (hb : inDom K b = true) :
    proj K ((s.put a va).put b vb) = ((proj K s).put a va).put b vb := by
  have h1 := KB.Store.put_sorted s hs a va
  have h2 := KB.Store.put_sorted _ h1 b vb
  have p0 := proj_sorted K hs
  have p1 := KB.Store.put_sorted _ p0 a va
  apply store_ext (proj_sorted K h2) (KB.Store.put_sorted _ p1 b vb)
  intro x
  rw [get_proj K h2, KB.Store.get_put _ h1, KB.Store.get_put _ hs, KB.Store.get_put _ p1,
    KB.Store.get_put _ p0, get_proj K hs]
  by_cases hxb : x = b
  · subst hxb; simp [hb]
  · by_cases hxa : x = a
    · subst hxa; simp [hxb, ha]
    · simp [hxa, hxb]

theorem proj_put_put_out (K : Bytes → Bool) {s : Store} (hs : s.Sorted) {a b : Bytes} (va vb : Bytes)
    (ha : inDom K a = false) (hb : inDom K b = false) :
    proj K ((s.put a va).put b vb) = proj K s := by
  have h1 := KB.Store.put_sorted s hs a va
  have h2 := KB.Store.put_sorted _ h1 b vb
  apply store_ext (proj_sorted K h2) (proj_sorted K hs)
  intro x
  rw [get_proj K h2, get_proj K hs, KB.Store.get_put _ h1, KB.Store.get_put _ hs]
  by_cases hxb : x = b
  · subst hxb; simp [hb]
  · by_cases hxa : x = a
    · subst hxa; simp [ha]
    · simp [hxa, hxb]

/-! ### reads and the logical index of a key depend only on that key's records -/

/-- a point read depends only on which versions of the key read the store has -/
theorem readAt_congr_key {l1 l2 : List Rec} (h1 : SortedRecs l1) (h2 : SortedRecs l2) (R : Nat) (k : Bytes)
    (h : ∀ x, x.key = k → 0 < x.rev → (x ∈ l1 ↔ x ∈ l2)) : readAt R l1 k = readAt R l2 k := by
  unfold readAt
  rw [visible_eq, visible_eq]
  have : l1.filter (visPred R k) = l2.filter (visPred R k) := by
    apply sortedRecs_ext (List.Pairwise.sublist List.filter_sublist h1)
      (List.Pairwise.sublist List.filter_sublist h2)
    intro x
    simp only [List.mem_filter]
    constructor
    · rintro ⟨hx, hv⟩; exact ⟨(h x (visPred_iff.1 hv).1 (visPred_iff.1 hv).2.1).1 hx, hv⟩
    · rintro ⟨hx, hv⟩; exact ⟨(h x (visPred_iff.1 hv).1 (visPred_iff.1 hv).2.1).2 hx, hv⟩
  rw [this]

theorem mem_storeRecs_proj (K : Bytes → Bool) {s : Store} (hs : s.Sorted) (hg : GoodKeys s) {x : Rec}
    (hx : K x.key = true) : x ∈ storeRecs (proj K s) ↔ x ∈ storeRecs s := by
  rw [mem_storeRecs (proj_sorted K hs) (proj_goodKeys K hg), mem_storeRecs hs hg]
  constructor
  · rintro ⟨h1, h2, h3⟩
    refine ⟨h1, h2, ?_⟩
    rwa [get_proj_in K hs (by rw [h2, inDom_encode K _ h1]; exact hx)] at h3
  · rintro ⟨h1, h2, h3⟩
    refine ⟨h1, h2, ?_⟩
    rwa [get_proj_in K hs (by rw [h2, inDom_encode K _ h1]; exact hx)]

theorem readS_proj (K : Bytes → Bool) {s : Store} (hs : s.Sorted) (hg : GoodKeys s) (R : Nat) {k : Bytes}
    (hk : K k = true) : readS R (proj K s) k = readS R s k := by
  unfold readS
  apply readAt_congr_key (storeRecs_sorted (proj_sorted K hs) (proj_goodKeys K hg)) (storeRecs_sorted hs hg)
  intro x hx _
  exact mem_storeRecs_proj K hs hg (hx ▸ hk)

theorem logicalIdx_proj (K : Bytes → Bool) {s : Store} (hs : s.Sorted) {k : Bytes} (hk : K k = true) :
    logicalIdx (proj K s) k = logicalIdx s k :=
  logicalIdx_congr (get_proj_in K hs (by rw [inDom_idxKey]; exact hk))

/-- two stores with the same records of the raw keys in `K` give the same reads and logical indexes
of those keys -/
theorem reads_of_proj_eq (K : Bytes → Bool) {s1 s2 : Store} (h1 : s1.Sorted) (g1 : GoodKeys s1)
    (h2 : s2.Sorted) (g2 : GoodKeys s2) (h : proj K s1 = proj K s2) {k : Bytes} (hk : K k = true) :
    (∀ R, readS R s1 k = readS R s2 k) ∧ logicalIdx s1 k = logicalIdx s2 k := by
  constructor
  · intro R; rw [← readS_proj K h1 g1 R hk, h, readS_proj K h2 g2 R hk]
  · rw [← logicalIdx_proj K h1 hk, h, logicalIdx_proj K h2 hk]

/-! ### the internal keys a worker deletes belong to raw keys of its own records -/

theorem workerLoop_target_key {R : Nat} (rs : List Rec) (p : Prev)
    (hw : ∀ r ∈ rs, r.ik = encode r.key r.rev) (hk : ∀ r ∈ rs, r.rev < 2 ^ 64) (hp64 : p.rev < 2 ^ 64)
    {a : Act} (ha : a ∈ workerLoop (ccfg R) p rs) {ik : Bytes} (ht : actTarget a = some ik) :
    ∃ r ∈ rs, ∃ n, n < 2 ^ 64 ∧ ik = encode r.key n := by
  induction rs generalizing p with
  | nil =>
    simp only [workerLoop] at ha
    rw [emitPrev_target ha] at ht; cases ht
  | cons r rs ih =>
    simp only [workerLoop, List.mem_append] at ha
    have hr : r ∈ r :: rs := List.mem_cons_self ..
    rcases ha with ha | ha
    · by_cases hR : R < r.rev
      · rw [workerStep_skip p hR] at ha; simp at ha
      · rw [workerStep_fst p hR] at ha
        simp only [List.mem_append] at ha
        rcases ha with ha | ha | ha
        · obtain ⟨e, hkey, _⟩ := cA1_target ha ht
          exact ⟨r, hr, p.rev, hp64, by rw [e, hkey]⟩
        · obtain ⟨e, _⟩ := cA2_target ha ht
          exact ⟨r, hr, r.rev, hk r hr, by rw [e, hw r hr]⟩
        · obtain ⟨e, _⟩ := cA3_target ha ht
          exact ⟨r, hr, r.rev, hk r hr, by rw [e, hw r hr]⟩
    · obtain ⟨x, hx, n, hn, e⟩ := ih _ (fun x hx => hw x (List.mem_cons_of_mem _ hx))
        (fun x hx => hk x (List.mem_cons_of_mem _ hx)) (workerStep_rev_lt hp64 (hk r hr)) ha
      exact ⟨x, List.mem_cons_of_mem _ hx, n, hn, e⟩

/-- every delete target of the actions belongs to a raw key in `K` -/
def TargetsIn (K : Bytes → Bool) (acts : List Act) : Prop :=
  ∀ a ∈ acts, ∀ ik, actTarget a = some ik → inDom K ik = true

theorem workerActs_targetsIn {R : Nat} {recs : List Rec} (hw : WellKeyed recs)
    (hk : ∀ r ∈ recs, Alphabet r.key ∧ r.rev < 2 ^ 64) (K : Bytes → Bool) (hK : ∀ r ∈ recs, K r.key = true) :
    TargetsIn K (workerActs (ccfg R) recs) := by
  intro a ha ik ht
  obtain ⟨r, hr, n, hn, e⟩ := workerLoop_target_key recs {} hw (fun r hr => (hk r hr).2) (by decide) ha ht
  rw [e, inDom_encode K _ hn]; exact hK r hr

theorem TargetsIn.tail {K : Bytes → Bool} {a : Act} {rest : List Act} (h : TargetsIn K (a :: rest)) :
    TargetsIn K rest := fun b hb => h b (List.mem_cons_of_mem _ hb)

theorem TargetsIn.of_append {K : Bytes → Bool} {l1 l2 : List Act} (h : TargetsIn K (l1 ++ l2)) :
    TargetsIn K l2 := fun b hb => h b (List.mem_append_right _ hb)

/-- an internal key of a raw key in `K` belongs to no raw key outside `K` -/
theorem inDom_not {K : Bytes → Bool} {ik : Bytes} (h : inDom K ik = true) :
    inDom (fun k => !K k) ik = false := by
  unfold inDom at h ⊢
  split at h
  · simp [h]
  · cases h

theorem inDom_disjoint {K K' : Bytes → Bool} (hd : ∀ k, K k = true → K' k = true → False) {ik : Bytes}
    (h : inDom K ik = true) : inDom K' ik = false := by
  unfold inDom at h ⊢
  split at h
  · rename_i k _ hdec
    cases hk' : K' k with
    | false => rfl
    | true => exact (hd k h hk').elim
  · cases h

/-! ### writer batches are local to one raw key -/

/-- the store after a batch commit (a refused commit changes nothing) -/
def commitOr (q : Quirks) (s : Store) (ops : List BOp) : Store :=
  match commit q s ops with
  | .ok s' => s'
  | .error _ => s

/-- `ops` is a writer batch on raw key `k`: a conditional write of `k`'s index record, then the put of a
new version `> R` of `k` (`KB.Race.RaceBatch` with the key exposed) -/
def BatchOn (R : Nat) (k : Bytes) (ops : List BOp) : Prop :=
  ∃ rev v new, Alphabet k ∧ R < rev ∧ rev < 2 ^ 64 ∧
    (ops = [.pine (idxKey k) new, .put (encode k rev) v] ∨
     ∃ old, ops = [.cas (idxKey k) new old, .put (encode k rev) v])

theorem BatchOn.raceBatch {R : Nat} {k : Bytes} {ops : List BOp} (h : BatchOn R k ops) : RaceBatch R ops := by
  obtain ⟨rev, v, new, h1, h2, h3, h4⟩ := h
  exact ⟨k, rev, v, new, h1, h2, h3, h4⟩

theorem raceBatch_batchOn {R : Nat} {ops : List BOp} (h : RaceBatch R ops) : ∃ k, BatchOn R k ops := by
  obtain ⟨k, rev, v, new, h1, h2, h3, h4⟩ := h
  exact ⟨k, rev, v, new, h1, h2, h3, h4⟩

/-- the raw key a batch is about: the raw key of its first operation's engine key -/
def batchRaw : List BOp → Option Bytes
  | .pine ik _ :: _ => match decode ik with | .ok k _ => some k | _ => none
  | .cas ik _ _ :: _ => match decode ik with | .ok k _ => some k | _ => none
  | _ => none

theorem batchRaw_batchOn {R : Nat} {k : Bytes} {ops : List BOp} (h : BatchOn R k ops) :
    batchRaw ops = some k := by
  obtain ⟨rev, v, new, _, _, _, rfl | ⟨old, rfl⟩⟩ := h <;>
    simp only [batchRaw, idxKey, decode_encode k 0 (by decide)]

/-- what a writer batch on `k` does depends only on `k`'s index record -/
theorem commitOr_shape {q : Quirks} {k : Bytes} {rev : Nat} {v new : Bytes} {ops : List BOp}
    (hops : ops = [.pine (idxKey k) new, .put (encode k rev) v] ∨
      ∃ old, ops = [.cas (idxKey k) new old, .put (encode k rev) v]) :
    ∃ c : Option Bytes → Bool, ∀ s : Store,
      commitOr q s ops = if c (s.get (idxKey k)) = true then (s.put (idxKey k) new).put (encode k rev) v else s := by
  rcases hops with rfl | ⟨old, rfl⟩
  · refine ⟨fun o => o.isNone, fun s => ?_⟩
    unfold commitOr
    rw [commit_pine_put_eq]
    cases s.get (idxKey k) <;> simp
  · refine ⟨fun o => decide (o = some old), fun s => ?_⟩
    unfold commitOr
    rw [commit_cas_put_eq]
    cases hg : s.get (idxKey k) with
    | none => by_cases hq : q.casMissingNotFound = true <;> simp [hq]
    | some cur => by_cases hc : cur = old <;> simp [hc]

theorem commitOr_batchOn {q : Quirks} {R : Nat} {k : Bytes} {ops : List BOp} (h : BatchOn R k ops) :
    ∃ rev v new, R < rev ∧ rev < 2 ^ 64 ∧ ∃ c : Option Bytes → Bool, ∀ s : Store,
      commitOr q s ops = if c (s.get (idxKey k)) = true then (s.put (idxKey k) new).put (encode k rev) v else s := by
  obtain ⟨rev, v, new, _, h2, h3, hops⟩ := h
  exact ⟨rev, v, new, h2, h3, commitOr_shape hops⟩

theorem commitOr_proj_in {q : Quirks} {R : Nat} {k : Bytes} {ops : List BOp} (h : BatchOn R k ops)
    (K : Bytes → Bool) (hK : K k = true) {s : Store} (hs : s.Sorted) :
    commitOr q (proj K s) ops = proj K (commitOr q s ops) := by
  obtain ⟨rev, v, new, _, h64, c, hc⟩ := commitOr_batchOn (q := q) h
  rw [hc, hc, get_proj_in K hs (by rw [inDom_idxKey]; exact hK)]
  split
  · rw [proj_put_put_in K hs _ _ (by rw [inDom_idxKey]; exact hK) (by rw [inDom_encode K _ h64]; exact hK)]
  · rfl

theorem commitOr_proj_out {q : Quirks} {R : Nat} {k : Bytes} {ops : List BOp} (h : BatchOn R k ops)
    (K : Bytes → Bool) (hK : K k = false) {s : Store} (hs : s.Sorted) :
    proj K (commitOr q s ops) = proj K s := by
  obtain ⟨rev, v, new, _, h64, c, hc⟩ := commitOr_batchOn (q := q) h
  rw [hc]
  split
  · rw [proj_put_put_out K hs _ _ (by rw [inDom_idxKey]; exact hK) (by rw [inDom_encode K _ h64]; exact hK)]
  · rfl

theorem commitOr_sorted {q : Quirks} {R : Nat} {ops : List BOp} (h : RaceBatch R ops) {s : Store}
    (hs : s.Sorted) : (commitOr q s ops).Sorted := by
  unfold commitOr
  cases hc : commit q s ops with
  | error e => exact hs
  | ok s' =>
    obtain ⟨k, rev, v, new, _, _, _, rfl⟩ := commit_raceBatch h hc
    exact KB.Store.put_sorted _ (KB.Store.put_sorted s hs _ _) _ _

theorem commitOr_goodKeys {q : Quirks} {R : Nat} {ops : List BOp} (h : RaceBatch R ops) {s : Store}
    (hg : GoodKeys s) : GoodKeys (commitOr q s ops) := by
  unfold commitOr
  cases hc : commit q s ops with
  | error e => exact hg
  | ok s' =>
    obtain ⟨k, rev, v, new, ha, _, h64, rfl⟩ := commit_raceBatch h hc
    intro kv hkv
    rcases KB.Store.mem_put hkv with h | h
    · exact ⟨k, rev, h, ha, h64⟩
    · rcases KB.Store.mem_put h with h | h
      · exact ⟨k, 0, h, ha, by decide⟩
      · exact hg kv h

/-! ### writer discipline survives the restriction -/

open KB.C07Race in
theorem revsOf_proj (K : Bytes → Bool) (s : Store) (k : Bytes) {n : Nat} (h : n ∈ revsOf (proj K s) k) :
    n ∈ revsOf s k := by
  unfold revsOf at h ⊢
  exact (List.Sublist.filterMap _ List.filter_sublist).subset h

open KB.C07Race in
theorem fresh_proj (K : Bytes → Bool) {R : Nat} {s : Store} {k : Bytes} {rev : Nat} (h : Fresh R s k rev) :
    Fresh R (proj K s) k rev :=
  ⟨h.1, h.2.1, h.2.2.1, h.2.2.2.1, fun n hn => h.2.2.2.2 n (revsOf_proj K s k hn)⟩

open KB.C07Race in
theorem writerBatch_proj (K : Bytes → Bool) {R : Nat} {s : Store} {ops : List BOp} (h : WriterBatch R s ops) :
    WriterBatch R (proj K s) ops := by
  cases h with
  | create k v rev h => exact .create k v rev (fresh_proj K h)
  | recreate k v old rev h => exact .recreate k v old rev (fresh_proj K h)
  | update k v rev exp h => exact .update k v rev exp (fresh_proj K h)
  | delete k rev modRev h => exact .delete k rev modRev (fresh_proj K h)
  | retry k v flag rev old h => exact .retry k v flag rev old (fresh_proj K h)

open KB.C07Race in
/-- a writer's batch is a batch on one non-empty raw key -/
theorem writerBatch_batchOn {R : Nat} {s : Store} {ops : List BOp} (h : WriterBatch R s ops) :
    ∃ k, k ≠ [] ∧ BatchOn R k ops := by
  cases h with
  | create k v rev h => exact ⟨k, h.2.1, rev, v, _, h.1, h.2.2.1, h.2.2.2.1, .inl rfl⟩
  | recreate k v old rev h => exact ⟨k, h.2.1, rev, v, _, h.1, h.2.2.1, h.2.2.2.1, .inr ⟨_, rfl⟩⟩
  | update k v rev exp h => exact ⟨k, h.2.1, rev, v, _, h.1, h.2.2.1, h.2.2.2.1, .inr ⟨_, rfl⟩⟩
  | delete k rev modRev h => exact ⟨k, h.2.1, rev, _, _, h.1, h.2.2.1, h.2.2.2.1, .inr ⟨_, rfl⟩⟩
  | retry k v flag rev old h => exact ⟨k, h.2.1, rev, v, _, h.1, h.2.2.1, h.2.2.2.1, .inr ⟨_, rfl⟩⟩

/-! ### one step of the parallel race, seen by the single-worker race of one worker -/

open KB.C07Race in
/-- the single-worker race state `u` is the view worker (`lf`, `calls`, `pending`) has of the records of
its own raw keys `K` in the shared store -/
def Sim (K : Bytes → Bool) (store : Store) (lf : Bytes) (calls : Nat) (pending : List Act) (u : RState) : Prop :=
  u.comp.store = proj K store ∧ u.comp.lastFailed = lf ∧ u.comp.calls = calls ∧ u.pending = pending

open KB.C07Race in
/-- the worker's own call: the same call in its single-worker race -/
theorem sim_compDel {K : Bytes → Bool} {q : Quirks} {mask : Nat → DelOutcome} {st : CompState}
    {a : Act} {rest : List Act} {u : RState} (hsorted : st.store.Sorted)
    (hsim : Sim K st.store st.lastFailed st.calls (a :: rest) u)
    (hin : ∀ ik, actTarget a = some ik → inDom K ik = true) :
    Sim K (runDelete mask st a).store (runDelete mask st a).lastFailed (runDelete mask st a).calls rest
      (step q mask u .compDel) := by
  obtain ⟨hst, hlf, hc, hp⟩ := hsim
  rw [step_compDel_cons hp]
  obtain ⟨e1, e2, e3⟩ := runDelete_sim mask u.comp st a hlf hc
  refine ⟨?_, e1, e2, rfl⟩
  show (runDelete mask u.comp a).store = proj K (runDelete mask st a).store
  rcases e3 with ⟨h1, h2⟩ | ⟨ik, raw, _, h1, h2⟩ | ⟨ik, v, raw, ea, _, _⟩
  · rw [h1, h2, hst]
  · rw [h1, h2, hst]; exact (proj_erase K hsorted ik).symm
  · subst ea
    have hg : u.comp.store.get ik = st.store.get ik := by
      rw [hst]; exact get_proj_in K hsorted (hin ik rfl)
    rcases runDelete_delcur_store mask u.comp st ik v raw hlf hc hg with ⟨h1, h2⟩ | ⟨h1, h2⟩
    · rw [h1, h2, hst]
    · rw [h1, h2, hst]; exact (proj_erase K hsorted ik).symm

/-- another worker's call leaves the records of the raw keys in `K'` alone -/
theorem compDel_out {K' : Bytes → Bool} (mask : Nat → DelOutcome) {st : CompState} (hsorted : st.store.Sorted)
    {a : Act} (hout : ∀ ik, actTarget a = some ik → inDom K' ik = false) :
    proj K' (runDelete mask st a).store = proj K' st.store := by
  rcases runDelete_store mask st a with e | ⟨ik, ht, e⟩
  · rw [e]
  · rw [e]; exact proj_erase_out K' hsorted (hout ik ht)

theorem runDelete_sorted (mask : Nat → DelOutcome) {st : CompState} (hsorted : st.store.Sorted) (a : Act) :
    (runDelete mask st a).store.Sorted := by
  rcases runDelete_store mask st a with e | ⟨ik, _, e⟩
  · rw [e]; exact hsorted
  · rw [e]; exact KB.Store.erase_sorted _ hsorted ik

theorem runDelete_goodKeys (mask : Nat → DelOutcome) {st : CompState} (hg : GoodKeys st.store) (a : Act) :
    GoodKeys (runDelete mask st a).store := by
  rcases runDelete_store mask st a with e | ⟨ik, _, e⟩
  · rw [e]; exact hg
  · rw [e]; exact fun kv hkv => hg kv (KB.Store.mem_erase hkv)

open KB.C07Race in
theorem step_write_store (q : Quirks) (mask : Nat → DelOutcome) (u : RState) (ops : List BOp) :
    step q mask u (.write ops) = { u with comp := { u.comp with store := commitOr q u.comp.store ops } } := by
  unfold commitOr
  cases hc : commit q u.comp.store ops with
  | ok st' => rw [step_write_ok hc]
  | error e => rw [step_write_error hc]

open KB.C07Race in
/-- a writer batch on one of the worker's raw keys: the same batch in its single-worker race -/
theorem sim_write_in {K : Bytes → Bool} {q : Quirks} {mask : Nat → DelOutcome} {R : Nat} {store : Store}
    {lf : Bytes} {calls : Nat} {pending : List Act} {u : RState} {k : Bytes} {ops : List BOp}
    (hsorted : store.Sorted) (hsim : Sim K store lf calls pending u) (hb : BatchOn R k ops) (hK : K k = true) :
    Sim K (commitOr q store ops) lf calls pending (step q mask u (.write ops)) := by
  obtain ⟨hst, hlf, hc, hp⟩ := hsim
  rw [step_write_store]
  refine ⟨?_, hlf, hc, hp⟩
  show commitOr q u.comp.store ops = _
  rw [hst]; exact commitOr_proj_in hb K hK hsorted

/-! ### putting back the removed versions of all workers' snapshots, seen per key range -/

/-- `snapI` is the part of `all` with raw keys in `K`: restoring `all` in the whole store and restoring
`snapI` in the `K`-part of the store give the same records of the raw keys in `K` -/
theorem restored_local {all snapI : List Rec} (K : Bytes → Bool)
    (hsub : ∀ r ∈ snapI, r ∈ all) (hback : ∀ r ∈ all, K r.key = true → r ∈ snapI)
    (hw : WellKeyed all) (hk : ∀ r ∈ all, Alphabet r.key ∧ r.rev < 2 ^ 64)
    (huniq : ∀ a ∈ all, ∀ b ∈ all, a.ik = b.ik → a.val = b.val)
    {s : Store} (hs : s.Sorted) (hg : GoodKeys s) {x : Rec} (hx : K x.key = true) :
    x ∈ storeRecs (restored snapI (proj K s)) ↔ x ∈ storeRecs (restored all s) := by
  have hwI : WellKeyed snapI := fun r hr => hw r (hsub r hr)
  have hkI : ∀ r ∈ snapI, Alphabet r.key ∧ r.rev < 2 ^ 64 := fun r hr => hk r (hsub r hr)
  have huniqI : ∀ a ∈ snapI, ∀ b ∈ snapI, a.ik = b.ik → a.val = b.val :=
    fun a ha b hb => huniq a (hsub a ha) b (hsub b hb)
  have hps := proj_sorted K hs
  rw [mem_storeRecs (restored_sorted snapI hps) (restored_goodKeys hwI hkI (proj_goodKeys K hg)),
    mem_storeRecs (restored_sorted all hs) (restored_goodKeys hw hk hg),
    get_restored huniqI hps, get_restored huniq hs]
  constructor
  · rintro ⟨h1, h2, h3⟩
    have hin : inDom K x.ik = true := by rw [h2, inDom_encode K _ h1]; exact hx
    rw [get_proj_in K hs hin] at h3
    refine ⟨h1, h2, ?_⟩
    rcases h3 with h | ⟨h, r, hr, h0, e1, e2⟩
    · exact .inl h
    · exact .inr ⟨h, r, hsub r hr, h0, e1, e2⟩
  · rintro ⟨h1, h2, h3⟩
    have hin : inDom K x.ik = true := by rw [h2, inDom_encode K _ h1]; exact hx
    rw [get_proj_in K hs hin]
    refine ⟨h1, h2, ?_⟩
    rcases h3 with h | ⟨h, r, hr, h0, e1, e2⟩
    · exact .inl h
    · refine .inr ⟨h, r, hback r hr ?_, h0, e1, e2⟩
      rw [hw r hr, h2] at e1
      rw [(encode_inj (hk r hr).2 h1 e1).1]; exact hx

/-- no record of `all` has raw key `k`: restoring `all` does not touch the versions of `k` -/
theorem restored_absent {all : List Rec} (hw : WellKeyed all) (hk : ∀ r ∈ all, Alphabet r.key ∧ r.rev < 2 ^ 64)
    (huniq : ∀ a ∈ all, ∀ b ∈ all, a.ik = b.ik → a.val = b.val)
    {s : Store} (hs : s.Sorted) (hg : GoodKeys s) {x : Rec} (hx : ∀ r ∈ all, r.key ≠ x.key) :
    x ∈ storeRecs (restored all s) ↔ x ∈ storeRecs s := by
  rw [mem_storeRecs (restored_sorted all hs) (restored_goodKeys hw hk hg), mem_storeRecs hs hg,
    get_restored huniq hs]
  constructor
  · rintro ⟨h1, h2, h | ⟨_, r, hr, _, e1, _⟩⟩
    · exact ⟨h1, h2, h⟩
    · rw [hw r hr, h2] at e1
      exact absurd (encode_inj (hk r hr).2 h1 e1).1 (hx r hr)
  · rintro ⟨h1, h2, h3⟩; exact ⟨h1, h2, .inl h3⟩

/-! ### a worker's snapshot of its key range of the live store -/

theorem encodeStore_storeRecs {s : Store} (hg : GoodKeys s) : encodeStore (storeRecs s) = s := by
  rw [storeRecs_eq hg]
  induction s with
  | nil => rfl
  | cons x rest ih =>
    obtain ⟨ik, v⟩ := x
    obtain ⟨k, n, e, _, hn⟩ := hg (ik, v) (List.mem_cons_self ..)
    simp only at e
    subst e
    have := ih (goodKeys_tail hg)
    simp only [encodeStore, List.map_cons, recOf_encode hn] at this ⊢
    rw [this]

theorem storeRecs_encodeStore {recs : List Rec} (hw : WellKeyed recs)
    (hk : ∀ r ∈ recs, Alphabet r.key ∧ r.rev < 2 ^ 64) : storeRecs (encodeStore recs) = recs := by
  rw [storeRecs_eq (goodKeys_init hk)]
  induction recs with
  | nil => rfl
  | cons r rs ih =>
    have ih' := ih (fun x hx => hw x (List.mem_cons_of_mem _ hx)) (fun x hx => hk x (List.mem_cons_of_mem _ hx))
    have hr := hw r (List.mem_cons_self ..)
    simp only [encodeStore, List.map_cons, recOf_encode (hk r (List.mem_cons_self ..)).2] at ih' ⊢
    rw [ih']
    congr 1
    cases r
    simp only at hr ⊢
    rw [hr]

theorem storeRecs_bounds {s : Store} (hs : s.Sorted) (hg : GoodKeys s) :
    ∀ r ∈ storeRecs s, Alphabet r.key ∧ r.rev < 2 ^ 64 :=
  fun _ hr => ⟨storeRecs_alphabet hg hr, ((mem_storeRecs hs hg).1 hr).1⟩

theorem storeRecs_proj_keys (K : Bytes → Bool) {s : Store} (hs : s.Sorted) (hg : GoodKeys s) :
    ∀ r ∈ storeRecs (proj K s), K r.key = true := by
  intro r hr
  obtain ⟨h1, h2, h3⟩ := (mem_storeRecs (proj_sorted K hs) (proj_goodKeys K hg)).1 hr
  rw [get_proj K hs] at h3
  split at h3
  · rename_i hin
    rwa [h2, inDom_encode K _ h1] at hin
  · cases h3

/-- the snapshot store restricted to a key range is the encoded store of the snapshot's records in that
range -/
theorem proj_encodeStore (K : Bytes → Bool) {recs : List Rec} (hk : ∀ r ∈ recs, r.rev < 2 ^ 64) :
    proj K (encodeStore recs) = encodeStore (recs.filter (fun r => K r.key)) := by
  induction recs with
  | nil => rfl
  | cons r rs ih =>
    have ih' := ih (fun x hx => hk x (List.mem_cons_of_mem _ hx))
    have hr := hk r (List.mem_cons_self ..)
    simp only [proj, encodeStore, List.map_cons, List.filter_cons, inDom_encode K _ hr] at ih' ⊢
    cases hK : K r.key with
    | true => simp only [if_true, List.map_cons, ih']
    | false => simpa using ih'

/-! ### what a worker that starts later needs of the live store -/

/-- the hypotheses of the single-worker theorems on a snapshot -/
def SnapOK (recs : List Rec) : Prop :=
  SortedRecs recs ∧ WellKeyed recs ∧ (∀ r ∈ recs, Alphabet r.key ∧ r.rev < 2 ^ 64) ∧
    (∀ r ∈ recs, r.key ≠ []) ∧ IdxWF recs

/-- no record of the store belongs to the empty raw key, and no index record carries the deletion marker
as its value -/
def KeysWF (s : Store) : Prop :=
  ∀ kv ∈ s, ∀ k n, kv.1 = encode k n → n < 2 ^ 64 → k ≠ [] ∧ (n = 0 → isTomb kv.2 = false)

def idxValOp : BOp → Bool
  | .pine _ v => !isTomb v
  | .cas _ v _ => !isTomb v
  | _ => true

/-- the batch writes no index value equal to the deletion marker (the backend writes `be8 rev` and
`be8 rev ++ [0]` there) -/
def IdxValOK (ops : List BOp) : Prop := ∀ op ∈ ops, idxValOp op = true

instance (ops : List BOp) : Decidable (IdxValOK ops) := by unfold IdxValOK; infer_instance

theorem keysWF_encodeStore {recs : List Rec} (h : SnapOK recs) : KeysWF (encodeStore recs) := by
  obtain ⟨_, _, hk, hne, hidx⟩ := h
  intro kv hkv k n e hn
  simp only [encodeStore, List.mem_map] at hkv
  obtain ⟨r, hr, rfl⟩ := hkv
  simp only at e ⊢
  obtain ⟨e1, e2⟩ := encode_inj (hk r hr).2 hn e
  subst e1; subst e2
  exact ⟨hne r hr, hidx r hr⟩

theorem keysWF_erase {s : Store} (h : KeysWF s) (ik : Bytes) : KeysWF (s.erase ik) :=
  fun kv hkv => h kv (KB.Store.mem_erase hkv)

theorem runDelete_keysWF (mask : Nat → DelOutcome) {st : CompState} (h : KeysWF st.store) (a : Act) :
    KeysWF (runDelete mask st a).store := by
  rcases runDelete_store mask st a with e | ⟨ik, _, e⟩
  · rw [e]; exact h
  · rw [e]; exact keysWF_erase h ik

theorem keysWF_commitOr {q : Quirks} {R : Nat} {k : Bytes} {ops : List BOp} (hb : BatchOn R k ops)
    (hne : k ≠ []) (hv : IdxValOK ops) {s : Store} (hs : s.Sorted) (h : KeysWF s) :
    KeysWF (commitOr q s ops) := by
  obtain ⟨rev, v, new, _, hR, h64, hops⟩ := hb
  have hnew : isTomb new = false := by
    rcases hops with rfl | ⟨old, rfl⟩
    · simpa [idxValOp] using hv (.pine (idxKey k) new) (List.mem_cons_self ..)
    · simpa [idxValOp] using hv (.cas (idxKey k) new old) (List.mem_cons_self ..)
  obtain ⟨c, hc⟩ := commitOr_shape (q := q) hops
  rw [hc]
  split
  · have h1 := KB.Store.put_sorted s hs (idxKey k) new
    have h2 := KB.Store.put_sorted _ h1 (encode k rev) v
    intro kv hkv k' n e hn
    have hg := get_of_mem h2 hkv
    rw [KB.Store.get_put _ h1, KB.Store.get_put _ hs] at hg
    by_cases e1 : kv.1 = encode k rev
    · obtain ⟨ek, en⟩ := encode_inj h64 hn (e1.symm.trans e)
      subst ek
      exact ⟨hne, fun h0 => by omega⟩
    · rw [if_neg e1] at hg
      by_cases e2 : kv.1 = idxKey k
      · rw [if_pos e2] at hg
        obtain ⟨ek, en⟩ := encode_inj (by decide) hn (e2.symm.trans e)
        subst ek
        refine ⟨hne, fun _ => ?_⟩
        injection hg with hg
        rw [← hg]; exact hnew
      · rw [if_neg e2] at hg
        exact h kv (mem_of_get hg) k' n e hn
  · exact h

/-- the records of a key range of a well-formed live store are a snapshot the single-worker theorems
apply to -/
theorem snapOK_storeRecs_proj (K : Bytes → Bool) {s : Store} (hs : s.Sorted) (hg : GoodKeys s)
    (hwf : KeysWF s) : SnapOK (storeRecs (proj K s)) := by
  have hps := proj_sorted K hs
  have hpg := proj_goodKeys K hg
  have key : ∀ r ∈ storeRecs (proj K s), r.key ≠ [] ∧ (r.rev = 0 → isTomb r.val = false) := by
    intro r hr
    obtain ⟨h1, h2, h3⟩ := (mem_storeRecs hps hpg).1 hr
    have hm := (List.mem_filter.1 (mem_of_get h3)).1
    exact hwf _ hm r.key r.rev h2 h1
  exact ⟨storeRecs_sorted hps hpg, storeRecs_wellKeyed hps hpg, storeRecs_bounds hps hpg,
    fun r hr => (key r hr).1, fun r hr => (key r hr).2⟩

end KB.Par
