/-
  The creator's re-evaluation loop (fix eb6d1d1) in KB.Sys: why a create is answered "condition failed".
  `keyState g0 l k` = state of key `k` (revision, deleted?) after the applied writes `l` (`wlog` prefix), as its index
  record tells; `Live st` = the key is live in that state; `Refuses st rev` = that state refused a create stamped `rev`
  BEFORE /repo 42e5238 (live, or deleted at / above `rev`); `Why cf st rev` = the one or the other by the flag
  `Cfg.creatorTombAboveIsCf` (since 42e5238 a deletion record at / above `rev` is an ERROR, not a failed condition).
  Invariant `JE` of reachable states (relative to the store invariant `SysStore.SInv`): per in-flight request (`CJ`) —
  at `createOver rev old att` the value `old` was the key's record at some moment `n` of the request and at least `att`
  writes to the key were applied between the request's begin and `n`; at `createRecheck rev att` at least `att + 1`;
  the record never vanishes (no compaction in KB.Sys: `createRetry` is unreachable here, that race is C07Race's); per
  finished create answered "condition failed" (`SpanOK`) — its justification in terms of `wlog` and its `Span`.
-/
import KB.Lemmas.Retry
import KB.Lemmas.SysLag
namespace KB.CreatorLoop
open KB Generated KB.SysStore

/-! ### the key's record as a function of the applied writes -/

/-- number of applied writes to `k` in a piece of the log -/
def rewrites (k : Bytes) (l : List WLog) : Nat := (l.filter (fun w => w.key == k)).length

/-- the index record of `k` after the applied writes `l` -/
def recOf (g0 : G) (l : List WLog) (k : Bytes) : Option Bytes :=
  match SysStore.lastW l k with
  | some p => some (be8 p.rev ++ flagOf p.val)
  | none => g0.store.get (idxKey k)

/-- state of key `k` after the applied writes `l`: (revision, deleted?) of its index record; none = no record -/
def keyState (g0 : G) (l : List WLog) (k : Bytes) : Option (Nat × Bool) :=
  match SysStore.lastW l k with
  | some p => some (p.rev, p.val.isNone)
  | none => initIdx g0 k

/-- this state of its key refuses a create stamped `rev`: the key is live, or deleted at or above `rev` -/
def Refuses (st : Option (Nat × Bool)) (rev : Nat) : Prop := ∃ p t, st = some (p, t) ∧ (t = false ∨ rev ≤ p)

/-- the key is live in this state -/
def Live (st : Option (Nat × Bool)) : Prop := ∃ p, st = some (p, false)

instance (st : Option (Nat × Bool)) : Decidable (Live st) :=
  match st with
  | none => isFalse (by rintro ⟨p, h⟩; cases h)
  | some (p, true) => isFalse (by rintro ⟨p', h⟩; cases h)
  | some (p, false) => isTrue ⟨p, rfl⟩

/-- why a create stamped `rev` may be answered "condition failed" in this state of its key: `cfAbove = false` (the
creator since /repo 42e5238): the key is live; `cfAbove = true` (before): live, or deleted at / above `rev` -/
def Why (cfAbove : Bool) (st : Option (Nat × Bool)) (rev : Nat) : Prop :=
  ∃ p t, st = some (p, t) ∧ (t = false ∨ (cfAbove = true ∧ rev ≤ p))

theorem Why.live {st : Option (Nat × Bool)} {rev : Nat} (h : Why false st rev) : Live st := by
  obtain ⟨p, t, h1, h2 | ⟨h2, _⟩⟩ := h
  · exact ⟨p, by rw [h1, h2]⟩
  · cases h2

theorem Why.refuses {st : Option (Nat × Bool)} {rev : Nat} (h : Why true st rev) : Refuses st rev := by
  obtain ⟨p, t, h1, h2 | ⟨_, h2⟩⟩ := h
  · exact ⟨p, t, h1, .inl h2⟩
  · exact ⟨p, t, h1, .inr h2⟩

instance (st : Option (Nat × Bool)) (rev : Nat) : Decidable (Refuses st rev) :=
  match st with
  | none => isFalse (by rintro ⟨p, t, h, _⟩; cases h)
  | some (p, t) =>
    if h : t = false ∨ rev ≤ p then isTrue ⟨p, t, rfl, h⟩
    else isFalse (by rintro ⟨p', t', e, h'⟩; cases e; exact h h')

theorem rewrites_append (k : Bytes) (a b : List WLog) : rewrites k (a ++ b) = rewrites k a + rewrites k b := by
  simp [rewrites, List.filter_append]

theorem lastW_append_of_none {a b : List WLog} {k : Bytes} (h : rewrites k b = 0) : SysStore.lastW (a ++ b) k = SysStore.lastW a k := by
  unfold rewrites at h
  unfold SysStore.lastW
  rw [List.filter_append, List.length_eq_zero_iff.mp h, List.append_nil]

theorem lastW_none_iff {l : List WLog} {k : Bytes} : SysStore.lastW l k = none ↔ rewrites k l = 0 := by
  unfold SysStore.lastW rewrites
  rw [List.getLast?_eq_none_iff, List.length_eq_zero_iff]

theorem recOf_append_of_none (g0 : G) {a b : List WLog} {k : Bytes} (h : rewrites k b = 0) :
    recOf g0 (a ++ b) k = recOf g0 a k := by
  unfold recOf; rw [lastW_append_of_none h]

theorem keyState_append_of_none (g0 : G) {a b : List WLog} {k : Bytes} (h : rewrites k b = 0) :
    keyState g0 (a ++ b) k = keyState g0 a k := by
  unfold keyState; rw [lastW_append_of_none h]

/-- a changed record means a write to the key was applied -/
theorem rewrites_pos_of_recOf_ne (g0 : G) {a b : List WLog} {k : Bytes} (h : recOf g0 (a ++ b) k ≠ recOf g0 a k) :
    1 ≤ rewrites k b := by
  rcases Nat.eq_zero_or_pos (rewrites k b) with h0 | h0
  · exact absurd (recOf_append_of_none g0 h0) h
  · exact h0

/-- the record never vanishes (KB.Sys has no compaction) -/
theorem recOf_some_append (g0 : G) {a b : List WLog} {k : Bytes} (h : recOf g0 a k ≠ none) :
    recOf g0 (a ++ b) k ≠ none := by
  rcases Nat.eq_zero_or_pos (rewrites k b) with h0 | h0
  · rw [recOf_append_of_none g0 h0]; exact h
  · unfold recOf
    cases hl : SysStore.lastW (a ++ b) k with
    | some p => simp
    | none =>
      have := lastW_none_iff.mp hl
      rw [rewrites_append] at this
      omega

theorem recOf_store {g0 : G} {store : Store} {dealt : Nat} {wlog : List WLog} (h : Core g0 store dealt wlog)
    (hb : dealt < 2 ^ 64) (k : Bytes) : store.get (idxKey k) = recOf g0 wlog k := by
  have hi := h.idx hb k
  unfold recOf
  cases hl : SysStore.lastW wlog k with
  | some p => rw [hl] at hi; exact hi.1
  | none => rw [hl] at hi; exact hi

/-- every index record of the initial store parses (from `C02.StoreOK`) -/
def IdxParse (g0 : G) : Prop := ∀ k v, g0.store.get (idxKey k) = some v → ∃ m t, parseRevision v = some (m, t)

theorem IdxParse.of_storeOK {g0 : G} (hs : C02.StoreOK g0) : IdxParse g0 := by
  obtain ⟨recs, hst, _, hrecs, hb⟩ := hs
  intro k v hget
  have hmem := Store.mem_of_get hget
  rw [hst] at hmem
  obtain ⟨r, hr, e⟩ := List.mem_map.mp hmem
  simp only [Prod.mk.injEq] at e
  have hrr := (hrecs r hr).2
  have h0 : r.rev = 0 := ((encode_inj (by omega) (by decide) e.1).2)
  obtain ⟨m', t', hp', _⟩ := hrr.2 h0
  exact ⟨m', t', by rw [← e.2]; exact hp'⟩

theorem keyState_of_recOf (g0 : G) {l : List WLog} (hrevs : ∀ w ∈ l, w.rev < 2 ^ 64) (k : Bytes) :
    (recOf g0 l k).bind parseRevision = keyState g0 l k := by
  unfold recOf keyState
  cases hl : SysStore.lastW l k with
  | some p =>
    simp only [Option.bind_some]
    exact parseRevision_be8_flag (hrevs p (SysStore.lastW_some hl).1) p.val
  | none => rfl

theorem recOf_parses {g0 : G} (hp0 : IdxParse g0) {l : List WLog} (hrevs : ∀ w ∈ l, w.rev < 2 ^ 64) {k old : Bytes}
    (h : recOf g0 l k = some old) : ∃ p t, parseRevision old = some (p, t) := by
  unfold recOf at h
  cases hl : SysStore.lastW l k with
  | some q =>
    rw [hl] at h
    simp only [Option.some.injEq] at h
    subst h
    exact ⟨_, _, parseRevision_be8_flag (hrevs q (SysStore.lastW_some hl).1) q.val⟩
  | none =>
    rw [hl] at h
    exact hp0 k old h

/-! ### conflicts of the creator's two batches -/

theorem doCommit_pine_conflict {c : Cfg} {s : Store} {idx new ver v : Bytes} {f : Fault} {i : Option Nat}
    {cv : Option Bytes} {st : Store} (h : doCommit c s [.pine idx new, .put ver v] f = (.conflict i cv, st)) :
    st = s ∧ ∃ old, s.get idx = some old ∧ cv = some old := by
  unfold doCommit commit at h
  simp only [applyOps, applyOp] at h
  cases hg : s.get idx with
  | none =>
    rw [hg] at h
    cases f <;> simp at h
  | some old =>
    rw [hg] at h
    simp only [Prod.mk.injEq, CommitRes.conflict.injEq] at h
    exact ⟨h.2.symm, old, rfl, h.1.2.symm⟩

theorem doCommit_cas_conflict {c : Cfg} {s : Store} {idx new old ver v : Bytes} {f : Fault} {i : Option Nat}
    {cv : Option Bytes} {st : Store} (h : doCommit c s [.cas idx new old, .put ver v] f = (.conflict i cv, st)) :
    st = s ∧ s.get idx ≠ some old := by
  have hna : applied (doCommit c s [.cas idx new old, .put ver v] f).1 f = false := by rw [h]; simp [applied]
  have hst := doCommit_not_applied c s _ f hna
  rw [h] at hst
  refine ⟨hst, fun hget => ?_⟩
  have hok : commit c.q s [.cas idx new old, .put ver v] = .ok ((s.put idx new).put ver v) :=
    (commit_cas_put ..).mpr ⟨hget, rfl⟩
  unfold doCommit at h
  rw [hok] at h
  cases f <;> simp at h

/-! ### the invariant -/

/-- begin mark of the request now running under `id` -/
def bOf (bs : List (Nat × Nat)) (id : Nat) : Nat := ((bs.find? (·.1 == id)).map (·.2)).getD 0

theorem beginOf_eq (g : G) (id : Nat) : g.beginOf id = bOf g.begins id := rfl

/-- what an in-flight request knows (`b` = length of the log when it began) -/
def CJ (g0 : G) (wl : List WLog) (b : Nat) (c : Client) : Prop :=
  b ≤ wl.length ∧
  match c.pc with
  | .createReread _ => recOf g0 wl c.kind.key ≠ none
  | .createRetry _ => False
  | .createOver _ old att =>
    ∃ n, b ≤ n ∧ n ≤ wl.length ∧ recOf g0 (wl.take n) c.kind.key = some old ∧
      att ≤ rewrites c.kind.key ((wl.take n).drop b)
  | .createRecheck _ att => recOf g0 wl c.kind.key ≠ none ∧ att + 1 ≤ rewrites c.kind.key (wl.drop b)
  | .readLatest _ _ => ∀ k v, c.kind ≠ .create k v
  | _ => True

theorem CJ.le {g0 : G} {wl : List WLog} {b : Nat} {c : Client} (h : CJ g0 wl b c) : b ≤ wl.length := h.1

theorem CJ.mono {g0 : G} {wl : List WLog} {b : Nat} {c : Client} (h : CJ g0 wl b c) (e : List WLog) :
    CJ g0 (wl ++ e) b c := by
  obtain ⟨hb, h⟩ := h
  refine ⟨by simp; omega, ?_⟩
  cases hpc : c.pc <;> simp only [hpc] at h ⊢
  · exact recOf_some_append g0 h
  · obtain ⟨n, h1, h2, h3, h4⟩ := h
    refine ⟨n, h1, by simp; omega, ?_, ?_⟩
    · rw [List.take_append_of_le_length h2]; exact h3
    · rw [List.take_append_of_le_length h2]; exact h4
  · refine ⟨recOf_some_append g0 h.1, ?_⟩
    rw [List.drop_append_of_le_length hb, rewrites_append]
    omega
  · exact h

/-- the justification of a failed condition, at the moment `wl` of the answer -/
def Just (g0 : G) (wl : List WLog) (k : Bytes) (b rev : Nat) : Prop :=
  Why g0.cfg.creatorTombAboveIsCf (keyState g0 wl k) rev ∨ 4 ≤ rewrites k (wl.drop b)

/-- ... and as recorded for a finished request -/
def SpanOK (g0 : G) (wl : List WLog) (k : Bytes) (d : Done) (s : Span) : Prop :=
  s.id = d.id ∧ s.rev = d.rev ∧ s.beginLog ≤ s.endLog ∧ s.endLog ≤ wl.length ∧
    ((∃ n, s.beginLog ≤ n ∧ n ≤ s.endLog ∧ Why g0.cfg.creatorTombAboveIsCf (keyState g0 (wl.take n) k) d.rev) ∨
     4 ≤ rewrites k ((wl.take s.endLog).drop s.beginLog))

theorem SpanOK.mono {g0 : G} {wl : List WLog} {k : Bytes} {d : Done} {s : Span} (h : SpanOK g0 wl k d s)
    (e : List WLog) : SpanOK g0 (wl ++ e) k d s := by
  obtain ⟨h1, h2, h3, h4, h5⟩ := h
  refine ⟨h1, h2, h3, by simp; omega, ?_⟩
  rcases h5 with ⟨n, a, b, c⟩ | h5
  · left
    exact ⟨n, a, b, by rw [List.take_append_of_le_length (Nat.le_trans b h4)]; exact c⟩
  · right
    rw [List.take_append_of_le_length h4]; exact h5

def JCl (g0 : G) (wl : List WLog) (bs : List (Nat × Nat)) (cls : List Client) (skip : Option Nat) : Prop :=
  ∀ c ∈ cls, skip ≠ some c.id → CJ g0 wl (bOf bs c.id) c

def JDn (g0 : G) (wl : List WLog) (dn : List Done) (sps : List Span) : Prop :=
  ∀ d ∈ dn, ∀ k v hdr kv, d.kind = .create k v → d.res = .condFailed hdr kv → ∃ s ∈ sps, SpanOK g0 wl k d s

/-- the invariant; `skip = some id` leaves out the request `id` (the one in the middle of its step) -/
structure JE (g0 g : G) (skip : Option Nat) : Prop where
  cl : JCl g0 g.wlog g.begins g.clients skip
  dn : JDn g0 g.wlog g.done g.spans

abbrev JInv (g0 g : G) : Prop := JE g0 g none

theorem JE.weaken {g0 g : G} (h : JInv g0 g) (id : Nat) : JE g0 g (some id) :=
  ⟨fun c hc _ => h.cl c hc (by simp), h.dn⟩

/-- states that differ only outside (wlog, begins, clients, done, spans), or whose log grew -/
theorem JE.grow {g0 g g' : G} {skip : Option Nat} (h : JE g0 g skip) (e : List WLog) (hw : g'.wlog = g.wlog ++ e)
    (hb : g'.begins = g.begins) (hc : g'.clients = g.clients) (hd : g'.done = g.done) (hs : g'.spans = g.spans) :
    JE g0 g' skip := by
  constructor
  · rw [hw, hb, hc]
    intro c hcm hsk
    exact (h.cl c hcm hsk).mono e
  · rw [hw, hd, hs]
    intro d hdm k v hdr kv hk hr
    obtain ⟨s, hsm, hso⟩ := h.dn d hdm k v hdr kv hk hr
    exact ⟨s, hsm, hso.mono e⟩

theorem JE.same {g0 g g' : G} {skip : Option Nat} (h : JE g0 g skip) (hw : g'.wlog = g.wlog)
    (hb : g'.begins = g.begins) (hc : g'.clients = g.clients) (hd : g'.done = g.done) (hs : g'.spans = g.spans) :
    JE g0 g' skip :=
  h.grow [] (by simp [hw]) hb hc hd hs

@[simp] theorem G.notify_begins (g : G) (w : WEvent) : (g.notify w).begins = g.begins := by
  unfold G.notify; split <;> rfl
@[simp] theorem G.notify_spans (g : G) (w : WEvent) : (g.notify w).spans = g.spans := by
  unfold G.notify; split <;> rfl

theorem JE.notify {g0 g : G} {skip : Option Nat} (h : JE g0 g skip) (w : WEvent) : JE g0 (g.notify w) skip :=
  h.same (by simp) (by simp) (by simp) (by simp) (by simp)

theorem afterCommit_grow (g : G) (r : CommitRes) (st : Store) (f : Fault) (key : Bytes) (rev : Nat) (val : Option Bytes)
    (exp : Expect) :
    (∃ e, (afterCommit g r st f key rev val exp).wlog = g.wlog ++ e) ∧
      (afterCommit g r st f key rev val exp).begins = g.begins ∧
      (afterCommit g r st f key rev val exp).clients = g.clients ∧
      (afterCommit g r st f key rev val exp).done = g.done ∧
      (afterCommit g r st f key rev val exp).spans = g.spans := by
  unfold afterCommit
  split
  · exact ⟨⟨_, rfl⟩, rfl, rfl, rfl, rfl⟩
  · exact ⟨⟨[], by simp⟩, rfl, rfl, rfl, rfl⟩

theorem JE.afterCommit {g0 g : G} {skip : Option Nat} (h : JE g0 g skip) (r : CommitRes) (st : Store) (f : Fault)
    (key : Bytes) (rev : Nat) (val : Option Bytes) (exp : Expect) :
    JE g0 (afterCommit g r st f key rev val exp) skip := by
  obtain ⟨⟨e, hw⟩, hb, hc, hd, hs⟩ := afterCommit_grow g r st f key rev val exp
  exact h.grow e hw hb hc hd hs

theorem afterCommit_beginOf (g : G) (r : CommitRes) (st : Store) (f : Fault) (key : Bytes) (rev : Nat)
    (val : Option Bytes) (exp : Expect) (id : Nat) :
    (afterCommit g r st f key rev val exp).beginOf id = g.beginOf id := by
  rw [beginOf_eq, beginOf_eq, (afterCommit_grow ..).2.1]

theorem afterCommit_len (g : G) (r : CommitRes) (st : Store) (f : Fault) (key : Bytes) (rev : Nat)
    (val : Option Bytes) (exp : Expect) :
    g.wlog.length ≤ (afterCommit g r st f key rev val exp).wlog.length := by
  obtain ⟨⟨e, hw⟩, _⟩ := afterCommit_grow g r st f key rev val exp
  rw [hw]; simp

theorem JE.set {g0 g : G} {c' : Client} (h : JE g0 g (some c'.id)) (hc : CJ g0 g.wlog (g.beginOf c'.id) c') :
    JInv g0 (g.setClient c') := by
  refine ⟨?_, h.dn⟩
  intro x hx _
  rcases mem_setClient hx with ⟨h1, h2⟩ | rfl
  · exact h.cl x h1 (by simpa using fun e => h2 e.symm)
  · exact hc

theorem JE.finish {g0 g : G} {c : Client} (h : JE g0 g (some c.id)) (res : WriteRes) (rev : Nat)
    (hj : ∀ k v hdr kv, c.kind = .create k v → res = .condFailed hdr kv →
      g.beginOf c.id ≤ g.wlog.length ∧ Just g0 g.wlog k (g.beginOf c.id) rev) :
    JInv g0 (g.finish c res rev) := by
  constructor
  · intro x hx _
    simp only [G.finish, List.mem_filter, bne_iff_ne, ne_eq] at hx
    exact h.cl x hx.1 (by simpa using fun e => hx.2 e.symm)
  · intro d hd k v hdr kv hk hr
    simp only [G.finish, List.mem_append, List.mem_singleton] at hd
    rcases hd with hd | rfl
    · obtain ⟨s, hs, hso⟩ := h.dn d hd k v hdr kv hk hr
      exact ⟨s, by simp [G.finish, hs], hso⟩
    · obtain ⟨hle, hjj⟩ := hj k v hdr kv hk hr
      refine ⟨⟨c.id, rev, g.beginOf c.id, g.wlog.length⟩, by simp [G.finish], rfl, rfl, hle, Nat.le_refl _, ?_⟩
      show (∃ n, _ ∧ _ ∧ Why g0.cfg.creatorTombAboveIsCf (keyState g0 (List.take n g.wlog) k) rev) ∨
        4 ≤ rewrites k (List.drop (g.beginOf c.id) (List.take g.wlog.length g.wlog))
      rcases hjj with hj1 | hj2
      · exact .inl ⟨g.wlog.length, hle, Nat.le_refl _, by rw [List.take_length]; exact hj1⟩
      · right; rw [List.take_length]; exact hj2

theorem JE.finishCreate {g0 g : G} {c : Client} (h : JE g0 g (some c.id)) (hle : g.beginOf c.id ≤ g.wlog.length)
    (key val : Bytes) (rev : Nat) (r : CommitRes)
    (hj : ∀ k v i cv, c.kind = .create k v → r = .conflict i cv → Just g0 g.wlog k (g.beginOf c.id) rev) :
    JInv g0 (finishCreate g c key val rev r) := by
  unfold KB.finishCreate
  have h' := h.notify (mkW rev 0 (r == .ok) .create key val (r == .uncertain))
  have hbo : (g.notify (mkW rev 0 (r == .ok) .create key val (r == .uncertain))).beginOf c.id = g.beginOf c.id := by
    rw [beginOf_eq, beginOf_eq, G.notify_begins]
  split
  · exact h'.finish _ _ (by intro _ _ _ _ _ e; cases e)
  · split
    · rename_i hk
      refine JE.set (c' := { c with pc := .readLatest rev none }) h' ⟨by rw [hbo]; simpa using hle, ?_⟩
      intro k v e
      rw [hk] at e; cases e
    · refine h'.finish _ _ ?_
      intro k v hdr kv hk _
      rw [hbo]
      exact ⟨by simpa using hle, by simpa using hj k v _ _ hk rfl⟩
  · exact h'.finish _ _ (by intro _ _ _ _ _ e; cases e)

/-- the creator looks at the record `old` it found for its key -/
theorem JE.createSawIndex {g0 g : G} (hp0 : IdxParse g0) (hcfg : g.cfg = g0.cfg) {c : Client} (h : JE g0 g (some c.id))
    (hle : g.beginOf c.id ≤ g.wlog.length) (hrevs : ∀ w ∈ g.wlog, w.rev < 2 ^ 64) (val : Bytes) (rev : Nat)
    (old : Bytes) (att : Nat) (hrec : recOf g0 g.wlog c.kind.key = some old)
    (hatt : att ≤ rewrites c.kind.key (g.wlog.drop (g.beginOf c.id))) :
    JInv g0 (createSawIndex g c c.kind.key val rev old att) := by
  unfold KB.createSawIndex
  have hks := keyState_of_recOf g0 hrevs c.kind.key
  rw [hrec, Option.bind_some] at hks
  split
  · rename_i hpn
    obtain ⟨p, t, hpt⟩ := recOf_parses hp0 hrevs hrec
    rw [hpn] at hpt; cases hpt
  · rename_i prevRev tomb hp
    split
    · refine JE.set (c' := { c with pc := .createOver rev old att }) h ⟨hle, ?_⟩
      exact ⟨g.wlog.length, hle, Nat.le_refl _, by rw [List.take_length]; exact hrec,
        by rw [List.take_length]; exact hatt⟩
    · rename_i hc
      refine h.finishCreate hle _ _ _ _ ?_
      intro k v i cv hk hr
      have hkk : c.kind.key = k := by rw [hk]; rfl
      left
      rw [← hkk, ← hks, hp]
      refine ⟨prevRev, tomb, rfl, ?_⟩
      rcases tombAbove_cases g.cfg tomb with ⟨he, _, _⟩ | ⟨_, ht | hf⟩
      · rw [he] at hr; cases hr
      · exact .inl ht
      · cases tomb with
        | false => exact .inl rfl
        | true =>
          right
          simp only [Bool.true_and, decide_eq_true_eq] at hc
          exact ⟨by rw [← hcfg]; exact hf, by omega⟩

/-! ### one client step -/

theorem JInv.stepClient {g0 g : G} (hp0 : IdxParse g0) (hS : SysStore.SInv g0 g) (hb : g.dealt < 2 ^ 64)
    (hcfg : g.cfg = g0.cfg) (hnew : g0.cfg.creatorNoReeval = false) (h : JInv g0 g) {c : Client} (hc : c ∈ g.clients)
    (f : Fault) : JInv g0 (stepClient g c f) := by
  have hcj : CJ g0 g.wlog (g.beginOf c.id) c := h.cl c hc (by simp)
  have hle : g.beginOf c.id ≤ g.wlog.length := hcj.1
  have hE := JE.weaken h c.id
  have hrec : ∀ k, g.store.get (idxKey k) = recOf g0 g.wlog k := recOf_store hS.core hb
  have hrevs : ∀ w ∈ g.wlog, w.rev < 2 ^ 64 := fun w hw => Nat.lt_of_le_of_lt (hS.core.revs w hw).2 hb
  have hplain : ∀ pc : Pc, (match pc with
      | .createReread _ => False | .createRetry _ => False | .createOver _ _ _ => False
      | .createRecheck _ _ => False | .readLatest _ _ => False | _ => True) →
      CJ g0 g.wlog (g.beginOf c.id) { c with pc := pc } := by
    intro pc hpc
    refine ⟨hle, ?_⟩
    cases pc <;> simp_all
  apply stepClient_cases'
  · -- start / create
    intro key val _ _
    exact JE.set (g := { g with dealt := g.dealt + 1 }) (c' := { c with pc := .createCommit (g.dealt + 1) })
      (hE.same rfl rfl rfl rfl rfl) (hplain _ trivial)
  · -- start / update
    intro key val exp _ hk
    split
    · exact JE.set (g := { g with dealt := g.dealt + 1 }) (c' := { c with pc := .createCommit (g.dealt + 1) })
        (hE.same rfl rfl rfl rfl rfl) (hplain _ trivial)
    · split
      · refine JE.finish (((hE.same (g' := { g with dealt := g.dealt + 1 }) rfl rfl rfl rfl rfl)).notify _) _ _ ?_
        intro k v _ _ e; rw [hk] at e; cases e
      · exact JE.set (g := { g with dealt := g.dealt + 1 }) (c' := { c with pc := .updateCommit (g.dealt + 1) })
          (hE.same rfl rfl rfl rfl rfl) (hplain _ trivial)
  · -- createCommit
    intro rev key val r st hpc hkv hdc
    have hk : key = c.kind.key := by rw [← ReqKind.kv_key, hkv]
    subst hk
    have hA := hE.afterCommit r st f c.kind.key rev (some val) .absent
    split
    · rename_i idx cv
      obtain ⟨hst, old, hget, hcv⟩ := doCommit_pine_conflict hdc
      subst hst hcv
      rw [afterCommit_conflict] at hA ⊢
      split
      · exact JE.createSawIndex (g := { g with store := g.store }) hp0 hcfg hA hle hrevs val rev _ 0
          (by rw [← hrec]; exact hget) (Nat.zero_le _)
      · refine JE.set (g := { g with store := g.store }) (c' := { c with pc := .createReread rev }) hA ⟨hle, ?_⟩
        show recOf g0 g.wlog c.kind.key ≠ none
        rw [← hrec, hget]; simp
    · rename_i hnc
      refine hA.finishCreate ?_ _ _ _ _ ?_
      · rw [afterCommit_beginOf]; exact Nat.le_trans hle (afterCommit_len ..)
      · intro k v i cv _ e; exact absurd e (hnc i cv)
  · -- createReread
    intro rev key val hpc hkv
    have hk : key = c.kind.key := by rw [← ReqKind.kv_key, hkv]
    subst hk
    have hpres : recOf g0 g.wlog c.kind.key ≠ none := by simpa [CJ, hpc] using hcj.2
    split
    · rename_i old hget
      exact JE.createSawIndex hp0 hcfg hE hle hrevs val rev old 0 (by rw [← hrec]; exact hget) (Nat.zero_le _)
    · rename_i hget
      rw [hrec] at hget
      exact absurd hget hpres
  · -- createRetry: unreachable (the record never vanishes)
    intro rev key val r st hpc _ _
    have : False := by simpa [CJ, hpc] using hcj.2
    exact this.elim
  · -- createOver
    intro rev old att key val r st hpc hkv hdc
    have hk : key = c.kind.key := by rw [← ReqKind.kv_key, hkv]
    subst hk
    have hA := hE.afterCommit r st f c.kind.key rev (some val) .absent
    split
    · obtain ⟨hst, hne⟩ := doCommit_cas_conflict hdc
      subst hst
      rw [afterCommit_conflict] at hA ⊢
      refine JE.set (g := { g with store := g.store }) (c' := { c with pc := .createRecheck rev att }) hA ⟨hle, ?_⟩
      show recOf g0 g.wlog c.kind.key ≠ none ∧ att + 1 ≤ rewrites c.kind.key (g.wlog.drop (g.beginOf c.id))
      have hco := hcj.2
      simp only [hpc] at hco
      obtain ⟨n, h1, h2, h3, h4⟩ := hco
      have hsplit : g.wlog = g.wlog.take n ++ g.wlog.drop n := (List.take_append_drop n g.wlog).symm
      have hne' : recOf g0 (g.wlog.take n ++ g.wlog.drop n) c.kind.key ≠ recOf g0 (g.wlog.take n) c.kind.key := by
        rw [← hsplit, ← hrec, h3]; exact hne
      have hpos := rewrites_pos_of_recOf_ne g0 hne'
      constructor
      · rw [hsplit]; exact recOf_some_append g0 (by rw [h3]; simp)
      · have hd : g.wlog.drop (g.beginOf c.id) = (g.wlog.take n).drop (g.beginOf c.id) ++ g.wlog.drop n := by
          conv => lhs; rw [hsplit]
          exact List.drop_append_of_le_length (by rw [List.length_take]; omega)
        rw [hd, rewrites_append]
        omega
    · rename_i hnc
      refine hA.finishCreate ?_ _ _ _ _ ?_
      · rw [afterCommit_beginOf]; exact Nat.le_trans hle (afterCommit_len ..)
      · intro k v i cv _ e; exact absurd e (hnc i cv)
  · -- createRecheck
    intro rev att key val hpc hkv
    have hk : key = c.kind.key := by rw [← ReqKind.kv_key, hkv]
    subst hk
    have hco := hcj.2
    simp only [hpc] at hco
    obtain ⟨hpres, hcnt⟩ := hco
    split
    · rename_i cur hget
      split
      · rename_i hgive
        rw [hcfg, hnew] at hgive
        simp only [Bool.false_or, decide_eq_true_eq] at hgive
        refine hE.finishCreate hle _ _ _ _ ?_
        intro k v _ _ hkk _
        have : c.kind.key = k := by rw [hkk]; rfl
        right
        rw [← this]; omega
      · exact JE.createSawIndex hp0 hcfg hE hle hrevs val rev cur (att + 1) (by rw [← hrec]; exact hget) hcnt
    · rename_i hget
      rw [hrec] at hget
      exact absurd hget hpres
  · -- updateCommit
    intro rev key val exp r st hpc hk hdc
    have hA := (hE.afterCommit r st f key rev (some val) (.rev exp)).notify
      (mkW rev exp (r == .ok) .put key val (r == .uncertain))
    have hbo : ((afterCommit g r st f key rev (some val) (.rev exp)).notify
        (mkW rev exp (r == .ok) .put key val (r == .uncertain))).beginOf c.id = g.beginOf c.id := by
      rw [beginOf_eq, beginOf_eq, G.notify_begins, (afterCommit_grow ..).2.1]
    have hlen : g.wlog.length ≤ ((afterCommit g r st f key rev (some val) (.rev exp)).notify
        (mkW rev exp (r == .ok) .put key val (r == .uncertain))).wlog.length := by
      rw [G.notify_wlog]; exact afterCommit_len ..
    split
    · exact hA.finish _ _ (by intro k v _ _ e; rw [hk] at e; cases e)
    · refine JE.set (c' := { c with pc := .readLatest rev none }) hA ⟨by rw [hbo]; omega, ?_⟩
      intro k v e; rw [hk] at e; cases e
    · exact hA.finish _ _ (by intro k v _ _ e; rw [hk] at e; cases e)
  · -- start / delete
    intro key exp _ _
    split
    · exact JE.set (c' := { c with pc := .deleteDeal none }) hE (hplain _ trivial)
    · exact JE.set (c' := { c with pc := .deleteDeal (some _) }) hE (hplain _ trivial)
  · -- deleteDeal none
    intro key exp _ hk
    exact JE.finish (((hE.same (g' := { g with dealt := g.dealt + 1 }) rfl rfl rfl rfl rfl)).notify _) _ _
      (by intro k v _ _ e; rw [hk] at e; cases e)
  · -- deleteDeal some
    intro oldVal modRev key exp _ hk
    have hD := hE.same (g' := { g with dealt := g.dealt + 1 }) rfl rfl rfl rfl rfl
    split
    · exact JE.finish (hD.notify _) _ _ (by intro k v _ _ e; rw [hk] at e; cases e)
    · split
      · refine JE.set (c' := { c with pc := .readLatest (g.dealt + 1) (some (key, oldVal, modRev)) }) (hD.notify _)
          ⟨?_, ?_⟩
        · rw [beginOf_eq, G.notify_begins, G.notify_wlog]; exact hle
        · intro k v e; rw [hk] at e; cases e
      · split
        · exact JE.finish (hD.notify _) _ _ (by intro k v _ _ e; rw [hk] at e; cases e)
        · exact JE.set (g := { g with dealt := g.dealt + 1 })
            (c' := { c with pc := .deleteCommit (g.dealt + 1) oldVal modRev }) hD (hplain _ trivial)
  · -- deleteCommit
    intro rev oldVal modRev key exp r st hpc hk hdc
    have hA := (hE.afterCommit r st f key rev none (.rev modRev)).notify
      (mkW rev modRev (r == .ok) .delete key oldVal (r == .uncertain))
    have hbo : ((afterCommit g r st f key rev none (.rev modRev)).notify
        (mkW rev modRev (r == .ok) .delete key oldVal (r == .uncertain))).beginOf c.id = g.beginOf c.id := by
      rw [beginOf_eq, beginOf_eq, G.notify_begins, (afterCommit_grow ..).2.1]
    have hlen : g.wlog.length ≤ ((afterCommit g r st f key rev none (.rev modRev)).notify
        (mkW rev modRev (r == .ok) .delete key oldVal (r == .uncertain))).wlog.length := by
      rw [G.notify_wlog]; exact afterCommit_len ..
    split
    · exact hA.finish _ _ (by intro k v _ _ e; rw [hk] at e; cases e)
    · refine JE.set (c' := { c with pc := .readLatest rev (some (key, oldVal, modRev)) }) hA ⟨by rw [hbo]; omega, ?_⟩
      intro k v e; rw [hk] at e; cases e
    · exact hA.finish _ _ (by intro k v _ _ e; rw [hk] at e; cases e)
  · -- readLatest: never a create
    intro rev fb hpc
    have hnk : ∀ k v, c.kind ≠ .create k v := by simpa [CJ, hpc] using hcj.2
    split
    · exact hE.finish _ _ (by intro k v _ _ e; exact absurd e (hnk k v))
    · exact hE.finish _ _ (by intro k v _ _ e; exact absurd e (hnk k v))
  · exact h
  · -- `Deal` refused: the request returns without a revision (it is not recorded in `done`)
    intro _ _
    refine ⟨?_, hE.dn⟩
    intro x hx _
    simp only [G.refuse, List.mem_filter, bne_iff_ne, ne_eq] at hx
    exact hE.cl x hx.1 (by simpa using fun e => hx.2 e.symm)

/-! ### the other actions, runs -/

theorem JInv.stepSeq {g0 g : G} (h : JInv g0 g) : JInv g0 (stepSeq g) := by
  unfold KB.stepSeq
  split
  · exact h
  · exact h.same rfl rfl rfl rfl rfl

theorem JInv.stepRetryRead {g0 g : G} (h : JInv g0 g) : JInv g0 (stepRetryRead g) := by
  apply stepRetryRead_cases
  · intros; exact h
  · intros; exact h
  · intros; exact h.same rfl rfl rfl rfl rfl
  · intros; exact h.same rfl rfl rfl rfl rfl
  · intros; exact h

theorem JInv.stepRetryCommit {g0 g : G} (h : JInv g0 g) (f : Fault) : JInv g0 (stepRetryCommit g f) := by
  apply stepRetryCommit_cases
  · intro _; exact h
  · intro p r st _ _
    have h1 : JInv g0 { g with retryPc := none, retryQ := if r == CommitRes.ok || r.isCas then g.retryQ.drop 1 else g.retryQ } :=
      h.same rfl rfl rfl rfl rfl
    exact (h1.afterCommit r st f p.w.key p.rev (if isTomb p.val then none else some p.val) (.rev p.w.rev)).notify _

theorem bOf_cons_ne {bs : List (Nat × Nat)} {id id' n : Nat} (h : id' ≠ id) : bOf ((id, n) :: bs) id' = bOf bs id' := by
  unfold bOf
  rw [List.find?_cons_of_neg]
  simpa using fun e => h e.symm

theorem bOf_cons_self (bs : List (Nat × Nat)) (id n : Nat) : bOf ((id, n) :: bs) id = n := by
  simp [bOf]

theorem act_cfg (g : G) (a : Action) : (act g a).cfg = g.cfg := by
  have hfc : ∀ g c key val rev r, (finishCreate g c key val rev r).cfg = g.cfg := by
    intro g c key val rev r
    unfold finishCreate
    split
    · simp
    · split <;> simp
    · simp
  have hsi : ∀ g c key val rev old att, (createSawIndex g c key val rev old att).cfg = g.cfg := by
    intro g c key val rev old att
    unfold createSawIndex
    split
    · exact hfc ..
    · split
      · rfl
      · exact hfc ..
  have hac : ∀ g r st f key rev val exp, (afterCommit g r st f key rev val exp).cfg = g.cfg := by
    intro g r st f key rev val exp
    unfold afterCommit; split <;> rfl
  cases a with
  | «begin» id kind => unfold act; simp only []; split <;> rfl
  | step id f =>
    unfold act; simp only []; split
    · rfl
    · rename_i c _
      apply stepClient_cases (P := fun g' => g'.cfg = g.cfg)
      · intros; rfl
      · intros; split
        · rfl
        · split
          · simp
          · rfl
      · intros; split
        · split
          · rw [hsi, hac]
          · simp [hac]
        · rw [hfc, hac]
      · intros; split
        · rw [hsi]
        · rfl
      · intros; rw [hfc, hac]
      · intros; split
        · simp [hac]
        · rw [hfc, hac]
      · intros; split
        · split
          · rw [hfc]
          · rw [hsi]
        · rfl
      · intros; split <;> simp [hac]
      · intros; split <;> rfl
      · intros; simp
      · intros
        split
        · simp
        · split
          · simp
          · split
            · simp
            · rfl
      · intros; split <;> simp [hac]
      · intros; split <;> rfl
      · rfl
      · intros; rfl
  | seq => unfold act KB.stepSeq; simp only []; split <;> rfl
  | retry f =>
    show (KB.stepRetryCommit (KB.stepRetryRead g) f).cfg = g.cfg
    have h1 : (KB.stepRetryRead g).cfg = g.cfg := by
      apply stepRetryRead_cases (P := fun g' => g'.cfg = g.cfg) <;> intros <;> rfl
    have h2 : ∀ g, (KB.stepRetryCommit g f).cfg = g.cfg := by
      intro g
      apply stepRetryCommit_cases (P := fun g' => g'.cfg = g.cfg)
      · intro _; rfl
      · intros; simp [hac]
    rw [h2, h1]
  | retryRead =>
    show (KB.stepRetryRead g).cfg = g.cfg
    apply stepRetryRead_cases (P := fun g' => g'.cfg = g.cfg) <;> intros <;> rfl
  | retryCommit f =>
    show (KB.stepRetryCommit g f).cfg = g.cfg
    apply stepRetryCommit_cases (P := fun g' => g'.cfg = g.cfg)
    · intro _; rfl
    · intros; simp [hac]

theorem run_cfg (g : G) (s : List Action) : (run g s).cfg = g.cfg := by
  induction s generalizing g with
  | nil => rfl
  | cons a s ih => exact (ih (act g a)).trans (act_cfg g a)

theorem JInv.act {g0 g : G} (hp0 : IdxParse g0) (h0 : G0OK g0) (hv : KB.SInv g.view) (hS : SysStore.SInv g0 g)
    (hcfg : g.cfg = g0.cfg) (hnew : g0.cfg.creatorNoReeval = false) (h : JInv g0 g) (a : Action)
    (hb : (act g a).dealt < 2 ^ 64) : JInv g0 (act g a) := by
  have hb0 : g.dealt < 2 ^ 64 := Nat.lt_of_le_of_lt (SysLag.act_dealt_le g a) hb
  cases a with
  | «begin» id kind =>
    unfold KB.act; simp only []
    split
    · exact h
    · rename_i hfree
      have hne : ∀ x ∈ g.clients, x.id ≠ id := by
        intro x hx e
        apply hfree
        simp only [G.client, List.find?_isSome]
        exact ⟨x, hx, by simp [e]⟩
      refine ⟨?_, h.dn⟩
      intro x hx _
      show CJ g0 g.wlog (bOf ((id, g.wlog.length) :: g.begins) x.id) x
      rcases List.mem_append.mp hx with hx | hx
      · rw [bOf_cons_ne (hne x hx)]
        exact h.cl x hx (by simp)
      · simp only [List.mem_singleton] at hx
        subst hx
        rw [bOf_cons_self]
        exact ⟨Nat.le_refl _, trivial⟩
  | step id f =>
    unfold KB.act; simp only []
    split
    · exact h
    · rename_i c hfind
      exact h.stepClient hp0 hS hb0 hcfg hnew (List.mem_of_find?_eq_some hfind) f
  | seq => exact h.stepSeq
  | retry f => exact h.stepRetryRead.stepRetryCommit f
  | retryRead => exact h.stepRetryRead
  | retryCommit f => exact h.stepRetryCommit f

theorem JInv.run {g0 g : G} (hp0 : IdxParse g0) (h0 : G0OK g0) (hv : KB.SInv g.view) (hS : SysStore.SInv g0 g)
    (hcfg : g.cfg = g0.cfg) (hnew : g0.cfg.creatorNoReeval = false) (h : JInv g0 g) (sched : List Action)
    (hb : (run g sched).dealt < 2 ^ 64) : JInv g0 (run g sched) := by
  induction sched generalizing g with
  | nil => exact h
  | cons a s ih =>
    have hb1 : (KB.act g a).dealt < 2 ^ 64 := Nat.lt_of_le_of_lt (SysLag.run_dealt_le (KB.act g a) s) hb
    exact ih (act_P KB.SInv.closed a hv) (hS.act h0 hv a) (by rw [act_cfg]; exact hcfg)
      (h.act hp0 h0 hv hS hcfg hnew a hb1) hb

theorem JInv.reachable {g0 g : G} (hi : C02.Init g0) (hs : C02.StoreOK g0) (hr : Reachable g0 g)
    (hnew : g0.cfg.creatorNoReeval = false) (hb : g.dealt < 2 ^ 64) : JInv g0 g := by
  obtain ⟨sched, rfl⟩ := hr
  have hinit : JInv g0 g0 := by
    obtain ⟨⟨_, _, hcl, _, _⟩, _, _, hd⟩ := hi
    constructor
    · intro c hc; rw [hcl] at hc; cases hc
    · intro d hdm; rw [hd] at hdm; cases hdm
  exact hinit.run (IdxParse.of_storeOK hs) (G0OK.of_storeOK hs) (vinv_init hi)
    (SysStore.SInv.init hi (G0OK.of_storeOK hs)) rfl hnew sched hb

/-! ### the sequential model: run alone, the creator never re-enters its loop -/

theorem creatorOverLoop_first (c : Cfg) (ops1 : List BOp) (key val : Bytes) (rev fuel att : Nat) (st : Store)
    (old : Bytes) (fs : List Fault) (hget : st.get (idxKey key) = some old) :
    creatorOverLoop c ops1 key val rev (fuel + 1) att st old fs =
      ((doCommit c st [BOp.cas (idxKey key) (be8 rev) old, BOp.put (encode key rev) val] (nextFault fs).1).1,
       (doCommit c st [BOp.cas (idxKey key) (be8 rev) old, BOp.put (encode key rev) val] (nextFault fs).1).2,
       (nextFault fs).2) := by
  unfold creatorOverLoop
  simp only []
  generalize hdc : doCommit c st [BOp.cas (idxKey key) (be8 rev) old, BOp.put (encode key rev) val] (nextFault fs).1 = p
  obtain ⟨r2, st'⟩ := p
  cases r2 with
  | conflict i cv => exact absurd hget (doCommit_cas_conflict hdc).2
  | _ => rfl

/-- Run alone (sequential semantics) the creator since eb6d1d1 is the one-shot model `creatorCreate`. -/
theorem creatorCreateNow_eq (c : Cfg) (st : Store) (key val : Bytes) (rev : Nat) (fs : List Fault) :
    creatorCreateNow c st key val rev fs = creatorCreate c st key val rev fs := by
  unfold creatorCreateNow creatorCreate
  simp only []
  generalize hdc : doCommit c st [BOp.pine (idxKey key) (be8 rev), BOp.put (encode key rev) val] (nextFault fs).1 = p
  obtain ⟨r1, st1⟩ := p
  cases r1 with
  | conflict idx cv =>
    obtain ⟨hst, old0, hget, hcv⟩ := doCommit_pine_conflict hdc
    subst hst hcv
    simp only [hget, Option.getD_some]
    have hold : (if idx == some 0 then (Except.ok old0 : Except CommitRes Bytes) else Except.ok old0) = .ok old0 := by
      split <;> rfl
    rw [hold]
    simp only []
    cases hp : parseRevision old0 with
    | none => rfl
    | some pt =>
      obtain ⟨p, tomb⟩ := pt
      simp only []
      split
      · rw [creatorOverLoop_first _ _ _ _ _ _ _ _ _ _ hget]
      · rfl
  | _ => rfl

end KB.CreatorLoop
