/- Helper lemmas for C07Race: compaction delete calls interleaved with writer batches. -/
import KB.Lemmas.Compact
import KB.Lemmas.Engine
namespace KB.Race
open KB KB.Compact Generated

/-! ### sorted stores: membership and `get` -/

theorem mem_of_get {s : Store} {k v : Bytes} (h : s.get k = some v) : (k, v) ∈ s := by
  induction s with
  | nil => simp [Store.get] at h
  | cons x rest ih =>
    obtain ⟨k0, v0⟩ := x
    simp only [Store.get] at h
    cases hc : cmp k k0 with
    | lt => rw [hc] at h; cases h
    | eq =>
      rw [hc] at h
      have : k = k0 := cmp_eq_iff.1 hc
      simp only [Option.some.injEq] at h
      subst this; subst h; exact List.mem_cons_self ..
    | gt => rw [hc] at h; exact List.mem_cons_of_mem _ (ih h)

theorem get_of_mem {s : Store} (hs : s.Sorted) {k v : Bytes} (h : (k, v) ∈ s) : s.get k = some v := by
  induction s with
  | nil => simp at h
  | cons x rest ih =>
    obtain ⟨k0, v0⟩ := x
    have hs' := KB.Store.sorted_cons.1 hs
    rcases List.mem_cons.1 h with h | h
    · injection h with h1 h2
      subst h1; subst h2
      simp [Store.get]
    · have hlt := hs'.1 _ h
      simp only at hlt
      have hgt : cmp k k0 = .gt := cmp_gt_iff.2 hlt
      simp only [Store.get, hgt]
      exact ih hs'.2 h

/-! ### decoding a store whose keys are all well-formed internal keys -/

/-- every key of the store is `encode k n` for a raw key over the alphabet and a 64-bit revision -/
def GoodKeys (s : Store) : Prop := ∀ kv ∈ s, ∃ k n, kv.1 = encode k n ∧ Alphabet k ∧ n < 2 ^ 64

/-- the decoded records of a store (`[]` if the worker's `Decode` would panic — excluded by `GoodKeys`) -/
def storeRecs (s : Store) : List Rec := (decodeRecs s).getD []

/-- the record a store entry decodes to -/
def recOf (kv : Bytes × Bytes) : Rec :=
  match decode kv.1 with
  | .ok k r => { key := k, rev := r, val := kv.2, ik := kv.1 }
  | _ => { key := [], rev := 0, val := kv.2, ik := kv.1 }

theorem recOf_encode {k : Bytes} {n : Nat} (hn : n < 2 ^ 64) (v : Bytes) :
    recOf (encode k n, v) = { key := k, rev := n, val := v, ik := encode k n } := by
  simp only [recOf, decode_encode k n hn]

theorem goodKeys_tail {x : Bytes × Bytes} {s : Store} (h : GoodKeys (x :: s)) : GoodKeys s :=
  fun kv hkv => h kv (List.mem_cons_of_mem _ hkv)

theorem decodeRecs_good {s : Store} (hg : GoodKeys s) : decodeRecs s = some (s.map recOf) := by
  induction s with
  | nil => rfl
  | cons x rest ih =>
    obtain ⟨ik, v⟩ := x
    obtain ⟨k, n, e, _, hn⟩ := hg (ik, v) (List.mem_cons_self ..)
    simp only at e
    subst e
    simp only [decodeRecs, decode_encode k n hn, ih (goodKeys_tail hg), Option.map_some, List.map_cons,
      recOf_encode hn]

theorem storeRecs_eq {s : Store} (hg : GoodKeys s) : storeRecs s = s.map recOf := by
  simp [storeRecs, decodeRecs_good hg]

theorem mem_storeRecs {s : Store} (hs : s.Sorted) (hg : GoodKeys s) {x : Rec} :
    x ∈ storeRecs s ↔ (x.rev < 2 ^ 64 ∧ x.ik = encode x.key x.rev ∧ s.get x.ik = some x.val) := by
  rw [storeRecs_eq hg, List.mem_map]
  constructor
  · rintro ⟨⟨ik, v⟩, hkv, rfl⟩
    obtain ⟨k, n, e, _, hn⟩ := hg (ik, v) hkv
    simp only at e
    subst e
    rw [recOf_encode hn]
    exact ⟨hn, rfl, get_of_mem hs hkv⟩
  · rintro ⟨hn, hik, hget⟩
    refine ⟨(x.ik, x.val), mem_of_get hget, ?_⟩
    rw [hik, recOf_encode hn]
    cases x
    simp only at hik
    simp [hik]

theorem storeRecs_alphabet {s : Store} (hg : GoodKeys s) {x : Rec} (hx : x ∈ storeRecs s) :
    Alphabet x.key := by
  rw [storeRecs_eq hg, List.mem_map] at hx
  obtain ⟨⟨ik, v⟩, hkv, rfl⟩ := hx
  obtain ⟨k, n, e, ha, hn⟩ := hg (ik, v) hkv
  simp only at e
  subst e
  rw [recOf_encode hn]
  exact ha

theorem storeRecs_wellKeyed {s : Store} (hs : s.Sorted) (hg : GoodKeys s) : WellKeyed (storeRecs s) :=
  fun _ hx => ((mem_storeRecs hs hg).1 hx).2.1

theorem recLt_of_encode_lt {k1 k2 : Bytes} {n1 n2 : Nat} (h1 : Alphabet k1) (h2 : Alphabet k2)
    (hn1 : n1 < 2 ^ 64) (hn2 : n2 < 2 ^ 64) (h : cmp (encode k1 n1) (encode k2 n2) = .lt)
    (v1 v2 : Bytes) :
    recLt { key := k1, rev := n1, val := v1, ik := encode k1 n1 }
      { key := k2, rev := n2, val := v2, ik := encode k2 n2 } := by
  rw [encode_cmp h1 h2 hn1 hn2] at h
  by_cases hk : k1 = k2
  · simp only [hk, if_true] at h
    exact .inr ⟨hk, Nat.compare_eq_lt.1 h⟩
  · simp only [hk, if_false] at h
    exact .inl h

theorem storeRecs_sorted {s : Store} (hs : s.Sorted) (hg : GoodKeys s) : SortedRecs (storeRecs s) := by
  rw [storeRecs_eq hg]
  unfold SortedRecs
  rw [List.pairwise_map]
  have hp := (KB.Store.sorted_iff_pairwise s).1 hs
  refine List.Pairwise.imp_of_mem ?_ hp
  intro a b ha hb hlt
  obtain ⟨k1, n1, e1, a1, hn1⟩ := hg a ha
  obtain ⟨k2, n2, e2, a2, hn2⟩ := hg b hb
  obtain ⟨ik1, v1⟩ := a
  obtain ⟨ik2, v2⟩ := b
  simp only at e1 e2 hlt
  subst e1; subst e2
  rw [recOf_encode hn1, recOf_encode hn2]
  exact recLt_of_encode_lt a1 a2 hn1 hn2 hlt v1 v2

/-! ### sorted record lists are determined by their members -/

theorem recLt_irrefl (a : Rec) : ¬ recLt a a := by
  rintro (h | ⟨_, h⟩)
  · rw [cmp_refl] at h; cases h
  · omega

theorem recLt_asymm {a b : Rec} (h1 : recLt a b) (h2 : recLt b a) : False := by
  rcases h1 with h1 | ⟨e1, h1⟩
  · rcases h2 with h2 | ⟨e2, _⟩
    · have := cmp_gt_iff.2 h2
      rw [this] at h1; cases h1
    · rw [e2, cmp_refl] at h1; cases h1
  · rcases h2 with h2 | ⟨_, h2⟩
    · rw [e1, cmp_refl] at h2; cases h2
    · omega

theorem sortedRecs_ext {l1 l2 : List Rec} (h1 : SortedRecs l1) (h2 : SortedRecs l2)
    (h : ∀ x, x ∈ l1 ↔ x ∈ l2) : l1 = l2 := by
  induction l1 generalizing l2 with
  | nil =>
    cases l2 with
    | nil => rfl
    | cons b t => exact absurd ((h b).2 (List.mem_cons_self ..)) (by simp)
  | cons a t1 ih =>
    cases l2 with
    | nil => exact absurd ((h a).1 (List.mem_cons_self ..)) (by simp)
    | cons b t2 =>
      have p1 := List.pairwise_cons.1 h1
      have p2 := List.pairwise_cons.1 h2
      have hab : a = b := by
        rcases List.mem_cons.1 ((h a).1 (List.mem_cons_self ..)) with e | ha
        · exact e
        · rcases List.mem_cons.1 ((h b).2 (List.mem_cons_self ..)) with e | hb
          · exact e.symm
          · exact (recLt_asymm (p1.1 b hb) (p2.1 a ha)).elim
      subst hab
      congr 1
      apply ih p1.2 p2.2
      intro x
      constructor
      · intro hx
        rcases List.mem_cons.1 ((h x).1 (List.mem_cons_of_mem _ hx)) with e | hx'
        · subst e; exact (recLt_irrefl _ (p1.1 _ hx)).elim
        · exact hx'
      · intro hx
        rcases List.mem_cons.1 ((h x).2 (List.mem_cons_of_mem _ hx)) with e | hx'
        · subst e; exact (recLt_irrefl _ (p2.1 _ hx)).elim
        · exact hx'

/-- a point read of a sorted decoded store depends only on which *versions* (revision > 0) it has -/
theorem readAt_congr {l1 l2 : List Rec} (h1 : SortedRecs l1) (h2 : SortedRecs l2)
    (h : ∀ x, 0 < x.rev → (x ∈ l1 ↔ x ∈ l2)) (R : Nat) (k : Bytes) :
    readAt R l1 k = readAt R l2 k := by
  unfold readAt
  rw [visible_eq, visible_eq]
  have : l1.filter (visPred R k) = l2.filter (visPred R k) := by
    apply sortedRecs_ext (List.Pairwise.sublist List.filter_sublist h1)
      (List.Pairwise.sublist List.filter_sublist h2)
    intro x
    simp only [List.mem_filter]
    constructor
    · rintro ⟨hx, hv⟩; exact ⟨(h x (visPred_iff.1 hv).2.1).1 hx, hv⟩
    · rintro ⟨hx, hv⟩; exact ⟨(h x (visPred_iff.1 hv).2.1).2 hx, hv⟩
  rw [this]

/-! ### putting the removed snapshot versions back -/

/-- put version record `r` back if it is missing -/
def restoreOne (acc : Store) (r : Rec) : Store :=
  if 0 < r.rev ∧ acc.get r.ik = none then acc.put r.ik r.val else acc

/-- the store with every missing version record (revision > 0) of the snapshot `recs0` put back -/
def restored (recs0 : List Rec) (s : Store) : Store := recs0.foldl restoreOne s

theorem restoreOne_sorted {s : Store} (hs : s.Sorted) (r : Rec) : (restoreOne s r).Sorted := by
  unfold restoreOne; split
  · exact KB.Store.put_sorted s hs _ _
  · exact hs

theorem restored_sorted (recs0 : List Rec) {s : Store} (hs : s.Sorted) : (restored recs0 s).Sorted := by
  induction recs0 generalizing s with
  | nil => exact hs
  | cons r rs ih => exact ih (restoreOne_sorted hs r)

theorem restored_goodKeys {recs0 : List Rec} (hw : WellKeyed recs0)
    (hk : ∀ r ∈ recs0, Alphabet r.key ∧ r.rev < 2 ^ 64) {s : Store} (hg : GoodKeys s) :
    GoodKeys (restored recs0 s) := by
  induction recs0 generalizing s with
  | nil => exact hg
  | cons r rs ih =>
    apply ih (fun x hx => hw x (List.mem_cons_of_mem _ hx)) (fun x hx => hk x (List.mem_cons_of_mem _ hx))
    unfold restoreOne; split
    · intro kv hkv
      rcases KB.Store.mem_put hkv with h | h
      · exact ⟨r.key, r.rev, h.trans (hw r (List.mem_cons_self ..)), hk r (List.mem_cons_self ..)⟩
      · exact hg kv h
    · exact hg

/-- what `restored` holds at an internal key: the live value if there is one, else the value of the
snapshot version with that internal key -/
theorem get_restored {recs0 : List Rec}
    (huniq : ∀ a ∈ recs0, ∀ b ∈ recs0, a.ik = b.ik → a.val = b.val) {s : Store} (hs : s.Sorted)
    (ik v : Bytes) :
    (restored recs0 s).get ik = some v ↔
      (s.get ik = some v ∨ (s.get ik = none ∧ ∃ r ∈ recs0, 0 < r.rev ∧ r.ik = ik ∧ r.val = v)) := by
  induction recs0 generalizing s with
  | nil => simp [restored]
  | cons r rs ih =>
    have huniq' : ∀ a ∈ rs, ∀ b ∈ rs, a.ik = b.ik → a.val = b.val :=
      fun a ha b hb => huniq a (List.mem_cons_of_mem _ ha) b (List.mem_cons_of_mem _ hb)
    show (restored rs (restoreOne s r)).get ik = some v ↔ _
    rw [ih huniq' (restoreOne_sorted hs r)]
    unfold restoreOne
    by_cases hc : 0 < r.rev ∧ s.get r.ik = none
    · rw [if_pos hc, KB.Store.get_put s hs]
      by_cases hik : ik = r.ik
      · subst hik
        simp only [if_true, hc.2, Option.some.injEq, reduceCtorEq, false_and, or_false, false_or, true_and]
        constructor
        · rintro rfl; exact ⟨r, List.mem_cons_self .., hc.1, rfl, rfl⟩
        · rintro ⟨r', hr', _, hik', hv⟩
          rw [← hv]
          exact huniq r (List.mem_cons_self ..) r' hr' hik'.symm
      · simp only [hik, if_false]
        constructor
        · rintro (h | ⟨h, r', hr', h0, hik', hv⟩)
          · exact .inl h
          · exact .inr ⟨h, r', List.mem_cons_of_mem _ hr', h0, hik', hv⟩
        · rintro (h | ⟨h, r', hr', h0, hik', hv⟩)
          · exact .inl h
          · rcases List.mem_cons.1 hr' with e | hr'
            · subst e; exact absurd hik'.symm hik
            · exact .inr ⟨h, r', hr', h0, hik', hv⟩
    · rw [if_neg hc]
      constructor
      · rintro (h | ⟨h, r', hr', h0, hik', hv⟩)
        · exact .inl h
        · exact .inr ⟨h, r', List.mem_cons_of_mem _ hr', h0, hik', hv⟩
      · rintro (h | ⟨h, r', hr', h0, hik', hv⟩)
        · exact .inl h
        · rcases List.mem_cons.1 hr' with e | hr'
          · subst e; subst hik'
            exact absurd ⟨h0, h⟩ hc
          · exact .inr ⟨h, r', hr', h0, hik', hv⟩

/-! ### the shape of the delete actions of a compaction pass -/

/-- an index record never carries the deletion *marker* as its value (the backend writes only
`be8 rev` and `be8 rev ++ [0]` there) -/
def IdxWF (recs : List Rec) : Prop := ∀ r ∈ recs, r.rev = 0 → isTomb r.val = false

instance (recs : List Rec) : Decidable (IdxWF recs) := by unfold IdxWF; infer_instance

/-- unconditional deletes hit version records `≤ R`; compare-and-deletes hit index records and
expect a 9-byte (deletion-flagged) value -/
def DelShape (R : Nat) : Act → Prop
  | .del ik _ => ∃ k n, ik = encode k n ∧ 0 < n ∧ n ≤ R ∧ n < 2 ^ 64
  | .delcur ik v _ => v.length = 9 ∧ ∃ k, ik = encode k 0
  | _ => True

theorem emitPrev_shape {R : Nat} {p : Prev} {a : Act} (h : a ∈ emitPrev p) : DelShape R a := by
  unfold emitPrev at h
  split at h
  · simp at h; subst h; trivial
  · simp at h

theorem workerStep_rev_le {R : Nat} {p : Prev} {r : Rec} (hp : p.rev ≤ R) :
    (workerStep (ccfg R) p r).2.rev ≤ R := by
  by_cases hR : R < r.rev
  · rw [workerStep_skip p hR]; exact hp
  · rw [workerStep_snd p hR]
    split
    · exact hp
    · exact Nat.le_of_not_lt hR

theorem workerLoop_shape {R : Nat} (rs : List Rec) (p : Prev)
    (hw : ∀ r ∈ rs, r.ik = encode r.key r.rev) (hk : ∀ r ∈ rs, r.rev < 2 ^ 64)
    (hidx : IdxWF rs) (hp : p.rev ≤ R) (hp64 : p.rev < 2 ^ 64) {a : Act}
    (ha : a ∈ workerLoop (ccfg R) p rs) : DelShape R a := by
  induction rs generalizing p with
  | nil => exact emitPrev_shape ha
  | cons r rs ih =>
    simp only [workerLoop, List.mem_append] at ha
    have hr : r ∈ r :: rs := List.mem_cons_self ..
    rcases ha with ha | ha
    · by_cases hR : R < r.rev
      · rw [workerStep_skip p hR] at ha; simp at ha
      · rw [workerStep_fst p hR] at ha
        simp only [List.mem_append] at ha
        rcases ha with ha | ha | ha
        · unfold cA1 at ha
          split at ha
          · exact emitPrev_shape ha
          · split at ha
            · rename_i hpos
              simp at ha; subst ha
              exact ⟨p.key, p.rev, rfl, hpos, hp, hp64⟩
            · simp at ha
        · unfold cA2 at ha
          split at ha
          · rename_i htomb
            simp at ha; subst ha
            refine ⟨r.key, r.rev, hw r hr, ?_, Nat.le_of_not_lt hR, hk r hr⟩
            rcases Nat.eq_zero_or_pos r.rev with h0 | h0
            · rw [hidx r hr h0] at htomb; cases htomb
            · exact h0
          · simp at ha
        · unfold cA3 at ha
          split at ha
          · rename_i hc
            simp at ha; subst ha
            exact ⟨hc.2.1, r.key, by rw [hw r hr, hc.1]⟩
          · simp at ha
    · exact ih _ (fun x hx => hw x (List.mem_cons_of_mem _ hx)) (fun x hx => hk x (List.mem_cons_of_mem _ hx))
        (fun x hx => hidx x (List.mem_cons_of_mem _ hx)) (workerStep_rev_le hp)
        (workerStep_rev_lt hp64 (hk r hr)) ha

theorem workerActs_shape {R : Nat} {recs : List Rec} (hw : WellKeyed recs)
    (hk : ∀ r ∈ recs, Alphabet r.key ∧ r.rev < 2 ^ 64) (hidx : IdxWF recs) {a : Act}
    (ha : a ∈ workerActs (ccfg R) recs) : DelShape R a :=
  workerLoop_shape recs {} hw (fun r hr => (hk r hr).2) hidx (Nat.zero_le _) (by decide) ha

/-! ### cutting a mask: a crash after `c` calls -/

/-- `mask` up to call `c`, then every call fails -/
def cut (mask : Nat → DelOutcome) (c : Nat) : Nat → DelOutcome := fun i => if i < c then mask i else .fail

theorem runDelete_congr {m1 m2 : Nat → DelOutcome} (st : CompState) (a : Act)
    (h : m1 st.calls = m2 st.calls) : runDelete m1 st a = runDelete m2 st a := by
  cases a <;> simp only [runDelete, h]

theorem runDelete_calls (mask : Nat → DelOutcome) (st : CompState) (a : Act) :
    (runDelete mask st a = st) ∨ (runDelete mask st a).calls = st.calls + 1 := by
  cases a with
  | emit k v r => exact .inl rfl
  | panic => exact .inl rfl
  | expire _ _ _ _ => exact .inl rfl
  | del ik raw =>
    simp only [runDelete]
    split
    · exact .inl rfl
    · split <;> exact .inr rfl
  | delcur ik v raw =>
    simp only [runDelete]
    split
    · exact .inl rfl
    · split
      · split <;> exact .inr rfl
      · exact .inr rfl
      · exact .inr rfl

theorem runDelete_calls_le (mask : Nat → DelOutcome) (st : CompState) (a : Act) :
    st.calls ≤ (runDelete mask st a).calls := by
  rcases runDelete_calls mask st a with h | h
  · rw [h]; exact Nat.le_refl _
  · omega

theorem runDeletes_calls_le (mask : Nat → DelOutcome) (acts : List Act) (st : CompState) :
    st.calls ≤ (runDeletes mask st acts).calls := by
  induction acts generalizing st with
  | nil => exact Nat.le_refl _
  | cons a l ih =>
    rw [runDeletes_cons]
    exact Nat.le_trans (runDelete_calls_le mask st a) (ih _)

/-- whether an action makes no call is decided by `lastFailed` alone -/
theorem runDelete_noCall {m1 m2 : Nat → DelOutcome} (st : CompState) (a : Act)
    (h : runDelete m1 st a = st) (hc : ∀ st' : CompState, st'.calls = st.calls + 1 → st' ≠ st) :
    runDelete m2 st a = st := by
  cases a with
  | emit k v r => rfl
  | panic => rfl
  | expire _ _ _ _ => rfl
  | del ik raw =>
    simp only [runDelete] at h ⊢
    split
    · rfl
    · rename_i hs
      rw [if_neg hs] at h
      exfalso
      revert h
      split <;> exact hc _ rfl
  | delcur ik v raw =>
    simp only [runDelete] at h ⊢
    split
    · rfl
    · rename_i hs
      rw [if_neg hs] at h
      exfalso
      revert h
      split
      · split <;> exact hc _ rfl
      · exact hc _ rfl
      · exact hc _ rfl

theorem runDelete_cut {mask : Nat → DelOutcome} {c : Nat} (st : CompState) (a : Act)
    (h : (runDelete mask st a).calls ≤ c) : runDelete (cut mask c) st a = runDelete mask st a := by
  by_cases hlt : st.calls < c
  · apply runDelete_congr; simp [cut, hlt]
  · rcases runDelete_calls mask st a with e | e
    · rw [e]
      apply runDelete_noCall st a e
      intro st' h1 h2; rw [h2] at h1; omega
    · omega

theorem runDeletes_cut {mask : Nat → DelOutcome} {c : Nat} (acts : List Act) (st : CompState)
    (h : (runDeletes mask st acts).calls ≤ c) :
    runDeletes (cut mask c) st acts = runDeletes mask st acts := by
  induction acts generalizing st with
  | nil => rfl
  | cons a l ih =>
    rw [runDeletes_cons] at h
    rw [runDeletes_cons, runDeletes_cons,
      runDelete_cut st a (Nat.le_trans (runDeletes_calls_le mask l _) h)]
    exact ih _ h

theorem runDelete_cut_store {mask : Nat → DelOutcome} {c : Nat} (st : CompState) (a : Act)
    (h : c ≤ st.calls) : (runDelete (cut mask c) st a).store = st.store := by
  have hf : cut mask c st.calls = .fail := by simp [cut, Nat.not_lt.2 h]
  cases a with
  | emit k v r => rfl
  | panic => rfl
  | expire _ _ _ _ => rfl
  | del ik raw => simp only [runDelete, hf]; split <;> rfl
  | delcur ik v raw => simp only [runDelete, hf]; split <;> rfl

theorem runDeletes_cut_store {mask : Nat → DelOutcome} {c : Nat} (acts : List Act) (st : CompState)
    (h : c ≤ st.calls) : (runDeletes (cut mask c) st acts).store = st.store := by
  induction acts generalizing st with
  | nil => rfl
  | cons a l ih =>
    rw [runDeletes_cons, ih _ (Nat.le_trans h (runDelete_calls_le _ st a)), runDelete_cut_store st a h]

/-- the state of the compactor after the prefix `done` of its actions, run against the quiescent
snapshot: the "shadow" the racing compactor is compared with -/
def shadow (recs0 : List Rec) (mask : Nat → DelOutcome) (done : List Act) : CompState :=
  runDeletes mask { store := encodeStore recs0 } done

theorem shadow_sorted {recs0 : List Rec} (hs : SortedRecs recs0)
    (hk : ∀ r ∈ recs0, Alphabet r.key ∧ r.rev < 2 ^ 64) (mask : Nat → DelOutcome) (done : List Act) :
    Store.Sorted (shadow recs0 mask done).store :=
  runDeletes_sorted mask done _ (encodeStore_sorted hs hk)

/-- every prefix of a pass leaves the snapshot `TombClosed` (a crash is a mask) -/
theorem shadow_tombClosed {recs0 : List Rec} (hs : SortedRecs recs0) (hw : WellKeyed recs0)
    (hk : ∀ r ∈ recs0, Alphabet r.key ∧ r.rev < 2 ^ 64) (hne : ∀ r ∈ recs0, r.key ≠ [])
    (R : Nat) (mask : Nat → DelOutcome) {done pend : List Act}
    (h : workerActs (ccfg R) recs0 = done ++ pend) :
    TombClosed recs0 (shadow recs0 mask done).store := by
  have key := compact_tombClosed hs hw hk hne R (cut mask (shadow recs0 mask done).calls)
  rw [h, runDeletes_append] at key
  have e1 : runDeletes (cut mask (shadow recs0 mask done).calls) { store := encodeStore recs0 } done =
      shadow recs0 mask done := runDeletes_cut done _ (Nat.le_refl _)
  rw [e1, runDeletes_cut_store pend _ (Nat.le_refl _)] at key
  exact key

/-- every snapshot record missing after a prefix of a pass is `Deletable` -/
theorem shadow_deletable {recs0 : List Rec} (hs : SortedRecs recs0) (hw : WellKeyed recs0)
    (hk : ∀ r ∈ recs0, Alphabet r.key ∧ r.rev < 2 ^ 64) (R : Nat) (mask : Nat → DelOutcome)
    {done pend : List Act} (h : workerActs (ccfg R) recs0 = done ++ pend) {d : Rec} (hd : d ∈ recs0)
    (hdel : (shadow recs0 mask done).store.get d.ik = none) : Deletable R recs0 d := by
  rcases runDeletes_get_none mask _ _ (encodeStore_sorted hs hk) hdel with h1 | ⟨a, ha, ht⟩
  · simp only at h1
    rw [hw d hd, encodeStore_get hs hk hd] at h1; cases h1
  · have ha' : a ∈ workerLoop (ccfg R) {} recs0 := by
      show a ∈ workerActs (ccfg R) recs0
      rw [h]; exact List.mem_append_left _ ha
    exact workerLoop_targets hs hw hk R recs0 {} (fun _ h => h) hs (prevBefore_init _) (by decide) ha' ht hd rfl

/-! ### one delete action on two states with the same control state -/

theorem runDelete_sim (mask : Nat → DelOutcome) (st1 st2 : CompState) (a : Act)
    (hlf : st1.lastFailed = st2.lastFailed) (hc : st1.calls = st2.calls) :
    (runDelete mask st1 a).lastFailed = (runDelete mask st2 a).lastFailed ∧
    (runDelete mask st1 a).calls = (runDelete mask st2 a).calls ∧
    (((runDelete mask st1 a).store = st1.store ∧ (runDelete mask st2 a).store = st2.store) ∨
     (∃ ik raw, a = .del ik raw ∧ (runDelete mask st1 a).store = st1.store.erase ik ∧
        (runDelete mask st2 a).store = st2.store.erase ik) ∨
     (∃ ik v raw, a = .delcur ik v raw ∧
        ((runDelete mask st1 a).store = st1.store ∨ (runDelete mask st1 a).store = st1.store.erase ik) ∧
        ((runDelete mask st2 a).store = st2.store ∨ (runDelete mask st2 a).store = st2.store.erase ik))) := by
  obtain ⟨s1, lf1, c1, t1⟩ := st1
  obtain ⟨s2, lf2, c2, t2⟩ := st2
  simp only at hlf hc
  subst hlf; subst hc
  cases a with
  | emit k v r => exact ⟨rfl, rfl, .inl ⟨rfl, rfl⟩⟩
  | panic => exact ⟨rfl, rfl, .inl ⟨rfl, rfl⟩⟩
  | expire _ _ _ _ => exact ⟨rfl, rfl, .inl ⟨rfl, rfl⟩⟩
  | del ik raw =>
    simp only [runDelete]
    split
    · exact ⟨rfl, rfl, .inl ⟨rfl, rfl⟩⟩
    · split
      · exact ⟨rfl, rfl, .inr (.inl ⟨ik, raw, rfl, rfl, rfl⟩)⟩
      · exact ⟨rfl, rfl, .inl ⟨rfl, rfl⟩⟩
      · exact ⟨rfl, rfl, .inl ⟨rfl, rfl⟩⟩
  | delcur ik v raw =>
    simp only [runDelete]
    split
    · exact ⟨rfl, rfl, .inl ⟨rfl, rfl⟩⟩
    · split
      · refine ⟨?_, ?_, .inr (.inr ⟨ik, v, raw, rfl, ?_, ?_⟩)⟩
        · split <;> split <;> rfl
        · split <;> split <;> rfl
        · split
          · exact .inr rfl
          · exact .inl rfl
        · split
          · exact .inr rfl
          · exact .inl rfl
      · exact ⟨rfl, rfl, .inl ⟨rfl, rfl⟩⟩
      · exact ⟨rfl, rfl, .inl ⟨rfl, rfl⟩⟩

theorem shadow_snoc (recs0 : List Rec) (mask : Nat → DelOutcome) (done : List Act) (a : Act) :
    shadow recs0 mask (done ++ [a]) = runDelete mask (shadow recs0 mask done) a := by
  unfold shadow; rw [runDeletes_append]; rfl

/-! ### writer batches -/

/-- The general shape of a writer's batch: a conditional write (`pine` or `cas`) of the index record
of raw key `k`, then the put of a new version `rev > R` of `k`. All the backend's write batches
(create, re-create over a deleted key, update, delete, retry) are instances. -/
def RaceBatch (R : Nat) (ops : List BOp) : Prop :=
  ∃ k rev v new, Alphabet k ∧ R < rev ∧ rev < 2 ^ 64 ∧
    (ops = [.pine (idxKey k) new, .put (encode k rev) v] ∨
     ∃ old, ops = [.cas (idxKey k) new old, .put (encode k rev) v])

theorem commit_pine_put {q : Quirks} {s s' : Store} {ik new vk v : Bytes}
    (h : commit q s [.pine ik new, .put vk v] = .ok s') :
    s.get ik = none ∧ s' = (s.put ik new).put vk v := by
  cases hg : s.get ik with
  | some old => simp [commit, applyOps, applyOp, hg] at h
  | none =>
    simp only [commit, applyOps, applyOp, hg, Except.ok.injEq] at h
    exact ⟨rfl, h.symm⟩

theorem commit_cas_put {q : Quirks} {s s' : Store} {ik new old vk v : Bytes}
    (h : commit q s [.cas ik new old, .put vk v] = .ok s') :
    s.get ik = some old ∧ s' = (s.put ik new).put vk v := by
  cases hg : s.get ik with
  | none =>
    by_cases hq : q.casMissingNotFound = true <;> simp [commit, applyOps, applyOp, hg, hq] at h
  | some cur =>
    simp only [commit, applyOps, applyOp, hg] at h
    by_cases hc : cur = old
    · subst hc
      simp only [if_true, Except.ok.injEq] at h
      exact ⟨rfl, h.symm⟩
    · simp only [hc, if_false] at h
      cases h

theorem commit_raceBatch {q : Quirks} {R : Nat} {s s' : Store} {ops : List BOp} (hb : RaceBatch R ops)
    (h : commit q s ops = .ok s') :
    ∃ k rev v new, Alphabet k ∧ R < rev ∧ rev < 2 ^ 64 ∧ s' = (s.put (idxKey k) new).put (encode k rev) v := by
  obtain ⟨k, rev, v, new, ha, hR, h64, hops | ⟨old, hops⟩⟩ := hb
  · subst hops; exact ⟨k, rev, v, new, ha, hR, h64, (commit_pine_put h).2⟩
  · subst hops; exact ⟨k, rev, v, new, ha, hR, h64, (commit_cas_put h).2⟩

theorem get_put_put {s : Store} (hs : s.Sorted) (a va b vb x : Bytes) (h1 : x ≠ a) (h2 : x ≠ b) :
    ((s.put a va).put b vb).get x = s.get x := by
  rw [KB.Store.get_put _ (KB.Store.put_sorted s hs a va), if_neg h2, KB.Store.get_put s hs, if_neg h1]

theorem encode_ne_idx {k k' : Bytes} {n : Nat} (h0 : 0 < n) (hn : n < 2 ^ 64) : encode k n ≠ idxKey k' := by
  intro e
  have := (encode_inj hn (by decide) e).2
  omega

/-! ### the invariant's components -/

/-- version records `≤ R` of the live store are records of the snapshot (writers only add versions `> R`) -/
def OldFromSnapshot (R : Nat) (recs0 : List Rec) (s : Store) : Prop :=
  ∀ k n v, 0 < n → n ≤ R → n < 2 ^ 64 → s.get (encode k n) = some v →
    ∃ w ∈ recs0, w.key = k ∧ w.rev = n ∧ w.val = v

/-- The racing compactor `comp` with remaining actions `pending` is in step with its *shadow* — the same
prefix `done` of the pass executed against the quiescent snapshot: same skip state, same call counter,
and exactly the same snapshot versions are gone. -/
def Tracks (R : Nat) (recs0 : List Rec) (mask : Nat → DelOutcome) (comp : CompState)
    (pending : List Act) : Prop :=
  ∃ done, workerActs (ccfg R) recs0 = done ++ pending ∧
    comp.lastFailed = (shadow recs0 mask done).lastFailed ∧
    comp.calls = (shadow recs0 mask done).calls ∧
    ∀ w ∈ recs0, 0 < w.rev →
      (comp.store.get w.ik = none ↔ (shadow recs0 mask done).store.get w.ik = none)

theorem oldFromSnapshot_init {recs0 : List Rec}
    (hk : ∀ r ∈ recs0, Alphabet r.key ∧ r.rev < 2 ^ 64) (R : Nat) :
    OldFromSnapshot R recs0 (encodeStore recs0) := by
  intro k n v _ _ hn hget
  have hm := mem_of_get hget
  simp only [encodeStore, List.mem_map] at hm
  obtain ⟨w, hw, e⟩ := hm
  injection e with e1 e2
  obtain ⟨ek, en⟩ := encode_inj (hk w hw).2 hn e1
  exact ⟨w, hw, ek, en, e2⟩

theorem goodKeys_init {recs0 : List Rec} (hk : ∀ r ∈ recs0, Alphabet r.key ∧ r.rev < 2 ^ 64) :
    GoodKeys (encodeStore recs0) := by
  intro kv hkv
  simp only [encodeStore, List.mem_map] at hkv
  obtain ⟨w, hw, rfl⟩ := hkv
  exact ⟨w.key, w.rev, rfl, hk w hw⟩

theorem tracks_init (R : Nat) (recs0 : List Rec) (mask : Nat → DelOutcome) :
    Tracks R recs0 mask { store := encodeStore recs0 } (workerActs (ccfg R) recs0) :=
  ⟨[], rfl, rfl, rfl, fun _ _ _ => Iff.rfl⟩

theorem ik_version_ne_idx {recs0 : List Rec} (hw : WellKeyed recs0)
    (hk : ∀ r ∈ recs0, Alphabet r.key ∧ r.rev < 2 ^ 64) {w : Rec} (hwm : w ∈ recs0) (h0 : 0 < w.rev)
    (k : Bytes) : w.ik ≠ idxKey k := by
  rw [hw w hwm]; exact encode_ne_idx h0 (hk w hwm).2

section steps
variable {recs0 : List Rec} (hs : SortedRecs recs0) (hw : WellKeyed recs0)
  (hk : ∀ r ∈ recs0, Alphabet r.key ∧ r.rev < 2 ^ 64)
include hs hw hk


/-- a writer batch preserves the invariant's components -/
theorem write_preserves {R : Nat} {mask : Nat → DelOutcome} {q : Quirks} {comp : CompState}
    {pending : List Act} {ops : List BOp} {s' : Store} (hb : RaceBatch R ops)
    (hc : commit q comp.store ops = .ok s')
    (hsorted : Store.Sorted comp.store) (hgood : GoodKeys comp.store)
    (hold : OldFromSnapshot R recs0 comp.store) (htr : Tracks R recs0 mask comp pending) :
    Store.Sorted s' ∧ GoodKeys s' ∧ OldFromSnapshot R recs0 s' ∧
      Tracks R recs0 mask { comp with store := s' } pending := by
  obtain ⟨k, rev, v, new, ha, hR, h64, rfl⟩ := commit_raceBatch hb hc
  have hsorted1 := KB.Store.put_sorted comp.store hsorted (idxKey k) new
  refine ⟨KB.Store.put_sorted _ hsorted1 _ _, ?_, ?_, ?_⟩
  · intro kv hkv
    rcases KB.Store.mem_put hkv with h | h
    · exact ⟨k, rev, h, ha, h64⟩
    · rcases KB.Store.mem_put h with h | h
      · exact ⟨k, 0, h, ha, by decide⟩
      · exact hgood kv h
  · intro k' n v' h0 hle hn hget
    rw [get_put_put hsorted _ _ _ _ _ (encode_ne_idx h0 hn)] at hget
    · exact hold k' n v' h0 hle hn hget
    · intro e
      have := (encode_inj hn h64 e).2
      omega
  · obtain ⟨done, hacts, hlf, hcalls, hag⟩ := htr
    refine ⟨done, hacts, hlf, hcalls, ?_⟩
    intro w hwm h0
    show ((comp.store.put (idxKey k) new).put (encode k rev) v).get w.ik = none ↔ _
    by_cases e : w.ik = encode k rev
    · rw [e, KB.Store.get_put _ hsorted1, if_pos rfl]
      constructor
      · intro h; cases h
      · intro h
        exfalso
        rw [← e] at h
        have hd := shadow_deletable hs hw hk R mask hacts hwm h
        rw [hw w hwm] at e
        have := (encode_inj (hk w hwm).2 h64 e).2
        have := hd.1
        omega
    · rw [get_put_put hsorted _ _ _ _ _ (ik_version_ne_idx hw hk hwm h0 k) e]
      exact hag w hwm h0

/-- one compactor action preserves the invariant's components -/
theorem compDel_preserves (hidx : IdxWF recs0) {R : Nat} {mask : Nat → DelOutcome} {comp : CompState}
    {a : Act} {rest : List Act}
    (hsorted : Store.Sorted comp.store) (hgood : GoodKeys comp.store)
    (hold : OldFromSnapshot R recs0 comp.store) (htr : Tracks R recs0 mask comp (a :: rest)) :
    Store.Sorted (runDelete mask comp a).store ∧ GoodKeys (runDelete mask comp a).store ∧
      OldFromSnapshot R recs0 (runDelete mask comp a).store ∧
      Tracks R recs0 mask (runDelete mask comp a) rest := by
  have h3 : Store.Sorted (runDelete mask comp a).store ∧ GoodKeys (runDelete mask comp a).store ∧
      OldFromSnapshot R recs0 (runDelete mask comp a).store := by
    rcases runDelete_store mask comp a with e | ⟨ik, _, e⟩
    · rw [e]; exact ⟨hsorted, hgood, hold⟩
    · rw [e]
      refine ⟨KB.Store.erase_sorted _ hsorted _, fun kv hkv => hgood kv (KB.Store.mem_erase hkv), ?_⟩
      intro k n v h0 hle hn hget
      rw [KB.Store.get_erase _ hsorted] at hget
      split at hget
      · cases hget
      · exact hold k n v h0 hle hn hget
  refine ⟨h3.1, h3.2.1, h3.2.2, ?_⟩
  obtain ⟨done, hacts, hlf, hcalls, hag⟩ := htr
  have hshS := shadow_sorted hs hk mask done
  have hmem : a ∈ workerActs (ccfg R) recs0 := by rw [hacts]; simp
  have hshape := workerActs_shape (R := R) hw hk hidx hmem
  obtain ⟨hlf', hc', hst⟩ := runDelete_sim mask comp (shadow recs0 mask done) a hlf hcalls
  refine ⟨done ++ [a], by rw [hacts]; simp, ?_, ?_, ?_⟩
  · rw [shadow_snoc]; exact hlf'
  · rw [shadow_snoc]; exact hc'
  · intro w hwm h0
    rw [shadow_snoc]
    rcases hst with ⟨e1, e2⟩ | ⟨ik, raw, _, e1, e2⟩ | ⟨ik, v, raw, ea, e1, e2⟩
    · rw [e1, e2]; exact hag w hwm h0
    · rw [e1, e2, KB.Store.get_erase _ hsorted, KB.Store.get_erase _ hshS]
      by_cases e : w.ik = ik
      · simp [e]
      · simp only [e, if_false]; exact hag w hwm h0
    · subst ea
      obtain ⟨_, k, hik⟩ := hshape
      have hne : w.ik ≠ ik := by rw [hik]; exact ik_version_ne_idx hw hk hwm h0 k
      have g1 : (runDelete mask comp (.delcur ik v raw)).store.get w.ik = comp.store.get w.ik := by
        rcases e1 with e1 | e1
        · rw [e1]
        · rw [e1, KB.Store.get_erase _ hsorted, if_neg hne]
      have g2 : (runDelete mask (shadow recs0 mask done) (.delcur ik v raw)).store.get w.ik =
          (shadow recs0 mask done).store.get w.ik := by
        rcases e2 with e2 | e2
        · rw [e2]
        · rw [e2, KB.Store.get_erase _ hshS, if_neg hne]
      rw [g1, g2]; exact hag w hwm h0

end steps

/-! ### reads of the live store = reads of the restored store -/

/-- MVCC point read of a store: decode it, then `readAt` -/
def readS (R : Nat) (s : Store) (k : Bytes) : Option (Bytes × Nat) := readAt R (storeRecs s) k

theorem recs_ik_uniq {recs0 : List Rec} (hs : SortedRecs recs0) (hw : WellKeyed recs0)
    (hk : ∀ r ∈ recs0, Alphabet r.key ∧ r.rev < 2 ^ 64) :
    ∀ a ∈ recs0, ∀ b ∈ recs0, a.ik = b.ik → a = b := by
  intro a ha b hb e
  rw [hw a ha, hw b hb] at e
  obtain ⟨e1, e2⟩ := encode_inj (hk a ha).2 (hk b hb).2 e
  exact recs_unique hs ha hb e1 e2

section reads
variable {recs0 : List Rec} (hs : SortedRecs recs0) (hw : WellKeyed recs0)
  (hk : ∀ r ∈ recs0, Alphabet r.key ∧ r.rev < 2 ^ 64)
include hs hw hk

/-- a snapshot record `≤ R` is in the restored store with its snapshot value -/
theorem get_restored_snapshot {R : Nat} {s : Store} (hsorted : s.Sorted)
    (hold : OldFromSnapshot R recs0 s) {r : Rec} (hr : r ∈ recs0) (h0 : 0 < r.rev) (hle : r.rev ≤ R) :
    (restored recs0 s).get r.ik = some r.val := by
  have huniq : ∀ a ∈ recs0, ∀ b ∈ recs0, a.ik = b.ik → a.val = b.val :=
    fun a ha b hb e => by rw [recs_ik_uniq hs hw hk a ha b hb e]
  rw [get_restored huniq hsorted]
  cases hL : s.get r.ik with
  | none => exact .inr ⟨rfl, r, hr, h0, rfl, rfl⟩
  | some v =>
    left
    rw [hw r hr] at hL
    obtain ⟨w', hw', e1, e2, e3⟩ := hold r.key r.rev v h0 hle (hk r hr).2 hL
    rw [recs_unique hs hw' hr e1 e2] at e3
    rw [e3]

/-- **Core lemma.** In a state satisfying the invariant, every read at `R' ≥ R` of the live store equals
the read of the store with the removed snapshot versions put back. -/
theorem read_restored (hne : ∀ r ∈ recs0, r.key ≠ []) {R : Nat} {mask : Nat → DelOutcome}
    {comp : CompState} {pending : List Act}
    (hsorted : Store.Sorted comp.store) (hgood : GoodKeys comp.store)
    (hold : OldFromSnapshot R recs0 comp.store) (htr : Tracks R recs0 mask comp pending)
    (R' : Nat) (hR : R ≤ R') (k : Bytes) :
    readS R' comp.store k = readS R' (restored recs0 comp.store) k := by
  obtain ⟨done, hacts, _, _, hag⟩ := htr
  have huniq : ∀ a ∈ recs0, ∀ b ∈ recs0, a.ik = b.ik → a.val = b.val :=
    fun a ha b hb e => by rw [recs_ik_uniq hs hw hk a ha b hb e]
  have hLrS := restored_sorted recs0 hsorted
  have hLrG := restored_goodKeys hw hk hgood
  have hRRs := storeRecs_sorted hLrS hLrG
  -- the live records are the restored records that are present in the live store
  have hfilter : storeRecs comp.store =
      (storeRecs (restored recs0 comp.store)).filter (fun x => (comp.store.get x.ik).isSome) := by
    apply sortedRecs_ext (storeRecs_sorted hsorted hgood) (List.Pairwise.sublist List.filter_sublist hRRs)
    intro x
    rw [List.mem_filter, mem_storeRecs hsorted hgood, mem_storeRecs hLrS hLrG, get_restored huniq hsorted]
    constructor
    · rintro ⟨h1, h2, h3⟩
      exact ⟨⟨h1, h2, .inl h3⟩, by simp [h3]⟩
    · rintro ⟨⟨h1, h2, h3 | ⟨h3, _⟩⟩, h4⟩
      · exact ⟨h1, h2, h3⟩
      · simp [h3] at h4
  -- a record of the restored store that is missing from the live store is a removed snapshot version
  have hmissing : ∀ d ∈ storeRecs (restored recs0 comp.store), (comp.store.get d.ik).isSome = false →
      ∃ w ∈ recs0, 0 < w.rev ∧ w.key = d.key ∧ w.rev = d.rev ∧ w.val = d.val ∧ w.ik = d.ik ∧
        (shadow recs0 mask done).store.get w.ik = none := by
    intro d hd hkeep
    obtain ⟨h64, hik, hget⟩ := (mem_storeRecs hLrS hLrG).1 hd
    have hnone : comp.store.get d.ik = none := by
      cases h : comp.store.get d.ik with
      | none => rfl
      | some v => simp [h] at hkeep
    rw [get_restored huniq hsorted] at hget
    rcases hget with h | ⟨_, w, hwm, h0, e1, e2⟩
    · rw [hnone] at h; cases h
    · have e := e1
      rw [hw w hwm, hik] at e
      obtain ⟨ek, er⟩ := encode_inj (hk w hwm).2 h64 e
      exact ⟨w, hwm, h0, ek, er, e2, e1, (hag w hwm h0).1 (e1 ▸ hnone)⟩
  unfold readS
  rw [hfilter]
  apply readAt_filter hRRs _ R R' hR
  · intro d hd hkeep
    obtain ⟨w, hwm, h0, ek, er, ev, _, hsh⟩ := hmissing d hd hkeep
    obtain ⟨hle, _, hpos⟩ := shadow_deletable hs hw hk R mask hacts hwm hsh
    refine ⟨by omega, fun h => by omega, fun _ => ?_⟩
    rcases hpos h0 with ht | ⟨r', hr', hkey, hlt, hle'⟩
    · exact .inl (ev ▸ ht)
    · refine .inr ⟨r', ?_, hkey.trans ek, by omega, hle'⟩
      rw [mem_storeRecs hLrS hLrG]
      exact ⟨(hk r' hr').2, hw r' hr', get_restored_snapshot hs hw hk hsorted hold hr' (by omega) hle'⟩
  · intro t ht hkeep htomb hpos w hwR hwk h0 hlt
    obtain ⟨t0, ht0, h0t, ek, er, ev, _, hsh⟩ := hmissing t ht hkeep
    have hleT := (shadow_deletable hs hw hk R mask hacts ht0 hsh).1
    have hclosed := shadow_tombClosed hs hw hk hne R mask hacts t0 ht0 hsh (ev ▸ htomb) h0t
    obtain ⟨h64, hik, _⟩ := (mem_storeRecs hLrS hLrG).1 hwR
    cases hL : comp.store.get w.ik with
    | none => rfl
    | some v =>
      exfalso
      rw [hik] at hL
      obtain ⟨w0, hw0, e1, e2, _⟩ := hold w.key w.rev v h0 (by omega) h64 hL
      have hsh0 := hclosed w0 hw0 (by rw [e1, hwk, ek]) (by omega) (by omega)
      have := (hag w0 hw0 (by omega)).2 hsh0
      rw [hw w0 hw0, e1, e2, hL] at this
      cases this

/-- one compactor action does not change which *versions* the restored store has -/
theorem restored_compDel (hidx : IdxWF recs0) {R : Nat} {mask : Nat → DelOutcome} {comp : CompState}
    {a : Act} {rest : List Act}
    (hsorted : Store.Sorted comp.store) (hgood : GoodKeys comp.store)
    (hold : OldFromSnapshot R recs0 comp.store) (htr : Tracks R recs0 mask comp (a :: rest))
    (x : Rec) (hx0 : 0 < x.rev) :
    x ∈ storeRecs (restored recs0 (runDelete mask comp a).store) ↔
      x ∈ storeRecs (restored recs0 comp.store) := by
  obtain ⟨done, hacts, _, _, _⟩ := htr
  have huniq : ∀ a ∈ recs0, ∀ b ∈ recs0, a.ik = b.ik → a.val = b.val :=
    fun a ha b hb e => by rw [recs_ik_uniq hs hw hk a ha b hb e]
  have hmem : a ∈ workerActs (ccfg R) recs0 := by rw [hacts]; simp
  have hshape := workerActs_shape (R := R) hw hk hidx hmem
  rcases runDelete_store mask comp a with e | ⟨ik, htarget, e⟩
  · rw [e]
  · rw [e]
    have hsorted' := KB.Store.erase_sorted _ hsorted ik
    have hgood' : GoodKeys (comp.store.erase ik) := fun kv hkv => hgood kv (KB.Store.mem_erase hkv)
    rw [mem_storeRecs (restored_sorted recs0 hsorted') (restored_goodKeys hw hk hgood'),
      mem_storeRecs (restored_sorted recs0 hsorted) (restored_goodKeys hw hk hgood),
      get_restored huniq hsorted', get_restored huniq hsorted, KB.Store.get_erase _ hsorted]
    by_cases hxi : x.ik = ik
    · simp only [hxi, if_true, reduceCtorEq, false_or, true_and]
      constructor
      · rintro ⟨h64, hik, r, hr, h0, e1, e2⟩
        refine ⟨h64, hik, ?_⟩
        cases hL : comp.store.get ik with
        | none => exact .inr ⟨rfl, r, hr, h0, e1, e2⟩
        | some v =>
          left
          have hdel := workerLoop_targets hs hw hk R recs0 {} (fun _ h => h) hs (prevBefore_init _)
            (by decide) hmem htarget hr e1
          rw [← e1, hw r hr] at hL
          obtain ⟨w', hw', k1, k2, k3⟩ := hold r.key r.rev v h0 hdel.1 (hk r hr).2 hL
          rw [recs_unique hs hw' hr k1 k2] at k3
          rw [← k3, e2]
      · rintro ⟨h64, hik, h | ⟨_, h⟩⟩
        · refine ⟨h64, hik, ?_⟩
          cases a with
          | emit _ _ _ => cases htarget
          | panic => cases htarget
          | expire _ _ _ _ => cases htarget
          | del ik' raw =>
            simp only [actTarget, Option.some.injEq] at htarget
            subst htarget
            obtain ⟨k', n, e1, h0, hle, hn⟩ := hshape
            rw [e1] at h
            obtain ⟨w', hw', k1, k2, k3⟩ := hold k' n x.val h0 hle hn h
            refine ⟨w', hw', by omega, ?_, k3⟩
            rw [hw w' hw', k1, k2, e1]
          | delcur ik' v raw =>
            simp only [actTarget, Option.some.injEq] at htarget
            subst htarget
            obtain ⟨_, k', e1⟩ := hshape
            have := (encode_inj h64 (by decide) (hik.symm.trans e1)).2
            omega
        · exact ⟨h64, hik, h⟩
    · simp only [hxi, if_false]

end reads

/-! ### the logical index -/

/-- What a writer's decision about raw key `k` depends on: `none` if the index record is missing or
carries the deletion flag (the key does not exist: a create goes through), `some rev` if the key is live
at revision `rev`. -/
def logicalIdx (s : Store) (k : Bytes) : Option Nat :=
  match s.get (idxKey k) with
  | none => none
  | some v =>
    match parseRevision v with
    | some (rev, false) => some rev
    | _ => none

theorem logicalIdx_flagged {s : Store} {k v : Bytes} (hg : s.get (idxKey k) = some v) (hl : v.length = 9) :
    logicalIdx s k = none := by
  simp [logicalIdx, hg, parseRevision, hl, revisionValueLength, revisionValueLengthWithDeletionFlag]

theorem logicalIdx_missing {s : Store} {k : Bytes} (hg : s.get (idxKey k) = none) : logicalIdx s k = none := by
  simp [logicalIdx, hg]

theorem logicalIdx_congr {s s' : Store} {k : Bytes} (h : s'.get (idxKey k) = s.get (idxKey k)) :
    logicalIdx s' k = logicalIdx s k := by
  simp only [logicalIdx, h]

/-- a compactor action of the right shape never changes the logical index of any key -/
theorem logicalIdx_runDelete {R : Nat} (mask : Nat → DelOutcome) {st : CompState} (hsorted : Store.Sorted st.store)
    {a : Act} (hshape : DelShape R a) (k : Bytes) :
    logicalIdx (runDelete mask st a).store k = logicalIdx st.store k := by
  cases a with
  | emit _ _ _ => rfl
  | panic => rfl
  | expire _ _ _ _ => rfl
  | del ik raw =>
    obtain ⟨k', n, e1, h0, _, hn⟩ := hshape
    apply logicalIdx_congr
    rcases runDelete_store mask st (.del ik raw) with e | ⟨ik', ht, e⟩
    · rw [e]
    · simp only [actTarget, Option.some.injEq] at ht
      subst ht
      rw [e, KB.Store.get_erase _ hsorted, if_neg]
      rw [e1]
      exact fun h => encode_ne_idx h0 hn h.symm
  | delcur ik v raw =>
    obtain ⟨hlen, k', e1⟩ := hshape
    simp only [runDelete]
    split
    · rfl
    · split
      · split
        · rename_i hget
          by_cases hik : idxKey k = ik
          · rw [logicalIdx_missing (by simp only; rw [KB.Store.get_erase _ hsorted, if_pos hik]),
              logicalIdx_flagged (hik ▸ hget) hlen]
          · apply logicalIdx_congr
            simp only
            rw [KB.Store.get_erase _ hsorted, if_neg hik]
        · rfl
      · rfl
      · rfl

/-! ### `restored` commutes with the steps of the race (used for the history-keeping compactor) -/

/-- sorted stores are determined by `get` -/
theorem store_ext {s1 s2 : Store} (h1 : s1.Sorted) (h2 : s2.Sorted) (h : ∀ k, s1.get k = s2.get k) :
    s1 = s2 := by
  have hmem : ∀ {a b : Store}, a.Sorted → b.Sorted → (∀ k, a.get k = b.get k) → ∀ x, x ∈ a → x ∈ b := by
    intro a b ha _ hab x hx
    obtain ⟨k, v⟩ := x
    exact mem_of_get (hab k ▸ get_of_mem ha hx)
  have irr : ∀ k : Bytes, cmp k k ≠ .lt := by intro k; rw [cmp_refl]; decide
  induction s1 generalizing s2 with
  | nil =>
    cases s2 with
    | nil => rfl
    | cons b t => exact absurd (hmem h2 h1 (fun k => (h k).symm) b (List.mem_cons_self ..)) (by simp)
  | cons a t1 ih =>
    cases s2 with
    | nil => exact absurd (hmem h1 h2 h a (List.mem_cons_self ..)) (by simp)
    | cons b t2 =>
      have p1 := KB.Store.sorted_cons.1 h1
      have p2 := KB.Store.sorted_cons.1 h2
      have hab : a = b := by
        rcases List.mem_cons.1 (hmem h1 h2 h a (List.mem_cons_self ..)) with e | ha
        · exact e
        · rcases List.mem_cons.1 (hmem h2 h1 (fun k => (h k).symm) b (List.mem_cons_self ..)) with e | hb
          · exact e.symm
          · exact absurd (cmp_lt_trans (p1.1 b hb) (p2.1 a ha)) (irr _)
      subst hab
      congr 1
      apply ih p1.2 p2.2
      intro k
      have hk := h k
      obtain ⟨k0, v0⟩ := a
      simp only [Store.get] at hk
      cases hc : cmp k k0 with
      | lt =>
        rw [KB.Store.get_eq_none_of_forall_lt t1 k (fun z hz => cmp_lt_trans hc (p1.1 z hz)),
          KB.Store.get_eq_none_of_forall_lt t2 k (fun z hz => cmp_lt_trans hc (p2.1 z hz))]
      | eq =>
        have : k = k0 := cmp_eq_iff.1 hc
        subst this
        rw [KB.Store.get_eq_none_of_forall_lt t1 k p1.1, KB.Store.get_eq_none_of_forall_lt t2 k p2.1]
      | gt => rw [hc] at hk; exact hk

section restoredSteps
variable {recs0 : List Rec} (huniq : ∀ a ∈ recs0, ∀ b ∈ recs0, a.ik = b.ik → a.val = b.val)
include huniq

theorem get_restored_congr {s1 s2 : Store} (h1 : s1.Sorted) (h2 : s2.Sorted) {ik : Bytes}
    (h : s1.get ik = s2.get ik) : (restored recs0 s1).get ik = (restored recs0 s2).get ik := by
  apply Option.ext
  intro v
  rw [get_restored huniq h1, get_restored huniq h2, h]

theorem get_restored_of_some {s : Store} (hs : s.Sorted) {ik v : Bytes} (h : s.get ik = some v) :
    (restored recs0 s).get ik = some v := (get_restored huniq hs ik v).2 (.inl h)

/-- at a key that is no snapshot version's key, `restored` shows the live store -/
theorem get_restored_other {s : Store} (hs : s.Sorted) {ik : Bytes}
    (hno : ∀ r ∈ recs0, 0 < r.rev → r.ik ≠ ik) : (restored recs0 s).get ik = s.get ik := by
  apply Option.ext
  intro v
  rw [get_restored huniq hs]
  constructor
  · rintro (h | ⟨_, r, hr, h0, e, _⟩)
    · exact h
    · exact absurd e (hno r hr h0)
  · exact .inl

theorem restored_put_put {s : Store} (hs : s.Sorted) (a va b vb : Bytes) :
    restored recs0 ((s.put a va).put b vb) = ((restored recs0 s).put a va).put b vb := by
  have hs1 := KB.Store.put_sorted s hs a va
  have hs2 := KB.Store.put_sorted _ hs1 b vb
  have hr := restored_sorted recs0 hs
  have hr1 := KB.Store.put_sorted _ hr a va
  apply store_ext (restored_sorted recs0 hs2) (KB.Store.put_sorted _ hr1 b vb)
  intro x
  rw [KB.Store.get_put _ hr1, KB.Store.get_put _ hr]
  by_cases hb : x = b
  · rw [if_pos hb]
    exact get_restored_of_some huniq hs2 (by rw [KB.Store.get_put _ hs1, if_pos hb])
  · rw [if_neg hb]
    by_cases ha : x = a
    · rw [if_pos ha]
      exact get_restored_of_some huniq hs2
        (by rw [KB.Store.get_put _ hs1, if_neg hb, KB.Store.get_put _ hs, if_pos ha])
    · rw [if_neg ha]
      exact get_restored_congr huniq hs2 hs (get_put_put hs _ _ _ _ _ ha hb)

/-- removing a key that is no snapshot version's key (an index record) commutes with `restored` -/
theorem restored_erase_other {s : Store} (hs : s.Sorted) {ik : Bytes}
    (hno : ∀ r ∈ recs0, 0 < r.rev → r.ik ≠ ik) :
    restored recs0 (s.erase ik) = (restored recs0 s).erase ik := by
  have hs1 := KB.Store.erase_sorted s hs ik
  have hr := restored_sorted recs0 hs
  apply store_ext (restored_sorted recs0 hs1) (KB.Store.erase_sorted _ hr ik)
  intro x
  rw [KB.Store.get_erase _ hr]
  by_cases hx : x = ik
  · subst hx
    rw [if_pos rfl, get_restored_other huniq hs1 hno, KB.Store.get_erase _ hs, if_pos rfl]
  · rw [if_neg hx]
    exact get_restored_congr huniq hs1 hs (by rw [KB.Store.get_erase _ hs, if_neg hx])

/-- removing a snapshot version `≤ R` is undone by `restored` -/
theorem restored_erase_version {R : Nat} (hw : WellKeyed recs0) {s : Store} (hs : s.Sorted)
    (hold : OldFromSnapshot R recs0 s) {k : Bytes} {n : Nat} (h0 : 0 < n) (hle : n ≤ R) (hn : n < 2 ^ 64) :
    restored recs0 (s.erase (encode k n)) = restored recs0 s := by
  have hs1 := KB.Store.erase_sorted s hs (encode k n)
  apply store_ext (restored_sorted recs0 hs1) (restored_sorted recs0 hs)
  intro x
  by_cases hx : x = encode k n
  · subst hx
    cases hL : s.get (encode k n) with
    | none => exact get_restored_congr huniq hs1 hs (by rw [KB.Store.get_erase _ hs, if_pos rfl, hL])
    | some v =>
      obtain ⟨w, hwm, e1, e2, e3⟩ := hold k n v h0 hle hn hL
      rw [get_restored_of_some huniq hs hL, get_restored huniq hs1]
      refine .inr ⟨by rw [KB.Store.get_erase _ hs, if_pos rfl], w, hwm, by omega, ?_, e3⟩
      rw [hw w hwm, e1, e2]
  · exact get_restored_congr huniq hs1 hs (by rw [KB.Store.get_erase _ hs, if_neg hx])

end restoredSteps

/-- control state (skip key, call counter, trace) of one action does not depend on the store -/
theorem runDelete_ctrl (mask : Nat → DelOutcome) (st1 st2 : CompState) (a : Act)
    (hlf : st1.lastFailed = st2.lastFailed) (hc : st1.calls = st2.calls) (ht : st1.trace = st2.trace) :
    (runDelete mask st1 a).lastFailed = (runDelete mask st2 a).lastFailed ∧
    (runDelete mask st1 a).calls = (runDelete mask st2 a).calls ∧
    (runDelete mask st1 a).trace = (runDelete mask st2 a).trace := by
  obtain ⟨s1, lf1, c1, t1⟩ := st1
  obtain ⟨s2, lf2, c2, t2⟩ := st2
  simp only at hlf hc ht
  subst hlf; subst hc; subst ht
  cases a with
  | emit k v r => exact ⟨rfl, rfl, rfl⟩
  | panic => exact ⟨rfl, rfl, rfl⟩
  | expire _ _ _ _ => exact ⟨rfl, rfl, rfl⟩
  | del ik raw =>
    simp only [runDelete]
    split
    · exact ⟨rfl, rfl, rfl⟩
    · split <;> exact ⟨rfl, rfl, rfl⟩
  | delcur ik v raw =>
    simp only [runDelete]
    split
    · exact ⟨rfl, rfl, rfl⟩
    · split
      · refine ⟨?_, ?_, ?_⟩ <;> split <;> split <;> rfl
      · exact ⟨rfl, rfl, rfl⟩
      · exact ⟨rfl, rfl, rfl⟩

/-- a compare-and-delete takes the same branch on two stores that agree at its key -/
theorem runDelete_delcur_store (mask : Nat → DelOutcome) (st1 st2 : CompState) (ik v raw : Bytes)
    (hlf : st1.lastFailed = st2.lastFailed) (hc : st1.calls = st2.calls)
    (hg : st1.store.get ik = st2.store.get ik) :
    ((runDelete mask st1 (.delcur ik v raw)).store = st1.store ∧
      (runDelete mask st2 (.delcur ik v raw)).store = st2.store) ∨
    ((runDelete mask st1 (.delcur ik v raw)).store = st1.store.erase ik ∧
      (runDelete mask st2 (.delcur ik v raw)).store = st2.store.erase ik) := by
  obtain ⟨s1, lf1, c1, t1⟩ := st1
  obtain ⟨s2, lf2, c2, t2⟩ := st2
  simp only at hlf hc hg
  subst hlf; subst hc
  simp only [runDelete, hg]
  split
  · exact .inl ⟨rfl, rfl⟩
  · split
    · split
      · exact .inr ⟨rfl, rfl⟩
      · exact .inl ⟨rfl, rfl⟩
    · exact .inl ⟨rfl, rfl⟩
    · exact .inl ⟨rfl, rfl⟩

theorem commit_pine_put_eq (q : Quirks) (s : Store) (ik new vk v : Bytes) :
    commit q s [.pine ik new, .put vk v] =
      match s.get ik with
      | some old => .error (.conflict (some (0 + q.idxOffset)) (some old))
      | none => .ok ((s.put ik new).put vk v) := by
  cases hg : s.get ik <;> simp [commit, applyOps, applyOp, hg]

theorem commit_cas_put_eq (q : Quirks) (s : Store) (ik new old vk v : Bytes) :
    commit q s [.cas ik new old, .put vk v] =
      match s.get ik with
      | none => if q.casMissingNotFound then .error .notFound
                else .error (.conflict (some (0 + q.idxOffset)) none)
      | some cur =>
        if cur = old then .ok ((s.put ik new).put vk v)
        else .error (.conflict (some (0 + q.idxOffset))
                       (some (if q.casConflictValExpected then old else cur))) := by
  cases hg : s.get ik with
  | none => by_cases hq : q.casMissingNotFound = true <;> simp [commit, applyOps, applyOp, hg, hq]
  | some cur => by_cases hc : cur = old <;> simp [commit, applyOps, applyOp, hg, hc]

/-- a writer batch has the same outcome on two stores that agree at the index keys -/
theorem commit_sim {q : Quirks} {R : Nat} {ops : List BOp} (hb : RaceBatch R ops) {s1 s2 : Store}
    (h : ∀ k, s2.get (idxKey k) = s1.get (idxKey k)) :
    (∃ a va b vb, commit q s1 ops = .ok ((s1.put a va).put b vb) ∧
        commit q s2 ops = .ok ((s2.put a va).put b vb)) ∨
    (∃ e, commit q s1 ops = .error e ∧ commit q s2 ops = .error e) := by
  obtain ⟨k, rev, v, new, _, _, _, hops | ⟨old, hops⟩⟩ := hb
  · subst hops
    rw [commit_pine_put_eq, commit_pine_put_eq, h k]
    cases s1.get (idxKey k) with
    | none => exact .inl ⟨_, _, _, _, rfl, rfl⟩
    | some cur => exact .inr ⟨_, rfl, rfl⟩
  · subst hops
    rw [commit_cas_put_eq, commit_cas_put_eq, h k]
    cases s1.get (idxKey k) with
    | none =>
      right
      by_cases hq : q.casMissingNotFound = true
      · simp only [hq, if_true]; exact ⟨_, rfl, rfl⟩
      · simp only [hq]; exact ⟨_, rfl, rfl⟩
    | some cur =>
      by_cases hc : cur = old
      · simp only [hc, if_true]; exact .inl ⟨_, _, _, _, rfl, rfl⟩
      · simp only [hc, if_false]; exact .inr ⟨_, rfl, rfl⟩

end KB.Race
