/- Basic facts about the worker loop with expiry (`KB.passLoop`): it executes exactly the actions it reports
(`KB.runActs`: the expiry batch and the single-record deletes), and with expiry off it is the action list
`KB.workerLoop` executed by `KB.runDeletes`. -/
import KB.Scan
namespace KB
open Generated

/-- expiry is off: the engine has native ttl, or there is no timeout revision -/
def WCfg.ExpiryOff (c : WCfg) : Prop := c.supportTTL = true ∨ c.timeout = 0

theorem expiry_off {c : WCfg} (hc : c.ExpiryOff) (live gone : Bytes) (r : Rec) : expiry c live gone r = .no := by
  unfold expiry
  rcases hc with h | h <;> simp [h]

theorem expireStep_off {c : WCfg} (hc : c.ExpiryOff) (live gone : Bytes) (snap : List Rec) (r : Rec) :
    expireStep c live gone snap r = none := by
  unfold expireStep; rw [expiry_off hc]

/-- what the outcomes of `expiry` other than `.no` say about the record -/
theorem expiry_cases (c : WCfg) (live gone : Bytes) (r : Rec) :
    (expiry c live gone r = .no) ∨
    (c.supportTTL = false ∧ c.timeout ≠ 0 ∧ isEventKey c r.key = true ∧
      ((expiry c live gone r = .panic ∧ r.rev = 0 ∧ r.val.length < 8) ∨
       (expiry c live gone r = .idx ∧ r.rev = 0 ∧ 8 ≤ r.val.length ∧ fromBE (r.val.take 8) ≤ c.timeout) ∨
       (expiry c live gone r = .noLive ∧ r.rev = 0 ∧ 8 ≤ r.val.length ∧ c.timeout < fromBE (r.val.take 8)) ∨
       (expiry c live gone r = .gone ∧ r.rev ≠ 0 ∧ r.key = gone) ∨
       (expiry c live gone r = .ver ∧ r.rev ≠ 0 ∧ r.rev ≤ c.timeout ∧ r.key ≠ live ∧ r.key ≠ gone))) := by
  unfold expiry
  by_cases h1 : (c.supportTTL || c.timeout == 0) = true
  · rw [if_pos h1]; exact .inl rfl
  · rw [if_neg h1]
    have h1' : c.supportTTL = false ∧ c.timeout ≠ 0 := by simpa using h1
    by_cases h2 : isEventKey c r.key = true
    · rw [if_pos h2]
      by_cases h3 : (r.rev == 0) = true
      · rw [if_pos h3]
        have hr : r.rev = 0 := by simpa using h3
        by_cases h4 : r.val.length < 8
        · rw [if_pos h4]; exact .inr ⟨h1'.1, h1'.2, h2, .inl ⟨rfl, hr, h4⟩⟩
        · rw [if_neg h4]
          by_cases h5 : fromBE (r.val.take 8) ≤ c.timeout
          · rw [if_pos h5]; exact .inr ⟨h1'.1, h1'.2, h2, .inr (.inl ⟨rfl, hr, by omega, h5⟩)⟩
          · rw [if_neg h5]; exact .inr ⟨h1'.1, h1'.2, h2, .inr (.inr (.inl ⟨rfl, hr, by omega, by omega⟩))⟩
      · rw [if_neg h3]
        have hr : r.rev ≠ 0 := by simpa using h3
        by_cases h6 : (r.key == gone) = true
        · rw [if_pos h6]
          exact .inr ⟨h1'.1, h1'.2, h2, .inr (.inr (.inr (.inl ⟨rfl, hr, by simpa using h6⟩)))⟩
        · rw [if_neg h6]
          have h6' : r.key ≠ gone := by simpa using h6
          by_cases h5 : (decide (r.rev ≤ c.timeout) && r.key != live) = true
          · rw [if_pos h5]
            simp only [Bool.and_eq_true, decide_eq_true_eq, bne_iff_ne, ne_eq] at h5
            exact .inr ⟨h1'.1, h1'.2, h2, .inr (.inr (.inr (.inr ⟨rfl, hr, h5.1, h5.2, h6'⟩)))⟩
          · rw [if_neg h5]; exact .inl rfl
    · rw [if_neg h2]; exact .inl rfl

/-- with expiry on, `compactIfExpired` never just passes over the revision record of an event key -/
theorem expiry_idx_ne_no {c : WCfg} (hs : c.supportTTL = false) (hT : c.timeout ≠ 0) {r : Rec}
    (hev : isEventKey c r.key = true) (hr0 : r.rev = 0) (live gone : Bytes) : expiry c live gone r ≠ .no := by
  unfold expiry
  rw [if_neg (by simp [hs, hT]), if_pos hev, if_pos (by simp [hr0])]
  split
  · simp
  · split <;> simp

theorem runDeletes_nil' (mask : Nat → DelOutcome) (st : CompState) : runDeletes mask st [] = st := rfl

theorem runDeletes_cons' (mask : Nat → DelOutcome) (st : CompState) (a : Act) (l : List Act) :
    runDeletes mask st (a :: l) = runDeletes mask (runDelete mask st a) l := rfl

theorem runDeletes_append' (mask : Nat → DelOutcome) (st : CompState) (l1 l2 : List Act) :
    runDeletes mask st (l1 ++ l2) = runDeletes mask (runDeletes mask st l1) l2 := by
  simp [runDeletes, List.foldl_append]

theorem runDeletes_emitPrev' (mask : Nat → DelOutcome) (st : CompState) (p : Prev) :
    runDeletes mask st (emitPrev p) = st := by
  unfold emitPrev; split <;> rfl

/-! ### `runActs`: the expiry batch and the single-record deletes -/

/-- the action is not an expiry batch -/
def Act.single : Act → Prop
  | .expire _ _ _ _ => False
  | _ => True

theorem runAct_single (mask : Nat → DelOutcome) (st : CompState) {a : Act} (h : a.single) :
    runAct mask st a = runDelete mask st a := by
  cases a <;> first | rfl | exact absurd h (by simp [Act.single])

theorem runAct_expire (mask : Nat → DelOutcome) (st : CompState) (ik v : Bytes) (vers : List Bytes) (raw : Bytes) :
    runAct mask st (.expire ik v vers raw) = runExpire mask st ik v vers raw := rfl

theorem runActs_nil (mask : Nat → DelOutcome) (st : CompState) : runActs mask st [] = st := rfl

theorem runActs_cons (mask : Nat → DelOutcome) (st : CompState) (a : Act) (l : List Act) :
    runActs mask st (a :: l) = runActs mask (runAct mask st a) l := rfl

theorem runActs_append (mask : Nat → DelOutcome) (st : CompState) (l1 l2 : List Act) :
    runActs mask st (l1 ++ l2) = runActs mask (runActs mask st l1) l2 := by
  simp [runActs, List.foldl_append]

/-- on single-record actions `runActs` is `runDeletes` -/
theorem runActs_single (mask : Nat → DelOutcome) (acts : List Act) (st : CompState) (h : ∀ a ∈ acts, a.single) :
    runActs mask st acts = runDeletes mask st acts := by
  induction acts generalizing st with
  | nil => rfl
  | cons a l ih =>
    rw [runActs_cons, runDeletes_cons', runAct_single mask st (h a (by simp)),
      ih _ (fun a' ha' => h a' (List.mem_cons_of_mem _ ha'))]

theorem emitPrev_single (p : Prev) : ∀ a ∈ emitPrev p, a.single := by
  unfold emitPrev; split <;> simp [Act.single]

/-- the ordinary rules of the loop body make single-record calls only -/
theorem workerStep_single (c : WCfg) (p : Prev) (r : Rec) : ∀ a ∈ (workerStep c p r).1, a.single := by
  unfold workerStep
  simp only [emitPrev]
  repeat' split
  all_goals simp [Act.single]

theorem workerLoop_single (c : WCfg) (rs : List Rec) (p : Prev) : ∀ a ∈ workerLoop c p rs, a.single := by
  induction rs generalizing p with
  | nil => exact emitPrev_single p
  | cons r rs ih =>
    intro a ha
    simp only [workerLoop, List.mem_append] at ha
    rcases ha with ha | ha
    · exact workerStep_single c p r a ha
    · exact ih _ a ha

/-- the batch of `expireEvent` on the reference engine: all or nothing on the value of the revision record -/
theorem commit_expireOps (s : Store) (ik v : Bytes) (vers : List Bytes) :
    commit {} s (expireOps ik v vers) =
      if s.get ik = some v then .ok (vers.foldl Store.erase (s.erase ik))
      else .error (.conflict (some 0) (s.get ik)) := by
  have hdel : ∀ (l : List Bytes) (t : Store) (i : Nat),
      applyOps {} t i (l.map BOp.del) = .ok (l.foldl Store.erase t) := by
    intro l
    induction l with
    | nil => intro t i; rfl
    | cons x xs ih => intro t i; simp only [List.map_cons, applyOps, applyOp, List.foldl_cons]; exact ih _ _
  unfold commit expireOps
  simp only [applyOps, applyOp]
  cases hg : s.get ik with
  | none => simp
  | some cur =>
    by_cases hv : cur = v
    · subst hv; simp only [if_true]; exact hdel _ _ _
    · simp [hv]

/-- `isSkippedRawKey` -/
def skipped (st : CompState) (raw : Bytes) : Bool := decide (st.lastFailed.length > 0) && st.lastFailed == raw

theorem skipped_iff {st : CompState} {raw : Bytes} :
    skipped st raw = true ↔ st.lastFailed ≠ [] ∧ st.lastFailed = raw := by
  simp [skipped, List.length_pos_iff]

/-- the three ways the expiry batch can go -/
theorem runExpire_cases (mask : Nat → DelOutcome) (st : CompState) (ik v : Bytes) (vers : List Bytes) (raw : Bytes) :
    (skipped st raw = true ∧ runExpire mask st ik v vers raw = st ∧ expireErr mask st ik v raw = false) ∨
    (skipped st raw = false ∧ expireErr mask st ik v raw = false ∧
        mask st.calls = .ok ∧ st.store.get ik = some v ∧
        (runExpire mask st ik v vers raw).store = vers.foldl Store.erase (st.store.erase ik) ∧
        (runExpire mask st ik v vers raw).lastFailed = st.lastFailed ∧
        (runExpire mask st ik v vers raw).calls = st.calls + 1) ∨
    (skipped st raw = false ∧ expireErr mask st ik v raw = true ∧
        (runExpire mask st ik v vers raw).store = st.store ∧
        ((runExpire mask st ik v vers raw).lastFailed = st.lastFailed ∨
          (runExpire mask st ik v vers raw).lastFailed = raw) ∧
        (runExpire mask st ik v vers raw).calls = st.calls + 1) := by
  cases hsk : skipped st raw with
  | true =>
    left
    unfold skipped at hsk
    refine ⟨rfl, ?_, ?_⟩
    · simp only [runExpire, hsk, if_true]
    · simp only [expireErr, hsk]; rfl
  | false =>
    right
    unfold skipped at hsk
    simp only [runExpire, expireErr, hsk]
    cases hmc : mask st.calls with
    | ok =>
      rw [commit_expireOps]
      by_cases hg : st.store.get ik = some v
      · left; simp [hg]
      · right; simp [hg]
    | fail => right; simp
    | failCas => right; simp

/-- what `expireEvent` collects: the internal keys of the snapshot's versions of `k` -/
theorem mem_versionsOf {k : Bytes} {snap : List Rec} {ik : Bytes} :
    ik ∈ versionsOf k snap ↔ ∃ w ∈ snap, w.key = k ∧ w.rev ≠ 0 ∧ w.rev < 2 ^ 64 - 1 ∧ w.ik = ik := by
  unfold versionsOf
  simp only [List.mem_map, List.mem_filter, Bool.and_eq_true, beq_iff_eq, bne_iff_ne, ne_eq, decide_eq_true_eq]
  constructor
  · rintro ⟨w, ⟨hw, ⟨h1, h2⟩, h3⟩, e⟩; exact ⟨w, hw, h1, h2, h3, e⟩
  · rintro ⟨w, hw, h1, h2, h3, e⟩; exact ⟨w, ⟨hw, ⟨h1, h2⟩, h3⟩, e⟩

/-- unfolding of one iteration, by the decision of `compactIfExpired` -/
theorem passLoop_cons (c : WCfg) (mask : Nat → DelOutcome) (snap : List Rec) (p : Prev) (live gone : Bytes)
    (st : CompState) (r : Rec) (rs : List Rec) :
    passLoop c mask snap p live gone st (r :: rs) =
      match expiry c live gone r with
      | .panic => (.panic :: (passLoop c mask snap p live gone st rs).1, (passLoop c mask snap p live gone st rs).2)
      | .idx =>
        (.expire r.ik r.val (versionsOf r.key snap) r.key ::
          (passLoop c mask snap p (if expireErr mask st r.ik r.val r.key then r.key else live)
            (if expireErr mask st r.ik r.val r.key then gone else r.key)
            (runExpire mask st r.ik r.val (versionsOf r.key snap) r.key) rs).1,
         (passLoop c mask snap p (if expireErr mask st r.ik r.val r.key then r.key else live)
            (if expireErr mask st r.ik r.val r.key then gone else r.key)
            (runExpire mask st r.ik r.val (versionsOf r.key snap) r.key) rs).2)
      | .gone => passLoop c mask snap p live gone st rs
      | .ver =>
        (.del r.ik r.key :: (passLoop c mask snap p live gone (runDelete mask st (.del r.ik r.key)) rs).1,
         (passLoop c mask snap p live gone (runDelete mask st (.del r.ik r.key)) rs).2)
      | .noLive =>
        ((workerStep c p r).1 ++
          (passLoop c mask snap (workerStep c p r).2 r.key gone (runDeletes mask st (workerStep c p r).1) rs).1,
         (passLoop c mask snap (workerStep c p r).2 r.key gone (runDeletes mask st (workerStep c p r).1) rs).2)
      | .no =>
        ((workerStep c p r).1 ++
          (passLoop c mask snap (workerStep c p r).2 live gone (runDeletes mask st (workerStep c p r).1) rs).1,
         (passLoop c mask snap (workerStep c p r).2 live gone (runDeletes mask st (workerStep c p r).1) rs).2) := by
  rw [passLoop]
  cases expiry c live gone r <;> rfl

/-- the state after the loop is the execution of the actions it reports -/
theorem passLoop_run (c : WCfg) (mask : Nat → DelOutcome) (snap : List Rec) (rs : List Rec) (p : Prev)
    (live gone : Bytes) (st : CompState) :
    (passLoop c mask snap p live gone st rs).2 = runActs mask st (passLoop c mask snap p live gone st rs).1 := by
  induction rs generalizing p live gone st with
  | nil => simp only [passLoop]; rw [runActs_single _ _ _ (emitPrev_single p), runDeletes_emitPrev']
  | cons r rs ih =>
    rw [passLoop_cons]
    cases expiry c live gone r with
    | panic => simp only; rw [runActs_cons, ih]; rfl
    | idx => simp only; rw [runActs_cons, ih]; rfl
    | gone => simp only; exact ih _ _ _ _
    | ver => simp only; rw [runActs_cons, ih]; rfl
    | noLive => simp only; rw [runActs_append, runActs_single _ _ _ (workerStep_single c p r), ih]
    | no => simp only; rw [runActs_append, runActs_single _ _ _ (workerStep_single c p r), ih]

/-- With expiry off the loop performs the actions of `workerLoop`, whatever it remembers. -/
theorem passLoop_expiry_off {c : WCfg} (hc : c.ExpiryOff) (mask : Nat → DelOutcome) (snap : List Rec)
    (rs : List Rec) (p : Prev) (live gone : Bytes) (st : CompState) :
    passLoop c mask snap p live gone st rs = (workerLoop c p rs, runDeletes mask st (workerLoop c p rs)) := by
  induction rs generalizing p live gone st with
  | nil => simp only [passLoop, workerLoop]; rw [runDeletes_emitPrev']
  | cons r rs ih =>
    rw [passLoop_cons, expiry_off hc]
    simp only [workerLoop]
    rw [ih, runDeletes_append']

theorem expiryCallShape_eq : (expiryCallShape == "batch") = true := by decide

/-- the loop the source has (regenerated fact `expiryCallShape`): the one with the expiry batch -/
theorem passRun_eq (c : WCfg) (mask : Nat → DelOutcome) (st : CompState) (recs : List Rec) :
    passRun c mask st recs = passLoop c mask recs {} [] [] { st with lastFailed := [] } recs := by
  unfold passRun
  rw [if_pos expiryCallShape_eq]

/-- … in particular one worker of a compaction without a timeout revision (or on an engine with native ttl) is
`runDeletes` over `workerActs`: what C07 / C07Race / C07Par are stated about. -/
theorem passRun_expiry_off {c : WCfg} (hc : c.ExpiryOff) (mask : Nat → DelOutcome) (st : CompState)
    (recs : List Rec) :
    passRun c mask st recs =
      (workerActs c recs, runDeletes mask { st with lastFailed := [] } (workerActs c recs)) := by
  rw [passRun_eq]; exact passLoop_expiry_off hc mask recs recs {} [] [] _

end KB
