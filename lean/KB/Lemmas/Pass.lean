/- Basic facts about the worker loop with expiry (`KB.passLoop`): it executes exactly the actions it reports, and
with expiry off it is the action list `KB.workerLoop` executed by `KB.runDeletes`. -/
import KB.Scan
namespace KB
open Generated

/-- expiry is off: the engine has native ttl, or there is no timeout revision -/
def WCfg.ExpiryOff (c : WCfg) : Prop := c.supportTTL = true ∨ c.timeout = 0

theorem expiry_off {c : WCfg} (hc : c.ExpiryOff) (live : Bytes) (r : Rec) : expiry c live r = .no := by
  unfold expiry
  rcases hc with h | h <;> simp [h]

theorem expireStep_off {c : WCfg} (hc : c.ExpiryOff) (live : Bytes) (r : Rec) : expireStep c live r = none := by
  unfold expireStep; rw [expiry_off hc]

/-- what the four outcomes of `expiry` other than `.no` say about the record -/
theorem expiry_cases (c : WCfg) (live : Bytes) (r : Rec) :
    (expiry c live r = .no) ∨
    (c.supportTTL = false ∧ c.timeout ≠ 0 ∧ isEventKey c r.key = true ∧
      ((expiry c live r = .panic ∧ r.rev = 0 ∧ r.val.length < 8) ∨
       (expiry c live r = .idx ∧ r.rev = 0 ∧ 8 ≤ r.val.length ∧ fromBE (r.val.take 8) ≤ c.timeout) ∨
       (expiry c live r = .noLive ∧ r.rev = 0 ∧ 8 ≤ r.val.length ∧ c.timeout < fromBE (r.val.take 8)) ∨
       (expiry c live r = .ver ∧ r.rev ≠ 0 ∧ r.rev ≤ c.timeout ∧ r.key ≠ live))) := by
  unfold expiry
  by_cases h1 : (c.supportTTL || c.timeout == 0) = true
  · rw [if_pos h1]; exact .inl rfl
  · rw [if_neg h1]
    have h1' : c.supportTTL = false ∧ c.timeout ≠ 0 := by simpa using h1
    by_cases h2 : isEventKey c r.key = true
    · rw [if_pos h2]
      by_cases h3 : (r.rev == 0) = true
      · rw [if_pos h3]
        have hr : r.rev = 0 := by simpa using h3
        by_cases h4 : r.val.length < 8
        · rw [if_pos h4]; exact .inr ⟨h1'.1, h1'.2, h2, .inl ⟨rfl, hr, h4⟩⟩
        · rw [if_neg h4]
          by_cases h5 : fromBE (r.val.take 8) ≤ c.timeout
          · rw [if_pos h5]; exact .inr ⟨h1'.1, h1'.2, h2, .inr (.inl ⟨rfl, hr, by omega, h5⟩)⟩
          · rw [if_neg h5]; exact .inr ⟨h1'.1, h1'.2, h2, .inr (.inr (.inl ⟨rfl, hr, by omega, by omega⟩))⟩
      · rw [if_neg h3]
        have hr : r.rev ≠ 0 := by simpa using h3
        by_cases h5 : (decide (r.rev ≤ c.timeout) && r.key != live) = true
        · rw [if_pos h5]
          simp only [Bool.and_eq_true, decide_eq_true_eq, bne_iff_ne, ne_eq] at h5
          exact .inr ⟨h1'.1, h1'.2, h2, .inr (.inr (.inr ⟨rfl, hr, h5.1, h5.2⟩))⟩
        · rw [if_neg h5]; exact .inl rfl
    · rw [if_neg h2]; exact .inl rfl

/-- with expiry on, `compactIfExpired` never just passes over the revision record of an event key -/
theorem expiry_idx_ne_no {c : WCfg} (hs : c.supportTTL = false) (hT : c.timeout ≠ 0) {r : Rec}
    (hev : isEventKey c r.key = true) (hr0 : r.rev = 0) (live : Bytes) : expiry c live r ≠ .no := by
  unfold expiry
  rw [if_neg (by simp [hs, hT]), if_pos hev, if_pos (by simp [hr0])]
  split
  · simp
  · split <;> simp

theorem runDeletes_nil' (mask : Nat → DelOutcome) (st : CompState) : runDeletes mask st [] = st := rfl

theorem runDeletes_cons' (mask : Nat → DelOutcome) (st : CompState) (a : Act) (l : List Act) :
    runDeletes mask st (a :: l) = runDeletes mask (runDelete mask st a) l := rfl

theorem runDeletes_append' (mask : Nat → DelOutcome) (st : CompState) (l1 l2 : List Act) :
    runDeletes mask st (l1 ++ l2) = runDeletes mask (runDeletes mask st l1) l2 := by
  simp [runDeletes, List.foldl_append]

theorem runDeletes_emitPrev' (mask : Nat → DelOutcome) (st : CompState) (p : Prev) :
    runDeletes mask st (emitPrev p) = st := by
  unfold emitPrev; split <;> rfl

/-- unfolding of one iteration, by the decision of `compactIfExpired` -/
theorem passLoop_cons (c : WCfg) (mask : Nat → DelOutcome) (p : Prev) (live : Bytes) (st : CompState)
    (r : Rec) (rs : List Rec) :
    passLoop c mask p live st (r :: rs) =
      match expiry c live r with
      | .panic => (.panic :: (passLoop c mask p live st rs).1, (passLoop c mask p live st rs).2)
      | .idx =>
        (.delcur r.ik r.val r.key ::
          (passLoop c mask p (if delcurErr mask st r.ik r.val r.key then r.key else live)
            (runDelete mask st (.delcur r.ik r.val r.key)) rs).1,
         (passLoop c mask p (if delcurErr mask st r.ik r.val r.key then r.key else live)
            (runDelete mask st (.delcur r.ik r.val r.key)) rs).2)
      | .ver =>
        (.del r.ik r.key :: (passLoop c mask p live (runDelete mask st (.del r.ik r.key)) rs).1,
         (passLoop c mask p live (runDelete mask st (.del r.ik r.key)) rs).2)
      | .noLive =>
        ((workerStep c p r).1 ++
          (passLoop c mask (workerStep c p r).2 r.key (runDeletes mask st (workerStep c p r).1) rs).1,
         (passLoop c mask (workerStep c p r).2 r.key (runDeletes mask st (workerStep c p r).1) rs).2)
      | .no =>
        ((workerStep c p r).1 ++
          (passLoop c mask (workerStep c p r).2 live (runDeletes mask st (workerStep c p r).1) rs).1,
         (passLoop c mask (workerStep c p r).2 live (runDeletes mask st (workerStep c p r).1) rs).2) := by
  rw [passLoop]
  cases expiry c live r <;> rfl

/-- the state after the loop is the execution of the actions it reports -/
theorem passLoop_run (c : WCfg) (mask : Nat → DelOutcome) (rs : List Rec) (p : Prev) (live : Bytes)
    (st : CompState) :
    (passLoop c mask p live st rs).2 = runDeletes mask st (passLoop c mask p live st rs).1 := by
  induction rs generalizing p live st with
  | nil => simp only [passLoop]; rw [runDeletes_emitPrev']
  | cons r rs ih =>
    rw [passLoop_cons]
    cases expiry c live r with
    | panic => simp only; rw [runDeletes_cons', ih]; rfl
    | idx => simp only; rw [runDeletes_cons', ih]
    | ver => simp only; rw [runDeletes_cons', ih]
    | noLive => simp only; rw [runDeletes_append', ih]
    | no => simp only; rw [runDeletes_append', ih]

/-- With expiry off the loop performs the actions of `workerLoop`, whatever it remembers. -/
theorem passLoop_expiry_off {c : WCfg} (hc : c.ExpiryOff) (mask : Nat → DelOutcome) (rs : List Rec) (p : Prev)
    (live : Bytes) (st : CompState) :
    passLoop c mask p live st rs = (workerLoop c p rs, runDeletes mask st (workerLoop c p rs)) := by
  induction rs generalizing p live st with
  | nil => simp only [passLoop, workerLoop]; rw [runDeletes_emitPrev']
  | cons r rs ih =>
    rw [passLoop_cons, expiry_off hc]
    simp only [workerLoop]
    rw [ih, runDeletes_append']

/-- … in particular one worker of a compaction without a timeout revision (or on an engine with native ttl) is
`runDeletes` over `workerActs`: what C07 / C07Race / C07Par are stated about. -/
theorem passRun_expiry_off {c : WCfg} (hc : c.ExpiryOff) (mask : Nat → DelOutcome) (st : CompState)
    (recs : List Rec) :
    passRun c mask st recs =
      (workerActs c recs, runDeletes mask { st with lastFailed := [] } (workerActs c recs)) :=
  passLoop_expiry_off hc mask recs {} [] _

end KB
