/- Helper lemmas about compaction (delete actions of the worker loop), used by C07. -/
import KB.Spec
import KB.Backend
import KB.Lemmas.Coder
namespace KB.Compact
open KB Generated

/-! ### sorted stores: `get` / `erase` -/

theorem Store.sorted_cons {k v : Bytes} {rest : Store} :
    Store.Sorted ((k, v) :: rest) ↔ (∀ kv ∈ rest, cmp k kv.1 = .lt) ∧ Store.Sorted rest := by
  induction rest generalizing k v with
  | nil => simp [Store.Sorted]
  | cons kv rest ih =>
    obtain ⟨k2, v2⟩ := kv
    simp only [Store.Sorted, List.mem_cons, forall_eq_or_imp]
    constructor
    · rintro ⟨h1, h2⟩
      refine ⟨⟨h1, ?_⟩, h2⟩
      intro kv hkv
      exact cmp_lt_trans h1 ((ih.1 h2).1 kv hkv)
    · rintro ⟨⟨h1, _⟩, h2⟩
      exact ⟨h1, h2⟩

theorem Store.get_none_of_lt {s : Store} {a : Bytes} (h : ∀ kv ∈ s, cmp a kv.1 = .lt) :
    s.get a = none := by
  cases s with
  | nil => rfl
  | cons kv rest =>
    obtain ⟨k, v⟩ := kv
    have := h (k, v) (by simp)
    simp only at this
    simp [Store.get, this]

theorem Store.mem_erase {s : Store} {a : Bytes} {kv : Bytes × Bytes} (h : kv ∈ s.erase a) : kv ∈ s := by
  induction s with
  | nil => simp [Store.erase] at h
  | cons x rest ih =>
    obtain ⟨k, v⟩ := x
    simp only [Store.erase] at h
    split at h
    · exact h
    · exact List.mem_cons_of_mem _ h
    · simp only [List.mem_cons] at h ⊢
      rcases h with h | h
      · exact .inl h
      · exact .inr (ih h)

theorem Store.sorted_erase {s : Store} (hs : Store.Sorted s) (a : Bytes) : Store.Sorted (s.erase a) := by
  induction s with
  | nil => simp [Store.erase, Store.Sorted]
  | cons x rest ih =>
    obtain ⟨k, v⟩ := x
    rw [Store.sorted_cons] at hs
    simp only [Store.erase]
    split
    · exact Store.sorted_cons.2 hs
    · exact hs.2
    · rw [Store.sorted_cons]
      exact ⟨fun kv hkv => hs.1 kv (Store.mem_erase hkv), ih hs.2⟩

theorem Store.get_erase {s : Store} (hs : Store.Sorted s) (a b : Bytes) :
    (s.erase a).get b = if b = a then none else s.get b := by
  induction s with
  | nil => simp [Store.erase, Store.get]
  | cons x rest ih =>
    obtain ⟨k, v⟩ := x
    rw [Store.sorted_cons] at hs
    simp only [Store.erase]
    cases hak : cmp a k with
    | lt =>
      simp only
      split
      · rename_i hba
        subst hba
        simp [Store.get, hak]
      · rfl
    | eq =>
      simp only
      have : a = k := cmp_eq_iff.1 hak
      subst this
      split
      · rename_i hba
        subst hba
        exact Store.get_none_of_lt hs.1
      · rename_i hba
        have hne : cmp b a ≠ .eq := fun h => hba (cmp_eq_iff.1 h)
        simp only [Store.get]
        cases hb : cmp b a with
        | lt =>
          simp only
          exact Store.get_none_of_lt (fun kv hkv => cmp_lt_trans hb (hs.1 kv hkv))
        | eq => exact absurd hb hne
        | gt => rfl
    | gt =>
      simp only [Store.get]
      by_cases hba : b = a
      · subst hba
        simp only [hak, if_true]
        rw [ih hs.2]; simp
      · simp only [hba, if_false]
        cases hb : cmp b k with
        | lt => rfl
        | eq => rfl
        | gt => simp only; rw [ih hs.2]; simp [hba]

/-! ### the encoded store of a sorted decoded store -/

theorem encode_lt_of_recLt {a b : Rec} (ha : Alphabet a.key ∧ a.rev < 2 ^ 64)
    (hb : Alphabet b.key ∧ b.rev < 2 ^ 64) (h : recLt a b) :
    cmp (encode a.key a.rev) (encode b.key b.rev) = .lt := by
  rw [encode_cmp ha.1 hb.1 ha.2 hb.2]
  rcases h with h | ⟨h1, h2⟩
  · have : a.key ≠ b.key := by
      intro e; rw [e, cmp_refl] at h; cases h
    simp [this, h]
  · simp [h1, Nat.compare_eq_lt, h2]

theorem encodeStore_sorted {recs : List Rec} (hs : SortedRecs recs)
    (hk : ∀ r ∈ recs, Alphabet r.key ∧ r.rev < 2 ^ 64) : Store.Sorted (encodeStore recs) := by
  induction recs with
  | nil => simp [encodeStore, Store.Sorted]
  | cons x rest ih =>
    have hs' := List.pairwise_cons.1 hs
    simp only [encodeStore, List.map_cons]
    rw [Store.sorted_cons]
    refine ⟨?_, ih hs'.2 (fun r hr => hk r (List.mem_cons_of_mem _ hr))⟩
    intro kv hkv
    simp only [List.mem_map] at hkv
    obtain ⟨y, hy, rfl⟩ := hkv
    exact encode_lt_of_recLt (hk x (by simp)) (hk y (List.mem_cons_of_mem _ hy)) (hs'.1 y hy)

theorem encodeStore_get {recs : List Rec} (hs : SortedRecs recs)
    (hk : ∀ r ∈ recs, Alphabet r.key ∧ r.rev < 2 ^ 64) {r : Rec} (hr : r ∈ recs) :
    (encodeStore recs).get (encode r.key r.rev) = some r.val := by
  induction recs with
  | nil => simp at hr
  | cons x rest ih =>
    have hs' := List.pairwise_cons.1 hs
    simp only [encodeStore, List.map_cons, Store.get]
    simp only [List.mem_cons] at hr
    rcases hr with rfl | hr
    · simp
    · have hlt := encode_lt_of_recLt (hk x (by simp)) (hk r (List.mem_cons_of_mem _ hr)) (hs'.1 r hr)
      have hgt : cmp (encode r.key r.rev) (encode x.key x.rev) = .gt := cmp_gt_iff.2 hlt
      simp only [hgt]
      exact ih hs'.2 (fun r hr => hk r (List.mem_cons_of_mem _ hr)) hr

theorem recs_unique {recs : List Rec} (hs : SortedRecs recs) {a b : Rec} (ha : a ∈ recs) (hb : b ∈ recs)
    (hkey : a.key = b.key) (hrev : a.rev = b.rev) : a = b := by
  have irr : ∀ {x y : Rec}, x.key = y.key → x.rev = y.rev → ¬ recLt x y := by
    intro x y h1 h2 h
    rcases h with h | ⟨_, h⟩
    · rw [h1, cmp_refl] at h; cases h
    · omega
  induction recs with
  | nil => simp at ha
  | cons x rest ih =>
    have hs' := List.pairwise_cons.1 hs
    simp only [List.mem_cons] at ha hb
    rcases ha with rfl | ha
    · rcases hb with rfl | hb
      · rfl
      · exact absurd (hs'.1 b hb) (irr hkey hrev)
    · rcases hb with rfl | hb
      · exact absurd (hs'.1 a ha) (irr hkey.symm hrev.symm)
      · exact ih hs'.2 ha hb

theorem isTomb_iff {v : Bytes} : isTomb v = true ↔ v = tombstone := by simp [isTomb]

theorem isTomb_length {v : Bytes} (h : isTomb v = true) : v.length = 9 := by
  rw [isTomb_iff] at h; subst h; decide

/-! ### `runDelete` / `runDeletes` -/

def actTarget : Act → Option Bytes
  | .del ik _ => some ik
  | .delcur ik _ _ => some ik
  | _ => none

theorem runDelete_store (mask : Nat → DelOutcome) (st : CompState) (a : Act) :
    (runDelete mask st a).store = st.store ∨
      ∃ ik, actTarget a = some ik ∧ (runDelete mask st a).store = st.store.erase ik := by
  cases a with
  | emit k v r => exact .inl rfl
  | panic => exact .inl rfl
  | expire ik v vers raw => exact .inl rfl
  | del ik raw =>
    simp only [runDelete]
    split
    · exact .inl rfl
    · split
      · exact .inr ⟨ik, rfl, rfl⟩
      · exact .inl rfl
      · exact .inl rfl
  | delcur ik v raw =>
    simp only [runDelete]
    split
    · exact .inl rfl
    · split
      · split
        · exact .inr ⟨ik, rfl, rfl⟩
        · exact .inl rfl
      · exact .inl rfl
      · exact .inl rfl

theorem runDeletes_nil (mask : Nat → DelOutcome) (st : CompState) : runDeletes mask st [] = st := rfl

theorem runDeletes_cons (mask : Nat → DelOutcome) (st : CompState) (a : Act) (l : List Act) :
    runDeletes mask st (a :: l) = runDeletes mask (runDelete mask st a) l := rfl

theorem runDeletes_singleton (mask : Nat → DelOutcome) (st : CompState) (a : Act) :
    runDeletes mask st [a] = runDelete mask st a := rfl

theorem runDeletes_append (mask : Nat → DelOutcome) (st : CompState) (l1 l2 : List Act) :
    runDeletes mask st (l1 ++ l2) = runDeletes mask (runDeletes mask st l1) l2 := by
  simp [runDeletes, List.foldl_append]

theorem runDeletes_sorted (mask : Nat → DelOutcome) (acts : List Act) (st : CompState)
    (h : Store.Sorted st.store) : Store.Sorted (runDeletes mask st acts).store := by
  induction acts generalizing st with
  | nil => exact h
  | cons a l ih =>
    rw [runDeletes_cons]
    apply ih
    rcases runDelete_store mask st a with e | ⟨ik, _, e⟩
    · rw [e]; exact h
    · rw [e]; exact Store.sorted_erase h ik

theorem runDeletes_get_none (mask : Nat → DelOutcome) (acts : List Act) (st : CompState)
    (h : Store.Sorted st.store) {b : Bytes} (hb : (runDeletes mask st acts).store.get b = none) :
    st.store.get b = none ∨ ∃ a ∈ acts, actTarget a = some b := by
  induction acts generalizing st with
  | nil => exact .inl hb
  | cons a l ih =>
    rw [runDeletes_cons] at hb
    rcases runDelete_store mask st a with e | ⟨ik, ht, e⟩
    · rcases ih (runDelete mask st a) (e ▸ h) hb with h1 | ⟨a', ha', ht'⟩
      · exact .inl (e ▸ h1)
      · exact .inr ⟨a', List.mem_cons_of_mem _ ha', ht'⟩
    · rcases ih (runDelete mask st a) (e ▸ Store.sorted_erase h ik) hb with h1 | ⟨a', ha', ht'⟩
      · rw [e, Store.get_erase h] at h1
        by_cases hbi : b = ik
        · subst hbi; exact .inr ⟨a, by simp, ht⟩
        · simp only [hbi, if_false] at h1; exact .inl h1
      · exact .inr ⟨a', List.mem_cons_of_mem _ ha', ht'⟩

/-! ### the ordinary rules of the worker loop (`workerStep`) under `compact := true` -/

/-- the compaction configuration of C07 -/
abbrev ccfg (R : Nat) : WCfg := { R := R, compact := true }

def cA1 (p : Prev) (r : Rec) : List Act :=
  if r.key != p.key then emitPrev p
  else if p.rev > 0 then [.del (encode p.key p.rev) p.key] else []

def cA2 (r : Rec) : List Act := if isTomb r.val then [.del r.ik r.key] else []

/-- the "continue without updating prev" condition -/
def idxAbove (R : Nat) (r : Rec) : Prop := r.rev = 0 ∧ r.val.length = 9 ∧ R < fromBE (r.val.take 8)

instance (R : Nat) (r : Rec) : Decidable (idxAbove R r) := by unfold idxAbove; infer_instance

def cA3 (R : Nat) (r : Rec) : List Act :=
  if r.rev = 0 ∧ r.val.length = 9 ∧ ¬ R < fromBE (r.val.take 8) then [.delcur r.ik r.val r.key] else []

theorem workerStep_skip {R : Nat} (p : Prev) {r : Rec} (h : R < r.rev) :
    workerStep (ccfg R) p r = ([], p) := by
  simp [workerStep, h]

theorem workerStep_fst {R : Nat} (p : Prev) {r : Rec} (h : ¬ R < r.rev) :
    (workerStep (ccfg R) p r).1 = cA1 p r ++ (cA2 r ++ cA3 R r) := by
  simp only [workerStep, gt_iff_lt, h, if_false, Bool.true_and,
    scannerRevisionValueLengthWithDeletionFlag, cA1, cA2, cA3, beq_iff_eq, Bool.and_eq_true]
  by_cases h1 : r.rev = 0 <;> by_cases h2 : r.val.length = 9 <;>
    by_cases h3 : R < fromBE (r.val.take 8) <;> simp [h1, h2, h3]

theorem workerStep_snd {R : Nat} (p : Prev) {r : Rec} (h : ¬ R < r.rev) :
    (workerStep (ccfg R) p r).2 = if idxAbove R r then p else ⟨r.key, r.rev, r.val⟩ := by
  simp only [workerStep, gt_iff_lt, h, if_false, Bool.true_and,
    scannerRevisionValueLengthWithDeletionFlag, idxAbove, beq_iff_eq, Bool.and_eq_true]
  by_cases h1 : r.rev = 0 <;> by_cases h2 : r.val.length = 9 <;>
    by_cases h3 : R < fromBE (r.val.take 8) <;> simp [h1, h2, h3]

theorem emitPrev_target {p : Prev} {a : Act} (h : a ∈ emitPrev p) : actTarget a = none := by
  unfold emitPrev at h
  split at h
  · simp at h; subst h; rfl
  · simp at h

theorem cA1_target {p : Prev} {r : Rec} {a : Act} {ik : Bytes} (h : a ∈ cA1 p r) (ht : actTarget a = some ik) :
    ik = encode p.key p.rev ∧ r.key = p.key ∧ 0 < p.rev := by
  unfold cA1 at h
  split at h
  · rw [emitPrev_target h] at ht; cases ht
  · rename_i hk
    split at h
    · rename_i hp
      simp at h; subst h
      simp only [actTarget, Option.some.injEq] at ht
      simp at hk
      exact ⟨ht.symm, hk, hp⟩
    · simp at h

theorem cA2_target {r : Rec} {a : Act} {ik : Bytes} (h : a ∈ cA2 r) (ht : actTarget a = some ik) :
    ik = r.ik ∧ isTomb r.val = true := by
  unfold cA2 at h
  split at h
  · rename_i hp
    simp at h; subst h
    simp only [actTarget, Option.some.injEq] at ht
    exact ⟨ht.symm, hp⟩
  · simp at h

theorem cA3_target {R : Nat} {r : Rec} {a : Act} {ik : Bytes} (h : a ∈ cA3 R r) (ht : actTarget a = some ik) :
    ik = r.ik ∧ r.rev = 0 ∧ r.val.length = 9 := by
  unfold cA3 at h
  split at h
  · rename_i hp
    simp at h; subst h
    simp only [actTarget, Option.some.injEq] at ht
    exact ⟨ht.symm, hp.1, hp.2.1⟩
  · simp at h

/-! ### which records a compaction pass can remove -/

/-- what may be removed: at or below `R`; an index record only with a 9-byte value; a version only
when it is a deletion marker or superseded by a newer version `≤ R` of the same key -/
def Deletable (R : Nat) (recs : List Rec) (d : Rec) : Prop :=
  d.rev ≤ R ∧ (d.rev = 0 → d.val.length = 9) ∧
    (0 < d.rev → isTomb d.val = true ∨ ∃ r' ∈ recs, r'.key = d.key ∧ d.rev < r'.rev ∧ r'.rev ≤ R)

/-- `prev` is strictly before every remaining record (as a version) -/
def PrevBefore (p : Prev) (rs : List Rec) : Prop :=
  ∀ x ∈ rs, cmp p.key x.key = .lt ∨ (p.key = x.key ∧ (0 < p.rev → p.rev < x.rev))

theorem prevBefore_init (rs : List Rec) : PrevBefore {} rs := by
  intro x _
  cases hx : x.key with
  | nil => exact .inr ⟨rfl, fun h => absurd h (by decide)⟩
  | cons a as => exact .inl rfl

theorem prevBefore_tail {p : Prev} {r : Rec} {rs : List Rec} (h : PrevBefore p (r :: rs)) :
    PrevBefore p rs := fun x hx => h x (List.mem_cons_of_mem _ hx)

theorem prevBefore_next {r : Rec} {rs : List Rec} (h : (r :: rs).Pairwise recLt) :
    PrevBefore ⟨r.key, r.rev, r.val⟩ rs := by
  intro x hx
  rcases (List.pairwise_cons.1 h).1 x hx with h1 | ⟨h1, h2⟩
  · exact .inl h1
  · exact .inr ⟨h1, fun _ => h2⟩

theorem prevBefore_step {R : Nat} {p : Prev} {r : Rec} {rs : List Rec} (hp : PrevBefore p (r :: rs))
    (h : (r :: rs).Pairwise recLt) : PrevBefore (workerStep (ccfg R) p r).2 rs := by
  by_cases hR : R < r.rev
  · rw [workerStep_skip p hR]; exact prevBefore_tail hp
  · rw [workerStep_snd p hR]
    split
    · exact prevBefore_tail hp
    · exact prevBefore_next h

theorem workerStep_rev_lt {R : Nat} {p : Prev} {r : Rec} (hp : p.rev < 2 ^ 64) (hr : r.rev < 2 ^ 64) :
    (workerStep (ccfg R) p r).2.rev < 2 ^ 64 := by
  by_cases hR : R < r.rev
  · rw [workerStep_skip p hR]; exact hp
  · rw [workerStep_snd p hR]
    split
    · exact hp
    · exact hr

theorem step_targets {recs : List Rec} (hs : SortedRecs recs) (hw : WellKeyed recs)
    (hk : ∀ r ∈ recs, Alphabet r.key ∧ r.rev < 2 ^ 64) (R : Nat) {p : Prev} {r : Rec} (hr : r ∈ recs)
    (hpr : cmp p.key r.key = .lt ∨ (p.key = r.key ∧ (0 < p.rev → p.rev < r.rev)))
    (hp64 : p.rev < 2 ^ 64) {a : Act} (ha : a ∈ (workerStep (ccfg R) p r).1) {ik : Bytes}
    (ht : actTarget a = some ik) {d : Rec} (hd : d ∈ recs) (hik : d.ik = ik) : Deletable R recs d := by
  by_cases hR : R < r.rev
  · rw [workerStep_skip p hR] at ha; simp at ha
  · rw [workerStep_fst p hR] at ha
    simp only [List.mem_append] at ha
    have hdk := hw d hd
    rcases ha with ha | ha | ha
    · obtain ⟨e, hkey, hpos⟩ := cA1_target ha ht
      rw [hik, e] at hdk
      obtain ⟨e1, e2⟩ := encode_inj hp64 (hk d hd).2 hdk
      have hlt : p.rev < r.rev := by
        rcases hpr with h | ⟨_, h⟩
        · rw [hkey, cmp_refl] at h; cases h
        · exact h hpos
      refine ⟨by omega, by omega, fun _ => .inr ⟨r, hr, ?_, by omega, by omega⟩⟩
      rw [hkey, e1]
    · obtain ⟨e, htomb⟩ := cA2_target ha ht
      rw [hik, e, hw r hr] at hdk
      obtain ⟨e1, e2⟩ := encode_inj (hk r hr).2 (hk d hd).2 hdk
      have : d = r := recs_unique hs hd hr e1.symm e2.symm
      subst this
      exact ⟨by omega, fun _ => isTomb_length htomb, fun _ => .inl htomb⟩
    · obtain ⟨e, h0, h9⟩ := cA3_target ha ht
      rw [hik, e, hw r hr] at hdk
      obtain ⟨e1, e2⟩ := encode_inj (hk r hr).2 (hk d hd).2 hdk
      have : d = r := recs_unique hs hd hr e1.symm e2.symm
      subst this
      exact ⟨by omega, fun _ => h9, fun h => by omega⟩

theorem workerLoop_targets {recs : List Rec} (hs : SortedRecs recs) (hw : WellKeyed recs)
    (hk : ∀ r ∈ recs, Alphabet r.key ∧ r.rev < 2 ^ 64) (R : Nat) (rs : List Rec) (p : Prev)
    (hsub : ∀ x ∈ rs, x ∈ recs) (hpw : rs.Pairwise recLt) (hp : PrevBefore p rs)
    (hp64 : p.rev < 2 ^ 64) {a : Act} (ha : a ∈ workerLoop (ccfg R) p rs) {ik : Bytes}
    (ht : actTarget a = some ik) {d : Rec} (hd : d ∈ recs) (hik : d.ik = ik) : Deletable R recs d := by
  induction rs generalizing p with
  | nil =>
    simp only [workerLoop] at ha
    rw [emitPrev_target ha] at ht; cases ht
  | cons r rs ih =>
    simp only [workerLoop, List.mem_append] at ha
    rcases ha with ha | ha
    · exact step_targets hs hw hk R (hsub r (by simp)) (hp r (by simp)) hp64 ha ht hd hik
    · exact ih _ (fun x hx => hsub x (List.mem_cons_of_mem _ hx)) (List.pairwise_cons.1 hpw).2
        (prevBefore_step hp hpw) (workerStep_rev_lt hp64 (hk r (hsub r (by simp))).2) ha

/-- Part A, first half: everything a compaction pass removes is `Deletable`. -/
theorem compact_deletable {recs : List Rec} (hs : SortedRecs recs) (hw : WellKeyed recs)
    (hk : ∀ r ∈ recs, Alphabet r.key ∧ r.rev < 2 ^ 64) (R : Nat) (mask : Nat → DelOutcome)
    {d : Rec} (hd : d ∈ recs)
    (hdel : (runDeletes mask { store := encodeStore recs } (workerActs (ccfg R) recs)).store.get d.ik = none) :
    Deletable R recs d := by
  rcases runDeletes_get_none mask _ _ (encodeStore_sorted hs hk) hdel with h | ⟨a, ha, ht⟩
  · simp only at h
    rw [hw d hd, encodeStore_get hs hk hd] at h; cases h
  · exact workerLoop_targets hs hw hk R recs {} (fun _ h => h) hs (prevBefore_init _) (by decide) ha ht hd rfl

/-! ### Part B: removing a well-behaved set of records does not change reads at `R' ≥ R` -/

def visPred (R : Nat) (k : Bytes) (r : Rec) : Bool :=
  r.key == k && decide (0 < r.rev) && decide (r.rev ≤ R)

theorem visPred_iff {R : Nat} {k : Bytes} {r : Rec} :
    visPred R k r = true ↔ r.key = k ∧ 0 < r.rev ∧ r.rev ≤ R := by
  simp [visPred, and_assoc]

theorem visible_eq (R : Nat) (recs : List Rec) (k : Bytes) :
    visible R recs k = (recs.filter (visPred R k)).getLast? := rfl

theorem visible_filter (R : Nat) (recs : List Rec) (k : Bytes) (keep : Rec → Bool) :
    visible R (recs.filter keep) k = ((recs.filter (visPred R k)).filter keep).getLast? := by
  rw [visible_eq, List.filter_filter, List.filter_filter]
  congr 1
  apply List.filter_congr
  intro x _
  exact Bool.and_comm _ _

theorem readAt_filter {recs : List Rec} (hs : SortedRecs recs) (keep : Rec → Bool) (R R' : Nat)
    (hR : R ≤ R')
    (h12 : ∀ d ∈ recs, keep d = false → Deletable R recs d)
    (h3 : ∀ t ∈ recs, keep t = false → isTomb t.val = true → 0 < t.rev →
      ∀ w ∈ recs, w.key = t.key → 0 < w.rev → w.rev < t.rev → keep w = false)
    (k : Bytes) : readAt R' (recs.filter keep) k = readAt R' recs k := by
  unfold readAt
  rw [visible_filter, visible_eq]
  have hF : (recs.filter (visPred R' k)).Pairwise recLt := List.Pairwise.sublist List.filter_sublist hs
  have hmem : ∀ x ∈ recs.filter (visPred R' k), x ∈ recs ∧ x.key = k ∧ 0 < x.rev ∧ x.rev ≤ R' := by
    intro x hx
    rw [List.mem_filter, visPred_iff] at hx
    exact hx
  rcases List.eq_nil_or_concat (recs.filter (visPred R' k)) with h | ⟨init, n, h⟩
  · rw [h]; rfl
  · rw [List.concat_eq_append] at h
    rw [h] at hF hmem
    rw [h, List.filter_append, List.getLast?_concat]
    obtain ⟨hn, hnk, hn0, hnR⟩ := hmem n (by simp)
    have hinit : ∀ x ∈ init, x ∈ recs ∧ x.key = n.key ∧ 0 < x.rev ∧ x.rev < n.rev := by
      intro x hx
      obtain ⟨hx1, hx2, hx3, _⟩ := hmem x (by simp [hx])
      refine ⟨hx1, hx2.trans hnk.symm, hx3, ?_⟩
      rcases (List.pairwise_append.1 hF).2.2 x hx n (by simp) with hc | ⟨_, hc⟩
      · rw [hx2, hnk, cmp_refl] at hc; cases hc
      · exact hc
    cases hkn : keep n with
    | true =>
      simp [hkn]
    | false =>
      simp only [List.filter_cons, hkn, Bool.false_eq_true, if_false, List.filter_nil, List.append_nil]
      obtain ⟨hnle, _, hpos⟩ := h12 n hn hkn
      have htomb : isTomb n.val = true := by
        rcases hpos hn0 with ht | ⟨r', hr', hkey, hlt, hle⟩
        · exact ht
        · exfalso
          have hr'F : r' ∈ init ++ [n] := by
            rw [← h, List.mem_filter, visPred_iff]
            exact ⟨hr', hkey.trans hnk, by omega, by omega⟩
          simp only [List.mem_append, List.mem_singleton] at hr'F
          rcases hr'F with hi | rfl
          · have := (hinit r' hi).2.2.2; omega
          · omega
      have hnil : init.filter keep = [] := by
        rw [List.filter_eq_nil_iff]
        intro x hx
        obtain ⟨hx1, hx2, hx3, hx4⟩ := hinit x hx
        simp [h3 n hn hkn htomb hn0 x hx1 hx2 hx3 hx4]
      rw [hnil]
      simp [htomb]

/-! ### Part A, second half: removed deletion markers leave no older version behind -/

/-- every version of `k` older than `n` is gone from `s` -/
def Closed (recs : List Rec) (s : Store) (k : Bytes) (n : Nat) : Prop :=
  ∀ w ∈ recs, w.key = k → 0 < w.rev → w.rev < n → s.get w.ik = none

/-- a removed deletion marker has no older version left -/
def TombClosed (recs : List Rec) (s : Store) : Prop :=
  ∀ t ∈ recs, s.get t.ik = none → isTomb t.val = true → 0 < t.rev → Closed recs s t.key t.rev

/-- raw key `k` is being skipped, or all its versions older than `n` are gone -/
def Good (recs : List Rec) (st : CompState) (k : Bytes) (n : Nat) : Prop :=
  st.lastFailed = k ∨ Closed recs st.store k n

theorem closed_zero (recs : List Rec) (s : Store) (k : Bytes) : Closed recs s k 0 :=
  fun _ _ _ _ h => absurd h (Nat.not_lt_zero _)

theorem closed_erase {recs : List Rec} {s : Store} (hs : Store.Sorted s) {k : Bytes} {n : Nat}
    (h : Closed recs s k n) (ik : Bytes) : Closed recs (s.erase ik) k n := by
  intro w hw hk h0 hn
  rw [Store.get_erase hs]
  split
  · rfl
  · exact h w hw hk h0 hn

theorem tombClosed_erase {recs : List Rec} {s : Store} (hs : Store.Sorted s) (hT : TombClosed recs s)
    {ik : Bytes}
    (hik : ∀ t ∈ recs, t.ik = ik → isTomb t.val = true → 0 < t.rev → Closed recs s t.key t.rev) :
    TombClosed recs (s.erase ik) := by
  intro t ht hget htomb hpos
  apply closed_erase hs
  rw [Store.get_erase hs] at hget
  by_cases h : t.ik = ik
  · exact hik t ht h htomb hpos
  · simp only [h, if_false] at hget
    exact hT t ht hget htomb hpos

theorem runDelete_del_cases (mask : Nat → DelOutcome) (st : CompState)
    (ik : Bytes) {raw : Bytes} (hraw : raw ≠ []) :
    (st.lastFailed = raw ∧ runDelete mask st (.del ik raw) = st) ∨
    (st.lastFailed ≠ raw ∧ (runDelete mask st (.del ik raw)).lastFailed = st.lastFailed ∧
        (runDelete mask st (.del ik raw)).store = st.store.erase ik) ∨
    ((runDelete mask st (.del ik raw)).lastFailed = raw ∧
        (runDelete mask st (.del ik raw)).store = st.store) := by
  by_cases h : st.lastFailed = raw
  · left
    refine ⟨h, ?_⟩
    have hl : raw.length > 0 := List.length_pos_iff.2 hraw
    simp [runDelete, h, hl]
  · right
    have hc : (decide (st.lastFailed.length > 0) && st.lastFailed == raw) = false := by simp [h]
    simp only [runDelete, hc]
    cases hmc : mask st.calls with
    | ok => exact .inl ⟨h, rfl, rfl⟩
    | fail => exact .inr ⟨rfl, rfl⟩
    | failCas => exact .inr ⟨rfl, rfl⟩

theorem good_del_step {recs : List Rec} {mask : Nat → DelOutcome}
    {st : CompState} {k : Bytes} (hk : k ≠ []) (hsorted : Store.Sorted st.store)
    (hT : TombClosed recs st.store) {n : Nat} (hG : Good recs st k n) {ik : Bytes}
    (hik : ∀ t ∈ recs, t.ik = ik ↔ (t.key = k ∧ t.rev = n)) {m : Nat}
    (hmn : ∀ w ∈ recs, w.key = k → 0 < w.rev → w.rev < m → w.rev ≤ n) :
    Store.Sorted (runDelete mask st (.del ik k)).store ∧
    TombClosed recs (runDelete mask st (.del ik k)).store ∧
    Good recs (runDelete mask st (.del ik k)) k m := by
  rcases runDelete_del_cases mask st ik hk with ⟨h1, h2⟩ | ⟨h1, h2, h3⟩ | ⟨h1, h2⟩
  · rw [h2]; exact ⟨hsorted, hT, .inl h1⟩
  · have hC : Closed recs st.store k n := by
      rcases hG with h | h
      · exact absurd h h1
      · exact h
    rw [h3]
    refine ⟨Store.sorted_erase hsorted ik, ?_, .inr ?_⟩
    · apply tombClosed_erase hsorted hT
      intro t ht hti _ _
      obtain ⟨e1, e2⟩ := (hik t ht).1 hti
      rw [e1, e2]; exact hC
    · intro w hw hwk h0 hlt
      rw [h3, Store.get_erase hsorted]
      by_cases hwi : w.ik = ik
      · simp [hwi]
      · simp only [hwi, if_false]
        have hle := hmn w hw hwk h0 hlt
        have hne : w.rev ≠ n := fun e => hwi ((hik w hw).2 ⟨hwk, e⟩)
        exact hC w hw hwk h0 (by omega)
  · rw [h2]; exact ⟨hsorted, hT, .inl h1⟩

theorem runDeletes_emitPrev (mask : Nat → DelOutcome) (st : CompState) (p : Prev) :
    runDeletes mask st (emitPrev p) = st := by
  unfold emitPrev; split <;> rfl

theorem ik_iff {recs : List Rec} (hw : WellKeyed recs)
    (hk : ∀ r ∈ recs, Alphabet r.key ∧ r.rev < 2 ^ 64) {k : Bytes} {n : Nat} (hn : n < 2 ^ 64) :
    ∀ t ∈ recs, t.ik = encode k n ↔ (t.key = k ∧ t.rev = n) := by
  intro t ht
  rw [hw t ht]
  constructor
  · exact encode_inj (hk t ht).2 hn
  · rintro ⟨rfl, rfl⟩; rfl

/-- `prev` dominates every processed version `≤ R` -/
def PrevDom (R : Nat) (p : Prev) (done : List Rec) : Prop :=
  ∀ w ∈ done, 0 < w.rev → w.rev ≤ R → cmp w.key p.key = .lt ∨ (w.key = p.key ∧ w.rev ≤ p.rev)

theorem older_le_prev {recs done rs : List Rec} {r : Rec} (hs : SortedRecs recs)
    (hsplit : recs = done ++ r :: rs) {R : Nat} {p : Prev} (hpb : PrevBefore p (r :: rs))
    (hpd : PrevDom R p done) (hrR : r.rev ≤ R) {w : Rec} (hw : w ∈ recs) (hwk : w.key = r.key)
    (h0 : 0 < w.rev) (hlt : w.rev < r.rev) : w.key = p.key ∧ w.rev ≤ p.rev := by
  have hirr : ∀ k : Bytes, cmp k k ≠ .lt := by intro k; rw [cmp_refl]; decide
  rw [hsplit] at hs hw
  have hpw := List.pairwise_append.1 hs
  have hwd : w ∈ done := by
    rcases List.mem_append.1 hw with h | h
    · exact h
    · exfalso
      rcases List.mem_cons.1 h with rfl | h
      · omega
      · rcases (List.pairwise_cons.1 hpw.2.1).1 w h with hc | ⟨_, hc⟩
        · rw [hwk] at hc; exact hirr _ hc
        · omega
  rcases hpd w hwd h0 (by omega) with hc | hc
  · exfalso
    rw [hwk] at hc
    rcases hpb r (by simp) with h | ⟨h, _⟩
    · exact hirr _ (cmp_lt_trans hc h)
    · rw [h] at hc; exact hirr _ hc
  · exact hc

theorem prevDom_step {recs done rs : List Rec} {r : Rec} (hs : SortedRecs recs)
    (hsplit : recs = done ++ r :: rs) {R : Nat} {p : Prev} (hpd : PrevDom R p done) :
    PrevDom R (workerStep (ccfg R) p r).2 (done ++ [r]) := by
  rw [hsplit] at hs
  have hpw := List.pairwise_append.1 hs
  by_cases hR : R < r.rev
  · rw [workerStep_skip p hR]
    intro w hw h0 hle
    rcases List.mem_append.1 hw with h | h
    · exact hpd w h h0 hle
    · simp only [List.mem_singleton] at h; subst h; omega
  · rw [workerStep_snd p hR]
    split
    · rename_i hidx
      intro w hw h0 hle
      rcases List.mem_append.1 hw with h | h
      · exact hpd w h h0 hle
      · simp only [List.mem_singleton] at h; subst h
        have := hidx.1; omega
    · intro w hw h0 hle
      rcases List.mem_append.1 hw with h | h
      · rcases hpw.2.2 w h r (by simp) with hc | ⟨h1, h2⟩
        · exact .inl hc
        · exact .inr ⟨h1, by simp only; omega⟩
      · simp only [List.mem_singleton] at h; subst h
        exact .inr ⟨rfl, Nat.le_refl _⟩

/-- the loop invariant on the execution state -/
def CInv (recs : List Rec) (p : Prev) (st : CompState) (rs : List Rec) : Prop :=
  Store.Sorted st.store ∧ TombClosed recs st.store ∧
    ((∃ x ∈ rs, x.key = p.key) → Good recs st p.key p.rev)

section loop
variable {recs : List Rec} {mask : Nat → DelOutcome}

theorem phase1 (hs : SortedRecs recs) (hw : WellKeyed recs)
    (hk : ∀ r ∈ recs, Alphabet r.key ∧ r.rev < 2 ^ 64) (hne : ∀ r ∈ recs, r.key ≠ [])
    {done rs : List Rec} {r : Rec} (hsplit : recs = done ++ r :: rs) {R : Nat} {p : Prev}
    (hpb : PrevBefore p (r :: rs)) (hpd : PrevDom R p done) (hp64 : p.rev < 2 ^ 64) (hrR : r.rev ≤ R)
    {st : CompState} (hI : CInv recs p st (r :: rs)) :
    Store.Sorted (runDeletes mask st (cA1 p r)).store ∧
    TombClosed recs (runDeletes mask st (cA1 p r)).store ∧
    Good recs (runDeletes mask st (cA1 p r)) r.key r.rev := by
  have hr : r ∈ recs := by rw [hsplit]; simp
  have hold : ∀ w ∈ recs, w.key = r.key → 0 < w.rev → w.rev < r.rev → w.key = p.key ∧ w.rev ≤ p.rev :=
    fun w hw hwk h0 hlt => older_le_prev hs hsplit hpb hpd hrR hw hwk h0 hlt
  unfold cA1
  split
  · rename_i hkey
    rw [runDeletes_emitPrev]
    refine ⟨hI.1, hI.2.1, .inr ?_⟩
    intro w hw hwk h0 hlt
    exfalso
    have := (hold w hw hwk h0 hlt).1
    rw [hwk] at this
    simp [this] at hkey
  · rename_i hkey
    have hkey : r.key = p.key := by simpa using hkey
    split
    · rename_i hpos
      have hG := hI.2.2 ⟨r, by simp, hkey⟩
      have hpk : p.key ≠ [] := hkey ▸ hne r hr
      rw [runDeletes_singleton]
      rw [hkey]
      exact good_del_step hpk hI.1 hI.2.1 hG (ik_iff hw hk hp64)
        (fun w hw hwk h0 hlt => (hold w hw (hwk.trans hkey.symm) h0 hlt).2)
    · rename_i hpos
      refine ⟨hI.1, hI.2.1, .inr ?_⟩
      intro w hw hwk h0 hlt
      have := (hold w hw hwk h0 hlt).2
      omega

theorem phase2 (hw : WellKeyed recs)
    (hk : ∀ r ∈ recs, Alphabet r.key ∧ r.rev < 2 ^ 64) (hne : ∀ r ∈ recs, r.key ≠ [])
    {r : Rec} (hr : r ∈ recs) {st : CompState}
    (h : Store.Sorted st.store ∧ TombClosed recs st.store ∧ Good recs st r.key r.rev) :
    Store.Sorted (runDeletes mask st (cA2 r)).store ∧
    TombClosed recs (runDeletes mask st (cA2 r)).store ∧
    Good recs (runDeletes mask st (cA2 r)) r.key r.rev := by
  unfold cA2
  split
  · rw [runDeletes_singleton]
    rw [hw r hr]
    exact good_del_step (hne r hr) h.1 h.2.1 h.2.2 (ik_iff hw hk (hk r hr).2)
      (fun w _ _ _ hlt => Nat.le_of_lt hlt)
  · exact h

theorem phase3 (hw : WellKeyed recs)
    (hk : ∀ r ∈ recs, Alphabet r.key ∧ r.rev < 2 ^ 64) (R : Nat)
    {r : Rec} (hr : r ∈ recs) {st : CompState}
    (h : Store.Sorted st.store ∧ TombClosed recs st.store ∧ Good recs st r.key r.rev) :
    Store.Sorted (runDeletes mask st (cA3 R r)).store ∧
    TombClosed recs (runDeletes mask st (cA3 R r)).store ∧
    Good recs (runDeletes mask st (cA3 R r)) r.key r.rev := by
  unfold cA3
  split
  · rename_i hc
    rw [runDeletes_singleton]
    have hG : Good recs (runDelete mask st (.delcur r.ik r.val r.key)) r.key r.rev := by
      rw [hc.1]; exact .inr (closed_zero _ _ _)
    rcases runDelete_store mask st (.delcur r.ik r.val r.key) with e | ⟨ik, ht, e⟩
    · rw [e]; exact ⟨h.1, h.2.1, hG⟩
    · simp only [actTarget, Option.some.injEq] at ht
      subst ht
      rw [e]
      refine ⟨Store.sorted_erase h.1 _, ?_, hG⟩
      apply tombClosed_erase h.1 h.2.1
      intro t ht hti _ hpos
      rw [hw r hr] at hti
      have := ((ik_iff hw hk (hk r hr).2) t ht).1 hti
      omega
  · exact h

theorem cinv_step (hs : SortedRecs recs) (hw : WellKeyed recs)
    (hk : ∀ r ∈ recs, Alphabet r.key ∧ r.rev < 2 ^ 64) (hne : ∀ r ∈ recs, r.key ≠ [])
    {done rs : List Rec} {r : Rec} (hsplit : recs = done ++ r :: rs) {R : Nat} {p : Prev}
    (hpb : PrevBefore p (r :: rs)) (hpd : PrevDom R p done) (hp64 : p.rev < 2 ^ 64)
    {st : CompState} (hI : CInv recs p st (r :: rs)) :
    CInv recs (workerStep (ccfg R) p r).2 (runDeletes mask st (workerStep (ccfg R) p r).1) rs := by
  have hr : r ∈ recs := by rw [hsplit]; simp
  by_cases hR : R < r.rev
  · rw [workerStep_skip p hR]
    exact ⟨hI.1, hI.2.1, fun ⟨x, hx, hxk⟩ => hI.2.2 ⟨x, List.mem_cons_of_mem _ hx, hxk⟩⟩
  · rw [workerStep_fst p hR, workerStep_snd p hR, runDeletes_append, runDeletes_append]
    have h3 := phase3 (mask := mask) hw hk R hr (phase2 (mask := mask) hw hk hne hr
      (phase1 (mask := mask) hs hw hk hne hsplit hpb hpd hp64 (Nat.le_of_not_lt hR) hI))
    refine ⟨h3.1, h3.2.1, ?_⟩
    split
    · rename_i hidx
      rintro ⟨x, hx, hxk⟩
      rcases hpb r (by simp) with hc | ⟨hkey, hrev⟩
      · exfalso
        have hirr : ∀ k : Bytes, cmp k k ≠ .lt := by intro k; rw [cmp_refl]; decide
        have hpw : (r :: rs).Pairwise recLt := by
          rw [hsplit] at hs; exact (List.pairwise_append.1 hs).2.1
        rcases (List.pairwise_cons.1 hpw).1 x hx with h | ⟨h, _⟩
        · rw [hxk] at h; exact hirr _ (cmp_lt_trans hc h)
        · rw [h, hxk] at hc; exact hirr _ hc
      · have hp0 : p.rev = 0 := by
          rcases Nat.eq_zero_or_pos p.rev with h | h
          · exact h
          · have := hrev h; have := hidx.1; omega
        rw [hp0]; exact .inr (closed_zero _ _ _)
    · intro _; exact h3.2.2

theorem loop_tombClosed (hs : SortedRecs recs) (hw : WellKeyed recs)
    (hk : ∀ r ∈ recs, Alphabet r.key ∧ r.rev < 2 ^ 64) (hne : ∀ r ∈ recs, r.key ≠ []) (R : Nat)
    (rs done : List Rec) (p : Prev) (st : CompState) (hsplit : recs = done ++ rs)
    (hpb : PrevBefore p rs) (hpd : PrevDom R p done) (hp64 : p.rev < 2 ^ 64)
    (hI : CInv recs p st rs) :
    TombClosed recs (runDeletes mask st (workerLoop (ccfg R) p rs)).store := by
  induction rs generalizing done p st with
  | nil =>
    simp only [workerLoop]
    rw [runDeletes_emitPrev]; exact hI.2.1
  | cons r rs ih =>
    simp only [workerLoop]
    rw [runDeletes_append]
    have hr : r ∈ recs := by rw [hsplit]; simp
    have hpw : (r :: rs).Pairwise recLt := by
      rw [hsplit] at hs; exact (List.pairwise_append.1 hs).2.1
    exact ih (done ++ [r]) _ _ (by rw [hsplit]; simp) (prevBefore_step hpb hpw)
      (prevDom_step hs hsplit hpd) (workerStep_rev_lt hp64 (hk r hr).2)
      (cinv_step hs hw hk hne hsplit hpb hpd hp64 hI)

end loop

/-- Part A, second half: when a deletion marker is removed, every older version of its key is
removed too, under EVERY failure mask — a failed plain delete remembers its raw key whatever the error
class (needs: no empty raw key). -/
theorem compact_tombClosed {recs : List Rec} (hs : SortedRecs recs) (hw : WellKeyed recs)
    (hk : ∀ r ∈ recs, Alphabet r.key ∧ r.rev < 2 ^ 64) (hne : ∀ r ∈ recs, r.key ≠ [])
    (R : Nat) (mask : Nat → DelOutcome) :
    TombClosed recs
      (runDeletes mask { store := encodeStore recs } (workerActs (ccfg R) recs)).store := by
  apply loop_tombClosed hs hw hk hne R recs [] {} _ rfl (prevBefore_init _)
    (fun _ h => by simp at h) (by decide)
  refine ⟨encodeStore_sorted hs hk, ?_, fun _ => .inr (closed_zero _ _ _)⟩
  intro t ht hget
  simp only at hget
  rw [hw t ht, encodeStore_get hs hk ht] at hget; cases hget

/-! ### the plain scan (`compact := false`) of a sorted store, as a filter -/

theorem emitsOf_append (a b : List Act) : emitsOf (a ++ b) = emitsOf a ++ emitsOf b := by
  induction a with
  | nil => rfl
  | cons x xs ih => cases x <;> simp [emitsOf, ih]

theorem emitsOf_emitPrev (p : Prev) :
    emitsOf (emitPrev p) = if 0 < p.rev ∧ isTomb p.val = false then [(p.key, p.val, p.rev)] else [] := by
  unfold emitPrev
  by_cases h1 : 0 < p.rev <;> cases h2 : isTomb p.val <;> simp [h1, emitsOf]

theorem workerStep_scan (R : Nat) (p : Prev) (r : Rec) :
    workerStep { R := R } p r =
      if R < r.rev then ([], p)
      else (if r.key != p.key then emitPrev p else [], ⟨r.key, r.rev, r.val⟩) := by
  simp [workerStep]

/-- `r` is an emittable newest version `≤ R` of its key within `rs` -/
def Top (R : Nat) (rs : List Rec) (r : Rec) : Prop :=
  r.rev ≤ R ∧ 0 < r.rev ∧ isTomb r.val = false ∧ ∀ x ∈ rs, x.rev ≤ R → x.key = r.key → x.rev ≤ r.rev

instance (R : Nat) (rs : List Rec) (r : Rec) : Decidable (Top R rs r) := by unfold Top; infer_instance

def triple (r : Rec) : Bytes × Bytes × Nat := (r.key, r.val, r.rev)

theorem top_cons_iff {R : Nat} {r0 r : Rec} {rs : List Rec} (h : recLt r0 r) :
    Top R (r0 :: rs) r ↔ Top R rs r := by
  unfold Top
  simp only [List.mem_cons, forall_eq_or_imp]
  constructor
  · rintro ⟨h1, h2, h3, _, h4⟩; exact ⟨h1, h2, h3, h4⟩
  · rintro ⟨h1, h2, h3, h4⟩
    refine ⟨h1, h2, h3, ?_, h4⟩
    intro _ hk
    rcases h with hc | ⟨_, hc⟩
    · rw [hk, cmp_refl] at hc; cases hc
    · omega

theorem scan_loop (R : Nat) (rs : List Rec) (p : Prev) (hpw : rs.Pairwise recLt)
    (hpb : ∀ x ∈ rs, cmp p.key x.key = .lt ∨ p.key = x.key) :
    emitsOf (workerLoop { R := R } p rs) =
      (if (0 < p.rev ∧ isTomb p.val = false) ∧ (∀ x ∈ rs, x.rev ≤ R → x.key ≠ p.key)
        then [(p.key, p.val, p.rev)] else []) ++
      (rs.filter (fun r => decide (Top R rs r))).map triple := by
  have hirr : ∀ k : Bytes, cmp k k ≠ .lt := by intro k; rw [cmp_refl]; decide
  induction rs generalizing p with
  | nil => simp [workerLoop, emitsOf_emitPrev]
  | cons r0 rs ih =>
    have hpw' := List.pairwise_cons.1 hpw
    have hfilter : (r0 :: rs).filter (fun r => decide (Top R (r0 :: rs) r)) =
        (if Top R (r0 :: rs) r0 then [r0] else []) ++ rs.filter (fun r => decide (Top R rs r)) := by
      have : rs.filter (fun r => decide (Top R (r0 :: rs) r)) = rs.filter (fun r => decide (Top R rs r)) := by
        apply List.filter_congr
        intro x hx
        exact decide_eq_decide.2 (top_cons_iff (hpw'.1 x hx))
      rw [List.filter_cons, this]
      by_cases h : Top R (r0 :: rs) r0 <;> simp [h]
    simp only [workerLoop]
    rw [workerStep_scan]
    by_cases hR : R < r0.rev
    · simp only [hR, if_true, List.nil_append]
      rw [ih p hpw'.2 (fun x hx => hpb x (List.mem_cons_of_mem _ hx)), hfilter]
      have h0 : ¬ Top R (r0 :: rs) r0 := fun h => by have := h.1; omega
      have hall : (∀ x ∈ r0 :: rs, x.rev ≤ R → x.key ≠ p.key) ↔ (∀ x ∈ rs, x.rev ≤ R → x.key ≠ p.key) := by
        simp only [List.mem_cons, forall_eq_or_imp]
        exact ⟨fun h => h.2, fun h => ⟨fun h' => by omega, h⟩⟩
      simp only [h0, if_false, List.nil_append, hall]
    · simp only [hR, if_false]
      have hpb' : ∀ x ∈ rs, cmp r0.key x.key = .lt ∨ r0.key = x.key := by
        intro x hx
        rcases hpw'.1 x hx with h | ⟨h, _⟩
        · exact .inl h
        · exact .inr h
      rw [emitsOf_append, ih ⟨r0.key, r0.rev, r0.val⟩ hpw'.2 hpb', hfilter, List.map_append,
        ← List.append_assoc, ← List.append_assoc]
      congr 1
      have hall : (∀ x ∈ r0 :: rs, x.rev ≤ R → x.key ≠ p.key) ↔ r0.key ≠ p.key := by
        simp only [List.mem_cons, forall_eq_or_imp]
        constructor
        · exact fun h => h.1 (by omega)
        · intro hne
          refine ⟨fun _ => hne, ?_⟩
          intro x hx _ hxk
          have hlt : cmp p.key r0.key = .lt := by
            rcases hpb r0 (by simp) with h | h
            · exact h
            · exact absurd h.symm hne
          rcases hpb' x hx with h | h
          · rw [hxk] at h; exact hirr _ (cmp_lt_trans hlt h)
          · rw [h, hxk] at hlt; exact hirr _ hlt
      have htop : Top R (r0 :: rs) r0 ↔
          (0 < r0.rev ∧ isTomb r0.val = false) ∧ ∀ x ∈ rs, x.rev ≤ R → x.key ≠ r0.key := by
        unfold Top
        simp only [List.mem_cons, forall_eq_or_imp]
        constructor
        · rintro ⟨_, h2, h3, _, h4⟩
          refine ⟨⟨h2, h3⟩, ?_⟩
          intro x hx hxR hxk
          have := h4 x hx hxR hxk
          rcases hpw'.1 x hx with hc | ⟨_, hc⟩
          · rw [hxk] at hc; exact hirr _ hc
          · omega
        · rintro ⟨⟨h2, h3⟩, h4⟩
          exact ⟨by omega, h2, h3, fun _ _ => Nat.le_refl _, fun x hx hxR hxk => absurd hxk (h4 x hx hxR)⟩
      congr 1
      · simp only [hall]
        by_cases hne : r0.key = p.key
        · simp [hne, emitsOf]
        · simp [hne, emitsOf_emitPrev]
      · by_cases ht : Top R (r0 :: rs) r0
        · have h' := htop.1 ht
          simp only [ht, if_true, List.map_cons, List.map_nil, triple]
          rw [if_pos h']
        · have := mt htop.2 ht
          simp [ht, this]

theorem scanRecs_eq_filter {recs : List Rec} (hs : SortedRecs recs) (R : Nat) :
    scanRecs R recs = (recs.filter (fun r => decide (Top R recs r))).map triple := by
  unfold scanRecs workerActs
  rw [scan_loop R recs {} hs (fun x _ => by
    cases hx : x.key with
    | nil => exact .inr rfl
    | cons a as => exact .inl rfl)]
  have : ¬ ((0 < ({} : Prev).rev ∧ isTomb ({} : Prev).val = false) ∧
      ∀ x ∈ recs, x.rev ≤ R → x.key ≠ ({} : Prev).key) := fun h => absurd h.1.1 (by decide)
  rw [if_neg this, List.nil_append]

theorem readAt_some {R : Nat} {l : List Rec} {k v : Bytes} {n : Nat} (h : readAt R l k = some (v, n)) :
    ∃ x ∈ l, x.key = k ∧ x.val = v ∧ x.rev = n ∧ 0 < x.rev ∧ x.rev ≤ R ∧ isTomb x.val = false ∧
      ∃ ys, l.filter (visPred R k) = ys ++ [x] := by
  unfold readAt at h
  rw [visible_eq] at h
  cases hF : (l.filter (visPred R k)).getLast? with
  | none => rw [hF] at h; cases h
  | some x =>
    rw [hF] at h
    simp only at h
    have hx := List.mem_of_getLast? hF
    rw [List.mem_filter, visPred_iff] at hx
    cases ht : isTomb x.val with
    | true => simp [ht] at h
    | false =>
      simp only [ht, Bool.false_eq_true, if_false, Option.some.injEq, Prod.mk.injEq] at h
      exact ⟨x, hx.1, hx.2.1, h.1, h.2, hx.2.2.1, hx.2.2.2, ht, List.getLast?_eq_some_iff.1 hF⟩

theorem top_iff_readAt {recs : List Rec} (hs : SortedRecs recs) (R : Nat) {r : Rec} (hr : r ∈ recs) :
    Top R recs r ↔ readAt R recs r.key = some (r.val, r.rev) := by
  have hirr : ∀ k : Bytes, cmp k k ≠ .lt := by intro k; rw [cmp_refl]; decide
  have hF : (recs.filter (visPred R r.key)).Pairwise recLt := List.Pairwise.sublist List.filter_sublist hs
  constructor
  · rintro ⟨h1, h2, h3, h4⟩
    have hrF : r ∈ recs.filter (visPred R r.key) := by
      rw [List.mem_filter, visPred_iff]; exact ⟨hr, rfl, h2, h1⟩
    rcases List.eq_nil_or_concat (recs.filter (visPred R r.key)) with h | ⟨init, n, h⟩
    · rw [h] at hrF; simp at hrF
    · rw [List.concat_eq_append] at h
      have hn : n ∈ recs.filter (visPred R r.key) := by rw [h]; simp
      rw [List.mem_filter, visPred_iff] at hn
      have hle := h4 n hn.1 hn.2.2.2 hn.2.1
      rw [h] at hrF hF
      have : r = n := by
        rcases List.mem_append.1 hrF with hi | hi
        · exfalso
          rcases (List.pairwise_append.1 hF).2.2 r hi n (by simp) with hc | ⟨_, hc⟩
          · rw [hn.2.1] at hc; exact hirr _ hc
          · omega
        · simpa using hi
      subst this
      unfold readAt
      rw [visible_eq, h, List.getLast?_concat]
      simp [h3]
  · intro h
    obtain ⟨x, hx, hxk, hxv, hxn, h0, hR, ht, ys, hys⟩ := readAt_some h
    have : x = r := recs_unique hs hx hr hxk hxn
    subst this
    refine ⟨hR, h0, ht, ?_⟩
    intro y hy hyR hyk
    rcases Nat.eq_zero_or_pos y.rev with hz | hz
    · omega
    · have hyF : y ∈ recs.filter (visPred R x.key) := by
        rw [List.mem_filter, visPred_iff]; exact ⟨hy, hyk, hz, hyR⟩
      rw [hys] at hyF hF
      rcases List.mem_append.1 hyF with hi | hi
      · rcases (List.pairwise_append.1 hF).2.2 y hi x (by simp) with hc | ⟨_, hc⟩
        · rw [hyk] at hc; exact absurd hc (hirr _)
        · omega
      · have : y = x := by simpa using hi
        subst this; exact Nat.le_refl _

/-- a filter of the store that preserves every point read preserves the scan -/
theorem scan_filter_of_readAt {recs : List Rec} (hs : SortedRecs recs) (keep : Rec → Bool) (R : Nat)
    (h : ∀ k, readAt R (recs.filter keep) k = readAt R recs k) :
    scanRecs R (recs.filter keep) = scanRecs R recs := by
  have hs' : SortedRecs (recs.filter keep) := List.Pairwise.sublist List.filter_sublist hs
  rw [scanRecs_eq_filter hs', scanRecs_eq_filter hs, List.filter_filter]
  congr 1
  apply List.filter_congr
  intro r hr
  cases hk : keep r with
  | true =>
    have hr' : r ∈ recs.filter keep := List.mem_filter.2 ⟨hr, hk⟩
    simp only [Bool.and_true]
    apply decide_eq_decide.2
    rw [top_iff_readAt hs' R hr', top_iff_readAt hs R hr, h]
  | false =>
    simp only [Bool.and_false]
    symm
    apply decide_eq_false
    intro ht
    have h1 := (top_iff_readAt hs R hr).1 ht
    rw [← h] at h1
    obtain ⟨x, hx, hxk, _, hxn, _⟩ := readAt_some h1
    have hx' := List.mem_filter.1 hx
    have : x = r := recs_unique hs hx'.1 hr hxk hxn
    subst this
    rw [hk] at hx'; exact absurd hx'.2 (by decide)

end KB.Compact
