/- Helper lemmas about compaction (delete actions of the worker loop), used by C07. -/
import KB.Spec
import KB.Backend
import KB.Lemmas.Coder
namespace KB
end KB
