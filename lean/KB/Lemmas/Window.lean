/-
  Helper lemmas for KB.Props.C04Window: requests refused by `tso.Deal` (/repo 624b477) hold no revision.
-/
import KB.Lemmas.CreatorLoop
namespace KB.Window
open KB Generated KB.SysStore

section fields
variable (g : G) (c : Client) (w : WEvent) (res : WriteRes) (rev : Nat)
@[simp] theorem G.setClient_refused : (g.setClient c).refused = g.refused := rfl
@[simp] theorem G.finish_refused : (g.finish c res rev).refused = g.refused := rfl
@[simp] theorem G.notify_refused : (g.notify w).refused = g.refused := by unfold G.notify; split <;> rfl
end fields

theorem finishCreate_refused (g : G) (c : Client) (key val : Bytes) (rev : Nat) (r : CommitRes) :
    (finishCreate g c key val rev r).refused = g.refused := by
  unfold finishCreate
  split
  · simp
  · split <;> simp
  · simp

theorem createSawIndex_refused (g : G) (c : Client) (key val : Bytes) (rev : Nat) (old : Bytes) (att : Nat) :
    (createSawIndex g c key val rev old att).refused = g.refused := by
  unfold createSawIndex
  split
  · exact finishCreate_refused ..
  · split
    · rfl
    · exact finishCreate_refused ..

theorem afterCommit_refused (g : G) (r : CommitRes) (st : Store) (f : Fault) (key : Bytes) (rev : Nat)
    (val : Option Bytes) (exp : Expect) : (afterCommit g r st f key rev val exp).refused = g.refused := by
  unfold afterCommit; split <;> rfl

/-- what one action does to the log of refused requests: nothing, or one more entry without a revision -/
def RefStep (g g' : G) : Prop :=
  g'.refused = g.refused ∨ ∃ d, g'.refused = g.refused ++ [d] ∧ d.rev = 0 ∧
    (d.res = .error .other ∨ d.res = .notFound 0)

theorem refusal_cases (c : Client) : refusal c = .error .other ∨ refusal c = .notFound 0 := by
  unfold refusal
  split
  · exact .inr rfl
  · exact .inl rfl

theorem act_refStep (g : G) (a : Action) : RefStep g (act g a) := by
  have hfc := finishCreate_refused
  have hsi := createSawIndex_refused
  have hac := afterCommit_refused
  cases a with
  | «begin» id kind => unfold act; simp only []; split <;> exact .inl rfl
  | step id f =>
    unfold act; simp only []; split
    · exact .inl rfl
    · rename_i c _
      apply stepClient_cases (P := fun g' => RefStep g g')
      · intros; exact .inl rfl
      · intros; split
        · exact .inl rfl
        · split
          · exact .inl (by simp)
          · exact .inl rfl
      · intros; split
        · split
          · exact .inl (by rw [hsi, hac])
          · exact .inl (by simp [hac])
        · exact .inl (by rw [hfc, hac])
      · intros; split
        · exact .inl (by rw [hsi])
        · exact .inl rfl
      · intros; exact .inl (by rw [hfc, hac])
      · intros; split
        · exact .inl (by simp [hac])
        · exact .inl (by rw [hfc, hac])
      · intros; split
        · split
          · exact .inl (by rw [hfc])
          · exact .inl (by rw [hsi])
        · exact .inl rfl
      · intros; split <;> exact .inl (by simp [hac])
      · intros; split <;> exact .inl rfl
      · intros; exact .inl (by simp)
      · intros
        split
        · exact .inl (by simp)
        · split
          · exact .inl (by simp)
          · split
            · exact .inl (by simp)
            · exact .inl rfl
      · intros; split <;> exact .inl (by simp [hac])
      · intros; split <;> exact .inl rfl
      · exact .inl rfl
      · intro _ _
        exact .inr ⟨_, rfl, rfl, refusal_cases c⟩
  | seq => unfold act KB.stepSeq; simp only []; split <;> exact .inl rfl
  | retry f =>
    show RefStep g (KB.stepRetryCommit (KB.stepRetryRead g) f)
    have h1 : (KB.stepRetryRead g).refused = g.refused := by
      apply stepRetryRead_cases (P := fun g' => g'.refused = g.refused) <;> intros <;> rfl
    have h2 : ∀ g, (KB.stepRetryCommit g f).refused = g.refused := by
      intro g
      apply stepRetryCommit_cases (P := fun g' => g'.refused = g.refused)
      · intro _; rfl
      · intros; simp [hac]
    exact .inl (by rw [h2, h1])
  | retryRead =>
    show RefStep g (KB.stepRetryRead g)
    refine .inl ?_
    apply stepRetryRead_cases (P := fun g' => g'.refused = g.refused) <;> intros <;> rfl
  | retryCommit f =>
    show RefStep g (KB.stepRetryCommit g f)
    refine .inl ?_
    apply stepRetryCommit_cases (P := fun g' => g'.refused = g.refused)
    · intro _; rfl
    · intros; simp [hac]

theorem run_refused {g : G} (h : ∀ d ∈ g.refused, d.rev = 0) (s : List Action) : ∀ d ∈ (run g s).refused, d.rev = 0 := by
  induction s generalizing g with
  | nil => exact h
  | cons a s ih =>
    refine ih (g := act g a) ?_
    rcases act_refStep g a with e | ⟨d, e, hd, _⟩
    · rw [e]; exact h
    · rw [e]
      intro x hx
      rcases List.mem_append.mp hx with hx | hx
      · exact h x hx
      · simp only [List.mem_singleton] at hx; rw [hx]; exact hd

end KB.Window
