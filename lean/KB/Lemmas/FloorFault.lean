/-
  KB.Lemmas.FloorFault — the floor lemmas of KB.Lemmas.Floor for `doCompactRF` (KB.CompactFault): a compaction during
  which the scanner's read of the compaction record fails in border pair `k`.

  Core-only.
-/
import KB.CompactFault
import KB.Lemmas.Floor
namespace KB

theorem doCompactRF_eq (c : Cfg) (s : BState) (rev : Nat) (mask : Nat → DelOutcome) (k : Nat) (old : Bool) :
    doCompactRF c s rev mask k old =
      (if (compactFoldRF c { s with store := setRecord c s.store (clampRev s rev) } (clampRev s rev) mask k old).2.2.1
        then .panic else .ok (clampRev s rev),
       (compactFoldRF c { s with store := setRecord c s.store (clampRev s rev) } (clampRev s rev) mask k old).1) := rfl

theorem doCompactRF_fst (c : Cfg) (s : BState) (rev : Nat) (mask : Nat → DelOutcome) (k : Nat) (R : Nat)
    (h : (doCompactRF c s rev mask k).1 = .ok R) : R = clampRev s rev := by
  rw [doCompactRF_eq] at h
  simp only [] at h
  split at h
  · cases h
  · injection h with h; exact h.symm

theorem compactRangeRF_store (s : BState) (r : Nat) : (compactRangeRF s r).store = s.store := rfl

theorem compactFoldRF_floor (c : Cfg) (s : BState) (r : Nat) (mask : Nat → DelOutcome) (k : Nat) (hr : r < 2 ^ 64)
    (hs : r ≤ floorOf c s.store) :
    floorOf c (compactFoldRF c s r mask k false).1.store = floorOf c s.store := by
  unfold compactFoldRF
  apply foldl_invariant (fun acc : BState × Nat × Bool × Nat => floorOf c acc.1.store = floorOf c s.store)
  · intro acc b hacc
    by_cases hk : (acc.2.2.2 == k) = true
    · simp only [hk, if_true, Bool.false_eq_true, if_false, compactRangeRF_store, hacc]
    · rw [Bool.not_eq_true] at hk
      simp only [hk, Bool.false_eq_true, if_false, compactRange_floor c acc.1 b.1 b.2 r mask acc.2.1 hr, hacc]
      omega
  · rfl

theorem doCompactRF_floor (c : Cfg) (s : BState) (rev : Nat) (mask : Nat → DelOutcome) (k : Nat)
    (hrev : clampRev s rev < 2 ^ 64) :
    floorOf c (doCompactRF c s rev mask k).2.store = max (floorOf c s.store) (clampRev s rev) := by
  rw [doCompactRF_eq]
  simp only []
  rw [compactFoldRF_floor c _ _ mask k hrev]
  · exact setRecord_floor c s.store _ hrev
  · simp only [setRecord_floor c s.store _ hrev]; omega

theorem doCompactRF_single (c : Cfg) (s : BState) (rev : Nat) (mask : Nat → DelOutcome)
    (h1 : (pairs (compactBorders c)).length = 1) :
    (doCompactRF c s rev mask 0).2.store = setRecord c s.store (clampRev s rev) := by
  rw [doCompactRF_eq]
  obtain ⟨b, hb⟩ := List.length_eq_one_iff.mp h1
  simp only [compactFoldRF, hb, List.foldl_cons, List.foldl_nil]
  rfl

end KB
