/-
  Lemmas for KB.ServerGen (the follower read-sync LTS with the generation-number repair, one atomic
  instruction per step): induction over reachable states, monotonicity of the follower's read revision, the
  inductive invariant `InvG` used by KB.Props.C18Gen, and the two step lemmas about discarded results and
  failed syncs.
-/
import KB.ServerGen
namespace KB.ServerGen
open KB.Server (LeaderBehaviour)

set_option linter.unusedSimpArgs false

/-- Invariants are established by the initial states and preserved by steps. -/
theorem reachable_induction {P : State → Prop} (h0 : ∀ n g, P (init n g))
    (hs : ∀ s s' st, P s → step s st = some s' → P s') : ∀ s, Reachable s → P s := by
  intro s ⟨n, g, tr, hr⟩
  suffices ∀ tr s0 s, P s0 → run s0 tr = some s → P s from this tr (init n g) s (h0 n g) hr
  intro tr
  induction tr with
  | nil => intro s0 s hp h; simp [run] at h; subst h; exact hp
  | cons a rest ih =>
    intro s0 s hp h
    simp only [run] at h
    cases hst : step s0 a with
    | none => simp [hst] at h
    | some s1 => simp [hst] at h; exact ih s1 s (hs s0 s1 a hp hst) h

/-- No step lowers the follower's read revision (`tso.Commit` only raises). -/
theorem followerRev_mono {s s' : State} {st : Step} (h : step s st = some s') :
    s.followerRev ≤ s'.followerRev := by
  cases st <;> simp only [step] at h
  case leaderCommit => simp at h; subst h; exact Nat.le_refl _
  case setRev r =>
    split at h <;> simp at h
    · subst h; exact Nat.le_max_left _ _
    · subst h; exact Nat.le_refl _
  all_goals (split at h <;> simp at h <;> subst h <;> exact Nat.le_refl _)

theorem followerRev_run_mono {tr : List Step} {s s' : State} (h : run s tr = some s') :
    s.followerRev ≤ s'.followerRev := by
  induction tr generalizing s with
  | nil => simp [run] at h; subst h; exact Nat.le_refl _
  | cons a rest ih =>
    simp only [run] at h
    cases hst : step s a with
    | none => simp [hst] at h
    | some s1 => simp [hst] at h; exact Nat.le_trans (followerRev_mono hst) (ih h)

/-- The inductive invariant of the repaired syncer.
`key`: if the generation moved after a reader loaded it, the increment happened after that reader began (so
the GET, sent after the increment, is answered with a revision ≥ the reader's begin revision). -/
structure InvG (s : State) : Prop where
  bump_le : s.bumpRev ≤ s.leaderRev
  pending_gen : ∀ g, s.flight = .pending g → g = s.fetchGen
  answered_gen : ∀ g v, s.flight = .answered g v → g = s.fetchGen
  answered : ∀ g v, s.flight = .answered g (some v) → s.bumpRev ≤ v ∧ v ≤ s.leaderRev
  begin_le : ∀ r, (s.reads r).phase ≠ .idle → (s.reads r).beginRev ≤ s.leaderRev
  arrived_le : ∀ r, ((s.reads r).phase = .looping ∨ (s.reads r).phase = .waiting) →
    (s.reads r).arrived ≤ s.fetchGen
  key : ∀ r, ((s.reads r).phase = .looping ∨ (s.reads r).phase = .waiting) →
    (s.reads r).arrived < s.fetchGen → (s.reads r).beginRev ≤ s.bumpRev
  got : ∀ r v, (s.reads r).phase = .got (some v) → (s.reads r).beginRev ≤ v
  synced : ∀ r, (s.reads r).phase = .synced → (s.reads r).beginRev ≤ s.followerRev
  fresh : Fresh s

theorem invG_init (n g : Nat) : InvG (init n g) := by
  constructor <;> simp [init, Fresh]

theorem invG_step {s s' : State} {st : Step} (h : step s st = some s') (hi : InvG s) : InvG s' := by
  obtain ⟨h1, h2, h3, h4, h5, h6, h7, h8, h9, h10⟩ := hi
  simp only [Fresh] at h10
  cases st with
  | leaderCommit =>
    simp only [step] at h
    simp at h; subst h
    constructor <;> (try simp only [Fresh]) <;> grind
  | readBegin r =>
    simp only [step] at h
    split at h <;> simp at h
    subst h
    constructor <;> (try simp only [Fresh, upd]) <;> grind
  | arrive r =>
    simp only [step] at h
    split at h <;> simp at h
    subst h
    constructor <;> (try simp only [Fresh, upd]) <;> grind
  | fetchStart r =>
    simp only [step] at h
    split at h <;> simp at h
    subst h
    constructor <;> (try simp only [Fresh, upd]) <;> grind
  | genBump =>
    simp only [step] at h
    split at h <;> simp at h
    subst h
    constructor <;> (try simp only [Fresh]) <;> grind
  | fetchJoin r =>
    simp only [step] at h
    split at h <;> simp at h
    all_goals (subst h; constructor <;> (try simp only [Fresh, upd]) <;> grind)
  | leaderAnswer b =>
    simp only [step] at h
    split at h <;> simp at h
    subst h
    constructor <;> (try simp only [Fresh]) <;> grind
  | fetchReply =>
    simp only [step] at h
    split at h <;> simp at h
    subst h
    constructor <;> (try simp only [Fresh, deliver]) <;> grind
  | setRev r =>
    simp only [step] at h
    split at h <;> simp at h
    all_goals (subst h; constructor <;> (try simp only [Fresh, upd]) <;> grind)
  | readServe r =>
    simp only [step] at h
    split at h <;> simp at h
    subst h
    constructor <;> (try simp only [Fresh, upd]) <;> grind

theorem inv_reachable : ∀ s, Reachable s → InvG s :=
  reachable_induction invG_init (fun _ _ _ hp h => invG_step h hp)

/-- A waiter whose result is discarded has `arrived = fetchGen` afterwards. -/
theorem rejected_arrived_eq {s s' : State} (hs : Reachable s) (h : step s .fetchReply = some s') (r : Nat)
    (hw : (s.reads r).phase = .waiting) (hl : (s'.reads r).phase = .looping) :
    (s'.reads r).arrived = s'.fetchGen := by
  have hi := inv_reachable s hs
  have hle := hi.arrived_le r (Or.inr hw)
  simp only [step] at h
  split at h <;> simp at h
  rename_i g v hfl
  have hg := hi.answered_gen g v hfl
  subst h
  simp only [deliver, hw] at hl ⊢
  split at hl
  · simp at hl
  · rename_i hlt
    simp [hlt]
    omega

/-- A read whose sync failed stays failed. -/
theorem failed_stays {s s' : State} {st : Step} (h : step s st = some s') (r : Nat)
    (hf : (s.reads r).phase = .failed) : (s'.reads r).phase = .failed := by
  cases st <;> simp only [step] at h
  case leaderCommit => simp at h; subst h; exact hf
  case fetchReply =>
    split at h <;> simp at h
    subst h
    simp only [deliver, hf]
  all_goals (split at h <;> simp at h <;> subst h <;> first | exact hf | (simp only [upd]; grind))

end KB.ServerGen
