/- Helper lemmas for C20 (request part). -/
import KB.Props.C02Store
import KB.Props.C01
import KB.Props.C04
import KB.Lemmas.Retry
namespace KB
open Generated SysStore

/-! ### running a fresh request: `begin` and the first steps, on an arbitrary state -/

theorem act_step_of (g : G) (id : Nat) (f : Fault) (c : Client) (h : g.client id = some c) :
    act g (.step id f) = stepClient g c f := by simp [act, h]

theorem act_begin_free (g : G) (id : Nat) (kind : ReqKind) (hfree : g.client id = none) :
    act g (.begin id kind) =
      { g with clients := g.clients ++ [{ id := id, kind := kind, pc := .start, beginDealt := g.dealt }],
               begins := (id, g.wlog.length) :: g.begins } := by
  simp [act, hfree]

theorem client_snoc_free (g : G) (c : Client) {bs : List (Nat × Nat)} (hfree : g.client c.id = none) :
    G.client { g with clients := g.clients ++ [c], begins := bs } c.id = some c := by
  unfold G.client at *
  simp [List.find?_append, hfree]

theorem filter_free (g : G) (id : Nat) (hfree : g.client id = none) (c : Client) (hc : c.id = id) :
    (g.clients ++ [c]).filter (fun x => x.id != id) = g.clients := by
  unfold G.client at hfree
  rw [List.find?_eq_none] at hfree
  rw [List.filter_append]
  have : [c].filter (fun x => x.id != id) = [] := by simp [hc]
  rw [this, List.append_nil, List.filter_eq_self]
  intro x hx
  have := hfree x hx
  simpa using this

theorem map_free (g : G) (id : Nat) (hfree : g.client id = none) (c c' : Client) (hc : c.id = id) :
    (g.clients ++ [c]).map (fun x => if x.id == id then c' else x) = g.clients ++ [c'] := by
  unfold G.client at hfree
  rw [List.find?_eq_none] at hfree
  rw [List.map_append]
  congr 1
  · conv => rhs; rw [← List.map_id g.clients]
    apply List.map_congr_left
    intro x hx
    have := hfree x hx
    simp only [Bool.not_eq_true] at this
    simp [this]
  · simp [hc]

theorem notify_pos (g : G) (w : WEvent) (h : w.rev ≠ 0) : g.notify w = { g with slots := g.slots ++ [w] } := by
  simp [G.notify, h]

/-- A guarded update whose expected revision is not below the revision it is dealt (equal: it names a version nobody has written yet and would overwrite itself): rejected in its first
step, the revision reported (invalid) to the sequencer. -/
theorem run_update_drift (g : G) (id : Nat) (k v : Bytes) (exp : Nat)
    (hfree : g.client id = none) (hwf : g.windowFull = false) (hexp : g.dealt + 1 ≤ exp) :
    run g [.begin id (.update k v exp), .step id .none] =
      { g with dealt := g.dealt + 1, slots := g.slots ++ [mkW (g.dealt + 1) exp false .put k v],
               done := g.done ++ [{ id := id, kind := .update k v exp, res := .error .drift, rev := g.dealt + 1,
                                    beginDealt := g.dealt, endDealt := g.dealt + 1 }],
               begins := (id, g.wlog.length) :: g.begins,
               spans := g.spans ++ [⟨id, g.dealt + 1, g.wlog.length, g.wlog.length⟩] } := by
  show act (act g (.begin id (.update k v exp))) (.step id .none) = _
  rw [act_begin_free g id _ hfree, act_step_of _ id _ _ (client_snoc_free g _ hfree)]
  have e0 : (exp == 0) = false := by simp; omega
  have hwf' : windowFullAt g.cfg g.dealt g.committed = false := hwf
  simp only [stepClient, stepClientCore, dealSite, G.windowFull, hwf', Bool.and_false, e0, hexp, if_true,
    Bool.false_eq_true, if_false]
  rw [notify_pos _ _ (by simp [mkW])]
  simp only [G.finish]
  rw [filter_free g id hfree _ rfl]
  simp [G.beginOf]

/-- Same for a guarded delete of an existing key (read, then deal, then reject). -/
theorem run_delete_drift (g : G) (id : Nat) (k : Bytes) (exp : Nat)
    (hfree : g.client id = none) (hwf : g.windowFull = false) (hexp : g.dealt + 1 ≤ exp) (v : Bytes) (m : Nat)
    (hfound : bget g.cfg g.store k 0 = .found v m) :
    run g [.begin id (.delete k exp), .step id .none, .step id .none] =
      { g with dealt := g.dealt + 1, slots := g.slots ++ [mkW (g.dealt + 1) m false .delete k v],
               done := g.done ++ [{ id := id, kind := .delete k exp, res := .error .drift, rev := g.dealt + 1,
                                    beginDealt := g.dealt, endDealt := g.dealt + 1 }],
               begins := (id, g.wlog.length) :: g.begins,
               spans := g.spans ++ [⟨id, g.dealt + 1, g.wlog.length, g.wlog.length⟩] } := by
  show act (act (act g (.begin id (.delete k exp))) (.step id .none)) (.step id .none) = _
  rw [act_begin_free g id _ hfree]
  rw [act_step_of { g with clients := g.clients ++ [{ id := id, kind := .delete k exp, pc := .start, beginDealt := g.dealt }],
                           begins := (id, g.wlog.length) :: g.begins }
    id .none _ (client_snoc_free g _ hfree)]
  have hwf' : windowFullAt g.cfg g.dealt g.committed = false := hwf
  simp only [stepClient, stepClientCore, dealSite, Bool.false_and, Bool.false_eq_true, if_false, hfound, G.setClient]
  rw [map_free g id hfree _ _ rfl]
  rw [act_step_of _ id _ _ (client_snoc_free g
    { id := id, kind := .delete k exp, pc := .deleteDeal (some (v, m)), beginDealt := g.dealt } hfree)]
  have e0 : (decide (exp > 0) && decide (g.dealt + 1 ≤ exp)) = true := by simp; omega
  simp only [stepClient, stepClientCore, dealSite, G.windowFull, hwf', Bool.and_false, Bool.false_eq_true, if_false,
    e0, if_true]
  rw [notify_pos _ _ (by simp [mkW])]
  simp only [G.finish]
  rw [filter_free g id hfree _ rfl]
  simp [G.beginOf]

/-- A create of a key without index record, run without faults: succeeds at the next revision. -/
theorem run_create_fresh (g : G) (id : Nat) (k v : Bytes) (hfree : g.client id = none)
    (hwf : g.windowFull = false) (hfresh : g.store.get (idxKey k) = none) :
    run g [.begin id (.create k v), .step id .none, .step id .none] =
      { g with dealt := g.dealt + 1,
               store := (g.store.put (idxKey k) (be8 (g.dealt + 1))).put (encode k (g.dealt + 1)) v,
               slots := g.slots ++ [mkW (g.dealt + 1) 0 true .create k v false],
               hist := g.hist ++ [{ key := k, rev := g.dealt + 1, val := some v }],
               wlog := g.wlog ++ [{ key := k, rev := g.dealt + 1, val := some v, exp := .absent }],
               done := g.done ++ [{ id := id, kind := .create k v, res := .ok (g.dealt + 1), rev := g.dealt + 1,
                                    beginDealt := g.dealt, endDealt := g.dealt + 1 }],
               begins := (id, g.wlog.length) :: g.begins,
               spans := g.spans ++ [⟨id, g.dealt + 1, g.wlog.length, g.wlog.length + 1⟩] } := by
  show act (act (act g (.begin id (.create k v))) (.step id .none)) (.step id .none) = _
  rw [act_begin_free g id _ hfree]
  rw [act_step_of { g with clients := g.clients ++ [{ id := id, kind := .create k v, pc := .start, beginDealt := g.dealt }],
                           begins := (id, g.wlog.length) :: g.begins }
    id .none _ (client_snoc_free g _ hfree)]
  have hwf' : windowFullAt g.cfg g.dealt g.committed = false := hwf
  simp only [stepClient, stepClientCore, dealSite, G.windowFull, hwf', Bool.and_false, Bool.false_eq_true, if_false,
    G.setClient]
  rw [map_free g id hfree _ _ rfl]
  rw [act_step_of _ id _ _ (client_snoc_free { g with dealt := g.dealt + 1 }
    { id := id, kind := .create k v, pc := .createCommit (g.dealt + 1), beginDealt := g.dealt } hfree)]
  simp only [stepClient, stepClientCore, dealSite, Bool.false_and, Bool.false_eq_true, if_false, createOps, doCommit,
    commit, applyOps, applyOp, hfresh, applied, G.logWrite, finishCreate,
    beq_self_eq_true, Bool.true_or, if_true]
  rw [notify_pos _ _ (by simp [mkW])]
  simp only [G.finish]
  rw [filter_free g id hfree _ rfl]
  simp [mkW, G.beginOf]

/-! ### the sequencer touches neither the store nor the log of finished requests -/

theorem stepSeq_frame (g : G) : (stepSeq g).store = g.store ∧ (stepSeq g).cfg = g.cfg ∧ (stepSeq g).done = g.done := by
  unfold stepSeq
  split <;> exact ⟨rfl, rfl, rfl⟩

theorem run_seq_frame (n : Nat) (g : G) :
    (run g (List.replicate n Action.seq)).store = g.store ∧ (run g (List.replicate n Action.seq)).cfg = g.cfg ∧
    (run g (List.replicate n Action.seq)).done = g.done := by
  induction n generalizing g with
  | zero => exact ⟨rfl, rfl, rfl⟩
  | succ n ih =>
    obtain ⟨a, b, c⟩ := ih (stepSeq g)
    obtain ⟨a', b', c'⟩ := stepSeq_frame g
    simp only [List.replicate_succ, run, List.foldl_cons, act] at a b c ⊢
    exact ⟨a.trans a', b.trans b', c.trans c'⟩

theorem Reachable.run {g0 g : G} (hr : Reachable g0 g) (s : List Action) : Reachable g0 (run g s) := by
  obtain ⟨s0, rfl⟩ := hr
  exact ⟨s0 ++ s, run_append ..⟩

/-! ### the engine store stays sorted -/

theorem applyOp_sorted {q : Quirks} {s s' : Store} {i : Nat} {op : BOp} (hs : s.Sorted)
    (h : applyOp q s i op = .ok s') : s'.Sorted := by
  cases op with
  | pine k v =>
    simp only [applyOp] at h
    split at h
    · cases h
    · cases h; exact Store.put_sorted _ hs _ _
  | cas k new old =>
    simp only [applyOp] at h
    split at h
    · split at h <;> cases h
    · split at h
      · cases h; exact Store.put_sorted _ hs _ _
      · cases h
  | put k v => simp only [applyOp] at h; cases h; exact Store.put_sorted _ hs _ _
  | del k => simp only [applyOp] at h; cases h; exact Store.erase_sorted _ hs _
  | delcur k v =>
    simp only [applyOp] at h
    split at h
    · cases h
    · split at h
      · cases h; exact Store.erase_sorted _ hs _
      · cases h

theorem applyOps_sorted {q : Quirks} {s s' : Store} {i : Nat} {ops : List BOp} (hs : s.Sorted)
    (h : applyOps q s i ops = .ok s') : s'.Sorted := by
  induction ops generalizing s i with
  | nil => simp only [applyOps] at h; cases h; exact hs
  | cons op ops ih =>
    simp only [applyOps] at h
    split at h
    · cases h
    · rename_i s1 h1
      exact ih (applyOp_sorted hs h1) h

theorem doCommit_sorted (c : Cfg) {s : Store} (ops : List BOp) (f : Fault) (hs : s.Sorted) :
    (doCommit c s ops f).2.Sorted := by
  unfold doCommit
  split
  · exact hs
  · exact hs
  · rename_i st' hc
    have := applyOps_sorted hs hc
    cases f <;> assumption

theorem doCommit_sorted' {c : Cfg} {s st : Store} {ops : List BOp} {f : Fault} {r : CommitRes} (hs : s.Sorted)
    (h : doCommit c s ops f = (r, st)) : st.Sorted := by
  have := doCommit_sorted c ops f hs
  rw [h] at this
  exact this

@[simp] theorem afterCommit_store (g : G) (r : CommitRes) (st : Store) (f : Fault) (key : Bytes) (rev : Nat)
    (val : Option Bytes) (exp : Expect) : (afterCommit g r st f key rev val exp).store = st := by
  unfold SysStore.afterCommit; split <;> rfl

theorem stepClient_sorted (g : G) (c : Client) (f : Fault) (hs : g.store.Sorted) : (stepClient g c f).store.Sorted := by
  apply stepClient_cases (P := fun g' => g'.store.Sorted)
  · intros; exact hs
  · intros; split
    · exact hs
    · split
      · simpa using hs
      · exact hs
  · intro rev key val r st _ hdc
    have h := doCommit_sorted' hs hdc
    split
    · split
      · rw [(createSawIndex_store_wlog ..).1]; simpa using h
      · simpa using h
    · rw [(finishCreate_store_wlog ..).1]; simpa using h
  · intro rev key val _
    split
    · rw [(createSawIndex_store_wlog ..).1]; exact hs
    · exact hs
  · intro rev key val r st _ hdc
    rw [(finishCreate_store_wlog ..).1]; simpa using doCommit_sorted' hs hdc
  · intro rev old att key val r st _ hdc
    have h := doCommit_sorted' hs hdc
    split
    · simpa using h
    · rw [(finishCreate_store_wlog ..).1]; simpa using h
  · intro rev att key val _
    split
    · split
      · rw [(finishCreate_store_wlog ..).1]; exact hs
      · rw [(createSawIndex_store_wlog ..).1]; exact hs
    · exact hs
  · intro rev key val exp r st _ _ hdc
    have h := doCommit_sorted' hs hdc
    split <;> simpa using h
  · intros; split <;> exact hs
  · intros; simpa using hs
  · intros
    split
    · simpa using hs
    · split
      · simpa using hs
      · split
        · simpa using hs
        · exact hs
  · intro rev oldVal modRev key exp r st _ _ hdc
    have h := doCommit_sorted' hs hdc
    split <;> simpa using h
  · intros; split <;> exact hs
  · exact hs
  · intros; exact hs

theorem stepRetryRead_sorted (g : G) (hs : g.store.Sorted) : (stepRetryRead g).store.Sorted := by
  apply stepRetryRead_cases (P := fun g' => g'.store.Sorted) <;> intros <;> exact hs

theorem stepRetryCommit_sorted (g : G) (f : Fault) (hs : g.store.Sorted) : (stepRetryCommit g f).store.Sorted := by
  apply stepRetryCommit_cases (P := fun g' => g'.store.Sorted)
  · intro _; exact hs
  · intro p r st _ hdc
    simpa using doCommit_sorted' hs hdc

theorem stepRetry_sorted (g : G) (f : Fault) (hs : g.store.Sorted) : (stepRetry g f).store.Sorted :=
  stepRetryCommit_sorted _ f (stepRetryRead_sorted g hs)

theorem act_sorted (g : G) (a : Action) (hs : g.store.Sorted) : (act g a).store.Sorted := by
  cases a with
  | begin id kind => unfold act; simp only []; split <;> exact hs
  | step id f =>
    unfold act; simp only []; split
    · exact hs
    · exact stepClient_sorted _ _ _ hs
  | seq => rw [show act g .seq = stepSeq g from rfl, (stepSeq_frame g).1]; exact hs
  | retry f => exact stepRetry_sorted g f hs
  | retryRead => exact stepRetryRead_sorted g hs
  | retryCommit f => exact stepRetryCommit_sorted g f hs

theorem run_sorted (g : G) (s : List Action) (hs : g.store.Sorted) : (run g s).store.Sorted := by
  induction s generalizing g with
  | nil => exact hs
  | cons a s ih => exact ih (act g a) (act_sorted g a hs)

theorem encodeStore_sorted' {recs : List Rec} (hs : SortedRecs recs)
    (hk : ∀ r ∈ recs, Alphabet r.key ∧ r.rev < 2 ^ 64) : (encodeStore recs).Sorted := by
  rw [Store.sorted_iff_pairwise, encodeStore, List.pairwise_map]
  refine List.Pairwise.imp_of_mem ?_ hs
  intro a b ha hb hlt
  show cmp (encode a.key a.rev) (encode b.key b.rev) = .lt
  rw [encode_cmp (hk a ha).1 (hk b hb).1 (hk a ha).2 (hk b hb).2]
  rcases hlt with h | ⟨h1, h2⟩
  · have : a.key ≠ b.key := by intro e; rw [e] at h; simp at h
    simp [this, h]
  · simp [h1, Nat.compare_eq_lt.mpr h2]

theorem storeOK_sorted {g0 : G} (hs : C02.StoreOK g0) : g0.store.Sorted := by
  obtain ⟨recs, hst, hsr, hrecs, hb⟩ := hs
  rw [hst]
  refine encodeStore_sorted' hsr (fun r hr => ⟨(hrecs r hr).1, ?_⟩)
  have := (hrecs r hr).2.1
  omega

theorem reachable_sorted {g0 g : G} (hs : C02.StoreOK g0) (hr : Reachable g0 g) : g.store.Sorted := by
  obtain ⟨s, rfl⟩ := hr
  exact run_sorted g0 s (storeOK_sorted hs)

/-! ### the point read returns the newest version of the key -/

/-- On a sorted store of encoded alphabet keys, none above revision `R`, the point read of `k` returns
the version stored at `R`. -/
theorem getInternal_top (cfg : Cfg) {store : Store} (hs : store.Sorted) {R : Nat}
    (hk : ∀ kv ∈ store, ∃ k r, kv.1 = encode k r ∧ Alphabet k ∧ r ≤ R)
    (h0 : 0 < R) (hb : R < 2 ^ 64) {k : Bytes} (hka : Alphabet k)
    {v : Bytes} (hget : store.get (encode k R) = some v) :
    getInternal cfg store k 0 = some (v, R) := by
  obtain ⟨recs, hst, hsr, hall⟩ := exists_recs store hs (fun kv hkv => by
    obtain ⟨k, r, h1, h2, h3⟩ := hk kv hkv
    exact ⟨k, r, h1, h2, by omega⟩)
  rw [hst, C03.get_spec cfg hsr hall k hka 0 (by decide)]
  simp only [beq_self_eq_true, if_true]
  have hm : (encode k R, v) ∈ encodeStore recs := by rw [← hst]; exact Store.mem_of_get hget
  obtain ⟨rs, hrs, e⟩ := List.mem_map.mp hm
  simp only [Prod.mk.injEq] at e
  obtain ⟨e1, e2⟩ := encode_inj (hall rs hrs).2 hb e.1
  have hvis : vis (2 ^ 64 - 1) k rs = true := vis_iff.mpr ⟨e1, by omega, by omega⟩
  have hmf : rs ∈ recs.filter (vis (2 ^ 64 - 1) k) := List.mem_filter.mpr ⟨hrs, hvis⟩
  rw [visible_def]
  cases hlast : (recs.filter (vis (2 ^ 64 - 1) k)).getLast? with
  | none =>
    rw [List.getLast?_eq_none_iff] at hlast
    rw [hlast] at hmf; cases hmf
  | some l =>
    have hlm := List.mem_filter.mp (List.mem_of_getLast? hlast)
    obtain ⟨hlk, hl0, _⟩ := vis_iff.mp hlm.2
    have hle : l.rev ≤ R := by
      have hm' : (encode l.key l.rev, l.val) ∈ store := by rw [hst]; exact List.mem_map.mpr ⟨l, hlm.1, rfl⟩
      obtain ⟨k', r', h1, _, h3⟩ := hk _ hm'
      obtain ⟨_, e4⟩ := encode_inj (hall l hlm.1).2 (by omega) h1
      omega
    have : rs = l := by
      rcases pairwise_getLast (List.Pairwise.filter _ hsr) hlast hmf with h | h
      · exact h
      · exfalso
        rcases h with h | ⟨_, h⟩
        · rw [e1, hlk] at h; simp at h
        · omega
    subst this
    simp [e2, e.2]

/-! ### a create + read of a fresh key after an arbitrary reachable quiescent state -/

theorem probe_serves {g0 g : G} (h0 : C02.Init g0) (hs : C02.StoreOK g0) (hr : Reachable g0 g)
    (hq : g.clients = []) (hp : g.retryPc = none) (hb : g.dealt + 1 < 2 ^ 64) (hwf : g.windowFull = false)
    (hal : ∀ kv ∈ g.store, ∃ k' r, kv.1 = encode k' r ∧ Alphabet k')
    (id : Nat) (k v : Bytes) (hk : Alphabet k) (hv : v ≠ tombstone)
    (hfresh : g.store.get (idxKey k) = none) :
    let g1 := run g ([.begin id (.create k v), .step id .none, .step id .none] ++
                      List.replicate (g.dealt + 1 - g.committed) Action.seq)
    (∃ d ∈ g1.done, d.id = id ∧ d.res = .ok (g.dealt + 1)) ∧ g1.committed = g.dealt + 1 ∧
    bget g1.cfg g1.store k 0 = .found v (g.dealt + 1) := by
  intro g1
  have hfree : g.client id = none := by simp [G.client, hq]
  have e3 := run_create_fresh g id k v hfree hwf hfresh
  generalize hg3 : run g [.begin id (.create k v), .step id .none, .step id .none] = g3 at e3
  have hg1 : g1 = run g3 (List.replicate (g.dealt + 1 - g.committed) Action.seq) := by
    show run g _ = _
    rw [run_append, hg3]
  have hr3 : Reachable g0 g3 := hg3 ▸ hr.run _
  have hd3 : g3.dealt = g.dealt + 1 := by rw [e3]
  have hc3 : g3.committed = g.committed := by rw [e3]
  have hcl3 : g3.clients = [] := by rw [e3]; exact hq
  have hst3 : g3.store = (g.store.put (idxKey k) (be8 (g.dealt + 1))).put (encode k (g.dealt + 1)) v := by rw [e3]
  have hcfg3 : g3.cfg = g.cfg := by rw [e3]
  have hp3 : g3.retryPc = none := by rw [e3]; exact hp
  have hcatch := C04.quiescent_catches_up h0.1 hr3 (fun c hc => by rw [hcl3] at hc; cases hc) hp3
  rw [hd3, hc3, ← hg1] at hcatch
  obtain ⟨fs, fc, fd⟩ := run_seq_frame (g.dealt + 1 - g.committed) g3
  rw [← hg1] at fs fc fd
  refine ⟨?_, hcatch, ?_⟩
  · refine ⟨{ id := id, kind := .create k v, res := .ok (g.dealt + 1), rev := g.dealt + 1,
              beginDealt := g.dealt, endDealt := g.dealt + 1 }, ?_, rfl, rfl⟩
    rw [fd, e3]
    exact List.mem_append_right _ (List.mem_singleton.mpr rfl)
  · rw [fs, fc]
    have hsorted := reachable_sorted hs hr3
    have hcore := (SInv.reachable h0 hs hr3).core
    have hkeys : ∀ kv ∈ g3.store, ∃ k' r, kv.1 = encode k' r ∧ Alphabet k' ∧ r ≤ g.dealt + 1 := by
      intro kv hkv
      obtain ⟨k1, r1, h1, h2⟩ := hcore.keys kv hkv
      rw [hd3] at h2
      have ha : ∃ k2 r2, kv.1 = encode k2 r2 ∧ Alphabet k2 := by
        rw [hst3] at hkv
        rcases Store.mem_put hkv with h | h
        · exact ⟨k, _, h, hk⟩
        · rcases Store.mem_put h with h | h
          · exact ⟨k, 0, h, hk⟩
          · exact hal kv h
      obtain ⟨k2, r2, h3, h4⟩ := ha
      rw [h1, ← encode_mod k2 r2] at h3
      obtain ⟨e1, _⟩ := encode_inj (by omega) (Nat.mod_lt _ (by decide)) h3
      exact ⟨k1, r1, h1, e1 ▸ h4, h2⟩
    have hget : g3.store.get (encode k (g.dealt + 1)) = some v := by
      rw [hst3, SysStore.Store.get_put]; simp
    have := getInternal_top g3.cfg hsorted hkeys (by omega) hb hk hget
    have ht : isTomb v = false := by simpa [isTomb] using hv
    simp [bget, this, ht]

/-! ### requests over the documented alphabet keep the store over the alphabet -/

/-- every record of the store is the encoding of a key over the alphabet -/
def StoreAlpha (st : Store) : Prop := ∀ kv ∈ st, ∃ k r, kv.1 = encode k r ∧ Alphabet k

structure AlphaInv (g : G) : Prop where
  cl : ∀ c ∈ g.clients, Alphabet c.kind.key
  sl : ∀ s ∈ g.slots, Alphabet s.key
  rq : ∀ q ∈ g.retryQ, Alphabet q.key
  st : StoreAlpha g.store
  rp : ∀ p, g.retryPc = some p → Alphabet p.w.key

theorem StoreAlpha.wstore {st : Store} (h : StoreAlpha st) {key : Bytes} (hk : Alphabet key) (rev : Nat) (new v : Bytes) :
    StoreAlpha ((st.put (idxKey key) new).put (encode key rev) v) := by
  intro kv hkv
  rcases Store.mem_put hkv with h1 | h1
  · exact ⟨key, rev, h1, hk⟩
  · rcases Store.mem_put h1 with h2 | h2
    · exact ⟨key, 0, h2, hk⟩
    · exact h kv h2

theorem StoreAlpha.pine {c : Cfg} {s st : Store} {key new v : Bytes} {rev : Nat} {f : Fault} {r : CommitRes}
    (h : StoreAlpha s) (hk : Alphabet key)
    (hdc : doCommit c s [.pine (idxKey key) new, .put (encode key rev) v] f = (r, st)) : StoreAlpha st := by
  rcases doCommit_pine_cases hdc with ⟨_, _, e⟩ | ⟨_, e⟩
  · rw [e]; exact h.wstore hk rev new v
  · rw [e]; exact h

theorem StoreAlpha.cas {c : Cfg} {s st : Store} {key new old v : Bytes} {rev : Nat} {f : Fault} {r : CommitRes}
    (h : StoreAlpha s) (hk : Alphabet key)
    (hdc : doCommit c s [.cas (idxKey key) new old, .put (encode key rev) v] f = (r, st)) : StoreAlpha st := by
  rcases doCommit_cas_cases hdc with ⟨_, _, e⟩ | ⟨_, e⟩
  · rw [e]; exact h.wstore hk rev new v
  · rw [e]; exact h

theorem AlphaInv.deal {g : G} (h : AlphaInv g) (d : Nat) : AlphaInv { g with dealt := d } :=
  ⟨h.cl, h.sl, h.rq, h.st, h.rp⟩

theorem AlphaInv.setClient {g : G} (h : AlphaInv g) (c' : Client) (hc' : Alphabet c'.kind.key) :
    AlphaInv (g.setClient c') := by
  refine ⟨?_, h.sl, h.rq, h.st, h.rp⟩
  intro x hx
  simp only [G.setClient, List.mem_map] at hx
  obtain ⟨y, hy, e⟩ := hx
  split at e
  · rw [← e]; exact hc'
  · rw [← e]; exact h.cl y hy

theorem AlphaInv.finish {g : G} (h : AlphaInv g) (c : Client) (res : WriteRes) (rev : Nat) :
    AlphaInv (g.finish c res rev) :=
  ⟨fun x hx => h.cl x (List.mem_filter.mp hx).1, h.sl, h.rq, h.st, h.rp⟩

theorem AlphaInv.notify {g : G} (h : AlphaInv g) (w : WEvent) (hw : Alphabet w.key) : AlphaInv (g.notify w) := by
  unfold G.notify
  split
  · exact h
  · refine ⟨h.cl, ?_, h.rq, h.st, h.rp⟩
    intro s hs
    rcases List.mem_append.mp hs with hs | hs
    · exact h.sl s hs
    · rw [List.mem_singleton.mp hs]; exact hw

theorem AlphaInv.afterCommit {g : G} (h : AlphaInv g) {st : Store} (hst : StoreAlpha st) (r : CommitRes) (f : Fault)
    (key : Bytes) (rev : Nat) (val : Option Bytes) (exp : Expect) : AlphaInv (afterCommit g r st f key rev val exp) := by
  unfold SysStore.afterCommit
  split
  · exact ⟨h.cl, h.sl, h.rq, hst, h.rp⟩
  · exact ⟨h.cl, h.sl, h.rq, hst, h.rp⟩

theorem AlphaInv.finishCreate {g : G} (h : AlphaInv g) (c : Client) (hc : Alphabet c.kind.key) {key : Bytes}
    (hk : Alphabet key) (val : Bytes) (rev : Nat) (r : CommitRes) : AlphaInv (finishCreate g c key val rev r) := by
  have hn := h.notify (mkW rev 0 (r == .ok) .create key val (r == .uncertain)) hk
  unfold KB.finishCreate
  split
  · exact hn.finish ..
  · split
    · exact hn.setClient _ hc
    · exact hn.finish ..
  · exact hn.finish ..

theorem AlphaInv.createSawIndex {g : G} (h : AlphaInv g) (c : Client) (hc : Alphabet c.kind.key) {key : Bytes}
    (hk : Alphabet key) (val : Bytes) (rev : Nat) (old : Bytes) (att : Nat) :
    AlphaInv (createSawIndex g c key val rev old att) := by
  unfold KB.createSawIndex
  split
  · exact h.finishCreate c hc hk ..
  · split
    · exact h.setClient _ hc
    · exact h.finishCreate c hc hk ..

theorem AlphaInv.stepClient {g : G} (h : AlphaInv g) {c : Client} (hc : c ∈ g.clients) (f : Fault) :
    AlphaInv (stepClient g c f) := by
  have hck := h.cl c hc
  have hkv : ∀ {key val : Bytes}, c.kind.kv = (key, val) → Alphabet key := by
    intro key val e
    have := c.kind.kv_key
    rw [e] at this
    simp only at this
    rw [this]; exact hck
  apply stepClient_cases' (P := AlphaInv)
  · intros; exact (h.deal _).setClient _ hck
  · intro key val exp _ hkind
    have hkey : Alphabet key := by simpa [hkind, ReqKind.key] using hck
    split
    · exact (h.deal _).setClient _ hck
    · split
      · exact ((h.deal _).notify _ hkey).finish ..
      · exact (h.deal _).setClient _ hck
  · intro rev key val r st _ hk hdc
    have hkey := hkv hk
    have ha := h.afterCommit (h.st.pine hkey hdc) r f key rev (some val) .absent
    split
    · split
      · exact ha.createSawIndex c hck hkey ..
      · exact ha.setClient _ hck
    · exact ha.finishCreate c hck hkey ..
  · intro rev key val _ hk
    have hkey := hkv hk
    split
    · exact h.createSawIndex c hck hkey ..
    · exact h.setClient _ hck
  · intro rev key val r st _ hk hdc
    have hkey := hkv hk
    exact (h.afterCommit (h.st.pine hkey hdc) r f key rev (some val) .absent).finishCreate c hck hkey ..
  · intro rev old att key val r st _ hk hdc
    have hkey := hkv hk
    have ha := h.afterCommit (h.st.cas hkey hdc) r f key rev (some val) .absent
    split
    · exact ha.setClient _ hck
    · exact ha.finishCreate c hck hkey ..
  · intro rev att key val _ hk
    have hkey := hkv hk
    split
    · split
      · exact h.finishCreate c hck hkey ..
      · exact h.createSawIndex c hck hkey ..
    · exact h.setClient _ hck
  · intro rev key val exp r st _ hkind hdc
    have hkey : Alphabet key := by simpa [hkind, ReqKind.key] using hck
    have ha := (h.afterCommit (h.st.cas hkey hdc) r f key rev (some val) (.rev exp)).notify
      (mkW rev exp (r == .ok) .put key val (r == .uncertain)) hkey
    split
    · exact ha.finish ..
    · exact ha.setClient _ hck
    · exact ha.finish ..
  · intros; split <;> exact h.setClient _ hck
  · intro key exp _ hkind
    have hkey : Alphabet key := by simpa [hkind, ReqKind.key] using hck
    exact ((h.deal _).notify _ hkey).finish ..
  · intro oldVal modRev key exp _ hkind
    have hkey : Alphabet key := by simpa [hkind, ReqKind.key] using hck
    split
    · exact ((h.deal _).notify _ hkey).finish ..
    · split
      · exact ((h.deal _).notify _ hkey).setClient _ hck
      · split
        · exact ((h.deal _).notify _ hkey).finish ..
        · exact (h.deal _).setClient _ hck
  · intro rev oldVal modRev key exp r st _ hkind hdc
    have hkey : Alphabet key := by simpa [hkind, ReqKind.key] using hck
    have ha := (h.afterCommit (h.st.cas hkey hdc) r f key rev none (.rev modRev)).notify
      (mkW rev modRev (r == .ok) .delete key oldVal (r == .uncertain)) hkey
    split
    · exact ha.finish ..
    · exact ha.setClient _ hck
    · exact ha.finish ..
  · intros; split <;> exact h.finish ..
  · exact h
  · intro _ _
    exact ⟨fun x hx => h.cl x (List.mem_filter.mp hx).1, h.sl, h.rq, h.st, h.rp⟩

theorem AlphaInv.stepSeq {g : G} (h : AlphaInv g) : AlphaInv (stepSeq g) := by
  unfold KB.stepSeq
  split
  · exact h
  · rename_i w hw
    have hwm : w ∈ g.slots := List.mem_of_find?_eq_some hw
    refine ⟨h.cl, fun s hs => h.sl s (List.mem_filter.mp hs).1, ?_, h.st, h.rp⟩
    intro q hq
    simp only at hq
    split at hq
    · rcases List.mem_append.mp hq with hq | hq
      · exact h.rq q hq
      · rw [List.mem_singleton.mp hq]; exact h.sl w hwm
    · exact h.rq q hq

theorem AlphaInv.stepRetryRead {g : G} (h : AlphaInv g) : AlphaInv (stepRetryRead g) := by
  apply stepRetryRead_cases (P := AlphaInv)
  · intros; exact h
  · intros; exact h
  · intro w rest _ hq _
    exact ⟨h.cl, h.sl, fun q hqm => h.rq q (by rw [hq]; exact List.mem_cons_of_mem _ hqm), h.st, h.rp⟩
  · intro w rest val _ hq _ _ _
    refine ⟨h.cl, h.sl, h.rq, h.st, ?_⟩
    intro p hp
    have hp' : some ({ w := w, rev := g.dealt + 1, val := val } : RetryPc) = some p := hp
    simp only [Option.some.injEq] at hp'
    subst hp'
    exact h.rq w (by rw [hq]; exact List.mem_cons_self ..)
  · intros; exact h

theorem AlphaInv.stepRetryCommit {g : G} (h : AlphaInv g) (f : Fault) : AlphaInv (stepRetryCommit g f) := by
  apply stepRetryCommit_cases (P := AlphaInv)
  · intro _; exact h
  · intro p r st hp hdc
    have hw : Alphabet p.w.key := h.rp p hp
    have h1 : AlphaInv ({ g with retryPc := none
                                 retryQ := (if r == CommitRes.ok || r.isCas then g.retryQ.drop 1 else g.retryQ) } : G) := by
      refine ⟨h.cl, h.sl, ?_, h.st, fun q hq => by cases hq⟩
      intro q hqm
      simp only at hqm
      split at hqm
      · exact h.rq q (List.mem_of_mem_drop hqm)
      · exact h.rq q hqm
    exact (h1.afterCommit (h.st.cas hw hdc) r f p.w.key p.rev _ (.rev p.w.rev)).notify _ hw

/-- a request whose key is over the documented alphabet -/
def ActAlpha (a : Action) : Prop := ∀ id kind, a = .begin id kind → Alphabet kind.key

theorem AlphaInv.act {g : G} (h : AlphaInv g) (a : Action) (ha : ActAlpha a) : AlphaInv (act g a) := by
  cases a with
  | begin id kind =>
    unfold KB.act; simp only []; split
    · exact h
    · refine ⟨?_, h.sl, h.rq, h.st, h.rp⟩
      intro c hc
      rcases List.mem_append.mp hc with hc | hc
      · exact h.cl c hc
      · rw [List.mem_singleton.mp hc]; exact ha id kind rfl
  | step id f =>
    unfold KB.act; simp only []; split
    · exact h
    · rename_i c hc
      exact h.stepClient (mem_client hc).1 f
  | seq => exact h.stepSeq
  | retry f => exact h.stepRetryRead.stepRetryCommit f
  | retryRead => exact h.stepRetryRead
  | retryCommit f => exact h.stepRetryCommit f

theorem AlphaInv.run {g : G} (h : AlphaInv g) (s : List Action) (hs : ∀ a ∈ s, ActAlpha a) : AlphaInv (run g s) := by
  induction s generalizing g with
  | nil => exact h
  | cons a s ih =>
    exact ih (h.act a (hs a (List.mem_cons_self ..))) (fun b hb => hs b (List.mem_cons_of_mem _ hb))

theorem AlphaInv.init {g0 : G} (h0 : C02.Init g0) (hs : C02.StoreOK g0) : AlphaInv g0 := by
  obtain ⟨⟨_, hsl, hcl, hq, hp⟩, _⟩ := h0
  obtain ⟨recs, hst, _, hrecs, _⟩ := hs
  refine ⟨by simp [hcl], by simp [hsl], by simp [hq], ?_, by simp [hp]⟩
  intro kv hkv
  rw [hst] at hkv
  obtain ⟨r, hr, e⟩ := List.mem_map.mp hkv
  exact ⟨r.key, r.rev, by rw [← e], (hrecs r hr).1⟩

end KB
