/- Helper lemmas for C20 (request part). -/
import KB.Props.C02Store
import KB.Props.C01
import KB.Props.C04
namespace KB
end KB
