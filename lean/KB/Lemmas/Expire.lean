/- Helper lemmas for C17. -/
import KB.Backend
namespace KB
open Generated

theorem eventsMatchScanner_eq : (eventsMatchScanner == "HasPrefix:eventsPrefix") = true := by decide
theorem eventsMatchTxn_eq : (eventsMatchTxn == "HasPrefix:getEventsPrefix") = true := by decide
theorem eventsPrefixShape_eq : (eventsPrefixShape == "prefix+events") = true := by decide

theorem isEventKey_eq (c : WCfg) (k : Bytes) :
    isEventKey c k = (decide (c.eventsPfx.length > 0) && hasPrefix k c.eventsPfx) := by
  unfold isEventKey
  rw [eventsMatchScanner_eq]
  rfl

theorem isEventKey_nil (c : WCfg) : isEventKey c [] = false := by
  rw [isEventKey_eq]
  cases h : c.eventsPfx with
  | nil => simp
  | cons a as => simp [hasPrefix]

theorem eventsPrefixOf_eq (c : Cfg) : eventsPrefixOf c = c.pfx ++ eventsPattern := by
  unfold eventsPrefixOf
  rw [eventsPrefixShape_eq]
  rfl

theorem createHasTTL_eq (c : Cfg) (key : Bytes) :
    createHasTTL c key = hasPrefix key (c.pfx ++ eventsPattern) := by
  unfold createHasTTL
  rw [eventsMatchTxn_eq, eventsPrefixOf_eq]
  rfl

/-- Every element of `takeWhile p l` is in `l` and satisfies `p`. -/
theorem mem_takeWhile_imp' {α : Type} {p : α → Bool} {l : List α} {x : α}
    (h : x ∈ l.takeWhile p) : x ∈ l ∧ p x = true := by
  induction l with
  | nil => simp at h
  | cons a as ih =>
    rw [List.takeWhile_cons] at h
    by_cases hp : p a = true
    · rw [if_pos hp] at h
      rcases List.mem_cons.mp h with rfl | h
      · exact ⟨List.mem_cons_self, hp⟩
      · exact ⟨List.mem_cons_of_mem _ (ih h).1, (ih h).2⟩
    · rw [if_neg hp] at h
      simp at h

theorem hasPrefix_append_left (p a b : Bytes) : hasPrefix (p ++ a) (p ++ b) = hasPrefix a b := by
  induction p with
  | nil => rfl
  | cons x xs ih => simp [hasPrefix, ih]

end KB
