/- Helper lemmas for C16, range part: the shim's Range over an encoded store against the reference
Range over the MVCC history that store abstracts to. -/
import KB.Lemmas.Etcd
import KB.Lemmas.Bounds
import KB.Props.C03
namespace KB.Etcd
open KB Generated

/-! ### strictly sorted lists are determined by their members -/

def kvLt (a b : KB.KV) : Prop := cmp a.1 b.1 = .lt

theorem sorted_ext : ∀ {l1 l2 : List KB.KV}, l1.Pairwise kvLt → l2.Pairwise kvLt →
    (∀ e, e ∈ l1 ↔ e ∈ l2) → l1 = l2
  | [], [], _, _, _ => rfl
  | [], b :: _, _, _, h => by have := (h b).mpr (by simp); simp at this
  | a :: _, [], _, _, h => by have := (h a).mp (by simp); simp at this
  | a :: t1, b :: t2, h1, h2, h => by
    rw [List.pairwise_cons] at h1 h2
    have hab : a = b := by
      have ha : a ∈ b :: t2 := (h a).mp (by simp)
      have hb : b ∈ a :: t1 := (h b).mpr (by simp)
      rcases List.mem_cons.mp ha with rfl | ha'
      · rfl
      · rcases List.mem_cons.mp hb with rfl | hb'
        · rfl
        · have x1 : kvLt b a := h2.1 a ha'
          have x2 : kvLt a b := h1.1 b hb'
          exact absurd (cmp_lt_trans x2 x1) cmp_lt_irrefl
    subst hab
    congr 1
    apply sorted_ext h1.2 h2.2
    intro e
    constructor
    · intro he
      rcases List.mem_cons.mp ((h e).mp (List.mem_cons_of_mem _ he)) with rfl | h'
      · exact absurd (h1.1 _ he) cmp_lt_irrefl
      · exact h'
    · intro he
      rcases List.mem_cons.mp ((h e).mpr (List.mem_cons_of_mem _ he)) with rfl | h'
      · exact absurd (h2.1 _ he) cmp_lt_irrefl
      · exact h'

/-! ### scanning a key-filtered store = filtering the scan -/

theorem sortedRecs_filter {recs : List Rec} (hs : SortedRecs recs) (P : Rec → Bool) : SortedRecs (recs.filter P) :=
  List.Pairwise.filter _ hs

theorem visible_filter_key (R : Nat) (recs : List Rec) (P : Bytes → Bool) (k : Bytes) :
    visible R (recs.filter (fun r => P r.key)) k = if P k then visible R recs k else none := by
  rw [visible_def, visible_def, List.filter_filter]
  by_cases hp : P k = true
  · rw [if_pos hp]
    congr 1
    apply List.filter_congr
    intro x _
    by_cases hv : vis R k x = true
    · have hk : x.key = k := (vis_iff.mp hv).1
      simp [hv, hk, hp]
    · simp [hv]
  · rw [if_neg hp]
    have : recs.filter (fun a => vis R k a && P a.key) = [] := by
      apply List.filter_eq_nil_iff.mpr
      intro x _
      by_cases hv : vis R k x = true
      · have hk : x.key = k := (vis_iff.mp hv).1
        simp [hk, hp]
      · simp [hv]
    rw [this]
    rfl

theorem readAt_filter_key (R : Nat) (recs : List Rec) (P : Bytes → Bool) (k : Bytes) :
    readAt R (recs.filter (fun r => P r.key)) k = if P k then readAt R recs k else none := by
  rw [readAt_def, readAt_def, visible_filter_key]
  by_cases hp : P k = true <;> simp [hp, readOne]

theorem scan_filter_key {recs : List Rec} (hs : SortedRecs recs) (R : Nat) (P : Bytes → Bool) :
    scanRecs R (recs.filter (fun r => P r.key)) = (scanRecs R recs).filter (fun e => P e.1) := by
  apply sorted_ext
  · exact scanRecs_sorted (sortedRecs_filter hs _) R
  · exact List.Pairwise.filter _ (scanRecs_sorted hs R)
  · intro e
    obtain ⟨k, v, r⟩ := e
    rw [mem_scanRecs_iff (sortedRecs_filter hs _), List.mem_filter, mem_scanRecs_iff hs, readAt_filter_key]
    by_cases hp : P k = true
    · simp [hp]
    · simp [hp]

/-! ### the history an encoded store abstracts to -/

def fullOf (e : KB.KV) : KVFull := { key := e.1, val := e.2.1, mod := e.2.2 }

theorem proj_fullOf (e : KB.KV) : (fullOf e).proj = e := rfl

/-- the etcd state at revision `R`: the snapshot the worker loop computes (C03: `mem_scan_iff`,
`scan_keys_sorted` characterise it as "newest version ≤ R of every key, unless deleted") -/
def mvccAt (recs : List Rec) (R : Nat) : Mvcc := { rev := R, kvs := (scanRecs R recs).map fullOf }

def histOf (recs : List Rec) (committed : Nat) : Hist := { cur := committed, floor := 0, at_ := mvccAt recs }

/-- how a quiescent backend state abstracts to a history: the engine holds the encoded records of a
sorted decoded store over the key alphabet, nothing is newer than the committed revision, one
partition, Count enabled -/
structure StoreAbs (c : Cfg) (s : BState) (recs : List Rec) : Prop where
  store : s.store = encodeStore recs
  sorted : SortedRecs recs
  keys : ∀ r ∈ recs, Alphabet r.key ∧ r.rev < 2 ^ 64
  newest : ∀ r ∈ recs, r.rev ≤ s.committed
  single : c.splits = []
  compat : c.etcdCompat = true

/-- no option the shim ignores is set -/
def PlainRange (r : RangeReq) : Prop :=
  r.keysOnly = false ∧ r.sortDesc = false ∧ r.minMod = 0 ∧ r.maxMod = 0 ∧ r.minCreate = 0 ∧ r.maxCreate = 0

theorem mem_scan_rev {recs : List Rec} (hs : SortedRecs recs) {R : Nat} {k v : Bytes} {r : Nat}
    (h : (k, v, r) ∈ scanRecs R recs) : ∃ x ∈ recs, x.rev = r := by
  rw [mem_scanRecs_iff hs, readAt_def] at h
  cases hv : visible R recs k with
  | none => simp [hv, readOne] at h
  | some x =>
    rw [hv] at h
    simp only [readOne] at h
    split at h
    · cases h
    · simp only [Option.some.injEq, Prod.mk.injEq] at h
      exact ⟨x, (visible_some_mem hv).1, h.2⟩

theorem hdrOf_le (c : Nat) (kvs : List (Bytes × Bytes × Nat)) (h : ∀ e ∈ kvs, e.2.2 ≤ c) : hdrOf c kvs = c := by
  unfold hdrOf
  induction kvs with
  | nil => rfl
  | cons x xs ih =>
    simp only [List.foldl_cons]
    have hx : x.2.2 ≤ c := h x (by simp)
    rw [Nat.max_eq_left hx]
    exact ih (fun e he => h e (List.mem_cons_of_mem _ he))

theorem alphabet_ne_zero {b : Bytes} (hb : Alphabet b) (hne : b ≠ []) : (b == [0]) = false := by
  cases b with
  | nil => exact absurd rfl hne
  | cons x xs =>
    have : splitByte < x := hb x (by simp)
    simp only [splitByte] at this
    simp only [beq_eq_false_iff_ne, ne_eq, List.cons.injEq, not_and]
    intro hx
    omega

theorem ne_nil_of_lt {a b : Bytes} (hab : cmp a b = .lt) : b ≠ [] := by
  intro h
  subst h
  cases a <;> simp at hab

/-- the reference's candidate list for a proper interval (`range_end` other than etcd's "from key" `\0`) -/
theorem ref_all_interval' (recs : List Rec) (hs : SortedRecs recs) (R : Nat) (a b : Bytes)
    (h0 : (b == [0]) = false) (hab : cmp a b = .lt) :
    ((mvccAt recs R).range a b).map KVFull.proj = scanRecs R (recs.filter (inRange a b)) := by
  have hne := ne_nil_of_lt hab
  have hemp : b.isEmpty = false := by cases b <;> simp_all
  have : scanRecs R (recs.filter (inRange a b)) = (scanRecs R recs).filter (fun e => ble a e.1 && blt e.1 b) :=
    scan_filter_key hs R (fun k => ble a k && blt k b)
  rw [this]
  unfold Mvcc.range mvccAt
  simp only [List.filter_map, List.map_map]
  have hf : (fun e : KVFull => inInterval a b e.key) ∘ fullOf = fun e : KB.KV => ble a e.1 && blt e.1 b := by
    funext e
    simp [inInterval, hemp, h0, fullOf]
  rw [hf]
  have hid : KVFull.proj ∘ fullOf = id := by funext e; rfl
  rw [hid, List.map_id]

theorem ref_all_interval (recs : List Rec) (hs : SortedRecs recs) (R : Nat) (a b : Bytes)
    (hb : Alphabet b) (hab : cmp a b = .lt) :
    ((mvccAt recs R).range a b).map KVFull.proj = scanRecs R (recs.filter (inRange a b)) :=
  ref_all_interval' recs hs R a b (alphabet_ne_zero hb (ne_nil_of_lt hab)) hab

/-- a range bound above ANY non-empty key is not etcd's "from key" marker `\0` (`[0]` is the smallest non-empty
byte string) -/
theorem end_ne_zero_of_lt {a b : Bytes} (hne : a ≠ []) (hab : cmp a b = .lt) : (b == [0]) = false := by
  cases a with
  | nil => exact absurd rfl hne
  | cons x xs =>
    simp only [beq_eq_false_iff_ne, ne_eq]
    intro hb
    subst hb
    rw [cmp_cons_cons] at hab
    by_cases hx : 0 < x
    · simp [hx] at hab
    · have : x = 0 := by omega
      subst this
      cases xs <;> simp at hab

/-- a range bound above a non-empty key over the alphabet is not etcd's "from key" marker `\0` -/
theorem bound_ne_zero {a b : Bytes} (ha : Alphabet a) (hne : a ≠ []) (hab : cmp a b = .lt) : (b == [0]) = false := by
  cases a with
  | nil => exact absurd rfl hne
  | cons x xs =>
    have hx : splitByte < x := ha x (by simp)
    simp only [splitByte] at hx
    simp only [beq_eq_false_iff_ne, ne_eq]
    intro hb
    subst hb
    have h1 : ¬ x < 0 := by omega
    have h2 : 0 < x := by omega
    simp [cmp_cons_cons, h2] at hab

theorem readRev_eq {rev : Int} {committed : Nat} (h0 : 0 ≤ rev) (hlt : rev < 2 ^ 64) :
    (if rev ≤ 0 then committed else rev.toNat) = C03.readRev (toU64 rev) committed := by
  rw [toU64_of_nonneg h0 hlt]
  unfold C03.readRev
  by_cases hz : rev = 0
  · subst hz; simp
  · have h1 : ¬ rev ≤ 0 := by omega
    have h2 : ¬ rev.toNat = 0 := by omega
    simp [h1, h2]

theorem isEmpty_false_of_ne {b : Bytes} (h : b ≠ []) : b.isEmpty = false := by
  cases b <;> simp_all

/-- the reference's answer to a plain range over a proper interval, in terms of the scan -/
theorem refRangeOn_interval' (recs : List Rec) (hs : SortedRecs recs) (R : Nat) (r : RangeReq)
    (hp : PlainRange r) (hco : r.countOnly = false) (h0 : (r.rangeEnd == [0]) = false)
    (hlt : cmp r.key r.rangeEnd = .lt) :
    refRangeOn (mvccAt recs R) r =
      { hdr := R,
        kvs := if r.limit.toNat = 0 then scanRecs R (recs.filter (inRange r.key r.rangeEnd))
               else (scanRecs R (recs.filter (inRange r.key r.rangeEnd))).take r.limit.toNat,
        count := (scanRecs R (recs.filter (inRange r.key r.rangeEnd))).length,
        more := decide (0 < r.limit.toNat ∧ r.limit.toNat < (scanRecs R (recs.filter (inRange r.key r.rangeEnd))).length) } := by
  obtain ⟨hp1, hp2, hp3, hp4, hp5, hp6⟩ := hp
  have hfull := ref_all_interval' recs hs R r.key r.rangeEnd h0 hlt
  generalize scanRecs R (recs.filter (inRange r.key r.rangeEnd)) = full at hfull
  generalize hall : (mvccAt recs R).range r.key r.rangeEnd = all at hfull
  have hft : ∀ l : List KVFull, l.filter (fun _ => true) = l := fun l => List.filter_eq_self.mpr (by simp)
  have hlen : all.length = full.length := by rw [← hfull, List.length_map]
  unfold refRangeOn
  simp only [hp1, hp2, hp3, hp4, hp5, hp6, hco, inBounds, hall, beq_self_eq_true, Bool.true_or, Bool.and_self, hft,
    Bool.false_eq_true, if_false, hlen]
  have hrev : (mvccAt recs R).rev = R := rfl
  rw [hrev]
  congr 1
  · by_cases hn : r.limit.toNat = 0
    · have : ¬ r.limit.toNat > 0 := by omega
      simp only [hn, this, if_false, if_true]
      exact hfull
    · have : r.limit.toNat > 0 := by omega
      simp only [hn, this, if_false, if_true]
      rw [List.map_take]
      exact congrArg _ hfull

theorem refRangeH_ok (recs : List Rec) (committed : Nat) (r : RangeReq) (hk : r.key ≠ [])
    (h0 : 0 ≤ r.revision) (hle : r.revision ≤ committed) (hlt : r.revision < 2 ^ 64) :
    refRangeH (histOf recs committed) r =
      .ok { refRangeOn (mvccAt recs (C03.readRev (toU64 r.revision) committed)) r with hdr := committed } := by
  have hke := isEmpty_false_of_ne hk
  rw [toU64_of_nonneg h0 hlt]
  unfold refRangeH C03.readRev
  by_cases hz : r.revision = 0
  · simp [hke, hz, histOf]
  · have h1 : ¬ r.revision ≤ 0 := by omega
    have h2 : ¬ r.revision.toNat = 0 := by omega
    have h3 : ¬ committed < r.revision.toNat := by omega
    simp [hke, h1, h2, h3, histOf]

theorem readRev_le {rev : Int} {committed : Nat} (h0 : 0 ≤ rev) (hle : rev ≤ committed) (hlt : rev < 2 ^ 64) :
    C03.readRev (toU64 rev) committed ≤ committed := by
  rw [toU64_of_nonneg h0 hlt]
  unfold C03.readRev
  by_cases hz : rev.toNat = 0
  · simp [hz]
  · simp only [beq_iff_eq, hz, if_false]; omega

/-! ### the guard of the partition-listing branch (/repo e617587) -/

/-- the hypothesis of the list theorems on the magic revision: AT the magic revision the request carries a limit or
`count_only` (then it is an ordinary read) -/
theorem magicGuard_false_of {r : RangeReq}
    (h : r.revision = getPartitionMagic → r.limit ≠ 0 ∨ r.countOnly = true) : magicGuard r = false := by
  unfold magicGuard
  by_cases hr : r.revision = getPartitionMagic
  · rcases h hr with hl | hc
    · have : (r.limit == 0) = false := by simpa using hl
      simp [this]
    · simp [hc]
  · have : (r.revision == getPartitionMagic) = false := by simpa using hr
    simp [this]

theorem magicGuard_false_of_count {r : RangeReq} (hco : r.countOnly = true) : magicGuard r = false :=
  magicGuard_false_of (fun _ => .inr hco)

theorem magicGuard_false_of_limit {r : RangeReq} (hl : r.limit ≠ 0) : magicGuard r = false :=
  magicGuard_false_of (fun _ => .inl hl)

theorem magicGuard_iff (r : RangeReq) :
    magicGuard r = true ↔ r.revision = getPartitionMagic ∧ r.limit = 0 ∧ r.countOnly = false := by
  simp [magicGuard, and_assoc]

/-- the new guard implies the old one: whatever is still a partition listing was one before -/
theorem magicGuardOld_of_magicGuard {r : RangeReq} (h : magicGuard r = true) : magicGuardOld r = true := by
  have := (magicGuard_iff r).mp h
  simp [magicGuardOld, this.1]

/-- the range read against the reference, for ARBITRARY bounds (any byte strings: keys over the alphabet, continue
keys `K ++ [0]`, bounds with any other byte at or below the split byte) -/
theorem range_list_sound_bounds (c : Cfg) (s : BState) (recs : List Rec) (hst : StoreAbs c s recs) (r : RangeReq)
    (hp : PlainRange r) (hco : r.countOnly = false) (hk : r.key ≠ []) (hlt : cmp r.key r.rangeEnd = .lt)
    (hr0 : 0 ≤ r.revision)
    (hrc : r.revision ≤ s.committed)
    (hmagic : r.revision = getPartitionMagic → r.limit ≠ 0 ∨ r.countOnly = true) (hcb : s.committed < 2 ^ 64) :
    ∃ a b, shimRange c s r = .ok a ∧ refRangeH (histOf recs s.committed) r = .ok b ∧
      a.hdr = b.hdr ∧ a.kvs = b.kvs ∧ a.more = b.more ∧ a.count ≤ b.count ∧ (a.more = false → a.count = b.count) := by
  have hee := isEmpty_false_of_ne (ne_nil_of_lt hlt)
  have h0 := end_ne_zero_of_lt hk hlt
  have hrl : r.revision < 2 ^ 64 := by omega
  obtain ⟨res, hres, hhdr, hkvs, hmore⟩ := doList_bounds_spec c hst.single s hst.store hst.keys
    r.key r.rangeEnd hlt (toU64 r.revision) r.limit.toNat
  have href := refRangeH_ok recs s.committed r hk hr0 hrc hrl
  have hRle := readRev_le (committed := s.committed) hr0 hrc hrl
  generalize C03.readRev (toU64 r.revision) s.committed = R at hkvs hmore href hRle
  rw [refRangeOn_interval' recs hst.sorted R r hp hco h0 hlt] at href
  change res.kvs = (if r.limit.toNat = 0 then scanRecs R (recs.filter (inRange r.key r.rangeEnd))
    else (scanRecs R (recs.filter (inRange r.key r.rangeEnd))).take r.limit.toNat) at hkvs
  change res.more = true ↔ 0 < r.limit.toNat ∧
    r.limit.toNat < (scanRecs R (recs.filter (inRange r.key r.rangeEnd))).length at hmore
  -- the header: nothing returned is newer than the committed revision
  have hh : res.hdr = s.committed := by
    rw [hhdr]
    apply hdrOf_le
    intro e he
    have hmem : e ∈ scanRecs R (recs.filter (inRange r.key r.rangeEnd)) := by
      rw [hkvs] at he
      by_cases hn : r.limit.toNat = 0
      · simpa [hn] using he
      · simp only [hn, if_false] at he
        exact List.mem_of_mem_take he
    obtain ⟨k, v, m⟩ := e
    obtain ⟨x, hx, hxr⟩ := mem_scan_rev (sortedRecs_filter hst.sorted _) hmem
    have := hst.newest x (List.mem_filter.mp hx).1
    simp only
    omega
  generalize scanRecs R (recs.filter (inRange r.key r.rangeEnd)) = full at hkvs hmore href
  have hm : magicGuard r = false := magicGuard_false_of hmagic
  have hshim : shimRange c s r =
      .ok ⟨res.hdr, res.kvs, res.kvs.length + (if res.more then 1 else 0), res.more⟩ := by
    simp [shimRange, hee, hm, hco, hres, liftScan]
  refine ⟨_, _, hshim, href, hh, hkvs, ?_, ?_, ?_⟩
  · cases hmr : res.more with
    | true => have := hmore.mp hmr; simp [this.1, this.2]
    | false =>
      have hnot : ¬ (0 < r.limit.toNat ∧ r.limit.toNat < full.length) := fun hc => by
        have := hmore.mpr hc; rw [hmr] at this; cases this
      symm
      simpa using hnot
  · simp only
    rw [hkvs]
    cases hmr : res.more with
    | true =>
      have := hmore.mp hmr
      have hn : ¬ r.limit.toNat = 0 := by omega
      simp only [hn, if_false, List.length_take, if_true]
      omega
    | false =>
      by_cases hn : r.limit.toNat = 0
      · simp [hn]
      · simp only [hn, if_false, List.length_take, Bool.false_eq_true]
        omega
  · intro hmr
    simp only at hmr
    simp only
    rw [hkvs, hmr]
    have hnot : ¬ (0 < r.limit.toNat ∧ r.limit.toNat < full.length) := fun hc => by
      have := hmore.mpr hc; rw [hmr] at this; cases this
    by_cases hn : r.limit.toNat = 0
    · simp [hn]
    · simp only [hn, if_false, List.length_take, Bool.false_eq_true]
      omega

theorem range_list_sound (c : Cfg) (s : BState) (recs : List Rec) (hst : StoreAbs c s recs) (r : RangeReq)
    (hp : PlainRange r) (hco : r.countOnly = false) (hk : r.key ≠ []) (hka : Alphabet r.key)
    (hea : Alphabet r.rangeEnd) (hlt : cmp r.key r.rangeEnd = .lt) (hr0 : 0 ≤ r.revision)
    (hrc : r.revision ≤ s.committed)
    (hmagic : r.revision = getPartitionMagic → r.limit ≠ 0 ∨ r.countOnly = true) (hcb : s.committed < 2 ^ 64) :
    ∃ a b, shimRange c s r = .ok a ∧ refRangeH (histOf recs s.committed) r = .ok b ∧
      a.hdr = b.hdr ∧ a.kvs = b.kvs ∧ a.more = b.more ∧ a.count ≤ b.count ∧ (a.more = false → a.count = b.count) :=
  range_list_sound_bounds c s recs hst r hp hco hk hlt hr0 hrc hmagic hcb

/-- `count_only` at an explicit revision (/repo 5f2847c): the size of the range read at THAT revision; the whole
response equals etcd's — at EVERY revision `0 < R ≤ committed`, the magic 1888 included (/repo e617587) -/
theorem range_count_rev_sound (c : Cfg) (s : BState) (recs : List Rec) (hst : StoreAbs c s recs) (r : RangeReq)
    (hp : PlainRange r) (hco : r.countOnly = true) (hk : r.key ≠ []) (hlt : cmp r.key r.rangeEnd = .lt)
    (hr0 : 0 < r.revision) (hrc : r.revision ≤ s.committed)
    (hcb : s.committed < 2 ^ 64) :
    ∃ a, shimRange c s r = .ok a ∧ refRangeH (histOf recs s.committed) r = .ok a := by
  obtain ⟨hp1, hp2, hp3, hp4, hp5, hp6⟩ := hp
  have hee := isEmpty_false_of_ne (ne_nil_of_lt hlt)
  have hrl : r.revision < 2 ^ 64 := by omega
  have hm : magicGuard r = false := magicGuard_false_of_count hco
  have h0 := end_ne_zero_of_lt hk hlt
  have hlist := doList_bounds_unlimited c hst.single s hst.store hst.keys hlt (toU64 r.revision)
  have href := refRangeH_ok recs s.committed r hk (by omega) hrc hrl
  have hRle := readRev_le (committed := s.committed) (rev := r.revision) (by omega) hrc hrl
  have hRR : (if (toU64 r.revision == 0) = true then s.committed else toU64 r.revision) =
      C03.readRev (toU64 r.revision) s.committed := rfl
  rw [hRR] at hlist
  generalize C03.readRev (toU64 r.revision) s.committed = R at hlist href hRle
  have hfull := ref_all_interval' recs hst.sorted R r.key r.rangeEnd h0 hlt
  have hlen : ((mvccAt recs R).range r.key r.rangeEnd).length =
      (scanRecs R (recs.filter (inRange r.key r.rangeEnd))).length := by rw [← hfull, List.length_map]
  have hft : ∀ l : List KVFull, l.filter (fun _ => true) = l := fun l => List.filter_eq_self.mpr (by simp)
  -- the header: nothing counted is newer than the committed revision
  have hh : hdrOf s.committed (scanRecs R (recs.filter (inRange r.key r.rangeEnd))) = s.committed := by
    apply hdrOf_le
    intro e he
    obtain ⟨k, v, m⟩ := e
    obtain ⟨x, hx, hxr⟩ := mem_scan_rev (sortedRecs_filter hst.sorted _) he
    have := hst.newest x (List.mem_filter.mp hx).1
    simp only
    omega
  refine ⟨⟨s.committed, [], (scanRecs R (recs.filter (inRange r.key r.rangeEnd))).length, false⟩, ?_, ?_⟩
  · simp only [shimRange, hee, hm, hco, hr0, hlist, liftScan, hh, Bool.false_eq_true, if_false, if_true,
      gt_iff_lt]
  · rw [href]
    simp [refRangeOn, hp1, hp2, hp3, hp4, hp5, hp6, hco, inBounds, hft, hlen]

/-- `count_only` at the current revision, for ARBITRARY bounds -/
theorem range_count_sound_bounds (c : Cfg) (s : BState) (recs : List Rec) (hst : StoreAbs c s recs) (r : RangeReq)
    (hp : PlainRange r) (hco : r.countOnly = true) (hk : r.key ≠ []) (hlt : cmp r.key r.rangeEnd = .lt)
    (hr0 : r.revision = 0) :
    ∃ a, shimRange c s r = .ok a ∧ refRangeH (histOf recs s.committed) r = .ok a := by
  obtain ⟨hp1, hp2, hp3, hp4, hp5, hp6⟩ := hp
  have hee := isEmpty_false_of_ne (ne_nil_of_lt hlt)
  have hke := isEmpty_false_of_ne hk
  have hcnt := doCount_bounds c hst.single hst.compat s hst.store hst.keys hlt
  have hfull := ref_all_interval' recs hst.sorted s.committed r.key r.rangeEnd (end_ne_zero_of_lt hk hlt) hlt
  have hlen : ((mvccAt recs s.committed).range r.key r.rangeEnd).length =
      (scanRecs s.committed (recs.filter (inRange r.key r.rangeEnd))).length := by rw [← hfull, List.length_map]
  have hft : ∀ l : List KVFull, l.filter (fun _ => true) = l := fun l => List.filter_eq_self.mpr (by simp)
  have hm : magicGuard r = false := magicGuard_false_of_count hco
  refine ⟨⟨s.committed, [], (scanRecs s.committed (recs.filter (inRange r.key r.rangeEnd))).length, false⟩, ?_, ?_⟩
  · have hr : ¬ r.revision > 0 := by omega
    simp only [shimRange, hee, hm, hco, hcnt, liftScan, Bool.false_eq_true, if_false, if_true, hr]
  · simp [refRangeH, hke, hr0, histOf, refRangeOn, hp1, hp2, hp3, hp4, hp5, hp6, hco, inBounds, hft, hlen]

theorem range_count_sound (c : Cfg) (s : BState) (recs : List Rec) (hst : StoreAbs c s recs) (r : RangeReq)
    (hp : PlainRange r) (hco : r.countOnly = true) (hk : r.key ≠ []) (_hka : Alphabet r.key)
    (_hea : Alphabet r.rangeEnd) (hlt : cmp r.key r.rangeEnd = .lt) (hr0 : r.revision = 0) :
    ∃ a, shimRange c s r = .ok a ∧ refRangeH (histOf recs s.committed) r = .ok a :=
  range_count_sound_bounds c s recs hst r hp hco hk hlt hr0

/-! ### point reads -/

theorem scan_point {recs : List Rec} (hs : SortedRecs recs) (R : Nat) (k : Bytes) :
    (scanRecs R recs).filter (fun e => e.1 == k) = match readAt R recs k with
      | none => []
      | some (v, r) => [(k, v, r)] := by
  apply sorted_ext
  · exact List.Pairwise.filter _ (scanRecs_sorted hs R)
  · cases readAt R recs k with
    | none => exact List.Pairwise.nil
    | some vr => exact List.pairwise_singleton _ _
  · intro e
    obtain ⟨k', v, r⟩ := e
    rw [List.mem_filter, mem_scanRecs_iff hs]
    constructor
    · rintro ⟨h1, h2⟩
      have hk : k' = k := by simpa using h2
      subst hk
      rw [h1]
      simp
    · intro h
      cases hr : readAt R recs k with
      | none => rw [hr] at h; cases h
      | some vr =>
        rw [hr] at h
        obtain ⟨v0, r0⟩ := vr
        simp only [List.mem_singleton, Prod.mk.injEq] at h
        obtain ⟨h1, h2, h3⟩ := h
        subst h1 h2 h3
        exact ⟨hr, by simp⟩

theorem visible_latest {recs : List Rec} {committed : Nat} (hk : ∀ r ∈ recs, r.rev < 2 ^ 64)
    (hn : ∀ r ∈ recs, r.rev ≤ committed) (k : Bytes) :
    visible (2 ^ 64 - 1) recs k = visible committed recs k := by
  rw [visible_def, visible_def]
  congr 1
  apply List.filter_congr
  intro x hx
  have h1 := hk x hx
  have h2 := hn x hx
  have e1 : decide (x.rev ≤ 2 ^ 64 - 1) = true := by simp; omega
  have e2 : decide (x.rev ≤ committed) = true := by simp; omega
  simp [vis, e1, e2]

theorem range_get_sound (c : Cfg) (s : BState) (recs : List Rec) (hst : StoreAbs c s recs) (r : RangeReq)
    (hp : PlainRange r) (hco : r.countOnly = false) (hlim : r.limit = 0) (hend : r.rangeEnd = [])
    (hk : r.key ≠ []) (hka : Alphabet r.key) (hr0 : 0 ≤ r.revision) (hrc : r.revision ≤ s.committed)
    (hcb : s.committed < 2 ^ 64) :
    ∃ a, shimRange c s r = .ok a ∧ refRangeH (histOf recs s.committed) r = .ok a := by
  obtain ⟨hp1, hp2, hp3, hp4, hp5, hp6⟩ := hp
  have hrl : r.revision < 2 ^ 64 := by omega
  have href := refRangeH_ok recs s.committed r hk hr0 hrc hrl
  have hRle := readRev_le (committed := s.committed) hr0 hrc hrl
  have hRlt : toU64 r.revision < 2 ^ 64 := by rw [toU64_of_nonneg hr0 hrl]; omega
  have hget := C03.get_spec c hst.sorted hst.keys r.key hka (toU64 r.revision) hRlt
  rw [← hst.store] at hget
  -- the revision the backend looks up is the read revision
  have hvis : visible (if (toU64 r.revision == 0) = true then 2 ^ 64 - 1 else toU64 r.revision) recs r.key =
      visible (C03.readRev (toU64 r.revision) s.committed) recs r.key := by
    unfold C03.readRev
    by_cases hz : toU64 r.revision = 0
    · simp only [hz, beq_self_eq_true, if_true]
      exact visible_latest (fun x hx => (hst.keys x hx).2) hst.newest r.key
    · simp [hz]
  rw [hvis] at hget
  generalize C03.readRev (toU64 r.revision) s.committed = R at hget href hRle
  have hft : ∀ l : List KVFull, l.filter (fun _ => true) = l := fun l => List.filter_eq_self.mpr (by simp)
  -- the reference's answer in terms of `readAt`
  have hall : ((mvccAt recs R).range r.key r.rangeEnd).map KVFull.proj =
      match readAt R recs r.key with | none => [] | some (v, m) => [(r.key, v, m)] := by
    rw [← scan_point hst.sorted R r.key, hend]
    unfold Mvcc.range mvccAt
    simp only [List.filter_map, List.map_map]
    have hf : (fun e : KVFull => inInterval r.key [] e.key) ∘ fullOf = fun e : KB.KV => e.1 == r.key := by
      funext e
      simp [inInterval, fullOf]
    rw [hf]
    have hid : KVFull.proj ∘ fullOf = id := by funext e; rfl
    rw [hid, List.map_id]
  have hrefOn : refRangeOn (mvccAt recs R) r =
      { hdr := R, kvs := (match readAt R recs r.key with | none => [] | some (v, m) => [(r.key, v, m)]),
        count := (match readAt R recs r.key with | none => [] | some (v, m) => [(r.key, v, m)]).length,
        more := false } := by
    generalize hg : (mvccAt recs R).range r.key r.rangeEnd = all at hall
    have hlen : all.length = (match readAt R recs r.key with | none => [] | some (v, m) => [(r.key, v, m)]).length := by
      rw [← hall, List.length_map]
    unfold refRangeOn
    simp only [hp1, hp2, hp3, hp4, hp5, hp6, hco, hlim, inBounds, hg, beq_self_eq_true, Bool.true_or, Bool.and_self,
      hft, Bool.false_eq_true, if_false, hlen]
    have hrev : (mvccAt recs R).rev = R := rfl
    rw [hrev]
    simp [hall]
  rw [hrefOn] at href
  -- the shim's answer
  rw [readAt_def] at href
  have hshim : shimRange c s r = .ok (match readOne (visible R recs r.key) with
      | none => ⟨s.committed, [], 0, false⟩
      | some (v, m) => ⟨s.committed, [(r.key, v, m)], 1, false⟩) := by
    have hee : r.rangeEnd.isEmpty = true := by rw [hend]; rfl
    unfold shimRange doGet
    simp only [hee, if_true, bget_eq, hget]
    cases hv : visible R recs r.key with
    | none => simp [readOne]
    | some x =>
      have hx := hst.newest x (visible_some_mem hv).1
      by_cases ht : isTomb x.val = true
      · -- a deleted key: the header is raised to the deletion's revision, which is not above the committed one
        simp [readOne, ht, Nat.max_eq_left hx]
      · simp [readOne, ht, Nat.max_eq_left hx]
  refine ⟨_, hshim, ?_⟩
  rw [href]
  cases readOne (visible R recs r.key) with
  | none => rfl
  | some vm => rfl

end KB.Etcd
