/-
  Helper lemmas for C02Lag: the write path of KB.Sys over an ARBITRARY well-formed initial store, with a revision
  allocator that may lag behind the revisions the store already holds (`dealt` far below the stored revisions).
  Nothing here bounds a stored revision by `dealt` (contrast `SysStore.Core.keys`, `C02.StoreOK`): what protects a
  key's history are the local guards of the write path
    * `deal`: an update / guarded delete dealt `rev ≤ expected` is refused (drift),
    * `delete`: refused when `rev ≤ modRev` of the version it read,
    * creator: a deletion record is only overwritten when `prevRev < rev`,
    * the repair loop rewrites a revision that the same (monotone) allocator dealt earlier.
  Layout: `KeyWF` (store well-formedness: the index record of a key names its newest version), `Lag` (store + ghost
  log invariant), `Ctl` (control invariant: what every in-flight request / the repair loop knows about the revision
  it holds), one pass over `stepClient_cases` for each, `LInv.run`; `getInternal_newest` (the point read returns the
  version the index names) and a decidable checker `KeyWF.of_check` for concrete stores.
-/
import KB.Lemmas.Serve
import KB.Lemmas.Hist
namespace KB.SysLag
open Generated KB.SysStore

/-! ### well-formed stores -/

/-- parsed index record of raw key `k`: `(revision, deleted?)` -/
def topOf (st : Store) (k : Bytes) : Option (Nat × Bool) := (st.get (idxKey k)).bind parseRevision

theorem topOf_eq_some {st : Store} {k : Bytes} {m : Nat} {t : Bool} :
    topOf st k = some (m, t) ↔ ∃ v, st.get (idxKey k) = some v ∧ parseRevision v = some (m, t) := by
  unfold topOf
  cases st.get (idxKey k) <;> simp

theorem topOf_none_of_get {st : Store} {k : Bytes} (h : st.get (idxKey k) = none) : topOf st k = none := by
  simp [topOf, h]

/-- Well-formedness of an engine store as the backend maintains it, WITHOUT any bound by the allocator:
sorted; every stored key is an encoded `(raw key, 8-byte revision)`; the index record of a raw key parses to
`(m, deleted?)`, the key has a version at `m` (the tombstone if the record carries the deletion flag) and no version
above `m`; a raw key without index record has no version at all. -/
structure KeyWF (st : Store) : Prop where
  sorted : st.Sorted
  keys : ∀ kv ∈ st, ∃ k r, kv.1 = encode k r ∧ r < 2 ^ 64
  idx : ∀ k v, st.get (idxKey k) = some v → ∃ m t, parseRevision v = some (m, t) ∧ 0 < m ∧ m < 2 ^ 64 ∧
      (∃ val, st.get (encode k m) = some val ∧ (t = true → val = tombstone)) ∧
      ∀ r, m < r → r < 2 ^ 64 → st.get (encode k r) = none
  noidx : ∀ k, st.get (idxKey k) = none → ∀ r, 0 < r → r < 2 ^ 64 → st.get (encode k r) = none

/-- revision `r` is stored for raw key `k`: as the value of its index record, or as one of its versions -/
def StoredRev (st : Store) (k : Bytes) (r : Nat) : Prop :=
  (∃ t, topOf st k = some (r, t)) ∨ (0 < r ∧ r < 2 ^ 64 ∧ ∃ v, st.get (encode k r) = some v)

/-- in a well-formed store every stored revision of a key is at most the one its index names -/
theorem KeyWF.storedRev_le {st : Store} (h : KeyWF st) {k : Bytes} {r : Nat} (hs : StoredRev st k r) :
    ∃ m t, topOf st k = some (m, t) ∧ r ≤ m := by
  rcases hs with ⟨t, ht⟩ | ⟨h0, hb, v, hv⟩
  · exact ⟨r, t, ht, Nat.le_refl _⟩
  · cases hi : st.get (idxKey k) with
    | none => have := h.noidx k hi r h0 hb; rw [hv] at this; cases this
    | some iv =>
      obtain ⟨m, t, hp, _, _, _, habove⟩ := h.idx k iv hi
      refine ⟨m, t, topOf_eq_some.mpr ⟨iv, hi, hp⟩, ?_⟩
      apply Nat.le_of_not_lt
      intro hlt
      have := habove r hlt hb
      rw [hv] at this; cases this

theorem topOf_wstore {store : Store} {key : Bytes} {rev : Nat} {new v : Bytes} (h0 : 0 < rev) (hr : rev < 2 ^ 64)
    (k : Bytes) : topOf (wstore store key rev new v) k = if k = key then parseRevision new else topOf store k := by
  unfold topOf
  rw [wstore_get_idx h0 hr]
  by_cases h : k = key <;> simp [h]

/-! ### the store / ghost-log invariant -/

/-- `store`, `wlog` after some run from `g0`: the store is well-formed; every applied write is at or below what the
index of its key now names; per key the applied revisions increase; every applied write is above everything its key
had in the initial store; the index revision of a key never goes down (and the record is never removed). -/
structure Lag (g0 : G) (store : Store) (wlog : List WLog) : Prop where
  wf : KeyWF store
  top : ∀ w ∈ wlog, ∃ m t, topOf store w.key = some (m, t) ∧ w.rev ≤ m
  inc : ∀ k, ((wlog.filter (fun w => w.key == k)).map (·.rev)).Pairwise (· < ·)
  above : ∀ w ∈ wlog, ∀ r, StoredRev g0.store w.key r → r < w.rev
  mono : ∀ k m0 t0, topOf g0.store k = some (m0, t0) → ∃ m t, topOf store k = some (m, t) ∧ m0 ≤ m

theorem Lag.init {g0 : G} (hwf : KeyWF g0.store) : Lag g0 g0.store [] :=
  ⟨hwf, by simp, by simp, by simp, fun _ m0 t0 h => ⟨m0, t0, h, Nat.le_refl _⟩⟩

/-- An applied batch `[index := new (parses to rev), version rev := v]` for a key whose index record is absent or
names a revision BELOW `rev` preserves the invariant. -/
theorem Lag.write {g0 : G} (hwf0 : KeyWF g0.store) {store : Store} {wlog : List WLog} (h : Lag g0 store wlog)
    (w : WLog) (new v : Bytes) {t : Bool} (h0 : 0 < w.rev) (hr : w.rev < 2 ^ 64)
    (hnew : parseRevision new = some (w.rev, t)) (hv : t = true → v = tombstone)
    (hpre : store.get (idxKey w.key) = none ∨ ∃ m t', topOf store w.key = some (m, t') ∧ m < w.rev) :
    Lag g0 (wstore store w.key w.rev new v) (wlog ++ [w]) := by
  -- everything the key has (store, log, initial store) is below `w.rev`
  have hbelow : ∀ r, w.rev < r → r < 2 ^ 64 → store.get (encode w.key r) = none := by
    intro r hlt hb
    rcases hpre with hn | ⟨m, t', hm, hlt'⟩
    · exact h.wf.noidx _ hn r (by omega) hb
    · obtain ⟨iv, hi, hp⟩ := topOf_eq_some.mp hm
      obtain ⟨m', t'', hp', _, _, _, habove⟩ := h.wf.idx _ iv hi
      rw [hp] at hp'
      simp only [Option.some.injEq, Prod.mk.injEq] at hp'
      exact habove r (by omega) hb
  have hall : ∀ x ∈ wlog, x.key = w.key → x.rev < w.rev := by
    intro x hx hk
    obtain ⟨m, t', hm, hle⟩ := h.top x hx
    rw [hk] at hm
    rcases hpre with hn | ⟨m', t'', hm', hlt'⟩
    · rw [topOf_none_of_get hn] at hm; cases hm
    · rw [hm] at hm'
      simp only [Option.some.injEq, Prod.mk.injEq] at hm'
      omega
  have h0s : ∀ r, StoredRev g0.store w.key r → r < w.rev := by
    intro r hs
    obtain ⟨m0, t0, hm0, hle⟩ := hwf0.storedRev_le hs
    obtain ⟨m, t', hm, hle'⟩ := h.mono _ m0 t0 hm0
    rcases hpre with hn | ⟨m', t'', hm', hlt'⟩
    · rw [topOf_none_of_get hn] at hm; cases hm
    · rw [hm] at hm'
      simp only [Option.some.injEq, Prod.mk.injEq] at hm'
      omega
  have htop : topOf (wstore store w.key w.rev new v) w.key = some (w.rev, t) := by
    rw [topOf_wstore h0 hr, if_pos rfl, hnew]
  refine ⟨⟨?_, ?_, ?_, ?_⟩, ?_, ?_, ?_, ?_⟩
  · exact Store.put_sorted _ (Store.put_sorted _ h.wf.sorted _ _) _ _
  · intro kv hkv
    rcases Store.mem_put hkv with h1 | h1
    · exact ⟨w.key, w.rev, h1, hr⟩
    · rcases Store.mem_put h1 with h2 | h2
      · exact ⟨w.key, 0, h2, by decide⟩
      · exact h.wf.keys kv h2
  · intro k iv hi
    rw [wstore_get_idx h0 hr] at hi
    by_cases hk : k = w.key
    · subst hk
      rw [if_pos rfl] at hi
      simp only [Option.some.injEq] at hi
      subst hi
      refine ⟨w.rev, t, hnew, h0, hr, ⟨v, ?_, hv⟩, ?_⟩
      · rw [wstore_get_ver hr _ _ h0 hr]; simp
      · intro r hlt hb
        rw [wstore_get_ver hr _ _ (by omega) hb]
        have : ¬ (w.key = w.key ∧ r = w.rev) := by omega
        rw [if_neg this]
        exact hbelow r hlt hb
    · rw [if_neg hk] at hi
      obtain ⟨m, t', hp, hm0, hmb, ⟨val, hval, htv⟩, habove⟩ := h.wf.idx k iv hi
      refine ⟨m, t', hp, hm0, hmb, ⟨val, ?_, htv⟩, ?_⟩
      · rw [wstore_get_ver hr _ _ hm0 hmb]; simp [hk, hval]
      · intro r hlt hb
        rw [wstore_get_ver hr _ _ (by omega) hb]; simp only [hk, false_and, if_false]
        exact habove r hlt hb
  · intro k hi r hr0 hb
    rw [wstore_get_idx h0 hr] at hi
    by_cases hk : k = w.key
    · rw [if_pos hk] at hi; cases hi
    · rw [if_neg hk] at hi
      rw [wstore_get_ver hr _ _ hr0 hb]; simp only [hk, false_and, if_false]
      exact h.wf.noidx k hi r hr0 hb
  · intro x hx
    rcases List.mem_append.mp hx with hx | hx
    · by_cases hk : x.key = w.key
      · exact ⟨w.rev, t, by rw [hk]; exact htop, Nat.le_of_lt (hall x hx hk)⟩
      · rw [topOf_wstore h0 hr, if_neg hk]; exact h.top x hx
    · simp only [List.mem_singleton] at hx; subst hx
      exact ⟨x.rev, t, htop, Nat.le_refl _⟩
  · intro k
    rw [List.filter_append, List.map_append]
    by_cases hk : w.key = k
    · simp only [List.filter_cons, hk, beq_self_eq_true, if_true, List.filter_nil, List.map_cons, List.map_nil]
      rw [List.pairwise_append]
      refine ⟨h.inc k, by simp, ?_⟩
      intro a ha b hb
      simp only [List.mem_singleton] at hb; subst hb
      obtain ⟨x, hx, rfl⟩ := List.mem_map.mp ha
      have hx' := List.mem_filter.mp hx
      exact hall x hx'.1 (by rw [hk]; simpa using hx'.2)
    · simp [hk, h.inc k]
  · intro x hx
    rcases List.mem_append.mp hx with hx | hx
    · exact h.above x hx
    · simp only [List.mem_singleton] at hx; subst hx; exact h0s
  · intro k m0 t0 hm0
    obtain ⟨m, t', hm, hle⟩ := h.mono k m0 t0 hm0
    by_cases hk : k = w.key
    · subst hk
      refine ⟨w.rev, t, htop, ?_⟩
      rcases hpre with hn | ⟨m', t'', hm', hlt'⟩
      · rw [topOf_none_of_get hn] at hm; cases hm
      · rw [hm] at hm'
        simp only [Option.some.injEq, Prod.mk.injEq] at hm'
        omega
    · exact ⟨m, t', by rw [topOf_wstore h0 hr, if_neg hk]; exact hm, hle⟩

/-- the invariant on a state -/
structure LagG (g0 g : G) : Prop where
  lag : Lag g0 g.store g.wlog
  hist : g.hist = g.wlog.map toH

theorem LagG.frame {g0 g g' : G} (h : LagG g0 g) (hs : g'.store = g.store) (hw : g'.wlog = g.wlog)
    (hh : g'.hist = g.hist) : LagG g0 g' := by
  constructor
  · rw [hs, hw]; exact h.lag
  · rw [hh, hw]; exact h.hist

/-- what an applied batch must satisfy -/
def WriteOK (store : Store) (key : Bytes) (rev : Nat) (new v : Bytes) : Prop :=
  0 < rev ∧ rev < 2 ^ 64 ∧ (∃ t, parseRevision new = some (rev, t) ∧ (t = true → v = tombstone)) ∧
    (store.get (idxKey key) = none ∨ ∃ m t', topOf store key = some (m, t') ∧ m < rev)

theorem LagG.afterCommit {g0 g : G} (hwf0 : KeyWF g0.store) (h : LagG g0 g)
    {r : CommitRes} {st : Store} {f : Fault} {key : Bytes} {rev : Nat} {val : Option Bytes} {exp : Expect}
    {new v : Bytes}
    (hcase : (applied r f = true ∧ st = wstore g.store key rev new v ∧ WriteOK g.store key rev new v) ∨
             (applied r f = false ∧ st = g.store)) :
    LagG g0 (SysStore.afterCommit g r st f key rev val exp) := by
  unfold KB.SysStore.afterCommit
  rcases hcase with ⟨ha, hst, h0, hr, ⟨t, hnew, hv⟩, hpre⟩ | ⟨ha, hst⟩
  · rw [if_pos ha]
    constructor
    · simp only [G.logWrite, hst]
      exact h.lag.write hwf0 ⟨key, rev, val, exp⟩ new v h0 hr hnew hv hpre
    · simp [G.logWrite, h.hist, toH]
  · rw [ha]
    simp only [Bool.false_eq_true, if_false, hst]
    exact ⟨h.lag, h.hist⟩

theorem finishCreate_frame (g : G) (c : Client) (key val : Bytes) (rev : Nat) (r : CommitRes) :
    (finishCreate g c key val rev r).store = g.store ∧ (finishCreate g c key val rev r).wlog = g.wlog ∧
    (finishCreate g c key val rev r).hist = g.hist := by
  unfold finishCreate
  split
  · simp
  · split <;> simp
  · simp

theorem createSawIndex_frame (g : G) (c : Client) (key val : Bytes) (rev : Nat) (old : Bytes) (att : Nat) :
    (createSawIndex g c key val rev old att).store = g.store ∧ (createSawIndex g c key val rev old att).wlog = g.wlog ∧
    (createSawIndex g c key val rev old att).hist = g.hist := by
  unfold createSawIndex
  split
  · exact finishCreate_frame ..
  · split
    · simp
    · exact finishCreate_frame ..

theorem LagG.finishCreate {g0 g : G} (h : LagG g0 g) (c : Client) (key val : Bytes) (rev : Nat) (r : CommitRes) :
    LagG g0 (finishCreate g c key val rev r) :=
  h.frame (finishCreate_frame ..).1 (finishCreate_frame ..).2.1 (finishCreate_frame ..).2.2

theorem LagG.createSawIndex {g0 g : G} (h : LagG g0 g) (c : Client) (key val : Bytes) (rev : Nat) (old : Bytes)
    (att : Nat) : LagG g0 (createSawIndex g c key val rev old att) :=
  h.frame (createSawIndex_frame ..).1 (createSawIndex_frame ..).2.1 (createSawIndex_frame ..).2.2

/-! ### the control invariant -/

/-- what a request knows about the revision it holds: it was dealt by the allocator (`0 < r ≤ dealt`), and it passed
the guard of its path (creator: `prevRev < rev`; update: `expected < rev`; delete: `modRev < rev`) -/
def CL (d : Nat) (c : Client) : Prop :=
  match c.pc with
  | .createCommit r => 0 < r ∧ r ≤ d
  | .createReread r => 0 < r ∧ r ≤ d
  | .createRetry r => 0 < r ∧ r ≤ d
  | .createRecheck r _ => 0 < r ∧ r ≤ d
  | .createOver r old _ => (0 < r ∧ r ≤ d) ∧ ∃ p, parseRevision old = some (p, true) ∧ p < r
  | .updateCommit r => (0 < r ∧ r ≤ d) ∧ ∀ k v e, c.kind = .update k v e → e < r
  | .deleteCommit r _ m => (0 < r ∧ r ≤ d) ∧ m < r
  | _ => True

theorem CL.mono {d d' : Nat} {c : Client} (h : CL d c) (hd : d ≤ d') : CL d' c := by
  unfold CL at *
  cases hpc : c.pc <;> simp only [hpc] at h ⊢
  all_goals first
    | trivial
    | exact ⟨h.1, Nat.le_trans h.2 hd⟩
    | exact ⟨⟨h.1.1, Nat.le_trans h.1.2 hd⟩, h.2⟩

/-- Control invariant: in-flight requests (`CL`); every revision waiting in a slot or in the repair queue was dealt
by this allocator (`≤ dealt`); the repair loop between its read and its commit holds a revision dealt AFTER the
one it repairs. -/
structure Ctl (g : G) : Prop where
  cl : ∀ c ∈ g.clients, CL g.dealt c
  sl : ∀ w ∈ g.slots, w.rev ≤ g.dealt
  rq : ∀ w ∈ g.retryQ, w.rev ≤ g.dealt
  rp : ∀ p, g.retryPc = some p → (0 < p.rev ∧ p.rev ≤ g.dealt) ∧ p.w.rev < p.rev

theorem Ctl.raise {g : G} (h : Ctl g) {d : Nat} (hd : g.dealt ≤ d) : Ctl { g with dealt := d } :=
  ⟨fun c hc => (h.cl c hc).mono hd, fun w hw => Nat.le_trans (h.sl w hw) hd, fun w hw => Nat.le_trans (h.rq w hw) hd,
   fun p hp => ⟨⟨(h.rp p hp).1.1, Nat.le_trans (h.rp p hp).1.2 hd⟩, (h.rp p hp).2⟩⟩

theorem Ctl.deal {g : G} (h : Ctl g) : Ctl { g with dealt := g.dealt + 1 } := h.raise (Nat.le_succ _)

theorem Ctl.setClient {g : G} (h : Ctl g) {c' : Client} (hc : CL g.dealt c') : Ctl (g.setClient c') := by
  refine ⟨?_, h.sl, h.rq, h.rp⟩
  intro x hx
  simp only [G.setClient, List.mem_map] at hx
  obtain ⟨y, hy, rfl⟩ := hx
  split
  · exact hc
  · exact h.cl y hy

theorem Ctl.finish {g : G} (h : Ctl g) (c : Client) (res : WriteRes) (rev : Nat) : Ctl (g.finish c res rev) :=
  ⟨fun x hx => h.cl x (List.mem_filter.mp hx).1, h.sl, h.rq, h.rp⟩

theorem Ctl.notify {g : G} (h : Ctl g) {w : WEvent} (hw : w.rev ≤ g.dealt) : Ctl (g.notify w) := by
  unfold G.notify
  split
  · exact h
  · refine ⟨h.cl, ?_, h.rq, h.rp⟩
    intro x hx
    rcases List.mem_append.mp hx with hx | hx
    · exact h.sl x hx
    · simp only [List.mem_singleton] at hx; subst hx; exact hw

theorem Ctl.afterCommit {g : G} (h : Ctl g) (r : CommitRes) (st : Store) (f : Fault) (key : Bytes) (rev : Nat)
    (val : Option Bytes) (exp : Expect) : Ctl (afterCommit g r st f key rev val exp) := by
  unfold KB.SysStore.afterCommit
  split <;> exact ⟨h.cl, h.sl, h.rq, h.rp⟩

theorem Ctl.finishCreate {g : G} (h : Ctl g) (c : Client) (key val : Bytes) {rev : Nat} (hr : rev ≤ g.dealt)
    (r : CommitRes) : Ctl (finishCreate g c key val rev r) := by
  unfold KB.finishCreate
  have h' := h.notify (w := mkW rev 0 (r == .ok) .create key val (r == .uncertain)) hr
  split
  · exact h'.finish ..
  · split
    · exact h'.setClient (by simp [CL])
    · exact h'.finish ..
  · exact h'.finish ..

theorem Ctl.createSawIndex {g : G} (h : Ctl g) (c : Client) (key val : Bytes) {rev : Nat}
    (hr : 0 < rev ∧ rev ≤ g.dealt) (old : Bytes) (att : Nat) : Ctl (createSawIndex g c key val rev old att) := by
  unfold KB.createSawIndex
  split
  · exact h.finishCreate c key val hr.2 _
  · split
    · rename_i prevRev tomb hp hc
      simp only [Bool.and_eq_true, decide_eq_true_eq] at hc
      refine h.setClient ?_
      simp only [CL]
      exact ⟨hr, prevRev, by rw [hp, hc.1], hc.2⟩
    · exact h.finishCreate c key val hr.2 _

@[simp] theorem afterCommit_dealt' (g : G) (r : CommitRes) (st : Store) (f : Fault) (key : Bytes) (rev : Nat)
    (val : Option Bytes) (exp : Expect) : (afterCommit g r st f key rev val exp).dealt = g.dealt :=
  afterCommit_dealt ..

theorem Ctl.stepClient {g : G} (h : Ctl g) {c : Client} (hc : c ∈ g.clients) (f : Fault) :
    Ctl (stepClient g c f) := by
  have hci := h.cl c hc
  apply stepClient_cases
  · -- start / create
    intro key val _ _
    exact h.deal.setClient (by simp [CL])
  · -- start / update
    intro key val exp _ hk
    split
    · exact h.deal.setClient (by simp [CL])
    · split
      · exact (h.deal.notify (by simp [mkW])).finish ..
      · rename_i hlt
        refine h.deal.setClient ?_
        simp only [CL]
        refine ⟨⟨Nat.succ_pos _, Nat.le_refl _⟩, ?_⟩
        intro k v e he
        rw [hk] at he
        simp only [ReqKind.update.injEq] at he
        omega
  · -- createCommit
    intro rev key val r st hpc _
    simp only [CL, hpc] at hci
    have hA := h.afterCommit r st f key rev (some val) .absent
    split
    · split
      · exact hA.createSawIndex c key val (by simpa using hci) _ _
      · exact hA.setClient (by simpa [CL] using hci)
    · exact hA.finishCreate c key val (by simpa using hci.2) _
  · -- createReread
    intro rev key val hpc
    simp only [CL, hpc] at hci
    split
    · exact h.createSawIndex c key val hci _ _
    · exact h.setClient (by simpa [CL] using hci)
  · -- createRetry
    intro rev key val r st hpc _
    simp only [CL, hpc] at hci
    exact (h.afterCommit r st f key rev (some val) .absent).finishCreate c key val (by simpa using hci.2) _
  · -- createOver
    intro rev old att key val r st hpc _
    simp only [CL, hpc] at hci
    have hA := h.afterCommit r st f key rev (some val) .absent
    split
    · exact hA.setClient (by simpa [CL] using hci.1)
    · exact hA.finishCreate c key val (by simpa using hci.1.2) _
  · -- createRecheck
    intro rev att key val hpc
    simp only [CL, hpc] at hci
    split
    · split
      · exact h.finishCreate c key val hci.2 _
      · exact h.createSawIndex c key val hci _ _
    · exact h.setClient (by simpa [CL] using hci)
  · -- updateCommit
    intro rev key val exp r st hpc _ _
    simp only [CL, hpc] at hci
    have hA := (h.afterCommit r st f key rev (some val) (.rev exp)).notify
      (w := mkW rev exp (r == .ok) .put key val (r == .uncertain)) (by simpa [mkW] using hci.1.2)
    split
    · exact hA.finish ..
    · exact hA.setClient (by simp [CL])
    · exact hA.finish ..
  · -- start / delete
    intro key exp _ _
    split <;> exact h.setClient (by simp [CL])
  · -- deleteDeal none
    intro key exp _ _
    exact (h.deal.notify (by simp [mkW])).finish ..
  · -- deleteDeal some
    intro oldVal modRev key exp _ _
    split
    · exact (h.deal.notify (by simp [mkW])).finish ..
    · split
      · exact (h.deal.notify (by simp [mkW])).setClient (by simp [CL])
      · split
        · exact (h.deal.notify (by simp [mkW])).finish ..
        · refine h.deal.setClient ?_
          simp only [CL]
          exact ⟨⟨Nat.succ_pos _, Nat.le_refl _⟩, by omega⟩
  · -- deleteCommit
    intro rev oldVal modRev key exp r st hpc _ _
    simp only [CL, hpc] at hci
    have hA := (h.afterCommit r st f key rev none (.rev modRev)).notify
      (w := mkW rev modRev (r == .ok) .delete key oldVal (r == .uncertain)) (by simpa [mkW] using hci.1.2)
    split
    · exact hA.finish ..
    · exact hA.setClient (by simp [CL])
    · exact hA.finish ..
  · -- readLatest
    intro rev fb _
    split <;> exact h.finish ..
  · exact h
  · intro _ _
    exact ⟨fun x hx => h.cl x (List.mem_filter.mp hx).1, h.sl, h.rq, h.rp⟩

theorem Ctl.stepSeq {g : G} (h : Ctl g) : Ctl (stepSeq g) := by
  unfold KB.stepSeq
  split
  · exact h
  · rename_i w hw
    have hwm := List.mem_of_find?_eq_some hw
    have hwr := h.sl w hwm
    refine ⟨fun c hc => (h.cl c hc).mono (Nat.le_max_left _ _), ?_, ?_, ?_⟩
    · intro x hx
      exact Nat.le_trans (h.sl x (List.mem_filter.mp hx).1) (Nat.le_max_left _ _)
    · intro x hx
      simp only at hx
      split at hx
      · rcases List.mem_append.mp hx with hx | hx
        · exact Nat.le_trans (h.rq x hx) (Nat.le_max_left _ _)
        · simp only [List.mem_singleton] at hx; subst hx; exact Nat.le_max_right _ _
      · exact Nat.le_trans (h.rq x hx) (Nat.le_max_left _ _)
    · intro p hp
      exact ⟨⟨(h.rp p hp).1.1, Nat.le_trans (h.rp p hp).1.2 (Nat.le_max_left _ _)⟩, (h.rp p hp).2⟩

theorem Ctl.stepRetryRead {g : G} (h : Ctl g) : Ctl (stepRetryRead g) := by
  apply stepRetryRead_cases
  · intros; exact h
  · intros; exact h
  · intro w rest _ hq _
    exact ⟨h.cl, h.sl, fun x hx => h.rq x (by rw [hq]; exact List.mem_cons_of_mem _ hx), h.rp⟩
  · intro w rest val _ hq _ _ _
    have hw : w.rev ≤ g.dealt := h.rq w (by rw [hq]; exact List.mem_cons_self ..)
    have h' := h.deal
    refine ⟨h'.cl, h'.sl, h'.rq, ?_⟩
    intro p hp
    simp only [Option.some.injEq] at hp
    subst hp
    exact ⟨⟨Nat.succ_pos _, Nat.le_refl _⟩, by show w.rev < g.dealt + 1; omega⟩
  · intros; exact h

theorem Ctl.stepRetryCommit {g : G} (h : Ctl g) (f : Fault) : Ctl (stepRetryCommit g f) := by
  apply stepRetryCommit_cases
  · intro _; exact h
  · intro p r st hp _
    have hpr := (h.rp p hp).1.2
    have hE : Ctl { g with retryPc := none, retryQ := if r == CommitRes.ok || r.isCas then g.retryQ.drop 1 else g.retryQ } := by
      refine ⟨h.cl, h.sl, ?_, fun q hq => by cases hq⟩
      intro x hx
      simp only at hx
      split at hx
      · exact h.rq x (List.mem_of_mem_drop hx)
      · exact h.rq x hx
    exact (hE.afterCommit ..).notify (by simpa using hpr)

theorem Ctl.act {g : G} (h : Ctl g) (a : Action) : Ctl (act g a) := by
  cases a with
  | begin id kind =>
    unfold KB.act; simp only []
    split
    · exact h
    · refine ⟨?_, h.sl, h.rq, h.rp⟩
      intro x hx
      rcases List.mem_append.mp hx with hx | hx
      · exact h.cl x hx
      · simp only [List.mem_singleton] at hx; subst hx; simp [CL]
  | step id f =>
    unfold KB.act; simp only []
    split
    · exact h
    · rename_i c hfind
      exact h.stepClient (List.mem_of_find?_eq_some hfind) f
  | seq => exact h.stepSeq
  | retry f => exact h.stepRetryRead.stepRetryCommit f
  | retryRead => exact h.stepRetryRead
  | retryCommit f => exact h.stepRetryCommit f

/-! ### the allocator never goes back -/

theorem dealtGe_closed (d : Nat) : Closed (fun v => d ≤ v.dealt) where
  dealTo := fun h _ _ _ _ => Nat.le_succ_of_le h
  move := fun h _ _ _ _ => h
  report := fun {v c w} h _ _ _ => by
    show d ≤ (v.push w).dealt
    unfold View.push; split <;> exact h
  ret := fun h _ _ _ => h
  consume := fun h _ _ => Nat.le_trans h (Nat.le_max_left _ _)
  rdeal := fun h _ _ => Nat.le_succ_of_le h
  rpush := fun {v w} h _ => by
    show d ≤ (v.push w).dealt
    unfold View.push; split <;> exact h
  spawn := fun h _ _ => h
  drop := fun h _ _ => h

theorem act_dealt_le (g : G) (a : Action) : g.dealt ≤ (act g a).dealt :=
  act_P (dealtGe_closed g.dealt) a (Nat.le_refl _)

theorem run_dealt_le (g : G) (s : List Action) : g.dealt ≤ (run g s).dealt :=
  run_P (dealtGe_closed g.dealt) s (Nat.le_refl _)

/-! ### one step preserves the store / log invariant -/

theorem parse_be8 {e : Nat} (he : e < 2 ^ 64) : parseRevision (be8 e) = some (e, false) := by
  simpa [be8] using C10.parseRevision_live e he

theorem parse_be8_del {e : Nat} (he : e < 2 ^ 64) : parseRevision (be8 e ++ [0]) = some (e, true) :=
  C10.parseRevision_deleted e 0 he

theorem LagG.stepClient {g0 g : G} (hwf0 : KeyWF g0.store) (hctl : Ctl g) (hb : g.dealt < 2 ^ 64) (h : LagG g0 g)
    {c : Client} (hc : c ∈ g.clients) (f : Fault) : LagG g0 (stepClient g c f) := by
  have hci := hctl.cl c hc
  apply stepClient_cases
  · intros; exact h.frame rfl rfl rfl
  · intros
    split
    · exact h.frame rfl rfl rfl
    · split
      · exact h.frame (by simp) (by simp) (by simp)
      · exact h.frame rfl rfl rfl
  · -- createCommit
    intro rev key val r st hpc hdc
    simp only [CL, hpc] at hci
    have hA : LagG g0 (SysStore.afterCommit g r st f key rev (some val) .absent) := by
      refine h.afterCommit hwf0 (new := be8 rev) (v := val) ?_
      rcases doCommit_pine_cases hdc with ⟨ha, hget, hst⟩ | hn
      · exact .inl ⟨ha, hst, hci.1, by omega, ⟨false, parse_be8 (by omega), by simp⟩, .inl hget⟩
      · exact .inr hn
    split
    · split
      · exact hA.createSawIndex ..
      · exact hA.frame rfl rfl rfl
    · exact hA.finishCreate ..
  · -- createReread
    intros
    split
    · exact h.createSawIndex ..
    · exact h.frame rfl rfl rfl
  · -- createRetry
    intro rev key val r st hpc hdc
    simp only [CL, hpc] at hci
    have hA : LagG g0 (SysStore.afterCommit g r st f key rev (some val) .absent) := by
      refine h.afterCommit hwf0 (new := be8 rev) (v := val) ?_
      rcases doCommit_pine_cases hdc with ⟨ha, hget, hst⟩ | hn
      · exact .inl ⟨ha, hst, hci.1, by omega, ⟨false, parse_be8 (by omega), by simp⟩, .inl hget⟩
      · exact .inr hn
    exact hA.finishCreate ..
  · -- createOver: the creator only overwrites a deletion record OLDER than its revision
    intro rev old att key val r st hpc hdc
    simp only [CL, hpc] at hci
    obtain ⟨⟨h0, hle⟩, p, hp, hlt⟩ := hci
    have hA : LagG g0 (SysStore.afterCommit g r st f key rev (some val) .absent) := by
      refine h.afterCommit hwf0 (new := be8 rev) (v := val) ?_
      rcases doCommit_cas_cases hdc with ⟨ha, hget, hst⟩ | hn
      · exact .inl ⟨ha, hst, h0, by omega, ⟨false, parse_be8 (by omega), by simp⟩,
          .inr ⟨p, true, topOf_eq_some.mpr ⟨old, hget, hp⟩, hlt⟩⟩
      · exact .inr hn
    split
    · exact hA.frame rfl rfl rfl
    · exact hA.finishCreate ..
  · -- createRecheck
    intros
    split
    · split
      · exact h.finishCreate ..
      · exact h.createSawIndex ..
    · exact h.frame rfl rfl rfl
  · -- updateCommit: `deal` refused `rev ≤ exp`
    intro rev key val exp r st hpc hk hdc
    simp only [CL, hpc] at hci
    obtain ⟨⟨h0, hle⟩, hexp⟩ := hci
    have hlt := hexp _ _ _ hk
    have hA : LagG g0 (SysStore.afterCommit g r st f key rev (some val) (.rev exp)) := by
      refine h.afterCommit hwf0 (new := be8 rev) (v := val) ?_
      rcases doCommit_cas_cases hdc with ⟨ha, hget, hst⟩ | hn
      · exact .inl ⟨ha, hst, h0, by omega, ⟨false, parse_be8 (by omega), by simp⟩,
          .inr ⟨exp, false, topOf_eq_some.mpr ⟨be8 exp, hget, parse_be8 (by omega)⟩, hlt⟩⟩
      · exact .inr hn
    split <;> exact hA.frame (by simp) (by simp) (by simp)
  · intros; split <;> exact h.frame rfl rfl rfl
  · intros; exact h.frame (by simp) (by simp) (by simp)
  · intros
    split
    · exact h.frame (by simp) (by simp) (by simp)
    · split
      · exact h.frame (by simp) (by simp) (by simp)
      · split
        · exact h.frame (by simp) (by simp) (by simp)
        · exact h.frame rfl rfl rfl
  · -- deleteCommit: `delete` refused `rev ≤ modRev`
    intro rev oldVal modRev key exp r st hpc hk hdc
    simp only [CL, hpc] at hci
    obtain ⟨⟨h0, hle⟩, hlt⟩ := hci
    have hA : LagG g0 (SysStore.afterCommit g r st f key rev none (.rev modRev)) := by
      refine h.afterCommit hwf0 (new := be8 rev ++ [0]) (v := tombstone) ?_
      rcases doCommit_cas_cases hdc with ⟨ha, hget, hst⟩ | hn
      · exact .inl ⟨ha, hst, h0, by omega, ⟨true, parse_be8_del (by omega), fun _ => rfl⟩,
          .inr ⟨modRev, false, topOf_eq_some.mpr ⟨be8 modRev, hget, parse_be8 (by omega)⟩, hlt⟩⟩
      · exact .inr hn
    split <;> exact hA.frame (by simp) (by simp) (by simp)
  · intros; split <;> exact h.frame rfl rfl rfl
  · exact h
  · intros; exact h.frame rfl rfl rfl

theorem LagG.stepRetryCommit {g0 g : G} (hwf0 : KeyWF g0.store) (hctl : Ctl g) (hb : g.dealt < 2 ^ 64)
    (h : LagG g0 g) (f : Fault) : LagG g0 (stepRetryCommit g f) := by
  apply stepRetryCommit_cases
  · intro _; exact h
  · intro p r st hp hdc
    obtain ⟨⟨h0, hle⟩, hlt⟩ := hctl.rp p hp
    have hE : LagG g0 { g with retryPc := none, retryQ := if r == CommitRes.ok || r.isCas then g.retryQ.drop 1 else g.retryQ } :=
      h.frame rfl rfl rfl
    have hA := hE.afterCommit hwf0 (r := r) (st := st) (f := f) (key := p.w.key) (rev := p.rev)
      (val := if isTomb p.val then none else some p.val) (exp := .rev p.w.rev)
      (new := be8 p.rev ++ if isTomb p.val then [0] else []) (v := p.val) (by
        rcases doCommit_cas_cases hdc with ⟨ha, hg, hst⟩ | hn
        · refine .inl ⟨ha, hst, h0, by omega, ?_, ?_⟩
          · by_cases ht : isTomb p.val = true
            · refine ⟨true, by simp only [ht, if_true]; exact parse_be8_del (by omega), fun _ => ?_⟩
              simpa [isTomb] using ht
            · exact ⟨false, by simp only [ht]; exact parse_be8 (by omega), by simp⟩
          · right
            by_cases ht : isTomb p.val = true
            · simp only [ht, if_true] at hg
              exact ⟨p.w.rev, true, topOf_eq_some.mpr ⟨_, hg, parse_be8_del (by omega)⟩, hlt⟩
            · simp only [ht] at hg
              exact ⟨p.w.rev, false, topOf_eq_some.mpr ⟨_, hg, parse_be8 (by omega)⟩, hlt⟩
        · exact .inr hn)
    exact hA.frame (by simp) (by simp) (by simp)

theorem LagG.stepRetryRead {g0 g : G} (h : LagG g0 g) : LagG g0 (stepRetryRead g) := by
  apply stepRetryRead_cases <;> intros <;> exact h.frame rfl rfl rfl

theorem stepRetryRead_dealt_le' (g : G) : g.dealt ≤ (stepRetryRead g).dealt := act_dealt_le g .retryRead

theorem LagG.act {g0 g : G} (hwf0 : KeyWF g0.store) (hctl : Ctl g) (h : LagG g0 g) (a : Action)
    (hb' : (act g a).dealt < 2 ^ 64) : LagG g0 (act g a) := by
  have hb : g.dealt < 2 ^ 64 := Nat.lt_of_le_of_lt (act_dealt_le g a) hb'
  cases a with
  | begin id kind =>
    unfold KB.act; simp only []
    split
    · exact h
    · exact h.frame rfl rfl rfl
  | step id f =>
    unfold KB.act; simp only []
    split
    · exact h
    · rename_i c hfind
      exact h.stepClient hwf0 hctl hb (List.mem_of_find?_eq_some hfind) f
  | seq =>
    unfold KB.act KB.stepSeq; simp only []
    split
    · exact h
    · exact h.frame rfl rfl rfl
  | retry f =>
    have hb1 : (KB.stepRetryRead g).dealt < 2 ^ 64 :=
      Nat.lt_of_le_of_lt (act_dealt_le (KB.stepRetryRead g) (.retryCommit f)) hb'
    exact h.stepRetryRead.stepRetryCommit hwf0 hctl.stepRetryRead hb1 f
  | retryRead => exact h.stepRetryRead
  | retryCommit f => exact h.stepRetryCommit hwf0 hctl hb f

/-- both invariants along a run whose final allocator value still fits 8 bytes -/
theorem LInv.run {g0 : G} (hwf0 : KeyWF g0.store) (s : List Action) :
    ∀ g : G, Ctl g → LagG g0 g → (run g s).dealt < 2 ^ 64 → Ctl (run g s) ∧ LagG g0 (run g s) := by
  induction s with
  | nil => intro g hc hl _; exact ⟨hc, hl⟩
  | cons a s ih =>
    intro g hc hl hb
    have hb' : (act g a).dealt < 2 ^ 64 := Nat.lt_of_le_of_lt (run_dealt_le (act g a) s) hb
    exact ih (act g a) (hc.act a) (hl.act hwf0 hc a hb') hb

/-! ### the point read returns the version the index names -/

theorem storeAlpha_keys {st : Store} (h : StoreAlpha st) :
    ∀ kv ∈ st, ∃ k r, kv.1 = encode k r ∧ Alphabet k ∧ r < 2 ^ 64 := by
  intro kv hkv
  obtain ⟨k, r, h1, h2⟩ := h kv hkv
  exact ⟨k, r % 2 ^ 64, by rw [encode_mod]; exact h1, h2, Nat.mod_lt _ (by decide)⟩

/-- On a sorted store of encoded alphabet keys: if `k` has a version at `R` and none above, the point read of `k`
returns it (whatever other keys hold — no global bound on the stored revisions). -/
theorem getInternal_newest (cfg : Cfg) {store : Store} (hs : store.Sorted) (hal : StoreAlpha store)
    {R : Nat} (h0 : 0 < R) (hb : R < 2 ^ 64) {k : Bytes} (hka : Alphabet k)
    {v : Bytes} (hget : store.get (encode k R) = some v)
    (htop : ∀ r, R < r → r < 2 ^ 64 → store.get (encode k r) = none) :
    getInternal cfg store k 0 = some (v, R) := by
  obtain ⟨recs, hst, hsr, hall⟩ := exists_recs store hs (storeAlpha_keys hal)
  rw [hst, C03.get_spec cfg hsr hall k hka 0 (by decide)]
  simp only [beq_self_eq_true, if_true]
  have hm : (encode k R, v) ∈ encodeStore recs := by rw [← hst]; exact Store.mem_of_get hget
  obtain ⟨rs, hrs, e⟩ := List.mem_map.mp hm
  simp only [Prod.mk.injEq] at e
  obtain ⟨e1, e2⟩ := encode_inj (hall rs hrs).2 hb e.1
  have hvis : vis (2 ^ 64 - 1) k rs = true := vis_iff.mpr ⟨e1, by omega, by omega⟩
  have hmf : rs ∈ recs.filter (vis (2 ^ 64 - 1) k) := List.mem_filter.mpr ⟨hrs, hvis⟩
  rw [visible_def]
  cases hlast : (recs.filter (vis (2 ^ 64 - 1) k)).getLast? with
  | none =>
    rw [List.getLast?_eq_none_iff] at hlast
    rw [hlast] at hmf; cases hmf
  | some l =>
    have hlm := List.mem_filter.mp (List.mem_of_getLast? hlast)
    obtain ⟨hlk, hl0, _⟩ := vis_iff.mp hlm.2
    have hle : l.rev ≤ R := by
      have hm' : (encode l.key l.rev, l.val) ∈ store := by rw [hst]; exact List.mem_map.mpr ⟨l, hlm.1, rfl⟩
      have hg := Store.get_of_mem hs hm'
      apply Nat.le_of_not_lt
      intro hlt
      have := htop l.rev hlt (hall l hlm.1).2
      rw [hlk, this] at hg; cases hg
    have : rs = l := by
      rcases pairwise_getLast (List.Pairwise.filter _ hsr) hlast hmf with h | h
      · exact h
      · exfalso
        rcases h with h | ⟨_, h⟩
        · rw [e1, hlk] at h; simp at h
        · omega
    subst this
    simp [e2, e.2]

/-- the index of a key names its newest version, and that is what a read returns -/
theorem KeyWF.read_newest (cfg : Cfg) {st : Store} (h : KeyWF st) (hal : StoreAlpha st) {k : Bytes} (hka : Alphabet k)
    {iv : Bytes} (hi : st.get (idxKey k) = some iv) :
    ∃ m t val, parseRevision iv = some (m, t) ∧ getInternal cfg st k 0 = some (val, m) ∧
      (t = true → val = tombstone) := by
  obtain ⟨m, t, hp, hm0, hmb, ⟨val, hval, htv⟩, habove⟩ := h.idx k iv hi
  exact ⟨m, t, val, hp, getInternal_newest cfg h.sorted hal hm0 hmb hka hval habove, htv⟩

/-! ### a decidable check of `KeyWF` for concrete stores -/

def keyCheck (st : Store) (kv : Bytes × Bytes) : Bool :=
  match decode kv.1 with
  | .ok k r =>
    kv.1 == encode k r && decide (r < 2 ^ 64) &&
    (if r == 0 then
      match parseRevision kv.2 with
      | some (m, t) =>
        decide (0 < m) && decide (m < 2 ^ 64) &&
        (match st.get (encode k m) with
         | some val => !t || val == tombstone
         | none => false) &&
        st.all (fun kv' => match decode kv'.1 with
          | .ok k' r' => !(k' == k) || decide (r' ≤ m)
          | _ => true)
      | none => false
    else (st.get (idxKey k)).isSome)
  | _ => false

theorem keyCheck_spec {st : Store} {kv : Bytes × Bytes} (h : keyCheck st kv = true) :
    ∃ k r, kv.1 = encode k r ∧ r < 2 ^ 64 ∧
      (r = 0 → ∃ m t, parseRevision kv.2 = some (m, t) ∧ 0 < m ∧ m < 2 ^ 64 ∧
        (∃ val, st.get (encode k m) = some val ∧ (t = true → val = tombstone)) ∧
        ∀ kv' ∈ st, ∀ r', r' < 2 ^ 64 → kv'.1 = encode k r' → r' ≤ m) ∧
      (r ≠ 0 → (st.get (idxKey k)).isSome) := by
  unfold keyCheck at h
  split at h
  · rename_i k r hd
    simp only [Bool.and_eq_true, beq_iff_eq, decide_eq_true_eq] at h
    obtain ⟨⟨h1, h2⟩, h3⟩ := h
    refine ⟨k, r, h1, h2, ?_, ?_⟩
    · intro hr0
      simp only [hr0, if_true] at h3
      split at h3
      · rename_i m t hp
        simp only [Bool.and_eq_true, decide_eq_true_eq, List.all_eq_true] at h3
        obtain ⟨⟨⟨hm0, hmb⟩, hval⟩, hall⟩ := h3
        refine ⟨m, t, hp, hm0, hmb, ?_, ?_⟩
        · split at hval
          · rename_i val hg
            refine ⟨val, hg, ?_⟩
            intro ht
            simpa [ht] using hval
          · cases hval
        · intro kv' hkv' r' hr' he
          have := hall kv' hkv'
          rw [he, decode_encode k r' hr'] at this
          simpa using this
      · cases h3
    · intro hr0
      simpa [hr0] using h3
  · cases h

/-- `KeyWF` of a concrete store by evaluation -/
theorem KeyWF.of_check {st : Store} (hs : st.Pairwise (fun x y => cmp x.1 y.1 = .lt))
    (h : st.all (keyCheck st) = true) : KeyWF st := by
  have hs' : st.Sorted := (Store.sorted_iff_pairwise st).mpr hs
  rw [List.all_eq_true] at h
  refine ⟨hs', ?_, ?_, ?_⟩
  · intro kv hkv
    obtain ⟨k, r, h1, h2, _⟩ := keyCheck_spec (h kv hkv)
    exact ⟨k, r, h1, h2⟩
  · intro k iv hi
    have hm := Store.mem_of_get hi
    obtain ⟨k', r, h1, h2, h3, _⟩ := keyCheck_spec (h _ hm)
    simp only at h1
    obtain ⟨ek, er⟩ := encode_inj (by decide) h2 h1
    subst ek
    obtain ⟨m, t, hp, hm0, hmb, hval, hall⟩ := h3 er.symm
    refine ⟨m, t, hp, hm0, hmb, hval, ?_⟩
    intro r' hlt hb
    cases hg : st.get (encode k r') with
    | none => rfl
    | some v' =>
      have := hall _ (Store.mem_of_get hg) r' hb rfl
      omega
  · intro k hi r hr0 hb
    cases hg : st.get (encode k r) with
    | none => rfl
    | some v' =>
      obtain ⟨k', r', h1, h2, _, h4⟩ := keyCheck_spec (h _ (Store.mem_of_get hg))
      simp only at h1
      obtain ⟨ek, er⟩ := encode_inj hb h2 h1
      subst ek
      have := h4 (by omega)
      rw [hi] at this
      cases this

end KB.SysLag
