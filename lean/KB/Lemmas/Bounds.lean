/-
  Helper lemmas for ARBITRARY range bounds — `encodeBound` = `backend.encodeRangeBound` (/repo 23c8b93: a raw
  bound is cut at its first byte at or below the key/revision separator; before that, 146f0bb, only a bound
  `K ++ [0]` was recognised).
  The lemmas of KB.Lemmas.Scan about `doList` / `doCount` on an encoded store, generalised from bounds over
  the alphabet to ALL byte strings: the records read are exactly those of the raw keys between the RAW bounds.
-/
import KB.Lemmas.Scan
import KB.Props.C03
namespace KB
open Generated

theorem iterate_asc_encodeStore_bounds (q : Quirks) {recs : List Rec}
    (hk : ∀ r ∈ recs, Alphabet r.key ∧ r.rev < 2 ^ 64) {a b : Bytes} (hab : cmp a b = .lt) :
    iterate q (encodeStore recs) (encodeBound a) (encodeBound b) 0 = encodeStore (recs.filter (inRange a b)) := by
  have hfil : ∀ r ∈ recs, (ble (encodeBound a) (encRec r).1 && blt (encRec r).1 (encodeBound b)) = inRange a b r := by
    intro r hr
    obtain ⟨h1, h2⟩ := hk r hr
    simp only [encRec, inRange]
    rw [Bool.eq_iff_iff, Bool.and_eq_true, Bool.and_eq_true]
    exact C10.range_bounds_exact' h1 h2
  rcases encodeBound_lt_or_eq hab with hlt | ⟨heq, _⟩
  · simp only [iterate, applyLimit, hlt, if_true, iterAsc]
    rw [encodeStore_def, encodeStore_def, List.filter_map]
    congr 1
    apply List.filter_congr
    intro r hr
    exact hfil r hr
  · -- both bounds are cut behind the same key: the scanned interval is empty, and no key lies between
    have hnone : recs.filter (inRange a b) = [] := by
      rw [List.filter_eq_nil_iff]
      intro r hr
      rw [← hfil r hr, heq]
      cases h1 : ble (encodeBound b) (encRec r).1
      · simp
      · have := not_blt_iff_ble.mpr h1
        simp [this]
    rw [hnone]
    simp [iterate, applyLimit, heq, encodeStore_def]

theorem scanParts_encodeStore_bounds (c : Cfg) (hsplit : c.splits = []) {recs : List Rec}
    (hk : ∀ r ∈ recs, Alphabet r.key ∧ r.rev < 2 ^ 64) {a b : Bytes}
    (hab : cmp a b = .lt) (rev : Nat) :
    scanParts c (encodeStore recs) (encodeBound a) (encodeBound b) rev =
      .ok [scanRecs rev (recs.filter (inRange a b))] := by
  have hdec : decodeRecs (encodeStore (recs.filter (inRange a b))) = some ((recs.filter (inRange a b)).map reKey) :=
    decodeRecs_encodeStore (fun r hr => (hk r (List.mem_filter.mp hr).1).2)
  have hplain : WCfg.Plain { R := rev, supportTTL := c.q.supportTTL } := ⟨rfl, rfl⟩
  simp only [scanParts, belowFloor_encodeStore, Bool.false_eq_true, if_false,
    scanPartitions_single hsplit, List.map_cons, List.map_nil, iterate_asc_encodeStore_bounds c.q hk hab,
    hdec, hasPanic_workerActs hplain, emits_decoded hplain]
  simp

theorem scanLimited_encodeStore_bounds (c : Cfg) {recs : List Rec}
    (hk : ∀ r ∈ recs, Alphabet r.key ∧ r.rev < 2 ^ 64) {a b : Bytes}
    (hab : cmp a b = .lt) (rev lim : Nat) :
    scanLimited c (encodeStore recs) (encodeBound a) (encodeBound b) rev lim =
      .ok ((scanRecs rev (recs.filter (inRange a b))).take lim) := by
  have hdec : decodeRecs (encodeStore (recs.filter (inRange a b))) = some ((recs.filter (inRange a b)).map reKey) :=
    decodeRecs_encodeStore (fun r hr => (hk r (List.mem_filter.mp hr).1).2)
  have hplain : WCfg.Plain { R := rev, supportTTL := c.q.supportTTL } := ⟨rfl, rfl⟩
  simp only [scanLimited, belowFloor_encodeStore, Bool.false_eq_true, if_false,
    iterate_asc_encodeStore_bounds c.q hk hab, hdec, emits_decoded hplain]

theorem doList_bounds_unlimited (c : Cfg) (hsplit : c.splits = []) (s : BState) {recs : List Rec}
    (hstore : s.store = encodeStore recs) (hk : ∀ r ∈ recs, Alphabet r.key ∧ r.rev < 2 ^ 64)
    {a b : Bytes} (hab : cmp a b = .lt) (R : Nat) :
    doList c s a b R 0 =
      .ok { hdr := hdrOf s.committed (scanRecs (if R == 0 then s.committed else R) (recs.filter (inRange a b))),
            more := false,
            kvs := scanRecs (if R == 0 then s.committed else R) (recs.filter (inRange a b)) } := by
  simp [doList, not_isEmpty_of_lt hab, hab, hstore, scanParts_encodeStore_bounds c hsplit hk hab]

theorem doList_bounds_limited (c : Cfg) (s : BState) {recs : List Rec}
    (hstore : s.store = encodeStore recs) (hk : ∀ r ∈ recs, Alphabet r.key ∧ r.rev < 2 ^ 64)
    {a b : Bytes} (hab : cmp a b = .lt) (R : Nat) {n : Nat} (hn : 0 < n) :
    doList c s a b R n =
      .ok { hdr := hdrOf s.committed ((scanRecs (if R == 0 then s.committed else R) (recs.filter (inRange a b))).take n),
            more := decide (n < (scanRecs (if R == 0 then s.committed else R) (recs.filter (inRange a b))).length),
            kvs := (scanRecs (if R == 0 then s.committed else R) (recs.filter (inRange a b))).take n } := by
  simp only [doList, not_isEmpty_of_lt hab, hab, hstore, scanLimited_encodeStore_bounds c hk hab]
  have hmin : min n (n + 1) = n := by omega
  simp only [Bool.false_eq_true, if_false, bne_self_eq_false, gt_iff_lt, hn, if_true, List.length_take,
    List.take_take, hmin]
  congr 2
  apply decide_eq_decide.mpr; omega

theorem doCount_bounds (c : Cfg) (hsplit : c.splits = []) (hcompat : c.etcdCompat = true) (s : BState)
    {recs : List Rec} (hstore : s.store = encodeStore recs) (hk : ∀ r ∈ recs, Alphabet r.key ∧ r.rev < 2 ^ 64)
    {a b : Bytes} (hab : cmp a b = .lt) :
    doCount c s a b = .ok (s.committed, (scanRecs s.committed (recs.filter (inRange a b))).length) := by
  simp [doCount, hcompat, hstore, scanParts_encodeStore_bounds c hsplit hk hab]

/-- `C03.list_spec` for arbitrary bounds: the kvs are the scan of exactly the
records of the raw keys `k` with `a ≤ k < b` in `bytes.Compare` order on RAW keys. -/
theorem doList_bounds_spec (c : Cfg) (hsplit : c.splits = []) (s : BState) {recs : List Rec}
    (hstore : s.store = encodeStore recs) (hk : ∀ r ∈ recs, Alphabet r.key ∧ r.rev < 2 ^ 64)
    (a b : Bytes) (hab : cmp a b = .lt) (R n : Nat) :
    let full := scanRecs (C03.readRev R s.committed) (recs.filter (fun r => ble a r.key && blt r.key b))
    ∃ res, doList c s a b R n = .ok res ∧ res.hdr = hdrOf s.committed res.kvs ∧
      res.kvs = (if n = 0 then full else full.take n) ∧ (res.more = true ↔ (0 < n ∧ n < full.length)) := by
  intro full
  have hfull : full = scanRecs (if R == 0 then s.committed else R) (recs.filter (inRange a b)) := rfl
  by_cases hn : n = 0
  · subst hn
    refine ⟨_, doList_bounds_unlimited c hsplit s hstore hk hab R, rfl, ?_, ?_⟩
    · simp [hfull]
    · simp
  · have hpos : 0 < n := by omega
    refine ⟨_, doList_bounds_limited c s hstore hk hab R hpos, rfl, ?_, ?_⟩
    · simp [hn, hfull]
    · simp [hpos, hfull]

end KB
