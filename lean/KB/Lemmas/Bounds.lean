/-
  Helper lemmas for the range bounds of the form `K ++ [0]` ("just after K": the continue key of a paginated
  list, the end of a single-key range) — `encodeBound` = `backend.encodeRangeBound` (/repo 146f0bb).
  The lemmas of KB.Lemmas.Scan about `doList` / `doCount` on an encoded store, generalised from bounds over
  the alphabet to `RangeBound`s (a key over the alphabet or the successor of one): the records read are
  exactly those of the raw keys between the RAW bounds.
-/
import KB.Lemmas.Scan
import KB.Props.C03
namespace KB
open Generated

theorem iterate_asc_encodeStore_bounds (q : Quirks) {recs : List Rec}
    (hk : ∀ r ∈ recs, Alphabet r.key ∧ r.rev < 2 ^ 64) {a b : Bytes} (ha : RangeBound a) (hb : RangeBound b)
    (hab : cmp a b = .lt) :
    iterate q (encodeStore recs) (encodeBound a) (encodeBound b) 0 = encodeStore (recs.filter (inRange a b)) := by
  have hlt : cmp (encodeBound a) (encodeBound b) = .lt := encodeBound_lt ha hb hab
  simp only [iterate, applyLimit, hlt, if_true, iterAsc]
  rw [encodeStore_def, encodeStore_def, List.filter_map]
  congr 1
  apply List.filter_congr
  intro r hr
  obtain ⟨h1, h2⟩ := hk r hr
  simp only [Function.comp, encRec, inRange]
  rw [Bool.eq_iff_iff, Bool.and_eq_true, Bool.and_eq_true]
  exact C10.range_bounds_exact' ha hb h1 h2

theorem scanParts_encodeStore_bounds (c : Cfg) (hsplit : c.splits = []) {recs : List Rec}
    (hk : ∀ r ∈ recs, Alphabet r.key ∧ r.rev < 2 ^ 64) {a b : Bytes} (ha : RangeBound a) (hb : RangeBound b)
    (hab : cmp a b = .lt) (rev : Nat) :
    scanParts c (encodeStore recs) (encodeBound a) (encodeBound b) rev =
      .ok [scanRecs rev (recs.filter (inRange a b))] := by
  have hdec : decodeRecs (encodeStore (recs.filter (inRange a b))) = some ((recs.filter (inRange a b)).map reKey) :=
    decodeRecs_encodeStore (fun r hr => (hk r (List.mem_filter.mp hr).1).2)
  have hplain : WCfg.Plain { R := rev, supportTTL := c.q.supportTTL } := ⟨rfl, rfl⟩
  simp only [scanParts, belowFloor_encodeStore, Bool.false_eq_true, if_false,
    scanPartitions_single hsplit, List.map_cons, List.map_nil, iterate_asc_encodeStore_bounds c.q hk ha hb hab,
    hdec, hasPanic_workerActs hplain, emits_decoded hplain]
  simp

theorem scanLimited_encodeStore_bounds (c : Cfg) {recs : List Rec}
    (hk : ∀ r ∈ recs, Alphabet r.key ∧ r.rev < 2 ^ 64) {a b : Bytes} (ha : RangeBound a) (hb : RangeBound b)
    (hab : cmp a b = .lt) (rev lim : Nat) :
    scanLimited c (encodeStore recs) (encodeBound a) (encodeBound b) rev lim =
      .ok ((scanRecs rev (recs.filter (inRange a b))).take lim) := by
  have hdec : decodeRecs (encodeStore (recs.filter (inRange a b))) = some ((recs.filter (inRange a b)).map reKey) :=
    decodeRecs_encodeStore (fun r hr => (hk r (List.mem_filter.mp hr).1).2)
  have hplain : WCfg.Plain { R := rev, supportTTL := c.q.supportTTL } := ⟨rfl, rfl⟩
  simp only [scanLimited, belowFloor_encodeStore, Bool.false_eq_true, if_false,
    iterate_asc_encodeStore_bounds c.q hk ha hb hab, hdec, emits_decoded hplain]

theorem doList_bounds_unlimited (c : Cfg) (hsplit : c.splits = []) (s : BState) {recs : List Rec}
    (hstore : s.store = encodeStore recs) (hk : ∀ r ∈ recs, Alphabet r.key ∧ r.rev < 2 ^ 64)
    {a b : Bytes} (ha : RangeBound a) (hb : RangeBound b) (hab : cmp a b = .lt) (R : Nat) :
    doList c s a b R 0 =
      .ok { hdr := hdrOf s.committed (scanRecs (if R == 0 then s.committed else R) (recs.filter (inRange a b))),
            more := false,
            kvs := scanRecs (if R == 0 then s.committed else R) (recs.filter (inRange a b)) } := by
  simp [doList, not_isEmpty_of_lt hab, hab, hstore, scanParts_encodeStore_bounds c hsplit hk ha hb hab]

theorem doList_bounds_limited (c : Cfg) (s : BState) {recs : List Rec}
    (hstore : s.store = encodeStore recs) (hk : ∀ r ∈ recs, Alphabet r.key ∧ r.rev < 2 ^ 64)
    {a b : Bytes} (ha : RangeBound a) (hb : RangeBound b) (hab : cmp a b = .lt) (R : Nat) {n : Nat} (hn : 0 < n) :
    doList c s a b R n =
      .ok { hdr := hdrOf s.committed ((scanRecs (if R == 0 then s.committed else R) (recs.filter (inRange a b))).take n),
            more := decide (n < (scanRecs (if R == 0 then s.committed else R) (recs.filter (inRange a b))).length),
            kvs := (scanRecs (if R == 0 then s.committed else R) (recs.filter (inRange a b))).take n } := by
  simp only [doList, not_isEmpty_of_lt hab, hab, hstore, scanLimited_encodeStore_bounds c hk ha hb hab]
  have hmin : min n (n + 1) = n := by omega
  simp only [Bool.false_eq_true, if_false, bne_self_eq_false, gt_iff_lt, hn, if_true, List.length_take,
    List.take_take, hmin]
  congr 2
  apply decide_eq_decide.mpr; omega

theorem doCount_bounds (c : Cfg) (hsplit : c.splits = []) (hcompat : c.etcdCompat = true) (s : BState)
    {recs : List Rec} (hstore : s.store = encodeStore recs) (hk : ∀ r ∈ recs, Alphabet r.key ∧ r.rev < 2 ^ 64)
    {a b : Bytes} (ha : RangeBound a) (hb : RangeBound b) (hab : cmp a b = .lt) :
    doCount c s a b = .ok (s.committed, (scanRecs s.committed (recs.filter (inRange a b))).length) := by
  simp [doCount, hcompat, hstore, scanParts_encodeStore_bounds c hsplit hk ha hb hab]

/-- `C03.list_spec` for bounds that are keys or successors of keys: the kvs are the scan of exactly the
records of the raw keys `k` with `a ≤ k < b` in `bytes.Compare` order on RAW keys. -/
theorem doList_bounds_spec (c : Cfg) (hsplit : c.splits = []) (s : BState) {recs : List Rec}
    (hstore : s.store = encodeStore recs) (hk : ∀ r ∈ recs, Alphabet r.key ∧ r.rev < 2 ^ 64)
    (a b : Bytes) (ha : RangeBound a) (hb : RangeBound b) (hab : cmp a b = .lt) (R n : Nat) :
    let full := scanRecs (C03.readRev R s.committed) (recs.filter (fun r => ble a r.key && blt r.key b))
    ∃ res, doList c s a b R n = .ok res ∧ res.hdr = hdrOf s.committed res.kvs ∧
      res.kvs = (if n = 0 then full else full.take n) ∧ (res.more = true ↔ (0 < n ∧ n < full.length)) := by
  intro full
  have hfull : full = scanRecs (if R == 0 then s.committed else R) (recs.filter (inRange a b)) := rfl
  by_cases hn : n = 0
  · subst hn
    refine ⟨_, doList_bounds_unlimited c hsplit s hstore hk ha hb hab R, rfl, ?_, ?_⟩
    · simp [hfull]
    · simp
  · have hpos : 0 < n := by omega
    refine ⟨_, doList_bounds_limited c s hstore hk ha hb hab R hpos, rfl, ?_, ?_⟩
    · simp [hn, hfull]
    · simp [hpos, hfull]

end KB
