/- Store-level invariants of KB.Sys (index record = optimistic lock), used by C01 and C02Store. -/
import KB.Sys
import KB.Lemmas.Coder
import KB.Props.C02
namespace KB
end KB
