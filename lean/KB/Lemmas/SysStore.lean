/-
  Store-level invariants of KB.Sys (index record = optimistic lock), used by C01 and C02Store.
  Layout: store frame lemmas; `stepClient_cases` / `stepRetry_cases` (case analysis of a step with the
  tuple matches resolved); `NoW` (a step applies at most one batch); the invariant `SInv` of reachable
  states = `Core` (index record of a key = its last applied write, chain condition of every applied
  write; the parts that depend on 8-byte revisions are guarded by `dealt < 2 ^ 64`) + `Cl` (per-request
  facts, in-flight revisions fresh and pairwise distinct) + `Dn` (responses); `SInv.reachable`.
  The well-formedness of the initial store is used only through `G0OK` (stored keys are encodings with
  revision ≤ dealt, index records parse to a revision ≤ dealt): neither sortedness nor the alphabet matter.
-/
import KB.Sys
import KB.Lemmas.Coder
import KB.Props.C02
import KB.Props.C10
namespace KB.SysStore
open Generated

/-! ### the association-list store: frame lemmas (no sortedness needed) -/

theorem Store.get_put (s : Store) (k v k' : Bytes) :
    (s.put k v).get k' = if k' = k then some v else s.get k' := by
  induction s with
  | nil =>
    simp only [Store.put, Store.get]
    by_cases h : k' = k
    · subst h; simp
    · have : cmp k' k ≠ .eq := fun e => h (cmp_eq_iff.mp e)
      cases hc : cmp k' k <;> simp_all
  | cons x xs ih =>
    obtain ⟨k0, v0⟩ := x
    simp only [Store.put]
    cases hc : cmp k k0 with
    | lt =>
      simp only [Store.get]
      cases hc' : cmp k' k with
      | lt =>
        have h1 : cmp k' k0 = .lt := cmp_lt_trans hc' hc
        have h2 : k' ≠ k := fun e => by rw [e] at hc'; simp at hc'
        simp [h1, h2]
      | eq => simp [cmp_eq_iff.mp hc']
      | gt =>
        have h2 : k' ≠ k := fun e => by rw [e] at hc'; simp at hc'
        simp [h2]
    | eq =>
      have e := cmp_eq_iff.mp hc
      subst e
      simp only [Store.get]
      cases hc' : cmp k' k with
      | lt =>
        have h2 : k' ≠ k := fun e => by rw [e] at hc'; simp at hc'
        simp [h2]
      | eq => simp [cmp_eq_iff.mp hc']
      | gt =>
        have h2 : k' ≠ k := fun e => by rw [e] at hc'; simp at hc'
        simp [h2]
    | gt =>
      simp only [Store.get]
      cases hc' : cmp k' k0 with
      | lt =>
        have h2 : k' ≠ k := fun e => by
          rw [e] at hc'; rw [hc] at hc'; exact Ordering.noConfusion hc'
        simp [h2]
      | eq =>
        have h2 : k' ≠ k := fun e => by
          rw [e] at hc'; rw [hc] at hc'; exact Ordering.noConfusion hc'
        simp [h2]
      | gt => simpa using ih

theorem Store.mem_put {s : Store} {k v : Bytes} {kv : Bytes × Bytes} (h : kv ∈ s.put k v) :
    kv.1 = k ∨ kv ∈ s := by
  induction s with
  | nil => simp [Store.put] at h; left; simp [h]
  | cons x xs ih =>
    obtain ⟨k0, v0⟩ := x
    simp only [Store.put] at h
    cases hc : cmp k k0 with
    | lt =>
      simp only [hc, List.mem_cons] at h
      rcases h with h | h | h
      · left; simp [h]
      · right; simp [h]
      · right; simp [h]
    | eq =>
      simp only [hc, List.mem_cons] at h
      rcases h with h | h
      · left; simp [h, cmp_eq_iff.mp hc]
      · right; simp [h]
    | gt =>
      simp only [hc, List.mem_cons] at h
      rcases h with h | h
      · right; simp [h]
      · rcases ih h with h | h
        · left; exact h
        · right; simp [h]

theorem Store.mem_of_get {s : Store} {k v : Bytes} (h : s.get k = some v) : (k, v) ∈ s := by
  induction s with
  | nil => simp [Store.get] at h
  | cons x xs ih =>
    obtain ⟨k0, v0⟩ := x
    simp only [Store.get] at h
    cases hc : cmp k k0 with
    | lt => simp [hc] at h
    | eq =>
      simp only [hc, Option.some.injEq] at h
      simp [h, cmp_eq_iff.mp hc]
    | gt =>
      simp only [hc] at h
      exact List.mem_cons_of_mem _ (ih h)

/-! ### batches -/

theorem commit_pine_put (q : Quirks) (s : Store) (idx new ver v : Bytes) (st' : Store) :
    commit q s [.pine idx new, .put ver v] = .ok st' ↔
      (s.get idx = none ∧ st' = (s.put idx new).put ver v) := by
  simp only [commit, applyOps, applyOp]
  cases h : s.get idx with
  | none => simp [eq_comm]
  | some old => simp

theorem commit_cas_put (q : Quirks) (s : Store) (idx new old ver v : Bytes) (st' : Store) :
    commit q s [.cas idx new old, .put ver v] = .ok st' ↔
      (s.get idx = some old ∧ st' = (s.put idx new).put ver v) := by
  simp only [commit, applyOps, applyOp]
  cases h : s.get idx with
  | none => by_cases hq : q.casMissingNotFound <;> simp [hq]
  | some cur =>
    by_cases hc : cur = old
    · subst hc; simp [eq_comm]
    · simp [hc]

theorem doCommit_not_applied (c : Cfg) (st : Store) (ops : List BOp) (f : Fault)
    (h : applied (doCommit c st ops f).1 f = false) : (doCommit c st ops f).2 = st := by
  unfold doCommit at *
  cases hc : commit c.q st ops with
  | error e => cases e <;> simp
  | ok st' =>
    rw [hc] at h
    cases f <;> simp_all [applied]

theorem doCommit_applied (c : Cfg) (st : Store) (ops : List BOp) (f : Fault)
    (h : applied (doCommit c st ops f).1 f = true) : commit c.q st ops = .ok (doCommit c st ops f).2 := by
  unfold doCommit at *
  cases hc : commit c.q st ops with
  | error e => rw [hc] at h; cases e <;> simp [applied] at h
  | ok st' =>
    rw [hc] at h
    cases f <;> simp_all [applied]

/-- an applied commit answers `ok` or `uncertain` -/
theorem doCommit_applied_res (c : Cfg) (st : Store) (ops : List BOp) (f : Fault)
    (h : applied (doCommit c st ops f).1 f = true) :
    (doCommit c st ops f).1 = .ok ∨ (doCommit c st ops f).1 = .uncertain := by
  generalize (doCommit c st ops f).1 = r at h
  cases r <;> simp [applied] at h ⊢

/-! ### field projections of the state updates -/

section fields
variable (g : G) (c : Client) (w : WEvent) (res : WriteRes) (rev : Nat)
@[simp] theorem G.setClient_store : (g.setClient c).store = g.store := rfl
@[simp] theorem G.setClient_wlog : (g.setClient c).wlog = g.wlog := rfl
@[simp] theorem G.setClient_hist : (g.setClient c).hist = g.hist := rfl
@[simp] theorem G.setClient_dealt : (g.setClient c).dealt = g.dealt := rfl
@[simp] theorem G.setClient_done : (g.setClient c).done = g.done := rfl
@[simp] theorem G.setClient_cfg : (g.setClient c).cfg = g.cfg := rfl
@[simp] theorem G.finish_store : (g.finish c res rev).store = g.store := rfl
@[simp] theorem G.finish_wlog : (g.finish c res rev).wlog = g.wlog := rfl
@[simp] theorem G.finish_hist : (g.finish c res rev).hist = g.hist := rfl
@[simp] theorem G.finish_dealt : (g.finish c res rev).dealt = g.dealt := rfl
@[simp] theorem G.finish_cfg : (g.finish c res rev).cfg = g.cfg := rfl
@[simp] theorem G.notify_store : (g.notify w).store = g.store := by unfold G.notify; split <;> rfl
@[simp] theorem G.notify_wlog : (g.notify w).wlog = g.wlog := by unfold G.notify; split <;> rfl
@[simp] theorem G.notify_hist : (g.notify w).hist = g.hist := by unfold G.notify; split <;> rfl
@[simp] theorem G.notify_dealt : (g.notify w).dealt = g.dealt := by unfold G.notify; split <;> rfl
@[simp] theorem G.notify_done : (g.notify w).done = g.done := by unfold G.notify; split <;> rfl
@[simp] theorem G.notify_clients : (g.notify w).clients = g.clients := by unfold G.notify; split <;> rfl
@[simp] theorem G.notify_cfg : (g.notify w).cfg = g.cfg := by unfold G.notify; split <;> rfl
@[simp] theorem G.notify_retryPc : (g.notify w).retryPc = g.retryPc := by unfold G.notify; split <;> rfl
@[simp] theorem G.notify_retryQ : (g.notify w).retryQ = g.retryQ := by unfold G.notify; split <;> rfl
@[simp] theorem G.setClient_retryPc : (g.setClient c).retryPc = g.retryPc := rfl
@[simp] theorem G.finish_retryPc : (g.finish c res rev).retryPc = g.retryPc := rfl
end fields

theorem finishCreate_store_wlog (g : G) (c : Client) (key val : Bytes) (rev : Nat) (r : CommitRes) :
    (finishCreate g c key val rev r).store = g.store ∧ (finishCreate g c key val rev r).wlog = g.wlog := by
  unfold finishCreate
  split
  · simp
  · split <;> simp
  · simp

theorem createSawIndex_store_wlog (g : G) (c : Client) (key val : Bytes) (rev : Nat) (old : Bytes) (att : Nat) :
    (createSawIndex g c key val rev old att).store = g.store ∧ (createSawIndex g c key val rev old att).wlog = g.wlog := by
  unfold createSawIndex
  split
  · exact finishCreate_store_wlog ..
  · split
    · simp
    · exact finishCreate_store_wlog ..


/-- the state after a commit: new store, and the ghost log entry iff the batch was applied -/
def afterCommit (g : G) (r : CommitRes) (st : Store) (f : Fault) (key : Bytes) (rev : Nat) (val : Option Bytes)
    (exp : Expect) : G :=
  if applied r f then G.logWrite { g with store := st } key rev val exp else { g with store := st }

/-- Case analysis of one client step, with the tuple matches resolved. -/
theorem stepClient_cases {P : G → Prop} (g : G) (c : Client) (f : Fault)
    (hStartCreate : ∀ key val, c.pc = .start → c.kind = .create key val →
      P (G.setClient { g with dealt := g.dealt + 1 } { c with pc := .createCommit (g.dealt + 1) }))
    (hStartUpdate : ∀ key val exp, c.pc = .start → c.kind = .update key val exp →
      P (if exp == 0 then G.setClient { g with dealt := g.dealt + 1 } { c with pc := .createCommit (g.dealt + 1) }
         else if g.dealt + 1 ≤ exp then
           (G.notify { g with dealt := g.dealt + 1 } (mkW (g.dealt + 1) exp false .put key val)).finish c (.error .drift) (g.dealt + 1)
         else G.setClient { g with dealt := g.dealt + 1 } { c with pc := .updateCommit (g.dealt + 1) }))
    (hCreateCommit : ∀ rev key val r st, c.pc = .createCommit rev →
      doCommit g.cfg g.store (createOps key val rev) f = (r, st) →
      P (match r with
         | .conflict idx cv =>
           if idx == some 0 then createSawIndex (afterCommit g r st f key rev (some val) .absent) c key val rev (cv.getD [])
           else (afterCommit g r st f key rev (some val) .absent).setClient { c with pc := .createReread rev }
         | r' => finishCreate (afterCommit g r st f key rev (some val) .absent) c key val rev r'))
    (hCreateReread : ∀ rev key val, c.pc = .createReread rev →
      P (match g.store.get (idxKey key) with
         | some old => createSawIndex g c key val rev old
         | none => g.setClient { c with pc := .createRetry rev }))
    (hCreateRetry : ∀ rev key val r st, c.pc = .createRetry rev →
      doCommit g.cfg g.store (createOps key val rev) f = (r, st) →
      P (finishCreate (afterCommit g r st f key rev (some val) .absent) c key val rev r))
    (hCreateOver : ∀ rev old att key val r st, c.pc = .createOver rev old att →
      doCommit g.cfg g.store [BOp.cas (idxKey key) (be8 rev) old, BOp.put (encode key rev) val] f = (r, st) →
      P (match r with
         | .conflict _ _ => (afterCommit g r st f key rev (some val) .absent).setClient { c with pc := .createRecheck rev att }
         | r' => finishCreate (afterCommit g r st f key rev (some val) .absent) c key val rev r'))
    (hCreateRecheck : ∀ rev att key val, c.pc = .createRecheck rev att →
      P (match g.store.get (idxKey key) with
         | some cur =>
           if g.cfg.creatorNoReeval || att ≥ 3 then finishCreate g c key val rev (.conflict none none)
           else createSawIndex g c key val rev cur (att + 1)
         | none => g.setClient { c with pc := .createRetry rev }))
    (hUpdateCommit : ∀ rev key val exp r st, c.pc = .updateCommit rev → c.kind = .update key val exp →
      doCommit g.cfg g.store [BOp.cas (idxKey key) (be8 rev) (be8 exp), BOp.put (encode key rev) val] f = (r, st) →
      P (match r with
         | .ok => ((afterCommit g r st f key rev (some val) (.rev exp)).notify
                    (mkW rev exp (r == .ok) .put key val (r == .uncertain))).finish c (.ok rev) rev
         | .conflict _ _ => ((afterCommit g r st f key rev (some val) (.rev exp)).notify
                    (mkW rev exp (r == .ok) .put key val (r == .uncertain))).setClient { c with pc := .readLatest rev none }
         | r' => ((afterCommit g r st f key rev (some val) (.rev exp)).notify
                    (mkW rev exp (r == .ok) .put key val (r == .uncertain))).finish c (.error (commitErr r')) rev))
    (hStartDelete : ∀ key exp, c.pc = .start → c.kind = .delete key exp →
      P (match bget g.cfg g.store key 0 with
         | .notFound _ => g.setClient { c with pc := .deleteDeal none }
         | .found v m => g.setClient { c with pc := .deleteDeal (some (v, m)) }))
    (hDeleteDealNone : ∀ key exp, c.pc = .deleteDeal none → c.kind = .delete key exp →
      P ((G.notify { g with dealt := g.dealt + 1 } (mkW (g.dealt + 1) 0 false .delete key [])).finish c
          (.notFound (g.dealt + 1)) (g.dealt + 1)))
    (hDeleteDealSome : ∀ oldVal modRev key exp, c.pc = .deleteDeal (some (oldVal, modRev)) → c.kind = .delete key exp →
      P (if exp > 0 && g.dealt + 1 ≤ exp then
           (G.notify { g with dealt := g.dealt + 1 } (mkW (g.dealt + 1) modRev false .delete key oldVal)).finish c (.error .drift) (g.dealt + 1)
         else if exp > 0 && exp != modRev then
           (G.notify { g with dealt := g.dealt + 1 } (mkW (g.dealt + 1) modRev false .delete key oldVal)).setClient
             { c with pc := .readLatest (g.dealt + 1) (some (key, oldVal, modRev)) }
         else if g.dealt + 1 ≤ modRev then
           (G.notify { g with dealt := g.dealt + 1 } (mkW (g.dealt + 1) modRev false .delete key oldVal)).finish c (.error .other) (g.dealt + 1)
         else G.setClient { g with dealt := g.dealt + 1 } { c with pc := .deleteCommit (g.dealt + 1) oldVal modRev }))
    (hDeleteCommit : ∀ rev oldVal modRev key exp r st, c.pc = .deleteCommit rev oldVal modRev → c.kind = .delete key exp →
      doCommit g.cfg g.store [BOp.cas (idxKey key) (be8 rev ++ [0]) (be8 modRev), BOp.put (encode key rev) tombstone] f = (r, st) →
      P (match r with
         | .ok => ((afterCommit g r st f key rev none (.rev modRev)).notify
                    (mkW rev modRev (r == .ok) .delete key oldVal (r == .uncertain))).finish c (.ok rev) rev
         | .conflict _ _ => ((afterCommit g r st f key rev none (.rev modRev)).notify
                    (mkW rev modRev (r == .ok) .delete key oldVal (r == .uncertain))).setClient
                      { c with pc := .readLatest rev (some (key, oldVal, modRev)) }
         | r' => ((afterCommit g r st f key rev none (.rev modRev)).notify
                    (mkW rev modRev (r == .ok) .delete key oldVal (r == .uncertain))).finish c (.error (commitErr r')) rev))
    (hReadLatest : ∀ rev fb, c.pc = .readLatest rev fb →
      P (match bget g.cfg g.store c.kind.key 0 with
         | .found v m => g.finish c (.condFailed (max rev m) (some (c.kind.key, v, m))) rev
         | .notFound _ => g.finish c (.condFailed rev fb) rev))
    (hNop : P g)
    (hRefuse : dealSite c = true → g.windowFull = true → P (g.refuse c (refusal c))) : P (stepClient g c f) := by
  unfold stepClient
  split
  · rename_i h
    simp only [Bool.and_eq_true] at h
    exact hRefuse h.1 h.2
  clear hRefuse
  obtain ⟨id, kind, pc, bd⟩ := c
  unfold stepClientCore
  split
  · exact hStartCreate _ _ ‹_› ‹_›
  · exact hStartUpdate _ _ _ ‹_› ‹_›
  · cases kind <;>
    · simp only []
      generalize hdc : doCommit g.cfg g.store (createOps _ _ _) f = p
      obtain ⟨r, st⟩ := p
      have hL := hCreateCommit _ _ _ r st ‹_› hdc
      cases r <;> simpa only [afterCommit] using hL
  · cases kind <;> exact hCreateReread _ _ _ ‹_›
  · cases kind <;>
    · simp only []
      generalize hdc : doCommit g.cfg g.store (createOps _ _ _) f = p
      obtain ⟨r, st⟩ := p
      have hL := hCreateRetry _ _ _ r st ‹_› hdc
      cases r <;> simpa only [afterCommit] using hL
  · cases kind <;>
    · simp only []
      generalize hdc : doCommit g.cfg g.store _ f = p
      obtain ⟨r, st⟩ := p
      have hL := hCreateOver _ _ _ _ _ r st ‹_› hdc
      cases r <;> simpa only [afterCommit] using hL
  · cases kind <;> exact hCreateRecheck _ _ _ _ ‹_›
  · simp only []
    generalize hdc : doCommit g.cfg g.store _ f = p
    obtain ⟨r, st⟩ := p
    have hL := hUpdateCommit _ _ _ _ r st ‹_› ‹_› hdc
    cases r <;> simpa only [afterCommit] using hL
  · exact hStartDelete _ _ ‹_› ‹_›
  · exact hDeleteDealNone _ _ ‹_› ‹_›
  · exact hDeleteDealSome _ _ _ _ ‹_› ‹_›
  · simp only []
    generalize hdc : doCommit g.cfg g.store _ f = p
    obtain ⟨r, st⟩ := p
    have hL := hDeleteCommit _ _ _ _ _ r st ‹_› ‹_› hdc
    cases r <;> simpa only [afterCommit] using hL
  · exact hReadLatest _ _ ‹_›
  · exact hNop

/-! ### a step applies at most one batch -/

/-- the shape every step has on `(store, wlog)`: nothing, or one applied batch -/
def NoW (g g' : G) : Prop :=
  (g'.store = g.store ∧ g'.wlog = g.wlog) ∨ ∃ x, g'.wlog = g.wlog ++ [x]

theorem NoW.of_eq {g g1 g' : G} (h : NoW g g1) (h1 : g'.store = g1.store) (h2 : g'.wlog = g1.wlog) : NoW g g' := by
  rcases h with ⟨a, b⟩ | ⟨x, hx⟩
  · exact .inl ⟨h1.trans a, h2.trans b⟩
  · exact .inr ⟨x, h2.trans hx⟩

theorem NoW.afterCommit {g : G} {ops : List BOp} {f : Fault} {r : CommitRes} {st : Store}
    (h : doCommit g.cfg g.store ops f = (r, st)) (key : Bytes) (rev : Nat) (val : Option Bytes) (exp : Expect) :
    NoW g (afterCommit g r st f key rev val exp) := by
  unfold KB.SysStore.afterCommit
  cases ha : applied r f with
  | true => exact .inr ⟨_, rfl⟩
  | false =>
    have := doCommit_not_applied g.cfg g.store ops f (by rw [h]; exact ha)
    rw [h] at this
    exact .inl ⟨this, rfl⟩

theorem stepClient_noW (g : G) (c : Client) (f : Fault) : NoW g (stepClient g c f) := by
  apply stepClient_cases
  · intros; exact .inl ⟨rfl, rfl⟩
  · intros; split
    · exact .inl ⟨rfl, rfl⟩
    · split
      · exact .inl ⟨by simp, by simp⟩
      · exact .inl ⟨rfl, rfl⟩
  · intro rev key val r st _ hdc
    have h := NoW.afterCommit hdc key rev (some val) .absent
    split
    · split
      · exact h.of_eq (createSawIndex_store_wlog ..).1 (createSawIndex_store_wlog ..).2
      · exact h.of_eq rfl rfl
    · exact h.of_eq (finishCreate_store_wlog ..).1 (finishCreate_store_wlog ..).2
  · intro rev key val _
    split
    · exact .inl (createSawIndex_store_wlog ..)
    · exact .inl ⟨rfl, rfl⟩
  · intro rev key val r st _ hdc
    exact (NoW.afterCommit hdc key rev (some val) .absent).of_eq (finishCreate_store_wlog ..).1 (finishCreate_store_wlog ..).2
  · intro rev old att key val r st _ hdc
    have h := NoW.afterCommit hdc key rev (some val) .absent
    split
    · exact h.of_eq rfl rfl
    · exact h.of_eq (finishCreate_store_wlog ..).1 (finishCreate_store_wlog ..).2
  · intro rev att key val _
    split
    · split
      · exact .inl (finishCreate_store_wlog ..)
      · exact .inl (createSawIndex_store_wlog ..)
    · exact .inl ⟨rfl, rfl⟩
  · intro rev key val exp r st _ _ hdc
    have h := NoW.afterCommit hdc key rev (some val) (.rev exp)
    split <;> exact h.of_eq (by simp) (by simp)
  · intros; split <;> exact .inl ⟨rfl, rfl⟩
  · intros; exact .inl ⟨by simp, by simp⟩
  · intros
    split
    · exact .inl ⟨by simp, by simp⟩
    · split
      · exact .inl ⟨by simp, by simp⟩
      · split
        · exact .inl ⟨by simp, by simp⟩
        · exact .inl ⟨rfl, rfl⟩
  · intro rev oldVal modRev key exp r st _ _ hdc
    have h := NoW.afterCommit hdc key rev none (.rev modRev)
    split <;> exact h.of_eq (by simp) (by simp)
  · intros; split <;> exact .inl ⟨rfl, rfl⟩
  · exact .inl ⟨rfl, rfl⟩
  · intros; exact .inl ⟨rfl, rfl⟩

/-- Case analysis of the retry loop's read step. -/
theorem stepRetryRead_cases {P : G → Prop} (g : G)
    (hBusy : ∀ p, g.retryPc = some p → P g)
    (hNop : g.retryPc = none → g.retryQ = [] → P g)
    (hPop : ∀ w rest, g.retryPc = none → g.retryQ = w :: rest →
      (getInternal g.cfg g.store w.key 0 = none ∨
        ∃ val m, getInternal g.cfg g.store w.key 0 = some (val, m) ∧ (val = [] ∨ m ≠ w.rev)) →
      P { g with retryQ := rest })
    (hDeal : ∀ w rest val, g.retryPc = none → g.retryQ = w :: rest →
      getInternal g.cfg g.store w.key 0 = some (val, w.rev) → val ≠ [] → g.windowFull = false →
      P { g with dealt := g.dealt + 1, retryPc := some { w := w, rev := g.dealt + 1, val := val } })
    (hFull : g.retryPc = none → g.windowFull = true → P g) :
    P (stepRetryRead g) := by
  unfold stepRetryRead
  split
  · exact hBusy _ ‹_›
  · rename_i hn
    split
    · exact hNop hn ‹_›
    · split
      · exact hPop _ _ hn ‹_› (.inl ‹_›)
      · split
        · rename_i w rest hq _ val modRev hget hc
          refine hPop _ _ hn hq (.inr ⟨val, modRev, hget, ?_⟩)
          simp only [Bool.or_eq_true, beq_iff_eq, bne_iff_ne, ne_eq, List.length_eq_zero_iff] at hc
          exact hc
        · rename_i w rest hq _ val modRev hget hc
          simp only [Bool.or_eq_true, beq_iff_eq, bne_iff_ne, ne_eq, not_or, Decidable.not_not,
            List.length_eq_zero_iff] at hc
          obtain ⟨hne, rfl⟩ := hc
          split
          · exact hFull hn ‹_›
          · exact hDeal w rest val hn hq hget hne (by simpa using ‹¬ g.windowFull = true›)

/-- Case analysis of the retry loop's commit step, with the tuple match resolved. -/
theorem stepRetryCommit_cases {P : G → Prop} (g : G) (f : Fault)
    (hNop : g.retryPc = none → P g)
    (hWrite : ∀ p r st, g.retryPc = some p →
      doCommit g.cfg g.store
        [BOp.cas (idxKey p.w.key) (be8 p.rev ++ if isTomb p.val then [0] else []) (be8 p.w.rev ++ if isTomb p.val then [0] else []),
         BOp.put (encode p.w.key p.rev) p.val] f = (r, st) →
      P ((afterCommit { g with retryPc := none, retryQ := if r == CommitRes.ok || r.isCas then g.retryQ.drop 1 else g.retryQ }
            r st f p.w.key p.rev (if isTomb p.val then none else some p.val) (.rev p.w.rev)).notify
          { p.w with rev := p.rev, valid := r == .ok, uncertain := r == .uncertain })) :
    P (stepRetryCommit g f) := by
  unfold stepRetryCommit
  split
  · exact hNop ‹_›
  · rename_i p hp
    simp only []
    generalize hdc : doCommit g.cfg g.store _ f = q
    obtain ⟨r, st⟩ := q
    have hL := hWrite p r st hp hdc
    simpa only [afterCommit] using hL

theorem stepRetryRead_noW (g : G) : NoW g (stepRetryRead g) := by
  apply stepRetryRead_cases
  · intros; exact .inl ⟨rfl, rfl⟩
  · intros; exact .inl ⟨rfl, rfl⟩
  · intros; exact .inl ⟨rfl, rfl⟩
  · intros; exact .inl ⟨rfl, rfl⟩
  · intros; exact .inl ⟨rfl, rfl⟩

theorem stepRetryCommit_noW (g : G) (f : Fault) : NoW g (stepRetryCommit g f) := by
  apply stepRetryCommit_cases
  · intro _; exact .inl ⟨rfl, rfl⟩
  · intro p r st _ hdc
    have h := NoW.afterCommit (g := { g with retryPc := none, retryQ := if r == CommitRes.ok || r.isCas then g.retryQ.drop 1 else g.retryQ })
      hdc p.w.key p.rev (if isTomb p.val then none else some p.val) (.rev p.w.rev)
    exact NoW.of_eq (g1 := afterCommit { g with retryPc := none, retryQ := if r == CommitRes.ok || r.isCas then g.retryQ.drop 1 else g.retryQ }
      r st f p.w.key p.rev (if isTomb p.val then none else some p.val) (.rev p.w.rev)) h (by simp) (by simp)

/-- a whole `retry()`: at most one of its two steps applies a batch -/
theorem stepRetry_noW (g : G) (f : Fault) : NoW g (stepRetry g f) := by
  unfold stepRetry
  rcases stepRetryRead_noW g with ⟨h1, h2⟩ | ⟨x, hx⟩
  · rcases stepRetryCommit_noW (stepRetryRead g) f with ⟨h3, h4⟩ | ⟨y, hy⟩
    · exact .inl ⟨h3.trans h1, h4.trans h2⟩
    · exact .inr ⟨y, by rw [hy, h2]⟩
  · -- the read applies nothing
    exfalso
    have : NoW g (stepRetryRead g) → (stepRetryRead g).wlog = g.wlog := by
      intro _
      apply stepRetryRead_cases (P := fun g' => g'.wlog = g.wlog) <;> intros <;> rfl
    have := this (.inr ⟨x, hx⟩)
    rw [this] at hx
    have := congrArg List.length hx
    simp at this

theorem act_noW (g : G) (a : Action) : NoW g (act g a) := by
  cases a with
  | begin id kind => unfold act; simp only []; split <;> exact .inl ⟨rfl, rfl⟩
  | step id f =>
    unfold act; simp only []; split
    · exact .inl ⟨rfl, rfl⟩
    · exact stepClient_noW ..
  | seq => unfold act stepSeq; simp only []; split <;> exact .inl ⟨rfl, rfl⟩
  | retry f => exact stepRetry_noW g f
  | retryRead => exact stepRetryRead_noW g
  | retryCommit f => exact stepRetryCommit_noW g f

theorem act_store_of_wlog (g : G) (a : Action) (h : (act g a).wlog = g.wlog) :
    (act g a).store = g.store := by
  rcases act_noW g a with ⟨h1, _⟩ | ⟨x, hx⟩
  · exact h1
  · rw [hx] at h
    have := congrArg List.length h
    simp at this


/-! ### conflict indices -/

theorem applyOp_conflict_idx {q : Quirks} {s : Store} {i : Nat} {op : BOp} {n : Nat} {v : Option Bytes}
    (h : applyOp q s i op = .error (.conflict (some n) v)) : n = i + q.idxOffset := by
  cases op with
  | pine k v =>
    simp only [applyOp] at h
    split at h <;> simp at h
    exact h.1.symm
  | cas k new old =>
    simp only [applyOp] at h
    split at h
    · split at h <;> simp at h
      exact h.1.symm
    · split at h <;> simp at h
      exact h.1.symm
  | put k v => simp [applyOp] at h
  | del k => simp [applyOp] at h
  | delcur k v =>
    simp only [applyOp] at h
    split at h
    · split at h <;> simp at h
      exact h.1.symm
    · split at h
      · simp at h
      · split at h <;> simp at h
        exact h.1.symm

theorem applyOps_conflict_idx {q : Quirks} {s : Store} {i : Nat} {ops : List BOp} {n : Nat} {v : Option Bytes}
    (h : applyOps q s i ops = .error (.conflict (some n) v)) : i + q.idxOffset ≤ n := by
  induction ops generalizing s i with
  | nil => simp [applyOps] at h
  | cons op ops ih =>
    simp only [applyOps] at h
    split at h
    · rename_i e he
      injection h with h
      subst h
      have := applyOp_conflict_idx he
      omega
    · have := ih h
      omega

/-! ### encoded keys -/

theorem pow64 : (256 : Nat) ^ 8 = 2 ^ 64 := by decide

theorem be8_length (r : Nat) : (be8 r).length = 8 := by simp [be8, be64]

theorem be8_mod (r : Nat) : be8 (r % 2 ^ 64) = be8 r := by
  rw [← pow64]; exact beN_mod 8 r

theorem encode_mod (k : Bytes) (r : Nat) : encode k (r % 2 ^ 64) = encode k r := by
  have := be8_mod r
  simp only [be8] at this
  simp only [encode, this]

theorem idxKey_ne_encode {k k' : Bytes} {r : Nat} (h0 : 0 < r) (hr : r < 2 ^ 64) : idxKey k ≠ encode k' r := by
  intro h
  have := (encode_inj (by decide) hr h).2
  omega

theorem encode_ne_idxKey {k k' : Bytes} {r : Nat} (h0 : 0 < r) (hr : r < 2 ^ 64) : encode k' r ≠ idxKey k :=
  fun h => idxKey_ne_encode h0 hr h.symm

theorem idxKey_inj {k k' : Bytes} (h : idxKey k = idxKey k') : k = k' :=
  (encode_inj (by decide) (by decide) h).1

theorem be8_append_inj {a b : Nat} {x y : Bytes} (ha : a < 2 ^ 64) (hb : b < 2 ^ 64)
    (h : be8 a ++ x = be8 b ++ y) : a = b ∧ x = y := by
  have h1 := List.append_inj h (by simp [be8_length])
  exact ⟨be64_inj ha hb h1.1, h1.2⟩

/-- decoding a stored key never yields more than the revision it was encoded with -/
theorem decode_encode_le (k : Bytes) (r : Nat) : ∃ m, decode (encode k r) = .ok k m ∧ m ≤ r := by
  refine ⟨r % 2 ^ 64, ?_, Nat.mod_le _ _⟩
  rw [← encode_mod]
  exact decode_encode k _ (Nat.mod_lt _ (by decide))

/-! ### reads return stored records -/

theorem applyLimit_subset (q : Quirks) (n : Nat) (l : List (Bytes × Bytes)) : ∀ x ∈ applyLimit q n l, x ∈ l := by
  intro x hx
  unfold applyLimit at hx
  split at hx
  · exact hx
  · split at hx
    · exact hx
    · exact List.mem_of_mem_take hx
    · exact List.mem_of_mem_take hx

theorem iterate_subset (q : Quirks) (s : Store) (a b : Bytes) (n : Nat) : ∀ x ∈ iterate q s a b n, x ∈ s := by
  intro x hx
  unfold iterate at hx
  have hx := applyLimit_subset _ _ _ x hx
  split at hx
  · exact (List.mem_filter.mp hx).1
  · split at hx
    · unfold iterDesc at hx
      simp only [] at hx
      split at hx
      · split at hx
        · simp at hx
        · rename_i first rest heq
          have hsub : ∀ y ∈ first :: rest, y ∈ s := by
            intro y hy
            rw [← heq] at hy
            exact (List.mem_filter.mp (List.mem_reverse.mp hy)).1
          rcases List.mem_cons.mp hx with rfl | hx
          · exact hsub _ (by simp)
          · exact hsub _ (List.mem_cons_of_mem _ ((List.takeWhile_sublist _).subset hx))
      · exact (List.mem_filter.mp (List.mem_reverse.mp ((List.takeWhile_sublist _).subset hx))).1
    · simp at hx

theorem getInternal_le {c : Cfg} {st : Store} {key : Bytes} {rev : Nat} {v : Bytes} {m : Nat} {dealt : Nat}
    (hk : ∀ kv ∈ st, ∃ k r, kv.1 = encode k r ∧ r ≤ dealt)
    (h : getInternal c st key rev = some (v, m)) : m ≤ dealt := by
  unfold getInternal at h
  simp only [] at h
  split at h
  · simp at h
  · rename_i ik v' rest heq
    have hmem : (ik, v') ∈ st := iterate_subset _ _ _ _ _ _ (by rw [heq]; simp)
    obtain ⟨k, r, hkr, hr⟩ := hk _ hmem
    simp only at hkr
    obtain ⟨m', hd, hm'⟩ := decode_encode_le k r
    rw [hkr, hd] at h
    simp only [] at h
    split at h
    · simp at h
    · simp only [Option.some.injEq, Prod.mk.injEq] at h
      omega

/-! ### the core invariant: index record = last applied write -/

/-- the deletion flag an index record carries for a logged value -/
def flagOf : Option Bytes → Bytes
  | none => [0]
  | some _ => []

/-- the last applied write to `k` in a log -/
def lastW (l : List WLog) (k : Bytes) : Option WLog := (l.filter (fun w => w.key == k)).getLast?

theorem lastW_append (l : List WLog) (w : WLog) (k : Bytes) :
    lastW (l ++ [w]) k = if w.key = k then some w else lastW l k := by
  unfold lastW
  rw [List.filter_append]
  by_cases h : w.key = k
  · simp [h]
  · simp [h]

theorem lastW_some {l : List WLog} {k : Bytes} {p : WLog} (h : lastW l k = some p) : p ∈ l ∧ p.key = k := by
  have := List.mem_filter.mp (List.mem_of_getLast? h)
  exact ⟨this.1, by simpa using this.2⟩

/-- index record of `k` in the initial store, parsed -/
def initIdx (g0 : G) (k : Bytes) : Option (Nat × Bool) := (g0.store.get (idxKey k)).bind parseRevision

/-- `C01.ChainAt` with the predecessor made explicit -/
def ChainCond (g0 : G) (p : Option WLog) (w : WLog) : Prop :=
  match p, w.exp with
  | some p, .rev e => p.rev = e ∧ p.rev < w.rev
  | some p, .absent => p.val = none ∧ p.rev < w.rev
  | none, .rev e => ∃ t, initIdx g0 w.key = some (e, t) ∧ e < w.rev
  | none, .absent => initIdx g0 w.key = none ∨ ∃ m, initIdx g0 w.key = some (m, true) ∧ m < w.rev

/-- what the store holds for key `k` whose last applied write is `p` -/
def IdxOK (g0 : G) (store : Store) (p : Option WLog) (k : Bytes) : Prop :=
  match p with
  | some p => store.get (idxKey k) = some (be8 p.rev ++ flagOf p.val) ∧
              store.get (encode k p.rev) = some (p.val.getD tombstone)
  | none => store.get (idxKey k) = g0.store.get (idxKey k)

/-- facts about the initial state (from `C02.StoreOK`) -/
structure G0OK (g0 : G) : Prop where
  keys0 : ∀ kv ∈ g0.store, ∃ k r, kv.1 = encode k r ∧ r ≤ g0.dealt
  idx0 : ∀ k v m t, g0.store.get (idxKey k) = some v → parseRevision v = some (m, t) → m ≤ g0.dealt

structure Core (g0 : G) (store : Store) (dealt : Nat) (wlog : List WLog) : Prop where
  d0 : g0.dealt ≤ dealt
  keys : ∀ kv ∈ store, ∃ k r, kv.1 = encode k r ∧ r ≤ dealt
  revs : ∀ w ∈ wlog, g0.dealt < w.rev ∧ w.rev ≤ dealt
  idx : dealt < 2 ^ 64 → ∀ k, IdxOK g0 store (lastW wlog k) k
  chain : dealt < 2 ^ 64 → ∀ i w, wlog[i]? = some w → ChainCond g0 (lastW (wlog.take i) w.key) w

theorem Core.mono {g0 : G} {store : Store} {dealt dealt' : Nat} {wlog : List WLog}
    (h : Core g0 store dealt wlog) (hd : dealt ≤ dealt') : Core g0 store dealt' wlog where
  d0 := Nat.le_trans h.d0 hd
  keys := fun kv hkv => by
    obtain ⟨k, r, h1, h2⟩ := h.keys kv hkv
    exact ⟨k, r, h1, Nat.le_trans h2 hd⟩
  revs := fun w hw => ⟨(h.revs w hw).1, Nat.le_trans (h.revs w hw).2 hd⟩
  idx := fun hb => h.idx (by omega)
  chain := fun hb => h.chain (by omega)

/-- the store after an applied write batch -/
def wstore (store : Store) (key : Bytes) (rev : Nat) (new v : Bytes) : Store :=
  (store.put (idxKey key) new).put (encode key rev) v

theorem wstore_get_idx {store : Store} {key : Bytes} {rev : Nat} {new v : Bytes} (h0 : 0 < rev) (hr : rev < 2 ^ 64)
    (k : Bytes) : (wstore store key rev new v).get (idxKey k) = if k = key then some new else store.get (idxKey k) := by
  unfold wstore
  rw [Store.get_put, if_neg (idxKey_ne_encode h0 hr), Store.get_put]
  by_cases h : k = key
  · simp [h]
  · have : idxKey k ≠ idxKey key := fun e => h (idxKey_inj e)
    simp [h, this]

theorem wstore_get_ver {store : Store} {key : Bytes} {rev : Nat} {new v : Bytes} (hr : rev < 2 ^ 64)
    (k : Bytes) (r : Nat) (h0 : 0 < r) (hr' : r < 2 ^ 64) :
    (wstore store key rev new v).get (encode k r) =
      if k = key ∧ r = rev then some v else store.get (encode k r) := by
  unfold wstore
  rw [Store.get_put, Store.get_put, if_neg (encode_ne_idxKey h0 hr')]
  by_cases h : k = key ∧ r = rev
  · simp [h.1, h.2]
  · have : encode k r ≠ encode key rev := fun e => h (encode_inj hr' hr e)
    simp [h, this]

theorem Core.write {g0 : G} {store : Store} {dealt : Nat} {wlog : List WLog}
    (h : Core g0 store dealt wlog) (w : WLog) (new v : Bytes)
    (hnew : new = be8 w.rev ++ flagOf w.val) (hv : v = w.val.getD tombstone)
    (hr1 : g0.dealt < w.rev) (hr2 : w.rev ≤ dealt)
    (hch : dealt < 2 ^ 64 → ChainCond g0 (lastW wlog w.key) w) :
    Core g0 (wstore store w.key w.rev new v) dealt (wlog ++ [w]) where
  d0 := h.d0
  keys := fun kv hkv => by
    rcases Store.mem_put hkv with h1 | h1
    · exact ⟨w.key, w.rev, h1, hr2⟩
    · rcases Store.mem_put h1 with h2 | h2
      · exact ⟨w.key, 0, h2, Nat.zero_le _⟩
      · exact h.keys kv h2
  revs := fun x hx => by
    rcases List.mem_append.mp hx with hx | hx
    · exact h.revs x hx
    · simp only [List.mem_singleton] at hx; subst hx; exact ⟨hr1, hr2⟩
  idx := fun hb k => by
    have h0 : 0 < w.rev := by omega
    have hr : w.rev < 2 ^ 64 := by omega
    rw [lastW_append]
    by_cases hk : w.key = k
    · subst hk
      simp only [if_true, IdxOK]
      rw [wstore_get_idx h0 hr, wstore_get_ver hr _ _ h0 hr]
      simp [hnew, hv]
    · rw [if_neg hk]
      have hk' : ¬ k = w.key := fun e => hk e.symm
      have := h.idx hb k
      cases hl : lastW wlog k with
      | none =>
        rw [hl] at this
        simp only [IdxOK] at this ⊢
        rw [wstore_get_idx h0 hr, if_neg hk']; exact this
      | some p =>
        rw [hl] at this
        simp only [IdxOK] at this ⊢
        have hp := h.revs p (lastW_some hl).1
        rw [wstore_get_idx h0 hr, if_neg hk', wstore_get_ver hr _ _ (by omega) (by omega)]
        simp only [hk', false_and, if_false]
        exact this
  chain := fun hb i x hx => by
    by_cases hi : i < wlog.length
    · rw [List.getElem?_append_left hi] at hx
      rw [List.take_append_of_le_length (Nat.le_of_lt hi)]
      exact h.chain hb i x hx
    · have hlen := (List.getElem?_eq_some_iff.mp hx).1
      simp only [List.length_append, List.length_singleton] at hlen
      have hi' : i = wlog.length := by omega
      subst hi'
      simp only [List.getElem?_append_right (Nat.le_refl _), Nat.sub_self, List.getElem?_cons_zero,
        Option.some.injEq] at hx
      subst hx
      rw [List.take_append_of_le_length (Nat.le_refl _), List.take_length]
      exact hch hb

/-! ### the index condition of an applied batch gives the chain condition -/

theorem parseRevision_be8_flag {e : Nat} (he : e < 2 ^ 64) (v : Option Bytes) :
    parseRevision (be8 e ++ flagOf v) = some (e, v.isNone) := by
  cases v with
  | none => exact C10.parseRevision_deleted e 0 he
  | some x => simpa [flagOf, be8] using C10.parseRevision_live e he

theorem chainCond_pine {g0 : G} {store : Store} {dealt : Nat} {wlog : List WLog}
    (h : Core g0 store dealt wlog) (hb : dealt < 2 ^ 64) {key : Bytes} (rev : Nat) (val : Option Bytes)
    (hget : store.get (idxKey key) = none) :
    ChainCond g0 (lastW wlog key) ⟨key, rev, val, .absent⟩ := by
  have hi := h.idx hb key
  cases hl : lastW wlog key with
  | some p => rw [hl] at hi; simp only [IdxOK] at hi; rw [hget] at hi; simp at hi
  | none =>
    rw [hl] at hi; simp only [IdxOK] at hi
    simp only [ChainCond, initIdx]
    left; rw [← hi, hget]; rfl

theorem chainCond_over {g0 : G} {store : Store} {dealt : Nat} {wlog : List WLog}
    (h : Core g0 store dealt wlog) (hb : dealt < 2 ^ 64) {key : Bytes} (rev : Nat) (val : Option Bytes)
    {old : Bytes} {p : Nat} (hget : store.get (idxKey key) = some old)
    (hp : parseRevision old = some (p, true)) (hlt : p < rev) :
    ChainCond g0 (lastW wlog key) ⟨key, rev, val, .absent⟩ := by
  have hi := h.idx hb key
  cases hl : lastW wlog key with
  | some q =>
    rw [hl] at hi; simp only [IdxOK] at hi
    have hq := h.revs q (lastW_some hl).1
    have hold : old = be8 q.rev ++ flagOf q.val := by
      have := hi.1; rw [hget] at this; exact Option.some.inj this
    rw [hold, parseRevision_be8_flag (by omega)] at hp
    simp only [Option.some.injEq, Prod.mk.injEq, Option.isNone_iff_eq_none] at hp
    simp only [ChainCond]
    exact ⟨hp.2, by omega⟩
  | none =>
    rw [hl] at hi; simp only [IdxOK] at hi
    simp only [ChainCond, initIdx]
    right
    refine ⟨p, ?_, hlt⟩
    rw [← hi, hget]; exact hp

theorem chainCond_rev {g0 : G} (h0 : G0OK g0) {store : Store} {dealt : Nat} {wlog : List WLog}
    (h : Core g0 store dealt wlog) (hb : dealt < 2 ^ 64) {key : Bytes} (rev : Nat) (val : Option Bytes)
    {e : Nat} {fl : Bytes} (hget : store.get (idxKey key) = some (be8 e ++ fl)) (hfl : fl = [] ∨ fl = [0])
    (he : e ≤ rev) (hr0 : g0.dealt < rev) (hr : rev ≤ dealt) (hfresh : ∀ w ∈ wlog, w.rev ≠ rev) :
    ChainCond g0 (lastW wlog key) ⟨key, rev, val, .rev e⟩ := by
  have hi := h.idx hb key
  cases hl : lastW wlog key with
  | some q =>
    rw [hl] at hi; simp only [IdxOK] at hi
    have hq := h.revs q (lastW_some hl).1
    have hqf := hfresh q (lastW_some hl).1
    have := hi.1; rw [hget] at this
    have := (be8_append_inj (by omega) (by omega) (Option.some.inj this)).1
    simp only [ChainCond]
    omega
  | none =>
    rw [hl] at hi; simp only [IdxOK] at hi
    simp only [ChainCond, initIdx]
    rw [hget] at hi
    have hpar : ∃ t, parseRevision (be8 e ++ fl) = some (e, t) := by
      rcases hfl with rfl | rfl
      · exact ⟨false, by simpa [be8] using C10.parseRevision_live e (by omega)⟩
      · exact ⟨true, C10.parseRevision_deleted e 0 (by omega)⟩
    obtain ⟨t, ht⟩ := hpar
    have := h0.idx0 key _ e t hi.symm ht
    exact ⟨t, by rw [← hi]; exact ht, by omega⟩

/-! ### per-request invariants -/

/-- the revision a request holds and may still write under -/
def infl (c : Client) : Option Nat :=
  match c.pc with
  | .createCommit r => some r
  | .createReread r => some r
  | .createRetry r => some r
  | .createOver r _ _ => some r
  | .createRecheck r _ => some r
  | .updateCommit r => some r
  | .deleteCommit r _ _ => some r
  | _ => none

def Fresh (g0 : G) (dealt : Nat) (wlog : List WLog) (r : Nat) : Prop :=
  g0.dealt < r ∧ r ≤ dealt ∧ ∀ w ∈ wlog, w.rev ≠ r

def CInv (g0 : G) (dealt : Nat) (wlog : List WLog) (c : Client) : Prop :=
  match c.pc with
  | .start => True
  | .createCommit r => Fresh g0 dealt wlog r
  | .createReread r => Fresh g0 dealt wlog r
  | .createRetry r => Fresh g0 dealt wlog r
  | .createOver r old _ => Fresh g0 dealt wlog r ∧ ∃ p, parseRevision old = some (p, true) ∧ p < r
  | .createRecheck r _ => Fresh g0 dealt wlog r
  | .updateCommit r => Fresh g0 dealt wlog r ∧ ∀ k v e, c.kind = .update k v e → e ≤ r
  | .deleteDeal none => True
  | .deleteDeal (some (_, m)) => m ≤ dealt
  | .deleteCommit r _ m => Fresh g0 dealt wlog r ∧ m < r
  | .readLatest r fb => ∀ k v m, fb = some (k, v, m) → m ≤ r

theorem Fresh.mono {g0 : G} {d d' : Nat} {wl : List WLog} {r : Nat} (h : Fresh g0 d wl r) (hd : d ≤ d') :
    Fresh g0 d' wl r := ⟨h.1, Nat.le_trans h.2.1 hd, h.2.2⟩

theorem Fresh.log {g0 : G} {d : Nat} {wl : List WLog} {r : Nat} (h : Fresh g0 d wl r) {w : WLog} (hw : w.rev ≠ r) :
    Fresh g0 d (wl ++ [w]) r :=
  ⟨h.1, h.2.1, fun x hx => by
    rcases List.mem_append.mp hx with hx | hx
    · exact h.2.2 x hx
    · simp only [List.mem_singleton] at hx; subst hx; exact hw⟩

theorem CInv.fresh {g0 : G} {d : Nat} {wl : List WLog} {c : Client} (h : CInv g0 d wl c) {r : Nat}
    (hr : infl c = some r) : Fresh g0 d wl r := by
  unfold infl at hr
  cases hpc : c.pc with
  | deleteDeal old => simp [hpc] at hr
  | start => simp [hpc] at hr
  | readLatest _ _ => simp [hpc] at hr
  | createCommit r' => simp only [hpc, Option.some.injEq] at hr; simp only [CInv, hpc] at h; exact hr ▸ h
  | createReread r' => simp only [hpc, Option.some.injEq] at hr; simp only [CInv, hpc] at h; exact hr ▸ h
  | createRetry r' => simp only [hpc, Option.some.injEq] at hr; simp only [CInv, hpc] at h; exact hr ▸ h
  | createRecheck r' _ => simp only [hpc, Option.some.injEq] at hr; simp only [CInv, hpc] at h; exact hr ▸ h
  | createOver r' _ _ => simp only [hpc, Option.some.injEq] at hr; simp only [CInv, hpc] at h; exact hr ▸ h.1
  | updateCommit r' => simp only [hpc, Option.some.injEq] at hr; simp only [CInv, hpc] at h; exact hr ▸ h.1
  | deleteCommit r' _ _ => simp only [hpc, Option.some.injEq] at hr; simp only [CInv, hpc] at h; exact hr ▸ h.1

theorem CInv.mono {g0 : G} {d d' : Nat} {wl : List WLog} {c : Client} (h : CInv g0 d wl c) (hd : d ≤ d') :
    CInv g0 d' wl c := by
  cases hpc : c.pc with
  | deleteDeal old =>
    rcases old with _ | ⟨v, m⟩ <;> simp only [CInv, hpc] at h ⊢
    omega
  | start => simp only [CInv, hpc]
  | readLatest _ _ => simp only [CInv, hpc] at h ⊢; exact h
  | createCommit r' => simp only [CInv, hpc] at h ⊢; exact h.mono hd
  | createReread r' => simp only [CInv, hpc] at h ⊢; exact h.mono hd
  | createRetry r' => simp only [CInv, hpc] at h ⊢; exact h.mono hd
  | createRecheck r' _ => simp only [CInv, hpc] at h ⊢; exact h.mono hd
  | createOver r' _ _ => simp only [CInv, hpc] at h ⊢; exact ⟨h.1.mono hd, h.2⟩
  | updateCommit r' => simp only [CInv, hpc] at h ⊢; exact ⟨h.1.mono hd, h.2⟩
  | deleteCommit r' _ _ => simp only [CInv, hpc] at h ⊢; exact ⟨h.1.mono hd, h.2⟩

theorem CInv.log {g0 : G} {d : Nat} {wl : List WLog} {c : Client} (h : CInv g0 d wl c) {w : WLog}
    (hw : infl c ≠ some w.rev) : CInv g0 d (wl ++ [w]) c := by
  unfold infl at hw
  cases hpc : c.pc with
  | deleteDeal old =>
    rcases old with _ | ⟨v, m⟩ <;> simp only [CInv, hpc] at h ⊢
    exact h
  | start => simp only [CInv, hpc]
  | readLatest _ _ => simp only [CInv, hpc] at h ⊢; exact h
  | createCommit r' =>
    simp only [hpc, ne_eq, Option.some.injEq] at hw; simp only [CInv, hpc] at h ⊢
    exact h.log (fun e => hw e.symm)
  | createReread r' =>
    simp only [hpc, ne_eq, Option.some.injEq] at hw; simp only [CInv, hpc] at h ⊢
    exact h.log (fun e => hw e.symm)
  | createRetry r' =>
    simp only [hpc, ne_eq, Option.some.injEq] at hw; simp only [CInv, hpc] at h ⊢
    exact h.log (fun e => hw e.symm)
  | createRecheck r' _ =>
    simp only [hpc, ne_eq, Option.some.injEq] at hw; simp only [CInv, hpc] at h ⊢
    exact h.log (fun e => hw e.symm)
  | createOver r' _ _ =>
    simp only [hpc, ne_eq, Option.some.injEq] at hw; simp only [CInv, hpc] at h ⊢
    exact ⟨h.1.log (fun e => hw e.symm), h.2⟩
  | updateCommit r' =>
    simp only [hpc, ne_eq, Option.some.injEq] at hw; simp only [CInv, hpc] at h ⊢
    exact ⟨h.1.log (fun e => hw e.symm), h.2⟩
  | deleteCommit r' _ _ =>
    simp only [hpc, ne_eq, Option.some.injEq] at hw; simp only [CInv, hpc] at h ⊢
    exact ⟨h.1.log (fun e => hw e.symm), h.2⟩

/-- the requests in flight: each satisfies its invariant, and no two hold the same revision -/
def Cl (g0 : G) (dealt : Nat) (wlog : List WLog) (l : List Client) : Prop :=
  (∀ c ∈ l, CInv g0 dealt wlog c) ∧
  (∀ c1 ∈ l, ∀ c2 ∈ l, c1.id ≠ c2.id → ∀ r, infl c1 = some r → infl c2 ≠ some r)

theorem Cl.mono {g0 : G} {d d' : Nat} {wl : List WLog} {l : List Client} (h : Cl g0 d wl l) (hd : d ≤ d') :
    Cl g0 d' wl l := ⟨fun c hc => (h.1 c hc).mono hd, h.2⟩

theorem Cl.sub {g0 : G} {d : Nat} {wl : List WLog} {l l' : List Client} (h : Cl g0 d wl l)
    (hs : ∀ c ∈ l', c ∈ l) : Cl g0 d wl l' :=
  ⟨fun c hc => h.1 c (hs c hc), fun c1 h1 c2 h2 => h.2 c1 (hs c1 h1) c2 (hs c2 h2)⟩

theorem Cl.log {g0 : G} {d : Nat} {wl : List WLog} {l : List Client} (h : Cl g0 d wl l) {w : WLog}
    (hw : ∀ c ∈ l, infl c ≠ some w.rev) : Cl g0 d (wl ++ [w]) l :=
  ⟨fun c hc => (h.1 c hc).log (hw c hc), h.2⟩

theorem Cl.le_dealt {g0 : G} {d : Nat} {wl : List WLog} {l : List Client} (h : Cl g0 d wl l) {x : Client}
    (hx : x ∈ l) {r : Nat} (hr : infl x = some r) : r ≤ d := ((h.1 x hx).fresh hr).2.1

/-- members of the client list other than the stepping request -/
def others (l : List Client) (id : Nat) : List Client := l.filter (fun x => x.id != id)

theorem mem_others {l : List Client} {id : Nat} {x : Client} : x ∈ others l id ↔ x ∈ l ∧ x.id ≠ id := by
  simp [others]

theorem Cl.others_ne {g0 : G} {d : Nat} {wl : List WLog} {l : List Client} (h : Cl g0 d wl l) {c : Client}
    (hc : c ∈ l) {r : Nat} (hr : infl c = some r) : ∀ x ∈ others l c.id, infl x ≠ some r := by
  intro x hx
  rw [mem_others] at hx
  exact h.2 c hc x hx.1 (fun e => hx.2 e.symm) r hr

theorem Cl.set {g0 : G} {d : Nat} {wl : List WLog} {l : List Client} {c' : Client}
    (h : Cl g0 d wl (others l c'.id)) (hc : CInv g0 d wl c')
    (hd : ∀ r, infl c' = some r → ∀ x ∈ others l c'.id, infl x ≠ some r) :
    Cl g0 d wl (l.map (fun x => if x.id == c'.id then c' else x)) := by
  have hmem : ∀ y ∈ l.map (fun x => if x.id == c'.id then c' else x), y = c' ∨ y ∈ others l c'.id := by
    intro y hy
    obtain ⟨x, hx, rfl⟩ := List.mem_map.mp hy
    by_cases e : x.id = c'.id
    · left; simp [e]
    · right; simp [e, mem_others, hx]
  constructor
  · intro y hy
    rcases hmem y hy with rfl | hy
    · exact hc
    · exact h.1 y hy
  · intro c1 h1 c2 h2 hne r hr1 hr2
    rcases hmem c1 h1 with rfl | h1 <;> rcases hmem c2 h2 with rfl | h2
    · exact hne rfl
    · exact hd r hr1 c2 h2 hr2
    · exact hd r hr2 c1 h1 hr1
    · exact h.2 c1 h1 c2 h2 hne r hr1 hr2

/-- finished requests: a kv carried by a failed-condition response is not newer than the header -/
def Dn (done : List Done) : Prop :=
  ∀ d ∈ done, ∀ hdr k v m, d.res = .condFailed hdr (some (k, v, m)) → m ≤ hdr

def toH (w : WLog) : HWrite := { key := w.key, rev := w.rev, val := w.val }

/-- the retry loop between its read and its commit: the revision it was dealt is fresh and above the
revision it repairs -/
def RpOK (g0 : G) (dealt : Nat) (wlog : List WLog) (rp : Option RetryPc) : Prop :=
  ∀ p, rp = some p → Fresh g0 dealt wlog p.rev ∧ p.w.rev < p.rev

theorem RpOK.mono {g0 : G} {d d' : Nat} {wl : List WLog} {rp : Option RetryPc} (h : RpOK g0 d wl rp) (hd : d ≤ d') :
    RpOK g0 d' wl rp := fun p hp => ⟨(h p hp).1.mono hd, (h p hp).2⟩

theorem RpOK.log {g0 : G} {d : Nat} {wl : List WLog} {rp : Option RetryPc} (h : RpOK g0 d wl rp) {w : WLog}
    (hw : ∀ p, rp = some p → p.rev ≠ w.rev) : RpOK g0 d (wl ++ [w]) rp :=
  fun p hp => ⟨(h p hp).1.log (fun e => hw p hp e.symm), (h p hp).2⟩

theorem RpOK.none (g0 : G) (d : Nat) (wl : List WLog) : RpOK g0 d wl none := fun _ hp => by cases hp

/-- the invariant of reachable states; `SInvE … id` leaves out the requests with identifier `id`
(the one in the middle of its step) -/
structure SInvE (g0 : G) (g : G) (l : List Client) : Prop where
  core : Core g0 g.store g.dealt g.wlog
  hist : g.hist = g.wlog.map toH
  cl : Cl g0 g.dealt g.wlog l
  dn : Dn g.done
  rp : RpOK g0 g.dealt g.wlog g.retryPc

abbrev SInv (g0 g : G) : Prop := SInvE g0 g g.clients

/-! ### the state updates preserve the invariant -/

@[simp] theorem G.finish_clients (g : G) (c : Client) (res : WriteRes) (rev : Nat) :
    (g.finish c res rev).clients = others g.clients c.id := rfl

theorem SInv.toE {g0 g : G} (h : SInv g0 g) (id : Nat) : SInvE g0 g (others g.clients id) :=
  ⟨h.core, h.hist, h.cl.sub (fun _ hx => (mem_others.mp hx).1), h.dn, h.rp⟩

theorem SInvE.finish {g0 g : G} {c : Client} (h : SInvE g0 g (others g.clients c.id)) {res : WriteRes} (rev : Nat)
    (hres : ∀ hdr k v m, res = .condFailed hdr (some (k, v, m)) → m ≤ hdr) : SInv g0 (g.finish c res rev) := by
  refine ⟨h.core, h.hist, h.cl, ?_, h.rp⟩
  intro d hd
  simp only [G.finish, List.mem_append, List.mem_singleton] at hd
  rcases hd with hd | rfl
  · exact h.dn d hd
  · exact hres

theorem SInvE.set {g0 g : G} {c' : Client} (h : SInvE g0 g (others g.clients c'.id))
    (hc : CInv g0 g.dealt g.wlog c')
    (hd : ∀ r, infl c' = some r → ∀ x ∈ others g.clients c'.id, infl x ≠ some r) : SInv g0 (g.setClient c') :=
  ⟨h.core, h.hist, h.cl.set hc hd, h.dn, h.rp⟩

theorem SInvE.notify {g0 g : G} {l : List Client} (h : SInvE g0 g l) (w : WEvent) : SInvE g0 (g.notify w) l := by
  refine ⟨?_, ?_, ?_, ?_, ?_⟩
  · simpa using h.core
  · simpa using h.hist
  · simpa using h.cl
  · simpa using h.dn
  · simpa using h.rp

theorem SInvE.deal {g0 g : G} {l : List Client} (h : SInvE g0 g l) : SInvE g0 { g with dealt := g.dealt + 1 } l :=
  ⟨h.core.mono (Nat.le_succ _), h.hist, h.cl.mono (Nat.le_succ _), h.dn, h.rp.mono (Nat.le_succ _)⟩

theorem fresh_deal {g0 : G} {store : Store} {dealt : Nat} {wlog : List WLog} (h : Core g0 store dealt wlog) :
    Fresh g0 (dealt + 1) wlog (dealt + 1) :=
  ⟨Nat.lt_succ_of_le h.d0, Nat.le_refl _, fun w hw => by have := (h.revs w hw).2; omega⟩

theorem SInv.others_lt {g0 g : G} (h : SInv g0 g) (id : Nat) : ∀ x ∈ others g.clients id, infl x ≠ some (g.dealt + 1) := by
  intro x hx e
  have := h.cl.le_dealt (mem_others.mp hx).1 e
  omega

theorem SInvE.finishCreate {g0 g : G} {c : Client} (h : SInvE g0 g (others g.clients c.id)) (key val : Bytes)
    (rev : Nat) (r : CommitRes) : SInv g0 (finishCreate g c key val rev r) := by
  unfold KB.finishCreate
  have h' := h.notify (mkW rev 0 (r == .ok) .create key val (r == .uncertain))
  rw [← G.notify_clients g (mkW rev 0 (r == .ok) .create key val (r == .uncertain))] at h'
  split
  · exact h'.finish _ (by simp)
  · split
    · refine SInvE.set (c' := { c with pc := .readLatest rev none }) h' ?_ ?_
      · simp [CInv]
      · simp [infl]
    · exact h'.finish _ (by simp)
  · exact h'.finish _ (by simp)

theorem SInvE.createSawIndex {g0 g : G} {c : Client} (h : SInvE g0 g (others g.clients c.id)) (key val : Bytes)
    {rev : Nat} (old : Bytes) (hf : Fresh g0 g.dealt g.wlog rev) (ho : ∀ x ∈ others g.clients c.id, infl x ≠ some rev)
    (att : Nat) :
    SInv g0 (createSawIndex g c key val rev old att) := by
  unfold KB.createSawIndex
  split
  · exact h.finishCreate ..
  · split
    · rename_i prevRev tomb hp hc
      simp only [Bool.and_eq_true, decide_eq_true_eq] at hc
      refine SInvE.set (c' := { c with pc := .createOver rev old att }) h ?_ ?_
      · simp only [CInv]
        exact ⟨hf, prevRev, by rw [hp, hc.1], hc.2⟩
      · intro r hr
        simp only [infl, Option.some.injEq] at hr
        subst hr; exact ho
    · exact h.finishCreate ..

/-! ### the commit step -/

theorem doCommit_pine_cases {c : Cfg} {s : Store} {idx new ver v : Bytes} {f : Fault} {r : CommitRes} {st : Store}
    (hdc : doCommit c s [.pine idx new, .put ver v] f = (r, st)) :
    (applied r f = true ∧ s.get idx = none ∧ st = (s.put idx new).put ver v) ∨ (applied r f = false ∧ st = s) := by
  cases ha : applied r f with
  | true =>
    have := doCommit_applied c s _ f (by rw [hdc]; exact ha)
    rw [hdc] at this
    exact .inl ⟨rfl, (commit_pine_put ..).mp this⟩
  | false =>
    have := doCommit_not_applied c s _ f (by rw [hdc]; exact ha)
    rw [hdc] at this
    exact .inr ⟨rfl, this⟩

theorem doCommit_cas_cases {c : Cfg} {s : Store} {idx new old ver v : Bytes} {f : Fault} {r : CommitRes} {st : Store}
    (hdc : doCommit c s [.cas idx new old, .put ver v] f = (r, st)) :
    (applied r f = true ∧ s.get idx = some old ∧ st = (s.put idx new).put ver v) ∨ (applied r f = false ∧ st = s) := by
  cases ha : applied r f with
  | true =>
    have := doCommit_applied c s _ f (by rw [hdc]; exact ha)
    rw [hdc] at this
    exact .inl ⟨rfl, (commit_cas_put ..).mp this⟩
  | false =>
    have := doCommit_not_applied c s _ f (by rw [hdc]; exact ha)
    rw [hdc] at this
    exact .inr ⟨rfl, this⟩

@[simp] theorem afterCommit_retryPc (g : G) (r : CommitRes) (st : Store) (f : Fault) (key : Bytes) (rev : Nat)
    (val : Option Bytes) (exp : Expect) : (afterCommit g r st f key rev val exp).retryPc = g.retryPc := by
  unfold afterCommit; split <;> rfl

theorem SInvE.afterCommit {g0 g : G} {l : List Client} (h : SInvE g0 g l)
    {rev : Nat} (hf : Fresh g0 g.dealt g.wlog rev) (ho : ∀ x ∈ l, infl x ≠ some rev)
    (hrp : ∀ p, g.retryPc = some p → p.rev ≠ rev)
    {r : CommitRes} {st : Store} {f : Fault} {key : Bytes} {val : Option Bytes} {exp : Expect} {new v : Bytes}
    (hnew : new = be8 rev ++ flagOf val) (hv : v = val.getD tombstone)
    (hcase : (applied r f = true ∧ st = wstore g.store key rev new v ∧
               (g.dealt < 2 ^ 64 → ChainCond g0 (lastW g.wlog key) ⟨key, rev, val, exp⟩)) ∨
             (applied r f = false ∧ st = g.store)) :
    SInvE g0 (afterCommit g r st f key rev val exp) l := by
  unfold KB.SysStore.afterCommit
  rcases hcase with ⟨ha, hst, hch⟩ | ⟨ha, hst⟩
  · rw [if_pos ha]
    refine ⟨?_, ?_, ?_, h.dn, ?_⟩
    · simp only [G.logWrite, hst]
      exact h.core.write ⟨key, rev, val, exp⟩ new v hnew hv hf.1 hf.2.1 hch
    · simp [G.logWrite, h.hist, toH]
    · simp only [G.logWrite]
      exact h.cl.log ho
    · simp only [G.logWrite]
      exact h.rp.log hrp
  · rw [ha]
    simp only [Bool.false_eq_true, if_false, hst]
    exact ⟨h.core, h.hist, h.cl, h.dn, h.rp⟩

theorem afterCommit_conflict (g : G) (i : Option Nat) (cv : Option Bytes) (st : Store) (f : Fault) (key : Bytes)
    (rev : Nat) (val : Option Bytes) (exp : Expect) :
    afterCommit g (.conflict i cv) st f key rev val exp = { g with store := st } := by
  simp [afterCommit, applied]

/-! ### one client step preserves the invariant -/

@[simp] theorem afterCommit_clients (g : G) (r : CommitRes) (st : Store) (f : Fault) (key : Bytes) (rev : Nat)
    (val : Option Bytes) (exp : Expect) : (afterCommit g r st f key rev val exp).clients = g.clients := by
  unfold afterCommit; split <;> rfl

@[simp] theorem afterCommit_dealt (g : G) (r : CommitRes) (st : Store) (f : Fault) (key : Bytes) (rev : Nat)
    (val : Option Bytes) (exp : Expect) : (afterCommit g r st f key rev val exp).dealt = g.dealt := by
  unfold afterCommit; split <;> rfl

theorem SInvE.nfinish {g0 g : G} {c : Client} (h : SInvE g0 g (others g.clients c.id)) (w : WEvent) {res : WriteRes}
    (rev : Nat) (hres : ∀ hdr k v m, res = .condFailed hdr (some (k, v, m)) → m ≤ hdr) :
    SInv g0 ((g.notify w).finish c res rev) := by
  have h' := h.notify w
  rw [← G.notify_clients g w] at h'
  exact h'.finish rev hres

theorem SInvE.nset {g0 g : G} {c' : Client} (h : SInvE g0 g (others g.clients c'.id)) (w : WEvent)
    (hc : CInv g0 g.dealt g.wlog c')
    (hd : ∀ r, infl c' = some r → ∀ x ∈ others g.clients c'.id, infl x ≠ some r) :
    SInv g0 ((g.notify w).setClient c') := by
  have h' := h.notify w
  rw [← G.notify_clients g w] at h'
  exact h'.set (by simpa using hc) (by simpa using hd)

theorem bget_found {c : Cfg} {st : Store} {k : Bytes} {r : Nat} {v : Bytes} {m : Nat}
    (h : bget c st k r = .found v m) : getInternal c st k r = some (v, m) := by
  unfold bget at h
  split at h
  · simp at h
  · split at h
    · simp at h
    · rename_i heq _
      simp only [GetRes.found.injEq] at h
      rw [heq, h.1, h.2]

/-- the invariant after the commit of a request holding `rev` -/
theorem SInv.commitE {g0 g : G} (h : SInv g0 g) {c : Client} (hc : c ∈ g.clients) {rev : Nat}
    (hinfl : infl c = some rev) (hrp : ∀ p, g.retryPc = some p → p.rev ≠ rev)
    {r : CommitRes} {st : Store} {f : Fault} {key : Bytes} {val : Option Bytes} {exp : Expect} {new v : Bytes}
    (hnew : new = be8 rev ++ flagOf val) (hv : v = val.getD tombstone)
    (hcase : (applied r f = true ∧ st = wstore g.store key rev new v ∧
               (g.dealt < 2 ^ 64 → ChainCond g0 (lastW g.wlog key) ⟨key, rev, val, exp⟩)) ∨
             (applied r f = false ∧ st = g.store)) :
    SInvE g0 (afterCommit g r st f key rev val exp) (others (afterCommit g r st f key rev val exp).clients c.id) := by
  rw [afterCommit_clients]
  exact (h.toE c.id).afterCommit ((h.cl.1 c hc).fresh hinfl) (h.cl.others_ne hc hinfl) hrp hnew hv hcase

theorem infl_eq (c : Client) : infl c = c.pc.inflight := by
  obtain ⟨id, kind, pc, bd⟩ := c
  cases pc <;> rfl

theorem SInv.stepClient {g0 g : G} (h0 : G0OK g0) (hv : KB.SInv g.view) (h : SInv g0 g) {c : Client}
    (hc : c ∈ g.clients) (f : Fault) : SInv g0 (stepClient g c f) := by
  have hci := h.cl.1 c hc
  have hE := h.toE c.id
  have hrp : ∀ r, infl c = some r → ∀ p, g.retryPc = some p → p.rev ≠ r := by
    intro r hr p hp e
    rw [infl_eq] at hr
    exact hv.rpcInfl c hc r hr (by simp [G.view, hp, e])
  apply stepClient_cases
  · -- start / create
    intro key val hpc hk
    refine SInvE.set (c' := { c with pc := .createCommit (g.dealt + 1) }) hE.deal ?_ ?_
    · simp only [CInv]; exact fresh_deal h.core
    · intro r hr; simp only [infl, Option.some.injEq] at hr; subst hr; exact h.others_lt c.id
  · -- start / update
    intro key val exp hpc hk
    split
    · refine SInvE.set (c' := { c with pc := .createCommit (g.dealt + 1) }) hE.deal ?_ ?_
      · simp only [CInv]; exact fresh_deal h.core
      · intro r hr; simp only [infl, Option.some.injEq] at hr; subst hr; exact h.others_lt c.id
    · split
      · exact SInvE.nfinish (g := { g with dealt := g.dealt + 1 }) hE.deal _ _ (by simp)
      · rename_i hlt
        refine SInvE.set (c' := { c with pc := .updateCommit (g.dealt + 1) }) hE.deal ?_ ?_
        · simp only [CInv]
          refine ⟨fresh_deal h.core, ?_⟩
          intro k v e he
          rw [hk] at he
          simp only [ReqKind.update.injEq] at he
          omega
        · intro r hr; simp only [infl, Option.some.injEq] at hr; subst hr; exact h.others_lt c.id
  · -- createCommit
    intro rev key val r st hpc hdc
    have hinfl : infl c = some rev := by simp [infl, hpc]
    have hf := hci.fresh hinfl
    have hA := h.commitE hc hinfl (hrp _ hinfl) (r := r) (st := st) (f := f) (key := key) (val := some val) (exp := .absent)
      (new := be8 rev) (v := val) (by simp [flagOf]) rfl (by
        rcases doCommit_pine_cases hdc with ⟨ha, hget, hst⟩ | hn
        · exact .inl ⟨ha, hst, fun hb => chainCond_pine h.core hb rev (some val) hget⟩
        · exact .inr hn)
    split
    · rw [afterCommit_conflict] at hA ⊢
      split
      · exact hA.createSawIndex key val _ hf (h.cl.others_ne hc hinfl) _
      · refine SInvE.set (c' := { c with pc := .createReread rev }) hA ?_ ?_
        · simp only [CInv]; exact hf
        · intro r' hr; simp only [infl, Option.some.injEq] at hr; subst hr; exact h.cl.others_ne hc hinfl
    · exact hA.finishCreate ..
  · -- createReread
    intro rev key val hpc
    have hinfl : infl c = some rev := by simp [infl, hpc]
    have hf := hci.fresh hinfl
    split
    · exact hE.createSawIndex key val _ hf (h.cl.others_ne hc hinfl) _
    · refine SInvE.set (c' := { c with pc := .createRetry rev }) hE ?_ ?_
      · simp only [CInv]; exact hf
      · intro r' hr; simp only [infl, Option.some.injEq] at hr; subst hr; exact h.cl.others_ne hc hinfl
  · -- createRetry
    intro rev key val r st hpc hdc
    have hinfl : infl c = some rev := by simp [infl, hpc]
    have hA := h.commitE hc hinfl (hrp _ hinfl) (r := r) (st := st) (f := f) (key := key) (val := some val) (exp := .absent)
      (new := be8 rev) (v := val) (by simp [flagOf]) rfl (by
        rcases doCommit_pine_cases hdc with ⟨ha, hget, hst⟩ | hn
        · exact .inl ⟨ha, hst, fun hb => chainCond_pine h.core hb rev (some val) hget⟩
        · exact .inr hn)
    exact hA.finishCreate ..
  · -- createOver
    intro rev old att key val r st hpc hdc
    have hinfl : infl c = some rev := by simp [infl, hpc]
    have hf := hci.fresh hinfl
    simp only [CInv, hpc] at hci
    obtain ⟨_, p, hp, hlt⟩ := hci
    have hA := h.commitE hc hinfl (hrp _ hinfl) (r := r) (st := st) (f := f) (key := key) (val := some val) (exp := .absent)
      (new := be8 rev) (v := val) (by simp [flagOf]) rfl (by
        rcases doCommit_cas_cases hdc with ⟨ha, hget, hst⟩ | hn
        · exact .inl ⟨ha, hst, fun hb => chainCond_over h.core hb rev (some val) hget hp hlt⟩
        · exact .inr hn)
    split
    · rw [afterCommit_conflict] at hA ⊢
      refine SInvE.set (c' := { c with pc := .createRecheck rev att }) hA ?_ ?_
      · simp only [CInv]; exact hf
      · intro r' hr; simp only [infl, Option.some.injEq] at hr; subst hr; exact h.cl.others_ne hc hinfl
    · exact hA.finishCreate ..
  · -- createRecheck
    intro rev att key val hpc
    have hinfl : infl c = some rev := by simp [infl, hpc]
    have hf := hci.fresh hinfl
    split
    · split
      · exact hE.finishCreate ..
      · exact hE.createSawIndex key val _ hf (h.cl.others_ne hc hinfl) _
    · refine SInvE.set (c' := { c with pc := .createRetry rev }) hE ?_ ?_
      · simp only [CInv]; exact hf
      · intro r' hr; simp only [infl, Option.some.injEq] at hr; subst hr; exact h.cl.others_ne hc hinfl
  · -- updateCommit
    intro rev key val exp r st hpc hk hdc
    have hinfl : infl c = some rev := by simp [infl, hpc]
    have hf := hci.fresh hinfl
    simp only [CInv, hpc] at hci
    have hle := hci.2 _ _ _ hk
    have hA := h.commitE hc hinfl (hrp _ hinfl) (r := r) (st := st) (f := f) (key := key) (val := some val) (exp := .rev exp)
      (new := be8 rev) (v := val) (by simp [flagOf]) rfl (by
        rcases doCommit_cas_cases hdc with ⟨ha, hget, hst⟩ | hn
        · refine .inl ⟨ha, hst, fun hb => ?_⟩
          exact chainCond_rev h0 h.core hb rev (some val) (fl := []) (by simpa using hget) (.inl rfl) hle
            hf.1 hf.2.1 hf.2.2
        · exact .inr hn)
    split
    · exact hA.nfinish _ _ (by simp)
    · refine SInvE.nset (c' := { c with pc := .readLatest rev none }) hA _ ?_ ?_
      · simp [CInv]
      · simp [infl]
    · exact hA.nfinish _ _ (by simp)
  · -- start / delete
    intro key exp hpc hk
    split
    · refine SInvE.set (c' := { c with pc := .deleteDeal none }) hE ?_ ?_
      · simp [CInv]
      · simp [infl]
    · rename_i v m hb
      refine SInvE.set (c' := { c with pc := .deleteDeal (some (v, m)) }) hE ?_ ?_
      · simp only [CInv]
        exact getInternal_le h.core.keys (bget_found hb)
      · simp [infl]
  · -- deleteDeal none
    intro key exp hpc hk
    exact SInvE.nfinish (g := { g with dealt := g.dealt + 1 }) hE.deal _ _ (by simp)
  · -- deleteDeal some
    intro oldVal modRev key exp hpc hk
    simp only [CInv, hpc] at hci
    split
    · exact SInvE.nfinish (g := { g with dealt := g.dealt + 1 }) hE.deal _ _ (by simp)
    · split
      · refine SInvE.nset (g := { g with dealt := g.dealt + 1 })
          (c' := { c with pc := .readLatest (g.dealt + 1) (some (key, oldVal, modRev)) }) hE.deal _ ?_ ?_
        · simp only [CInv]
          intro k v m hm
          simp only [Option.some.injEq, Prod.mk.injEq] at hm
          omega
        · simp [infl]
      · split
        · exact SInvE.nfinish (g := { g with dealt := g.dealt + 1 }) hE.deal _ _ (by simp)
        · refine SInvE.set (c' := { c with pc := .deleteCommit (g.dealt + 1) oldVal modRev }) hE.deal ?_ ?_
          · simp only [CInv]
            exact ⟨fresh_deal h.core, by omega⟩
          · intro r hr; simp only [infl, Option.some.injEq] at hr; subst hr; exact h.others_lt c.id
  · -- deleteCommit
    intro rev oldVal modRev key exp r st hpc hk hdc
    have hinfl : infl c = some rev := by simp [infl, hpc]
    have hf := hci.fresh hinfl
    simp only [CInv, hpc] at hci
    have hlt := hci.2
    have hA := h.commitE hc hinfl (hrp _ hinfl) (r := r) (st := st) (f := f) (key := key) (val := none) (exp := .rev modRev)
      (new := be8 rev ++ [0]) (v := tombstone) rfl rfl (by
        rcases doCommit_cas_cases hdc with ⟨ha, hget, hst⟩ | hn
        · refine .inl ⟨ha, hst, fun hb => ?_⟩
          exact chainCond_rev h0 h.core hb rev none (fl := []) (by simpa using hget) (.inl rfl) (Nat.le_of_lt hlt)
            hf.1 hf.2.1 hf.2.2
        · exact .inr hn)
    split
    · exact hA.nfinish _ _ (by simp)
    · refine SInvE.nset (c' := { c with pc := .readLatest rev (some (key, oldVal, modRev)) }) hA _ ?_ ?_
      · simp only [CInv]
        intro k v m hm
        simp only [Option.some.injEq, Prod.mk.injEq] at hm
        omega
      · simp [infl]
    · exact hA.nfinish _ _ (by simp)
  · -- readLatest
    intro rev fb hpc
    simp only [CInv, hpc] at hci
    split
    · refine hE.finish _ ?_
      intro hdr k v m hres
      simp only [WriteRes.condFailed.injEq, Option.some.injEq, Prod.mk.injEq] at hres
      omega
    · refine hE.finish _ ?_
      intro hdr k v m hres
      simp only [WriteRes.condFailed.injEq] at hres
      have := hci k v m hres.2
      omega
  · exact h
  · -- `Deal` refused: the request returns, nothing else changes
    intro _ _
    exact ⟨hE.core, hE.hist, hE.cl, hE.dn, hE.rp⟩

/-! ### the other actions, runs, initial states -/

theorem SInv.stepRetryRead {g0 g : G} (h : SInv g0 g) : SInv g0 (stepRetryRead g) := by
  apply stepRetryRead_cases
  · intros; exact h
  · intros; exact h
  · intro w rest _ _ _; exact ⟨h.core, h.hist, h.cl, h.dn, h.rp⟩
  · intro w rest val hn hq hget _ _
    have hle : w.rev ≤ g.dealt := getInternal_le h.core.keys hget
    refine ⟨h.core.mono (Nat.le_succ _), h.hist, h.cl.mono (Nat.le_succ _), h.dn, ?_⟩
    intro p hp
    simp only [Option.some.injEq] at hp
    subst hp
    exact ⟨fresh_deal h.core, by show w.rev < g.dealt + 1; omega⟩
  · intros; exact h

theorem SInv.stepRetryCommit {g0 g : G} (h0 : G0OK g0) (hv : KB.SInv g.view) (h : SInv g0 g) (f : Fault) :
    SInv g0 (stepRetryCommit g f) := by
  apply stepRetryCommit_cases
  · intro _; exact h
  · intro p r st hp hdc
    obtain ⟨hfr, hlt⟩ := h.rp p hp
    have hE : SInvE g0 { g with retryPc := none, retryQ := if r == CommitRes.ok || r.isCas then g.retryQ.drop 1 else g.retryQ }
        g.clients := ⟨h.core, h.hist, h.cl, h.dn, RpOK.none _ _ _⟩
    have hA := hE.afterCommit (rev := p.rev) (r := r) (st := st) (f := f) (key := p.w.key)
      (val := if isTomb p.val then none else some p.val) (exp := .rev p.w.rev)
      (new := be8 p.rev ++ if isTomb p.val then [0] else []) (v := p.val)
      hfr
      (fun x hx e => by
        rw [infl_eq] at e
        exact hv.rpcInfl x hx p.rev e (by simp [G.view, hp]))
      (fun q hq => by cases hq)
      (by by_cases ht : isTomb p.val = true <;> simp [ht, flagOf])
      (by
        by_cases ht : isTomb p.val = true
        · simp only [ht, if_true, Option.getD_none]
          simpa [isTomb] using ht
        · simp [ht])
      (by
        rcases doCommit_cas_cases hdc with ⟨ha, hg, hst⟩ | hn
        · refine .inl ⟨ha, hst, fun hb => ?_⟩
          exact chainCond_rev h0 h.core hb p.rev _ (fl := if isTomb p.val then [0] else []) hg
            (by by_cases ht : isTomb p.val = true <;> simp [ht]) (Nat.le_of_lt hlt)
            hfr.1 hfr.2.1 hfr.2.2
        · exact .inr hn)
    have := hA.notify { p.w with rev := p.rev, valid := r == .ok, uncertain := r == .uncertain }
    refine ⟨this.core, this.hist, ?_, this.dn, this.rp⟩
    have hcl := this.cl
    simpa using hcl

theorem SInv.stepSeq {g0 g : G} (h : SInv g0 g) : SInv g0 (stepSeq g) := by
  unfold KB.stepSeq
  split
  · exact h
  · exact ⟨h.core.mono (Nat.le_max_left _ _), h.hist, h.cl.mono (Nat.le_max_left _ _), h.dn,
      h.rp.mono (Nat.le_max_left _ _)⟩

theorem SInv.act {g0 g : G} (h0 : G0OK g0) (hv : KB.SInv g.view) (h : SInv g0 g) (a : Action) :
    SInv g0 (act g a) := by
  cases a with
  | begin id kind =>
    unfold KB.act; simp only []
    split
    · exact h
    · refine ⟨h.core, h.hist, ?_, h.dn, h.rp⟩
      have hmem : ∀ x ∈ g.clients ++ [{ id := id, kind := kind, pc := .start, beginDealt := g.dealt }],
          x ∈ g.clients ∨ infl x = none ∧ x.pc = .start := by
        intro x hx
        rcases List.mem_append.mp hx with hx | hx
        · exact .inl hx
        · simp only [List.mem_singleton] at hx; subst hx; exact .inr ⟨rfl, rfl⟩
      constructor
      · intro x hx
        rcases hmem x hx with hx | ⟨_, hx⟩
        · exact h.cl.1 x hx
        · simp [CInv, hx]
      · intro c1 h1 c2 h2 hne r hr1 hr2
        rcases hmem c1 h1 with h1 | ⟨h1, _⟩
        · rcases hmem c2 h2 with h2 | ⟨h2, _⟩
          · exact h.cl.2 c1 h1 c2 h2 hne r hr1 hr2
          · rw [h2] at hr2; simp at hr2
        · rw [h1] at hr1; simp at hr1
  | step id f =>
    unfold KB.act; simp only []
    split
    · exact h
    · rename_i c hfind
      exact h.stepClient h0 hv (List.mem_of_find?_eq_some hfind) f
  | seq => exact h.stepSeq
  | retry f => exact h.stepRetryRead.stepRetryCommit h0 (stepRetryRead_P KB.SInv.closed hv) f
  | retryRead => exact h.stepRetryRead
  | retryCommit f => exact h.stepRetryCommit h0 hv f

theorem SInv.run {g0 g : G} (h0 : G0OK g0) (hv : KB.SInv g.view) (h : SInv g0 g) (sched : List Action) :
    SInv g0 (run g sched) := by
  induction sched generalizing g with
  | nil => exact h
  | cons a s ih => exact ih (act_P KB.SInv.closed a hv) (h.act h0 hv a)

theorem G0OK.of_storeOK {g0 : G} (hs : C02.StoreOK g0) : G0OK g0 := by
  obtain ⟨recs, hst, _, hrecs, hb⟩ := hs
  have hmem : ∀ kv ∈ g0.store, ∃ r ∈ recs, kv = (encode r.key r.rev, r.val) := by
    intro kv hkv
    rw [hst] at hkv
    obtain ⟨r, hr, e⟩ := List.mem_map.mp hkv
    exact ⟨r, hr, e.symm⟩
  constructor
  · intro kv hkv
    obtain ⟨r, hr, rfl⟩ := hmem kv hkv
    exact ⟨r.key, r.rev, rfl, (hrecs r hr).2.1⟩
  · intro k v m t hget hp
    obtain ⟨r, hr, e⟩ := hmem _ (Store.mem_of_get hget)
    simp only [Prod.mk.injEq] at e
    have hrr := (hrecs r hr).2
    have h0 : r.rev = 0 := ((encode_inj (by decide) (by omega) e.1).2).symm
    obtain ⟨m', t', hp', hm'⟩ := hrr.2 h0
    rw [e.2, hp'] at hp
    simp only [Option.some.injEq, Prod.mk.injEq] at hp
    omega

theorem SInv.init {g0 : G} (hi : C02.Init g0) (h0 : G0OK g0) : SInv g0 g0 := by
  obtain ⟨⟨_, _, hcl, _, hp⟩, hh, hw, hd⟩ := hi
  refine ⟨⟨Nat.le_refl _, h0.keys0, ?_, ?_, ?_⟩, ?_, ?_, ?_, ?_⟩
  · simp [hw]
  · intro _ k; simp [hw, lastW, IdxOK]
  · simp [hw]
  · simp [hh, hw]
  · simp [hcl, Cl]
  · simp [hd, Dn]
  · rw [hp]; exact RpOK.none _ _ _

theorem vinv_init {g0 : G} (hi : C02.Init g0) : KB.SInv g0.view :=
  KB.SInv.init hi.1.1 hi.1.2.1 hi.1.2.2.1 hi.1.2.2.2.2

theorem SInv.reachable {g0 g : G} (hi : C02.Init g0) (hs : C02.StoreOK g0) (hr : Reachable g0 g) : SInv g0 g := by
  obtain ⟨sched, rfl⟩ := hr
  exact (SInv.init hi (G0OK.of_storeOK hs)).run (G0OK.of_storeOK hs) (vinv_init hi) sched

/-! ### consequences of the chain property -/

theorem ChainCond.lt {g0 : G} {p w : WLog} (h : ChainCond g0 (some p) w) : p.rev < w.rev := by
  unfold ChainCond at h
  split at h <;> simp_all <;> omega

theorem pairwise_le_last {l : List WLog} (hp : (l.map (·.rev)).Pairwise (· < ·)) {p a : WLog}
    (hl : l.getLast? = some p) (ha : a ∈ l) : a.rev ≤ p.rev := by
  obtain ⟨ys, rfl⟩ := List.getLast?_eq_some_iff.mp hl
  rw [List.map_append, List.pairwise_append] at hp
  rcases List.mem_append.mp ha with ha | ha
  · exact Nat.le_of_lt (hp.2.2 a.rev (List.mem_map_of_mem ha) p.rev (by simp))
  · simp only [List.mem_singleton] at ha; subst ha; exact Nat.le_refl _

def ChainAll (g0 : G) (l : List WLog) : Prop :=
  ∀ i w, l[i]? = some w → ChainCond g0 (lastW (l.take i) w.key) w

theorem chain_pairwise_take {g0 : G} {l : List WLog} (h : ChainAll g0 l) (k : Bytes) (n : Nat) :
    (((l.take n).filter (fun w => w.key == k)).map (·.rev)).Pairwise (· < ·) := by
  induction n with
  | zero => simp
  | succ n ih =>
    by_cases hn : n < l.length
    · rw [List.take_succ_eq_append_getElem hn, List.filter_append, List.map_append]
      by_cases hk : l[n].key = k
      · have hc := h n l[n] (List.getElem?_eq_getElem hn)
        rw [hk] at hc
        simp only [List.filter_cons, hk, beq_self_eq_true, if_true, List.filter_nil, List.map_cons, List.map_nil]
        rw [List.pairwise_append]
        refine ⟨ih, by simp, ?_⟩
        intro a ha b hb
        simp only [List.mem_singleton] at hb; subst hb
        obtain ⟨x, hx, rfl⟩ := List.mem_map.mp ha
        cases hl : lastW (l.take n) k with
        | none =>
          unfold lastW at hl
          rw [List.getLast?_eq_none_iff] at hl
          rw [hl] at hx; simp at hx
        | some p =>
          rw [hl] at hc
          have := pairwise_le_last ih hl hx
          have := hc.lt
          omega
      · simp [hk, ih]
    · rw [List.take_of_length_le (by omega)]
      rw [List.take_of_length_le (by omega)] at ih
      exact ih

theorem chain_pairwise {g0 : G} {l : List WLog} (h : ChainAll g0 l) (k : Bytes) :
    ((l.filter (fun w => w.key == k)).map (·.rev)).Pairwise (· < ·) := by
  have := chain_pairwise_take h k l.length
  rwa [List.take_length] at this

theorem chain_no_double {g0 : G} {l : List WLog} (h : ChainAll g0 l) (i j : Nat) (wi wj : WLog)
    (hi : l[i]? = some wi) (hj : l[j]? = some wj) (hij : i < j) (hk : wi.key = wj.key) (e : Nat)
    (hei : wi.exp = .rev e) (hej : wj.exp = .rev e) : False := by
  have hci := h i wi hi
  have hcj := h j wj hj
  have hmem : wi ∈ (l.take j).filter (fun w => w.key == wj.key) := by
    refine List.mem_filter.mpr ⟨?_, by simp [hk]⟩
    have : (l.take j)[i]? = some wi := by rw [List.getElem?_take_of_lt hij]; exact hi
    exact List.mem_of_getElem? this
  have hlt : e < wi.rev := by
    cases hp : lastW (l.take i) wi.key with
    | none => rw [hp] at hci; simp only [ChainCond, hei] at hci; obtain ⟨t, _, h2⟩ := hci; exact h2
    | some q => rw [hp] at hci; simp only [ChainCond, hei] at hci; omega
  cases hl : lastW (l.take j) wj.key with
  | none =>
    unfold lastW at hl
    rw [List.getLast?_eq_none_iff] at hl
    rw [hl] at hmem; simp at hmem
  | some p =>
    rw [hl] at hcj
    have hpe : p.rev = e := by
      unfold ChainCond at hcj
      rw [hej] at hcj
      simp only at hcj
      exact hcj.1
    have := pairwise_le_last (chain_pairwise_take h wj.key j) hl hmem
    omega

/-! ### why the `dealt < 2 ^ 64` hypothesis: past 2^64 the 8-byte revision wraps -/

theorem iterate_nil (q : Quirks) (a b : Bytes) (n : Nat) : iterate q [] a b n = [] := by
  unfold iterate applyLimit iterAsc iterDesc
  simp only [List.filter_nil, List.reverse_nil, List.takeWhile_nil]
  split
  · split <;> simp
  · cases q.limitMode <;> (simp only []; split <;> simp)

theorem bget_nil (c : Cfg) (k : Bytes) : bget c [] k 0 = .notFound 0 := by
  simp [bget, getInternal, iterate_nil]

theorem run_append (g : G) (a b : List Action) : run g (a ++ b) = run (run g a) b := by
  simp [run, List.foldl_append]

/-- a delete of a missing key, then the sequencer: consumes one revision and changes nothing else that matters -/
def bump : List Action := [.begin 0 (.delete [] 0), .step 0 .none, .step 0 .none, .seq]

/-- what `bump` needs and keeps: nobody in flight, empty store, the read revision has caught up, a ring of ≥ 2 slots -/
structure Calm (g : G) : Prop where
  clients : g.clients = []
  store : g.store = []
  slots : g.slots = []
  caught : g.committed = g.dealt
  ring : 1 < g.cfg.ringLen

theorem Calm.open {g : G} (h : Calm g) : g.windowFull = false := by
  have := h.ring
  simp only [G.windowFull, windowFullAt, h.caught, Bool.and_eq_false_iff, decide_eq_false_iff_not]
  right; omega

theorem run_bump (g : G) (h : Calm g) :
    Calm (run g bump) ∧ (run g bump).wlog = g.wlog ∧ (run g bump).dealt = g.dealt + 1 := by
  obtain ⟨hc, hs, hsl, hcd, hr⟩ := h
  obtain ⟨cfg, store, dealt, committed, slots, retryQ, retryPc, clients, emitted, hist, wlog, done, begins, spans,
    refused⟩ := g
  simp only at hc hs hsl hcd hr
  subst hc hs hsl hcd
  have hwf : windowFullAt cfg committed committed = false := by
    simp only [windowFullAt, Bool.and_eq_false_iff, decide_eq_false_iff_not]
    right; omega
  refine ⟨⟨?_, ?_, ?_, ?_, ?_⟩, ?_, ?_⟩ <;>
    simp [run, bump, act, G.client, stepClient, stepClientCore, dealSite, G.windowFull, hwf, bget_nil, G.setClient,
      G.finish, G.notify, mkW, stepSeq] <;> first | exact hr | omega

def bumps : Nat → List Action
  | 0 => []
  | n + 1 => bump ++ bumps n

theorem run_bumps (n : Nat) (g : G) (h : Calm g) :
    Calm (run g (bumps n)) ∧ (run g (bumps n)).wlog = g.wlog ∧ (run g (bumps n)).dealt = g.dealt + n := by
  induction n generalizing g with
  | zero => exact ⟨h, rfl, rfl⟩
  | succ n ih =>
    obtain ⟨h1, h3, h4⟩ := run_bump g h
    obtain ⟨i1, i3, i4⟩ := ih (run g bump) h1
    simp only [bumps, run_append]
    exact ⟨i1, i3.trans h3, by omega⟩

/-- a create on the empty store -/
def mkCreate : List Action := [.begin 0 (.create [47] [1]), .step 0 .none, .step 0 .none]

theorem run_mkCreate (g : G) (hc : g.clients = []) (hs : g.store = []) (hw : g.wlog = [])
    (hwf : g.windowFull = false) (hm : (g.dealt + 1) % 2 ^ 64 ≠ 0) :
    (run g mkCreate).wlog = [⟨[47], g.dealt + 1, some [1], .absent⟩] ∧
    (run g mkCreate).store.get (idxKey [47]) = some (be8 (g.dealt + 1)) := by
  obtain ⟨cfg, store, dealt, committed, slots, retryQ, retryPc, clients, emitted, hist, wlog, done, begins, spans,
    refused⟩ := g
  simp only at hc hs hw hm
  subst hc hs hw
  have hwf' : windowFullAt cfg dealt committed = false := hwf
  simp [run, mkCreate, act, G.client, stepClient, stepClientCore, dealSite, G.windowFull, hwf', G.setClient, createOps, doCommit, commit, applyOps, applyOp,
    Store.get, applied, G.logWrite, finishCreate, G.finish, G.notify, mkW]
  rw [Store.get_put, Store.get_put]
  have : idxKey [47] ≠ encode [47] (dealt + 1) := by
    rw [← encode_mod]
    exact idxKey_ne_encode (Nat.pos_of_ne_zero hm) (Nat.mod_lt _ (by decide))
  simp [this]

/-- Without the bound `index_agrees` fails: from the empty store, after `2 ^ 64` revisions have been
consumed, a create is stamped `2 ^ 64 + 1` and its index record reads back as revision `1`. -/
theorem index_agrees_needs_bound :
    ∃ g0 g : G, C02.Init g0 ∧ C02.StoreOK g0 ∧ Reachable g0 g ∧
      ∃ w, (g.wlog.filter (fun x => x.key == w.key)).getLast? = some w ∧
        (g.store.get (idxKey w.key)).bind parseRevision ≠ some (w.rev, w.val.isNone) := by
  refine ⟨{}, run (run {} (bumps (2 ^ 64))) mkCreate, ?_, ?_, ⟨bumps (2 ^ 64) ++ mkCreate, run_append _ _ _⟩, ?_⟩
  · exact ⟨⟨rfl, rfl, rfl, rfl, rfl⟩, rfl, rfl, rfl⟩
  · exact ⟨[], rfl, List.Pairwise.nil, by simp, by decide⟩
  · obtain ⟨h1, h3, h4⟩ := run_bumps (2 ^ 64) {} ⟨rfl, rfl, rfl, rfl, by decide⟩
    have h4' : (run {} (bumps (2 ^ 64))).dealt = 2 ^ 64 := by rw [h4]
    obtain ⟨hw, hg⟩ := run_mkCreate _ h1.clients h1.store h3 h1.open (by rw [h4']; decide)
    refine ⟨⟨[47], 2 ^ 64 + 1, some [1], .absent⟩, ?_, ?_⟩
    · rw [hw, h4']; rfl
    · simp only []
      rw [hg, h4', ← be8_mod]
      decide

end KB.SysStore
