/- Helper lemmas relating the sequential backend model to write histories, used by C06. -/
import KB.Spec
import KB.Backend
import KB.Lemmas.Coder
import KB.Lemmas.Engine
import KB.Lemmas.Scan
import KB.Lemmas.Floor
namespace KB
open Generated

/-! ### histories (pure) -/

abbrev RevSorted (h : List HWrite) : Prop := h.Pairwise (fun a b => a.rev < b.rev)

theorem filter_rev_split (h : List HWrite) (hs : RevSorted h) (R R' : Nat) (hR : R ≤ R') :
    h.filter (fun w => decide (w.rev ≤ R')) =
      h.filter (fun w => decide (w.rev ≤ R)) ++ h.filter (fun w => decide (R + 1 ≤ w.rev) && decide (w.rev ≤ R')) := by
  induction h with
  | nil => rfl
  | cons x xs ih =>
    have hs' := List.pairwise_cons.1 hs
    by_cases hx : x.rev ≤ R
    · have h1 : x.rev ≤ R' := by omega
      have h2 : ¬ (R + 1 ≤ x.rev) := by omega
      simp only [List.filter_cons, hx, h1, h2, decide_true, decide_false, Bool.false_and, if_true,
        Bool.false_eq_true, if_false, List.cons_append, ih hs'.2]
    · have hnil : (x :: xs).filter (fun w => decide (w.rev ≤ R)) = [] := by
        apply List.filter_eq_nil_iff.2
        intro y hy
        rcases List.mem_cons.1 hy with rfl | hy
        · simpa using hx
        · have := hs'.1 y hy; simp; omega
      rw [hnil, List.nil_append]
      apply List.filter_congr
      intro y hy
      have : R + 1 ≤ y.rev := by
        rcases List.mem_cons.1 hy with rfl | hy
        · omega
        · have := hs'.1 y hy; omega
      simp [this]

theorem snapshot_events (h : List HWrite) (hs : RevSorted h) (R R' : Nat) (hR : R ≤ R') :
    (eventsBetween h (R + 1) R').foldl Snap.apply (snapshotAt h R) = snapshotAt h R' := by
  unfold snapshotAt eventsBetween
  rw [filter_rev_split h hs R R' hR, List.foldl_append]

theorem snap_filter_apply_of_not (p : Bytes → Bool) (S : Snap) (w : HWrite) (hw : p w.key = false) :
    (S.apply w).filter (fun e => p e.1) = S.filter (fun e => p e.1) := by
  have hdel : (S.del w.key).filter (fun e => p e.1) = S.filter (fun e => p e.1) := by
    unfold Snap.del
    rw [List.filter_filter]
    apply List.filter_congr
    intro e _
    cases hp : p e.1 with
    | false => rfl
    | true =>
      have : e.1 ≠ w.key := by intro he; rw [he, hw] at hp; cases hp
      simp [this]
  unfold Snap.apply
  cases w.val with
  | none => exact hdel
  | some v => simp [Snap.set, List.filter_append, hdel, hw]

theorem snap_filter_apply_of_pos (p : Bytes → Bool) (S : Snap) (w : HWrite) (hw : p w.key = true) :
    (S.apply w).filter (fun e => p e.1) = Snap.apply (S.filter (fun e => p e.1)) w := by
  have hdel : (S.del w.key).filter (fun e => p e.1) = Snap.del (S.filter (fun e => p e.1)) w.key := by
    unfold Snap.del
    rw [List.filter_filter, List.filter_filter]
    apply List.filter_congr
    intro e _
    exact Bool.and_comm _ _
  unfold Snap.apply
  cases w.val with
  | none => exact hdel
  | some v => simp [Snap.set, List.filter_append, hdel, hw]

theorem foldl_apply_filter (p : Bytes → Bool) (evs : List HWrite) (S : Snap) :
    (evs.filter (fun w => p w.key)).foldl Snap.apply (S.filter (fun e => p e.1)) =
      (evs.foldl Snap.apply S).filter (fun e => p e.1) := by
  induction evs generalizing S with
  | nil => rfl
  | cons w ws ih =>
    cases hw : p w.key with
    | false =>
      simp only [List.filter_cons, hw, Bool.false_eq_true, if_false, List.foldl_cons]
      rw [← ih, snap_filter_apply_of_not p S w hw]
    | true =>
      simp only [List.filter_cons, hw, if_true, List.foldl_cons]
      rw [← ih, snap_filter_apply_of_pos p S w hw]

/-! ### the shape of one request (no faults) -/

/-- acknowledged with both records written, or refused with the store untouched -/
def CommitShape (st : Store) (ik vk v : Bytes) (r : CommitRes) (st' : Store) : Prop :=
  (r = .ok ∧ ∃ iv, st' = (st.put ik iv).put vk v) ∨ (r ≠ .ok ∧ st' = st)

theorem doCommit_pine_put (c : Cfg) (st : Store) (ik new vk v : Bytes) :
    CommitShape st ik vk v (doCommit c st [BOp.pine ik new, BOp.put vk v] .none).1
      (doCommit c st [BOp.pine ik new, BOp.put vk v] .none).2 := by
  unfold doCommit commit CommitShape
  simp only [applyOps, applyOp]
  cases st.get ik with
  | none => left; exact ⟨rfl, _, rfl⟩
  | some old => right; simp

theorem doCommit_cas_put (c : Cfg) (st : Store) (ik new old vk v : Bytes) :
    CommitShape st ik vk v (doCommit c st [BOp.cas ik new old, BOp.put vk v] .none).1
      (doCommit c st [BOp.cas ik new old, BOp.put vk v] .none).2 := by
  unfold doCommit commit CommitShape
  simp only [applyOps, applyOp]
  cases st.get ik with
  | none => right; cases c.q.casMissingNotFound <;> simp
  | some cur =>
    by_cases h : cur = old
    · left; exact ⟨by simp [h], new, by simp [h]⟩
    · right; simp [h]

theorem creatorCreate_shape (c : Cfg) (st : Store) (key val : Bytes) (rev : Nat) :
    CommitShape st (idxKey key) (encode key rev) val (creatorCreate c st key val rev []).1
      (creatorCreate c st key val rev []).2.1 := by
  have h0 := doCommit_pine_put c st (idxKey key) (be8 rev) (encode key rev) val
  unfold creatorCreate
  simp only [nextFault]
  generalize doCommit c st [BOp.pine (idxKey key) (be8 rev), BOp.put (encode key rev) val] .none = r1 at *
  obtain ⟨r, st'⟩ := r1
  simp only at h0
  cases r with
  | conflict idx cv =>
    have hst : st' = st := by
      rcases h0 with ⟨h, _⟩ | ⟨_, h⟩
      · cases h
      · exact h
    subst hst
    simp only []
    split
    · exact doCommit_pine_put c _ _ _ _ _
    · split
      · right; simp
      · split
        · exact doCommit_cas_put c _ _ _ _ _ _
        · right; simp [tombAbove_ne_ok]
  | ok => exact h0
  | notFound => exact h0
  | uncertain => exact h0
  | err => exact h0

/-! #### sequencer -/

theorem sequence_invalid (s : BState) (w : WEvent) (h : w.valid = false) :
    (sequence s w).store = s.store ∧ (sequence s w).ring = s.ring ∧
    (sequence s w).committed = w.rev ∧ (sequence s w).dealt = max s.dealt w.rev := by
  unfold sequence; simp [h]

theorem sequence_valid (s : BState) (w : WEvent) (h : w.valid = true) :
    (sequence s w).store = s.store ∧ (sequence s w).ring = s.ring.add (mkEvent w) ∧
    (sequence s w).committed = w.rev ∧ (sequence s w).dealt = max s.dealt w.rev := by
  unfold sequence; simp [h]

/-- What one write request does to the state (no faults): it consumes revision `dealt + 1`; either
it is acknowledged — both records are written and one event is published — or it is refused and
neither the store nor the event window change. -/
def StepShape (s : BState) (k stored : Bytes) (del : Bool) (res : WriteRes × BState) : Prop :=
  res.2.dealt = s.dealt + 1 ∧ res.2.committed = s.dealt + 1 ∧
  ((res.1 = .ok (s.dealt + 1) ∧
      (∃ iv, res.2.store = (s.store.put (idxKey k) iv).put (encode k (s.dealt + 1)) stored) ∧
      ∃ e : Event, res.2.ring = s.ring.add e ∧ e.rev = s.dealt + 1 ∧ e.key = k ∧
        (e.verb = .delete ↔ del = true) ∧ (del = false → e.val = stored)) ∨
   ((∀ r, res.1 ≠ .ok r) ∧ res.2.store = s.store ∧ res.2.ring = s.ring))

theorem doCreate_shape (c : Cfg) (s : BState) (k v : Bytes) : StepShape s k v false (doCreate c s k v []) := by
  have h0 := creatorCreate_shape c s.store k v (s.dealt + 1)
  unfold doCreate
  simp only []
  generalize creatorCreate c s.store k v (s.dealt + 1) [] = cc at *
  obtain ⟨r, st', fs'⟩ := cc
  simp only at h0
  unfold StepShape
  cases r with
  | ok =>
    rcases h0 with ⟨_, iv, h⟩ | ⟨h, _⟩
    · subst h
      simp [sequence_valid]
      exact ⟨⟨iv, rfl⟩, _, rfl, by simp [mkEvent]⟩
    · exact absurd rfl h
  | conflict i cv =>
    rcases h0 with ⟨h, _⟩ | ⟨_, h⟩
    · cases h
    · subst h; simp [sequence_invalid]
  | notFound =>
    rcases h0 with ⟨h, _⟩ | ⟨_, h⟩
    · cases h
    · subst h; simp [sequence_invalid]
  | uncertain =>
    rcases h0 with ⟨h, _⟩ | ⟨_, h⟩
    · cases h
    · subst h; simp [sequence_invalid]
  | err =>
    rcases h0 with ⟨h, _⟩ | ⟨_, h⟩
    · cases h
    · subst h; simp [sequence_invalid]

theorem seq_shape_commit (s : BState) (k stored : Bytes) (del : Bool) (r : CommitRes) (st' : Store) (w : WEvent)
    (h0 : CommitShape s.store (idxKey k) (encode k (s.dealt + 1)) stored r st')
    (hw : w.rev = s.dealt + 1) (hv : w.valid = (r == .ok)) (hk : w.key = k)
    (hverb : w.verb = .delete ↔ del = true) (hval : del = false → w.val = stored)
    (res1 : WriteRes) (hok : r = .ok → res1 = .ok (s.dealt + 1)) (hno : r ≠ .ok → ∀ x, res1 ≠ .ok x) :
    StepShape s k stored del (res1, sequence { s with dealt := s.dealt + 1, store := st' } w) := by
  unfold StepShape
  rcases h0 with ⟨rfl, iv, rfl⟩ | ⟨hne, rfl⟩
  · have hv' : w.valid = true := by rw [hv]; rfl
    obtain ⟨h1, h2, h3, h4⟩ := sequence_valid { s with dealt := s.dealt + 1, store := (s.store.put (idxKey k) iv).put (encode k (s.dealt + 1)) stored } w hv'
    refine ⟨by simp [h4, hw], by simp [h3, hw], .inl ?_⟩
    rw [h1, h2]
    exact ⟨hok rfl, ⟨iv, rfl⟩, mkEvent w, rfl, hw, hk, hverb, hval⟩
  · have hv' : w.valid = false := by rw [hv]; cases r <;> first | rfl | exact absurd rfl hne
    obtain ⟨h1, h2, h3, h4⟩ := sequence_invalid { s with dealt := s.dealt + 1, store := s.store } w hv'
    refine ⟨by simp [h4, hw], by simp [h3, hw], .inr ?_⟩
    rw [h1, h2]
    exact ⟨hno hne, rfl, rfl⟩

theorem seq_shape_invalid (s : BState) (k stored : Bytes) (del : Bool) (w : WEvent)
    (hw : w.rev = s.dealt + 1) (hv : w.valid = false)
    (res1 : WriteRes) (hno : ∀ x, res1 ≠ .ok x) :
    StepShape s k stored del (res1, sequence { s with dealt := s.dealt + 1 } w) := by
  unfold StepShape
  obtain ⟨h1, h2, h3, h4⟩ := sequence_invalid { s with dealt := s.dealt + 1 } w hv
  refine ⟨by simp [h4, hw], by simp [h3, hw], .inr ?_⟩
  rw [h1, h2]
  exact ⟨hno, rfl, rfl⟩

theorem doUpdate_shape (c : Cfg) (s : BState) (k v : Bytes) (e : Nat) :
    StepShape s k v false (doUpdate c s k v e []) := by
  unfold doUpdate
  simp only [nextFault]
  split
  · have h0 := creatorCreate_shape c s.store k v (s.dealt + 1)
    generalize creatorCreate c s.store k v (s.dealt + 1) [] = cc at *
    obtain ⟨r, st', fs'⟩ := cc
    simp only at h0 ⊢
    cases r
    all_goals simp only []
    all_goals (try split)
    all_goals
      refine seq_shape_commit s k v false _ st' _ h0 ?_ ?_ ?_ ?_ ?_ _ ?_ ?_
      · rfl
      · rfl
      · rfl
      · simp
      · intro; rfl
      · intro h; first | rfl | cases h
      · intro h x; first | exact absurd rfl h | simp
  · split
    · exact seq_shape_invalid s k v false _ rfl rfl _ (by intro x; simp)
    · have h0 := doCommit_cas_put c s.store (idxKey k) (be8 (s.dealt + 1)) (be8 e) (encode k (s.dealt + 1)) v
      generalize doCommit c s.store [BOp.cas (idxKey k) (be8 (s.dealt + 1)) (be8 e), BOp.put (encode k (s.dealt + 1)) v] .none = cc at *
      obtain ⟨r, st'⟩ := cc
      simp only at h0 ⊢
      cases r
      all_goals simp only []
      all_goals (try split)
      all_goals
        refine seq_shape_commit s k v false _ st' _ h0 ?_ ?_ ?_ ?_ ?_ _ ?_ ?_
        · rfl
        · rfl
        · rfl
        · simp
        · intro; rfl
        · intro h; first | rfl | cases h
        · intro h x; first | exact absurd rfl h | simp

theorem doDelete_shape (c : Cfg) (s : BState) (k : Bytes) (e : Nat) :
    StepShape s k tombstone true (doDelete c s k e []) := by
  unfold doDelete
  simp only [nextFault]
  split
  · exact seq_shape_invalid s k tombstone true _ rfl rfl _ (by intro x; simp)
  · rename_i oldVal modRev _
    split
    · exact seq_shape_invalid s k tombstone true _ rfl rfl _ (by intro x; simp)
    · split
      · split
        · exact seq_shape_invalid s k tombstone true _ rfl rfl _ (by intro x; simp)
        · exact seq_shape_invalid s k tombstone true _ rfl rfl _ (by intro x; simp)
      · split
        · exact seq_shape_invalid s k tombstone true _ rfl rfl _ (by intro x; simp)
        · have h0 := doCommit_cas_put c s.store (idxKey k) (be8 (s.dealt + 1) ++ [0]) (be8 modRev)
            (encode k (s.dealt + 1)) tombstone
          generalize doCommit c s.store [BOp.cas (idxKey k) (be8 (s.dealt + 1) ++ [0]) (be8 modRev),
            BOp.put (encode k (s.dealt + 1)) tombstone] .none = cc at *
          obtain ⟨r, st'⟩ := cc
          simp only at h0 ⊢
          cases r
          all_goals simp only []
          all_goals (try split)
          all_goals
            refine seq_shape_commit s k tombstone true _ st' _ h0 ?_ ?_ ?_ ?_ ?_ _ ?_ ?_
            · rfl
            · rfl
            · rfl
            · simp
            · intro h; cases h
            · intro h; first | rfl | cases h
            · intro h x; first | exact absurd rfl h | simp

/-! ### the watch cache -/

theorem filterMap_congr' {α β : Type _} {f g : α → Option β} {l : List α} (h : ∀ x ∈ l, f x = g x) :
    l.filterMap f = l.filterMap g := by
  induction l with
  | nil => rfl
  | cons x xs ih =>
    simp only [List.filterMap_cons, h x (List.mem_cons_self ..),
      ih (fun y hy => h y (List.mem_cons_of_mem _ hy))]

theorem Ring.add_props (r : Ring) (ev : Event) (hs : r.s = 0) (he : r.e < r.cap) (hl : r.arr.length = r.cap) :
    (r.add ev).window = r.window ++ [ev] ∧ (r.add ev).s = 0 ∧ (r.add ev).e = r.e + 1 ∧
    (r.add ev).cap = r.cap ∧ (r.add ev).arr.length = r.cap := by
  have hadd : r.add ev = { r with arr := r.arr.set (r.e % r.cap) (some ev), s := 0, e := r.e + 1 } := by
    have : ¬ r.e = r.cap := by omega
    simp only [Ring.add, hs]
    simp [this]
  rw [hadd]
  refine ⟨?_, rfl, rfl, rfl, by simp [hl]⟩
  have h2 : r.e % r.cap = r.e := Nat.mod_eq_of_lt he
  simp only [Ring.window, hs, Nat.sub_zero, Ring.at, Nat.zero_add, h2]
  rw [List.range_succ, List.filterMap_append]
  congr 1
  · apply filterMap_congr'
    intro i hi
    have hi' : i < r.e := List.mem_range.1 hi
    have h1 : i % r.cap = i := Nat.mod_eq_of_lt (by omega)
    rw [h1]
    simp only [List.getD_eq_getElem?_getD]
    rw [List.getElem?_set_ne (by omega)]
  · simp [h2, List.getD_eq_getElem?_getD, hl, he]

theorem Ring.foldl_add_window (evs : List Event) (r : Ring) (hs : r.s = 0) (he : r.e + evs.length ≤ r.cap)
    (hl : r.arr.length = r.cap) : (evs.foldl Ring.add r).window = r.window ++ evs := by
  induction evs generalizing r with
  | nil => simp
  | cons ev evs ih =>
    simp only [List.length_cons] at he
    obtain ⟨h1, h2, h3, h4, h5⟩ := Ring.add_props r ev hs (by omega) hl
    simp only [List.foldl_cons]
    rw [ih (r.add ev) h2 (by rw [h3, h4]; omega) (by rw [h5, h4]), h1]
    simp

theorem Ring.new_window (cap : Nat) (evs : List Event) (h : evs.length ≤ cap) :
    (evs.foldl Ring.add (Ring.new cap)).window = evs := by
  rw [Ring.foldl_add_window evs (Ring.new cap) rfl (by simpa [Ring.new] using h) (by simp [Ring.new])]
  simp [Ring.window, Ring.new]


/-! ### runs: request sequences at the level of (state, history) -/

/-- an event as published and a history write describe the same change -/
def EvMatch (e : Event) (w : HWrite) : Prop :=
  e.rev = w.rev ∧ e.key = w.key ∧ (w.val = none ↔ e.verb = .delete) ∧ ∀ v, w.val = some v → e.val = v

/-- what a value is stored as -/
def wval (v : Option Bytes) : Bytes := v.getD tombstone

/-- One request for key `k` writing `val` (`none` = delete), seen on the pair (state, history):
revision `dealt + 1` is consumed; either the write is acknowledged — recorded, stored, published —
or nothing but the counters changes. -/
def HStep (sh sh' : BState × List HWrite) (k : Bytes) (val : Option Bytes) : Prop :=
  sh'.1.dealt = sh.1.dealt + 1 ∧ sh'.1.committed = sh.1.dealt + 1 ∧
  ((sh'.2 = sh.2 ++ [⟨k, sh.1.dealt + 1, val⟩] ∧
      (∃ iv, sh'.1.store = (sh.1.store.put (idxKey k) iv).put (encode k (sh.1.dealt + 1)) (wval val)) ∧
      ∃ e : Event, sh'.1.ring = sh.1.ring.add e ∧ EvMatch e ⟨k, sh.1.dealt + 1, val⟩) ∨
   (sh'.2 = sh.2 ∧ sh'.1.store = sh.1.store ∧ sh'.1.ring = sh.1.ring))

/-- the empty backend whose revision counter starts at `init` -/
def fresh0 (init cache : Nat) : BState := { ring := Ring.new cache, dealt := init, committed := init }

/-- states reachable from the empty backend by `n` well-formed requests -/
inductive Run (init cache : Nat) : Nat → BState × List HWrite → Prop
  | zero : Run init cache 0 (fresh0 init cache, [])
  | step {n : Nat} {sh sh' : BState × List HWrite} {k : Bytes} {val : Option Bytes} :
      Run init cache n sh → HStep sh sh' k val → Alphabet k → val ≠ some tombstone → Run init cache (n + 1) sh'

/-- `StepShape` of an acknowledged-or-refused request gives an `HStep` on the recorded history -/
theorem HStep.of_shape {s : BState} {h : List HWrite} {k stored : Bytes} {del : Bool} {res : WriteRes × BState}
    (hs : StepShape s k stored del res) (val : Option Bytes) (hst : wval val = stored)
    (hdel : val = none ↔ del = true) (hval : ∀ v, val = some v → stored = v) (h' : List HWrite)
    (hok : ∀ r, res.1 = .ok r → h' = h ++ [⟨k, r, val⟩]) (hno : (∀ r, res.1 ≠ .ok r) → h' = h) :
    HStep (s, h) (res.2, h') k val := by
  obtain ⟨h1, h2, h3⟩ := hs
  refine ⟨h1, h2, ?_⟩
  rcases h3 with ⟨hr, ⟨iv, hst'⟩, e, he1, he2, he3, he4, he5⟩ | ⟨hr, hst', hring⟩
  · left
    refine ⟨hok _ hr, ⟨iv, by rw [hst]; exact hst'⟩, e, he1, he2, he3, ?_, ?_⟩
    · simp only; rw [hdel, he4]
    · intro v hv
      simp only at hv
      have : del = false := by
        cases del with
        | false => rfl
        | true => rw [hdel.2 rfl] at hv; cases hv
      rw [he5 this]; exact hval v hv
  · right; exact ⟨hno hr, hst', hring⟩

/-! #### counters and history -/

theorem Run.basic {init cache n : Nat} {sh : BState × List HWrite} (hr : Run init cache n sh) :
    sh.1.dealt = init + n ∧ sh.1.committed = init + n ∧ RevSorted sh.2 ∧
    (∀ w ∈ sh.2, init < w.rev ∧ w.rev ≤ init + n ∧ Alphabet w.key ∧ w.val ≠ some tombstone) := by
  induction hr with
  | zero => simp [fresh0, RevSorted]
  | step hr hstep hk hv ih =>
    rename_i n sh sh' k val
    obtain ⟨ih1, ih2, ih3, ih4⟩ := ih
    obtain ⟨h1, h2, h3⟩ := hstep
    refine ⟨by omega, by omega, ?_⟩
    rcases h3 with ⟨hh, _, _⟩ | ⟨hh, _, _⟩
    · rw [hh]
      constructor
      · rw [RevSorted, List.pairwise_append]
        refine ⟨ih3, by simp, ?_⟩
        intro a ha b hb
        simp only [List.mem_singleton] at hb
        subst hb
        have := ih4 a ha
        simp only; omega
      · intro w hw
        rcases List.mem_append.1 hw with hw | hw
        · have := ih4 w hw
          exact ⟨this.1, by omega, this.2.2⟩
        · simp only [List.mem_singleton] at hw
          subst hw
          exact ⟨by simp only; omega, by simp only; omega, hk, hv⟩
    · rw [hh]
      refine ⟨ih3, ?_⟩
      intro w hw
      have := ih4 w hw
      exact ⟨this.1, by omega, this.2.2⟩

/-! #### published events -/

inductive EvsMatch : List Event → List HWrite → Prop
  | nil : EvsMatch [] []
  | snoc {evs : List Event} {h : List HWrite} {e : Event} {w : HWrite} :
      EvsMatch evs h → EvMatch e w → EvsMatch (evs ++ [e]) (h ++ [w])

theorem EvsMatch.map_eq {evs : List Event} {h : List HWrite} (hm : EvsMatch evs h) :
    evs.map (fun e => (e.rev, e.key)) = h.map (fun w => (w.rev, w.key)) := by
  induction hm with
  | nil => rfl
  | snoc _ he ih => simp [ih, he.1, he.2.1]

theorem EvsMatch.length_eq {evs : List Event} {h : List HWrite} (hm : EvsMatch evs h) :
    evs.length = h.length := by
  induction hm with
  | nil => rfl
  | snoc _ _ ih => simp [ih]

theorem EvsMatch.mem {evs : List Event} {h : List HWrite} (hm : EvsMatch evs h) :
    ∀ e ∈ evs, ∃ w ∈ h, EvMatch e w := by
  induction hm with
  | nil => simp
  | snoc _ he ih =>
    intro e' he'
    rcases List.mem_append.1 he' with he' | he'
    · obtain ⟨w, hw, hm⟩ := ih e' he'
      exact ⟨w, List.mem_append_left _ hw, hm⟩
    · simp only [List.mem_singleton] at he'
      subst he'
      exact ⟨_, List.mem_append_right _ (List.mem_singleton.2 rfl), he⟩

theorem Run.ring {init cache n : Nat} {sh : BState × List HWrite} (hr : Run init cache n sh) :
    ∃ evs, sh.1.ring = evs.foldl Ring.add (Ring.new cache) ∧ EvsMatch evs sh.2 ∧ sh.2.length ≤ n := by
  induction hr with
  | zero => exact ⟨[], rfl, .nil, Nat.le_refl _⟩
  | step hr hstep hk hv ih =>
    obtain ⟨evs, ih1, ih2, ih3⟩ := ih
    obtain ⟨_, _, h3⟩ := hstep
    rcases h3 with ⟨hh, _, e, he, hm⟩ | ⟨hh, _, hring⟩
    · refine ⟨evs ++ [e], ?_, ?_, ?_⟩
      · rw [he, ih1, List.foldl_append]; rfl
      · rw [hh]; exact .snoc ih2 hm
      · rw [hh]; simp; omega
    · exact ⟨evs, by rw [hring, ih1], by rw [hh]; exact ih2, by rw [hh]; omega⟩

theorem revSorted_inj {h : List HWrite} (hs : RevSorted h) {w w' : HWrite} (hw : w ∈ h) (hw' : w' ∈ h)
    (he : w.rev = w'.rev) : w = w' := by
  induction h with
  | nil => cases hw
  | cons x xs ih =>
    have hs' := List.pairwise_cons.1 hs
    rcases List.mem_cons.1 hw with h1 | h1 <;> rcases List.mem_cons.1 hw' with h2 | h2
    · rw [h1, h2]
    · subst h1; have := hs'.1 w' h2; omega
    · subst h2; have := hs'.1 w h1; omega
    · exact ih hs'.2 h1 h2

theorem Run.events {init cache n : Nat} {sh : BState × List HWrite} (hr : Run init cache n sh) (hfit : n ≤ cache) :
    sh.1.ring.window.map (fun e => (e.rev, e.key)) = sh.2.map (fun w => (w.rev, w.key)) ∧
    (∀ e ∈ sh.1.ring.window, ∀ w ∈ sh.2, e.rev = w.rev →
        (w.val = none ↔ e.verb = .delete) ∧ (∀ v, w.val = some v → e.val = v)) := by
  obtain ⟨evs, h1, h2, h3⟩ := hr.ring
  have hw : sh.1.ring.window = evs := by
    rw [h1]; exact Ring.new_window cache evs (by rw [h2.length_eq]; omega)
  rw [hw]
  refine ⟨h2.map_eq, ?_⟩
  intro e he w hw' hrev
  obtain ⟨w', hw'', hm⟩ := h2.mem e he
  have : w' = w := revSorted_inj hr.basic.2.2.1 hw'' hw' (by rw [← hm.1, hrev])
  subst this
  exact ⟨hm.2.2.1, hm.2.2.2⟩


/-! ### snapshot lookup = last write -/

theorem Snap.get_del_self (S : Snap) (k : Bytes) : (S.del k).get k = none := by
  unfold Snap.get Snap.del
  rw [Option.map_eq_none_iff, List.find?_eq_none]
  intro x hx
  have := (List.mem_filter.1 hx).2
  simpa using this

theorem Snap.get_del_ne (S : Snap) (k k' : Bytes) (h : k' ≠ k) : (S.del k').get k = S.get k := by
  unfold Snap.get Snap.del
  congr 1
  induction S with
  | nil => rfl
  | cons x xs ih =>
    by_cases hx : x.1 = k'
    · have b1 : (x.1 != k') = false := by simp [hx]
      have b2 : (x.1 == k) = false := by rw [hx]; simpa using h
      simp only [List.filter_cons, b1, List.find?_cons, b2, Bool.false_eq_true, if_false]
      exact ih
    · have b1 : (x.1 != k') = true := by simpa using hx
      by_cases hk : x.1 = k
      · have b2 : (x.1 == k) = true := by simpa using hk
        simp only [List.filter_cons, b1, if_true, List.find?_cons, b2]
      · have b2 : (x.1 == k) = false := by simpa using hk
        simp only [List.filter_cons, b1, if_true, List.find?_cons, b2]
        exact ih

theorem Snap.apply_get_self (S : Snap) (w : HWrite) :
    (S.apply w).get w.key = w.val.map (fun v => (v, w.rev)) := by
  unfold Snap.apply
  cases w.val with
  | none => exact Snap.get_del_self S w.key
  | some v =>
    have := Snap.get_del_self S w.key
    unfold Snap.get at this ⊢
    rw [Option.map_eq_none_iff] at this
    simp [Snap.set, List.find?_append, this]

theorem Snap.apply_get_ne (S : Snap) (w : HWrite) (k : Bytes) (h : w.key ≠ k) :
    (S.apply w).get k = S.get k := by
  unfold Snap.apply
  cases w.val with
  | none => exact Snap.get_del_ne S k w.key h
  | some v =>
    have := Snap.get_del_ne S k w.key h
    unfold Snap.get at this ⊢
    simp only [Snap.set, List.find?_append]
    have hn : List.find? (fun e => e.1 == k) [(w.key, v, w.rev)] = none := by simp [h]
    rw [hn, Option.or_none, this]

/-- what a client reads off a write -/
def wread (w : HWrite) : Option (Bytes × Nat) := w.val.map (fun v => (v, w.rev))

theorem foldl_apply_get (l : List HWrite) (S : Snap) (k : Bytes) :
    (l.foldl Snap.apply S).get k =
      match (l.filter (fun w => w.key == k)).getLast? with
      | some w => wread w
      | none => S.get k := by
  induction l generalizing S with
  | nil => rfl
  | cons w ws ih =>
    simp only [List.foldl_cons, ih, List.filter_cons]
    by_cases hw : w.key = k
    · simp only [hw, beq_self_eq_true, if_true, List.getLast?_cons]
      cases (List.filter (fun w => w.key == k) ws).getLast? with
      | some w' => rfl
      | none => simp only [Option.getD_none]; rw [← hw]; exact Snap.apply_get_self S w
    · have hw' : (w.key == k) = false := by simpa using hw
      simp only [hw', Bool.false_eq_true, if_false]
      cases (List.filter (fun w => w.key == k) ws).getLast? with
      | some w' => rfl
      | none => exact Snap.apply_get_ne S w k hw

/-- the newest write of `k` at or below `R` -/
def lastW (h : List HWrite) (k : Bytes) (R : Nat) : Option HWrite :=
  (h.filter (fun w => w.key == k && decide (w.rev ≤ R))).getLast?

theorem snapshotAt_get (h : List HWrite) (R : Nat) (k : Bytes) :
    (snapshotAt h R).get k = (lastW h k R).bind wread := by
  unfold snapshotAt lastW
  rw [foldl_apply_get, List.filter_filter]
  cases (List.filter (fun a => (a.key == k) && decide (a.rev ≤ R)) h).getLast? <;> rfl


/-! ### the store as a map of the history -/

theorem Store.mem_of_get {s : Store} {k v : Bytes} (h : s.get k = some v) : (k, v) ∈ s := by
  induction s with
  | nil => simp [Store.get] at h
  | cons x xs ih =>
    obtain ⟨k0, v0⟩ := x
    simp only [Store.get] at h
    cases hc : cmp k k0 with
    | lt => simp [hc] at h
    | eq =>
      simp only [hc, Option.some.injEq] at h
      rw [cmp_eq_iff.1 hc, h]; exact List.mem_cons_self ..
    | gt =>
      simp only [hc] at h
      exact List.mem_cons_of_mem _ (ih h)

theorem Store.get_of_mem {s : Store} (hs : s.Sorted) {k v : Bytes} (h : (k, v) ∈ s) : s.get k = some v := by
  induction s with
  | nil => cases h
  | cons x xs ih =>
    obtain ⟨k0, v0⟩ := x
    have hs' := Store.sorted_cons.1 hs
    rcases List.mem_cons.1 h with h | h
    · cases h; simp [Store.get]
    · have := hs'.1 (k, v) h
      simp only at this
      have hgt : cmp k k0 = .gt := cmp_gt_iff.2 this
      simp only [Store.get, hgt]
      exact ih hs'.2 h

/-- The store holds, for every acknowledged write, its version record — and nothing else at
non-zero revisions; all its keys are encoded keys over the alphabet. -/
def StoreInv (st : Store) (h : List HWrite) : Prop :=
  st.Sorted ∧
  (∀ kv ∈ st, ∃ k r, kv.1 = encode k r ∧ Alphabet k ∧ r < 2 ^ 64) ∧
  (∀ k r val, Alphabet k → 0 < r → r < 2 ^ 64 →
    (st.get (encode k r) = some val ↔ ∃ w ∈ h, w.key = k ∧ w.rev = r ∧ wval w.val = val))

theorem Run.store {init cache n : Nat} {sh : BState × List HWrite} (hr : Run init cache n sh)
    (hb : init + n < 2 ^ 64) : StoreInv sh.1.store sh.2 := by
  induction hr with
  | zero => exact ⟨trivial, by simp [fresh0], by simp [fresh0, Store.get]⟩
  | step hr hstep hk hv ih =>
    rename_i n sh sh' k val
    obtain ⟨ih1, ih2, ih3⟩ := ih (by omega)
    obtain ⟨hd, _, _, hrevs⟩ := hr.basic
    obtain ⟨_, _, h3⟩ := hstep
    rcases h3 with ⟨hh, ⟨iv, hst⟩, _⟩ | ⟨hh, hst, _⟩
    · have hrev : sh.1.dealt + 1 < 2 ^ 64 := by omega
      have hs1 := Store.put_sorted _ ih1 (idxKey k) iv
      rw [hh, hst]
      refine ⟨Store.put_sorted _ hs1 _ _, ?_, ?_⟩
      · intro kv hkv
        rcases Store.mem_put hkv with h | h
        · exact ⟨k, _, h, hk, hrev⟩
        · rcases Store.mem_put h with h | h
          · exact ⟨k, 0, h, hk, by decide⟩
          · exact ih2 kv h
      · intro k' r' val' hk' hr0 hr'
        rw [Store.get_put _ hs1, Store.get_put _ ih1]
        by_cases he : encode k' r' = encode k (sh.1.dealt + 1)
        · obtain ⟨rfl, rfl⟩ := encode_inj hr' hrev he
          simp only [if_true, Option.some.injEq, List.mem_append, List.mem_singleton]
          constructor
          · intro h; exact ⟨_, .inr rfl, rfl, rfl, h⟩
          · rintro ⟨w, hw | hw, h1, h2, h3⟩
            · have := (hrevs w hw).2.1; omega
            · subst hw; exact h3
        · have he0 : encode k' r' ≠ idxKey k := by
            intro h0
            have := (encode_inj hr' (by decide) h0).2
            omega
          simp only [he, he0, if_false, ih3 k' r' val' hk' hr0 hr', List.mem_append, List.mem_singleton]
          constructor
          · rintro ⟨w, hw, h⟩; exact ⟨w, .inl hw, h⟩
          · rintro ⟨w, hw | hw, h1, h2, h3⟩
            · exact ⟨w, hw, h1, h2, h3⟩
            · subst hw
              simp only at h1 h2
              exact absurd (by rw [h1, h2]) he
    · rw [hh, hst]; exact ⟨ih1, ih2, ih3⟩

/-! ### the store as decoded records -/

def decRec (kv : Bytes × Bytes) : Rec :=
  match decode kv.1 with
  | .ok k r => { key := k, rev := r, val := kv.2, ik := kv.1 }
  | _ => { key := [], rev := 0, val := kv.2, ik := kv.1 }

theorem decRec_encode (k : Bytes) (r : Nat) (hr : r < 2 ^ 64) (v : Bytes) :
    decRec (encode k r, v) = { key := k, rev := r, val := v, ik := encode k r } := by
  simp [decRec, decode_encode k r hr]

structure DecodedStore (st : Store) (recs : List Rec) : Prop where
  enc : st = encodeStore recs
  sorted : SortedRecs recs
  wf : ∀ r ∈ recs, Alphabet r.key ∧ r.rev < 2 ^ 64
  get_of_mem : ∀ r ∈ recs, st.get (encode r.key r.rev) = some r.val
  mem_of_get : ∀ k r v, r < 2 ^ 64 → st.get (encode k r) = some v → ∃ x ∈ recs, x.key = k ∧ x.rev = r ∧ x.val = v

theorem decodedStore (st : Store) (hs : st.Sorted)
    (hk : ∀ kv ∈ st, ∃ k r, kv.1 = encode k r ∧ Alphabet k ∧ r < 2 ^ 64) :
    DecodedStore st (st.map decRec) := by
  have hdec : ∀ kv ∈ st, ∃ k r, Alphabet k ∧ r < 2 ^ 64 ∧ kv.1 = encode k r ∧
      decRec kv = { key := k, rev := r, val := kv.2, ik := encode k r } := by
    intro kv hkv
    obtain ⟨k, r, h1, h2, h3⟩ := hk kv hkv
    refine ⟨k, r, h2, h3, h1, ?_⟩
    obtain ⟨a, b⟩ := kv
    simp only at h1
    subst h1
    exact decRec_encode k r h3 b
  refine ⟨?_, ?_, ?_, ?_, ?_⟩
  · unfold encodeStore
    rw [List.map_map]
    symm
    calc List.map _ st = List.map id st := by
          apply List.map_congr_left
          intro kv hkv
          obtain ⟨k, r, _, _, h1, h2⟩ := hdec kv hkv
          simp only [Function.comp, h2, id]
          rw [← h1]
      _ = st := List.map_id st
  · unfold SortedRecs
    rw [List.pairwise_map]
    refine List.Pairwise.imp_of_mem ?_ ((Store.sorted_iff_pairwise st).1 hs)
    intro a b ha hb hlt
    obtain ⟨k1, r1, ha1, hr1, h1, e1⟩ := hdec a ha
    obtain ⟨k2, r2, ha2, hr2, h2, e2⟩ := hdec b hb
    rw [h1, h2, encode_cmp ha1 ha2 hr1 hr2] at hlt
    rw [e1, e2]
    unfold recLt
    simp only
    by_cases hkk : k1 = k2
    · right; simp only [hkk, if_true] at hlt; exact ⟨hkk, Nat.compare_eq_lt.1 hlt⟩
    · left; simpa [hkk] using hlt
  · intro r hr
    obtain ⟨kv, hkv, rfl⟩ := List.mem_map.1 hr
    obtain ⟨k, r, h1, h2, _, e⟩ := hdec kv hkv
    rw [e]; exact ⟨h1, h2⟩
  · intro r hr
    obtain ⟨kv, hkv, rfl⟩ := List.mem_map.1 hr
    obtain ⟨k, r, _, _, h1, e⟩ := hdec kv hkv
    rw [e]
    simp only
    apply Store.get_of_mem hs
    rw [← h1]; exact hkv
  · intro k r v hr hg
    have hm := Store.mem_of_get hg
    refine ⟨decRec (encode k r, v), List.mem_map.2 ⟨_, hm, rfl⟩, ?_⟩
    rw [decRec_encode k r hr v]
    exact ⟨rfl, rfl, rfl⟩

/-! ### newest version in the store = newest write in the history -/

theorem visible_eq_lastW {recs : List Rec} {h : List HWrite} (hs : SortedRecs recs) (hh : RevSorted h)
    (hpos : ∀ w ∈ h, 0 < w.rev)
    (h1 : ∀ x ∈ recs, 0 < x.rev → ∃ w ∈ h, w.key = x.key ∧ w.rev = x.rev ∧ wval w.val = x.val)
    (h2 : ∀ w ∈ h, ∃ x ∈ recs, x.key = w.key ∧ x.rev = w.rev ∧ x.val = wval w.val)
    (R : Nat) (k : Bytes) :
    (visible R recs k).map (fun r => (r.val, r.rev)) = (lastW h k R).map (fun w => (wval w.val, w.rev)) := by
  cases hl : lastW h k R with
  | none =>
    have hnone : ∀ w ∈ h, ¬ (w.key = k ∧ w.rev ≤ R) := by
      have := List.filter_eq_nil_iff.1 (List.getLast?_eq_none_iff.1 hl)
      intro w hw hc
      exact this w hw (by simp [hc.1, hc.2])
    have : visible R recs k = none := by
      rw [visible_eq_none_iff]
      intro x hx
      cases hv : vis R k x with
      | false => rfl
      | true =>
        obtain ⟨a, b, c⟩ := vis_iff.1 hv
        obtain ⟨w, hw, e1, e2, _⟩ := h1 x hx b
        exact absurd ⟨e1.trans a, by omega⟩ (hnone w hw)
    rw [this]; rfl
  | some w =>
    have hwf := List.mem_filter.1 (List.mem_of_getLast? hl)
    have hwk : w.key = k ∧ w.rev ≤ R := by simpa using hwf.2
    obtain ⟨x, hx, ex1, ex2, ex3⟩ := h2 w hwf.1
    have hxv : vis R k x = true := vis_iff.2 ⟨ex1.trans hwk.1, by rw [ex2]; exact hpos w hwf.1, by rw [ex2]; exact hwk.2⟩
    cases hv : visible R recs k with
    | none => rw [visible_eq_none_iff] at hv; rw [hv x hx] at hxv; cases hxv
    | some x' =>
      obtain ⟨hx', hxv'⟩ := visible_some_mem hv
      obtain ⟨a, b, c⟩ := vis_iff.1 hxv'
      obtain ⟨w', hw', e1, e2, e3⟩ := h1 x' hx' b
      -- w' is below w in the history, x is below x' in the store
      have hw'f : w' ∈ h.filter (fun w => w.key == k && decide (w.rev ≤ R)) :=
        List.mem_filter.2 ⟨hw', by simp [e1, a, e2, c]⟩
      have hle1 : w'.rev ≤ w.rev := by
        rcases pairwise_getLast (hh.filter _) hl hw'f with h | h
        · rw [h]; exact Nat.le_refl _
        · exact Nat.le_of_lt h
      have hxf : x ∈ recs.filter (vis R k) := List.mem_filter.2 ⟨hx, hxv⟩
      have hle2 : x.rev ≤ x'.rev := by
        rcases pairwise_getLast (List.Pairwise.filter _ hs) (visible_def R recs k ▸ hv) hxf with h | h
        · rw [h]; exact Nat.le_refl _
        · rcases h with h | ⟨_, h⟩
          · rw [ex1, hwk.1, a] at h; simp at h
          · exact Nat.le_of_lt h
      have hrev : w'.rev = w.rev := by omega
      have : w' = w := revSorted_inj hh hw' hwf.1 hrev
      subst this
      simp only [Option.map_some, ← e2, ← e3]

/-- Point reads of a reachable state are the snapshot of the history. -/
theorem Run.read {init cache n : Nat} {sh : BState × List HWrite} (hr : Run init cache n sh)
    (hb : init + n < 2 ^ 64) (c : Cfg) (k : Bytes) (hk : Alphabet k) (R : Nat) (hR : 0 < R) (hR2 : R < 2 ^ 64) :
    (match bget c sh.1.store k R with
     | .found v m => some (v, m)
     | .notFound _ => none) = (snapshotAt sh.2 R).get k := by
  obtain ⟨hs, hkeys, hget⟩ := hr.store hb
  obtain ⟨_, _, hsorted, hrevs⟩ := hr.basic
  have hd := decodedStore sh.1.store hs hkeys
  have hR0 : (R == 0) = false := by simp; omega
  have hgi : getInternal c sh.1.store k R = (lastW sh.2 k R).map (fun w => (wval w.val, w.rev)) := by
    conv => lhs; rw [hd.enc]
    rw [getInternal_encodeStore c hd.sorted hd.wf k hk R hR2]
    simp only [hR0, Bool.false_eq_true, if_false]
    apply visible_eq_lastW hd.sorted hsorted (fun w hw => by have := (hrevs w hw).1; omega)
    · intro x hx hpos
      have := hd.wf x hx
      exact (hget x.key x.rev x.val this.1 hpos this.2).1 (hd.get_of_mem x hx)
    · intro w hw
      obtain ⟨a, b, c', _⟩ := hrevs w hw
      have hlt : w.rev < 2 ^ 64 := by omega
      exact hd.mem_of_get w.key w.rev _ hlt ((hget w.key w.rev _ c' (by omega) hlt).2 ⟨w, hw, rfl, rfl, rfl⟩)
  rw [snapshotAt_get]
  unfold bget
  rw [hgi]
  cases hl : lastW sh.2 k R with
  | none => rfl
  | some w =>
    have hw := (List.mem_filter.1 (List.mem_of_getLast? hl)).1
    have hnt := (hrevs w hw).2.2.2
    simp only [Option.map_some, Option.bind_some, wread]
    cases hv : w.val with
    | none => simp [wval, isTomb]
    | some v =>
      have : v ≠ tombstone := by intro e; rw [hv, e] at hnt; exact hnt rfl
      simp [wval, isTomb, this]

end KB

