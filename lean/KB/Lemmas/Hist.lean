/- Helper lemmas relating the sequential backend model to write histories, used by C06. -/
import KB.Spec
import KB.Backend
import KB.Lemmas.Coder
namespace KB
end KB
