/-
  Invariant of the watch pipeline LTS (KB.Watch) and its preservation by every action of the fixed code.
-/
import KB.Watch
import KB.Lemmas.WatchRing
namespace KB.Watch
open KB

/-! ### small list facts -/

theorem sorted_le_last {l : List Event} (hs : SortedRev l) {n : Event} (hl : l.getLast? = some n) :
    ∀ x ∈ l, x.rev ≤ n.rev := by
  obtain ⟨ys, rfl⟩ := List.getLast?_eq_some_iff.mp hl
  intro x hx
  have := (List.pairwise_append.mp hs).2.2
  rcases List.mem_append.mp hx with h | h
  · exact Nat.le_of_lt (this x h n (by simp))
  · simp at h; subst h; exact Nat.le_refl _

theorem dropWhile_eq_filter {l : List Event} (hs : SortedRev l) (f : Nat) :
    l.dropWhile (fun e => e.rev < f) = l.filter (fun e => decide (f ≤ e.rev)) := by
  induction l with
  | nil => rfl
  | cons x xs ih =>
    have hs' := List.pairwise_cons.mp hs
    rw [List.dropWhile_cons]
    by_cases hx : x.rev < f
    · have : ¬ f ≤ x.rev := by omega
      simp [hx, this, ih hs'.2]
    · have hfx : f ≤ x.rev := by omega
      have hall : ∀ a ∈ xs, (fun e : Event => decide (f ≤ e.rev)) a = true := by
        intro a ha; have := hs'.1 a ha; simp; omega
      simp only [decide_eq_true_eq, hx, if_false]
      rw [List.filter_cons]
      simp only [decide_eq_true_eq, hfx, if_true]
      rw [List.filter_eq_self.mpr hall]

def keepP (f : Nat) (pfx : Bytes) (e : Event) : Bool := decide (f ≤ e.rev) && matches_ pfx e

theorem keepP_eq (f : Nat) (pfx : Bytes) : keepP f pfx = fun e => decide (f ≤ e.rev) && matches_ pfx e := rfl

theorem filterEvents_eq_filter {b : List Event} (hs : SortedRev b) (pfx : Bytes) (f : Nat) :
    filterEvents pfx f b = b.filter (keepP f pfx) := by
  unfold filterEvents
  rw [dropWhile_eq_filter hs, List.filter_filter]
  apply List.filter_congr
  intro x _; simp [keepP, matches_, Bool.and_comm]

theorem cuLoop_flatten (bs : Nat) : ∀ (fuel : Nat) (evs : List Event), (cuLoop bs fuel evs).flatten = evs := by
  intro fuel
  induction fuel with
  | zero => intro evs; simp [cuLoop]
  | succ n ih =>
    intro evs
    unfold cuLoop
    split
    · rw [List.flatten_cons, ih]; exact List.take_append_drop bs evs
    · simp

theorem cuLoop_length_le (bs : Nat) (hbs : 0 < bs) : ∀ (k fuel : Nat) (evs : List Event),
    evs.length ≤ (k + 1) * bs → (cuLoop bs fuel evs).length ≤ k + 1 := by
  intro k
  induction k with
  | zero =>
    intro fuel evs h
    cases fuel with
    | zero => simp [cuLoop]
    | succ n =>
      unfold cuLoop
      have : ¬ evs.length > bs := by omega
      simp [this]
  | succ k ih =>
    intro fuel evs h
    cases fuel with
    | zero => simp [cuLoop]
    | succ n =>
      unfold cuLoop
      split
      · have := ih n (evs.drop bs) (by
          simp only [List.length_drop]
          rw [Nat.succ_mul] at h
          omega)
        simp only [List.length_cons]; omega
      · simp

theorem catchUpChunks_flatten (c : PCfg) (evs : List Event) (chunks : List (List Event))
    (h : catchUpChunks c evs = some chunks) : chunks.flatten = evs := by
  unfold catchUpChunks at h
  split at h
  · rename_i he
    injection h with h; subst h
    simp; exact (List.isEmpty_iff.mp he)
  · split at h
    · cases h
    · injection h with h; subst h
      exact cuLoop_flatten _ _ _

theorem mem_modify {α : Type} {f : α → α} {l : List α} {i : Nat} {x : α} (h : x ∈ l.modify i f) :
    x ∈ l ∨ ∃ y ∈ l, x = f y := by
  induction l generalizing i with
  | nil => simp at h
  | cons a as ih =>
    cases i with
    | zero =>
      simp [List.modify_zero_cons] at h
      rcases h with h | h
      · exact .inr ⟨a, by simp, h⟩
      · exact .inl (by simp [h])
    | succ i =>
      simp [List.modify_succ_cons] at h
      rcases h with h | h
      · exact .inl (by simp [h])
      · rcases ih h with h' | ⟨y, hy, hxy⟩
        · exact .inl (by simp [h'])
        · exact .inr ⟨y, by simp [hy], hxy⟩

/-! ### the invariant -/

/-- the live filter agrees with the specification on every future event -/
def FromOK (w : W) (E : List Event) : Prop :=
  w.from_ = w.start ∨ (w.start ≤ w.from_ ∧ ∃ x ∈ E, w.from_ ≤ x.rev + 1)

def PhaseInv (c : PCfg) (E : List Event) (w : W) : Phase → Prop
  | .subscribed => w.taken = 0 ∧ w.stream = []
  | .cacheRead ret =>
      w.taken = 0 ∧ w.stream = [] ∧ w.start ≠ 0 ∧ w.subAt ≤ w.readAt ∧ w.readAt ≤ E.length ∧
      ret = findSpec c.ringCap (E.take w.readAt) w.start
  | .live =>
      w.stream ++ (E.drop (w.subAt + w.taken)).filter (keepP w.from_ w.pfx) = specOf w E ∧ FromOK w E
  | .refused => w.stream = []
  | .hung => w.delivered = []

/-- invariant of one watcher; `E` = everything produced, `I` = produced but not yet fanned out -/
structure WInv (c : PCfg) (E I : List Event) (w : W) : Prop where
  bound : w.subAt + w.taken ≤ E.length
  subLe : w.subAt ≤ w.subProduced ∧ w.subProduced ≤ E.length
  rest : ∃ rest, w.sub.flatten ++ rest = E.drop (w.subAt + w.taken) ∧ (w.subClosed = false → rest = I)
  closed : w.missed = true → w.subClosed = true
  phase : PhaseInv c E w w.phase

structure GInv (c : PCfg) (s : WState) : Prop where
  sorted : SortedRev s.produced
  ring : s.ring = ringOf c.ringCap s.produced
  infl : ∃ F, s.produced = F ++ inflight s
  ws : ∀ w ∈ s.ws, WInv c s.produced (inflight s) w

/-! ### preservation, watcher by watcher -/

theorem specOf_append (w : W) (E : List Event) (e : Event) (hb : w.subAt ≤ E.length) :
    specOf w (E ++ [e]) = specOf w E ++
      (if (if w.start = 0 then matches_ w.pfx e else (decide (w.start ≤ e.rev) && matches_ w.pfx e)) then [e] else []) := by
  unfold specOf
  by_cases h0 : w.start = 0
  · simp only [h0, if_true]
    rw [List.drop_append_of_le_length hb, List.filter_append]
    simp [List.filter_cons]
  · simp only [h0, if_false]
    rw [List.filter_append]
    simp [List.filter_cons]

theorem winv_produce {c : PCfg} {E I : List Event} {w : W} (e : Event)
    (hnew : ∀ x ∈ E, x.rev < e.rev) (h : WInv c E I w) : WInv c (E ++ [e]) (I ++ [e]) w := by
  obtain ⟨hb, hsl, ⟨rest, hr, hopen⟩, hcl, hp⟩ := h
  refine ⟨by simp; omega, ⟨hsl.1, by simp; omega⟩, ⟨rest ++ [e], ?_, ?_⟩, hcl, ?_⟩
  · rw [List.drop_append_of_le_length hb, ← hr, List.append_assoc]
  · intro ho; rw [hopen ho]
  · cases hph : w.phase with
    | subscribed => rw [hph] at hp; exact hp
    | cacheRead ret =>
      rw [hph] at hp
      obtain ⟨h1, h2, h3, h4, h5, h6⟩ := hp
      refine ⟨h1, h2, h3, h4, by simp; omega, ?_⟩
      rw [List.take_append_of_le_length h5]; exact h6
    | refused => rw [hph] at hp; exact hp
    | hung => rw [hph] at hp; exact hp
    | live =>
      rw [hph] at hp
      obtain ⟨hs, hf⟩ := hp
      refine ⟨?_, ?_⟩
      · rw [List.drop_append_of_le_length hb, List.filter_append, ← List.append_assoc, hs,
          specOf_append w E e (by omega)]
        congr 1
        -- the filter on the new event
        have hk : keepP w.from_ w.pfx e =
            (if w.start = 0 then matches_ w.pfx e else (decide (w.start ≤ e.rev) && matches_ w.pfx e)) := by
          unfold keepP
          rcases hf with hf | ⟨hle, x, hx, hxf⟩
          · by_cases h0 : w.start = 0
            · simp [h0, hf]
            · simp [h0, hf]
          · have := hnew x hx
            have h1 : w.from_ ≤ e.rev := by omega
            have h2 : w.start ≤ e.rev := by omega
            by_cases h0 : w.start = 0
            · simp [h0, h1]
            · simp [h0, h1, h2]
        simp only [List.filter_cons, List.filter_nil, hk]
      · rcases hf with hf | ⟨hle, x, hx, hxf⟩
        · exact .inl hf
        · exact .inr ⟨hle, x, by simp [hx], hxf⟩

theorem phaseInv_congr {c : PCfg} {E : List Event} {w w' : W} {ph : Phase}
    (h1 : w'.taken = w.taken) (h2 : w'.stream = w.stream) (h3 : w'.start = w.start) (h4 : w'.subAt = w.subAt)
    (h5 : w'.readAt = w.readAt) (h6 : w'.from_ = w.from_) (h7 : w'.pfx = w.pfx) (h8 : w'.delivered = w.delivered)
    (h : PhaseInv c E w ph) : PhaseInv c E w' ph := by
  cases ph with
  | subscribed => simpa [PhaseInv, h1, h2] using h
  | cacheRead ret => simpa [PhaseInv, h1, h2, h3, h4, h5] using h
  | live => simpa [PhaseInv, FromOK, specOf, h1, h2, h3, h4, h6, h7] using h
  | refused => simpa [PhaseInv, h2] using h
  | hung => simpa [PhaseInv, h8] using h

theorem winv_offer {c : PCfg} {E I I' : List Event} {w : W} (b : List Event) (hI : I = b ++ I')
    (h : WInv c E I w) : WInv c E I' (w.offer c b) := by
  obtain ⟨hb, hsl, ⟨rest, hr, hopen⟩, hcl, hp⟩ := h
  unfold W.offer
  by_cases hc : w.subClosed = true
  · simp only [hc, if_true]
    exact ⟨hb, hsl, ⟨rest, hr, by simp [hc]⟩, hcl, hp⟩
  · simp only [hc]
    have hc' : w.subClosed = false := by simpa using hc
    by_cases hroom : w.sub.length < c.subCap
    · simp only [hroom, if_true, Bool.false_eq_true, if_false]
      refine ⟨hb, hsl, ⟨I', ?_, fun _ => rfl⟩, fun hm => absurd (hcl hm) hc, phaseInv_congr rfl rfl rfl rfl rfl rfl rfl rfl hp⟩
      show (w.sub ++ [b]).flatten ++ I' = _
      rw [← hr, hopen hc', hI]; simp
    · simp only [hroom, if_false, Bool.false_eq_true]
      exact ⟨hb, hsl, ⟨rest, hr, by simp⟩, by simp, phaseInv_congr rfl rfl rfl rfl rfl rfl rfl rfl hp⟩

theorem winv_consume {c : PCfg} {E I : List Event} {w : W} (h : WInv c E I w) : WInv c E I w.consume := by
  obtain ⟨hb, hsl, hrest, hcl, hp⟩ := h
  unfold W.consume
  cases hph : w.phase with
  | live =>
    simp only [Phase.isLive, Bool.not_true, Bool.false_eq_true, if_false]
    cases ho : w.out with
    | nil => simp only; exact ⟨hb, hsl, hrest, hcl, hp⟩
    | cons b rest =>
      simp only
      refine ⟨hb, hsl, hrest, hcl, ?_⟩
      rw [hph] at hp
      show PhaseInv c E _ Phase.live
      simp only [PhaseInv, W.stream, specOf, FromOK] at hp ⊢
      obtain ⟨hs, hf⟩ := hp
      refine ⟨?_, hf⟩
      rw [← hs]
      simp [ho]
  | subscribed => simp only [Phase.isLive]; exact ⟨hb, hsl, hrest, hcl, hp⟩
  | cacheRead r => simp only [Phase.isLive]; exact ⟨hb, hsl, hrest, hcl, hp⟩
  | refused => simp only [Phase.isLive]; exact ⟨hb, hsl, hrest, hcl, hp⟩
  | hung => simp only [Phase.isLive]; exact ⟨hb, hsl, hrest, hcl, hp⟩

theorem winv_forward {c : PCfg} {E I : List Event} {w : W} (hsort : SortedRev E) (h : WInv c E I w) :
    WInv c E I (w.forward c) := by
  obtain ⟨hb, hsl, ⟨rest, hr, hopen⟩, hcl, hp⟩ := h
  have h0 : WInv c E I w := ⟨hb, hsl, ⟨rest, hr, hopen⟩, hcl, hp⟩
  unfold W.forward
  cases hph : w.phase with
  | subscribed => simpa [Phase.isLive] using h0
  | cacheRead r => simpa [Phase.isLive] using h0
  | refused => simpa [Phase.isLive] using h0
  | hung => simpa [Phase.isLive] using h0
  | live =>
    rw [hph] at hp
    simp only [Phase.isLive, Bool.not_true, Bool.false_eq_true, if_false]
    by_cases hh : w.hand.isEmpty = true
    · simp only [hh, Bool.not_true, Bool.false_eq_true, if_false]
      have hhand : w.hand = [] := List.isEmpty_iff.mp hh
      cases hsub : w.sub with
      | nil =>
        simp only
        split
        · rw [hsub] at hr
          refine ⟨hb, hsl, ⟨rest, hr, hopen⟩, hcl, ?_⟩
          show PhaseInv c E _ Phase.live
          simpa only [PhaseInv, W.stream, specOf, FromOK] using hp
        · exact h0
      | cons b bs =>
        simp only
        rw [hsub] at hr
        simp only [List.flatten_cons, List.append_assoc] at hr
        have hlen : b.length + (bs.flatten ++ rest).length = E.length - (w.subAt + w.taken) := by
          have := congrArg List.length hr
          simpa [List.length_append, List.length_drop] using this
        have hdrop : E.drop (w.subAt + (w.taken + b.length)) = bs.flatten ++ rest := by
          have : E.drop (w.subAt + (w.taken + b.length)) = (E.drop (w.subAt + w.taken)).drop b.length := by
            rw [List.drop_drop]; congr 1; omega
          rw [this, ← hr, List.drop_left]
        have hsb : SortedRev b := by
          have h1 : SortedRev (E.drop (w.subAt + w.taken)) := List.Pairwise.sublist (List.drop_sublist _ _) hsort
          rw [← hr] at h1
          exact (List.pairwise_append.mp h1).1
        refine ⟨by show w.subAt + (w.taken + b.length) ≤ E.length; omega, hsl,
          ⟨rest, by show bs.flatten ++ rest = _; rw [hdrop], hopen⟩, hcl, ?_⟩
        show PhaseInv c E _ Phase.live
        simp only [PhaseInv, W.stream, specOf, FromOK] at hp ⊢
        obtain ⟨hs, hf⟩ := hp
        refine ⟨?_, hf⟩
        rw [← hs, hdrop, ← hr, hhand, filterEvents_eq_filter hsb, List.filter_append]
        simp
    · simp only [hh, Bool.not_false, if_true]
      split
      · refine ⟨hb, hsl, ⟨rest, hr, hopen⟩, hcl, ?_⟩
        show PhaseInv c E _ Phase.live
        simp only [PhaseInv, W.stream, specOf, FromOK] at hp ⊢
        obtain ⟨hs, hf⟩ := hp
        refine ⟨?_, hf⟩
        rw [← hs]; simp
      · exact h0

theorem winv_readCache {c : PCfg} {E I : List Event} {w : W} (hcap : 0 < c.ringCap) (hsort : SortedRev E)
    (ring : Ring) (hring : ring = ringOf c.ringCap E) (h : WInv c E I w) :
    WInv c E I (w.readCache ring E.length) := by
  obtain ⟨hb, hsl, ⟨rest, hr, hopen⟩, hcl, hp⟩ := h
  have h0 : WInv c E I w := ⟨hb, hsl, ⟨rest, hr, hopen⟩, hcl, hp⟩
  unfold W.readCache
  cases hph : w.phase with
  | live => simpa using h0
  | cacheRead r => simpa using h0
  | refused => simpa using h0
  | hung => simpa using h0
  | subscribed =>
    rw [hph] at hp
    simp only [PhaseInv, W.stream] at hp
    obtain ⟨ht, hst⟩ := hp
    simp only
    by_cases hz : (w.start == 0) = true
    · simp only [hz, if_true]
      have hz' : w.start = 0 := by simpa using hz
      refine ⟨hb, hsl, ⟨rest, hr, hopen⟩, hcl, ?_⟩
      show PhaseInv c E _ Phase.live
      simp only [PhaseInv, W.stream, specOf, FromOK, hz', if_true]
      refine ⟨?_, by simp⟩
      rw [hst, ht]
      simp only [List.nil_append, Nat.add_zero]
      apply List.filter_congr
      intro x _; simp [keepP]
    · simp only [hz, Bool.false_eq_true, if_false]
      have hz' : w.start ≠ 0 := by simpa using hz
      refine ⟨hb, hsl, ⟨rest, hr, hopen⟩, hcl, ?_⟩
      show PhaseInv c E _ (Phase.cacheRead _)
      simp only [PhaseInv, W.stream]
      refine ⟨ht, hst, hz', by omega, Nat.le_refl _, ?_⟩
      rw [List.take_length, hring, ringOf_findLit _ hcap _ hsort]

/-- the mathematical heart of registration: what the decision table hands to the client as catch-up,
followed by what the live filter lets through from the subscription (which started at position `k`,
not after the cache read at position `r`), is exactly the specified stream -/
theorem decide_live_ok {cap : Nat} (hcap : 0 < cap) {E : List Event} (hsort : SortedRev E) {k r : Nat}
    (hkr : k ≤ r) (hr : r ≤ E.length) {S committed : Nat} {pfx : Bytes} {f : Nat} {cu : List Event}
    (hd : decideRet pfx S committed (findSpec cap (E.take r) S) = .live f cu) :
    cu ++ (E.drop k).filter (keepP f pfx) = E.filter (fun e => decide (S ≤ e.rev) && matches_ pfx e) ∧
    (f = S ∨ (S ≤ f ∧ ∃ x ∈ E, f ≤ x.rev + 1)) := by
  have hE : E.take r ++ E.drop r = E := List.take_append_drop r E
  have hlen2 : (E.take r).length = r := by simp [List.length_take]; omega
  have hdropk : E.drop k = (E.take r).drop k ++ E.drop r := by
    conv => lhs; rw [← hE]
    rw [List.drop_append_of_le_length (by omega)]
  have hs2 := hsort
  rw [← hE] at hs2
  obtain ⟨hsE2, hsE3, hcross⟩ := List.pairwise_append.mp hs2
  have hspec : E.filter (fun e => decide (S ≤ e.rev) && matches_ pfx e) =
      (E.take r).filter (fun e => decide (S ≤ e.rev) && matches_ pfx e) ++
      (E.drop r).filter (fun e => decide (S ≤ e.rev) && matches_ pfx e) := by
    conv => lhs; rw [← hE]
    rw [List.filter_append]
  rw [hdropk, List.filter_append, hspec]
  generalize hE2 : E.take r = E2 at *
  generalize hE3 : E.drop r = E3 at *
  unfold findSpec at hd
  -- the window
  have hwin : E2.take (E2.length - cap) ++ E2.drop (E2.length - cap) = E2 := List.take_append_drop _ _
  generalize hW : E2.drop (E2.length - cap) = win at *
  generalize hP : E2.take (E2.length - cap) = pre at *
  cases hw : win with
  | nil =>
    -- empty cache: nothing was produced before the read, hence nothing before the subscription
    have : E2 = [] := by
      have h1 := congrArg List.length hW
      simp [hw, List.length_drop] at h1
      exact List.length_eq_zero_iff.mp (by omega)
    subst this
    simp only [hw, List.head?_nil] at hd
    simp only [decideRet] at hd
    split at hd
    · injection hd with h1 h2
      subst h1; subst h2
      simp [keepP_eq]
    · cases hd
  | cons oldest tl =>
    have hne : win ≠ [] := by simp [hw]
    obtain ⟨newest, hnew⟩ : ∃ n, win.getLast? = some n := by
      cases h : win.getLast? with
      | none => exact absurd (List.getLast?_eq_none_iff.mp h) hne
      | some n => exact ⟨n, rfl⟩
    rw [hw] at hnew
    simp only [hw, List.head?_cons, hnew] at hd
    -- facts about the window
    have hsW : SortedRev win := by
      rw [← hwin] at hsE2; exact (List.pairwise_append.mp hsE2).2.1
    have hpre : ∀ a ∈ pre, a.rev < oldest.rev := by
      intro a ha
      rw [← hwin] at hsE2
      exact (List.pairwise_append.mp hsE2).2.2 a ha oldest (by simp [hw])
    have hlastE2 : E2.getLast? = some newest := by
      rw [← hwin, hw, List.getLast?_append, hnew]; rfl
    have hleE2 : ∀ x ∈ E2, x.rev ≤ newest.rev := sorted_le_last hsE2 hlastE2
    have hnewMem : newest ∈ E2 := by
      obtain ⟨ys, hys⟩ := List.getLast?_eq_some_iff.mp hlastE2
      rw [hys]; simp
    have hE3gt : ∀ b ∈ E3, newest.rev < b.rev := fun b hb => hcross newest hnewMem b hb
    have hmemE : ∀ x ∈ E2, x ∈ E := by
      intro x hx; rw [← hE]; exact List.mem_append_left _ hx
    by_cases hhigh : S > newest.rev
    · -- high: nothing cached is wanted
      simp only [hhigh, if_true, decideRet] at hd
      injection hd with h1 h2
      subst h1; subst h2
      refine ⟨?_, .inl rfl⟩
      have h1 : (E2.drop k).filter (keepP S pfx) = [] := by
        apply List.filter_eq_nil_iff.mpr
        intro a ha
        have := hleE2 a (List.mem_of_mem_drop ha)
        simp [keepP]; intro; omega
      have h2 : E2.filter (fun e => decide (S ≤ e.rev) && matches_ pfx e) = [] := by
        apply List.filter_eq_nil_iff.mpr
        intro a ha
        have := hleE2 a ha
        simp; intro; omega
      rw [h1, h2]; simp [keepP_eq]
    · simp only [hhigh, if_false] at hd
      by_cases hlow : S < oldest.rev
      · simp only [hlow, if_true, decideRet] at hd
        cases hd
      · simp only [hlow, if_false, decideRet] at hd
        -- in range
        have hfE2 : E2.filter (fun e => decide (S ≤ e.rev) && matches_ pfx e) =
            (win.filter (fun e => decide (S ≤ e.rev))).filter (matches_ pfx) := by
          conv => lhs; rw [← hwin]
          rw [List.filter_append]
          have : pre.filter (fun e => decide (S ≤ e.rev) && matches_ pfx e) = [] := by
            apply List.filter_eq_nil_iff.mpr
            intro a ha
            have := hpre a ha
            simp; intro; omega
          rw [this, List.nil_append, List.filter_filter]
          apply List.filter_congr
          intro x _; simp [Bool.and_comm]
        rw [← hw] at hd
        split at hd
        · -- no matching cached event: live from S
          rename_i hemp
          injection hd with h1 h2
          subst h1; subst h2
          have hc : (win.filter (fun e => decide (S ≤ e.rev))).filter (matches_ pfx) = [] :=
            List.isEmpty_iff.mp hemp
          refine ⟨?_, .inl rfl⟩
          rw [hfE2, hc]
          have h1 : (E2.drop k).filter (keepP S pfx) = [] := by
            have hsub : ((E2.drop k).filter (keepP S pfx)).Sublist (E2.filter (keepP S pfx)) :=
              List.Sublist.filter _ (List.drop_sublist _ _)
            have : E2.filter (keepP S pfx) = [] := by
              have := hfE2
              rw [hc] at this
              exact this
            rw [this] at hsub
            exact List.eq_nil_of_sublist_nil hsub
          rw [h1]; simp [keepP_eq]
        · rename_i hemp
          injection hd with h1 h2
          subst h1; subst h2
          refine ⟨?_, .inr ⟨by omega, newest, hmemE _ hnewMem, Nat.le_refl _⟩⟩
          rw [hfE2]
          have h1 : (E2.drop k).filter (keepP (newest.rev + 1) pfx) = [] := by
            apply List.filter_eq_nil_iff.mpr
            intro a ha
            have := hleE2 a (List.mem_of_mem_drop ha)
            simp [keepP]; intro; omega
          have h2 : E3.filter (keepP (newest.rev + 1) pfx) =
              E3.filter (fun e => decide (S ≤ e.rev) && matches_ pfx e) := by
            apply List.filter_congr
            intro x hx
            have := hE3gt x hx
            have a1 : newest.rev + 1 ≤ x.rev := by omega
            have a2 : S ≤ x.rev := by omega
            simp [keepP, a1, a2]
          rw [h1, h2]; simp

theorem winv_decide {c : PCfg} {E I : List Event} {w : W} (hcap : 0 < c.ringCap) (hsort : SortedRev E)
    (committed : Nat) (h : WInv c E I w) : WInv c E I (w.decide c committed) := by
  obtain ⟨hb, hsl, ⟨rest, hr, hopen⟩, hcl, hp⟩ := h
  have h0 : WInv c E I w := ⟨hb, hsl, ⟨rest, hr, hopen⟩, hcl, hp⟩
  unfold W.decide
  cases hph : w.phase with
  | live => simpa using h0
  | subscribed => simpa using h0
  | refused => simpa using h0
  | hung => simpa using h0
  | cacheRead ret =>
    rw [hph] at hp
    simp only [PhaseInv, W.stream] at hp
    obtain ⟨ht, hst, hS, hkr, hrl, hret⟩ := hp
    simp only
    cases hd : decideRet w.pfx w.start committed ret with
    | refuse =>
      simp only
      refine ⟨hb, hsl, ⟨rest, hr, by simp⟩, by simp, ?_⟩
      show PhaseInv c E _ Phase.refused
      simpa only [PhaseInv, W.stream] using hst
    | live f cu =>
      simp only
      have hnil : w.delivered = [] ∧ w.out.flatten = [] ∧ w.hand = [] := by
        have := List.append_eq_nil_iff.mp hst
        have h2 := List.append_eq_nil_iff.mp this.1
        exact ⟨h2.1, h2.2, this.2⟩
      cases hcc : catchUpChunks c cu with
      | none =>
        simp only
        refine ⟨hb, hsl, ⟨rest, hr, hopen⟩, hcl, ?_⟩
        show PhaseInv c E _ Phase.hung
        simpa only [PhaseInv] using hnil.1
      | some chunks =>
        simp only
        split
        · refine ⟨hb, hsl, ⟨rest, hr, hopen⟩, hcl, ?_⟩
          show PhaseInv c E _ Phase.live
          rw [hret] at hd
          obtain ⟨h1, h2⟩ := decide_live_ok hcap hsort hkr hrl hd
          simp only [PhaseInv, W.stream, specOf, FromOK, hS, if_false]
          refine ⟨?_, h2⟩
          rw [hnil.1, hnil.2.2, catchUpChunks_flatten c cu chunks hcc, ht, Nat.add_zero]
          simpa using h1
        · refine ⟨hb, hsl, ⟨rest, hr, hopen⟩, hcl, ?_⟩
          show PhaseInv c E _ Phase.hung
          simpa only [PhaseInv] using hnil.1

theorem winv_new {c : PCfg} {E I F : List Event} (hE : E = F ++ I) (pfx : Bytes) (start : Nat) :
    WInv c E I { pfx := pfx, start := start, subAt := E.length - I.length, subProduced := E.length } := by
  have hlen : E.length - I.length = F.length := by rw [hE]; simp
  refine ⟨by simp, ⟨by simp, Nat.le_refl _⟩, ⟨I, ?_, fun _ => rfl⟩, by simp, ?_⟩
  · simp only [List.flatten_nil, List.nil_append, Nat.add_zero, hlen]
    rw [hE, List.drop_left]
  · show PhaseInv c E _ Phase.subscribed
    simp [PhaseInv, W.stream]

theorem inflight_flush (s : WState) : inflight { s with chan := s.chan ++ [s.batch], batch := [] } = inflight s := by
  simp [inflight]

theorem ginv_init (c : PCfg) : GInv c (WState.init c) :=
  ⟨List.Pairwise.nil, rfl, ⟨[], rfl⟩, by intro w hw; simp [WState.init] at hw⟩

theorem ginv_act {c : PCfg} (hcap : 0 < c.ringCap) {s : WState} (a : Act) (hfix : a.fixed = true)
    (h : GInv c s) : GInv c (act c s a) := by
  obtain ⟨hsort, hring, ⟨F, hF⟩, hws⟩ := h
  have h0 : GInv c s := ⟨hsort, hring, ⟨F, hF⟩, hws⟩
  cases a with
  | commit n => exact ⟨hsort, hring, ⟨F, hF⟩, hws⟩
  | produce e =>
    simp only [act]
    split
    · rename_i hall
      have hnew : ∀ x ∈ s.produced, x.rev < e.rev := by
        intro x hx; have := List.all_eq_true.mp hall x hx; simpa using this
      have hinf : inflight { s with ring := s.ring.add e, batch := s.batch ++ [e], produced := s.produced ++ [e] }
          = inflight s ++ [e] := by simp [inflight]
      refine ⟨?_, ?_, ⟨F, ?_⟩, ?_⟩
      · exact List.pairwise_append.mpr ⟨hsort, by simp, by intro a ha b hb; simp at hb; subst hb; exact hnew a ha⟩
      · simp [ringOf, List.foldl_append, hring]
      · rw [hinf]; simp only []; rw [hF]; simp [List.append_assoc]
      · intro w hw; rw [hinf]; exact winv_produce e hnew (hws w hw)
    · exact h0
  | flush =>
    simp only [act]
    split
    · exact h0
    · refine ⟨hsort, hring, ⟨F, ?_⟩, ?_⟩
      · rw [inflight_flush]; exact hF
      · intro w hw; rw [inflight_flush]; exact hws w hw
  | fanout =>
    simp only [act]
    cases hch : s.chan with
    | nil => simpa [hch] using h0
    | cons b rest =>
      simp only
      have hI : inflight s = b ++ inflight { s with chan := rest, ws := s.ws.map (fun w => w.offer c b) } := by
        simp [inflight, hch]
      refine ⟨hsort, hring, ⟨F ++ b, ?_⟩, ?_⟩
      · simp only []; rw [hF, hI]; simp [inflight]
      · intro w' hw'
        obtain ⟨w, hw, rfl⟩ := List.mem_map.mp hw'
        exact winv_offer b hI (hws w hw)
  | fanoutAsync => simp [Act.fixed] at hfix
  | deleteRun i => simp [Act.fixed] at hfix
  | subscribe pfx start =>
    simp only [act]
    refine ⟨hsort, hring, ⟨F, hF⟩, ?_⟩
    intro w hw
    rcases List.mem_append.mp hw with h | h
    · exact hws w h
    · simp at h; subst h; exact winv_new hF pfx start
  | readCache i =>
    simp only [act]
    refine ⟨hsort, hring, ⟨F, hF⟩, ?_⟩
    intro w hw
    rcases mem_modify hw with h | ⟨y, hy, rfl⟩
    · exact hws w h
    · exact winv_readCache hcap hsort s.ring hring (hws y hy)
  | decide i =>
    simp only [act]
    refine ⟨hsort, hring, ⟨F, hF⟩, ?_⟩
    intro w hw
    rcases mem_modify hw with h | ⟨y, hy, rfl⟩
    · exact hws w h
    · exact winv_decide hcap hsort s.committed (hws y hy)
  | forward i =>
    simp only [act]
    refine ⟨hsort, hring, ⟨F, hF⟩, ?_⟩
    intro w hw
    rcases mem_modify hw with h | ⟨y, hy, rfl⟩
    · exact hws w h
    · exact winv_forward hsort (hws y hy)
  | consume i =>
    simp only [act]
    refine ⟨hsort, hring, ⟨F, hF⟩, ?_⟩
    intro w hw
    rcases mem_modify hw with h | ⟨y, hy, rfl⟩
    · exact hws w h
    · exact winv_consume (hws y hy)

theorem ginv_run {c : PCfg} (hcap : 0 < c.ringCap) {s : WState} (sched : List Act)
    (hfix : ∀ a ∈ sched, a.fixed = true) (h : GInv c s) : GInv c (run c s sched) := by
  induction sched generalizing s with
  | nil => exact h
  | cons a rest ih =>
    simp only [run, List.foldl_cons]
    exact ih (fun x hx => hfix x (by simp [hx])) (ginv_act hcap a (hfix a (by simp)) h)

theorem ginv_reachable {c : PCfg} (hcap : 0 < c.ringCap) {s : WState} (hr : Reachable c s) : GInv c s := by
  obtain ⟨sched, hfix, rfl⟩ := hr
  exact ginv_run hcap sched hfix (ginv_init c)

/-! ### a closed subscription only drains -/

/-- `w'` is a later state of a watcher `w` whose subscription was closed: nothing was added -/
structure Frozen (w w' : W) : Prop where
  closed : w'.subClosed = true
  missed : w'.missed = w.missed
  sub : w'.sub <:+ w.sub
  live : w.phase.isLive = true → w'.phase.isLive = true ∧ w'.total = w.total ∧ w.delivered <+: w'.delivered

theorem Frozen.refl {w : W} (h : w.subClosed = true) : Frozen w w :=
  ⟨h, rfl, List.suffix_refl _, fun hl => ⟨hl, rfl, List.prefix_refl _⟩⟩

theorem Frozen.trans {a b d : W} (h1 : Frozen a b) (h2 : Frozen b d) : Frozen a d :=
  ⟨h2.closed, h2.missed.trans h1.missed, h2.sub.trans h1.sub, fun hl =>
    have ⟨l1, t1, p1⟩ := h1.live hl
    have ⟨l2, t2, p2⟩ := h2.live l1
    ⟨l2, t2.trans t1, p1.trans p2⟩⟩

theorem frozen_offer (c : PCfg) {w : W} (h : w.subClosed = true) (b : List Event) : Frozen w (w.offer c b) := by
  unfold W.offer; simp only [h, if_true]; exact Frozen.refl h

theorem frozen_consume {w : W} (h : w.subClosed = true) : Frozen w w.consume := by
  unfold W.consume
  by_cases hl : w.phase.isLive = true
  · simp only [hl, Bool.not_true, Bool.false_eq_true, if_false]
    cases ho : w.out with
    | nil => exact Frozen.refl h
    | cons b rest =>
      refine ⟨h, rfl, List.suffix_refl _, fun _ => ⟨hl, ?_, ?_⟩⟩
      · simp [W.total, W.stream, ho]
      · exact List.prefix_append _ _
  · simp only [hl]; exact Frozen.refl h

theorem frozen_forward (c : PCfg) {w : W} (h : w.subClosed = true) : Frozen w (w.forward c) := by
  unfold W.forward
  by_cases hl : w.phase.isLive = true
  · simp only [hl, Bool.not_true, Bool.false_eq_true, if_false]
    by_cases hh : w.hand.isEmpty = true
    · simp only [hh, Bool.not_true, Bool.false_eq_true, if_false]
      have hhand : w.hand = [] := List.isEmpty_iff.mp hh
      cases hsub : w.sub with
      | nil =>
        simp only
        split
        · refine ⟨h, rfl, by simp, fun _ => ⟨hl, ?_, List.prefix_refl _⟩⟩
          simp [W.total, W.stream, hsub]
        · exact Frozen.refl h
      | cons b bs =>
        dsimp only
        refine ⟨h, rfl, by rw [hsub]; exact List.suffix_cons _ _, fun _ => ⟨hl, ?_, List.prefix_refl _⟩⟩
        simp [W.total, W.stream, hhand, hsub]
    · simp only [hh, Bool.not_false, if_true]
      split
      · refine ⟨h, rfl, List.suffix_refl _, fun _ => ⟨hl, ?_, List.prefix_refl _⟩⟩
        simp [W.total, W.stream]
      · exact Frozen.refl h
  · simp only [hl]; exact Frozen.refl h

theorem frozen_readCache (ring : Ring) (n : Nat) {w : W} (h : w.subClosed = true) : Frozen w (w.readCache ring n) := by
  have hnl : ∀ w' : W, w'.subClosed = true → w'.missed = w.missed → w'.sub = w.sub → w.phase.isLive = false →
      Frozen w w' := fun w' a b d e => ⟨a, b, d ▸ List.suffix_refl _, fun hl => by simp [e] at hl⟩
  unfold W.readCache
  split
  · rename_i hph
    split
    · exact hnl _ h rfl rfl (by simp [hph, Phase.isLive])
    · exact hnl _ h rfl rfl (by simp [hph, Phase.isLive])
  · exact Frozen.refl h

theorem frozen_decide (c : PCfg) (committed : Nat) {w : W} (h : w.subClosed = true) : Frozen w (w.decide c committed) := by
  have hnl : ∀ w' : W, w'.subClosed = true → w'.missed = w.missed → w'.sub = w.sub → w.phase.isLive = false →
      Frozen w w' := fun w' a b d e => ⟨a, b, d ▸ List.suffix_refl _, fun hl => by simp [e] at hl⟩
  unfold W.decide
  split
  · rename_i ret hph
    split
    · exact hnl _ rfl rfl rfl (by simp [hph, Phase.isLive])
    · split
      · split
        · exact hnl _ h rfl rfl (by simp [hph, Phase.isLive])
        · exact hnl _ h rfl rfl (by simp [hph, Phase.isLive])
      · exact hnl _ h rfl rfl (by simp [hph, Phase.isLive])
  · exact Frozen.refl h

theorem getElem?_updAt {ws : List W} {i j : Nat} {f : W → W} {w : W} (h : ws[j]? = some w) :
    (updAt ws i f)[j]? = some (if i = j then f w else w) := by
  unfold updAt
  rw [List.getElem?_modify, h]; rfl

/-- one step of the fixed code leaves a closed subscription frozen -/
theorem frozen_act (c : PCfg) {s : WState} {i : Nat} {w : W} (hw : s.ws[i]? = some w) (hc : w.subClosed = true)
    (a : Act) (hfix : a.fixed = true) : ∃ w', (act c s a).ws[i]? = some w' ∧ Frozen w w' := by
  cases a with
  | commit n => exact ⟨w, hw, Frozen.refl hc⟩
  | produce e => simp only [act]; split <;> exact ⟨w, hw, Frozen.refl hc⟩
  | flush => simp only [act]; split <;> exact ⟨w, hw, Frozen.refl hc⟩
  | fanout =>
    simp only [act]
    cases hch : s.chan with
    | nil => exact ⟨w, hw, Frozen.refl hc⟩
    | cons b rest =>
      refine ⟨w.offer c b, ?_, frozen_offer c hc b⟩
      simp only [List.getElem?_map, hw, Option.map_some]
  | fanoutAsync => simp [Act.fixed] at hfix
  | deleteRun j => simp [Act.fixed] at hfix
  | subscribe pfx start =>
    refine ⟨w, ?_, Frozen.refl hc⟩
    simp only [act]
    have hlt : i < s.ws.length := by
      obtain ⟨h, _⟩ := List.getElem?_eq_some_iff.mp hw; exact h
    rw [List.getElem?_append_left hlt, hw]
  | readCache j =>
    simp only [act]
    refine ⟨_, getElem?_updAt hw, ?_⟩
    split
    · exact frozen_readCache _ _ hc
    · exact Frozen.refl hc
  | decide j =>
    simp only [act]
    refine ⟨_, getElem?_updAt hw, ?_⟩
    split
    · exact frozen_decide _ _ hc
    · exact Frozen.refl hc
  | forward j =>
    simp only [act]
    refine ⟨_, getElem?_updAt hw, ?_⟩
    split
    · exact frozen_forward _ hc
    · exact Frozen.refl hc
  | consume j =>
    simp only [act]
    refine ⟨_, getElem?_updAt hw, ?_⟩
    split
    · exact frozen_consume hc
    · exact Frozen.refl hc

theorem frozen_run (c : PCfg) (sched : List Act) (hfix : ∀ a ∈ sched, a.fixed = true) {s : WState} {i : Nat} {w : W}
    (hw : s.ws[i]? = some w) (hc : w.subClosed = true) :
    ∃ w', (run c s sched).ws[i]? = some w' ∧ Frozen w w' := by
  induction sched generalizing s w with
  | nil => exact ⟨w, hw, Frozen.refl hc⟩
  | cons a rest ih =>
    obtain ⟨w1, hw1, hf1⟩ := frozen_act c hw hc a (hfix a (by simp))
    obtain ⟨w2, hw2, hf2⟩ := ih (fun x hx => hfix x (by simp [hx])) hw1 hf1.closed
    exact ⟨w2, by simpa [run] using hw2, hf1.trans hf2⟩

end KB.Watch
