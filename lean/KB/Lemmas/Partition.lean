/- Helper lemmas about partitions and border adjustment, used by C13. -/
import KB.Spec
import KB.Backend
import KB.Lemmas.Coder
import KB.Props.C10
namespace KB
open Generated

/-! ### the worker loop of a plain (non-compacting, non-expiring) scan -/

/-- A non-compacting worker whose expiry is disabled (`timeoutRevision = 0`). -/
def WCfg.Plain (c : WCfg) : Prop := c.compact = false ∧ c.timeout = 0

theorem expireStep_plain {c : WCfg} (hc : c.Plain) (live gone : Bytes) (snap : List Rec) (r : Rec) :
    expireStep c live gone snap r = none := by
  simp [expireStep, expiry, hc.2]

/-- Normal form of one iteration of a plain worker. -/
theorem workerStep_plain {c : WCfg} (hc : c.Plain) (p : Prev) (r : Rec) :
    workerStep c p r =
      if r.rev > c.R then ([], p)
      else (if r.key != p.key then emitPrev p else [], ⟨r.key, r.rev, r.val⟩) := by
  simp [workerStep, hc.1]

theorem emitPrev_init : emitPrev {} = [] := by decide

theorem emitsOf_append (a b : List Act) : emitsOf (a ++ b) = emitsOf a ++ emitsOf b := by
  induction a with
  | nil => rfl
  | cons x xs ih => cases x <;> simp [emitsOf, ih]

/-- Flushing: a plain worker whose pending `prev` cannot be continued by the records to come
behaves like a fresh worker after emitting `prev`. -/
theorem workerLoop_flush {c : WCfg} (hc : c.Plain) (p : Prev) (l : List Rec)
    (h : emitPrev p = [] ∨ ∀ y ∈ l, y.key ≠ p.key) :
    workerLoop c p l = emitPrev p ++ workerLoop c {} l := by
  induction l with
  | nil => simp [workerLoop, emitPrev_init]
  | cons r rs ih =>
    have ih' := ih (h.imp id (fun h y hy => h y (by simp [hy])))
    simp only [workerLoop, workerStep_plain hc]
    by_cases hr : r.rev > c.R
    · simp only [hr, if_true, List.nil_append]; exact ih'
    · simp only [hr, if_false, emitPrev_init, ite_self, List.nil_append]
      rcases h with h | h
      · simp [h]
      · have : (r.key != p.key) = true := by simpa using h r (by simp)
        simp [this]

/-- The plain worker loop distributes over a split of the records at a key boundary. -/
theorem workerLoop_append {c : WCfg} (hc : c.Plain) (p : Prev) (l1 l2 : List Rec)
    (h1 : ∀ x ∈ l1, ∀ y ∈ l2, x.key ≠ y.key)
    (h2 : emitPrev p = [] ∨ ∀ y ∈ l2, y.key ≠ p.key) :
    workerLoop c p (l1 ++ l2) = workerLoop c p l1 ++ workerLoop c {} l2 := by
  induction l1 generalizing p with
  | nil => simpa [workerLoop] using workerLoop_flush hc p l2 h2
  | cons r rs ih =>
    have h1' : ∀ x ∈ rs, ∀ y ∈ l2, x.key ≠ y.key := fun x hx => h1 x (by simp [hx])
    simp only [List.cons_append, workerLoop, workerStep_plain hc]
    by_cases hr : r.rev > c.R
    · simp only [hr, if_true, List.nil_append]; exact ih p h1' h2
    · simp only [hr, if_false, List.append_assoc]
      congr 1
      exact ih _ h1' (.inr (fun y hy => (h1 r (by simp) y hy).symm))

/-- A plain worker only emits. -/
theorem workerLoop_plain_emits {c : WCfg} (hc : c.Plain) (p : Prev) (l : List Rec) :
    ∀ x ∈ workerLoop c p l, ∃ k v r, x = .emit k v r := by
  have hemit : ∀ q : Prev, ∀ x ∈ emitPrev q, ∃ k v r, x = .emit k v r := by
    intro q x hx
    unfold emitPrev at hx
    split at hx
    · simp at hx; exact ⟨_, _, _, hx⟩
    · simp at hx
  induction l generalizing p with
  | nil => simpa [workerLoop] using hemit p
  | cons r rs ih =>
    intro x hx
    simp only [workerLoop, workerStep_plain hc, List.mem_append] at hx
    by_cases hr : r.rev > c.R
    · simp only [hr, if_true, List.not_mem_nil, false_or] at hx; exact ih _ x hx
    · simp only [hr, if_false] at hx
      rcases hx with hx | hx
      · split at hx
        · exact hemit p x hx
        · simp at hx
      · exact ih _ x hx

theorem hasPanic_plain {c : WCfg} (hc : c.Plain) (l : List Rec) : hasPanic (workerActs c l) = false := by
  simp only [hasPanic, workerActs, List.contains_eq_mem, decide_eq_false_iff_not]
  intro h
  obtain ⟨k, v, r, h'⟩ := workerLoop_plain_emits hc {} l _ h
  cases h'

/-- A plain worker is determined by its read revision. -/
theorem workerLoop_plain_cfg {c : WCfg} (hc : c.Plain) (p : Prev) (l : List Rec) :
    workerLoop c p l = workerLoop { R := c.R } p l := by
  have hc' : WCfg.Plain { R := c.R } := ⟨rfl, rfl⟩
  induction l generalizing p with
  | nil => rfl
  | cons r rs ih => simp only [workerLoop, workerStep_plain hc, workerStep_plain hc', ih]

/-- A plain worker never looks at the internal key of a record. -/
theorem workerLoop_plain_ik {c : WCfg} (hc : c.Plain) (p : Prev) (l : List Rec) (g : Rec → Bytes) :
    workerLoop c p (l.map (fun r => { r with ik := g r })) = workerLoop c p l := by
  induction l generalizing p with
  | nil => rfl
  | cons r rs ih => simp only [List.map_cons, workerLoop, workerStep_plain hc, ih]

theorem scanRecs_append (R : Nat) (l1 l2 : List Rec) (h : ∀ x ∈ l1, ∀ y ∈ l2, x.key ≠ y.key) :
    scanRecs R (l1 ++ l2) = scanRecs R l1 ++ scanRecs R l2 := by
  have hc : WCfg.Plain { R := R } := ⟨rfl, rfl⟩
  simp only [scanRecs, workerActs]
  rw [workerLoop_append hc {} l1 l2 h (.inl emitPrev_init), emitsOf_append]

/-! ### border adjustment -/

/-- One step of `adjustBorders` on a non-final partition: the new end `e'` is an index position
whenever it decodes, and the rest is adjusted with `e'` as its first start. -/
theorem adjustBorders_cons {pe : Option Bytes} {s e : Bytes} {rest out : List (Bytes × Bytes)}
    (hne : rest ≠ []) (h : adjustBorders pe ((s, e) :: rest) = some out) :
    ∃ e' tl, out = (pe.getD s, e') :: tl ∧ adjustBorders (some e') rest = some tl ∧
      (∀ k r, decode e' = .ok k r → r = 0) := by
  rw [adjustBorders.eq_3 pe s e rest (fun h => hne h)] at h
  split at h
  · cases h
  · rename_i k r hd
    simp only [Option.map_eq_some_iff] at h
    obtain ⟨tl, htl, rfl⟩ := h
    refine ⟨_, tl, rfl, htl, ?_⟩
    intro k' r' hd'
    by_cases hr : r = 0
    · subst hr
      simp only [bne_self_eq_false, Bool.false_eq_true, if_false] at hd'
      rw [hd] at hd'; cases hd'; rfl
    · have : (r != 0) = true := by simpa using hr
      simp only [this, if_true] at hd'
      rw [decode_encode k 0 (by decide)] at hd'; cases hd'; rfl
  · rename_i hd
    simp only [Option.map_eq_some_iff] at h
    obtain ⟨tl, htl, rfl⟩ := h
    refine ⟨_, tl, rfl, htl, ?_⟩
    intro k' r' hd'
    rw [hd] at hd'; cases hd'

/-- Everything C13 says about `adjustBorders`, for an arbitrary carried `prevEnd`. -/
theorem adjustBorders_spec (pe : Option Bytes) (ps out : List (Bytes × Bytes))
    (h : adjustBorders pe ps = some out) :
    out.length = ps.length ∧
    (∀ i, i + 1 < out.length → (out[i + 1]!).1 = (out[i]!).2) ∧
    (out.head?.map (·.1) = ps.head?.map (fun p => pe.getD p.1)) ∧
    (out.getLast?.map (·.2) = ps.getLast?.map (·.2)) ∧
    (∀ i, i + 1 < out.length → ∀ k r, decode (out[i]!).2 = .ok k r → r = 0) := by
  induction ps generalizing pe out with
  | nil =>
    simp only [adjustBorders, Option.some.injEq] at h
    subst h; simp
  | cons p rest ih =>
    obtain ⟨s, e⟩ := p
    cases rest with
    | nil =>
      simp only [adjustBorders, Option.some.injEq] at h
      subst h; simp
    | cons q rest' =>
      obtain ⟨e', tl, rfl, htl, hidx⟩ := adjustBorders_cons (by simp) h
      obtain ⟨hlen, hcont, hhead, hlast, hpos⟩ := ih (some e') tl htl
      have htl_ne : tl ≠ [] := by
        intro h0; rw [h0] at hlen; simp at hlen
      obtain ⟨t, tl', rfl⟩ := List.exists_cons_of_ne_nil htl_ne
      refine ⟨by simp [hlen], ?_, by simp, ?_, ?_⟩
      · intro i hi
        cases i with
        | zero =>
          simp only [List.head?_cons, Option.map_some, Option.getD_some, Option.some.injEq] at hhead
          simp [hhead]
        | succ j =>
          simp only [List.getElem!_cons_succ]
          exact hcont j (by simpa using hi)
      · rw [List.getLast?_cons_cons, List.getLast?_cons_cons]; exact hlast
      · intro i hi k r hd
        cases i with
        | zero => exact hidx k r (by simpa using hd)
        | succ j =>
          simp only [List.getElem!_cons_succ] at hd
          exact hpos j (by simpa using hi) k r hd

/-! ### the compaction floor of an encoded store -/

/-- The compact record's key is not a well-formed internal key: nine bytes from the end it has
an `'m'`, not the split byte. -/
theorem compactKeyOf_ne_encode (c : Cfg) (k : Bytes) (r : Nat) : compactKeyOf c ≠ encode k r := by
  intro h
  have h' : (c.pfx ++ [47, 99, 111]) ++ [109, 112, 97, 99, 116, 95, 107, 101, 121]
      = (magic ++ k) ++ (splitByte :: be64 r) := by
    simpa [compactKeyOf, encode, compactKeyName] using h
  have := List.append_inj_right' h' (by simp [be64])
  simp [splitByte] at this

theorem Store.get_eq_none_of_not_mem (st : Store) (key : Bytes) (h : ∀ kv ∈ st, kv.1 ≠ key) :
    st.get key = none := by
  induction st with
  | nil => rfl
  | cons kv rest ih =>
    obtain ⟨k, v⟩ := kv
    have hne : cmp key k ≠ .eq := fun he => h (k, v) (by simp) (cmp_eq_iff.mp he).symm
    have ih' := ih (fun kv hkv => h kv (by simp [hkv]))
    simp only [Store.get]
    split
    · rfl
    · rename_i he; exact absurd he hne
    · exact ih'

theorem get_compactKey_encodeStore (c : Cfg) (recs : List Rec) :
    (encodeStore recs).get (compactKeyOf c) = none := by
  apply Store.get_eq_none_of_not_mem
  intro kv hkv
  simp only [encodeStore, List.mem_map] at hkv
  obtain ⟨r, _, rfl⟩ := hkv
  exact fun h => compactKeyOf_ne_encode c _ _ h.symm

theorem belowFloor_encodeStore (c : Cfg) (recs : List Rec) (R : Nat) :
    belowFloor c (encodeStore recs) R = false := by
  simp [belowFloor, floorOf, get_compactKey_encodeStore]

/-! ### engine partitions as a chain of borders -/

/-- The contiguous pieces `[s, c₁), [c₁, c₂), …, [cₙ, e)`. -/
def chain : Bytes → List Bytes → Bytes → List (Bytes × Bytes)
  | s, [], e => [(s, e)]
  | s, c :: cs, e => (s, c) :: chain c cs e

theorem chain_ne_nil (s : Bytes) (cs : List Bytes) (e : Bytes) : chain s cs e ≠ [] := by
  cases cs <;> simp [chain]

theorem chain_head (s : Bytes) (cs : List Bytes) (e : Bytes) :
    ∃ x tl, chain s cs e = (s, x) :: tl := by
  cases cs with
  | nil => exact ⟨e, [], rfl⟩
  | cons c cs => exact ⟨c, chain c cs e, rfl⟩

theorem zip_borders (s : Bytes) (cs : List Bytes) (e : Bytes) :
    (s :: cs ++ [e]).zip ((s :: cs ++ [e]).drop 1) = chain s cs e := by
  induction cs generalizing s with
  | nil => simp [chain]
  | cons c cs ih =>
    have := ih c
    simp only [List.cons_append, List.drop_one, List.tail_cons] at this ⊢
    simp [chain, this]

theorem partitions_eq_chain (splits : List Bytes) (start stop : Bytes) :
    partitions splits start stop =
      chain start (splits.filter (fun b => blt start b && blt b stop)) stop := by
  simp only [partitions]
  exact zip_borders _ _ _

/-- Sorting by start leaves a chain with strictly increasing starts alone. -/
theorem sortParts_chain (s : Bytes) (cs : List Bytes) (e : Bytes)
    (h : (s :: cs).Pairwise (fun x y => cmp x y = .lt)) :
    sortParts (chain s cs e) = chain s cs e := by
  induction cs generalizing s with
  | nil => simp [chain, sortParts, insertPart]
  | cons c cs ih =>
    rw [List.pairwise_cons] at h
    have ih' := ih c h.2
    obtain ⟨x, tl, hx⟩ := chain_head c cs e
    simp only [chain, sortParts, List.foldr_cons] at ih' ⊢
    rw [ih', hx]
    have : blt s c = true := blt_iff.mpr (h.1 c (by simp))
    simp [insertPart, this]

/-- A well-formed internal key (what C13 calls a good border). -/
def IsEnc (b : Bytes) : Prop := ∃ k r, Alphabet k ∧ r < 2 ^ 64 ∧ b = encode k r

/-- The index-record position of the raw key of a border. -/
def idxBorder (b : Bytes) : Bytes :=
  match decode b with
  | .ok k _ => encode k 0
  | _ => b

theorem idxBorder_encode (k : Bytes) (r : Nat) (hr : r < 2 ^ 64) : idxBorder (encode k r) = encode k 0 := by
  simp [idxBorder, decode_encode k r hr]

theorem adjustBorders_cons_enc (pe : Option Bytes) (s c : Bytes) (rest : List (Bytes × Bytes))
    (hne : rest ≠ []) (hc : IsEnc c) :
    adjustBorders pe ((s, c) :: rest) =
      (adjustBorders (some (idxBorder c)) rest).map (fun l => (pe.getD s, idxBorder c) :: l) := by
  obtain ⟨k, r, _, hr, rfl⟩ := hc
  rw [adjustBorders.eq_3 pe s _ rest (fun h => hne h), idxBorder_encode k r hr, decode_encode k r hr]
  by_cases h0 : r = 0
  · subst h0; simp
  · have : (r != 0) = true := by simpa using h0
    simp [this]

/-- Adjustment of a chain whose interior borders are well-formed moves every interior border to
the index position of its raw key. -/
theorem adjustBorders_chain (pe : Option Bytes) (s : Bytes) (cs : List Bytes) (e : Bytes)
    (h : ∀ c ∈ cs, IsEnc c) :
    adjustBorders pe (chain s cs e) = some (chain (pe.getD s) (cs.map idxBorder) e) := by
  induction cs generalizing pe s with
  | nil => simp [chain, adjustBorders]
  | cons c cs ih =>
    simp only [chain, List.map_cons]
    rw [adjustBorders_cons_enc pe s c _ (chain_ne_nil _ _ _) (h c (by simp)),
      ih (some (idxBorder c)) c (fun x hx => h x (by simp [hx]))]
    simp

theorem idxBorder_mono {x y : Bytes} (hx : IsEnc x) (hy : IsEnc y) (h : cmp x y = .lt) :
    ble (idxBorder x) (idxBorder y) = true := by
  obtain ⟨k, r, hk, hr, rfl⟩ := hx
  obtain ⟨k', r', hk', hr', rfl⟩ := hy
  rw [idxBorder_encode k r hr, idxBorder_encode k' r' hr',
    C10.encode_le_iff hk hk' (by decide) (by decide)]
  have := (C10.encode_lt_iff hk hk' hr hr').mp (blt_iff.mpr h)
  rcases this with h | ⟨h, _⟩
  · exact .inl h
  · exact .inr ⟨h, Nat.le_refl _⟩

theorem chain_mem_le (p : Bytes) (cs : List Bytes) (e : Bytes)
    (h : (p :: cs ++ [e]).Pairwise (fun x y => ble x y = true)) :
    ∀ pr ∈ chain p cs e, ble pr.1 pr.2 = true := by
  induction cs generalizing p with
  | nil =>
    intro pr hpr
    simp only [chain, List.mem_singleton] at hpr
    subst hpr
    simpa using h
  | cons c cs ih =>
    intro pr hpr
    rw [List.cons_append, List.pairwise_cons] at h
    simp only [chain, List.mem_cons] at hpr
    rcases hpr with rfl | hpr
    · exact h.1 c (by simp)
    · exact ih c h.2 pr hpr

/-! ### one partition of an encoded store -/

/-- The internal key a decoded record is stored under. -/
def encOf (r : Rec) : Bytes := encode r.key r.rev

/-- The records of a decoded store whose internal keys lie in `[lo, hi)`. -/
def seg (recs : List Rec) (lo hi : Bytes) : List Rec :=
  recs.filter (fun r => ble lo (encOf r) && blt (encOf r) hi)

def GoodRecs (recs : List Rec) : Prop := ∀ r ∈ recs, Alphabet r.key ∧ r.rev < 2 ^ 64

theorem GoodRecs.seg {recs : List Rec} (h : GoodRecs recs) (lo hi : Bytes) : GoodRecs (seg recs lo hi) :=
  fun r hr => h r (List.mem_filter.mp hr).1

theorem iterAsc_encodeStore (recs : List Rec) (s e : Bytes) :
    iterAsc (encodeStore recs) s e = encodeStore (seg recs s e) := by
  simp only [iterAsc, encodeStore, seg, List.filter_map]
  rfl

theorem iterAsc_self (st : Store) (s : Bytes) : iterAsc st s s = [] := by
  simp only [iterAsc, List.filter_eq_nil_iff, Bool.and_eq_true, not_and, Bool.not_eq_true]
  intro kv _ h
  exact not_blt_iff_ble.mpr h

theorem iterate_of_le (q : Quirks) (st : Store) (s e : Bytes) (h : ble s e = true) :
    iterate q st s e 0 = iterAsc st s e := by
  rcases ble_iff_lt_or_eq.mp h with h | h
  · simp [iterate, applyLimit, h]
  · subst h; simp [iterate, applyLimit, iterAsc_self]

theorem decodeRecs_encodeStore {l : List Rec} (h : GoodRecs l) :
    decodeRecs (encodeStore l) = some (l.map (fun r => { r with ik := encOf r })) := by
  induction l with
  | nil => rfl
  | cons r rs ih =>
    have ih' := ih (fun x hx => h x (by simp [hx]))
    simp only [encodeStore, List.map_cons] at ih' ⊢
    simp only [decodeRecs, decode_encode r.key r.rev (h r (by simp)).2, ih', Option.map_some]
    rfl

theorem workerActs_plain_norm {c : WCfg} (hc : c.Plain) (l : List Rec) (g : Rec → Bytes) :
    emitsOf (workerActs c (l.map (fun r => { r with ik := g r }))) = scanRecs c.R l := by
  simp only [workerActs, scanRecs, workerLoop_plain_ik hc, workerLoop_plain_cfg hc {} l]

/-! ### splitting a sorted store at a border -/

theorem filter_split_sorted {α : Type} (lt : α → α → Prop) (p : α → Bool) (l : List α)
    (hs : l.Pairwise lt) (hp : ∀ x y, lt x y → p y = true → p x = true) :
    l.filter p ++ l.filter (fun x => !p x) = l := by
  induction l with
  | nil => rfl
  | cons x xs ih =>
    rw [List.pairwise_cons] at hs
    have ih' := ih hs.2
    by_cases hx : p x = true
    · simp [hx, ih']
    · have hx' : p x = false := by simpa using hx
      have hnone : xs.filter p = [] := by
        rw [List.filter_eq_nil_iff]
        intro y hy hpy
        exact hx (hp x y (hs.1 y hy) hpy)
      rw [hnone] at ih'
      simp only [List.nil_append] at ih'
      simp [hx', hnone, ih']

/-- The encoded store is strictly sorted. -/
def SortedEnc (recs : List Rec) : Prop := recs.Pairwise (fun x y => cmp (encOf x) (encOf y) = .lt)

theorem sortedEnc_of_sortedRecs {recs : List Rec} (hs : SortedRecs recs) (hk : GoodRecs recs) :
    SortedEnc recs := by
  refine List.Pairwise.imp_of_mem ?_ hs
  intro x y hx hy hlt
  have := (C10.encode_lt_iff (hk x hx).1 (hk y hy).1 (hk x hx).2 (hk y hy).2).mpr
    (hlt.imp (fun h => blt_iff.mpr h) id)
  exact blt_iff.mp this

theorem seg_split {recs : List Rec} (hs : SortedEnc recs) (lo mid hi : Bytes)
    (h1 : ble lo mid = true) (h2 : ble mid hi = true) :
    seg recs lo mid ++ seg recs mid hi = seg recs lo hi := by
  have hs' : (seg recs lo hi).Pairwise (fun x y => cmp (encOf x) (encOf y) = .lt) := hs.filter _
  have := filter_split_sorted _ (fun r => blt (encOf r) mid) _ hs'
    (fun x y hxy hy => blt_iff.mpr (cmp_lt_trans hxy (blt_iff.mp hy)))
  rw [← this]
  simp only [seg, List.filter_filter]
  congr 1
  · apply List.filter_congr
    intro r _
    by_cases hm : blt (encOf r) mid = true
    · simp [hm, blt_of_blt_of_ble hm h2]
    · simp [hm]
  · apply List.filter_congr
    intro r _
    by_cases hm : blt (encOf r) mid = true
    · have : ble mid (encOf r) = false := by
        cases hb : ble mid (encOf r) with
        | false => rfl
        | true => rw [not_blt_iff_ble.mpr hb] at hm; cases hm
      simp [hm, this]
    · have hm' : blt (encOf r) mid = false := by simpa using hm
      have hb := not_blt_iff_ble.mp hm'
      simp [hm', hb, ble_trans h1 hb]

/-! ### the merged output of a chain of index-position borders -/

theorem seg_keys_disjoint {recs : List Rec} (hk : GoodRecs recs) (lo hi : Bytes) {k : Bytes}
    (hkA : Alphabet k) :
    ∀ x ∈ seg recs lo (encode k 0), ∀ y ∈ seg recs (encode k 0) hi, x.key ≠ y.key := by
  intro x hx y hy hxy
  simp only [seg, List.mem_filter, Bool.and_eq_true] at hx hy
  obtain ⟨hxm, _, hx2⟩ := hx
  obtain ⟨hym, hy1, _⟩ := hy
  rw [encOf, C10.encode_lt_iff (hk x hxm).1 hkA (hk x hxm).2 (by decide)] at hx2
  rw [encOf, C10.encode_le_iff hkA (hk y hym).1 (by decide) (hk y hym).2] at hy1
  have hx3 : cmp x.key k = .lt := by
    rcases hx2 with h | ⟨_, h⟩
    · exact blt_iff.mp h
    · omega
  rw [hxy] at hx3
  rcases hy1 with h | ⟨h, _⟩
  · have := cmp_lt_trans hx3 (blt_iff.mp h); simp at this
  · rw [h] at hx3; simp at hx3

theorem chain_scan (R : Nat) {recs : List Rec} (hs : SortedEnc recs) (hk : GoodRecs recs)
    (p : Bytes) (cs : List Bytes) (e : Bytes)
    (hidx : ∀ c ∈ cs, ∃ k, Alphabet k ∧ c = encode k 0)
    (hmono : (p :: cs ++ [e]).Pairwise (fun x y => ble x y = true)) :
    ((chain p cs e).map (fun pr => scanRecs R (seg recs pr.1 pr.2))).flatten
      = scanRecs R (seg recs p e) := by
  induction cs generalizing p with
  | nil => simp [chain]
  | cons c cs ih =>
    rw [List.cons_append, List.pairwise_cons] at hmono
    have hpc : ble p c = true := hmono.1 c (by simp)
    have hce : ble c e = true := by
      have := hmono.2
      rw [List.cons_append, List.pairwise_cons] at this
      exact this.1 e (by simp)
    obtain ⟨k, hkA, rfl⟩ := hidx c (by simp)
    simp only [chain, List.map_cons, List.flatten_cons]
    rw [ih (encode k 0) (fun x hx => hidx x (by simp [hx])) hmono.2,
      ← scanRecs_append R _ _ (seg_keys_disjoint hk p e hkA), seg_split hs p _ e hpc hce]

/-! ### assembling `scanParts` -/

/-- The output of the worker of one (forward or empty) partition of an encoded store. -/
theorem partOut (c : Cfg) {recs : List Rec} (hk : GoodRecs recs) (R : Nat) (pr : Bytes × Bytes)
    (hle : ble pr.1 pr.2 = true) :
    (match decodeRecs (iterate c.q (encodeStore recs) pr.1 pr.2 0) with
      | none => none
      | some rs =>
        let acts := workerActs { R := R, supportTTL := c.q.supportTTL } rs
        if hasPanic acts then none else some (emitsOf acts))
      = some (scanRecs R (seg recs pr.1 pr.2)) := by
  have hc : WCfg.Plain { R := R, supportTTL := c.q.supportTTL } := ⟨rfl, rfl⟩
  rw [iterate_of_le _ _ _ _ hle, iterAsc_encodeStore, decodeRecs_encodeStore (hk.seg _ _)]
  simp only [hasPanic_plain hc, Bool.false_eq_true, if_false]
  rw [workerActs_plain_norm hc]

/-- `scanParts` when the floor check passes and every partition's worker succeeds. -/
theorem scanParts_eq (c : Cfg) (st : Store) (start stop : Bytes) (rev : Nat)
    (parts : List (Bytes × Bytes)) (g : Bytes × Bytes → List (Bytes × Bytes × Nat))
    (hf : belowFloor c st rev = false) (hp : scanPartitions c start stop = some parts)
    (hg : ∀ p ∈ parts, (match decodeRecs (iterate c.q st p.1 p.2 0) with
      | none => none
      | some rs =>
        let acts := workerActs { R := rev, supportTTL := c.q.supportTTL } rs
        if hasPanic acts then none else some (emitsOf acts)) = some (g p)) :
    scanParts c st start stop rev = .ok (parts.map g) := by
  have e := List.map_congr_left hg
  unfold scanParts
  simp only [hf, hp, Bool.false_eq_true, if_false]
  generalize hF : List.map _ parts = outs
  have : outs = parts.map (fun p => some (g p)) := hF.symm.trans e
  subst this
  simp [List.any_map, List.filterMap_map, Function.comp_def]

/-- The adjusted partitions of a scan of `[encode a 0, encode b 0)` over well-formed, sorted
engine borders: a chain of index positions, weakly increasing. -/
theorem scanPartitions_good (c : Cfg) (splits : List Bytes)
    (hsorted : splits.Pairwise (fun x y => cmp x y = .lt)) (hgood : ∀ b ∈ splits, IsEnc b)
    (a b : Bytes) (ha : Alphabet a) (hb : Alphabet b) (hab : cmp a b = .lt) :
    ∃ cs, scanPartitions { c with splits := splits } (encode a 0) (encode b 0)
        = some (chain (encode a 0) cs (encode b 0)) ∧
      (∀ x ∈ cs, ∃ k, Alphabet k ∧ x = encode k 0) ∧
      (encode a 0 :: cs ++ [encode b 0]).Pairwise (fun x y => ble x y = true) := by
  let inner := splits.filter (fun x => blt (encode a 0) x && blt x (encode b 0))
  have hinner : ∀ x ∈ inner, IsEnc x ∧ blt (encode a 0) x = true ∧ blt x (encode b 0) = true := by
    intro x hx
    have := List.mem_filter.mp hx
    simp only [Bool.and_eq_true] at this
    exact ⟨hgood x this.1, this.2⟩
  have hstart : IsEnc (encode a 0) := ⟨a, 0, ha, by decide, rfl⟩
  have hstop : IsEnc (encode b 0) := ⟨b, 0, hb, by decide, rfl⟩
  have hlt : cmp (encode a 0) (encode b 0) = .lt := by
    rw [encode_cmp ha hb (by decide) (by decide)]
    have : a ≠ b := by intro h; rw [h] at hab; simp at hab
    simp [this, hab]
  -- the raw borders are strictly increasing
  have hL : (encode a 0 :: inner ++ [encode b 0]).Pairwise (fun x y => cmp x y = .lt) := by
    rw [List.cons_append, List.pairwise_cons, List.pairwise_append]
    refine ⟨?_, hsorted.filter _, by simp, ?_⟩
    · intro y hy
      rcases List.mem_append.mp hy with hy | hy
      · exact blt_iff.mp (hinner y hy).2.1
      · simp only [List.mem_singleton] at hy; subst hy; exact hlt
    · intro x hx y hy
      simp only [List.mem_singleton] at hy; subst hy
      exact blt_iff.mp (hinner x hx).2.2
  have hLgood : ∀ x ∈ encode a 0 :: inner ++ [encode b 0], IsEnc x := by
    intro x hx
    simp only [List.cons_append, List.mem_cons, List.mem_append, List.not_mem_nil, or_false] at hx
    rcases hx with rfl | hx | rfl
    · exact hstart
    · exact (hinner x hx).1
    · exact hstop
  refine ⟨inner.map idxBorder, ?_, ?_, ?_⟩
  · have h1 : (encode a 0 :: inner).Pairwise (fun x y => cmp x y = .lt) := by
      rw [List.pairwise_append] at hL; exact hL.1
    show adjustBorders none (sortParts (partitions splits (encode a 0) (encode b 0))) = _
    rw [partitions_eq_chain, sortParts_chain _ _ _ h1,
      adjustBorders_chain none _ _ _ (fun x hx => (hinner x hx).1)]
    rfl
  · intro x hx
    obtain ⟨y, hy, rfl⟩ := List.mem_map.mp hx
    obtain ⟨k, r, hkA, hr, rfl⟩ := (hinner y hy).1
    exact ⟨k, hkA, idxBorder_encode k r hr⟩
  · have hmap := List.Pairwise.imp_of_mem (S := fun x y => ble (idxBorder x) (idxBorder y) = true)
      (fun {x y} hx hy h => idxBorder_mono (hLgood x hx) (hLgood y hy) h) hL
    have hmap' := (List.pairwise_map (f := idxBorder) (R := fun x y => ble x y = true)).mpr hmap
    simpa [idxBorder_encode] using hmap'

theorem scanParts_encodeStore (c : Cfg) {recs : List Rec} (hs : SortedRecs recs) (hk : GoodRecs recs)
    (splits : List Bytes) (hsorted : splits.Pairwise (fun x y => cmp x y = .lt))
    (hgood : ∀ b ∈ splits, IsEnc b)
    (a b : Bytes) (ha : Alphabet a) (hb : Alphabet b) (hab : cmp a b = .lt) (R : Nat) :
    ∃ outs, scanParts { c with splits := splits } (encodeStore recs) (encode a 0) (encode b 0) R
        = .ok outs ∧
      outs.flatten = scanRecs R (recs.filter (fun r => ble a r.key && blt r.key b)) := by
  obtain ⟨cs, hparts, hidx, hmono⟩ := scanPartitions_good c splits hsorted hgood a b ha hb hab
  have hse := sortedEnc_of_sortedRecs hs hk
  refine ⟨(chain (encode a 0) cs (encode b 0)).map (fun pr => scanRecs R (seg recs pr.1 pr.2)), ?_, ?_⟩
  · exact scanParts_eq _ _ _ _ R _ _ (belowFloor_encodeStore _ recs R) hparts
      (fun pr hpr => partOut c hk R pr (chain_mem_le _ _ _ hmono pr hpr))
  · rw [chain_scan R hse hk _ cs _ hidx hmono]
    congr 1
    apply List.filter_congr
    intro r hr
    have h := C10.range_bounds_exact (r := r.rev) ha hb (hk r hr).1 (hk r hr).2
    simp only [encOf]
    cases h1 : (ble (encode a 0) (encode r.key r.rev) && blt (encode r.key r.rev) (encode b 0)) <;>
      cases h2 : (ble a r.key && blt r.key b) <;> simp_all

end KB
