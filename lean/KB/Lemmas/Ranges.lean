/-
  Helper lemmas for C07Ranges: the compaction ranges computed by `getCompactBorders`
  (model: `KB.compactRanges` / `KB.compactBorders`) are exactly the directory of the prefix minus the
  union of the skipped directories.

  * `bytes.Compare` is a linear order (wrapper type `BK` so that `grind` can do the order reasoning),
  * a directory `p/` is exactly the interval `[p/, PrefixEnd(p/))` — with no hypothesis on the bytes,
    because the last byte of `p/` is `'/' = 47 < 0xff` (`noPrefixEnd` is unreachable for directories),
  * `clipSpan`, `insertSpan`, `subtractSpans` step lemmas.
-/
import KB.Backend
import KB.Lemmas.Coder
namespace KB.Ranges
open KB Generated

/-! ### `bytes.Compare` as a linear order -/

/-- Byte strings ordered by `bytes.Compare` (the core `List Nat` order instances are not used). -/
structure BK where
  b : Bytes

instance : LT BK := ⟨fun x y => blt x.b y.b = true⟩
instance : LE BK := ⟨fun x y => ble x.b y.b = true⟩

theorem ble_refl (a : Bytes) : ble a a = true := by simp [ble]

theorem ble_total (a b : Bytes) : ble a b = true ∨ ble b a = true := by
  rw [ble_iff, ble_iff, cmp_swap a b]; cases cmp a b <;> simp

theorem ble_antisymm {a b : Bytes} (h1 : ble a b = true) (h2 : ble b a = true) : a = b := by
  rw [ble_iff] at h1 h2; rw [cmp_swap a b] at h2
  rw [← cmp_eq_iff]; cases h : cmp a b <;> simp_all

theorem blt_iff_ble_not_ble (a b : Bytes) :
    blt a b = true ↔ (ble a b = true ∧ ¬ ble b a = true) := by
  rw [ble_iff, ble_iff, blt_iff, cmp_swap a b]; cases cmp a b <;> simp

instance : Std.IsLinearOrder BK where
  le_refl a := ble_refl a.b
  le_trans _ _ _ h1 h2 := ble_trans h1 h2
  le_antisymm a b h1 h2 := by cases a; cases b; congr; exact ble_antisymm h1 h2
  le_total a b := ble_total a.b b.b

instance : Std.LawfulOrderLT BK where
  lt_iff a b := blt_iff_ble_not_ble a.b b.b

theorem blt_bk (a b : Bytes) : (blt a b = true) = (BK.mk a < BK.mk b) := rfl
theorem ble_bk (a b : Bytes) : (ble a b = true) = (BK.mk a ≤ BK.mk b) := rfl
theorem bltf_bk (a b : Bytes) : (blt a b = false) = ¬ (BK.mk a < BK.mk b) := by
  show _ = ¬ (blt a b = true); simp
theorem blef_bk (a b : Bytes) : (ble a b = false) = ¬ (BK.mk a ≤ BK.mk b) := by
  show _ = ¬ (ble a b = true); simp

/-- order reasoning on `blt` / `ble` facts -/
macro "border" : tactic =>
  `(tactic| (simp only [blt_bk, ble_bk, bltf_bk, blef_bk] at * <;> grind))

/-! ### a directory is an interval -/

theorem withSlash_snoc (p : Bytes) : ∃ xs, withSlash p = xs ++ [47] := by
  unfold withSlash
  split
  · rename_i h
    have h' : p.getLast? = some 47 := by simpa using h
    obtain ⟨ys, hys⟩ := List.getLast?_eq_some_iff.mp h'
    exact ⟨ys, hys⟩
  · exact ⟨p, rfl⟩

theorem prefixEndAux_snoc47 (xs : Bytes) : prefixEndAux (xs ++ [47]) = some (xs ++ [48]) := by
  induction xs with
  | nil => simp [prefixEndAux]
  | cons x xs ih => simp [prefixEndAux, ih]

/-- `PrefixEnd` of a directory never falls through to `noPrefixEnd`. -/
theorem prefixEnd_snoc47 (xs : Bytes) : prefixEnd (xs ++ [47]) = xs ++ [48] := by
  simp [prefixEnd, prefixEndAux_snoc47]

theorem dir_exact_aux (xs k : Bytes) :
    hasPrefix k (xs ++ [47]) = true ↔ (ble (xs ++ [47]) k = true ∧ blt k (xs ++ [48]) = true) := by
  induction xs generalizing k with
  | nil =>
    cases k with
    | nil => simp [hasPrefix, ble]
    | cons y ys =>
      simp only [List.nil_append, hasPrefix, Bool.and_true, beq_iff_eq, ble, blt, cmp_cons_cons]
      by_cases h1 : y = 47
      · subst h1; cases ys <;> simp
      · by_cases h2 : y < 47
        · have : ¬ 47 < y := by omega
          simp [h1, h2, this]
        · have h3 : 47 < y := by omega
          have h4 : ¬ y < 48 := by omega
          by_cases h5 : 48 < y
          · simp [h1, h3, h4, h5]
          · have : y = 48 := by omega
            subst this
            cases ys <;> simp
  | cons x xs ih =>
    cases k with
    | nil => simp [hasPrefix, ble]
    | cons y ys =>
      have ih' := ih ys
      simp only [List.cons_append, hasPrefix, ble, blt, cmp_cons_cons, Bool.and_eq_true,
        beq_iff_eq] at *
      by_cases h1 : x < y
      · have h3 : ¬ y < x := by omega
        have h4 : y ≠ x := by omega
        simp [h1, h3, h4]
      · by_cases h2 : y < x
        · have h4 : y ≠ x := by omega
          simp [h1, h2, h4]
        · have : y = x := by omega
          subst this
          simp [h1, ih']

/-- The keys under the directory of `p` are exactly the interval `[p/, PrefixEnd(p/))`;
no hypothesis on the bytes of `p` or `k`. -/
theorem dir_exact (p k : Bytes) :
    hasPrefix k (withSlash p) = true ↔
      (ble (withSlash p) k = true ∧ blt k (prefixEnd (withSlash p)) = true) := by
  obtain ⟨xs, h⟩ := withSlash_snoc p
  rw [h, prefixEnd_snoc47]
  exact dir_exact_aux xs k

/-- A directory is a non-empty interval. -/
theorem dir_nonempty (p : Bytes) : blt (withSlash p) (prefixEnd (withSlash p)) = true := by
  obtain ⟨xs, h⟩ := withSlash_snoc p
  rw [h, prefixEnd_snoc47, blt_iff, cmp_append_left]
  decide

/-! ### alphabet of the borders -/

theorem alphabet_withSlash {p : Bytes} (h : Alphabet p) : Alphabet (withSlash p) := by
  unfold withSlash
  split
  · exact h
  · intro b hb
    simp only [List.mem_append, List.mem_singleton] at hb
    rcases hb with hb | rfl
    · exact h b hb
    · decide

theorem alphabet_prefixEnd_withSlash {p : Bytes} (h : Alphabet p) :
    Alphabet (prefixEnd (withSlash p)) := by
  have h' := alphabet_withSlash h
  obtain ⟨xs, hx⟩ := withSlash_snoc p
  rw [hx] at h' ⊢
  rw [prefixEnd_snoc47]
  intro b hb
  simp only [List.mem_append, List.mem_singleton] at hb
  rcases hb with hb | rfl
  · exact h' b (by simp [hb])
  · decide

/-! ### clipSpan -/

theorem clipSpan_eq (lo hi p : Bytes) :
    clipSpan lo hi p =
      if blt (if blt (withSlash p) lo then lo else withSlash p)
             (if blt hi (prefixEnd (withSlash p)) then hi else prefixEnd (withSlash p))
      then some (if blt (withSlash p) lo then lo else withSlash p,
                 if blt hi (prefixEnd (withSlash p)) then hi else prefixEnd (withSlash p))
      else none := rfl

/-- A clipped span lies in `[lo, hi]`, is non-empty and holds exactly the keys of `[lo, hi)` under
the skipped directory. -/
theorem clipSpan_some {lo hi p : Bytes} {x : Bytes × Bytes} (h : clipSpan lo hi p = some x) :
    ble lo x.1 = true ∧ blt x.1 x.2 = true ∧ ble x.2 hi = true ∧
    ∀ k, (ble x.1 k = true ∧ blt k x.2 = true) ↔
      (ble lo k = true ∧ blt k hi = true ∧ hasPrefix k (withSlash p) = true) := by
  rw [clipSpan_eq] at h
  simp only [dir_exact]
  generalize withSlash p = ws at h ⊢
  generalize prefixEnd ws = pe at h ⊢
  generalize hs : (if blt ws lo then lo else ws) = s at h
  generalize he : (if blt hi pe then hi else pe) = e at h
  by_cases hc : blt s e = true
  · rw [if_pos hc] at h
    injection h with h; subst h
    refine ⟨?_, hc, ?_, ?_⟩
    · border
    · border
    · intro k; border
  · rw [if_neg hc] at h; cases h

/-- A directory that clips to nothing holds no key of `[lo, hi)`. -/
theorem clipSpan_none {lo hi p : Bytes} (h : clipSpan lo hi p = none) (k : Bytes) :
    ¬ (ble lo k = true ∧ blt k hi = true ∧ hasPrefix k (withSlash p) = true) := by
  rw [clipSpan_eq] at h
  simp only [dir_exact]
  generalize withSlash p = ws at h ⊢
  generalize prefixEnd ws = pe at h ⊢
  generalize hs : (if blt ws lo then lo else ws) = s at h
  generalize he : (if blt hi pe then hi else pe) = e at h
  by_cases hc : blt s e = true
  · rw [if_pos hc] at h; cases h
  · border

theorem alphabet_clipSpan {lo hi p : Bytes} {x : Bytes × Bytes} (hlo : Alphabet lo) (hhi : Alphabet hi)
    (hp : Alphabet p) (h : clipSpan lo hi p = some x) : Alphabet x.1 ∧ Alphabet x.2 := by
  rw [clipSpan_eq] at h
  have h1 : Alphabet (if blt (withSlash p) lo then lo else withSlash p) := by
    split
    · exact hlo
    · exact alphabet_withSlash hp
  have h2 : Alphabet (if blt hi (prefixEnd (withSlash p)) then hi else prefixEnd (withSlash p)) := by
    split
    · exact hhi
    · exact alphabet_prefixEnd_withSlash hp
  generalize (if blt (withSlash p) lo then lo else withSlash p) = s at h h1
  generalize (if blt hi (prefixEnd (withSlash p)) then hi else prefixEnd (withSlash p)) = e at h h2
  by_cases hc : blt s e = true
  · rw [if_pos hc] at h
    injection h with h; subst h
    exact ⟨h1, h2⟩
  · rw [if_neg hc] at h; cases h

/-! ### insertSpan: insertion sort by start -/

theorem mem_insertSpan {x z : Bytes × Bytes} {l : List (Bytes × Bytes)} :
    z ∈ insertSpan x l ↔ (z = x ∨ z ∈ l) := by
  induction l with
  | nil => simp [insertSpan]
  | cons y ys ih =>
    simp only [insertSpan]
    split
    · simp
    · simp only [List.mem_cons, ih]
      constructor
      · rintro (h | h | h)
        · exact .inr (.inl h)
        · exact .inl h
        · exact .inr (.inr h)
      · rintro (h | h | h)
        · exact .inr (.inl h)
        · exact .inl h
        · exact .inr (.inr h)

/-- sorted by start (non-strictly: duplicate starts are allowed) -/
def SortedByStart (l : List (Bytes × Bytes)) : Prop := l.Pairwise (fun a b => ble a.1 b.1 = true)

theorem sorted_insertSpan {x : Bytes × Bytes} {l : List (Bytes × Bytes)} (h : SortedByStart l) :
    SortedByStart (insertSpan x l) := by
  unfold SortedByStart at *
  induction l with
  | nil => simp [insertSpan]
  | cons y ys ih =>
    rw [List.pairwise_cons] at h
    simp only [insertSpan]
    split
    · rename_i hlt
      rw [List.pairwise_cons]
      refine ⟨?_, List.pairwise_cons.mpr h⟩
      intro z hz
      simp only [List.mem_cons] at hz
      rcases hz with rfl | hz
      · border
      · have := h.1 z hz
        border
    · rename_i hnlt
      rw [List.pairwise_cons]
      refine ⟨?_, ih h.2⟩
      intro z hz
      rw [mem_insertSpan] at hz
      rcases hz with rfl | hz
      · border
      · exact h.1 z hz

theorem mem_sortSpans {z : Bytes × Bytes} {l : List (Bytes × Bytes)} :
    z ∈ l.foldr insertSpan [] ↔ z ∈ l := by
  induction l with
  | nil => simp
  | cons y ys ih => simp [List.foldr_cons, mem_insertSpan, ih]

theorem sorted_sortSpans (l : List (Bytes × Bytes)) : SortedByStart (l.foldr insertSpan []) := by
  induction l with
  | nil => exact List.Pairwise.nil
  | cons y ys ih => exact sorted_insertSpan ih

/-! ### subtractSpans: interval minus a union of sorted spans -/

theorem subtractSpans_nil (cur hi : Bytes) :
    subtractSpans cur hi [] = if blt cur hi then [(cur, hi)] else [] := rfl

theorem subtractSpans_cons (cur hi s e : Bytes) (rest : List (Bytes × Bytes)) :
    subtractSpans cur hi ((s, e) :: rest) =
      (if blt cur s then [(cur, s)] else []) ++
        subtractSpans (if blt cur e then e else cur) hi rest := rfl

/-- every emitted range is non-empty and inside `[cur, hi]` -/
theorem sub_bounds {hi : Bytes} {spans : List (Bytes × Bytes)}
    (hsp : ∀ sp ∈ spans, blt sp.1 sp.2 = true ∧ ble sp.2 hi = true) (cur : Bytes) :
    ∀ r ∈ subtractSpans cur hi spans,
      ble cur r.1 = true ∧ blt r.1 r.2 = true ∧ ble r.2 hi = true := by
  induction spans generalizing cur with
  | nil =>
    intro r hr
    rw [subtractSpans_nil] at hr
    split at hr
    · simp only [List.mem_singleton] at hr; subst hr
      refine ⟨ble_refl _, ?_, ble_refl _⟩; assumption
    · cases hr
  | cons sp rest ih =>
    obtain ⟨s, e⟩ := sp
    intro r hr
    rw [subtractSpans_cons, List.mem_append] at hr
    have hse := hsp (s, e) (by simp)
    have hrest : ∀ sp ∈ rest, blt sp.1 sp.2 = true ∧ ble sp.2 hi = true :=
      fun sp h => hsp sp (by simp [h])
    rcases hr with hr | hr
    · split at hr
      · simp only [List.mem_singleton] at hr; subst hr
        simp only at hse ⊢
        refine ⟨ble_refl _, ?_, ?_⟩
        · assumption
        · border
      · cases hr
    · have := ih hrest _ r hr
      simp only at hse
      refine ⟨?_, this.2.1, this.2.2⟩
      have h1 := this.1
      border

/-- the emitted ranges are ascending: each ends no later than every later one starts -/
theorem sub_pairwise {hi : Bytes} {spans : List (Bytes × Bytes)}
    (hsp : ∀ sp ∈ spans, blt sp.1 sp.2 = true ∧ ble sp.2 hi = true) (cur : Bytes) :
    (subtractSpans cur hi spans).Pairwise (fun a b => ble a.2 b.1 = true) := by
  induction spans generalizing cur with
  | nil =>
    rw [subtractSpans_nil]
    split <;> simp
  | cons sp rest ih =>
    obtain ⟨s, e⟩ := sp
    have hse := hsp (s, e) (by simp)
    have hrest : ∀ sp ∈ rest, blt sp.1 sp.2 = true ∧ ble sp.2 hi = true :=
      fun sp h => hsp sp (by simp [h])
    rw [subtractSpans_cons, List.pairwise_append]
    refine ⟨?_, ih hrest _, ?_⟩
    · split <;> simp
    · intro a ha b hb
      split at ha
      · rename_i hcs
        simp only [List.mem_singleton] at ha; subst ha
        have hb' := (sub_bounds hrest _ b hb).1
        simp only at hse ⊢
        border
      · cases ha

/-- a key lies in an emitted range iff it lies in `[cur, hi)` and in no span -/
theorem sub_mem_iff {hi : Bytes} {spans : List (Bytes × Bytes)} (hs : SortedByStart spans)
    (hsp : ∀ sp ∈ spans, blt sp.1 sp.2 = true ∧ ble sp.2 hi = true) (cur k : Bytes) :
    (∃ r ∈ subtractSpans cur hi spans, ble r.1 k = true ∧ blt k r.2 = true) ↔
      (ble cur k = true ∧ blt k hi = true ∧
        ∀ sp ∈ spans, ¬ (ble sp.1 k = true ∧ blt k sp.2 = true)) := by
  unfold SortedByStart at hs
  induction spans generalizing cur with
  | nil =>
    rw [subtractSpans_nil]
    split
    · simp
    · simp only [List.not_mem_nil, false_and, exists_false, false_iff]
      rintro ⟨h1, h2, _⟩
      border
  | cons sp rest ih =>
    obtain ⟨s, e⟩ := sp
    rw [List.pairwise_cons] at hs
    have hse := hsp (s, e) (by simp)
    have hrest : ∀ sp ∈ rest, blt sp.1 sp.2 = true ∧ ble sp.2 hi = true :=
      fun sp h => hsp sp (by simp [h])
    have ih' := ih hs.2 hrest (if blt cur e then e else cur)
    have hsorted : ∀ sp ∈ rest, ble s sp.1 = true := hs.1
    simp only at hse hsorted
    rw [subtractSpans_cons]
    constructor
    · rintro ⟨r, hr, hk⟩
      rw [List.mem_append] at hr
      rcases hr with hr | hr
      · split at hr
        · rename_i hcs
          simp only [List.mem_singleton] at hr; subst hr
          simp only at hk
          refine ⟨hk.1, ?_, ?_⟩
          · border
          · intro sp hsp'
            simp only [List.mem_cons] at hsp'
            rcases hsp' with rfl | hsp'
            · simp only; border
            · have := hsorted sp hsp'
              border
        · cases hr
      · have := ih'.mp ⟨r, hr, hk⟩
        refine ⟨?_, this.2.1, ?_⟩
        · have h1 := this.1
          border
        · intro sp hsp'
          simp only [List.mem_cons] at hsp'
          rcases hsp' with rfl | hsp'
          · have h1 := this.1
            simp only; border
          · exact this.2.2 sp hsp'
    · rintro ⟨h1, h2, h3⟩
      have hse' := h3 (s, e) (by simp)
      simp only at hse'
      by_cases hks : blt k s = true
      · refine ⟨(cur, s), ?_, h1, hks⟩
        rw [List.mem_append]
        left
        have : blt cur s = true := by border
        simp [this]
      · have hcur' : ble (if blt cur e then e else cur) k = true := by border
        obtain ⟨r, hr, hk⟩ := ih'.mpr ⟨hcur', h2, fun sp h => h3 sp (by simp [h])⟩
        exact ⟨r, List.mem_append.mpr (.inr hr), hk⟩

/-! ### compactRanges -/

/-- the clipped skipped directories, sorted by start -/
def spansOf (c : Cfg) : List (Bytes × Bytes) :=
  (c.skipped.filterMap (clipSpan (withSlash c.pfx) (prefixEnd (withSlash c.pfx)))).foldr insertSpan []

theorem compactRanges_eq (c : Cfg) :
    compactRanges c = subtractSpans (withSlash c.pfx) (prefixEnd (withSlash c.pfx)) (spansOf c) := rfl

theorem mem_spansOf {c : Cfg} {x : Bytes × Bytes} :
    x ∈ spansOf c ↔
      ∃ sp ∈ c.skipped, clipSpan (withSlash c.pfx) (prefixEnd (withSlash c.pfx)) sp = some x := by
  unfold spansOf
  rw [mem_sortSpans, List.mem_filterMap]

theorem spansOf_wf (c : Cfg) :
    ∀ sp ∈ spansOf c, blt sp.1 sp.2 = true ∧ ble sp.2 (prefixEnd (withSlash c.pfx)) = true := by
  intro x hx
  obtain ⟨sp, _, h⟩ := mem_spansOf.mp hx
  have := clipSpan_some h
  exact ⟨this.2.1, this.2.2.1⟩

theorem spansOf_sorted (c : Cfg) : SortedByStart (spansOf c) := sorted_sortSpans _

/-- `spans` is some ordering by start of the clipped skipped directories (`sort.Slice` is not stable:
the Go code may produce any of them) -/
def IsSpanSort (c : Cfg) (spans : List (Bytes × Bytes)) : Prop :=
  SortedByStart spans ∧
  ∀ x, x ∈ spans ↔
    ∃ sp ∈ c.skipped, clipSpan (withSlash c.pfx) (prefixEnd (withSlash c.pfx)) sp = some x

theorem spansOf_isSpanSort (c : Cfg) : IsSpanSort c (spansOf c) :=
  ⟨spansOf_sorted c, fun _ => mem_spansOf⟩

theorem IsSpanSort.wf {c : Cfg} {spans : List (Bytes × Bytes)} (h : IsSpanSort c spans) :
    ∀ sp ∈ spans, blt sp.1 sp.2 = true ∧ ble sp.2 (prefixEnd (withSlash c.pfx)) = true := by
  intro x hx
  obtain ⟨sp, _, hc⟩ := (h.2 x).mp hx
  have := clipSpan_some hc
  exact ⟨this.2.1, this.2.2.1⟩

/-- For any ordering by start of the clipped skipped directories: a raw key lies in some emitted
range iff it is under the directory of the prefix and under no skipped directory. -/
theorem key_in_sub_iff {c : Cfg} {spans : List (Bytes × Bytes)} (hs : IsSpanSort c spans) (k : Bytes) :
    (∃ r ∈ subtractSpans (withSlash c.pfx) (prefixEnd (withSlash c.pfx)) spans,
        ble r.1 k = true ∧ blt k r.2 = true) ↔
      (hasPrefix k (withSlash c.pfx) = true ∧
        ∀ sp ∈ c.skipped, hasPrefix k (withSlash sp) = false) := by
  rw [sub_mem_iff hs.1 hs.wf, dir_exact, ← and_assoc]
  apply and_congr_right
  intro hk
  constructor
  · intro h sp hsp
    cases hc : clipSpan (withSlash c.pfx) (prefixEnd (withSlash c.pfx)) sp with
    | none =>
      have := clipSpan_none hc k
      cases hp : hasPrefix k (withSlash sp) with
      | false => rfl
      | true => exact absurd ⟨hk.1, hk.2, hp⟩ this
    | some x =>
      have hx := h x ((hs.2 x).mpr ⟨sp, hsp, hc⟩)
      have := (clipSpan_some hc).2.2.2 k
      cases hp : hasPrefix k (withSlash sp) with
      | false => rfl
      | true => exact absurd (this.mpr ⟨hk.1, hk.2, hp⟩) hx
  · intro h x hx hin
    obtain ⟨sp, hsp, hc⟩ := (hs.2 x).mp hx
    have := ((clipSpan_some hc).2.2.2 k).mp hin
    rw [h sp hsp] at this
    exact absurd this.2.2 (by simp)

/-- A raw key lies in some compaction range iff it is under the directory of the prefix and under
no skipped directory. -/
theorem key_in_range_iff (c : Cfg) (k : Bytes) :
    (∃ r ∈ compactRanges c, ble r.1 k = true ∧ blt k r.2 = true) ↔
      (hasPrefix k (withSlash c.pfx) = true ∧
        ∀ sp ∈ c.skipped, hasPrefix k (withSlash sp) = false) :=
  key_in_sub_iff (spansOf_isSpanSort c) k

/-- Among ascending ranges a key lies in at most one. -/
theorem unique_of_pairwise {l : List (Bytes × Bytes)} (h : l.Pairwise (fun a b => ble a.2 b.1 = true))
    {k : Bytes} {r r' : Bytes × Bytes} (hr : r ∈ l) (hr' : r' ∈ l)
    (hk : ble r.1 k = true ∧ blt k r.2 = true) (hk' : ble r'.1 k = true ∧ blt k r'.2 = true) :
    r' = r := by
  induction l with
  | nil => cases hr
  | cons a l ih =>
    rw [List.pairwise_cons] at h
    simp only [List.mem_cons] at hr hr'
    rcases hr with rfl | hr
    · rcases hr' with rfl | hr'
      · rfl
      · have := h.1 r' hr'
        exfalso; border
    · rcases hr' with rfl | hr'
      · have := h.1 r hr
        exfalso; border
      · exact ih h.2 hr hr'

/-- Among ascending ranges at most one holds a given key. -/
theorem count_le_one {l : List (Bytes × Bytes)} (h : l.Pairwise (fun a b => ble a.2 b.1 = true))
    (k : Bytes) : (l.filter (fun r => ble r.1 k && blt k r.2)).length ≤ 1 := by
  induction l with
  | nil => simp
  | cons a l ih =>
    rw [List.pairwise_cons] at h
    rw [List.filter_cons]
    split
    · rename_i ha
      have : l.filter (fun r => ble r.1 k && blt k r.2) = [] := by
        rw [List.filter_eq_nil_iff]
        intro b hb hin
        have hab := h.1 b hb
        simp only [Bool.and_eq_true] at ha hin
        border
      simp [this]
    · exact ih h.2

theorem count_pos_of_mem {l : List (Bytes × Bytes)} {r : Bytes × Bytes} {k : Bytes} (hr : r ∈ l)
    (hk : ble r.1 k = true ∧ blt k r.2 = true) :
    0 < (l.filter (fun r => ble r.1 k && blt k r.2)).length := by
  apply List.length_pos_of_mem (a := r)
  rw [List.mem_filter]
  exact ⟨hr, by simp [hk.1, hk.2]⟩

/-! ### borders -/

theorem pairs_flatMap {α β : Type} (f g : α → β) (l : List α) :
    pairs (l.flatMap (fun r => [f r, g r])) = l.map (fun r => (f r, g r)) := by
  induction l with
  | nil => rfl
  | cons a l ih => simp [List.flatMap_cons, pairs, ih]

/-- `doCompact` consumes the borders pairwise: one pair per range. -/
theorem pairs_compactBorders (c : Cfg) :
    pairs (compactBorders c) = (compactRanges c).map (fun r => (encode r.1 0, encode r.2 0)) :=
  pairs_flatMap _ _ _

/-- every border is the encoding of a key over the alphabet when the configuration is -/
theorem ranges_alphabet {c : Cfg} (hp : Alphabet c.pfx) (hs : ∀ sp ∈ c.skipped, Alphabet sp) :
    ∀ r ∈ compactRanges c, Alphabet r.1 ∧ Alphabet r.2 := by
  have hlo := alphabet_withSlash hp
  have hhi := alphabet_prefixEnd_withSlash hp
  have hspans : ∀ x ∈ spansOf c, Alphabet x.1 ∧ Alphabet x.2 := by
    intro x hx
    obtain ⟨sp, hsp, hc⟩ := mem_spansOf.mp hx
    exact alphabet_clipSpan hlo hhi (hs sp hsp) hc
  rw [compactRanges_eq]
  generalize spansOf c = spans at hspans
  generalize prefixEnd (withSlash c.pfx) = hi at hhi
  generalize withSlash c.pfx = cur at hlo
  induction spans generalizing cur with
  | nil =>
    intro r hr
    rw [subtractSpans_nil] at hr
    split at hr
    · simp only [List.mem_singleton] at hr; subst hr; exact ⟨hlo, hhi⟩
    · cases hr
  | cons sp rest ih =>
    obtain ⟨s, e⟩ := sp
    have hse := hspans (s, e) (by simp)
    intro r hr
    rw [subtractSpans_cons, List.mem_append] at hr
    rcases hr with hr | hr
    · split at hr
      · simp only [List.mem_singleton] at hr; subst hr; exact ⟨hlo, hse.1⟩
      · cases hr
    · refine ih (fun x hx => hspans x (by simp [hx])) _ ?_ r hr
      split
      · exact hse.2
      · exact hlo

end KB.Ranges
