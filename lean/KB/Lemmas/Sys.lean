/- Helper lemmas and invariants of the interleaving LTS KB.Sys (used by C01, C02, C04, C09). -/
import KB.Sys
import KB.Lemmas.Coder
namespace KB
end KB
