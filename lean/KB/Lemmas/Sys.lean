/- Helper lemmas and invariants of the interleaving LTS KB.Sys (used by C01, C02, C04, C09). -/
import KB.Sys
import KB.Lemmas.Coder
namespace KB

/-! ### Revisions owned by a client -/

/-- The revision a request has been dealt but not yet reported to the sequencer
(`C04.inflightRev` on the program counter). -/
def Pc.inflight : Pc → Option Nat
  | .createCommit r => some r
  | .createReread r => some r
  | .createRetry r => some r
  | .createOver r _ _ => some r
  | .createRecheck r _ => some r
  | .updateCommit r => some r
  | .deleteCommit r _ _ => some r
  | _ => none

/-- The revision a request has been dealt and will return with: in flight, or already reported
and waiting in `readLatest`. -/
def Pc.held : Pc → Option Nat
  | .readLatest r _ => some r
  | pc => pc.inflight

theorem Pc.held_of_inflight {pc : Pc} {r : Nat} (h : pc.inflight = some r) : pc.held = some r := by
  cases pc <;> simp_all [Pc.held, Pc.inflight]

theorem Pc.held_cases {pc : Pc} {r : Nat} (h : pc.held = some r) :
    pc.inflight = some r ∨ ∃ fb, pc = .readLatest r fb := by
  cases pc <;> simp_all [Pc.held, Pc.inflight]

theorem Pc.inflight_none_of_held {pc : Pc} (h : pc.held = none) : pc.inflight = none := by
  cases pc <;> simp_all [Pc.held, Pc.inflight]

theorem Pc.not_rl_of_inflight {pc : Pc} {r : Nat} (h : pc.inflight = some r) (r' : Nat)
    (fb : Option (Bytes × Bytes × Nat)) : pc ≠ .readLatest r' fb := by
  cases pc <;> simp_all [Pc.inflight]

/-! ### The part of the state the sequencing invariants talk about -/

structure View where
  dealt : Nat
  committed : Nat
  slots : List WEvent
  clients : List Client
  done : List Done
  /-- the revision the retry loop was dealt and has not reported yet -/
  rpc : Option Nat
  /-- slots of the sequencer's ring (`tso.MaxInFlight`), and whether `Deal` is the unguarded one of before 624b477 -/
  ringLen : Nat
  unguarded : Bool

def G.view (g : G) : View :=
  ⟨g.dealt, g.committed, g.slots, g.clients, g.done, g.retryPc.map (·.rev), g.cfg.ringLen, g.cfg.dealUnguarded⟩

def View.setR (v : View) (r : Option Nat) : View := { v with rpc := r }

def View.setC (v : View) (c : Client) : View :=
  { v with clients := v.clients.map (fun x => if x.id == c.id then c else x) }

def View.setPc (v : View) (c : Client) (pc : Pc) : View := v.setC { c with pc := pc }

def View.deal (v : View) : View := { v with dealt := v.dealt + 1 }

def View.push (v : View) (w : WEvent) : View :=
  if w.rev == 0 then v else { v with slots := v.slots ++ [w] }

def View.fin (v : View) (c : Client) (res : WriteRes) (rev : Nat) : View :=
  { v with clients := v.clients.filter (·.id != c.id),
           done := v.done ++ [{ id := c.id, kind := c.kind, res := res, rev := rev,
                                beginDealt := c.beginDealt, endDealt := v.dealt }] }

def View.consume (v : View) (w : WEvent) : View :=
  { v with committed := w.rev, dealt := max v.dealt w.rev,
           slots := v.slots.filter (fun x => x.rev != w.rev) }

/-- a request that holds no revision returns (its `Deal` was refused) -/
def View.drop (v : View) (c : Client) : View := { v with clients := v.clients.filter (·.id != c.id) }

/-- `tso.Deal` hands out `dealt + 1`: the guarded `Deal` only while that revision is inside the ring's window -/
def View.WinOpen (v : View) : Prop := v.unguarded = false → v.dealt + 1 - v.committed < v.ringLen

def View.spawn (v : View) (id : Nat) (kind : ReqKind) : View :=
  { v with clients := v.clients ++ [{ id := id, kind := kind, pc := .start, beginDealt := v.dealt }] }

theorem View.push_of_ne {v : View} {w : WEvent} (h : w.rev ≠ 0) :
    v.push w = { v with slots := v.slots ++ [w] } := by
  simp [View.push, h]

theorem mem_setPc {l : List Client} {c : Client} {pc : Pc} {x : Client} :
    x ∈ l.map (fun y => if y.id == c.id then { c with pc := pc } else y) ↔
      (x = { c with pc := pc } ∧ ∃ y ∈ l, y.id = c.id) ∨ (x ∈ l ∧ x.id ≠ c.id) := by
  simp only [List.mem_map]
  constructor
  · rintro ⟨y, hy, rfl⟩
    by_cases h : y.id = c.id
    · left; simp [h]; exact ⟨y, hy, h⟩
    · right; simp [h, hy]
  · rintro (⟨rfl, y, hy, h⟩ | ⟨hx, h⟩)
    · exact ⟨y, hy, by simp [h]⟩
    · exact ⟨x, hx, by simp [h]⟩

theorem mem_fin {l : List Client} {c x : Client} :
    x ∈ l.filter (·.id != c.id) ↔ x ∈ l ∧ x.id ≠ c.id := by
  simp [List.mem_filter]

/-- Sequencing invariant. -/
structure SInv (v : View) : Prop where
  le : v.committed ≤ v.dealt
  slotR : ∀ w ∈ v.slots, v.committed < w.rev ∧ w.rev ≤ v.dealt
  idU : ∀ c1 ∈ v.clients, ∀ c2 ∈ v.clients, c1.id = c2.id → c1 = c2
  cBegin : ∀ c ∈ v.clients, c.beginDealt ≤ v.dealt
  heldR : ∀ c ∈ v.clients, ∀ r, c.pc.held = some r → c.beginDealt < r ∧ r ≤ v.dealt
  inflR : ∀ c ∈ v.clients, ∀ r, c.pc.inflight = some r → v.committed < r
  heldU : ∀ c1 ∈ v.clients, ∀ c2 ∈ v.clients, ∀ r, c1.pc.held = some r → c2.pc.held = some r → c1 = c2
  slotInfl : ∀ w ∈ v.slots, ∀ c ∈ v.clients, c.pc.inflight ≠ some w.rev
  cover : ∀ r, v.committed < r → r ≤ v.dealt →
    (∃ w ∈ v.slots, w.rev = r) ∨ (∃ c ∈ v.clients, c.pc.inflight = some r) ∨ v.rpc = some r
  rlRes : ∀ c ∈ v.clients, ∀ r fb, c.pc = .readLatest r fb → r ≤ v.committed ∨ ∃ w ∈ v.slots, w.rev = r
  rpcR : ∀ r, v.rpc = some r → v.committed < r ∧ r ≤ v.dealt
  rpcSlot : ∀ w ∈ v.slots, v.rpc ≠ some w.rev
  rpcHeld : ∀ c ∈ v.clients, ∀ r, c.pc.held = some r → v.rpc ≠ some r

theorem SInv.inflD {v : View} (h : SInv v) : ∀ c ∈ v.clients, ∀ r, c.pc.inflight = some r →
    c.beginDealt < r ∧ r ≤ v.dealt :=
  fun c hc r hr => h.heldR c hc r (Pc.held_of_inflight hr)

theorem SInv.inflU {v : View} (h : SInv v) : ∀ c1 ∈ v.clients, ∀ c2 ∈ v.clients, ∀ r,
    c1.pc.inflight = some r → c2.pc.inflight = some r → c1 = c2 :=
  fun c1 h1 c2 h2 r hr1 hr2 => h.heldU c1 h1 c2 h2 r (Pc.held_of_inflight hr1) (Pc.held_of_inflight hr2)

theorem SInv.rpcInfl {v : View} (h : SInv v) : ∀ c ∈ v.clients, ∀ r, c.pc.inflight = some r → v.rpc ≠ some r :=
  fun c hc r hr => h.rpcHeld c hc r (Pc.held_of_inflight hr)

/-- A1: deal the next revision to a client that holds none. -/
theorem SInv.dealTo {v : View} (h : SInv v) {c : Client} (hc : c ∈ v.clients) (hn : c.pc.held = none)
    {pc : Pc} (hp : pc.inflight = some (v.dealt + 1)) : SInv (v.deal.setPc c pc) := by
  have hph := Pc.held_of_inflight hp
  have hni := Pc.inflight_none_of_held hn
  have hrl := Pc.not_rl_of_inflight hp
  have inflD := h.inflD
  have inflU := h.inflU
  have rpcInfl := h.rpcInfl
  obtain ⟨le, slotR, idU, cBegin, heldR, inflR, heldU, slotInfl, cover, rlRes, rpcR, rpcSlot, rpcHeld⟩ := h
  constructor <;> simp only [View.setPc, View.setC, View.deal, mem_setPc] <;> grind

/-- A2: a client moves on keeping what it holds (not into `readLatest`). -/
theorem SInv.move {v : View} (h : SInv v) {c : Client} (hc : c ∈ v.clients)
    {pc : Pc} (hi : pc.inflight = c.pc.inflight) (hh : pc.held = c.pc.held)
    (hrl : ∀ r fb, pc ≠ .readLatest r fb) : SInv (v.setPc c pc) := by
  have inflD := h.inflD
  have inflU := h.inflU
  have rpcInfl := h.rpcInfl
  obtain ⟨le, slotR, idU, cBegin, heldR, inflR, heldU, slotInfl, cover, rlRes, rpcR, rpcSlot, rpcHeld⟩ := h
  constructor <;> simp only [View.setPc, View.setC, mem_setPc] <;> grind

/-- A3: an in-flight client reports its revision and goes on to read the latest value. -/
theorem SInv.report {v : View} (h : SInv v) {c : Client} (hc : c ∈ v.clients) {w : WEvent}
    (hi : c.pc.inflight = some w.rev) (fb : Option (Bytes × Bytes × Nat)) :
    SInv ((v.push w).setPc c (.readLatest w.rev fb)) := by
  have hw : w.rev ≠ 0 := by
    have := h.inflR c hc _ hi
    omega
  have h1 : (Pc.readLatest w.rev fb).held = some w.rev := rfl
  have h2 : (Pc.readLatest w.rev fb).inflight = none := rfl
  have h3 := Pc.held_of_inflight hi
  have inflD := h.inflD
  have inflU := h.inflU
  have rpcInfl := h.rpcInfl
  obtain ⟨le, slotR, idU, cBegin, heldR, inflR, heldU, slotInfl, cover, rlRes, rpcR, rpcSlot, rpcHeld⟩ := h
  rw [View.push_of_ne hw]
  constructor <;> simp only [View.setPc, View.setC, mem_setPc, List.mem_append, List.mem_singleton] <;> grind

/-- A4: a client in `readLatest` returns. -/
theorem SInv.ret {v : View} (h : SInv v) {c : Client} (hc : c ∈ v.clients) {r : Nat}
    {fb : Option (Bytes × Bytes × Nat)} (hp : c.pc = .readLatest r fb) (res : WriteRes) :
    SInv (v.fin c res r) := by
  have h2 : c.pc.inflight = none := by rw [hp]; rfl
  have inflD := h.inflD
  have inflU := h.inflU
  have rpcInfl := h.rpcInfl
  obtain ⟨le, slotR, idU, cBegin, heldR, inflR, heldU, slotInfl, cover, rlRes, rpcR, rpcSlot, rpcHeld⟩ := h
  constructor <;> simp only [View.fin, mem_fin] <;> grind

/-- The sequencer consumes the slot of `committed + 1`. -/
theorem SInv.consume {v : View} (h : SInv v) {w : WEvent} (hw : w ∈ v.slots)
    (hr : w.rev = v.committed + 1) : SInv (v.consume w) := by
  have hm : ∀ x, x ∈ v.slots.filter (fun x => x.rev != w.rev) ↔ x ∈ v.slots ∧ x.rev ≠ w.rev := by
    simp [List.mem_filter]
  have := h.slotR w hw
  have hd : max v.dealt w.rev = v.dealt := by omega
  have inflD := h.inflD
  have inflU := h.inflU
  have rpcInfl := h.rpcInfl
  obtain ⟨le, slotR, idU, cBegin, heldR, inflR, heldU, slotInfl, cover, rlRes, rpcR, rpcSlot, rpcHeld⟩ := h
  constructor <;> simp only [View.consume, hm, hd] <;> grind

/-- The retry loop is dealt the next revision. -/
theorem SInv.rdeal {v : View} (h : SInv v) (hn : v.rpc = none) : SInv (v.deal.setR (some (v.dealt + 1))) := by
  have inflD := h.inflD
  have inflU := h.inflU
  have rpcInfl := h.rpcInfl
  obtain ⟨le, slotR, idU, cBegin, heldR, inflR, heldU, slotInfl, cover, rlRes, rpcR, rpcSlot, rpcHeld⟩ := h
  constructor <;> simp only [View.deal, View.setR] <;> grind

/-- The retry loop reports the revision it holds. -/
theorem SInv.rpush {v : View} (h : SInv v) {w : WEvent} (hr : v.rpc = some w.rev) : SInv ((v.push w).setR none) := by
  have hw : w.rev ≠ 0 := by
    have := h.rpcR _ hr
    omega
  rw [View.push_of_ne hw]
  have inflD := h.inflD
  have inflU := h.inflU
  have rpcInfl := h.rpcInfl
  obtain ⟨le, slotR, idU, cBegin, heldR, inflR, heldU, slotInfl, cover, rlRes, rpcR, rpcSlot, rpcHeld⟩ := h
  constructor <;> simp only [View.setR, List.mem_append, List.mem_singleton] <;> grind

/-- A new request begins under an unused id. -/
theorem SInv.spawn {v : View} (h : SInv v) {id : Nat} (hid : ∀ c ∈ v.clients, c.id ≠ id) (kind : ReqKind) :
    SInv (v.spawn id kind) := by
  have h1 : Pc.start.held = none := rfl
  have h2 : Pc.start.inflight = none := rfl
  have inflD := h.inflD
  have inflU := h.inflU
  have rpcInfl := h.rpcInfl
  obtain ⟨le, slotR, idU, cBegin, heldR, inflR, heldU, slotInfl, cover, rlRes, rpcR, rpcSlot, rpcHeld⟩ := h
  constructor <;> simp only [View.spawn, List.mem_append, List.mem_singleton] <;> grind

/-- A request that holds no revision returns. -/
theorem SInv.drop {v : View} (h : SInv v) {c : Client} (hc : c ∈ v.clients) (hn : c.pc.held = none) :
    SInv (v.drop c) := by
  have hni := Pc.inflight_none_of_held hn
  have inflD := h.inflD
  have inflU := h.inflU
  have rpcInfl := h.rpcInfl
  obtain ⟨le, slotR, idU, cBegin, heldR, inflR, heldU, slotInfl, cover, rlRes, rpcR, rpcSlot, rpcHeld⟩ := h
  constructor <;> simp only [View.drop, mem_fin] <;> grind

/-! ### Finished requests -/

set_option linter.unusedVariables false

/-- Invariant of the ghost log of finished requests (relative to `SInv`). -/
structure DInv (v : View) : Prop where
  dR : ∀ d ∈ v.done, d.beginDealt < d.rev ∧ d.rev ≤ d.endDealt ∧ d.endDealt ≤ v.dealt
  dRes : ∀ d ∈ v.done, d.rev ≤ v.committed ∨ ∃ w ∈ v.slots, w.rev = d.rev
  dNodup : (v.done.map (·.rev)).Nodup
  dHeld : ∀ d ∈ v.done, ∀ c ∈ v.clients, c.pc.held ≠ some d.rev
  dRpc : ∀ d ∈ v.done, v.rpc ≠ some d.rev

theorem nodup_map_snoc {α β : Type} (f : α → β) (l : List α) (d : α) :
    ((l ++ [d]).map f).Nodup ↔ (l.map f).Nodup ∧ ∀ x ∈ l, f x ≠ f d := by
  simp only [List.map_append, List.map_cons, List.map_nil, List.nodup_append, List.mem_map,
    List.mem_singleton, List.nodup_cons, List.not_mem_nil, not_false_eq_true, List.nodup_nil,
    and_self, true_and, ne_eq, forall_exists_index, and_imp, forall_apply_eq_imp_iff₂, forall_eq]

theorem DInv.dealTo {v : View} (hs : SInv v) (h : DInv v) {c : Client} (hc : c ∈ v.clients)
    (hn : c.pc.held = none) {pc : Pc} (hp : pc.inflight = some (v.dealt + 1)) :
    DInv (v.deal.setPc c pc) := by
  have hph := Pc.held_of_inflight hp
  obtain ⟨dR, dRes, dNodup, dHeld, dRpc⟩ := h
  constructor <;> simp only [View.setPc, View.setC, View.deal, mem_setPc] <;> grind

theorem DInv.move {v : View} (hs : SInv v) (h : DInv v) {c : Client} (hc : c ∈ v.clients)
    {pc : Pc} (hi : pc.inflight = c.pc.inflight) (hh : pc.held = c.pc.held)
    (hrl : ∀ r fb, pc ≠ .readLatest r fb) : DInv (v.setPc c pc) := by
  obtain ⟨dR, dRes, dNodup, dHeld, dRpc⟩ := h
  constructor <;> simp only [View.setPc, View.setC, mem_setPc] <;> grind

theorem DInv.report {v : View} (hs : SInv v) (h : DInv v) {c : Client} (hc : c ∈ v.clients) {w : WEvent}
    (hi : c.pc.inflight = some w.rev) (fb : Option (Bytes × Bytes × Nat)) :
    DInv ((v.push w).setPc c (.readLatest w.rev fb)) := by
  have hw : w.rev ≠ 0 := by
    have := hs.inflR c hc _ hi
    omega
  have h1 : (Pc.readLatest w.rev fb).held = some w.rev := rfl
  have h3 := Pc.held_of_inflight hi
  rw [View.push_of_ne hw]
  obtain ⟨dR, dRes, dNodup, dHeld, dRpc⟩ := h
  constructor <;> simp only [View.setPc, View.setC, mem_setPc, List.mem_append, List.mem_singleton] <;> grind

theorem DInv.ret {v : View} (hs : SInv v) (h : DInv v) {c : Client} (hc : c ∈ v.clients) {r : Nat}
    {fb : Option (Bytes × Bytes × Nat)} (hp : c.pc = .readLatest r fb) (res : WriteRes) :
    DInv (v.fin c res r) := by
  have h2 : c.pc.held = some r := by rw [hp]; rfl
  obtain ⟨le, slotR, idU, cBegin, heldR, inflR, heldU, slotInfl, cover, rlRes, rpcR, rpcSlot, rpcHeld⟩ := hs
  obtain ⟨dR, dRes, dNodup, dHeld, dRpc⟩ := h
  constructor <;>
    simp only [View.fin, mem_fin, nodup_map_snoc, List.mem_append, List.mem_singleton] <;> grind

theorem DInv.consume {v : View} (hs : SInv v) (h : DInv v) {w : WEvent} (hw : w ∈ v.slots)
    (hr : w.rev = v.committed + 1) : DInv (v.consume w) := by
  have hm : ∀ x, x ∈ v.slots.filter (fun x => x.rev != w.rev) ↔ x ∈ v.slots ∧ x.rev ≠ w.rev := by
    simp [List.mem_filter]
  have := hs.slotR w hw
  have hd : max v.dealt w.rev = v.dealt := by omega
  obtain ⟨dR, dRes, dNodup, dHeld, dRpc⟩ := h
  constructor <;> simp only [View.consume, hm, hd] <;> grind

theorem DInv.rdeal {v : View} (hs : SInv v) (h : DInv v) (hn : v.rpc = none) :
    DInv (v.deal.setR (some (v.dealt + 1))) := by
  obtain ⟨dR, dRes, dNodup, dHeld, dRpc⟩ := h
  constructor <;> simp only [View.deal, View.setR] <;> grind

theorem DInv.rpush {v : View} (hs : SInv v) (h : DInv v) {w : WEvent} (hr : v.rpc = some w.rev) :
    DInv ((v.push w).setR none) := by
  have hw : w.rev ≠ 0 := by
    have := hs.rpcR _ hr
    omega
  rw [View.push_of_ne hw]
  obtain ⟨dR, dRes, dNodup, dHeld, dRpc⟩ := h
  constructor <;> simp only [View.setR, List.mem_append, List.mem_singleton] <;> grind

theorem DInv.spawn {v : View} (hs : SInv v) (h : DInv v) (id : Nat) (kind : ReqKind) :
    DInv (v.spawn id kind) := by
  have h1 : Pc.start.held = none := rfl
  obtain ⟨dR, dRes, dNodup, dHeld, dRpc⟩ := h
  constructor <;> simp only [View.spawn, List.mem_append, List.mem_singleton] <;> grind

theorem DInv.drop {v : View} (hs : SInv v) (h : DInv v) {c : Client} (hc : c ∈ v.clients) (hn : c.pc.held = none) :
    DInv (v.drop c) := by
  obtain ⟨dR, dRes, dNodup, dHeld, dRpc⟩ := h
  constructor <;> simp only [View.drop, mem_fin] <;> grind

/-! ### Generic preservation: any predicate closed under the atomic moves is preserved by `act` -/

structure Closed (P : View → Prop) : Prop where
  dealTo : ∀ {v : View} {c : Client} {pc : Pc}, P v → v.WinOpen → c ∈ v.clients → c.pc.held = none →
    pc.inflight = some (v.dealt + 1) → P (v.deal.setPc c pc)
  move : ∀ {v : View} {c : Client} {pc : Pc}, P v → c ∈ v.clients → pc.inflight = c.pc.inflight →
    pc.held = c.pc.held → (∀ r fb, pc ≠ .readLatest r fb) → P (v.setPc c pc)
  report : ∀ {v : View} {c : Client} {w : WEvent}, P v → c ∈ v.clients → c.pc.inflight = some w.rev →
    ∀ fb, P ((v.push w).setPc c (.readLatest w.rev fb))
  ret : ∀ {v : View} {c : Client} {r : Nat} {fb : Option (Bytes × Bytes × Nat)}, P v → c ∈ v.clients →
    c.pc = .readLatest r fb → ∀ res, P (v.fin c res r)
  consume : ∀ {v : View} {w : WEvent}, P v → w ∈ v.slots → w.rev = v.committed + 1 → P (v.consume w)
  rdeal : ∀ {v : View}, P v → v.WinOpen → v.rpc = none → P (v.deal.setR (some (v.dealt + 1)))
  rpush : ∀ {v : View} {w : WEvent}, P v → v.rpc = some w.rev → P ((v.push w).setR none)
  spawn : ∀ {v : View} {id : Nat}, P v → (∀ c ∈ v.clients, c.id ≠ id) → ∀ kind, P (v.spawn id kind)
  /-- `Deal` refused: the request returns without a revision -/
  drop : ∀ {v : View} {c : Client}, P v → c ∈ v.clients → c.pc.held = none → P (v.drop c)

theorem SInv.closed : Closed SInv :=
  ⟨fun h _ hc hn hp => h.dealTo hc hn hp, fun h hc hi hh hrl => h.move hc hi hh hrl, fun h hc hi fb => h.report hc hi fb, fun h hc hp res => h.ret hc hp res, fun h hw hr => h.consume hw hr,
   fun h _ hn => h.rdeal hn, fun h hr => h.rpush hr, fun h hid kind => h.spawn hid kind, fun h hc hn => h.drop hc hn⟩

/-- The full invariant: sequencing and the finished-request log. -/
def FInv (v : View) : Prop := SInv v ∧ DInv v

theorem FInv.closed : Closed FInv :=
  ⟨fun h _ hc hn hp => ⟨h.1.dealTo hc hn hp, h.2.dealTo h.1 hc hn hp⟩,
   fun h hc hi hh hrl => ⟨h.1.move hc hi hh hrl, h.2.move h.1 hc hi hh hrl⟩,
   fun h hc hi fb => ⟨h.1.report hc hi fb, h.2.report h.1 hc hi fb⟩,
   fun h hc hp res => ⟨h.1.ret hc hp res, h.2.ret h.1 hc hp res⟩,
   fun h hw hr => ⟨h.1.consume hw hr, h.2.consume h.1 hw hr⟩,
   fun h _ hn => ⟨h.1.rdeal hn, h.2.rdeal h.1 hn⟩,
   fun h hr => ⟨h.1.rpush hr, h.2.rpush h.1 hr⟩,
   fun h hid kind => ⟨h.1.spawn hid kind, h.2.spawn h.1 _ kind⟩,
   fun h hc hn => ⟨h.1.drop hc hn, h.2.drop h.1 hc hn⟩⟩

/-! ### The window of the sequencer's ring (/repo 624b477) -/

/-- With the guarded `Deal`, the dealt revision is never a whole ring ahead of the committed one: every dealt,
unresolved revision `r` (`committed < r ≤ dealt`) has `r - committed < ringLen` — `notify` always finds the ring
not full. -/
def WInv (v : View) : Prop := v.unguarded = false ∧ 0 < v.ringLen ∧ v.dealt < v.committed + v.ringLen

theorem WInv.closed : Closed WInv where
  dealTo := fun {v c pc} h ho _ _ _ => by
    have := ho h.1
    exact ⟨h.1, h.2.1, by show v.dealt + 1 < v.committed + v.ringLen; have := h.2.1; omega⟩
  move := fun h _ _ _ _ => h
  report := fun {v c w} h _ _ _ => by
    show WInv ((v.push w).setPc c _)
    unfold View.push; split <;> exact h
  ret := fun h _ _ _ => h
  consume := fun {v w} h _ hr => by
    refine ⟨h.1, h.2.1, ?_⟩
    show max v.dealt w.rev < w.rev + v.ringLen
    have := h.2.1
    have := h.2.2
    rw [hr]
    omega
  rdeal := fun {v} h ho _ => by
    have := ho h.1
    exact ⟨h.1, h.2.1, by show v.dealt + 1 < v.committed + v.ringLen; have := h.2.1; omega⟩
  rpush := fun {v w} h _ => by
    show WInv ((v.push w).setR none)
    unfold View.push; split <;> exact h
  spawn := fun h _ _ => h
  drop := fun h _ _ => h

/-! View algebra -/

theorem View.push_clients (v : View) (w : WEvent) : (v.push w).clients = v.clients := by
  unfold View.push; split <;> rfl

theorem View.setR_push (v : View) (r : Option Nat) (w : WEvent) : (v.setR r).push w = (v.push w).setR r := by
  unfold View.push; split <;> rfl

theorem View.push_setPc (v : View) (c : Client) (pc : Pc) (w : WEvent) :
    (v.setPc c pc).push w = (v.push w).setPc c pc := by
  unfold View.push; split <;> rfl

theorem filter_setPc (l : List Client) (c : Client) (pc : Pc) :
    (l.map (fun x => if x.id == c.id then { c with pc := pc } else x)).filter (·.id != c.id) =
      l.filter (·.id != c.id) := by
  induction l with
  | nil => rfl
  | cons x xs ih =>
    by_cases h : x.id = c.id <;> simp_all

theorem View.fin_setPc (v : View) (c : Client) (pc pc' : Pc) (res : WriteRes) (r : Nat) :
    (v.setPc c pc).fin { c with pc := pc' } res r = v.fin c res r := by
  simp only [View.fin, View.setPc, View.setC, filter_setPc]

theorem View.setPc_setPc (v : View) (c : Client) (pc pc' : Pc) :
    (v.setPc c pc).setPc { c with pc := pc } pc' = v.setPc c pc' := by
  simp only [View.setPc, View.setC, List.map_map]
  congr 1
  apply List.map_congr_left
  intro x _
  by_cases h : x.id = c.id <;> simp [h]

theorem mem_setPc_self {v : View} {c : Client} (hc : c ∈ v.clients) (pc : Pc) :
    { c with pc := pc } ∈ (v.setPc c pc).clients :=
  mem_setPc.mpr (Or.inl ⟨rfl, c, hc, rfl⟩)

section
variable {P : View → Prop} (H : Closed P)
include H

/-- report and return -/
theorem Closed.reportFin {v : View} {c : Client} {w : WEvent} (hv : P v) (hc : c ∈ v.clients)
    (hi : c.pc.inflight = some w.rev) (res : WriteRes) : P ((v.push w).fin c res w.rev) := by
  have h1 := H.report hv hc hi none
  have hm : { c with pc := .readLatest w.rev none } ∈ ((v.push w).setPc c (.readLatest w.rev none)).clients :=
    mem_setPc_self (by rw [View.push_clients]; exact hc) _
  have h2 := H.ret h1 hm rfl res
  rwa [View.fin_setPc] at h2

/-- deal, report, return -/
theorem Closed.dealFin {v : View} {c : Client} {w : WEvent} (hv : P v) (ho : v.WinOpen) (hc : c ∈ v.clients)
    (hn : c.pc.held = none) (hr : w.rev = v.dealt + 1) (res : WriteRes) :
    P ((v.deal.push w).fin c res (v.dealt + 1)) := by
  have h1 := H.dealTo (pc := .createCommit (v.dealt + 1)) hv ho hc hn rfl
  have h2 := H.reportFin (w := w) h1 (mem_setPc_self hc _) (by rw [hr]; rfl) res
  rwa [View.push_setPc, View.fin_setPc, hr] at h2

/-- deal, report, go on to read the latest value -/
theorem Closed.dealReport {v : View} {c : Client} {w : WEvent} (hv : P v) (ho : v.WinOpen) (hc : c ∈ v.clients)
    (hn : c.pc.held = none) (hr : w.rev = v.dealt + 1) (fb : Option (Bytes × Bytes × Nat)) :
    P ((v.deal.push w).setPc c (.readLatest (v.dealt + 1) fb)) := by
  have h1 := H.dealTo (pc := .createCommit (v.dealt + 1)) hv ho hc hn rfl
  have h2 := H.report (w := w) h1 (mem_setPc_self hc _) (by rw [hr]; rfl) fb
  rwa [View.push_setPc, View.setPc_setPc, hr] at h2

end

/-! ### Matching the steps of `KB.Sys` to the atomic moves -/

theorem view_setClient (g : G) (c : Client) : (g.setClient c).view = g.view.setC c := rfl
theorem view_notify (g : G) (w : WEvent) : (g.notify w).view = g.view.push w := by
  unfold G.notify View.push; split <;> rfl
theorem view_finish (g : G) (c : Client) (res : WriteRes) (rev : Nat) :
    (g.finish c res rev).view = g.view.fin c res rev := rfl
theorem view_ite_log (b : Prop) [Decidable b] (g : G) (k : Bytes) (r : Nat) (v : Option Bytes) (e : Expect) :
    (if b then g.logWrite k r v e else g).view = g.view := by
  split <;> rfl

theorem held_none_of_dealSite {c : Client} (h : dealSite c = true) : c.pc.held = none := by
  obtain ⟨id, kind, pc, bd⟩ := c
  cases pc <;> cases kind <;> simp_all [dealSite, Pc.held, Pc.inflight]

theorem winOpen_of_not_full {g : G} (h : g.windowFull = false) : g.view.WinOpen := by
  intro hu
  have hu' : g.cfg.dealUnguarded = false := hu
  simp only [G.windowFull, windowFullAt, hu', Bool.not_false, Bool.true_and, decide_eq_false_iff_not, Nat.not_le] at h
  exact h

theorem view_refuse (g : G) (c : Client) (res : WriteRes) : (g.refuse c res).view = g.view.drop c := rfl

section
variable {P : View → Prop} (H : Closed P)
include H

theorem finishCreate_P {g : G} {c : Client} {rev : Nat} (hv : P g.view) (hc : c ∈ g.view.clients)
    (hi : c.pc.inflight = some rev) (key val : Bytes) (r : CommitRes) :
    P (finishCreate g c key val rev r).view := by
  obtain ⟨id, kind, pc, bd⟩ := c
  have hw : ∀ a b, (mkW rev 0 a .create key val b).rev = rev := fun _ _ => rfl
  cases r <;> try cases kind
  all_goals simp only [finishCreate, view_finish, view_notify, view_setClient]
  all_goals first
    | exact H.reportFin (w := mkW rev 0 _ .create key val _) hv hc hi _
    | exact H.report (w := mkW rev 0 _ .create key val _) hv hc hi _

theorem createSawIndex_P {g : G} {c : Client} {rev : Nat} (hv : P g.view) (hc : c ∈ g.view.clients)
    (hi : c.pc.inflight = some rev) (hh : c.pc.held = some rev) (key val old : Bytes) (att : Nat) :
    P (createSawIndex g c key val rev old att).view := by
  unfold createSawIndex
  split
  · exact finishCreate_P H hv hc hi key val _
  · split
    · rw [view_setClient]
      exact H.move hv hc (by rw [hi]; rfl) (by rw [hh]; rfl) (by intro _ _ h; cases h)
    · exact finishCreate_P H hv hc hi key val _

theorem stepClientCore_P {g : G} {c : Client} (f : Fault) (hv : P g.view) (hc : c ∈ g.view.clients)
    (ho : dealSite c = true → g.view.WinOpen) : P (stepClientCore g c f).view := by
  obtain ⟨id, kind, pc, bd⟩ := c
  cases pc with
  | start =>
    cases kind with
    | create k v =>
      simp only [stepClientCore, view_setClient]
      exact H.dealTo (pc := .createCommit (g.dealt + 1)) hv (ho rfl) hc rfl rfl
    | update k v e =>
      simp only [stepClientCore]
      split
      · rw [view_setClient]; exact H.dealTo (pc := .createCommit (g.dealt + 1)) hv (ho rfl) hc rfl rfl
      · split
        · rw [view_finish, view_notify]
          exact H.dealFin (w := mkW (g.dealt + 1) e false .put k v) hv (ho rfl) hc rfl rfl _
        · rw [view_setClient]; exact H.dealTo (pc := .updateCommit (g.dealt + 1)) hv (ho rfl) hc rfl rfl
    | delete k e =>
      simp only [stepClientCore]
      split <;> (rw [view_setClient]; exact H.move hv hc rfl rfl (by intro _ _ h; cases h))
  | createCommit rev =>
    cases kind <;> simp only [stepClientCore] <;> split
    all_goals first
      | (split
         · exact createSawIndex_P H (by rw [view_ite_log]; exact hv) (by rw [view_ite_log]; exact hc) rfl rfl _ _ _ _
         · rw [view_setClient, view_ite_log]
           exact H.move (pc := .createReread rev) hv hc rfl rfl (by intro _ _ h; cases h))
      | exact finishCreate_P H (by rw [view_ite_log]; exact hv) (by rw [view_ite_log]; exact hc) rfl _ _ _
  | createReread rev =>
    cases kind <;> simp only [stepClientCore] <;> split
    all_goals first
      | exact createSawIndex_P H hv hc rfl rfl _ _ _ _
      | (rw [view_setClient]; exact H.move (pc := .createRetry rev) hv hc rfl rfl (by intro _ _ h; cases h))
  | createRetry rev =>
    cases kind <;> simp only [stepClientCore] <;>
      exact finishCreate_P H (by rw [view_ite_log]; exact hv) (by rw [view_ite_log]; exact hc) rfl _ _ _
  | createOver rev old att =>
    cases kind <;> simp only [stepClientCore] <;> split
    all_goals first
      | (rw [view_setClient, view_ite_log]
         exact H.move (pc := .createRecheck rev att) hv hc rfl rfl (by intro _ _ h; cases h))
      | exact finishCreate_P H (by rw [view_ite_log]; exact hv) (by rw [view_ite_log]; exact hc) rfl _ _ _
  | createRecheck rev att =>
    cases kind <;> simp only [stepClientCore] <;> split
    all_goals first
      | (split
         · exact finishCreate_P H hv hc rfl _ _ _
         · exact createSawIndex_P H hv hc rfl rfl _ _ _ _)
      | (rw [view_setClient]; exact H.move (pc := .createRetry rev) hv hc rfl rfl (by intro _ _ h; cases h))
  | updateCommit rev =>
    cases kind with
    | update k v e =>
      simp only [stepClientCore]
      split
      · rw [view_finish, view_notify, view_ite_log]
        exact H.reportFin (w := mkW rev e _ .put k v _) hv hc rfl _
      · rw [view_setClient, view_notify, view_ite_log]
        exact H.report (w := mkW rev e _ .put k v _) hv hc rfl _
      · rw [view_finish, view_notify, view_ite_log]
        exact H.reportFin (w := mkW rev e _ .put k v _) hv hc rfl _
    | _ => simp only [stepClientCore]; exact hv
  | deleteDeal o =>
    cases kind with
    | delete k e =>
      cases o with
      | none =>
        simp only [stepClientCore, view_finish, view_notify]
        exact H.dealFin (w := mkW (g.dealt + 1) 0 false .delete k []) hv (ho rfl) hc rfl rfl _
      | some p =>
        obtain ⟨ov, m⟩ := p
        simp only [stepClientCore]
        split
        · rw [view_finish, view_notify]
          exact H.dealFin (w := mkW (g.dealt + 1) m false .delete k ov) hv (ho rfl) hc rfl rfl _
        · split
          · rw [view_setClient, view_notify]
            exact H.dealReport (w := mkW (g.dealt + 1) m false .delete k ov) hv (ho rfl) hc rfl rfl _
          · split
            · rw [view_finish, view_notify]
              exact H.dealFin (w := mkW (g.dealt + 1) m false .delete k ov) hv (ho rfl) hc rfl rfl _
            · rw [view_setClient]
              exact H.dealTo (pc := .deleteCommit (g.dealt + 1) ov m) hv (ho rfl) hc rfl rfl
    | _ => cases o <;> simp only [stepClientCore] <;> exact hv
  | deleteCommit rev ov m =>
    cases kind with
    | delete k e =>
      simp only [stepClientCore]
      split
      · rw [view_finish, view_notify, view_ite_log]
        exact H.reportFin (w := mkW rev m _ .delete k ov _) hv hc rfl _
      · rw [view_setClient, view_notify, view_ite_log]
        exact H.report (w := mkW rev m _ .delete k ov _) hv hc rfl _
      · rw [view_finish, view_notify, view_ite_log]
        exact H.reportFin (w := mkW rev m _ .delete k ov _) hv hc rfl _
    | _ => simp only [stepClientCore]; exact hv
  | readLatest rev fb =>
    cases kind <;> simp only [stepClientCore] <;> split <;> exact H.ret hv hc rfl _

/-- One client step: a step that deals is refused while the window is full, else it runs with `dealt + 1` in the window. -/
theorem stepClient_P {g : G} {c : Client} (f : Fault) (hv : P g.view) (hc : c ∈ g.view.clients) :
    P (stepClient g c f).view := by
  unfold stepClient
  split
  · rename_i h
    simp only [Bool.and_eq_true] at h
    rw [view_refuse]
    exact H.drop hv hc (held_none_of_dealSite h.1)
  · rename_i h
    refine stepClientCore_P H f hv hc (fun hd => winOpen_of_not_full ?_)
    simpa [hd] using h

end
section
variable {P : View → Prop} (H : Closed P)
include H

theorem stepSeq_P {g : G} (hv : P g.view) : P (stepSeq g).view := by
  unfold stepSeq
  split
  · exact hv
  · rename_i w hw
    have h1 := List.mem_of_find?_eq_some hw
    have h2 := List.find?_some hw
    have h3 : w.rev = g.committed + 1 := by simpa using h2
    exact H.consume hv h1 h3

theorem stepRetryRead_P {g : G} (hv : P g.view) : P (stepRetryRead g).view := by
  unfold stepRetryRead
  split
  · exact hv
  · rename_i hn
    split
    · exact hv
    · split
      · exact hv
      · split
        · exact hv
        · split
          · exact hv
          · rename_i hw
            have := H.rdeal hv (winOpen_of_not_full (by simpa using hw)) (by simp [G.view, hn])
            exact this

theorem stepRetryCommit_P {g : G} (f : Fault) (hv : P g.view) : P (stepRetryCommit g f).view := by
  unfold stepRetryCommit
  split
  · exact hv
  · rename_i p hp
    simp only [view_notify, view_ite_log]
    have : ∀ a b, P ((g.view.setR none).push { p.w with rev := p.rev, valid := a, uncertain := b }) := by
      intro a b
      rw [View.setR_push]
      exact H.rpush (v := g.view) (w := { p.w with rev := p.rev, valid := a, uncertain := b }) hv (by simp [G.view, hp])
    exact this _ _

theorem stepRetry_P {g : G} (f : Fault) (hv : P g.view) : P (stepRetry g f).view :=
  stepRetryCommit_P H f (stepRetryRead_P H hv)

theorem act_P {g : G} (a : Action) (hv : P g.view) : P (act g a).view := by
  cases a with
  | «begin» id kind =>
    simp only [act]
    split
    · exact hv
    · rename_i h
      refine H.spawn hv ?_ kind
      intro c hc hid
      apply h
      simp only [G.client, List.find?_isSome]
      exact ⟨c, hc, by simp [hid]⟩
  | step id f =>
    simp only [act]
    split
    · exact hv
    · rename_i c hc
      exact stepClient_P H f hv (List.mem_of_find?_eq_some hc)
  | seq => exact stepSeq_P H hv
  | retry f => exact stepRetry_P H f hv
  | retryRead => exact stepRetryRead_P H hv
  | retryCommit f => exact stepRetryCommit_P H f hv

theorem run_P {g : G} (sched : List Action) (hv : P g.view) : P (run g sched).view := by
  induction sched generalizing g with
  | nil => exact hv
  | cons a as ih => exact ih (act_P H a hv)

/-- Invariance principle for `Reachable`. -/
theorem Reachable.closed {g0 g : G} (hr : Reachable g0 g) (hv : P g0.view) : P g.view := by
  obtain ⟨sched, rfl⟩ := hr
  exact run_P H sched hv

end

theorem SInv.init {g : G} (h1 : g.committed = g.dealt) (h2 : g.slots = []) (h3 : g.clients = [])
    (h4 : g.retryPc = none) : SInv g.view := by
  constructor <;> simp [G.view, h1, h2, h3, h4]

theorem DInv.init {g : G} (h : g.done = []) : DInv g.view := by
  constructor <;> simp [G.view, h]

theorem Reachable.step {g0 g : G} (hr : Reachable g0 g) (a : Action) : Reachable g0 (act g a) := by
  obtain ⟨sched, rfl⟩ := hr
  exact ⟨sched ++ [a], by simp [run, List.foldl_append]⟩

end KB
