/- Helper lemmas for KB.Props.C14: what the three lock calls do, case by case. -/
import KB.Election
namespace KB.Election
open KB

theorem Store.get_put_same (s : Store) (k v : Bytes) : (Store.put s k v).get k = some v := by
  induction s with
  | nil => simp [Store.put, Store.get]
  | cons hd tl ih =>
    obtain ⟨k', v'⟩ := hd
    cases h : cmp k k' with
    | lt => simp [Store.put, Store.get, h]
    | eq => simp [Store.put, Store.get, h]
    | gt => simp [Store.put, Store.get, h, ih]

/-- State after a successful write of `rec` by candidate `i` whose `Cand` becomes `cd`. -/
def written (c : Cfg) (st : State) (i : Nat) (rec : Bytes) (cd : Cand) : State :=
  { store := Store.put st.store c.key rec, clock := st.clock + 1, cands := setCand st.cands i cd }

theorem stored_written (c : Cfg) (st : State) (i : Nat) (rec : Bytes) (cd : Cand) :
    stored c (written c st i rec cd) = some rec := by
  simp [stored, written, Store.get_put_same]

theorem setCand_same (f : Nat → Cand) (i : Nat) (cd : Cand) : setCand f i cd i = cd := by
  simp [setCand]

theorem setCand_other (f : Nat → Cand) {i j : Nat} (cd : Cand) (h : j ≠ i) : setCand f i cd j = f j := by
  simp [setCand, h]

theorem get_cases (c : Cfg) (st : State) (i : Nat) :
    (stored c st = none ∧ get c st i = (.notFound, st)) ∨
    (∃ v, stored c st = some v ∧
      get c st i = (.ok, { st with clock := st.clock + 1,
                                   cands := setCand st.cands i { lastVal := some v, tso := st.clock + 1 } })) := by
  unfold get
  cases h : stored c st with
  | none => exact .inl ⟨rfl, rfl⟩
  | some v => exact .inr ⟨v, rfl, rfl⟩

/-- A one-op `PutIfNotExist` batch. -/
theorem commit_pine (q : Quirks) (s : Store) (k v : Bytes) :
    (Store.get s k = none ∧ commit q s [.pine k v] = .ok (Store.put s k v)) ∨
    (∃ old, Store.get s k = some old ∧
      commit q s [.pine k v] = .error (.conflict (some (0 + q.idxOffset)) (some old))) := by
  cases h : Store.get s k with
  | none => exact .inl ⟨rfl, by simp [commit, applyOps, applyOp, h]⟩
  | some old => exact .inr ⟨old, rfl, by simp [commit, applyOps, applyOp, h]⟩

/-- A one-op `CAS` batch. -/
theorem commit_cas (q : Quirks) (s : Store) (k new old : Bytes) :
    (Store.get s k = some old ∧ commit q s [.cas k new old] = .ok (Store.put s k new)) ∨
    (Store.get s k ≠ some old ∧
      ((∃ idx val, commit q s [.cas k new old] = .error (.conflict idx val)) ∨
       (q.casMissingNotFound = true ∧ Store.get s k = none ∧
         commit q s [.cas k new old] = .error .notFound))) := by
  cases h : Store.get s k with
  | none =>
    right
    refine ⟨by simp, ?_⟩
    by_cases hq : q.casMissingNotFound = true
    · exact .inr ⟨hq, rfl, by simp [commit, applyOps, applyOp, h, hq]⟩
    · exact .inl ⟨some (0 + q.idxOffset), none, by simp [commit, applyOps, applyOp, h, hq]⟩
  | some cur =>
    by_cases he : cur = old
    · subst he
      exact .inl ⟨rfl, by simp [commit, applyOps, applyOp, h]⟩
    · right
      refine ⟨by simpa using he, .inl ⟨some (0 + q.idxOffset),
        some (if q.casConflictValExpected then old else cur), ?_⟩⟩
      simp [commit, applyOps, applyOp, h, he]

theorem create_cases (c : Cfg) (st : State) (i : Nat) (rec : Bytes) :
    (stored c st = none ∧
      create c st i rec = (.ok, written c st i rec { lastVal := some rec, tso := st.clock + 1 })) ∨
    (∃ v, stored c st = some v ∧ create c st i rec = (.condFailed, st)) := by
  unfold create stored
  rcases commit_pine c.q st.store c.key rec with ⟨h, e⟩ | ⟨old, h, e⟩
  · exact .inl ⟨h, by rw [e]; rfl⟩
  · exact .inr ⟨old, h, by rw [e]; rfl⟩

theorem update_cases (c : Cfg) (st : State) (i : Nat) (rec : Bytes) :
    ((st.cands i).tso = 0 ∧ update c st i rec = (.notInitialised, st)) ∨
    ((st.cands i).tso ≠ 0 ∧ stored c st = some (expected (st.cands i)) ∧
      update c st i rec = (.ok, written c st i rec { (st.cands i) with tso := st.clock + 1 })) ∨
    ((st.cands i).tso ≠ 0 ∧ stored c st ≠ some (expected (st.cands i)) ∧
      (update c st i rec = (.condFailed, st) ∨
        (c.q.casMissingNotFound = true ∧ stored c st = none ∧ update c st i rec = (.notFound, st)))) := by
  unfold update stored
  by_cases ht : (st.cands i).tso = 0
  · exact .inl ⟨ht, by simp [ht]⟩
  · right
    simp only [ht, if_false]
    rcases commit_cas c.q st.store c.key rec (expected (st.cands i)) with
      ⟨h, e⟩ | ⟨h, ⟨idx, val, e⟩ | ⟨hq, hn, e⟩⟩
    · exact .inl ⟨ht, h, by rw [e]; rfl⟩
    · exact .inr ⟨ht, h, .inl (by rw [e]; rfl)⟩
    · exact .inr ⟨ht, h, .inr ⟨hq, hn, by rw [e]; rfl⟩⟩

/-- A step that does not answer `ok` leaves the whole state untouched. -/
theorem step_not_ok_state (c : Cfg) (st : State) (s : Step) (h : (step c st s).1 ≠ .ok) :
    (step c st s).2 = st := by
  cases s with
  | get i =>
    rcases get_cases c st i with ⟨_, e⟩ | ⟨v, _, e⟩ <;> simp [step, e] at h ⊢
  | create i rec =>
    rcases create_cases c st i rec with ⟨_, e⟩ | ⟨v, _, e⟩ <;> simp [step, e] at h ⊢
  | update i rec =>
    rcases update_cases c st i rec with ⟨_, e⟩ | ⟨_, _, e⟩ | ⟨_, _, e | ⟨_, _, e⟩⟩ <;>
      simp [step, e] at h ⊢

/-- Members of a trace are genuine steps of the model. -/
theorem trace_mem (c : Cfg) (st : State) (sched : List Step) (e : Entry) (h : e ∈ trace c st sched) :
    e.out = (step c e.pre e.step).1 ∧ e.post = (step c e.pre e.step).2 := by
  induction sched generalizing st with
  | nil => simp [trace] at h
  | cons s rest ih =>
    simp only [trace, List.mem_cons] at h
    rcases h with h | h
    · subst h; exact ⟨rfl, rfl⟩
    · exact ih _ h

theorem trace_append (c : Cfg) (st : State) (a b : List Step) :
    trace c st (a ++ b) = trace c st a ++ trace c (run c st a) b := by
  induction a generalizing st with
  | nil => rfl
  | cons s rest ih => simp [trace, run, ih]

theorem run_append (c : Cfg) (st : State) (a b : List Step) :
    run c st (a ++ b) = run c (run c st a) b := by
  induction a generalizing st with
  | nil => rfl
  | cons s rest ih => simp [run, ih]

/-- Reads, failed calls and successful writes: what any step does to the stored record. -/
theorem step_stored (c : Cfg) (st : State) (s : Step) :
    stored c (step c st s).2 = stored c st ∨
    ((step c st s).1 = .ok ∧ ∃ rec, s.writes = some rec ∧ stored c (step c st s).2 = some rec) := by
  cases s with
  | get i =>
    rcases get_cases c st i with ⟨_, e⟩ | ⟨v, _, e⟩ <;> simp [step, e, stored]
  | create i rec =>
    rcases create_cases c st i rec with ⟨_, e⟩ | ⟨v, _, e⟩
    · exact .inr ⟨by simp [step, e], rec, rfl, by simp [step, e, stored_written]⟩
    · exact .inl (by simp [step, e])
  | update i rec =>
    rcases update_cases c st i rec with ⟨_, e⟩ | ⟨_, _, e⟩ | ⟨_, _, e | ⟨_, _, e⟩⟩
    · exact .inl (by simp [step, e])
    · exact .inr ⟨by simp [step, e], rec, rfl, by simp [step, e, stored_written]⟩
    · exact .inl (by simp [step, e])
    · exact .inl (by simp [step, e])

/-- Once present, the record stays present across a step. -/
theorem step_stored_some (c : Cfg) (st : State) (s : Step) (h : stored c st ≠ none) :
    stored c (step c st s).2 ≠ none := by
  rcases step_stored c st s with e | ⟨_, rec, _, e⟩
  · rw [e]; exact h
  · rw [e]; simp

/-- A candidate's `lastVal` only changes by its own `Get` / `Create`. -/
theorem step_lastVal (c : Cfg) (st : State) (s : Step) (j : Nat) (h : s.rereads j = false) :
    ((step c st s).2.cands j).lastVal = (st.cands j).lastVal := by
  cases s with
  | get i =>
    have hij : j ≠ i := by intro e; subst e; simp [Step.rereads] at h
    rcases get_cases c st i with ⟨_, e⟩ | ⟨v, _, e⟩ <;> simp [step, e, setCand, hij]
  | create i rec =>
    have hij : j ≠ i := by intro e; subst e; simp [Step.rereads] at h
    rcases create_cases c st i rec with ⟨_, e⟩ | ⟨v, _, e⟩ <;> simp [step, e, written, setCand, hij]
  | update i rec =>
    rcases update_cases c st i rec with ⟨_, e⟩ | ⟨_, _, e⟩ | ⟨_, _, e | ⟨_, _, e⟩⟩ <;>
      simp [step, e, written, setCand]
    by_cases hji : j = i
    · subst hji; simp
    · simp [hji]

theorem wf_step (c : Cfg) (st : State) (s : Step) (h : WF st) : WF (step c st s).2 := by
  intro k
  cases s with
  | get i =>
    rcases get_cases c st i with ⟨_, e⟩ | ⟨v, _, e⟩
    · simpa [step, e] using h k
    · by_cases hk : k = i
      · subst hk; simp [step, e, setCand]
      · simpa [step, e, setCand, hk] using h k
  | create i rec =>
    rcases create_cases c st i rec with ⟨_, e⟩ | ⟨v, _, e⟩
    · by_cases hk : k = i
      · subst hk; simp [step, e, written, setCand]
      · simpa [step, e, written, setCand, hk] using h k
    · simpa [step, e] using h k
  | update i rec =>
    rcases update_cases c st i rec with ⟨_, e⟩ | ⟨ht, _, e⟩ | ⟨_, _, e | ⟨_, _, e⟩⟩
    · simpa [step, e] using h k
    · by_cases hk : k = i
      · subst hk
        have := h k ht
        simpa [step, e, written, setCand] using this
      · simpa [step, e, written, setCand, hk] using h k
    · simpa [step, e] using h k
    · simpa [step, e] using h k

theorem wf_run (c : Cfg) (st : State) (sched : List Step) (h : WF st) : WF (run c st sched) := by
  induction sched generalizing st with
  | nil => exact h
  | cons s rest ih => exact ih _ (wf_step c st s h)

theorem wf_trace (c : Cfg) (st : State) (sched : List Step) (h : WF st) (e : Entry)
    (he : e ∈ trace c st sched) : WF e.pre := by
  induction sched generalizing st with
  | nil => simp [trace] at he
  | cons s rest ih =>
    simp only [trace, List.mem_cons] at he
    rcases he with he | he
    · subst he; exact h
    · exact ih _ (wf_step c st s h) he

theorem wf_fresh (s : Store) : WF (State.fresh s) := by
  intro i h; simp [State.fresh] at h

/-- Under `WF` the CAS of an initialised candidate expects exactly its `lastVal`. -/
theorem expected_of_wf {st : State} (h : WF st) {i : Nat} (ht : (st.cands i).tso ≠ 0) :
    some (expected (st.cands i)) = (st.cands i).lastVal := by
  have := h i ht
  unfold expected
  cases hl : (st.cands i).lastVal with
  | none => exact absurd hl this
  | some v => rfl

theorem createOks_cons (e : Entry) (l : List Entry) :
    createOks (e :: l) = (if e.isCreateOk then 1 else 0) + createOks l := by
  unfold createOks
  by_cases h : e.isCreateOk = true <;> simp [h] <;> omega

end KB.Election
