/-
  KB.Lemmas.WatchRing — the literal ring buffer of ring.go (`KB.Watch`, part 1) meets its specification:
  after `Add`ing `evs` to a fresh ring of capacity `cap`, the window is the last `min n cap` events and
  `FindEvents` (both the literal rendering `Ring.findLit` and the abstract `Ring.find`) answers `findSpec`.
-/
import KB.Watch
namespace KB

/-! ## arithmetic helpers -/

theorem mod_ne_of_lt_of_sub_lt {cap i n : Nat} (h1 : i < n) (h2 : n - i < cap) : n % cap ≠ i % cap := by
  intro h
  have h3 := Nat.sub_mod_eq_zero_of_mod_eq h
  rw [Nat.mod_eq_of_lt h2] at h3
  omega

theorem mod_add_small {a k cap : Nat} (ha : a < cap) (hk : k ≤ cap) :
    (a + k) % cap = if a + k < cap then a + k else a + k - cap := by
  split
  · next h => exact Nat.mod_eq_of_lt h
  · next h =>
    rw [Nat.mod_eq_sub_mod (by omega)]
    exact Nat.mod_eq_of_lt (by omega)

/-! ## the representation invariant -/

structure RingInv (cap : Nat) (evs : List Event) (r : Ring) : Prop where
  cap_eq : r.cap = cap
  len : r.arr.length = cap
  e_eq : r.e = evs.length
  s_eq : r.s = evs.length - cap
  cell : ∀ i, evs.length - cap ≤ i → i < evs.length → r.arr[i % cap]? = some evs[i]?

theorem RingInv.new (cap : Nat) : RingInv cap [] (Ring.new cap) := by
  refine ⟨rfl, ?_, rfl, ?_, ?_⟩
  · simp [Ring.new]
  · simp [Ring.new]
  · intro i _ h; simp at h

theorem RingInv.add {cap : Nat} (hcap : 0 < cap) {evs : List Event} {r : Ring} (h : RingInv cap evs r)
    (x : Event) : RingInv cap (evs ++ [x]) (r.add x) := by
  obtain ⟨h1, h2, h3, h4, h5⟩ := h
  refine ⟨h1, ?_, ?_, ?_, ?_⟩
  · simp [Ring.add, h2]
  · simp [Ring.add, h3]
  · simp only [Ring.add, h3, h4, h1, List.length_append, List.length_singleton]
    by_cases hc : evs.length = evs.length - cap + cap
    · have : (evs.length == evs.length - cap + cap) = true := by simpa using hc
      rw [this]; simp; omega
    · have : (evs.length == evs.length - cap + cap) = false := by simpa using hc
      rw [this]; simp; omega
  · intro i hi1 hi2
    simp only [List.length_append, List.length_singleton] at hi1 hi2
    simp only [Ring.add, h3, h1]
    rw [List.getElem?_set]
    by_cases hin : i = evs.length
    · subst hin
      have : evs.length % cap < r.arr.length := by rw [h2]; exact Nat.mod_lt _ hcap
      simp [this]
    · have hlt : i < evs.length := by omega
      have hne : evs.length % cap ≠ i % cap := mod_ne_of_lt_of_sub_lt hlt (by omega)
      rw [if_neg hne, h5 i (by omega) hlt, List.getElem?_append_left hlt]

theorem RingInv.foldl {cap : Nat} (hcap : 0 < cap) (ys : List Event) :
    ∀ (xs : List Event) (r : Ring), RingInv cap xs r → RingInv cap (xs ++ ys) (ys.foldl Ring.add r) := by
  induction ys with
  | nil => intro xs r h; simpa using h
  | cons y ys ih =>
    intro xs r h
    have := ih (xs ++ [y]) (r.add y) (h.add hcap y)
    simpa using this

theorem ringOf_inv (cap : Nat) (hcap : 0 < cap) (evs : List Event) : RingInv cap evs (ringOf cap evs) := by
  have := RingInv.foldl hcap evs [] (Ring.new cap) (RingInv.new cap)
  simpa [ringOf] using this

theorem RingInv.at_eq {cap : Nat} {evs : List Event} {r : Ring} (h : RingInv cap evs r) (i : Nat)
    (h1 : evs.length - cap ≤ i) (h2 : i < evs.length) : r.at i = evs[i]? := by
  simp [Ring.at, List.getD_eq_getElem?_getD, h.cap_eq, h.cell i h1 h2]

/-! ## the window -/

theorem filterMap_range_getElem? {α : Type} (l : List α) :
    (List.range l.length).filterMap (fun i => l[i]?) = l := by
  induction l with
  | nil => rfl
  | cons x xs ih =>
    rw [List.length_cons, List.range_succ_eq_map, List.filterMap_cons]
    simp only [List.getElem?_cons_zero, List.filterMap_map]
    have : ((fun i => (x :: xs)[i]?) ∘ Nat.succ) = fun i => xs[i]? := by
      funext i; simp
    rw [this, ih]

theorem filterMap_congr' {α β : Type} {f g : α → Option β} {l : List α} (h : ∀ a ∈ l, f a = g a) :
    l.filterMap f = l.filterMap g := by
  induction l with
  | nil => rfl
  | cons x xs ih =>
    have hx := h x (by simp)
    have := ih (fun a ha => h a (by simp [ha]))
    simp [List.filterMap_cons, hx, this]

theorem RingInv.window {cap : Nat} {evs : List Event} {r : Ring} (h : RingInv cap evs r) :
    r.window = evs.drop (evs.length - cap) := by
  unfold Ring.window
  rw [h.e_eq, h.s_eq]
  have hlen : evs.length - (evs.length - cap) = (evs.drop (evs.length - cap)).length := by simp
  rw [hlen]
  conv => rhs; rw [← filterMap_range_getElem? (evs.drop (evs.length - cap))]
  apply filterMap_congr'
  intro i hi
  rw [List.mem_range, List.length_drop] at hi
  rw [h.at_eq _ (by omega) (by omega), List.getElem?_drop]

theorem ringOf_window (cap : Nat) (hcap : 0 < cap) (evs : List Event) :
    (ringOf cap evs).window = evs.drop (evs.length - cap) :=
  (ringOf_inv cap hcap evs).window

/-! ## the two-segment copy -/

theorem copy_seg1 {α : Type} (arr : List (Option α)) (cap a cnt : Nat) (hlen : arr.length = cap)
    (h : a + cnt < cap) (k : Nat) :
    (goCopy (List.replicate cnt none) (goSlice arr a (a + cnt)))[k]? =
      if k < cnt then arr[a + k]? else none := by
  simp only [goCopy, goSlice, List.getElem?_append, List.getElem?_take, List.getElem?_drop,
    List.length_take, List.length_drop, List.length_replicate, List.getElem?_replicate, hlen]
  repeat' split
  all_goals first | rfl | omega | skip

theorem copy_seg2 {α : Type} (arr : List (Option α)) (cap a cnt : Nat) (hlen : arr.length = cap)
    (ha : a < cap) (hcnt : cnt ≤ cap) (h : cap ≤ a + cnt) (k : Nat) :
    (let dst := goCopy (List.replicate cnt none) (arr.drop a)
     dst.take (cap - a) ++ goCopy (dst.drop (cap - a)) (arr.take (a + cnt - cap)))[k]? =
      if k < cnt then (if a + k < cap then arr[a + k]? else arr[a + k - cap]?) else none := by
  simp only [goCopy, List.getElem?_append, List.getElem?_take, List.getElem?_drop,
    List.length_take, List.length_drop, List.length_replicate, List.getElem?_replicate, hlen,
    List.length_append]
  repeat' split
  all_goals first | rfl | omega | (congr 1; omega) | skip

theorem RingInv.findCopy {cap : Nat} (hcap : 0 < cap) {evs : List Event} {r : Ring} (h : RingInv cap evs r)
    (idx : Nat) (hidx : evs.length - cap + idx < evs.length) :
    r.findCopy idx = some ((evs.drop (evs.length - cap + idx)).map some) := by
  unfold Ring.findCopy Ring.index
  rw [h.e_eq, h.s_eq, h.cap_eq]
  generalize hj0 : evs.length - cap + idx = j0 at *
  have hcnt : evs.length - (evs.length - cap) - idx = evs.length - j0 := by omega
  rw [hcnt]
  generalize hc : evs.length - j0 = cnt
  have hn : evs.length = j0 + cnt := by omega
  have ha : j0 % cap < cap := Nat.mod_lt _ hcap
  have hb : evs.length % cap = if j0 % cap + cnt < cap then j0 % cap + cnt else j0 % cap + cnt - cap := by
    rw [hn, ← Nat.mod_add_mod]
    exact mod_add_small ha (by omega)
  have hcell : ∀ k, k < cnt → r.arr[(j0 % cap + k) % cap]? = some evs[j0 + k]? := by
    intro k hk
    rw [Nat.mod_add_mod]
    exact h.cell (j0 + k) (by omega) (by omega)
  rw [hb]
  generalize j0 % cap = a at *
  by_cases hlt : a + cnt < cap
  · rw [if_pos hlt, if_pos (by omega : a + cnt > a)]
    congr 1
    apply List.ext_getElem?
    intro k
    rw [copy_seg1 r.arr cap a cnt h.len hlt k]
    simp only [List.getElem?_map, List.getElem?_drop]
    split
    · next hk =>
      have := hcell k hk
      rw [Nat.mod_eq_of_lt (by omega)] at this
      rw [this]
      have : j0 + k < evs.length := by omega
      simp [this]
    · next hk =>
      have : evs.length ≤ j0 + k := by omega
      simp [this]
  · rw [if_neg hlt, if_neg (by omega : ¬ a + cnt - cap > a), if_neg (by omega : ¬ cap - a > cnt)]
    congr 1
    apply List.ext_getElem?
    intro k
    rw [copy_seg2 r.arr cap a cnt h.len ha (by omega) (by omega) k]
    simp only [List.getElem?_map, List.getElem?_drop]
    split
    · next hk =>
      have := hcell k hk
      rw [mod_add_small ha (by omega)] at this
      have hjk : j0 + k < evs.length := by omega
      by_cases hak : a + k < cap
      · rw [if_pos hak] at this ⊢
        rw [this]; simp [hjk]
      · rw [if_neg hak] at this ⊢
        rw [this]; simp [hjk]
    · next hk =>
      have : evs.length ≤ j0 + k := by omega
      simp [this]

/-! ## `sort.Search` over a list -/

theorem firstIdx_shift (f : Nat → Bool) : ∀ n i,
    firstIdx f n (i + 1) = firstIdx (fun j => f (j + 1)) n i + 1 := by
  intro n
  induction n with
  | zero => intro i; rfl
  | succ n ih =>
    intro i
    simp only [firstIdx]
    split
    · rfl
    · exact ih (i + 1)

theorem firstIdx_congr {f g : Nat → Bool} : ∀ n i, (∀ j, i ≤ j → j < i + n → f j = g j) →
    firstIdx f n i = firstIdx g n i := by
  intro n
  induction n with
  | zero => intro i _; rfl
  | succ n ih =>
    intro i h
    simp only [firstIdx]
    rw [h i (Nat.le_refl _) (by omega), ih (i + 1) (fun j h1 h2 => h j (by omega) (by omega))]

theorem firstIdx_le_of {f : Nat → Bool} : ∀ n i j, i ≤ j → j < i + n → f j = true →
    firstIdx f n i ≤ j := by
  intro n
  induction n with
  | zero => intro i j h1 h2; omega
  | succ n ih =>
    intro i j h1 h2 hf
    simp only [firstIdx]
    split
    · exact h1
    · next hfi =>
      have : i ≠ j := by intro hij; subst hij; exact hfi hf
      exact ih (i + 1) j (by omega) (by omega) hf

/-- the predicate `sort.Search` sees when the window is the list `l` -/
def listPred {α : Type} (p : α → Bool) (l : List α) (i : Nat) : Bool :=
  match l[i]? with
  | some e => p e
  | none => true

theorem searchFirst_drop {α : Type} (p : α → Bool) (l : List α) :
    l.drop (searchFirst l.length (listPred p l)) = l.dropWhile (fun e => !p e) := by
  induction l with
  | nil => rfl
  | cons x xs ih =>
    simp only [searchFirst, List.length_cons, firstIdx, List.dropWhile_cons]
    have h0 : listPred p (x :: xs) 0 = p x := by simp [listPred]
    rw [h0]
    cases hp : p x
    · simp only [Bool.false_eq_true, if_false, Bool.not_false, if_true]
      rw [firstIdx_shift]
      have : (fun j => listPred p (x :: xs) (j + 1)) = listPred p xs := by
        funext j; simp [listPred]
      rw [this, List.drop_succ_cons]
      exact ih
    · simp

theorem dropWhile_eq_filter_of_sorted (S : Nat) (l : List Event) (hs : SortedRev l) :
    l.dropWhile (fun e => !decide (S ≤ e.rev)) = l.filter (fun e => decide (S ≤ e.rev)) := by
  induction l with
  | nil => rfl
  | cons x xs ih =>
    have hs' := List.pairwise_cons.1 hs
    rw [List.dropWhile_cons, List.filter_cons]
    by_cases hx : S ≤ x.rev
    · simp only [hx, decide_true, Bool.not_true, Bool.false_eq_true, if_false, if_true]
      congr 1
      symm
      rw [List.filter_eq_self]
      intro a ha
      have := hs'.1 a ha
      simp; omega
    · simp only [hx, decide_false, Bool.not_false, Bool.false_eq_true, if_false, if_true]
      exact ih hs'.2

theorem dropWhile_lt_eq_filter_of_sorted (S : Nat) (l : List Event) (hs : SortedRev l) :
    l.dropWhile (fun e => decide (e.rev < S)) = l.filter (fun e => decide (S ≤ e.rev)) := by
  rw [← dropWhile_eq_filter_of_sorted S l hs]
  congr 1
  funext e
  by_cases h : S ≤ e.rev
  · have : ¬ e.rev < S := by omega
    simp [h, this]
  · have : e.rev < S := by omega
    simp [h, this]

theorem allSome_map_some {α : Type} (l : List α) : allSome (l.map some) = some l := by
  induction l with
  | nil => rfl
  | cons x xs ih => simp [allSome, ih]

theorem SortedRev.drop {l : List Event} (hs : SortedRev l) (k : Nat) : SortedRev (l.drop k) :=
  List.Pairwise.sublist (List.drop_sublist k l) hs

/-! ## `FindEvents` -/

theorem RingInv.findLit_events {cap : Nat} (hcap : 0 < cap) {evs : List Event} {r : Ring}
    (h : RingInv cap evs r) (hs : SortedRev evs) (S : Nat) (newest : Event)
    (hnew : evs.getLast? = some newest) (hS : S ≤ newest.rev) :
    (r.findCopy (searchFirst (r.e - r.s) (r.searchPred S))).bind allSome =
      some ((evs.drop (evs.length - cap)).filter (fun e => decide (S ≤ e.rev))) := by
  have hpos : 0 < evs.length := by
    cases evs with
    | nil => simp at hnew
    | cons x xs => simp
  generalize hwin : evs.drop (evs.length - cap) = win
  have hwl : win.length = evs.length - (evs.length - cap) := by rw [← hwin]; simp
  have hidx_eq : searchFirst (r.e - r.s) (r.searchPred S) =
      searchFirst win.length (listPred (fun e => decide (S ≤ e.rev)) win) := by
    rw [h.e_eq, h.s_eq, ← hwl]
    unfold searchFirst
    apply firstIdx_congr
    intro j _ hj
    simp only [Ring.searchPred, listPred]
    rw [h.s_eq, h.at_eq _ (by omega) (by omega), ← hwin, List.getElem?_drop]
    generalize evs[evs.length - cap + j]? = o
    cases o <;> rfl
  have hlast : win[win.length - 1]? = some newest := by
    rw [← List.getLast?_eq_getElem?, ← hwin, List.getLast?_drop, if_neg (by omega), hnew]
  have hlt : searchFirst win.length (listPred (fun e => decide (S ≤ e.rev)) win) < win.length := by
    have : searchFirst win.length (listPred (fun e => decide (S ≤ e.rev)) win) ≤ win.length - 1 := by
      apply firstIdx_le_of _ 0 (win.length - 1) (Nat.zero_le _) (by omega)
      simp [listPred, hlast, hS]
    omega
  rw [hidx_eq, h.findCopy hcap _ (by omega)]
  simp only [Option.bind_some, allSome_map_some]
  congr 1
  rw [← List.drop_drop, hwin, searchFirst_drop]
  exact dropWhile_eq_filter_of_sorted S win (by rw [← hwin]; exact hs.drop _)

theorem RingInv.ends {cap : Nat} (hcap : 0 < cap) {evs : List Event} {r : Ring}
    (h : RingInv cap evs r) (hpos : 0 < evs.length) :
    ∃ newest oldest, r.at (r.e - 1) = some newest ∧ r.at r.s = some oldest ∧
      evs.getLast? = some newest ∧ (evs.drop (evs.length - cap)).head? = some oldest ∧
      (evs.drop (evs.length - cap)).getLast? = some newest := by
  have h1 : evs.length - 1 < evs.length := by omega
  have h2 : evs.length - cap < evs.length := by omega
  refine ⟨evs[evs.length - 1], evs[evs.length - cap], ?_, ?_, ?_, ?_, ?_⟩
  · rw [h.e_eq, h.at_eq _ (by omega) h1]; exact List.getElem?_eq_getElem h1
  · rw [h.s_eq, h.at_eq _ (Nat.le_refl _) h2]; exact List.getElem?_eq_getElem h2
  · rw [List.getLast?_eq_getElem?]; exact List.getElem?_eq_getElem h1
  · rw [List.head?_drop]; exact List.getElem?_eq_getElem h2
  · rw [List.getLast?_drop, if_neg (by omega), List.getLast?_eq_getElem?]
    exact List.getElem?_eq_getElem h1

theorem RingInv.findLit {cap : Nat} (hcap : 0 < cap) {evs : List Event} {r : Ring}
    (h : RingInv cap evs r) (hs : SortedRev evs) (S : Nat) : r.findLit S = findSpec cap evs S := by
  by_cases hpos : 0 < evs.length
  · obtain ⟨newest, oldest, h1, h2, h3, h4, h5⟩ := h.ends hcap hpos
    have he : (r.e == 0) = false := by rw [h.e_eq]; exact beq_false_of_ne (by omega)
    unfold Ring.findLit findSpec
    simp only [he, h1, h2, h4, h5, Bool.false_eq_true, if_false]
    by_cases hhi : S > newest.rev
    · simp [hhi]
    · by_cases hlo : S < oldest.rev
      · simp [hhi, hlo]
      · simp only [hhi, hlo, if_false]
        rw [h.findLit_events hcap hs S newest h3 (by omega)]
  · have : evs = [] := by
      cases evs with
      | nil => rfl
      | cons x xs => simp at hpos
    subst this
    have he : (r.e == 0) = true := by rw [h.e_eq]; simp
    simp [Ring.findLit, findSpec, he]

theorem RingInv.find {cap : Nat} (hcap : 0 < cap) {evs : List Event} {r : Ring}
    (h : RingInv cap evs r) (hs : SortedRev evs) (S : Nat) : r.find S = findSpec cap evs S := by
  by_cases hpos : 0 < evs.length
  · obtain ⟨newest, oldest, h1, h2, h3, h4, h5⟩ := h.ends hcap hpos
    have he : (r.e == 0) = false := by rw [h.e_eq]; exact beq_false_of_ne (by omega)
    unfold Ring.find findSpec
    simp only [he, h1, h2, h4, h5, Bool.false_eq_true, if_false]
    by_cases hhi : S > newest.rev
    · simp [hhi]
    · by_cases hlo : S < oldest.rev
      · simp [hhi, hlo]
      · simp only [hhi, hlo, if_false]
        rw [h.window, dropWhile_lt_eq_filter_of_sorted S _ (hs.drop _)]
  · have : evs = [] := by
      cases evs with
      | nil => rfl
      | cons x xs => simp at hpos
    subst this
    have he : (r.e == 0) = true := by rw [h.e_eq]; simp
    simp [Ring.find, findSpec, he]

theorem ringOf_findLit (cap : Nat) (hcap : 0 < cap) (evs : List Event) (hs : SortedRev evs) (S : Nat) :
    (ringOf cap evs).findLit S = findSpec cap evs S :=
  (ringOf_inv cap hcap evs).findLit hcap hs S

theorem ringOf_find (cap : Nat) (hcap : 0 < cap) (evs : List Event) (hs : SortedRev evs) (S : Nat) :
    (ringOf cap evs).find S = findSpec cap evs S :=
  (ringOf_inv cap hcap evs).find hcap hs S

/-! ## the literal binary search meets the contract of `sort.Search` -/

theorem firstIdx_spec (f : Nat → Bool) : ∀ n i,
    i ≤ firstIdx f n i ∧ firstIdx f n i ≤ i + n ∧
      (∀ k, i ≤ k → k < firstIdx f n i → f k = false) ∧
      (firstIdx f n i < i + n → f (firstIdx f n i) = true) := by
  intro n
  induction n with
  | zero =>
    intro i
    refine ⟨Nat.le_refl _, Nat.le_refl _, ?_, ?_⟩
    · intro k h1 h2; simp only [firstIdx] at h2; omega
    · intro h; simp only [firstIdx] at h; omega
  | succ n ih =>
    intro i
    simp only [firstIdx]
    split
    · next hf =>
      refine ⟨Nat.le_refl _, by omega, ?_, fun _ => hf⟩
      intro k h1 h2; omega
    · next hf =>
      obtain ⟨h1, h2, h3, h4⟩ := ih (i + 1)
      refine ⟨by omega, by omega, ?_, ?_⟩
      · intro k hk1 hk2
        by_cases hki : k = i
        · subst hki; simpa using hf
        · exact h3 k (by omega) hk2
      · intro h; exact h4 (by omega)

theorem goSearchLoop_spec (n : Nat) (f : Nat → Bool)
    (mono : ∀ i j, i ≤ j → j < n → f i = true → f j = true) : ∀ fuel i j,
    j - i ≤ fuel → i ≤ j → j ≤ n → (∀ k, k < i → f k = false) → (j < n → f j = true) →
      goSearchLoop f fuel i j ≤ n ∧ (∀ k, k < goSearchLoop f fuel i j → f k = false) ∧
        (goSearchLoop f fuel i j < n → f (goSearchLoop f fuel i j) = true) := by
  intro fuel
  induction fuel with
  | zero =>
    intro i j h1 h2 h3 h4 h5
    have : i = j := by omega
    subst this
    simp only [goSearchLoop]
    exact ⟨h3, h4, h5⟩
  | succ fuel ih =>
    intro i j h1 h2 h3 h4 h5
    simp only [goSearchLoop]
    by_cases hij : i < j
    · rw [if_pos hij]
      have hh1 : i ≤ (i + j) / 2 := by omega
      have hh2 : (i + j) / 2 < j := by omega
      generalize (i + j) / 2 = h at *
      cases hfh : f h
      · simp only [Bool.not_false, if_true]
        apply ih (h + 1) j (by omega) (by omega) h3 _ h5
        intro k hk
        cases hfk : f k
        · rfl
        · have := mono k h (by omega) (by omega) hfk
          rw [hfh] at this; exact absurd this (by simp)
      · simp only [Bool.not_true, Bool.false_eq_true, if_false]
        exact ih i h (by omega) (by omega) (by omega) h4 (fun _ => hfh)
    · rw [if_neg hij]
      have : i = j := by omega
      subst this
      exact ⟨h3, h4, h5⟩

theorem goSearch_eq_searchFirst (n : Nat) (f : Nat → Bool)
    (mono : ∀ i j, i ≤ j → j < n → f i = true → f j = true) : goSearch n f = searchFirst n f := by
  obtain ⟨a1, a2, a3⟩ := goSearchLoop_spec n f mono n 0 n (by omega) (Nat.zero_le _) (Nat.le_refl _)
    (fun k hk => by omega) (fun h => by omega)
  obtain ⟨_, b1, b2, b3⟩ := firstIdx_spec f n 0
  unfold goSearch searchFirst
  generalize goSearchLoop f n 0 n = x at *
  generalize firstIdx f n 0 = y at *
  apply Nat.le_antisymm
  · apply Nat.le_of_not_lt
    intro hlt
    have h1 := a2 y hlt
    have h2 := b3 (by omega)
    rw [h1] at h2; exact absurd h2 (by simp)
  · apply Nat.le_of_not_lt
    intro hlt
    have h1 := b2 x (Nat.zero_le _) hlt
    have h2 := a3 (by omega)
    rw [h1] at h2; exact absurd h2 (by simp)

end KB
