/- Helper lemmas for KB.Props.C07Atomic: what a pass leaves is a sub-store of what it found (`runActs_get_cases`,
`store_eq_encodeStore_filter`), the backend's point read on an encoded store (`bget_encodeStore`), and when a guarded
update / a create is accepted (`doUpdate_ok_of_index`, `doCreate_ok_of_no_index`, `doCreate_ok_of_flagged_index`). -/
import KB.Lemmas.ExpirePass
import KB.Lemmas.CompactRace
import KB.Lemmas.Scan
namespace KB.Atomic
open KB KB.Compact KB.ExpirePass KB.Race Generated

/-- the calls of a pass only remove: a key of the store is gone afterwards, or holds what it held -/
theorem runActs_get_cases (mask : Nat → DelOutcome) (acts : List Act) (st : CompState) (hso : Store.Sorted st.store)
    (b : Bytes) :
    (runActs mask st acts).store.get b = none ∨ (runActs mask st acts).store.get b = st.store.get b := by
  induction acts generalizing st with
  | nil => exact .inr rfl
  | cons a l ih =>
    rw [runActs_cons]
    have hso' : Store.Sorted (runAct mask st a).store := runActs_sorted mask [a] st hso
    have hstep : (runAct mask st a).store.get b = none ∨ (runAct mask st a).store.get b = st.store.get b := by
      cases a with
      | expire ik w vers raw =>
        rcases runExpire_store mask st ik w vers raw with e | e
        · right; rw [runAct_expire, e]
        · rw [runAct_expire, e, eraseAll_get _ hso]; split
          · exact .inl rfl
          · exact .inr rfl
      | emit _ _ _ => exact .inr rfl
      | panic => exact .inr rfl
      | del ik raw =>
        rcases runDelete_store mask st (.del ik raw) with e | ⟨ik', _, e⟩
        · right; show (runDelete mask st (.del ik raw)).store.get b = _; rw [e]
        · show (runDelete mask st (.del ik raw)).store.get b = none ∨
            (runDelete mask st (.del ik raw)).store.get b = st.store.get b
          rw [e, KB.Compact.Store.get_erase hso]; split
          · exact .inl rfl
          · exact .inr rfl
      | delcur ik w raw =>
        rcases runDelete_store mask st (.delcur ik w raw) with e | ⟨ik', _, e⟩
        · right; show (runDelete mask st (.delcur ik w raw)).store.get b = _; rw [e]
        · show (runDelete mask st (.delcur ik w raw)).store.get b = none ∨
            (runDelete mask st (.delcur ik w raw)).store.get b = st.store.get b
          rw [e, KB.Compact.Store.get_erase hso]; split
          · exact .inl rfl
          · exact .inr rfl
    rcases hstep with h' | h'
    · exact .inl (runActs_get_none_mono mask l _ hso' h')
    · rcases ih _ hso' with h | h
      · exact .inl h
      · exact .inr (h.trans h')

/-- a sorted sub-store of an encoded store is the encoded store of the records it still holds -/
theorem store_eq_encodeStore_filter {recs : List Rec} (hs : SortedRecs recs) (hw : WellKeyed recs)
    (hk : ∀ r ∈ recs, Alphabet r.key ∧ r.rev < 2 ^ 64) {s : Store} (hso : s.Sorted)
    (hsub : ∀ b, s.get b = none ∨ s.get b = (encodeStore recs).get b) :
    s = encodeStore (recs.filter (fun r => (s.get r.ik).isSome)) := by
  have hsF : SortedRecs (recs.filter (fun r => (s.get r.ik).isSome)) :=
    List.Pairwise.sublist List.filter_sublist hs
  have hkF : ∀ r ∈ recs.filter (fun r => (s.get r.ik).isSome), Alphabet r.key ∧ r.rev < 2 ^ 64 :=
    fun r hr => hk r (List.mem_filter.1 hr).1
  apply store_ext hso (encodeStore_sorted hsF hkF)
  intro b
  cases hb : s.get b with
  | none =>
    cases hR : (encodeStore (recs.filter (fun r => (s.get r.ik).isSome))).get b with
    | none => rfl
    | some v =>
      exfalso
      have hm := mem_of_get hR
      obtain ⟨r, hr, e⟩ := List.mem_map.1 hm
      simp only [Prod.mk.injEq] at e
      have hr' := List.mem_filter.1 hr
      rw [hw r hr'.1, e.1, hb] at hr'
      exact absurd hr'.2 (by decide)
  | some v =>
    have hE : (encodeStore recs).get b = some v := by
      rcases hsub b with h | h
      · rw [hb] at h; cases h
      · rw [← h, hb]
    have hm := mem_of_get hE
    obtain ⟨r, hr, e⟩ := List.mem_map.1 hm
    simp only [Prod.mk.injEq] at e
    have hrF : r ∈ recs.filter (fun r => (s.get r.ik).isSome) := by
      rw [List.mem_filter]; refine ⟨hr, ?_⟩
      rw [hw r hr, e.1, hb]; rfl
    rw [← e.1, encodeStore_get hsF hkF hrF, e.2]

/-- the backend's point read at the latest revision on an encoded store: the newest version, unless it is a deletion
marker -/
theorem bget_encodeStore (cb : Cfg) {l : List Rec} (hs : SortedRecs l)
    (hk : ∀ r ∈ l, Alphabet r.key ∧ r.rev < 2 ^ 64) (k : Bytes) (hka : Alphabet k) :
    bget cb (encodeStore l) k 0 =
      match visible (2 ^ 64 - 1) l k with
      | none => .notFound 0
      | some r => if isTomb r.val then .notFound r.rev else .found r.val r.rev := by
  unfold bget
  rw [getInternal_encodeStore cb hs hk k hka 0 (by decide)]
  simp only [beq_self_eq_true, if_true]
  cases visible (2 ^ 64 - 1) l k with
  | none => rfl
  | some r => rfl

/-- … in terms of the specification's point read -/
theorem bget_found_iff (cb : Cfg) {l : List Rec} (hs : SortedRecs l)
    (hk : ∀ r ∈ l, Alphabet r.key ∧ r.rev < 2 ^ 64) (k : Bytes) (hka : Alphabet k) (v : Bytes) (m : Nat) :
    bget cb (encodeStore l) k 0 = .found v m ↔ readAt (2 ^ 64 - 1) l k = some (v, m) := by
  rw [bget_encodeStore cb hs hk k hka]
  unfold readAt
  cases visible (2 ^ 64 - 1) l k with
  | none => simp
  | some r =>
    simp only
    cases isTomb r.val <;> simp

theorem bget_notFound_iff (cb : Cfg) {l : List Rec} (hs : SortedRecs l)
    (hk : ∀ r ∈ l, Alphabet r.key ∧ r.rev < 2 ^ 64) (k : Bytes) (hka : Alphabet k) :
    (∃ m, bget cb (encodeStore l) k 0 = .notFound m) ↔ readAt (2 ^ 64 - 1) l k = none := by
  rw [bget_encodeStore cb hs hk k hka]
  unfold readAt
  cases visible (2 ^ 64 - 1) l k with
  | none => simp
  | some r =>
    simp only
    cases isTomb r.val <;> simp

/-! ### when the backend accepts a write -/

/-- a guarded update naming the revision the revision record holds is accepted -/
theorem doUpdate_ok_of_index (cb : Cfg) (s : BState) (k val : Bytes) (m : Nat) (hm0 : 0 < m) (hm : m ≤ s.dealt)
    (hidx : s.store.get (idxKey k) = some (be8 m)) :
    (doUpdate cb s k val m []).1 = .ok (s.dealt + 1) := by
  have h1 : (m == 0) = false := by simp; omega
  have h2 : ¬ (s.dealt + 1 ≤ m) := by omega
  simp [doUpdate, h1, h2, doCommit, commit, applyOps, applyOp, nextFault, hidx]

/-- a key without a revision record can be created -/
theorem doCreate_ok_of_no_index (cb : Cfg) (s : BState) (k val : Bytes)
    (hidx : s.store.get (idxKey k) = none) :
    (doCreate cb s k val []).1 = .ok (s.dealt + 1) := by
  simp [doCreate, creatorCreate, doCommit, commit, applyOps, applyOp, nextFault, hidx]

/-- a key whose revision record carries the deletion flag (and names an older revision) can be created -/
theorem doCreate_ok_of_flagged_index (cb : Cfg) (s : BState) (k val old : Bytes)
    (hidx : s.store.get (idxKey k) = some old) (hlen : old.length = 9) (hlt : fromBE (old.take 8) < s.dealt + 1) :
    (doCreate cb s k val []).1 = .ok (s.dealt + 1) := by
  have hp : parseRevision old = some (fromBE (old.take 8), true) := by
    simp [parseRevision, hlen, revisionValueLength, revisionValueLengthWithDeletionFlag]
  by_cases ho : cb.q.idxOffset = 0
  · simp [doCreate, creatorCreate, doCommit, commit, applyOps, applyOp, nextFault, hidx, ho, hp, hlt]
  · simp [doCreate, creatorCreate, doCommit, commit, applyOps, applyOp, nextFault, hidx, ho, hp, hlt]

end KB.Atomic
