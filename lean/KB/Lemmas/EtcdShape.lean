/- Lemmas for the shaping laws of C16 (`KB.Etcd.shapeTxn` as a function of the backend's answer):
what the sequential backend model answers in its failure branches (header ≥ revision of the key-value it
carries), and the reference's post-state on the transactions the laws are compared with. -/
import KB.Lemmas.Etcd
namespace KB.Etcd
open KB

/-! ### the failure answers of the backend model: the header is not below the key-value's revision -/

theorem doCreate_failed_kv (c : Cfg) (s : BState) (k v : Bytes) (fs : List Fault) (hdr : Nat) (kv : KV)
    (h : (doCreate c s k v fs).1 = .condFailed hdr (some kv)) : kv.2.2 ≤ hdr := by
  unfold doCreate at h
  simp only at h
  split at h <;> simp at h

theorem doUpdate_failed_kv (c : Cfg) (s : BState) (k v : Bytes) (exp : Nat) (fs : List Fault) (hdr : Nat) (kv : KV)
    (h : (doUpdate c s k v exp fs).1 = .condFailed hdr (some kv)) : kv.2.2 ≤ hdr := by
  unfold doUpdate at h
  simp only at h
  split at h
  · split at h
    · simp at h
    · split at h
      · simp only [WriteRes.condFailed.injEq, Option.some.injEq] at h
        obtain ⟨rfl, rfl⟩ := h
        exact Nat.le_max_right _ _
      · simp at h
    · simp at h
  · split at h
    · simp at h
    · split at h
      · simp at h
      · split at h
        · simp only [WriteRes.condFailed.injEq, Option.some.injEq] at h
          obtain ⟨rfl, rfl⟩ := h
          exact Nat.le_max_right _ _
        · simp at h
      · simp at h

theorem doDelete_failed_kv (c : Cfg) (s : BState) (k : Bytes) (exp : Nat) (fs : List Fault) (hdr : Nat) (kv : KV)
    (h : (doDelete c s k exp fs).1 = .condFailed hdr (some kv)) : kv.2.2 ≤ hdr := by
  unfold doDelete at h
  split at h
  · simp at h
  · rename_i oldVal modRev hfound
    simp only at h
    split at h
    · simp at h
    · split at h
      · -- stale expectation: the re-read sees the same store
        rw [sequence_store] at h
        simp only [hfound] at h
        simp only [WriteRes.condFailed.injEq, Option.some.injEq] at h
        obtain ⟨rfl, rfl⟩ := h
        exact Nat.le_max_right _ _
      · split at h
        · simp at h
        · rename_i hlt
          split at h
          · simp at h
          · split at h
            · simp only [WriteRes.condFailed.injEq, Option.some.injEq] at h
              obtain ⟨rfl, rfl⟩ := h
              exact Nat.le_max_right _ _
            · simp only [WriteRes.condFailed.injEq, Option.some.injEq] at h
              obtain ⟨rfl, rfl⟩ := h
              simp only
              omega
          · simp at h

/-- every failure answer of a backend call on the model that carries a key-value has a header revision
not below that key-value's revision (`maxUint64(resp.Header.Revision, modRevision)` in txn.go) -/
theorem runCall_failed_kv (c : Cfg) (s : BState) (call : BCall) (hdr : Nat) (kv : KV)
    (h : (runCall c s call).1 = .resp false hdr (some kv)) : kv.2.2 ≤ hdr := by
  -- a call without a value is refused with an error (no key-value in the answer)
  by_cases he : call.emptyValue = true
  · simp [runCall, he] at h
  have he' : call.emptyValue = false := by simpa using he
  cases call with
  | create key val lease =>
    simp only [runCall, he', Bool.false_eq_true, if_false] at h
    generalize hd : doCreate c s key val [] = d at h
    obtain ⟨r, s'⟩ := d
    cases r <;> simp [ansOfWrite] at h
    obtain ⟨rfl, rfl⟩ := h
    exact doCreate_failed_kv c s key val [] _ _ (by rw [hd])
  | delete key rev =>
    simp only [runCall, he', Bool.false_eq_true, if_false] at h
    generalize hd : doDelete c s key rev [] = d at h
    obtain ⟨r, s'⟩ := d
    cases r <;> simp [ansOfWrite] at h
    obtain ⟨rfl, rfl⟩ := h
    exact doDelete_failed_kv c s key rev [] _ _ (by rw [hd])
  | update key val rev lease =>
    simp only [runCall, he', Bool.false_eq_true, if_false] at h
    generalize hd : doUpdate c s key val rev [] = d at h
    obtain ⟨r, s'⟩ := d
    cases r <;> simp [ansOfWrite] at h
    obtain ⟨rfl, rfl⟩ := h
    exact doUpdate_failed_kv c s key val rev [] _ _ (by rw [hd])

/-! ### the reference on the linearisation "the concurrent writer came first" -/

/-- The guarded delete whose expectation is stale on `m` (the key was rewritten at another revision):
etcd answers the failure branch with the current key-value and changes NOTHING. -/
theorem ref_gdelete_stale_state (m : Mvcc) (k : Bytes) (e : KVFull) (exp : Nat) (hk : k ≠ [])
    (hn : m.kvs.Pairwise (fun a b => a.key ≠ b.key)) (hget : m.get k = some e) (hne : exp ≠ e.mod) :
    refTxn m { compare := [{ key := k, int := exp }], success := [.del { key := k }], failure := [.range { key := k }] } =
      .ok ({ ok := false, hdr := m.rev, resps := [.range m.rev [e.proj] 1 false], wrote := false }, m) := by
  have hke : k.isEmpty = false := by cases k <;> simp_all
  have hc : ModCmp ({ key := k, int := exp } : Compare) k exp := ⟨rfl, rfl, rfl, rfl, rfl⟩
  have hg : PlainGet ({ key := k } : RangeReq) k := ⟨rfl, rfl, rfl, rfl, rfl, rfl, rfl, rfl, rfl⟩
  have h0 : ¬ ((e.mod : Int) = (exp : Int)) := by omega
  have hev : evalCompare m ({ key := k, int := exp } : Compare) = false := by
    rw [evalCompare_mod m _ k exp hc hn, hget]
    simpa using h0
  simp [refTxn, allValid, opValid, refApplyOps, refApplyOp, hev, hke, refRangeOn_plain m _ k hg hn, hget]

/-- The unguarded delete of an existing key: etcd takes the success branch, WRITES, and the key is gone. -/
theorem ref_udelete_deletes (m : Mvcc) (k : Bytes) (e : KVFull) (hk : k ≠ [])
    (hn : m.kvs.Pairwise (fun a b => a.key ≠ b.key)) (hget : m.get k = some e) :
    ∃ r m', refTxn m { compare := [], success := [.range { key := k }, .del { key := k }], failure := [] } = .ok (r, m') ∧
      r.ok = true ∧ r.wrote = true ∧ r.hdr = m.rev + 1 ∧ m'.get k = none := by
  have hke : k.isEmpty = false := by cases k <;> simp_all
  have hg : PlainGet ({ key := k } : RangeReq) k := ⟨rfl, rfl, rfl, rfl, rfl, rfl, rfl, rfl, rfl⟩
  refine ⟨{ ok := true, hdr := m.rev + 1, resps := [.range m.rev [e.proj] 1 false, .del (m.rev + 1) 1], wrote := true },
    { rev := m.rev + 1, kvs := m.kvs.filter (fun x => !inInterval k [] x.key) }, ?_, rfl, rfl, rfl, ?_⟩
  · simp [refTxn, allValid, opValid, refApplyOps, refApplyOp, hke, refRangeOn_plain m _ k hg hn, hget,
      Mvcc.range_point m k hn]
  · simp [Mvcc.get, inInterval]

end KB.Etcd
