/- Helper lemmas about KB.EngineTxn (one optimistic transaction attempt of the TiKV adapter and the loop of its
`Commit`), used by KB.Props.C11Conflict. -/
import KB.EngineTxn
import KB.Lemmas.Engine
import KB.Props.C11
namespace KB.EngineTxn
open KB KB.C11

theorem mutate_eq_effect (s : Store) (op : BOp) : BOp.mutate s op = effect s op := by
  cases op <;> rfl

theorem foldl_mutate_eq_effect (ops : List BOp) (s : Store) : ops.foldl BOp.mutate s = ops.foldl effect s := by
  induction ops generalizing s with
  | nil => rfl
  | cons op ops ih => simp only [List.foldl_cons, mutate_eq_effect, ih]

theorem commit_of_allHold (q : Quirks) (d : Store) (ops : List BOp) (h : allHold d ops = true) :
    commit q d ops = .ok (ops.foldl effect d) := by
  obtain ⟨d', hd⟩ := (commit_ok_iff q d ops).2 h
  rw [hd, commit_effect q d d' ops hd]

theorem commitOnce_failed (q : Quirks) (s : TStore) (t : Txn) (ops : List BOp) (e : CommitErr)
    (h : commit q t.snap ops = .error e) : commitOnce q s t ops = (s, .failed e) := by
  simp only [commitOnce, h]

theorem commitOnce_conflict (q : Quirks) (s : TStore) (t : Txn) (ops : List BOp)
    (h : allHold t.snap ops = true) (hc : writeConflict s t ops = true) :
    commitOnce q s t ops =
      ({ s with marks := s.marks ++ ops.map (fun op => (op.key, t.start)) }, .writeConflict) := by
  simp only [commitOnce, commit_of_allHold q _ _ h, hc, if_true]

theorem commitOnce_ok (q : Quirks) (s : TStore) (t : Txn) (ops : List BOp)
    (h : allHold t.snap ops = true) (hc : writeConflict s t ops = false) :
    commitOnce q s t ops =
      ({ data := ops.foldl effect s.data
         writes := s.writes ++ ops.map (fun op => (op.key, s.clock + 1))
         marks := s.marks
         clock := s.clock + 1 }, .ok) := by
  simp only [commitOnce, commit_of_allHold q _ _ h, hc, foldl_mutate_eq_effect]
  rfl

theorem newerRec_false_of_le (l : List (Bytes × Nat)) (c : Nat) (h : ∀ r ∈ l, r.2 ≤ c) (k : Bytes) :
    newerRec l (c + 1) k = false := by
  simp only [newerRec, List.any_eq_false, Bool.and_eq_true, beq_iff_eq, decide_eq_true_eq, not_and]
  intro r hr _
  have := h r hr
  omega

/-- a transaction begun now meets no conflict: every record is below its start timestamp -/
theorem fresh_no_conflict (s : TStore) (hwf : s.WF) (ops : List BOp) :
    writeConflict s.begin.1 s.begin.2 ops = false := by
  simp only [writeConflict, List.any_eq_false, Bool.or_eq_true, not_or, TStore.begin]
  intro op _
  simp only [Bool.not_eq_true]
  exact ⟨newerRec_false_of_le _ _ hwf.1 _, newerRec_false_of_le _ _ hwf.2 _⟩

/-- a conflicting attempt leaves a well-formed store (its own marks carry its start timestamp) -/
theorem wf_after_conflict (s : TStore) (t : Txn) (ops : List BOp) (hwf : s.WF) (hstart : t.start ≤ s.clock) :
    TStore.WF { s with marks := s.marks ++ ops.map (fun op => (op.key, t.start)) } := by
  refine ⟨hwf.1, ?_⟩
  intro r hr
  simp only [List.mem_append, List.mem_map] at hr
  rcases hr with hr | ⟨op, _, rfl⟩
  · exact hwf.2 r hr
  · exact hstart

/-- the second attempt: a fresh transaction on a well-formed store whose data satisfy the conditions commits -/
theorem fresh_attempt_ok (q : Quirks) (s : TStore) (hwf : s.WF) (ops : List BOp)
    (h : allHold s.data ops = true) :
    (commitOnce q s.begin.1 s.begin.2 ops).2 = .ok ∧
    (commitOnce q s.begin.1 s.begin.2 ops).1.data = ops.foldl effect s.data := by
  have hs : allHold s.begin.2.snap ops = true := h
  rw [commitOnce_ok q _ _ ops hs (fresh_no_conflict s hwf ops)]
  exact ⟨rfl, rfl⟩

theorem fresh_attempt_failed (q : Quirks) (s : TStore) (ops : List BOp) (e : CommitErr)
    (h : commit q s.data ops = .error e) :
    commitOnce q s.begin.1 s.begin.2 ops = (s.begin.1, .failed e) :=
  commitOnce_failed q _ _ ops e h

/-- unfolding of the loop for `fuel + 1` -/
theorem commitLoop_succ_conflict (q : Quirks) (env : Env) (fuel : Nat) (s : TStore) (t : Txn) (ops : List BOp)
    (h : (commitOnce q s t ops).2 = .writeConflict) :
    commitLoop q env (fuel + 1) s t ops =
      ((commitLoop q env fuel (env fuel (commitOnce q s t ops).1.begin.1) (commitOnce q s t ops).1.begin.2 ops).1,
       (commitLoop q env fuel (env fuel (commitOnce q s t ops).1.begin.1) (commitOnce q s t ops).1.begin.2 ops).2.1,
       (commitLoop q env fuel (env fuel (commitOnce q s t ops).1.begin.1) (commitOnce q s t ops).1.begin.2 ops).2.2 + 1) := by
  simp only [commitLoop, h, if_true]

theorem commitLoop_succ_other (q : Quirks) (env : Env) (fuel : Nat) (s : TStore) (t : Txn) (ops : List BOp)
    (h : (commitOnce q s t ops).2 ≠ .writeConflict) :
    commitLoop q env (fuel + 1) s t ops = ((commitOnce q s t ops).1, (commitOnce q s t ops).2, 1) := by
  simp only [commitLoop, h, if_false]

theorem commitLoop_first_settles (q : Quirks) (env : Env) (fuel : Nat) (s : TStore) (t : Txn) (ops : List BOp)
    (h : (commitOnce q s t ops).2 ≠ .writeConflict) :
    commitLoop q env fuel s t ops = ((commitOnce q s t ops).1, (commitOnce q s t ops).2, 1) := by
  cases fuel with
  | zero => simp only [commitLoop, h, if_false]
  | succ n => exact commitLoop_succ_other q env n s t ops h

/-- no re-run left and the attempt meets a write conflict: the error of /repo ce077f1 -/
theorem commitLoop_zero_conflict (q : Quirks) (env : Env) (s : TStore) (t : Txn) (ops : List BOp)
    (h : (commitOnce q s t ops).2 = .writeConflict) :
    commitLoop q env 0 s t ops = ((commitOnce q s t ops).1, .persistentConflict, 1) := by
  simp only [commitLoop, h, if_true]

/-! ### one attempt: what each outcome says -/

theorem commitOnce_conflict_data (q : Quirks) (s : TStore) (t : Txn) (ops : List BOp)
    (h : (commitOnce q s t ops).2 = .writeConflict) : (commitOnce q s t ops).1.data = s.data := by
  unfold commitOnce at h ⊢
  cases hc : commit q t.snap ops with
  | error e => simp only [hc] at h; cases h
  | ok d =>
    cases hw : writeConflict s t ops with
    | true => rfl
    | false => simp only [hc, hw] at h; cases h

theorem commitOnce_failed_inv (q : Quirks) (s : TStore) (t : Txn) (ops : List BOp) (e : CommitErr)
    (h : (commitOnce q s t ops).2 = .failed e) : commit q t.snap ops = .error e ∧ (commitOnce q s t ops).1 = s := by
  unfold commitOnce at h ⊢
  cases hc : commit q t.snap ops with
  | error e' =>
    simp only [hc, TxnRes.failed.injEq] at h
    subst h
    exact ⟨rfl, rfl⟩
  | ok d =>
    cases hw : writeConflict s t ops with
    | true => simp only [hc, hw, if_true] at h; cases h
    | false => simp only [hc, hw] at h; cases h

theorem commitOnce_ne_persistent (q : Quirks) (s : TStore) (t : Txn) (ops : List BOp) :
    (commitOnce q s t ops).2 ≠ .persistentConflict := by
  unfold commitOnce
  cases hc : commit q t.snap ops with
  | error e => simp
  | ok d =>
    cases hw : writeConflict s t ops with
    | true => simp
    | false => simp

/-! ### the loop under ANY environment -/

/-- the loop never hands out a bare write conflict any more -/
theorem commitLoop_ne_writeConflict (q : Quirks) (env : Env) (ops : List BOp) :
    ∀ (fuel : Nat) (s : TStore) (t : Txn), (commitLoop q env fuel s t ops).2.1 ≠ .writeConflict := by
  intro fuel
  induction fuel with
  | zero =>
    intro s t
    by_cases h : (commitOnce q s t ops).2 = .writeConflict
    · rw [commitLoop_zero_conflict q env s t ops h]; simp
    · rw [commitLoop_first_settles q env 0 s t ops h]; exact h
  | succ n ih =>
    intro s t
    by_cases h : (commitOnce q s t ops).2 = .writeConflict
    · rw [commitLoop_succ_conflict q env n s t ops h]; exact ih _ _
    · rw [commitLoop_succ_other q env n s t ops h]; exact h

/-- A failed step answered by the loop is the failed step of one of its attempts, and that attempt's snapshot is a
state the data really went through: it satisfies every predicate `P` that holds of the caller's snapshot and of the
data at the start and is preserved by everything the other clients do. -/
theorem commitLoop_failed_inv (q : Quirks) (env : Env) (ops : List BOp) (P : Store → Prop)
    (hE : ∀ n s', P s'.data → P (env n s').data) :
    ∀ (fuel : Nat) (s : TStore) (t : Txn) (e : CommitErr), P t.snap → P s.data →
      (commitLoop q env fuel s t ops).2.1 = .failed e → ∃ snap, P snap ∧ commit q snap ops = .error e := by
  intro fuel
  induction fuel with
  | zero =>
    intro s t e hpt _ h
    by_cases hc : (commitOnce q s t ops).2 = .writeConflict
    · rw [commitLoop_zero_conflict q env s t ops hc] at h; cases h
    · rw [commitLoop_first_settles q env 0 s t ops hc] at h
      exact ⟨t.snap, hpt, (commitOnce_failed_inv q s t ops e h).1⟩
  | succ n ih =>
    intro s t e hpt hps h
    by_cases hc : (commitOnce q s t ops).2 = .writeConflict
    · rw [commitLoop_succ_conflict q env n s t ops hc] at h
      have hd := commitOnce_conflict_data q s t ops hc
      refine ih _ _ e ?_ ?_ h
      · show P (commitOnce q s t ops).1.data
        rw [hd]; exact hps
      · apply hE
        show P (commitOnce q s t ops).1.data
        rw [hd]; exact hps
    · rw [commitLoop_succ_other q env n s t ops hc] at h
      exact ⟨t.snap, hpt, (commitOnce_failed_inv q s t ops e h).1⟩

/-- the persistent conflict: every attempt was made, and the data are what the others made of them -/
theorem commitLoop_persistent_inv (q : Quirks) (env : Env) (ops : List BOp) (P : Store → Prop)
    (hE : ∀ n s', P s'.data → P (env n s').data) :
    ∀ (fuel : Nat) (s : TStore) (t : Txn), P s.data →
      (commitLoop q env fuel s t ops).2.1 = .persistentConflict →
      (commitLoop q env fuel s t ops).2.2 = fuel + 1 ∧ P (commitLoop q env fuel s t ops).1.data := by
  intro fuel
  induction fuel with
  | zero =>
    intro s t hps h
    by_cases hc : (commitOnce q s t ops).2 = .writeConflict
    · rw [commitLoop_zero_conflict q env s t ops hc]
      refine ⟨rfl, ?_⟩
      show P (commitOnce q s t ops).1.data
      rw [commitOnce_conflict_data q s t ops hc]; exact hps
    · rw [commitLoop_first_settles q env 0 s t ops hc] at h
      exact absurd h (commitOnce_ne_persistent q s t ops)
  | succ n ih =>
    intro s t hps h
    by_cases hc : (commitOnce q s t ops).2 = .writeConflict
    · rw [commitLoop_succ_conflict q env n s t ops hc] at h ⊢
      have hd := commitOnce_conflict_data q s t ops hc
      have := ih (env n (commitOnce q s t ops).1.begin.1) (commitOnce q s t ops).1.begin.2
        (by apply hE; show P (commitOnce q s t ops).1.data; rw [hd]; exact hps) h
      exact ⟨by rw [this.1], this.2⟩
    · rw [commitLoop_succ_other q env n s t ops hc] at h
      exact absurd h (commitOnce_ne_persistent q s t ops)

/-! ### a batch only looks at the keys it writes -/

/-- Two sorted stores that agree on the key of an operation: it fails on both with the same error, or succeeds on
both, and the results agree on every key on which the stores agreed. -/
theorem applyOp_congr (q : Quirks) (s1 s2 : Store) (h1 : s1.Sorted) (h2 : s2.Sorted) (i : Nat) (op : BOp)
    (hk : s1.get op.key = s2.get op.key) :
    (∃ e, applyOp q s1 i op = .error e ∧ applyOp q s2 i op = .error e) ∨
    (∃ s1' s2', applyOp q s1 i op = .ok s1' ∧ applyOp q s2 i op = .ok s2' ∧ s1'.Sorted ∧ s2'.Sorted ∧
      ∀ k, s1.get k = s2.get k → s1'.get k = s2'.get k) := by
  have hput : ∀ k v, ∀ k', s1.get k' = s2.get k' → (s1.put k v).get k' = (s2.put k v).get k' := by
    intro k v k' h
    rw [Store.get_put s1 h1, Store.get_put s2 h2, h]
  have herase : ∀ k, ∀ k', s1.get k' = s2.get k' → (s1.erase k).get k' = (s2.erase k).get k' := by
    intro k k' h
    rw [Store.get_erase s1 h1, Store.get_erase s2 h2, h]
  cases op with
  | pine k v =>
    simp only [BOp.key] at hk
    cases hg : s2.get k with
    | some old => left; exact ⟨_, by simp [applyOp, hk, hg] <;> rfl, by simp [applyOp, hg]⟩
    | none =>
      right
      exact ⟨_, _, by simp [applyOp, hk, hg], by simp [applyOp, hg], Store.put_sorted s1 h1 k v,
        Store.put_sorted s2 h2 k v, hput k v⟩
  | cas k new old =>
    simp only [BOp.key] at hk
    cases hg : s2.get k with
    | none =>
      left
      cases hq : q.casMissingNotFound
      · exact ⟨_, by simp [applyOp, hk, hg, hq] <;> rfl, by simp [applyOp, hg, hq]⟩
      · exact ⟨_, by simp [applyOp, hk, hg, hq] <;> rfl, by simp [applyOp, hg, hq]⟩
    | some cur =>
      by_cases hc : cur = old
      · right
        exact ⟨_, _, by simp [applyOp, hk, hg, hc], by simp [applyOp, hg, hc], Store.put_sorted s1 h1 k new,
          Store.put_sorted s2 h2 k new, hput k new⟩
      · left; exact ⟨_, by simp [applyOp, hk, hg, hc] <;> rfl, by simp [applyOp, hg, hc]⟩
  | put k v =>
    right
    exact ⟨_, _, rfl, rfl, Store.put_sorted s1 h1 k v, Store.put_sorted s2 h2 k v, hput k v⟩
  | del k =>
    right
    exact ⟨_, _, rfl, rfl, Store.erase_sorted s1 h1 k, Store.erase_sorted s2 h2 k, herase k⟩
  | delcur k v =>
    simp only [BOp.key] at hk
    cases hg : s2.get k with
    | none => left; exact ⟨_, by simp [applyOp, hk, hg] <;> rfl, by simp [applyOp, hg]⟩
    | some cur =>
      by_cases hc : cur = v
      · right
        exact ⟨_, _, by simp [applyOp, hk, hg, hc], by simp [applyOp, hg, hc], Store.erase_sorted s1 h1 k,
          Store.erase_sorted s2 h2 k, herase k⟩
      · left; exact ⟨_, by simp [applyOp, hk, hg, hc] <;> rfl, by simp [applyOp, hg, hc]⟩

theorem applyOps_error_congr (q : Quirks) (ops : List BOp) :
    ∀ (s1 s2 : Store) (i : Nat), s1.Sorted → s2.Sorted → (∀ op ∈ ops, s1.get op.key = s2.get op.key) →
      ∀ e, applyOps q s1 i ops = .error e → applyOps q s2 i ops = .error e := by
  induction ops with
  | nil => intro s1 s2 i _ _ _ e h; simp [applyOps] at h
  | cons op ops ih =>
    intro s1 s2 i h1 h2 hag e h
    rcases applyOp_congr q s1 s2 h1 h2 i op (hag op (List.mem_cons_self ..)) with
      ⟨e', he1, he2⟩ | ⟨s1', s2', ho1, ho2, hs1, hs2, hkeep⟩
    · simp only [applyOps, he1, Except.error.injEq] at h
      simp only [applyOps, he2, h]
    · simp only [applyOps, ho1] at h
      simp only [applyOps, ho2]
      exact ih s1' s2' (i + 1) hs1 hs2
        (fun op' hop' => hkeep _ (hag op' (List.mem_cons_of_mem _ hop'))) e h

/-- conditions that held on the snapshot and fail on the data: some key of the batch differs between them -/
theorem exists_changed_key (q : Quirks) (snap data : Store) (h1 : snap.Sorted) (h2 : data.Sorted)
    (ops : List BOp) (hs : allHold snap ops = true) (e : CommitErr) (hd : commit q data ops = .error e) :
    ∃ op ∈ ops, snap.get op.key ≠ data.get op.key := by
  apply Classical.byContradiction
  intro hno
  have hag : ∀ op ∈ ops, data.get op.key = snap.get op.key := by
    intro op hop
    apply Classical.byContradiction
    intro hne
    exact hno ⟨op, hop, fun h => hne h.symm⟩
  have := applyOps_error_congr q ops data snap 0 h2 h1 hag e hd
  rw [show applyOps q snap 0 ops = commit q snap ops from rfl, commit_of_allHold q snap ops hs] at this
  cases this

end KB.EngineTxn
