/- Helper lemmas about the worker loop (normal form), used by C03 / C07 / C13. -/
import KB.Spec
import KB.Backend
import KB.Lemmas.Coder
namespace KB
end KB
