/- Helper lemmas about the worker loop (normal form), used by C03 / C07 / C13. -/
import KB.Spec
import KB.Backend
import KB.Lemmas.Coder
import KB.Props.C10
namespace KB
open Generated

/-! ### normal form of the non-compacting worker loop -/

abbrev KV := Bytes × Bytes × Nat

theorem emitsOf_append (a b : List Act) : emitsOf (a ++ b) = emitsOf a ++ emitsOf b := by
  induction a with
  | nil => rfl
  | cons x xs ih => cases x <;> simp [emitsOf, ih]

/-- what `emitPrev` emits, with the previous record held as a `Rec` -/
def emitR (q : Rec) : List KV :=
  if q.rev > 0 && !isTomb q.val then [(q.key, q.val, q.rev)] else []

/-- The emissions of the non-compacting, non-expiring worker loop. -/
def sLoop (R : Nat) : Rec → List Rec → List KV
  | q, [] => emitR q
  | q, x :: xs =>
    if x.rev > R then sLoop R q xs
    else (if x.key != q.key then emitR q else []) ++ sLoop R x xs

/-- `q` holds the same `(key, rev, val)` as the worker's `prev` -/
def Prev.Sim (p : Prev) (q : Rec) : Prop := q.key = p.key ∧ q.rev = p.rev ∧ q.val = p.val

/-- a plain read worker: no compaction, expiry disabled -/
def WCfg.Plain (c : WCfg) : Prop := c.compact = false ∧ c.timeout = 0

theorem expireStep_plain {c : WCfg} (hc : c.Plain) (live gone : Bytes) (snap : List Rec) (r : Rec) :
    expireStep c live gone snap r = none := by
  simp [expireStep, expiry, hc.2]

theorem emitsOf_emitPrev {p : Prev} {q : Rec} (h : p.Sim q) : emitsOf (emitPrev p) = emitR q := by
  obtain ⟨h1, h2, h3⟩ := h
  unfold emitPrev emitR
  rw [h1, h2, h3]
  split <;> simp [emitsOf]

theorem workerStep_plain {c : WCfg} (hc : c.Plain) (p : Prev) (r : Rec) :
    workerStep c p r =
      if r.rev > c.R then ([], p)
      else ((if r.key != p.key then emitPrev p else []), ⟨r.key, r.rev, r.val⟩) := by
  unfold workerStep
  simp [hc.1]

theorem emitsOf_workerLoop {c : WCfg} (hc : c.Plain) (p : Prev) (q : Rec) (h : p.Sim q) (l : List Rec) :
    emitsOf (workerLoop c p l) = sLoop c.R q l := by
  induction l generalizing p q with
  | nil => simp [workerLoop, sLoop, emitsOf_emitPrev h]
  | cons x xs ih =>
    simp only [workerLoop, sLoop, workerStep_plain hc]
    by_cases hx : x.rev > c.R
    · simp only [hx, if_true]
      simpa [emitsOf] using ih p q h
    · simp only [hx, if_false, emitsOf_append]
      rw [ih ⟨x.key, x.rev, x.val⟩ x ⟨rfl, rfl, rfl⟩, h.1]
      congr 1
      split
      · exact emitsOf_emitPrev h
      · rfl

theorem not_panic_emitPrev (p : Prev) : Act.panic ∉ emitPrev p := by
  unfold emitPrev; split <;> simp

theorem not_panic_workerLoop {c : WCfg} (hc : c.Plain) (p : Prev) (l : List Rec) :
    Act.panic ∉ workerLoop c p l := by
  induction l generalizing p with
  | nil => simpa [workerLoop] using not_panic_emitPrev p
  | cons x xs ih =>
    simp only [workerLoop, workerStep_plain hc, List.mem_append, not_or]
    by_cases hx : x.rev > c.R
    · simp only [hx, if_true]
      exact ⟨by simp, ih p⟩
    · simp only [hx, if_false]
      refine ⟨?_, ih _⟩
      split
      · exact not_panic_emitPrev p
      · simp

theorem hasPanic_workerActs {c : WCfg} (hc : c.Plain) (l : List Rec) :
    hasPanic (workerActs c l) = false := by
  have := not_panic_workerLoop hc {} l
  simpa [hasPanic, workerActs] using this

/-- the initial `prev` as a record -/
def rec0 : Rec := { key := [], rev := 0, val := [], ik := [] }

theorem emitsOf_workerActs {c : WCfg} (hc : c.Plain) (l : List Rec) :
    emitsOf (workerActs c l) = sLoop c.R rec0 l :=
  emitsOf_workerLoop hc {} rec0 ⟨rfl, rfl, rfl⟩ l

theorem scanRecs_eq (R : Nat) (l : List Rec) : scanRecs R l = sLoop R rec0 l :=
  emitsOf_workerActs (c := { R := R }) ⟨rfl, rfl⟩ l

/-! ### `visible` / `readAt` -/

/-- the filter predicate of `visible` -/
def vis (R : Nat) (k : Bytes) (r : Rec) : Bool := r.key == k && decide (0 < r.rev) && decide (r.rev ≤ R)

theorem visible_def (R : Nat) (l : List Rec) (k : Bytes) : visible R l k = (l.filter (vis R k)).getLast? := rfl

theorem vis_iff {R : Nat} {k : Bytes} {r : Rec} : vis R k r = true ↔ r.key = k ∧ 0 < r.rev ∧ r.rev ≤ R := by
  simp [vis, and_assoc]

theorem visible_nil (R : Nat) (k : Bytes) : visible R [] k = none := rfl

theorem visible_cons (R : Nat) (q : Rec) (l : List Rec) (k : Bytes) :
    visible R (q :: l) k = (visible R l k).or (if vis R k q then some q else none) := by
  simp only [visible_def, List.filter_cons]
  split
  · rw [List.getLast?_cons]
    cases (List.filter (vis R k) l).getLast? <;> simp
  · simp

theorem visible_cons_neg {R : Nat} {q : Rec} {l : List Rec} {k : Bytes} (h : vis R k q = false) :
    visible R (q :: l) k = visible R l k := by
  simp [visible_cons, h]

theorem visible_eq_none_iff {R : Nat} {l : List Rec} {k : Bytes} :
    visible R l k = none ↔ ∀ x ∈ l, vis R k x = false := by
  simp [visible_def]

theorem visible_some_mem {R : Nat} {l : List Rec} {k : Bytes} {r : Rec} (h : visible R l k = some r) :
    r ∈ l ∧ vis R k r = true := by
  have := List.mem_of_getLast? (visible_def R l k ▸ h)
  exact List.mem_filter.mp this

/-- what a single candidate record reads as -/
def readOne (o : Option Rec) : Option (Bytes × Nat) :=
  match o with
  | some r => if isTomb r.val then none else some (r.val, r.rev)
  | none => none

theorem readAt_def (R : Nat) (l : List Rec) (k : Bytes) : readAt R l k = readOne (visible R l k) := by
  unfold readAt readOne; rfl

/-! ### order facts -/

/-- weak `(key, revision)` order -/
def recLe (a b : Rec) : Prop := cmp a.key b.key = .lt ∨ (a.key = b.key ∧ a.rev ≤ b.rev)

theorem cmp_lt_irrefl {a : Bytes} : cmp a a ≠ .lt := by simp

theorem recLe_of_recLt {a b : Rec} (h : recLt a b) : recLe a b := by
  rcases h with h | ⟨h1, h2⟩
  · exact .inl h
  · exact .inr ⟨h1, Nat.le_of_lt h2⟩

theorem recLe_trans_lt {a b c : Rec} (h1 : recLe a b) (h2 : recLt b c) : recLe a c := by
  rcases h1 with h1 | ⟨h1, h1'⟩
  · rcases h2 with h2 | ⟨h2, _⟩
    · exact .inl (cmp_lt_trans h1 h2)
    · exact .inl (h2 ▸ h1)
  · rcases h2 with h2 | ⟨h2, h2'⟩
    · exact .inl (h1 ▸ h2)
    · exact .inr ⟨h1.trans h2, by omega⟩

theorem rec0_le (x : Rec) : recLe rec0 x := by
  unfold recLe rec0
  cases hx : x.key with
  | nil => right; simp
  | cons a as => left; simp

/-- the loop invariant: `q` is the last accepted record, the rest of the partition follows it -/
structure LoopInv (R : Nat) (q : Rec) (l : List Rec) : Prop where
  qR : q.rev ≤ R
  sorted : l.Pairwise recLt
  le : ∀ x ∈ l, recLe q x

theorem LoopInv.tail {R : Nat} {q x : Rec} {xs : List Rec} (h : LoopInv R q (x :: xs)) : LoopInv R q xs :=
  ⟨h.qR, (List.pairwise_cons.mp h.sorted).2, fun y hy => h.le y (List.mem_cons_of_mem _ hy)⟩

theorem LoopInv.step {R : Nat} {q x : Rec} {xs : List Rec} (h : LoopInv R q (x :: xs)) (hx : x.rev ≤ R) :
    LoopInv R x xs :=
  ⟨hx, (List.pairwise_cons.mp h.sorted).2,
    fun y hy => recLe_of_recLt ((List.pairwise_cons.mp h.sorted).1 y hy)⟩

theorem LoopInv.init {R : Nat} {l : List Rec} (hs : SortedRecs l) : LoopInv R rec0 l :=
  ⟨Nat.zero_le _, hs, fun x _ => rec0_le x⟩

/-- every emission comes from `q` or a record of the list -/
theorem sLoop_mem_key {R : Nat} {q : Rec} {l : List Rec} {e : KV} (h : e ∈ sLoop R q l) :
    ∃ r, (r = q ∨ r ∈ l) ∧ r.key = e.1 := by
  induction l generalizing q with
  | nil =>
    simp only [sLoop, emitR] at h
    split at h
    · simp at h; exact ⟨q, .inl rfl, by simp [h]⟩
    · simp at h
  | cons x xs ih =>
    simp only [sLoop] at h
    split at h
    · obtain ⟨r, hr, hk⟩ := ih h
      exact ⟨r, hr.imp id (List.mem_cons_of_mem _), hk⟩
    · rcases List.mem_append.mp h with h | h
      · split at h
        · simp only [emitR] at h
          split at h
          · simp at h; exact ⟨q, .inl rfl, by simp [h]⟩
          · simp at h
        · simp at h
      · obtain ⟨r, hr, hk⟩ := ih h
        refine ⟨r, .inr ?_, hk⟩
        rcases hr with rfl | hr
        · simp
        · exact List.mem_cons_of_mem _ hr

theorem mem_emitR {q : Rec} {k v : Bytes} {r : Nat} {R : Nat} (hq : q.rev ≤ R) :
    (k, v, r) ∈ emitR q ↔ readOne (if vis R k q then some q else none) = some (v, r) := by
  unfold emitR readOne
  by_cases h1 : 0 < q.rev <;> by_cases h2 : isTomb q.val = true <;> by_cases h3 : q.key = k <;>
    simp [vis, h1, h2, h3, hq] <;> grind

theorem visible_cons_isSome {R : Nat} {x : Rec} {xs : List Rec} {k : Bytes} (h : vis R k x = true) :
    ∃ r, visible R (x :: xs) k = some r := by
  rw [visible_cons, h]
  cases visible R xs k <;> simp

theorem lt_key_not_vis {R : Nat} {k : Bytes} {x : Rec} (h : cmp k x.key = .lt) : vis R k x = false := by
  cases hv : vis R k x with
  | false => rfl
  | true =>
    have := (vis_iff.mp hv).1
    rw [this] at h; simp at h

theorem key_lt_of_recLe {a b : Rec} {c : Rec} (h : cmp a.key b.key = .lt) (h2 : recLe b c) :
    cmp a.key c.key = .lt := by
  rcases h2 with h2 | ⟨h2, _⟩
  · exact cmp_lt_trans h h2
  · exact h2 ▸ h

/-- Membership form of the loop: with the invariant, the loop emits exactly the snapshot of
`q :: l`. -/
theorem mem_sLoop {R : Nat} {q : Rec} {l : List Rec} (h : LoopInv R q l) (k v : Bytes) (r : Nat) :
    (k, v, r) ∈ sLoop R q l ↔ readOne (visible R (q :: l) k) = some (v, r) := by
  induction l generalizing q with
  | nil =>
    simp only [sLoop, visible_cons, visible_nil, Option.none_or]
    exact mem_emitR h.qR
  | cons x xs ih =>
    simp only [sLoop]
    by_cases hx : x.rev > R
    · simp only [hx, if_true]
      rw [ih h.tail]
      have hvx : vis R k x = false := by simp [vis]; omega
      rw [visible_cons R q (x :: xs), visible_cons_neg hvx, ← visible_cons]
    · have hx' : x.rev ≤ R := by omega
      simp only [hx, if_false, List.mem_append]
      rw [ih (h.step hx')]
      by_cases hk : x.key = q.key
      · simp only [hk, bne_self_eq_false, Bool.false_eq_true, if_false, List.not_mem_nil, false_or]
        rw [visible_cons R q (x :: xs)]
        cases hq : vis R k q with
        | false => simp
        | true =>
          have hq' := vis_iff.mp hq
          have hvx : vis R k x = true := by
            rw [vis_iff]
            rcases h.le x (by simp) with hlt | ⟨_, hle⟩
            · rw [hk] at hlt; simp at hlt
            · exact ⟨hk.trans hq'.1, by omega, hx'⟩
          obtain ⟨y, hy⟩ := visible_cons_isSome (xs := xs) hvx
          simp [hy]
      · have hne : (x.key != q.key) = true := by simpa using hk
        simp only [hne, if_true]
        have hlt : cmp q.key x.key = .lt := by
          rcases h.le x (by simp) with hlt | ⟨he, _⟩
          · exact hlt
          · exact absurd he.symm hk
        by_cases hqk : q.key = k
        · have hnone : visible R (x :: xs) k = none := by
            rw [visible_eq_none_iff]
            intro y hy
            apply lt_key_not_vis
            rw [← hqk]
            rcases List.mem_cons.mp hy with rfl | hy
            · exact hlt
            · exact key_lt_of_recLe hlt (recLe_of_recLt ((List.pairwise_cons.mp h.sorted).1 y hy))
          rw [visible_cons R q (x :: xs), hnone, mem_emitR h.qR]
          simp [readOne]
        · have hq : vis R k q = false := by simp [vis, hqk]
          rw [visible_cons_neg hq, mem_emitR (k := k) (v := v) (r := r) h.qR, hq]
          simp [readOne]

theorem visible_rec0_cons (R : Nat) (l : List Rec) (k : Bytes) : visible R (rec0 :: l) k = visible R l k :=
  visible_cons_neg (by simp [vis, rec0])

theorem mem_scanRecs_iff {recs : List Rec} (hs : SortedRecs recs) (R : Nat) (k v : Bytes) (r : Nat) :
    (k, v, r) ∈ scanRecs R recs ↔ readAt R recs k = some (v, r) := by
  rw [scanRecs_eq, mem_sLoop (LoopInv.init hs), visible_rec0_cons, readAt_def]

/-! ### sortedness of the output -/

theorem emitR_key {q : Rec} {e : KV} (h : e ∈ emitR q) : e.1 = q.key := by
  unfold emitR at h
  split at h
  · simp at h; simp [h]
  · simp at h

theorem emitR_pairwise (q : Rec) : (emitR q).Pairwise (fun a b : KV => cmp a.1 b.1 = .lt) := by
  unfold emitR; split <;> simp

theorem sLoop_sorted {R : Nat} {q : Rec} {l : List Rec} (h : LoopInv R q l) :
    (sLoop R q l).Pairwise (fun a b : KV => cmp a.1 b.1 = .lt) := by
  induction l generalizing q with
  | nil => simpa [sLoop] using emitR_pairwise q
  | cons x xs ih =>
    simp only [sLoop]
    by_cases hx : x.rev > R
    · simp only [hx, if_true]; exact ih h.tail
    · have hx' : x.rev ≤ R := by omega
      simp only [hx, if_false]
      by_cases hk : x.key = q.key
      · simpa [hk] using ih (h.step hx')
      · have hne : (x.key != q.key) = true := by simpa using hk
        simp only [hne, if_true]
        have hlt : cmp q.key x.key = .lt := by
          rcases h.le x (by simp) with hlt | ⟨he, _⟩
          · exact hlt
          · exact absurd he.symm hk
        rw [List.pairwise_append]
        refine ⟨emitR_pairwise q, ih (h.step hx'), ?_⟩
        intro a ha b hb
        rw [emitR_key ha]
        obtain ⟨y, hy, hyk⟩ := sLoop_mem_key hb
        rw [← hyk]
        rcases hy with rfl | hy
        · exact hlt
        · exact key_lt_of_recLe hlt (recLe_of_recLt ((List.pairwise_cons.mp h.sorted).1 y hy))

theorem scanRecs_sorted {recs : List Rec} (hs : SortedRecs recs) (R : Nat) :
    (scanRecs R recs).Pairwise (fun a b => cmp a.1 b.1 = .lt) := by
  rw [scanRecs_eq]; exact sLoop_sorted (LoopInv.init hs)

/-! ### re-reads -/

theorem visible_filter_live (R : Nat) (recs : List Rec) (k : Bytes) :
    visible R (recs.filter (fun r => decide (0 < r.rev) && decide (r.rev ≤ R))) k = visible R recs k := by
  rw [visible_def, visible_def, List.filter_filter]
  congr 1
  apply List.filter_congr
  intro x _
  simp only [vis]
  cases x.key == k <;> cases decide (0 < x.rev) <;> cases decide (x.rev ≤ R) <;> rfl

/-! ### point read (`getInternal`) -/

theorem applyLimit_one_head (q : Quirks) (l : List (Bytes × Bytes)) : (applyLimit q 1 l).head? = l.head? := by
  unfold applyLimit
  cases q.limitMode <;> simp [List.head?_take]

/-- decode-and-compare on the first hit -/
def getPost (key : Bytes) : Option (Bytes × Bytes) → Option (Bytes × Nat)
  | none => none
  | some (ik, v) =>
    match decode ik with
    | .ok k m => if m == 0 || k != key then none else some (v, m)
    | _ => none

theorem getInternal_eq (c : Cfg) (st : Store) (key : Bytes) (rev : Nat) :
    getInternal c st key rev =
      getPost key (iterate c.q st (encode key (if rev == 0 then 2 ^ 64 - 1 else rev)) (encode key 0) 1).head? := by
  unfold getInternal
  simp only []
  generalize iterate c.q st _ _ 1 = l
  cases l with
  | nil => rfl
  | cons x xs => obtain ⟨ik, v⟩ := x; rfl

theorem iterDesc_head (q : Quirks) (s : Store) (start stop : Bytes) :
    (iterDesc q s start stop).head? =
      if q.revFirstUnchecked then (s.filter (fun kv => ble kv.1 start)).getLast?
      else ((s.filter (fun kv => ble kv.1 start)).getLast?).filter (fun kv => blt stop kv.1) := by
  unfold iterDesc
  simp only []
  cases q.revFirstUnchecked with
  | true =>
    simp only [if_true]
    rw [← List.head?_reverse]
    cases (List.filter (fun kv => ble kv.1 start) s).reverse <;> rfl
  | false =>
    simp only [Bool.false_eq_true, if_false]
    rw [List.head?_takeWhile, List.head?_reverse]

theorem iterate_desc_head {q : Quirks} {s : Store} {start stop : Bytes} (h : cmp start stop = .gt) :
    (iterate q s start stop 1).head? = (iterDesc q s start stop).head? := by
  unfold iterate
  rw [applyLimit_one_head]
  simp [h]

/-- the records at or below `(k, R)` in `(key, revision)` order -/
def below (k : Bytes) (R : Nat) (r : Rec) : Bool := blt r.key k || (r.key == k && decide (r.rev ≤ R))

def encRec (r : Rec) : Bytes × Bytes := (encode r.key r.rev, r.val)

theorem encodeStore_def (recs : List Rec) : encodeStore recs = recs.map encRec := rfl

theorem filter_encodeStore_below {recs : List Rec} (hk : ∀ r ∈ recs, Alphabet r.key ∧ r.rev < 2 ^ 64)
    {k : Bytes} (hka : Alphabet k) {R : Nat} (hR : R < 2 ^ 64) :
    (encodeStore recs).filter (fun kv => ble kv.1 (encode k R)) = encodeStore (recs.filter (below k R)) := by
  rw [encodeStore_def, encodeStore_def, List.filter_map]
  congr 1
  apply List.filter_congr
  intro r hr
  obtain ⟨h1, h2⟩ := hk r hr
  simp only [Function.comp, encRec, below]
  rw [Bool.eq_iff_iff, C10.encode_le_iff h1 hka h2 hR]
  simp

theorem getLast?_filter_of_imp {α : Type} {P Q : α → Bool} {l : List α} {r : α}
    (h : (l.filter P).getLast? = some r) (himp : ∀ x, Q x = true → P x = true) (hq : Q r = true) :
    (l.filter Q).getLast? = some r := by
  have e : l.filter Q = (l.filter P).filter Q := by
    rw [List.filter_filter]
    apply List.filter_congr
    intro x _
    cases hx : Q x with
    | false => rfl
    | true => simp [himp x hx]
  obtain ⟨ys, hys⟩ := List.getLast?_eq_some_iff.mp h
  rw [e, hys, List.filter_append]
  simp [hq]

theorem pairwise_getLast {α : Type} {Rel : α → α → Prop} {l : List α} {r x : α}
    (hp : l.Pairwise Rel) (h : l.getLast? = some r) (hx : x ∈ l) : x = r ∨ Rel x r := by
  obtain ⟨ys, rfl⟩ := List.getLast?_eq_some_iff.mp h
  rw [List.pairwise_append] at hp
  rcases List.mem_append.mp hx with hx | hx
  · exact .inr (hp.2.2 x hx r (by simp))
  · exact .inl (by simpa using hx)

theorem vis_imp_below {k : Bytes} {R : Nat} (x : Rec) (h : vis R k x = true) : below k R x = true := by
  have := vis_iff.mp h
  simp [below, this.1, this.2.2]

theorem visible_of_below_last {recs : List Rec} (hs : SortedRecs recs) {k : Bytes} {R : Nat} :
    visible R recs k = ((recs.filter (below k R)).getLast?).filter (vis R k) := by
  cases h : (recs.filter (below k R)).getLast? with
  | none =>
    rw [List.getLast?_eq_none_iff, List.filter_eq_nil_iff] at h
    simp only [Option.filter_none]
    rw [visible_eq_none_iff]
    intro x hx
    cases hv : vis R k x with
    | false => rfl
    | true => exact absurd (vis_imp_below x hv) (h x hx)
  | some r =>
    cases hv : vis R k r with
    | true =>
      simp only [Option.filter_some, hv, if_true]
      exact getLast?_filter_of_imp h vis_imp_below hv
    | false =>
      simp only [Option.filter_some, hv, Bool.false_eq_true, if_false]
      rw [visible_eq_none_iff]
      intro x hx
      cases hvx : vis R k x with
      | false => rfl
      | true =>
        exfalso
        have hxm : x ∈ recs.filter (below k R) := List.mem_filter.mpr ⟨hx, vis_imp_below x hvx⟩
        have hrm := List.mem_filter.mp (List.mem_of_getLast? h)
        have hx' := vis_iff.mp hvx
        have hrb : blt r.key k = true ∨ (r.key = k ∧ r.rev ≤ R) := by simpa [below] using hrm.2
        rcases pairwise_getLast (List.Pairwise.filter _ hs) h hxm with rfl | hlt
        · rw [hv] at hvx; exact Bool.noConfusion hvx
        · rcases hlt with hlt | ⟨he, hlt⟩
          · rw [hx'.1] at hlt
            rcases hrb with hrb | ⟨hrb, _⟩
            · have := cmp_lt_trans hlt (blt_iff.mp hrb); simp at this
            · rw [hrb] at hlt; simp at hlt
          · have hrk : r.key = k := he ▸ hx'.1
            have : vis R k r = true := by
              rw [vis_iff]
              rcases hrb with hrb | ⟨_, hrb⟩
              · rw [hrk] at hrb; simp [blt] at hrb
              · exact ⟨hrk, by omega, hrb⟩
            rw [hv] at this; exact Bool.noConfusion this

theorem getPost_encRec {k : Bytes} {R : Nat} {r : Rec} (hr : r.rev < 2 ^ 64) (hb : below k R r = true) :
    getPost k (some (encRec r)) = ((some r).filter (vis R k)).map (fun r => (r.val, r.rev)) := by
  simp only [getPost, encRec, decode_encode r.key r.rev hr, Option.filter_some]
  have hrb : blt r.key k = true ∨ (r.key = k ∧ r.rev ≤ R) := by simpa [below] using hb
  by_cases h0 : r.rev = 0
  · simp [h0, vis]
  · by_cases hk : r.key = k
    · have : r.rev ≤ R := by
        rcases hrb with hrb | ⟨_, h⟩
        · rw [hk] at hrb; simp [blt] at hrb
        · exact h
      have h0' : 0 < r.rev := by omega
      simp [h0, hk, vis, this, h0']
    · simp [hk, vis]

theorem getInternal_encodeStore (c : Cfg) {recs : List Rec} (hs : SortedRecs recs)
    (hk : ∀ r ∈ recs, Alphabet r.key ∧ r.rev < 2 ^ 64) (k : Bytes) (hka : Alphabet k)
    (R : Nat) (hR : R < 2 ^ 64) :
    getInternal c (encodeStore recs) k R =
      (visible (if R == 0 then 2 ^ 64 - 1 else R) recs k).map (fun r => (r.val, r.rev)) := by
  rw [getInternal_eq]
  generalize hR' : (if R == 0 then 2 ^ 64 - 1 else R) = R'
  have hR'lt : R' < 2 ^ 64 := by
    rw [← hR']; split
    · exact Nat.sub_lt (Nat.pow_pos (by decide)) (by decide)
    · exact hR
  have hR'pos : 0 < R' := by
    rw [← hR']; split
    · decide
    · rename_i h; simp at h; omega
  have hgt : cmp (encode k R') (encode k 0) = .gt := by
    rw [encode_cmp hka hka hR'lt (by decide)]
    simp [Nat.compare_eq_gt, hR'pos]
  rw [iterate_desc_head hgt, iterDesc_head, filter_encodeStore_below hk hka hR'lt,
    visible_of_below_last hs, encodeStore_def, List.getLast?_map]
  cases hl : (recs.filter (below k R')).getLast? with
  | none => simp [getPost]
  | some r =>
    have hrm := List.mem_filter.mp (List.mem_of_getLast? hl)
    have hrlt := (hk r hrm.1).2
    have hra := (hk r hrm.1).1
    rw [← getPost_encRec hrlt hrm.2]
    simp only [Option.map_some]
    cases c.q.revFirstUnchecked with
    | true => rfl
    | false =>
      simp only [Bool.false_eq_true, if_false, Option.filter_some]
      split
      · rfl
      · rename_i hnb
        -- the end-bound check rejects `r`: then `r` is an index record or another key
        have hnb' : ¬ (blt k r.key = true ∨ (k = r.key ∧ 0 < r.rev)) := by
          rw [← C10.encode_lt_iff hka hra (by decide) hrlt]; exact hnb
        have hv : vis R' k r = false := by
          cases hv : vis R' k r with
          | false => rfl
          | true =>
            have := vis_iff.mp hv
            exact absurd (.inr ⟨this.1.symm, this.2.1⟩) hnb'
        rw [getPost_encRec hrlt hrm.2, Option.filter_some, hv]
        rfl

/-! ### range reads over an encoded store -/

theorem Store.get_some_mem {s : Store} {key v : Bytes} (h : s.get key = some v) : ∃ kv ∈ s, kv.1 = key := by
  induction s with
  | nil => simp [Store.get] at h
  | cons x xs ih =>
    obtain ⟨k, w⟩ := x
    simp only [Store.get] at h
    cases hc : cmp key k with
    | lt => simp [hc] at h
    | eq => exact ⟨(k, w), by simp, (cmp_eq_iff.mp hc).symm⟩
    | gt =>
      simp only [hc] at h
      obtain ⟨kv, hm, hk⟩ := ih h
      exact ⟨kv, List.mem_cons_of_mem _ hm, hk⟩

/-- The compaction record's key is never an object key: its 9th byte from the end is `'m'`,
that of an encoded key is the split byte. -/
theorem compactKeyOf_ne_encode (c : Cfg) (k : Bytes) (r : Nat) : compactKeyOf c ≠ encode k r := by
  intro h
  have := congrArg (fun l => l.reverse[8]?) h
  simp [compactKeyOf, compactKeyName, encode, be64, beN, splitByte] at this

theorem get_compactKey_encodeStore (c : Cfg) (recs : List Rec) :
    (encodeStore recs).get (compactKeyOf c) = none := by
  cases h : (encodeStore recs).get (compactKeyOf c) with
  | none => rfl
  | some v =>
    obtain ⟨kv, hm, hk⟩ := Store.get_some_mem h
    rw [encodeStore_def, List.mem_map] at hm
    obtain ⟨r, _, rfl⟩ := hm
    exact absurd hk.symm (compactKeyOf_ne_encode c r.key r.rev)

theorem belowFloor_encodeStore (c : Cfg) (recs : List Rec) (rev : Nat) :
    belowFloor c (encodeStore recs) rev = false := by
  simp [belowFloor, floorOf, get_compactKey_encodeStore]

theorem scanPartitions_single {c : Cfg} (h : c.splits = []) (start stop : Bytes) :
    scanPartitions c start stop = some [(start, stop)] := by
  simp [scanPartitions, partitions, h, sortParts, insertPart, adjustBorders]

/-- the raw-key range predicate of a scan -/
def inRange (a b : Bytes) (r : Rec) : Bool := ble a r.key && blt r.key b

theorem iterate_asc_encodeStore (q : Quirks) {recs : List Rec}
    (hk : ∀ r ∈ recs, Alphabet r.key ∧ r.rev < 2 ^ 64) {a b : Bytes} (ha : Alphabet a) (hb : Alphabet b)
    (hab : cmp a b = .lt) :
    iterate q (encodeStore recs) (encode a 0) (encode b 0) 0 = encodeStore (recs.filter (inRange a b)) := by
  have hne : a ≠ b := by intro e; rw [e] at hab; simp at hab
  have hlt : cmp (encode a 0) (encode b 0) = .lt := by
    rw [encode_cmp ha hb (by decide) (by decide)]; simp [hne, hab]
  simp only [iterate, applyLimit, hlt, if_true, iterAsc]
  rw [encodeStore_def, encodeStore_def, List.filter_map]
  congr 1
  apply List.filter_congr
  intro r hr
  obtain ⟨h1, h2⟩ := hk r hr
  simp only [Function.comp, encRec, inRange]
  rw [Bool.eq_iff_iff, Bool.and_eq_true, Bool.and_eq_true]
  exact C10.range_bounds_exact ha hb h1 h2

/-- a record as the worker decodes it from the encoded store -/
def reKey (r : Rec) : Rec := { r with ik := encode r.key r.rev }

theorem decodeRecs_encodeStore {l : List Rec} (h : ∀ r ∈ l, r.rev < 2 ^ 64) :
    decodeRecs (encodeStore l) = some (l.map reKey) := by
  induction l with
  | nil => rfl
  | cons x xs ih =>
    have hx := h x (by simp)
    have ih' := ih (fun r hr => h r (List.mem_cons_of_mem _ hr))
    rw [encodeStore_def] at ih' ⊢
    simp only [List.map_cons, encRec, decodeRecs, decode_encode x.key x.rev hx]
    rw [ih']
    rfl

theorem sLoop_map_reKey (R : Nat) (q q' : Rec) (hq : q.key = q'.key ∧ q.rev = q'.rev ∧ q.val = q'.val)
    (l : List Rec) : sLoop R q (l.map reKey) = sLoop R q' l := by
  have hemit : ∀ {q q' : Rec}, (q.key = q'.key ∧ q.rev = q'.rev ∧ q.val = q'.val) → emitR q = emitR q' := by
    intro q q' h; simp [emitR, h.1, h.2.1, h.2.2]
  induction l generalizing q q' with
  | nil => simpa [sLoop] using hemit hq
  | cons x xs ih =>
    simp only [List.map_cons, sLoop]
    have hx : (reKey x).key = x.key ∧ (reKey x).rev = x.rev ∧ (reKey x).val = x.val := ⟨rfl, rfl, rfl⟩
    rw [ih q q' hq, ih (reKey x) x hx, hemit hq, hx.1, hx.2.1, hq.1]

theorem emits_decoded {c : WCfg} (hc : c.Plain) (l : List Rec) :
    emitsOf (workerActs c (l.map reKey)) = scanRecs c.R l := by
  rw [emitsOf_workerActs hc, scanRecs_eq, sLoop_map_reKey c.R rec0 rec0 ⟨rfl, rfl, rfl⟩]

theorem scanParts_encodeStore (c : Cfg) (hsplit : c.splits = []) {recs : List Rec}
    (hk : ∀ r ∈ recs, Alphabet r.key ∧ r.rev < 2 ^ 64) {a b : Bytes} (ha : Alphabet a) (hb : Alphabet b)
    (hab : cmp a b = .lt) (rev : Nat) :
    scanParts c (encodeStore recs) (encode a 0) (encode b 0) rev =
      .ok [scanRecs rev (recs.filter (inRange a b))] := by
  have hdec : decodeRecs (encodeStore (recs.filter (inRange a b))) = some ((recs.filter (inRange a b)).map reKey) :=
    decodeRecs_encodeStore (fun r hr => (hk r (List.mem_filter.mp hr).1).2)
  have hplain : WCfg.Plain { R := rev, supportTTL := c.q.supportTTL } := ⟨rfl, rfl⟩
  simp only [scanParts, belowFloor_encodeStore, Bool.false_eq_true, if_false,
    scanPartitions_single hsplit, List.map_cons, List.map_nil, iterate_asc_encodeStore c.q hk ha hb hab,
    hdec, hasPanic_workerActs hplain, emits_decoded hplain]
  simp

theorem scanLimited_encodeStore (c : Cfg) {recs : List Rec}
    (hk : ∀ r ∈ recs, Alphabet r.key ∧ r.rev < 2 ^ 64) {a b : Bytes} (ha : Alphabet a) (hb : Alphabet b)
    (hab : cmp a b = .lt) (rev lim : Nat) :
    scanLimited c (encodeStore recs) (encode a 0) (encode b 0) rev lim =
      .ok ((scanRecs rev (recs.filter (inRange a b))).take lim) := by
  have hdec : decodeRecs (encodeStore (recs.filter (inRange a b))) = some ((recs.filter (inRange a b)).map reKey) :=
    decodeRecs_encodeStore (fun r hr => (hk r (List.mem_filter.mp hr).1).2)
  have hplain : WCfg.Plain { R := rev, supportTTL := c.q.supportTTL } := ⟨rfl, rfl⟩
  simp only [scanLimited, belowFloor_encodeStore, Bool.false_eq_true, if_false,
    iterate_asc_encodeStore c.q hk ha hb hab, hdec, emits_decoded hplain]

theorem not_isEmpty_of_lt {a b : Bytes} (hab : cmp a b = .lt) : b.isEmpty = false := by
  cases b with
  | nil => cases a <;> simp at hab
  | cons _ _ => rfl

theorem doList_unlimited (c : Cfg) (hsplit : c.splits = []) (s : BState) {recs : List Rec}
    (hstore : s.store = encodeStore recs) (hk : ∀ r ∈ recs, Alphabet r.key ∧ r.rev < 2 ^ 64)
    {a b : Bytes} (ha : Alphabet a) (hb : Alphabet b) (hab : cmp a b = .lt) (R : Nat) :
    doList c s a b R 0 =
      .ok { hdr := hdrOf s.committed (scanRecs (if R == 0 then s.committed else R) (recs.filter (inRange a b))),
            more := false,
            kvs := scanRecs (if R == 0 then s.committed else R) (recs.filter (inRange a b)) } := by
  simp [doList, not_isEmpty_of_lt hab, hab, hstore, encodeBound_of_alphabet ha, encodeBound_of_alphabet hb,
    scanParts_encodeStore c hsplit hk ha hb hab]

theorem doList_limited (c : Cfg) (s : BState) {recs : List Rec}
    (hstore : s.store = encodeStore recs) (hk : ∀ r ∈ recs, Alphabet r.key ∧ r.rev < 2 ^ 64)
    {a b : Bytes} (ha : Alphabet a) (hb : Alphabet b) (hab : cmp a b = .lt) (R : Nat) {n : Nat} (hn : 0 < n) :
    doList c s a b R n =
      .ok { hdr := hdrOf s.committed ((scanRecs (if R == 0 then s.committed else R) (recs.filter (inRange a b))).take n),
            more := decide (n < (scanRecs (if R == 0 then s.committed else R) (recs.filter (inRange a b))).length),
            kvs := (scanRecs (if R == 0 then s.committed else R) (recs.filter (inRange a b))).take n } := by
  simp only [doList, not_isEmpty_of_lt hab, hab, hstore, encodeBound_of_alphabet ha, encodeBound_of_alphabet hb,
    scanLimited_encodeStore c hk ha hb hab]
  have hmin : min n (n + 1) = n := by omega
  simp only [Bool.false_eq_true, if_false, bne_self_eq_false, gt_iff_lt, hn, if_true, List.length_take,
    List.take_take, hmin]
  congr 2
  apply decide_eq_decide.mpr; omega

theorem doCount_encodeStore (c : Cfg) (hsplit : c.splits = []) (hcompat : c.etcdCompat = true) (s : BState)
    {recs : List Rec} (hstore : s.store = encodeStore recs) (hk : ∀ r ∈ recs, Alphabet r.key ∧ r.rev < 2 ^ 64)
    {a b : Bytes} (ha : Alphabet a) (hb : Alphabet b) (hab : cmp a b = .lt) :
    doCount c s a b = .ok (s.committed, (scanRecs s.committed (recs.filter (inRange a b))).length) := by
  simp [doCount, hcompat, hstore, encodeBound_of_alphabet ha, encodeBound_of_alphabet hb,
    scanParts_encodeStore c hsplit hk ha hb hab]

end KB
