/- Helper lemmas for C12 (independence of the engine's open choices). -/
import KB.Lemmas.Scan
namespace KB
end KB
