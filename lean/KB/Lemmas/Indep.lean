/- Helper lemmas for C12 (independence of the engine's open choices). -/
import KB.Lemmas.Scan
namespace KB
open Generated

/-! ### unlimited iteration: where `Quirks` can and cannot enter -/

/-- An unlimited iteration that is not descending ignores the quirks altogether. -/
theorem iterate_zero_of_not_gt (q1 q2 : Quirks) (s : Store) {a b : Bytes} (h : cmp a b ≠ .gt) :
    iterate q1 s a b 0 = iterate q2 s a b 0 := by
  simp [iterate, applyLimit, h]

/-- An unlimited iteration depends on the quirks only through `revFirstUnchecked`. -/
theorem iterate_zero_of_rev {q1 q2 : Quirks} (hr : q1.revFirstUnchecked = q2.revFirstUnchecked)
    (s : Store) (a b : Bytes) : iterate q1 s a b 0 = iterate q2 s a b 0 := by
  simp [iterate, applyLimit, iterDesc, hr]

theorem belowFloor_congr {c1 c2 : Cfg} (hp : c1.pfx = c2.pfx) (st : Store) (rev : Nat) :
    belowFloor c1 st rev = belowFloor c2 st rev := by
  simp [belowFloor, floorOf, compactKeyOf, hp]

theorem scanPartitions_congr {c1 c2 : Cfg} (hs : c1.splits = c2.splits) (a b : Bytes) :
    scanPartitions c1 a b = scanPartitions c2 a b := by
  simp [scanPartitions, hs]

theorem scanLimited_congr {c1 c2 : Cfg} (hp : c1.pfx = c2.pfx) (ht : c1.q.supportTTL = c2.q.supportTTL)
    {st : Store} {a b : Bytes} (hit : iterate c1.q st a b 0 = iterate c2.q st a b 0) (rev lim : Nat) :
    scanLimited c1 st a b rev lim = scanLimited c2 st a b rev lim := by
  simp only [scanLimited, belowFloor_congr hp, hit, ht]

/-- one partition's worker output, as in `scanParts` -/
def partWorker (q : Quirks) (st : Store) (rev : Nat) (p : Bytes × Bytes) : Option (List KV) :=
  match decodeRecs (iterate q st p.1 p.2 0) with
  | none => none
  | some recs =>
    let acts := workerActs { R := rev, supportTTL := q.supportTTL } recs
    if hasPanic acts then none else some (emitsOf acts)

theorem scanParts_unfold (c : Cfg) (st : Store) (a b : Bytes) (rev : Nat) :
    scanParts c st a b rev =
      if belowFloor c st rev then .error .belowFloor else
      match scanPartitions c a b with
      | none => .panic
      | some parts =>
        if (parts.map (partWorker c.q st rev)).any Option.isNone then .panic
        else .ok ((parts.map (partWorker c.q st rev)).filterMap id) := rfl

theorem partWorker_congr {q1 q2 : Quirks} (ht : q1.supportTTL = q2.supportTTL) {st : Store} {p : Bytes × Bytes}
    (hit : iterate q1 st p.1 p.2 0 = iterate q2 st p.1 p.2 0) (rev : Nat) :
    partWorker q1 st rev p = partWorker q2 st rev p := by
  simp only [partWorker, hit, ht]

theorem scanParts_congr {c1 c2 : Cfg} (hp : c1.pfx = c2.pfx) (hs : c1.splits = c2.splits)
    (ht : c1.q.supportTTL = c2.q.supportTTL) {st : Store} {a b : Bytes}
    (hit : ∀ parts, scanPartitions c1 a b = some parts →
      ∀ p ∈ parts, iterate c1.q st p.1 p.2 0 = iterate c2.q st p.1 p.2 0) (rev : Nat) :
    scanParts c1 st a b rev = scanParts c2 st a b rev := by
  rw [scanParts_unfold, scanParts_unfold, belowFloor_congr hp, ← scanPartitions_congr hs]
  split
  · rfl
  · cases hsp : scanPartitions c1 a b with
    | none => rfl
    | some parts =>
      have hm : parts.map (partWorker c1.q st rev) = parts.map (partWorker c2.q st rev) :=
        List.map_congr_left (fun p hp' => partWorker_congr ht (hit parts hsp p hp') rev)
      simp only [hm]

theorem doList_congr {c1 c2 : Cfg} {s : BState} {a b : Bytes} {R n : Nat}
    (h1 : cmp a b = .lt → ∀ rev lim, scanLimited c1 s.store (encodeBound a) (encodeBound b) rev lim =
      scanLimited c2 s.store (encodeBound a) (encodeBound b) rev lim)
    (h2 : cmp a b = .lt → ∀ rev, scanParts c1 s.store (encodeBound a) (encodeBound b) rev =
      scanParts c2 s.store (encodeBound a) (encodeBound b) rev) :
    doList c1 s a b R n = doList c2 s a b R n := by
  by_cases hab : cmp a b = .lt
  · simp only [doList, h1 hab, h2 hab]
  · simp [doList, hab]

/-- Range reads agree when the two engines agree on `revFirstUnchecked` (any store, any bounds). -/
theorem doList_indep_of_rev {c1 c2 : Cfg} (hp : c1.pfx = c2.pfx) (hs : c1.splits = c2.splits)
    (ht : c1.q.supportTTL = c2.q.supportTTL) (hr : c1.q.revFirstUnchecked = c2.q.revFirstUnchecked)
    (s : BState) (a b : Bytes) (R n : Nat) : doList c1 s a b R n = doList c2 s a b R n :=
  doList_congr (fun _ => scanLimited_congr hp ht (iterate_zero_of_rev hr _ _ _))
    (fun _ => scanParts_congr hp hs ht (fun _ _ _ _ => iterate_zero_of_rev hr _ _ _))

/-- Range reads agree, whatever the engines' choices, when every iteration is ascending — for ARBITRARY bounds:
the encoded bounds of a proper raw interval never run backwards (`encodeBound_mono`, /repo 23c8b93), so only the
(adjusted) partitions have to be ascending. -/
theorem doList_indep_of_ascending' {c1 c2 : Cfg} (hp : c1.pfx = c2.pfx) (hs : c1.splits = c2.splits)
    (ht : c1.q.supportTTL = c2.q.supportTTL) (s : BState) (a b : Bytes)
    (hasc : ∀ parts, scanPartitions c1 (encodeBound a) (encodeBound b) = some parts → ∀ p ∈ parts, cmp p.1 p.2 ≠ .gt)
    (R n : Nat) : doList c1 s a b R n = doList c2 s a b R n := by
  refine doList_congr (fun hab => ?_) (fun _ => ?_)
  · exact scanLimited_congr hp ht (iterate_zero_of_not_gt _ _ _ (encodeBound_mono hab))
  · exact scanParts_congr hp hs ht (fun parts hsp p hpm => iterate_zero_of_not_gt _ _ _ (hasc parts hsp p hpm))

/-- Range reads agree, whatever the engines' choices, when every iteration is ascending: bounds
over the alphabet and no (adjusted) partition runs backwards. -/
theorem doList_indep_of_ascending {c1 c2 : Cfg} (hp : c1.pfx = c2.pfx) (hs : c1.splits = c2.splits)
    (ht : c1.q.supportTTL = c2.q.supportTTL) (s : BState) {a b : Bytes} (ha : Alphabet a) (hb : Alphabet b)
    (hasc : ∀ parts, scanPartitions c1 (encode a 0) (encode b 0) = some parts → ∀ p ∈ parts, cmp p.1 p.2 ≠ .gt)
    (R n : Nat) : doList c1 s a b R n = doList c2 s a b R n := by
  refine doList_indep_of_ascending' hp hs ht s a b ?_ R n
  rw [encodeBound_of_alphabet ha, encodeBound_of_alphabet hb]   -- bounds over the alphabet: the index keys, as before
  exact hasc

/-- ... in particular on an engine with a single partition — for ARBITRARY bounds. -/
theorem doList_indep_single' {c1 c2 : Cfg} (hp : c1.pfx = c2.pfx) (hs : c1.splits = c2.splits)
    (ht : c1.q.supportTTL = c2.q.supportTTL) (hsplit : c1.splits = []) (s : BState) (a b : Bytes)
    (R n : Nat) : doList c1 s a b R n = doList c2 s a b R n := by
  by_cases hab : cmp a b = .lt
  · refine doList_indep_of_ascending' hp hs ht s a b ?_ R n
    intro parts hsp p hpm
    rw [scanPartitions_single hsplit] at hsp
    cases hsp
    simp only [List.mem_singleton] at hpm
    subst hpm
    exact encodeBound_mono hab
  · simp [doList, hab]

theorem doList_indep_single {c1 c2 : Cfg} (hp : c1.pfx = c2.pfx) (hs : c1.splits = c2.splits)
    (ht : c1.q.supportTTL = c2.q.supportTTL) (hsplit : c1.splits = []) (s : BState) {a b : Bytes}
    (_ha : Alphabet a) (_hb : Alphabet b) (R n : Nat) : doList c1 s a b R n = doList c2 s a b R n :=
  doList_indep_single' hp hs ht hsplit s a b R n

/-- the shape of the C12 statement for range reads, on equal results -/
theorem listRes_match_self (x : ScanRes ListRes) :
    (match x, x with
     | .ok r1, .ok r2 => r1.hdr = r2.hdr ∧ r1.more = r2.more ∧ r1.kvs = r2.kvs
     | .error e1, .error e2 => e1 = e2
     | .panic, .panic => True
     | _, _ => False) := by
  cases x <;> simp

/-! ### point reads on a well-formed store -/

theorem bget_encodeStore_indep (c1 c2 : Cfg) {recs : List Rec} (hs : SortedRecs recs)
    (hk : ∀ r ∈ recs, Alphabet r.key ∧ r.rev < 2 ^ 64) (k : Bytes) (hka : Alphabet k)
    (R : Nat) (hR : R < 2 ^ 64) :
    bget c1 (encodeStore recs) k R = bget c2 (encodeStore recs) k R := by
  simp only [bget, getInternal_encodeStore c1 hs hk k hka R hR, getInternal_encodeStore c2 hs hk k hka R hR]

theorem doGet_encodeStore_indep (c1 c2 : Cfg) (s : BState) {recs : List Rec} (hst : s.store = encodeStore recs)
    (hs : SortedRecs recs) (hk : ∀ r ∈ recs, Alphabet r.key ∧ r.rev < 2 ^ 64) (k : Bytes) (hka : Alphabet k)
    (R : Nat) (hR : R < 2 ^ 64) : doGet c1 s k R = doGet c2 s k R := by
  simp only [doGet, hst, bget_encodeStore_indep c1 c2 hs hk k hka R hR]

theorem sequence_store (s : BState) (w : WEvent) : (sequence s w).store = s.store := by
  unfold sequence; split <;> rfl

/-! ### commits: same class, same store -/

/-- Two engine-level commit results that agree up to the shape of the conflict error. -/
inductive ApplySame : Except CommitErr Store → Except CommitErr Store → Prop
  | ok (s : Store) : ApplySame (.ok s) (.ok s)
  | conflict (i : Option Nat) (v : Option Bytes) (i' : Option Nat) (v' : Option Bytes) :
      ApplySame (.error (.conflict i v)) (.error (.conflict i' v'))

theorem applyOp_same {q1 q2 : Quirks} (h1 : q1.casMissingNotFound = false) (h2 : q2.casMissingNotFound = false)
    (s : Store) (idx : Nat) (op : BOp) : ApplySame (applyOp q1 s idx op) (applyOp q2 s idx op) := by
  cases op with
  | pine k v =>
    simp only [applyOp]
    cases s.get k with
    | none => exact .ok _
    | some old => exact .conflict _ _ _ _
  | cas k new old =>
    simp only [applyOp, h1, h2]
    cases s.get k with
    | none => exact .conflict _ _ _ _
    | some cur =>
      by_cases hc : cur = old
      · simp only [hc, if_true]; exact .ok _
      · simp only [hc, if_false]; exact .conflict _ _ _ _
  | put k v => exact .ok _
  | del k => exact .ok _
  | delcur k v =>
    simp only [applyOp]
    cases s.get k with
    | none => exact .conflict _ _ _ _
    | some cur =>
      by_cases hc : cur = v
      · simp only [hc, if_true]; exact .ok _
      · simp only [hc, if_false]; exact .conflict _ _ _ _

theorem applyOps_same {q1 q2 : Quirks} (h1 : q1.casMissingNotFound = false) (h2 : q2.casMissingNotFound = false)
    (s : Store) (idx : Nat) (ops : List BOp) : ApplySame (applyOps q1 s idx ops) (applyOps q2 s idx ops) := by
  induction ops generalizing s idx with
  | nil => exact .ok _
  | cons op ops ih =>
    simp only [applyOps]
    have h := applyOp_same h1 h2 s idx op
    generalize applyOp q1 s idx op = x at h
    generalize applyOp q2 s idx op = y at h
    cases h with
    | ok s' => exact ih s' (idx + 1)
    | conflict i v i' v' => exact .conflict _ _ _ _

/-- Two backend-level commit results on store `st`: same class, same resulting store; a failed
condition leaves the store alone. -/
inductive CommitSame (st : Store) : CommitRes × Store → CommitRes × Store → Prop
  | ok (st' : Store) : CommitSame st (.ok, st') (.ok, st')
  | conflict (i : Option Nat) (v : Option Bytes) (i' : Option Nat) (v' : Option Bytes) :
      CommitSame st (.conflict i v, st) (.conflict i' v', st)
  | uncertain (st' : Store) : CommitSame st (.uncertain, st') (.uncertain, st')
  | err (st' : Store) : CommitSame st (.err, st') (.err, st')

theorem doCommit_same {c1 c2 : Cfg} (h1 : c1.q.casMissingNotFound = false) (h2 : c2.q.casMissingNotFound = false)
    (st : Store) (ops : List BOp) (f : Fault) : CommitSame st (doCommit c1 st ops f) (doCommit c2 st ops f) := by
  have h := applyOps_same h1 h2 st 0 ops
  simp only [doCommit, commit]
  generalize applyOps c1.q st 0 ops = x at h
  generalize applyOps c2.q st 0 ops = y at h
  cases h with
  | ok s' => cases f <;> constructor
  | conflict i v i' v' => exact .conflict _ _ _ _

/-! ### the creator -/

/-- results of `creatorCreate` that agree up to the shape of the conflict -/
inductive CreateSame (st : Store) : CommitRes × Store × List Fault → CommitRes × Store × List Fault → Prop
  | ok (st' : Store) (fs : List Fault) : CreateSame st (.ok, st', fs) (.ok, st', fs)
  | conflict (i : Option Nat) (v : Option Bytes) (i' : Option Nat) (v' : Option Bytes) (fs : List Fault) :
      CreateSame st (.conflict i v, st, fs) (.conflict i' v', st, fs)
  | uncertain (st' : Store) (fs : List Fault) : CreateSame st (.uncertain, st', fs) (.uncertain, st', fs)
  | err (st' : Store) (fs : List Fault) : CreateSame st (.err, st', fs) (.err, st', fs)

theorem CommitSame.toCreate {st : Store} {x y : CommitRes × Store} (h : CommitSame st x y) (fs : List Fault) :
    CreateSame st (x.1, x.2, fs) (y.1, y.2, fs) := by
  cases h <;> constructor

/-- the first batch of the creator when the index record exists: the `pine` at position 0 fails
and carries the stored index value -/
theorem doCommit_pine_some (c : Cfg) {st : Store} {ik old : Bytes} (h : st.get ik = some old)
    (v k2 v2 : Bytes) (f : Fault) :
    doCommit c st [BOp.pine ik v, BOp.put k2 v2] f = (.conflict (some c.q.idxOffset) (some old), st) := by
  simp [doCommit, commit, applyOps, applyOp, h]

/-- ... and when it does not exist: the batch is applied, whatever the engine -/
theorem doCommit_pine_none (c : Cfg) {st : Store} {ik : Bytes} (h : st.get ik = none)
    (v k2 v2 : Bytes) (f : Fault) :
    doCommit c st [BOp.pine ik v, BOp.put k2 v2] f =
      (match f with
       | .none => (.ok, (st.put ik v).put k2 v2)
       | .err => (.err, st)
       | .uncApplied => (.uncertain, (st.put ik v).put k2 v2)
       | .uncNotApplied => (.uncertain, st)) := by
  cases f <;> simp [doCommit, commit, applyOps, applyOp, h]

theorem creatorCreate_same {c1 c2 : Cfg} (h1 : c1.q.casMissingNotFound = false)
    (h2 : c2.q.casMissingNotFound = false) (h3 : c1.creatorTombAboveIsCf = c2.creatorTombAboveIsCf) (st : Store) (key val : Bytes) (rev : Nat) (fs : List Fault) :
    CreateSame st (creatorCreate c1 st key val rev fs) (creatorCreate c2 st key val rev fs) := by
  cases hg : st.get (idxKey key) with
  | none =>
    unfold creatorCreate
    simp only [doCommit_pine_none _ hg]
    cases (nextFault fs).1 <;> simp only [] <;> constructor
  | some old =>
    unfold creatorCreate
    simp only [doCommit_pine_some _ hg, hg, Option.getD_some, ite_self]
    cases hp : parseRevision old with
    | none => exact .err _ _
    | some pr =>
      obtain ⟨prevRev, tomb⟩ := pr
      simp only []
      split
      · exact (doCommit_same h1 h2 st _ _).toCreate _
      · unfold tombAbove
        rw [h3]
        split
        · exact .err _ _
        · exact .conflict _ _ _ _ _

/-! ### writes -/

theorem doCreate_indep {c1 c2 : Cfg} (h1 : c1.q.casMissingNotFound = false)
    (h2 : c2.q.casMissingNotFound = false) (h3 : c1.creatorTombAboveIsCf = c2.creatorTombAboveIsCf) (s : BState) (key val : Bytes) (fs : List Fault) :
    doCreate c1 s key val fs = doCreate c2 s key val fs := by
  unfold doCreate
  simp only []
  have h := creatorCreate_same h1 h2 h3 s.store key val (s.dealt + 1) fs
  generalize creatorCreate c1 s.store key val (s.dealt + 1) fs = x at h ⊢
  generalize creatorCreate c2 s.store key val (s.dealt + 1) fs = y at h ⊢
  cases h <;> rfl

theorem conflict_beq_ok (i : Option Nat) (v : Option Bytes) : (CommitRes.conflict i v == CommitRes.ok) = false := by
  simp

theorem conflict_beq_uncertain (i : Option Nat) (v : Option Bytes) :
    (CommitRes.conflict i v == CommitRes.uncertain) = false := by
  simp

theorem doUpdate_indep {c1 c2 : Cfg} (h1 : c1.q.casMissingNotFound = false)
    (h2 : c2.q.casMissingNotFound = false) (h3 : c1.creatorTombAboveIsCf = c2.creatorTombAboveIsCf) (s : BState)
    (key val : Bytes) (hb : bget c1 s.store key 0 = bget c2 s.store key 0)
    (exp : Nat) (fs : List Fault) :
    doUpdate c1 s key val exp fs = doUpdate c2 s key val exp fs := by
  unfold doUpdate
  simp only []
  split
  · have h := creatorCreate_same h1 h2 h3 s.store key val (s.dealt + 1) fs
    generalize creatorCreate c1 s.store key val (s.dealt + 1) fs = x at h ⊢
    generalize creatorCreate c2 s.store key val (s.dealt + 1) fs = y at h ⊢
    cases h with
    | conflict i v i' v' fs' => simp only [sequence_store, hb, conflict_beq_ok, conflict_beq_uncertain]
    | _ => rfl
  · split
    · rfl
    · have h := doCommit_same h1 h2 s.store
        [BOp.cas (idxKey key) (be8 (s.dealt + 1)) (be8 exp), BOp.put (encode key (s.dealt + 1)) val] (nextFault fs).1
      generalize doCommit c1 s.store _ _ = x at h ⊢
      generalize doCommit c2 s.store _ _ = y at h ⊢
      cases h with
      | conflict i v i' v' => simp only [sequence_store, hb, conflict_beq_ok, conflict_beq_uncertain]
      | _ => rfl

theorem doDelete_indep {c1 c2 : Cfg} (h1 : c1.q.casMissingNotFound = false)
    (h2 : c2.q.casMissingNotFound = false) (s : BState)
    (key : Bytes) (hb : bget c1 s.store key 0 = bget c2 s.store key 0)
    (exp : Nat) (fs : List Fault) :
    doDelete c1 s key exp fs = doDelete c2 s key exp fs := by
  unfold doDelete
  simp only [hb]
  cases bget c2 s.store key 0 with
  | notFound m => rfl
  | found oldVal modRev =>
    simp only []
    split
    · rfl
    · split
      · simp only [sequence_store, hb]
      · split
        · rfl
        · have h := doCommit_same h1 h2 s.store
            [BOp.cas (idxKey key) (be8 (s.dealt + 1) ++ [0]) (be8 modRev), BOp.put (encode key (s.dealt + 1)) tombstone] (nextFault fs).1
          generalize doCommit c1 s.store _ _ = x at h ⊢
          generalize doCommit c2 s.store _ _ = y at h ⊢
          cases h with
          | conflict i v i' v' => simp only [sequence_store, hb, conflict_beq_ok, conflict_beq_uncertain]
          | _ => rfl

end KB
