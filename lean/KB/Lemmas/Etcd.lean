/- Helper lemmas for C16: the recognisers on well-shaped transactions, the outcome of the sequential
backend writes in terms of the live key-value (given a consistent index record), the reference
semantics on the same transactions. -/
import KB.EtcdShim
import KB.EtcdRef
import KB.Lemmas.Scan
namespace KB.Etcd
open KB Generated

/-! ### well-shaped transactions -/

/-- `ModRevision(k) == n` on the single key `k` -/
def ModCmp (c : Compare) (k : Bytes) (n : Int) : Prop :=
  c.target = .mod ∧ c.result = .equal ∧ c.key = k ∧ c.rangeEnd = [] ∧ c.int = n

/-- `Get(k)`: a point read of `k` at the current revision, nothing stripped or filtered (limit, sort
order, `serializable` are free: they do not change the answer of a point read) -/
def PlainGet (g : RangeReq) (k : Bytes) : Prop :=
  g.key = k ∧ g.rangeEnd = [] ∧ g.revision = 0 ∧ g.countOnly = false ∧ g.keysOnly = false ∧
  g.minMod = 0 ∧ g.maxMod = 0 ∧ g.minCreate = 0 ∧ g.maxCreate = 0

def PlainPut (p : PutReq) : Prop :=
  p.key ≠ [] ∧ p.prevKv = false ∧ p.ignoreValue = false ∧ p.ignoreLease = false

/-- The transactions Kubernetes issues, as the explicit well-shapedness predicate: the compare is
`mod(k) = n` on the key the ops work on, no `range_end` anywhere, the Get is plain, the put carries no
flags and HAS A VALUE (a write without a value is refused by the backend before a revision is dealt, /repo
f2a549c), a guarded delete has a positive expectation. (Lease, limit / sort order / `serializable` of the
point Get are free; the delete op does NOT ask for `prev_kv` — /repo c09cadc: the supported delete shapes are
answered with a range response, a delete with `prev_kv` is another shape and is refused.) -/
inductive Canonical : TxnReq → Prop where
  | create (c : Compare) (p : PutReq) : ModCmp c p.key 0 → PlainPut p → p.val ≠ [] →
      Canonical { compare := [c], success := [.put p], failure := [] }
  | update (c : Compare) (p : PutReq) (g : RangeReq) (n : Int) : ModCmp c p.key n → PlainPut p → p.val ≠ [] →
      PlainGet g p.key → Canonical { compare := [c], success := [.put p], failure := [.range g] }
  | gdelete (c : Compare) (d : DelReq) (g : RangeReq) (n : Int) : ModCmp c d.key n → 0 < n → d.key ≠ [] →
      d.rangeEnd = [] → d.prevKv = false → PlainGet g d.key →
      Canonical { compare := [c], success := [.del d], failure := [.range g] }
  | udelete (g : RangeReq) (d : DelReq) : d.key ≠ [] → d.rangeEnd = [] → d.prevKv = false → PlainGet g d.key →
      Canonical { compare := [], success := [.range g, .del d], failure := [] }

theorem isModOn_iff {c : Compare} {k : Bytes} : c.isModOn k = true ↔ ∃ n, ModCmp c k n := by
  unfold Compare.isModOn ModCmp
  constructor
  · intro h
    simp only [Bool.and_eq_true, beq_iff_eq, List.isEmpty_iff] at h
    exact ⟨c.int, h.1.1.1, h.1.1.2, h.2, h.1.2, rfl⟩
  · rintro ⟨n, h1, h2, h3, h4, _⟩
    simp [h1, h2, h3, h4]

theorem isPlainGet_iff {g : RangeReq} {k : Bytes} : g.isPlainGet k = true ↔ PlainGet g k := by
  unfold RangeReq.isPlainGet PlainGet
  constructor
  · intro h
    simp only [Bool.and_eq_true, beq_iff_eq, List.isEmpty_iff, Bool.not_eq_true'] at h
    obtain ⟨⟨⟨⟨⟨⟨⟨⟨h1, h2⟩, h3⟩, h4⟩, h5⟩, h6⟩, h7⟩, h8⟩, h9⟩ := h
    exact ⟨h1, h2, h3, h4, h5, h6, h7, h8, h9⟩
  · rintro ⟨h1, h2, h3, h4, h5, h6, h7, h8, h9⟩
    simp [h1, h2, h3, h4, h5, h6, h7, h8, h9]

theorem classify_create {c : Compare} {p : PutReq} (h : ModCmp c p.key 0) :
    classify { compare := [c], success := [.put p], failure := [] } = .create p := by
  have hm := isModOn_iff.mpr ⟨0, h⟩
  simp [classify, isCreate, hm, h.2.2.2.2]

theorem classify_update' {c : Compare} {p : PutReq} {g : RangeReq} {n : Int} (h : ModCmp c p.key n)
    (h1 : p.prevKv = false) (h2 : p.ignoreValue = false) (h3 : p.ignoreLease = false) (hg : PlainGet g p.key) :
    classify { compare := [c], success := [.put p], failure := [.range g] } = .update n p.key p.val p.lease := by
  have hm := isModOn_iff.mpr ⟨n, h⟩
  have hgg := isPlainGet_iff.mpr hg
  simp [classify, isCreate, isDelete, isUpdate, hm, hgg, h1, h2, h3, h.2.2.2.2]

theorem classify_update {c : Compare} {p : PutReq} {g : RangeReq} {n : Int} (h : ModCmp c p.key n)
    (hp : PlainPut p) (hg : PlainGet g p.key) :
    classify { compare := [c], success := [.put p], failure := [.range g] } = .update n p.key p.val p.lease :=
  classify_update' h hp.2.1 hp.2.2.1 hp.2.2.2 hg

theorem classify_gdelete {c : Compare} {d : DelReq} {g : RangeReq} {n : Int} (h : ModCmp c d.key n)
    (h0 : 0 < n) (he : d.rangeEnd = []) (hp : d.prevKv = false) (hg : PlainGet g d.key) :
    classify { compare := [c], success := [.del d], failure := [.range g] } = .delete n d.key true := by
  have hm := isModOn_iff.mpr ⟨n, h⟩
  have hgg := isPlainGet_iff.mpr hg
  simp [classify, isCreate, isDelete, DelReq.isPoint, hm, hgg, he, hp, h0, h.2.2.2.2]

theorem classify_udelete {g : RangeReq} {d : DelReq} (he : d.rangeEnd = []) (hp : d.prevKv = false)
    (hg : PlainGet g d.key) :
    classify { compare := [], success := [.range g, .del d], failure := [] } = .delete 0 d.key false := by
  have hgg := isPlainGet_iff.mpr hg
  simp [classify, isCreate, isDelete, DelReq.isPoint, hgg, he, hp]

/-- /repo c09cadc: a delete op that asks for `prev_kv` is not a point delete — both delete shapes with it are
recognised by NO recogniser (whatever the compare, the expectation, the Get, the `range_end`) -/
theorem isDelete_prevKv_guarded {c : Compare} {d : DelReq} {g : RangeReq} (hp : d.prevKv = true) :
    isDelete { compare := [c], success := [.del d], failure := [.range g] } = none := by
  simp [isDelete, DelReq.isPoint, hp]

theorem isDelete_prevKv_unguarded {d : DelReq} {g : RangeReq} (hp : d.prevKv = true) :
    isDelete { compare := [], success := [.range g, .del d], failure := [] } = none := by
  simp [isDelete, DelReq.isPoint, hp]

theorem classify_gdelete_prevKv {c : Compare} {d : DelReq} {g : RangeReq} (hp : d.prevKv = true) :
    classify { compare := [c], success := [.del d], failure := [.range g] } = .unsupported := by
  simp [classify, isCreate, isDelete, isUpdate, isCompact, DelReq.isPoint, hp]

theorem classify_udelete_prevKv {d : DelReq} {g : RangeReq} (hp : d.prevKv = true) :
    classify { compare := [], success := [.range g, .del d], failure := [] } = .unsupported := by
  simp [classify, isCreate, isDelete, isUpdate, isCompact, DelReq.isPoint, hp]

/-! ### inversion: what the recognisers accept is well-shaped -/

theorem isCreate_inv {t : TxnReq} {p : PutReq} (h : isCreate t = some p) :
    ∃ c, t = { compare := [c], success := [.put p], failure := [] } ∧ ModCmp c p.key 0 := by
  unfold isCreate at h
  split at h
  · rename_i _ _ _ c p0 h1 h2 h3
    split at h
    · rename_i hc
      cases h
      simp only [Bool.and_eq_true, beq_iff_eq] at hc
      obtain ⟨n, hn⟩ := isModOn_iff.mp hc.1
      refine ⟨c, by cases t; simp_all, ?_⟩
      exact ⟨hn.1, hn.2.1, hn.2.2.1, hn.2.2.2.1, hc.2⟩
    · cases h
  · cases h

theorem isUpdate_inv {t : TxnReq} {n : Int} {k v : Bytes} {l : Int} (h : isUpdate t = some (n, k, v, l)) :
    ∃ c p g, t = { compare := [c], success := [.put p], failure := [.range g] } ∧ ModCmp c p.key n ∧
      p.prevKv = false ∧ p.ignoreValue = false ∧ p.ignoreLease = false ∧ PlainGet g p.key := by
  unfold isUpdate at h
  split at h
  · rename_i _ _ _ c g p h1 h2 h3
    split at h
    · rename_i hc
      simp only [Option.some.injEq, Prod.mk.injEq] at h
      simp only [Bool.and_eq_true, Bool.not_eq_true'] at hc
      obtain ⟨⟨⟨⟨hm, f1⟩, f2⟩, f3⟩, hg⟩ := hc
      obtain ⟨n', hn⟩ := isModOn_iff.mp hm
      refine ⟨c, p, g, by cases t; simp_all, ?_, f1, f2, f3, isPlainGet_iff.mp hg⟩
      exact ⟨hn.1, hn.2.1, hn.2.2.1, hn.2.2.2.1, h.1⟩
    · cases h
  · cases h

theorem isDelete_inv {t : TxnReq} {n : Int} {k : Bytes} {gd : Bool} (h : isDelete t = some (n, k, gd)) :
    (gd = false ∧ n = 0 ∧ ∃ g d, t = { compare := [], success := [.range g, .del d], failure := [] } ∧
      d.key = k ∧ d.rangeEnd = [] ∧ d.prevKv = false ∧ PlainGet g d.key) ∨
    (gd = true ∧ ∃ c g d, t = { compare := [c], success := [.del d], failure := [.range g] } ∧
      d.key = k ∧ ModCmp c d.key n ∧ 0 < n ∧ d.rangeEnd = [] ∧ d.prevKv = false ∧ PlainGet g d.key) := by
  unfold isDelete at h
  split at h
  · rename_i _ _ _ g d h1 h2 h3
    split at h
    · rename_i hc
      simp only [Option.some.injEq, Prod.mk.injEq] at h
      simp only [DelReq.isPoint, Bool.and_eq_true, List.isEmpty_iff, Bool.not_eq_true'] at hc
      left
      exact ⟨h.2.2.symm, h.1.symm, g, d, by cases t; simp_all, h.2.1, hc.1.1, hc.1.2, isPlainGet_iff.mp hc.2⟩
    · cases h
  · rename_i _ _ _ c g d h1 h2 h3
    split at h
    · rename_i hc
      simp only [Option.some.injEq, Prod.mk.injEq] at h
      simp only [DelReq.isPoint, Bool.and_eq_true, List.isEmpty_iff, decide_eq_true_eq, Bool.not_eq_true'] at hc
      obtain ⟨⟨⟨⟨he, hpk⟩, hm⟩, hpos⟩, hg⟩ := hc
      obtain ⟨n', hn⟩ := isModOn_iff.mp hm
      right
      refine ⟨h.2.2.symm, c, g, d, by cases t; simp_all, h.2.1, ⟨hn.1, hn.2.1, hn.2.2.1, hn.2.2.2.1, h.1⟩, ?_, he, hpk,
        isPlainGet_iff.mp hg⟩
      rw [← h.1]; exact hpos
    · cases h
  · cases h

/-! ### the live key-value and the index record -/

theorem bget_eq (c : Cfg) (st : Store) (k : Bytes) (R : Nat) :
    bget c st k R = match getInternal c st k R with
      | none => .notFound 0
      | some (v, m) => if isTomb v then .notFound m else .found v m := rfl

theorem curKv_eq (c : Cfg) (s : BState) (k : Bytes) :
    curKv c s k = match getInternal c s.store k 0 with
      | none => none
      | some (v, m) => if isTomb v then none else some (k, v, m) := by
  simp only [curKv, latestKv, bget_eq]
  cases getInternal c s.store k 0 with
  | none => rfl
  | some vm =>
    obtain ⟨v, m⟩ := vm
    by_cases h : isTomb v = true <;> simp [h]

/-- The index record of `k` agrees with its newest object record (what the write path maintains and
compaction preserves — C01): absent/absent; a deleted-and-compacted key may keep a deletion index
record; a live key's index holds its mod revision; a tombstoned key's index holds it with the deletion
flag. Revisions are not above the dealt one. Decidable for a concrete state and key. -/
def idxOK (c : Cfg) (s : BState) (k : Bytes) : Bool :=
  match getInternal c s.store k 0, s.store.get (idxKey k) with
  | none, none => true
  | none, some iv => iv.length == 9 && decide (fromBE (iv.take 8) ≤ s.dealt)
  | some (v, m), some iv => iv == (if isTomb v then be8 m ++ [0] else be8 m) && decide (m ≤ s.dealt)
  | some _, none => false

theorem sequence_store (s : BState) (w : WEvent) : (sequence s w).store = s.store := by
  unfold sequence
  split <;> rfl

theorem be8_length (m : Nat) : (be8 m).length = 8 := by simp [be8, be64]

theorem parseRevision_be8 {m : Nat} (hm : m < 2 ^ 64) : parseRevision (be8 m) = some (m, false) := by
  have hl : (be64 m).length = 8 := by simp [be64]
  have h8 : (be64 m).take 8 = be64 m := List.take_of_length_le (by omega)
  unfold parseRevision be8
  rw [if_pos (by simpa [revisionValueLength] using hl), h8, fromBE_be64 hm]

theorem parseRevision_len9 {iv : Bytes} (h : iv.length = 9) : parseRevision iv = some (fromBE (iv.take 8), true) := by
  simp [parseRevision, h, revisionValueLength, revisionValueLengthWithDeletionFlag]

theorem be8_ne_len9 {m : Nat} {iv : Bytes} (h : iv.length = 9) : iv ≠ be8 m := by
  intro he
  rw [he, be8_length] at h
  omega

theorem be8_inj {x y : Nat} (hx : x < 2 ^ 64) (hy : y < 2 ^ 64) (h : be8 x = be8 y) : x = y :=
  be64_inj hx hy h

/-! ### engine batches of the write path -/

theorem doCommit_cas_put_ok (c : Cfg) (st : Store) (ik new old ok v : Bytes) (h : st.get ik = some old) :
    (doCommit c st [BOp.cas ik new old, BOp.put ok v] .none).1 = .ok := by
  simp [doCommit, commit, KB.applyOps, KB.applyOp, h]

theorem doCommit_cas_put_conflict (c : Cfg) (hq : c.q.casMissingNotFound = false) (st : Store)
    (ik new old ok v : Bytes) (h : st.get ik ≠ some old) :
    (doCommit c st [BOp.cas ik new old, BOp.put ok v] .none).1.isCas = true ∧
    (doCommit c st [BOp.cas ik new old, BOp.put ok v] .none).2 = st := by
  cases hg : st.get ik with
  | none => simp [doCommit, commit, KB.applyOps, KB.applyOp, hg, hq, CommitRes.isCas]
  | some cur =>
    have hne : cur ≠ old := by intro e; apply h; rw [hg, e]
    simp [doCommit, commit, KB.applyOps, KB.applyOp, hg, hne, CommitRes.isCas]

theorem doCommit_pine_put_ok (c : Cfg) (st : Store) (ik iv ok v : Bytes) (h : st.get ik = none) :
    (doCommit c st [BOp.pine ik iv, BOp.put ok v] .none).1 = .ok := by
  simp [doCommit, commit, KB.applyOps, KB.applyOp, h]

theorem doCommit_pine_put_conflict (c : Cfg) (st : Store) (ik iv ok v old : Bytes) (h : st.get ik = some old) :
    doCommit c st [BOp.pine ik iv, BOp.put ok v] .none = (.conflict (some (0 + c.q.idxOffset)) (some old), st) := by
  simp [doCommit, commit, KB.applyOps, KB.applyOp, h]

/-! ### `creatorCreate` in terms of the index record -/

theorem creatorCreate_absent (c : Cfg) (st : Store) (k v : Bytes) (rev : Nat) (h : st.get (idxKey k) = none) :
    (creatorCreate c st k v rev []).1 = .ok := by
  have h1 := doCommit_pine_put_ok c st (idxKey k) (be8 rev) (encode k rev) v h
  generalize hd : doCommit c st [BOp.pine (idxKey k) (be8 rev), BOp.put (encode k rev) v] Fault.none = d at h1
  obtain ⟨r1, st1⟩ := d
  simp only at h1
  subst h1
  simp [creatorCreate, nextFault, hd]

theorem creatorCreate_present (c : Cfg) (st : Store) (k v old : Bytes) (rev : Nat)
    (h : st.get (idxKey k) = some old) :
    match parseRevision old with
    | none => True
    | some (p, tomb) =>
      if tomb = true ∧ p < rev then (creatorCreate c st k v rev []).1 = .ok
      else creatorCreate c st k v rev [] = (tombAbove c tomb, st, []) := by
  have hc := doCommit_pine_put_conflict c st (idxKey k) (be8 rev) (encode k rev) v old h
  cases hp : parseRevision old with
  | none => trivial
  | some pt =>
    obtain ⟨p, tomb⟩ := pt
    simp only
    by_cases hcond : tomb = true ∧ p < rev
    · rw [if_pos hcond]
      have h2 := doCommit_cas_put_ok c st (idxKey k) (be8 rev) old (encode k rev) v h
      generalize hd : doCommit c st [BOp.cas (idxKey k) (be8 rev) old, BOp.put (encode k rev) v] Fault.none = d at h2
      obtain ⟨r2, st2⟩ := d
      simp only at h2
      subst h2
      by_cases hoff : c.q.idxOffset = 0
      · simp [creatorCreate, nextFault, hc, hoff, hp, hcond.1, hcond.2, hd]
      · simp [creatorCreate, nextFault, hc, hoff, h, hp, hcond.1, hcond.2, hd]
    · rw [if_neg hcond]
      have hcond' : (tomb && decide (p < rev)) = false := by
        cases tomb <;> simp_all
      by_cases hoff : c.q.idxOffset = 0
      · simp [creatorCreate, nextFault, hc, hoff, hp, hcond']
      · simp [creatorCreate, nextFault, hc, hoff, h, hp, hcond']

/-! ### the backend writes in terms of the live key-value -/

/-- hypotheses of the write lemmas: the engine answers a compare-and-swap on a missing key with a
failed condition (C11), revisions fit 64 bits, the index record of `k` is consistent -/
structure WHyp (c : Cfg) (s : BState) (k : Bytes) : Prop where
  cas : c.q.casMissingNotFound = false
  bound : s.dealt + 1 < 2 ^ 64
  idx : idxOK c s k = true

theorem getInternal_rev_ne_zero {c : Cfg} {st : Store} {k v : Bytes} {R m : Nat}
    (h : getInternal c st k R = some (v, m)) : m ≠ 0 := by
  unfold getInternal at h
  simp only at h
  split at h
  · cases h
  · split at h
    · split at h
      · cases h
      · rename_i hcond
        simp only [Option.some.injEq, Prod.mk.injEq] at h
        obtain ⟨_, rfl⟩ := h
        intro h0
        simp [h0] at hcond
    · cases h

theorem idxOK_cases {c : Cfg} {s : BState} {k : Bytes} (h : idxOK c s k = true) :
    (getInternal c s.store k 0 = none ∧ s.store.get (idxKey k) = none) ∨
    (getInternal c s.store k 0 = none ∧ ∃ iv, s.store.get (idxKey k) = some iv ∧ iv.length = 9 ∧
      fromBE (iv.take 8) ≤ s.dealt) ∨
    (∃ v m, getInternal c s.store k 0 = some (v, m) ∧
      s.store.get (idxKey k) = some (if isTomb v then be8 m ++ [0] else be8 m) ∧ m ≤ s.dealt) := by
  unfold idxOK at h
  split at h
  · left; constructor <;> assumption
  · rename_i iv h1 h2
    right; left
    simp only [Bool.and_eq_true, beq_iff_eq, decide_eq_true_eq] at h
    exact ⟨h1, iv, h2, h.1, h.2⟩
  · rename_i v m iv h1 h2
    right; right
    simp only [Bool.and_eq_true, beq_iff_eq, decide_eq_true_eq] at h
    exact ⟨v, m, h1, by rw [h2, h.1], h.2⟩
  · cases h

theorem doCreate_of_ok (c : Cfg) (s : BState) (k v : Bytes)
    (h : (creatorCreate c s.store k v (s.dealt + 1) []).1 = .ok) :
    (doCreate c s k v []).1 = .ok (s.dealt + 1) := by
  generalize hd : creatorCreate c s.store k v (s.dealt + 1) [] = d at h
  obtain ⟨r, st, fs⟩ := d
  simp only at h
  subst h
  simp [doCreate, hd]

theorem doCreate_of_conflict (c : Cfg) (s : BState) (k v : Bytes)
    (h : creatorCreate c s.store k v (s.dealt + 1) [] = (.conflict none none, s.store, [])) :
    (doCreate c s k v []).1 = .condFailed (s.dealt + 1) none := by
  simp [doCreate, h]

theorem len9_parse {iv : Bytes} (h : iv.length = 9) : parseRevision iv = some (fromBE (iv.take 8), true) :=
  parseRevision_len9 h

theorem be8_tomb_parse {m : Nat} (hm : m < 2 ^ 64) : parseRevision (be8 m ++ [0]) = some (m, true) := by
  have hl : (be8 m ++ [0]).length = 9 := by simp [be8_length]
  rw [parseRevision_len9 hl]
  have : (be8 m ++ [0]).take 8 = be8 m := by
    rw [List.take_append_of_le_length (by simp [be8_length])]
    exact List.take_of_length_le (by simp [be8_length])
  rw [this]
  simp [be8, fromBE_be64 hm]

theorem doCreate_fst (c : Cfg) (s : BState) (k v : Bytes) (h : WHyp c s k) :
    (doCreate c s k v []).1 = match curKv c s k with
      | none => .ok (s.dealt + 1)
      | some _ => .condFailed (s.dealt + 1) none := by
  rw [curKv_eq]
  rcases idxOK_cases h.idx with ⟨hg, hi⟩ | ⟨hg, iv, hi, hl, hle⟩ | ⟨vv, m, hg, hi, hle⟩
  · rw [hg]
    exact doCreate_of_ok c s k v (creatorCreate_absent c s.store k v _ hi)
  · rw [hg]
    apply doCreate_of_ok
    have := creatorCreate_present c s.store k v iv (s.dealt + 1) hi
    rw [parseRevision_len9 hl] at this
    simp only at this
    rw [if_pos (by simp; omega)] at this
    exact this
  · rw [hg]
    simp only
    by_cases ht : isTomb vv = true
    · rw [if_pos ht]
      rw [if_pos ht] at hi
      apply doCreate_of_ok
      have := creatorCreate_present c s.store k v _ (s.dealt + 1) hi
      rw [be8_tomb_parse (by have := h.bound; omega)] at this
      simp only at this
      rw [if_pos (by simp; omega)] at this
      exact this
    · rw [if_neg ht]
      rw [if_neg ht] at hi
      apply doCreate_of_conflict
      have := creatorCreate_present c s.store k v _ (s.dealt + 1) hi
      rw [parseRevision_be8 (by have := h.bound; omega)] at this
      simp only at this
      rw [if_neg (by simp)] at this
      exact this

/-- the "condition failed" answer of update / delete: the live key-value re-read after the failure -/
def failRes (c : Cfg) (s : BState) (k : Bytes) : WriteRes :=
  match bget c s.store k 0 with
  | .found v m => .condFailed (max (s.dealt + 1) m) (some (k, v, m))
  | .notFound _ => .condFailed (s.dealt + 1) none

theorem doUpdate_zero_ok (c : Cfg) (s : BState) (k v : Bytes)
    (h : (creatorCreate c s.store k v (s.dealt + 1) []).1 = .ok) :
    (doUpdate c s k v 0 []).1 = .ok (s.dealt + 1) := by
  generalize hd : creatorCreate c s.store k v (s.dealt + 1) [] = d at h
  obtain ⟨r, st, fs⟩ := d
  simp only at h
  subst h
  simp [doUpdate, hd]

theorem doUpdate_zero_conflict (c : Cfg) (s : BState) (k v : Bytes)
    (h : creatorCreate c s.store k v (s.dealt + 1) [] = (.conflict none none, s.store, [])) :
    (doUpdate c s k v 0 []).1 = failRes c s k := by
  simp only [doUpdate, h, failRes, sequence_store, beq_self_eq_true, if_true]
  cases bget c s.store k 0 <;> rfl

theorem doUpdate_nz_ok (c : Cfg) (s : BState) (k v : Bytes) (exp : Nat) (h0 : exp ≠ 0) (hle : exp ≤ s.dealt)
    (hi : s.store.get (idxKey k) = some (be8 exp)) :
    (doUpdate c s k v exp []).1 = .ok (s.dealt + 1) := by
  have h1 := doCommit_cas_put_ok c s.store (idxKey k) (be8 (s.dealt + 1)) (be8 exp) (encode k (s.dealt + 1)) v hi
  generalize hd : doCommit c s.store [BOp.cas (idxKey k) (be8 (s.dealt + 1)) (be8 exp),
    BOp.put (encode k (s.dealt + 1)) v] Fault.none = d at h1
  obtain ⟨r, st⟩ := d
  simp only at h1
  subst h1
  have hlt : ¬ (s.dealt + 1 ≤ exp) := by omega
  simp [doUpdate, h0, hlt, nextFault, hd]

theorem doUpdate_nz_conflict (c : Cfg) (hq : c.q.casMissingNotFound = false) (s : BState) (k v : Bytes) (exp : Nat)
    (h0 : exp ≠ 0) (hle : exp ≤ s.dealt) (hi : s.store.get (idxKey k) ≠ some (be8 exp)) :
    (doUpdate c s k v exp []).1 = failRes c s k := by
  have h1 := doCommit_cas_put_conflict c hq s.store (idxKey k) (be8 (s.dealt + 1)) (be8 exp)
    (encode k (s.dealt + 1)) v hi
  generalize hd : doCommit c s.store [BOp.cas (idxKey k) (be8 (s.dealt + 1)) (be8 exp),
    BOp.put (encode k (s.dealt + 1)) v] Fault.none = d at h1
  obtain ⟨r, st⟩ := d
  obtain ⟨hr, hst⟩ := h1
  simp only at hr hst
  subst hst
  have hlt : ¬ (s.dealt + 1 ≤ exp) := by omega
  cases r with
  | conflict i cv =>
    simp only [doUpdate, failRes, h0, hlt, nextFault, hd, sequence_store, beq_iff_eq, if_false]
    cases bget c s.store k 0 <;> rfl
  | ok => simp [CommitRes.isCas] at hr
  | notFound => simp [CommitRes.isCas] at hr
  | uncertain => simp [CommitRes.isCas] at hr
  | err => simp [CommitRes.isCas] at hr

theorem doUpdate_fst (c : Cfg) (s : BState) (k v : Bytes) (exp : Nat) (h : WHyp c s k) (hexp : exp ≤ s.dealt) :
    (doUpdate c s k v exp []).1 = match curKv c s k with
      | none => if exp = 0 then .ok (s.dealt + 1) else .condFailed (s.dealt + 1) none
      | some (_, cv, cm) => if exp = cm then .ok (s.dealt + 1)
                            else .condFailed (max (s.dealt + 1) cm) (some (k, cv, cm)) := by
  have hb := h.bound
  rw [curKv_eq]
  rcases idxOK_cases h.idx with ⟨hg, hi⟩ | ⟨hg, iv, hi, hl, hle⟩ | ⟨vv, m, hg, hi, hle⟩
  · rw [hg]
    simp only
    by_cases h0 : exp = 0
    · subst h0
      rw [if_pos rfl]
      exact doUpdate_zero_ok c s k v (creatorCreate_absent c s.store k v _ hi)
    · rw [if_neg h0, doUpdate_nz_conflict c h.cas s k v exp h0 hexp (by rw [hi]; simp)]
      simp [failRes, bget_eq, hg]
  · rw [hg]
    simp only
    by_cases h0 : exp = 0
    · subst h0
      rw [if_pos rfl]
      apply doUpdate_zero_ok
      have := creatorCreate_present c s.store k v iv (s.dealt + 1) hi
      rw [parseRevision_len9 hl] at this
      simp only at this
      rw [if_pos (by simp; omega)] at this
      exact this
    · rw [if_neg h0, doUpdate_nz_conflict c h.cas s k v exp h0 hexp
        (by rw [hi]; intro he; exact be8_ne_len9 hl (Option.some.inj he))]
      simp [failRes, bget_eq, hg]
  · rw [hg]
    simp only
    have hm0 := getInternal_rev_ne_zero hg
    by_cases ht : isTomb vv = true
    · rw [if_pos ht]
      rw [if_pos ht] at hi
      simp only
      by_cases h0 : exp = 0
      · subst h0
        rw [if_pos rfl]
        apply doUpdate_zero_ok
        have := creatorCreate_present c s.store k v _ (s.dealt + 1) hi
        rw [be8_tomb_parse (by omega)] at this
        simp only at this
        rw [if_pos (by simp; omega)] at this
        exact this
      · rw [if_neg h0, doUpdate_nz_conflict c h.cas s k v exp h0 hexp
          (by rw [hi]; intro he; exact be8_ne_len9 (by simp [be8_length]) (Option.some.inj he))]
        simp [failRes, bget_eq, hg, ht]
    · rw [if_neg ht]
      rw [if_neg ht] at hi
      simp only
      by_cases h0 : exp = 0
      · subst h0
        rw [if_neg (by omega)]
        have := creatorCreate_present c s.store k v _ (s.dealt + 1) hi
        rw [parseRevision_be8 (by omega)] at this
        simp only at this
        rw [if_neg (by simp)] at this
        rw [doUpdate_zero_conflict c s k v this]
        simp [failRes, bget_eq, hg, ht]
      · by_cases hem : exp = m
        · subst hem
          rw [if_pos rfl]
          exact doUpdate_nz_ok c s k v exp h0 hexp hi
        · rw [if_neg hem, doUpdate_nz_conflict c h.cas s k v exp h0 hexp
            (by rw [hi]; intro he; exact hem (be8_inj (by omega) (by omega) (Option.some.inj he)).symm)]
          simp [failRes, bget_eq, hg, ht]

theorem doDelete_fst (c : Cfg) (s : BState) (k : Bytes) (exp : Nat) (h : WHyp c s k) (hexp : exp ≤ s.dealt) :
    (doDelete c s k exp []).1 = match curKv c s k with
      | none => .notFound (s.dealt + 1)
      | some (_, cv, cm) => if exp = 0 ∨ exp = cm then .ok (s.dealt + 1)
                            else .condFailed (max (s.dealt + 1) cm) (some (k, cv, cm)) := by
  have hb := h.bound
  rw [curKv_eq]
  rcases idxOK_cases h.idx with ⟨hg, _⟩ | ⟨hg, _⟩ | ⟨vv, m, hg, hi, hle⟩
  · simp [doDelete, bget_eq, hg]
  · simp [doDelete, bget_eq, hg]
  · rw [hg]
    simp only
    by_cases ht : isTomb vv = true
    · simp [doDelete, bget_eq, hg, ht]
    · rw [if_neg ht]
      rw [if_neg ht] at hi
      simp only
      have hdr : ¬ (s.dealt + 1 ≤ exp) := by omega
      have hrm : ¬ (s.dealt + 1 ≤ m) := by omega
      by_cases hcond : exp = 0 ∨ exp = m
      · rw [if_pos hcond]
        have h1 := doCommit_cas_put_ok c s.store (idxKey k) (be8 (s.dealt + 1) ++ [0]) (be8 m)
          (encode k (s.dealt + 1)) tombstone hi
        generalize hd : doCommit c s.store [BOp.cas (idxKey k) (be8 (s.dealt + 1) ++ [0]) (be8 m),
          BOp.put (encode k (s.dealt + 1)) tombstone] Fault.none = d at h1
        obtain ⟨r, st⟩ := d
        simp only at h1
        subst h1
        have hne : ¬ (0 < exp ∧ ¬ exp = m) := by
          rcases hcond with h0 | hm
          · omega
          · intro hx; exact hx.2 hm
        simp [doDelete, bget_eq, hg, ht, hdr, hrm, hne, nextFault, hd]
      · rw [if_neg hcond]
        have hpos : 0 < exp := by omega
        have hnm : ¬ exp = m := fun e => hcond (Or.inr e)
        simp [doDelete, bget_eq, hg, ht, hdr, hpos, hnm, sequence_store]

/-! ### the shim's answers -/

theorem toU64_of_nonneg {n : Int} (h0 : 0 ≤ n) (hlt : n < 2 ^ 64) : toU64 n = n.toNat := by
  unfold toU64
  rw [Int.emod_eq_of_lt h0 hlt]

/-- `shimTxn` (classify, one backend call, shape the answer) is the `if` chain of `RPCServer.Txn` over
the three backendshim methods -/
theorem shimTxn_cases (c : Cfg) (s : BState) (t : TxnReq) :
    shimTxn c s t =
      match classify t with
      | .create p => shimCreate c s p
      | .delete rev key true => shimDelete c s rev key
      | .delete rev key false =>
        match shimDelete c s rev key with
        | (.ok r, s') => (.ok (unguardedFlag r), s')
        | (.error e, s') => (.error e, s')
      | .update rev key val _ => shimUpdate c s rev key val
      | .compact => (.ok compactResp, s)
      | .unsupported => (.error .unsupported, s) := by
  unfold shimTxn
  cases hcl : classify t with
  | create p =>
    by_cases hf : (p.ignoreLease || p.ignoreValue || p.prevKv) = true
    · simp [backendCall, shapeTxn, shimCreate, hf]
    · simp [backendCall, shapeTxn, shimCreate, hf]
  | delete rev key guarded =>
    cases guarded with
    | true => simp [backendCall, shapeTxn, shimDelete]
    | false =>
      simp only [backendCall, shapeTxn, shimDelete]
      generalize runCall c s (.delete key (toU64 rev)) = pr
      obtain ⟨a, s'⟩ := pr
      simp only
      cases shapeDelete a <;> rfl
  | update rev key val lease => simp [backendCall, shapeTxn, shimUpdate, runCall, BCall.emptyValue]
  | compact => simp [backendCall, shapeTxn]
  | unsupported => simp [backendCall, shapeTxn]

theorem shimCreate_fst (c : Cfg) (s : BState) (p : PutReq) (hp : PlainPut p) (hv : p.val ≠ []) :
    (shimCreate c s p).1 = match (doCreate c s p.key p.val []).1 with
      | .ok rev => .ok { ok := true, hdr := rev, resps := [.put rev], wrote := true }
      | .condFailed hdr _ => .ok { ok := false, hdr := hdr, resps := [.put hdr], wrote := false }
      | .notFound hdr => .ok { ok := false, hdr := hdr, resps := [.put hdr], wrote := false }
      | .error e => .error (.backend e) := by
  obtain ⟨_, h1, h2, h3⟩ := hp
  have hve : p.val.isEmpty = false := by cases hp : p.val <;> simp_all
  generalize hd : doCreate c s p.key p.val [] = d
  obtain ⟨r, s'⟩ := d
  cases r <;> simp [shimCreate, runCall, BCall.emptyValue, hve, ansOfWrite, shapeCreate, h1, h2, h3, hd]

theorem shimUpdate_fst (c : Cfg) (s : BState) (rev : Int) (k v : Bytes) (hv : v ≠ []) :
    (shimUpdate c s rev k v).1 = match (doUpdate c s k v (toU64 rev) []).1 with
      | .ok r => .ok { ok := true, hdr := r, resps := [.put r], wrote := true }
      | .condFailed hdr kv => .ok { ok := false, hdr := hdr, resps := [.range hdr kv.toList 0 false], wrote := false }
      | .notFound hdr => .ok { ok := false, hdr := hdr, resps := [.range hdr [] 0 false], wrote := false }
      | .error e => .error (.backend e) := by
  have hve : v.isEmpty = false := by cases v <;> simp_all
  generalize hd : doUpdate c s k v (toU64 rev) [] = d
  obtain ⟨r, s'⟩ := d
  cases r <;> simp [shimUpdate, runCall, BCall.emptyValue, hve, ansOfWrite, shapeUpdate, hd]

theorem shimDelete_fst (c : Cfg) (s : BState) (rev : Int) (k : Bytes) :
    (shimDelete c s rev k).1 = match (doDelete c s k (toU64 rev) []).1 with
      | .ok r => .ok { ok := true, hdr := r, resps := [.range r (curKv c s k).toList 0 false], wrote := true }
      | .condFailed hdr kv => .ok { ok := false, hdr := hdr, resps := [.range hdr kv.toList 0 false], wrote := false }
      | .notFound hdr => .ok { ok := false, hdr := hdr, resps := [.range hdr [] 0 false], wrote := false }
      | .error e => .error (.backend e) := by
  generalize hd : doDelete c s k (toU64 rev) [] = d
  obtain ⟨r, s'⟩ := d
  cases r <;> simp [shimDelete, runCall, BCall.emptyValue, ansOfWrite, shapeDelete, hd]

theorem curKv_some {c : Cfg} {s : BState} {k k' v : Bytes} {r : Nat} (h : curKv c s k = some (k', v, r)) :
    k' = k ∧ r ≠ 0 := by
  rw [curKv_eq] at h
  cases hg : getInternal c s.store k 0 with
  | none => simp [hg] at h
  | some vm =>
    obtain ⟨v0, m0⟩ := vm
    rw [hg] at h
    simp only at h
    split at h
    · cases h
    · simp only [Option.some.injEq, Prod.mk.injEq] at h
      obtain ⟨h1, _, h3⟩ := h
      exact ⟨h1.symm, h3 ▸ getInternal_rev_ne_zero hg⟩

/-! ### the reference on the same transactions -/

/-- how a backend state abstracts to the etcd state, at the key a transaction works on: same
revision counter, the live key-value of the key (value and mod revision), keys listed once -/
structure AbsAt (c : Cfg) (s : BState) (m : Mvcc) (k : Bytes) : Prop where
  rev : m.rev = s.dealt
  get : (m.get k).map KVFull.proj = curKv c s k
  nodup : m.kvs.Pairwise (fun a b => a.key ≠ b.key)

theorem Mvcc.get_key {m : Mvcc} {k : Bytes} {e : KVFull} (h : m.get k = some e) : e.key = k := by
  have := List.find?_some h
  simpa using this

theorem filter_key_eq_find (l : List KVFull) (k : Bytes) (h : l.Pairwise (fun a b => a.key ≠ b.key)) :
    l.filter (fun e => e.key == k) = (l.find? (fun e => e.key == k)).toList := by
  induction l with
  | nil => rfl
  | cons x xs ih =>
    rw [List.pairwise_cons] at h
    by_cases hx : (x.key == k) = true
    · have hf : (x :: xs).filter (fun e => e.key == k) = x :: xs.filter (fun e => e.key == k) := by
        simp [List.filter_cons, hx]
      have hfd : (x :: xs).find? (fun e => e.key == k) = some x := by simp [List.find?_cons, hx]
      rw [hf, hfd]
      have : xs.filter (fun e => e.key == k) = [] := by
        apply List.filter_eq_nil_iff.mpr
        intro e he
        have hne := h.1 e he
        have hxk : x.key = k := by simpa using hx
        simp only [beq_iff_eq]
        intro hek
        exact hne (hxk.trans hek.symm)
      simp [this]
    · have hf : (x :: xs).filter (fun e => e.key == k) = xs.filter (fun e => e.key == k) := by
        simp [List.filter_cons, hx]
      have hfd : (x :: xs).find? (fun e => e.key == k) = xs.find? (fun e => e.key == k) := by
        simp [List.find?_cons, hx]
      rw [hf, hfd]
      exact ih h.2

theorem Mvcc.range_point (m : Mvcc) (k : Bytes) (h : m.kvs.Pairwise (fun a b => a.key ≠ b.key)) :
    m.range k [] = (m.get k).toList := by
  unfold Mvcc.range Mvcc.get
  rw [← filter_key_eq_find m.kvs k h]
  apply List.filter_congr
  intro e _
  simp [inInterval]

theorem holds_equal_cmpInt (a b : Int) : holds .equal (cmpInt a b) = decide (a = b) := by
  unfold holds cmpInt
  by_cases h1 : a < b
  · have : a ≠ b := by omega
    simp [h1, this]
  · by_cases h2 : a = b
    · simp [h2]
    · simp [h1, h2]

theorem evalCompare_mod (m : Mvcc) (c : Compare) (k : Bytes) (n : Int) (hc : ModCmp c k n)
    (hn : m.kvs.Pairwise (fun a b => a.key ≠ b.key)) :
    evalCompare m c = match m.get k with
      | none => decide (n = 0)
      | some e => decide ((e.mod : Int) = n) := by
  obtain ⟨h1, h2, h3, h4, h5⟩ := hc
  unfold evalCompare
  rw [h3, h4, Mvcc.range_point m k hn]
  cases m.get k with
  | none =>
    simp only [Option.toList, h1]
    have hv : (CmpTarget.mod == CmpTarget.value) = false := by decide
    rw [hv]
    simp only [Bool.false_eq_true, if_false]
    unfold compareKV
    rw [h1]
    simp only
    rw [h2, h5, holds_equal_cmpInt]
    apply decide_eq_decide.mpr
    constructor <;> intro h <;> omega
  | some e =>
    simp only [Option.toList, List.all_cons, List.all_nil, Bool.and_true]
    unfold compareKV
    rw [h1]
    simp only
    rw [h2, h5, holds_equal_cmpInt]

theorem refRangeOn_plain (m : Mvcc) (g : RangeReq) (k : Bytes) (hg : PlainGet g k)
    (hn : m.kvs.Pairwise (fun a b => a.key ≠ b.key)) :
    refRangeOn m g = { hdr := m.rev, kvs := (m.get k).toList.map KVFull.proj,
                       count := (m.get k).toList.length, more := false } := by
  obtain ⟨h1, h2, h3, h5, h6, h8, h9, h10, h11⟩ := hg
  unfold refRangeOn
  rw [h1, h2, Mvcc.range_point m k hn]
  have hft : ∀ l : List KVFull, l.filter (fun _ => true) = l := fun l => List.filter_eq_self.mpr (by simp)
  cases hget : m.get k with
  | none => simp [h5, h6, h8, h9, h10, h11, inBounds]
  | some e =>
    -- a point read: one candidate, which neither a limit nor the sort order can change
    by_cases hl : g.limit.toNat > 0
    · obtain ⟨n, hn'⟩ : ∃ n, g.limit.toNat = n + 1 := ⟨g.limit.toNat - 1, by omega⟩
      cases hs : g.sortDesc <;>
        simp [h5, h6, h8, h9, h10, h11, inBounds, hft, hn', hs, Option.toList]
    · cases hs : g.sortDesc <;>
        simp [h5, h6, h8, h9, h10, h11, inBounds, hft, hl, hs, Option.toList]

theorem exists_of_map_fst {ε α β : Type} {x : Except ε (α × β)} {a : α} (h : x.map Prod.fst = .ok a) :
    ∃ b, x = .ok (a, b) := by
  cases x with
  | error e => cases h
  | ok ab =>
    obtain ⟨a', b⟩ := ab
    simp only [Except.map, Except.ok.injEq] at h
    exact ⟨b, by rw [h]⟩

theorem abs_cases {c : Cfg} {s : BState} {m : Mvcc} {k : Bytes} (ha : AbsAt c s m k) :
    (curKv c s k = none ∧ m.get k = none) ∨
    (∃ e, m.get k = some e ∧ curKv c s k = some (k, e.val, e.mod) ∧ e.key = k ∧ e.mod ≠ 0) := by
  have hg := ha.get
  cases hm : m.get k with
  | none =>
    left
    rw [hm] at hg
    exact ⟨hg.symm, rfl⟩
  | some e =>
    right
    rw [hm] at hg
    simp only [Option.map, KVFull.proj] at hg
    have hk := Mvcc.get_key hm
    obtain ⟨_, h0⟩ := curKv_some hg.symm
    exact ⟨e, rfl, by rw [← hg, hk], hk, h0⟩

/-- the reference's answer on the four shapes, first component -/
theorem ref_create (m : Mvcc) (cm : Compare) (p : PutReq) (hc : ModCmp cm p.key 0) (hp : PlainPut p)
    (hn : m.kvs.Pairwise (fun a b => a.key ≠ b.key)) (hmod : ∀ e, m.get p.key = some e → e.mod ≠ 0) :
    (refTxn m { compare := [cm], success := [.put p], failure := [] }).map Prod.fst =
      .ok (match m.get p.key with
        | none => { ok := true, hdr := m.rev + 1, resps := [.put (m.rev + 1)], wrote := true }
        | some _ => { ok := false, hdr := m.rev, resps := [], wrote := false }) := by
  obtain ⟨hk, h1, h2, h3⟩ := hp
  have hke : p.key.isEmpty = false := by cases hkk : p.key <;> simp_all
  have hck : cm.key.isEmpty = false := by rw [hc.2.2.1]; exact hke
  cases hg : m.get p.key with
  | none =>
    simp [refTxn, allValid, opValid, refApplyOps, refApplyOp, hg, evalCompare_mod m cm p.key 0 hc hn, hke, hck,
      h1, h2, h3, Except.map]
  | some e =>
    have h0 : ¬ e.mod = 0 := hmod e hg
    simp [refTxn, allValid, opValid, refApplyOps, hg, evalCompare_mod m cm p.key 0 hc hn, hke, hck,
      h1, h2, h3, h0, Except.map]

theorem ref_update (m : Mvcc) (cm : Compare) (p : PutReq) (g : RangeReq) (n : Int) (hc : ModCmp cm p.key n)
    (hp : PlainPut p) (hg : PlainGet g p.key) (hn : m.kvs.Pairwise (fun a b => a.key ≠ b.key)) :
    (refTxn m { compare := [cm], success := [.put p], failure := [.range g] }).map Prod.fst =
      .ok (if (match m.get p.key with | none => decide (n = 0) | some e => decide ((e.mod : Int) = n)) = true
        then { ok := true, hdr := m.rev + 1, resps := [.put (m.rev + 1)], wrote := true }
        else { ok := false, hdr := m.rev,
               resps := [.range m.rev ((m.get p.key).toList.map KVFull.proj) (m.get p.key).toList.length false],
               wrote := false }) := by
  obtain ⟨hk, h1, h2, h3⟩ := hp
  have hke : p.key.isEmpty = false := by cases hkk : p.key <;> simp_all
  have hck : cm.key.isEmpty = false := by rw [hc.2.2.1]; exact hke
  have hgk : g.key.isEmpty = false := by rw [hg.1]; exact hke
  have hgr : g.revision = 0 := hg.2.2.1
  by_cases hok : (match m.get p.key with | none => decide (n = 0) | some e => decide ((e.mod : Int) = n)) = true
  · rw [if_pos hok]
    cases hget : m.get p.key with
    | none =>
      simp [refTxn, allValid, opValid, refApplyOps, refApplyOp, hget, evalCompare_mod m cm p.key n hc hn, hke, hck, hgk,
        h1, h2, h3, Except.map, hget ▸ hok]
    | some e =>
      simp [refTxn, allValid, opValid, refApplyOps, refApplyOp, hget, evalCompare_mod m cm p.key n hc hn, hke, hck, hgk,
        h1, h2, h3, Except.map, hget ▸ hok]
  · rw [if_neg hok]
    have hev : evalCompare m cm = false := by
      rw [evalCompare_mod m cm p.key n hc hn]
      simpa using hok
    simp [refTxn, allValid, opValid, refApplyOps, refApplyOp, hev, hke, hck, hgk, h1, h2, h3, hgr, Except.map,
      refRangeOn_plain m g p.key hg hn]

theorem ref_gdelete (m : Mvcc) (cm : Compare) (d : DelReq) (g : RangeReq) (n : Int) (hc : ModCmp cm d.key n)
    (hk : d.key ≠ []) (he : d.rangeEnd = []) (hg : PlainGet g d.key)
    (hn : m.kvs.Pairwise (fun a b => a.key ≠ b.key)) :
    (refTxn m { compare := [cm], success := [.del d], failure := [.range g] }).map Prod.fst =
      .ok (match m.get d.key with
        | none => if n = 0 then { ok := true, hdr := m.rev, resps := [.del (m.rev + 1) 0], wrote := false }
                  else { ok := false, hdr := m.rev, resps := [.range m.rev [] 0 false], wrote := false }
        | some e => if (e.mod : Int) = n
                  then { ok := true, hdr := m.rev + 1, resps := [.del (m.rev + 1) 1], wrote := true }
                  else { ok := false, hdr := m.rev, resps := [.range m.rev [e.proj] 1 false], wrote := false }) := by
  have hke : d.key.isEmpty = false := by cases hkk : d.key <;> simp_all
  have hck : cm.key.isEmpty = false := by rw [hc.2.2.1]; exact hke
  have hgk : g.key.isEmpty = false := by rw [hg.1]; exact hke
  have hgr : g.revision = 0 := hg.2.2.1
  cases hget : m.get d.key with
  | none =>
    by_cases h0 : n = 0
    · simp [refTxn, allValid, opValid, refApplyOps, refApplyOp, hget, evalCompare_mod m cm d.key n hc hn, hke, hck, hgk,
        Except.map, h0, he, Mvcc.range_point m d.key hn]
    · simp [refTxn, allValid, opValid, refApplyOps, refApplyOp, hget, evalCompare_mod m cm d.key n hc hn, hke, hck, hgk,
        Except.map, h0, hgr, refRangeOn_plain m g d.key hg hn]
  | some e =>
    by_cases h0 : (e.mod : Int) = n
    · simp [refTxn, allValid, opValid, refApplyOps, refApplyOp, hget, evalCompare_mod m cm d.key n hc hn, hke, hck, hgk,
        Except.map, h0, he, Mvcc.range_point m d.key hn]
    · simp [refTxn, allValid, opValid, refApplyOps, refApplyOp, hget, evalCompare_mod m cm d.key n hc hn, hke, hck, hgk,
        Except.map, h0, hgr, refRangeOn_plain m g d.key hg hn]

theorem ref_udelete (m : Mvcc) (g : RangeReq) (d : DelReq)
    (hk : d.key ≠ []) (he : d.rangeEnd = []) (hg : PlainGet g d.key)
    (hn : m.kvs.Pairwise (fun a b => a.key ≠ b.key)) :
    (refTxn m { compare := [], success := [.range g, .del d], failure := [] }).map Prod.fst =
      .ok (match m.get d.key with
        | none => { ok := true, hdr := m.rev, resps := [.range m.rev [] 0 false, .del (m.rev + 1) 0], wrote := false }
        | some e => { ok := true, hdr := m.rev + 1, resps := [.range m.rev [e.proj] 1 false, .del (m.rev + 1) 1],
                      wrote := true }) := by
  have hke : d.key.isEmpty = false := by cases hkk : d.key <;> simp_all
  have hgk : g.key.isEmpty = false := by rw [hg.1]; exact hke
  have hgr : g.revision = 0 := hg.2.2.1
  cases hget : m.get d.key with
  | none =>
    simp [refTxn, allValid, opValid, refApplyOps, refApplyOp, hget, hke, hgk, Except.map, he, hgr,
      Mvcc.range_point m d.key hn, refRangeOn_plain m g d.key hg hn]
  | some e =>
    simp [refTxn, allValid, opValid, refApplyOps, refApplyOp, hget, hke, hgk, Except.map, he, hgr,
      Mvcc.range_point m d.key hn, refRangeOn_plain m g d.key hg hn]

/-! ### shim = reference on the well-shaped transactions -/

/-- agreement of the two answers on the observable projection -/
def Agree (c : Cfg) (s : BState) (m : Mvcc) (t : TxnReq) : Prop :=
  ∃ r r' m', (shimTxn c s t).1 = .ok r ∧ refTxn m t = .ok (r', m') ∧ r.obs t = r'.obs t

theorem sound_create (c : Cfg) (s : BState) (m : Mvcc) (cm : Compare) (p : PutReq)
    (hc : ModCmp cm p.key 0) (hp : PlainPut p) (hv : p.val ≠ []) (hw : WHyp c s p.key) (ha : AbsAt c s m p.key) :
    Agree c s m { compare := [cm], success := [.put p], failure := [] } := by
  have hshim : (shimTxn c s { compare := [cm], success := [.put p], failure := [] }).1 =
      match curKv c s p.key with
      | none => .ok { ok := true, hdr := s.dealt + 1, resps := [.put (s.dealt + 1)], wrote := true }
      | some _ => .ok { ok := false, hdr := s.dealt + 1, resps := [.put (s.dealt + 1)], wrote := false } := by
    rw [shimTxn_cases]
    rw [classify_create hc]
    simp only
    rw [shimCreate_fst c s p hp hv, doCreate_fst c s p.key p.val hw]
    cases curKv c s p.key <;> rfl
  have href := ref_create m cm p hc hp ha.nodup (by
    intro e he
    rcases abs_cases ha with ⟨_, hg⟩ | ⟨e', hg, _, _, h0⟩
    · rw [hg] at he; cases he
    · rw [hg] at he; cases he; exact h0)
  rcases abs_cases ha with ⟨hcur, hget⟩ | ⟨e, hget, hcur, _, _⟩
  · rw [hcur] at hshim
    rw [hget] at href
    obtain ⟨m', hm'⟩ := exists_of_map_fst href
    exact ⟨_, _, m', hshim, hm', by simp [TxnResp.obs, readsOf, ha.rev]⟩
  · rw [hcur] at hshim
    rw [hget] at href
    obtain ⟨m', hm'⟩ := exists_of_map_fst href
    exact ⟨_, _, m', hshim, hm', by simp [TxnResp.obs, readsOf]⟩

theorem sound_update_in (c : Cfg) (s : BState) (m : Mvcc) (cm : Compare) (p : PutReq) (g : RangeReq) (n : Int)
    (hc : ModCmp cm p.key n) (h0 : 0 ≤ n) (hle : n ≤ s.dealt) (hp : PlainPut p) (hv : p.val ≠ [])
    (hg : PlainGet g p.key) (hw : WHyp c s p.key) (ha : AbsAt c s m p.key) :
    Agree c s m { compare := [cm], success := [.put p], failure := [.range g] } := by
  have hb := hw.bound
  have hu : toU64 n = n.toNat := toU64_of_nonneg h0 (by omega)
  have hexp : n.toNat ≤ s.dealt := by omega
  have hshim : (shimTxn c s { compare := [cm], success := [.put p], failure := [.range g] }).1 =
      match curKv c s p.key with
      | none => if n.toNat = 0
          then .ok { ok := true, hdr := s.dealt + 1, resps := [.put (s.dealt + 1)], wrote := true }
          else .ok { ok := false, hdr := s.dealt + 1, resps := [.range (s.dealt + 1) [] 0 false], wrote := false }
      | some (_, cv, cmod) => if n.toNat = cmod
          then .ok { ok := true, hdr := s.dealt + 1, resps := [.put (s.dealt + 1)], wrote := true }
          else .ok { ok := false, hdr := max (s.dealt + 1) cmod,
                     resps := [.range (max (s.dealt + 1) cmod) [(p.key, cv, cmod)] 0 false], wrote := false } := by
    rw [shimTxn_cases]
    rw [classify_update hc hp hg]
    simp only
    rw [shimUpdate_fst c s n p.key p.val hv, hu, doUpdate_fst c s p.key p.val n.toNat hw hexp]
    cases curKv c s p.key with
    | none =>
      simp only
      by_cases hz : n.toNat = 0 <;> simp [hz]
    | some kv =>
      obtain ⟨k', cv, cmod⟩ := kv
      simp only
      by_cases hz : n.toNat = cmod <;> simp [hz]
  have href := ref_update m cm p g n hc hp hg ha.nodup
  rcases abs_cases ha with ⟨hcur, hget⟩ | ⟨e, hget, hcur, hek, _⟩
  · rw [hcur] at hshim
    rw [hget] at href
    simp only at hshim href
    by_cases hz : n = 0
    · have hz' : n.toNat = 0 := by omega
      rw [if_pos hz'] at hshim
      rw [if_pos (by simp [hz])] at href
      obtain ⟨m', hm'⟩ := exists_of_map_fst href
      exact ⟨_, _, m', hshim, hm', by simp [TxnResp.obs, readsOf, ha.rev]⟩
    · have hz' : ¬ n.toNat = 0 := by omega
      rw [if_neg hz'] at hshim
      rw [if_neg (by simp [hz])] at href
      obtain ⟨m', hm'⟩ := exists_of_map_fst href
      exact ⟨_, _, m', hshim, hm', by simp [TxnResp.obs, readsOf, RespOp.kvs?]⟩
  · rw [hcur] at hshim
    rw [hget] at href
    simp only at hshim href
    by_cases hz : (e.mod : Int) = n
    · have hz' : n.toNat = e.mod := by omega
      rw [if_pos hz'] at hshim
      rw [if_pos (by simp [hz])] at href
      obtain ⟨m', hm'⟩ := exists_of_map_fst href
      exact ⟨_, _, m', hshim, hm', by simp [TxnResp.obs, readsOf, ha.rev]⟩
    · have hz' : ¬ n.toNat = e.mod := by omega
      rw [if_neg hz'] at hshim
      rw [if_neg (by simp [hz])] at href
      obtain ⟨m', hm'⟩ := exists_of_map_fst href
      exact ⟨_, _, m', hshim, hm', by simp [TxnResp.obs, readsOf, RespOp.kvs?, KVFull.proj, hek]⟩

theorem sound_gdelete_in (c : Cfg) (s : BState) (m : Mvcc) (cm : Compare) (d : DelReq) (g : RangeReq) (n : Int)
    (hc : ModCmp cm d.key n) (h0 : 0 < n) (hle : n ≤ s.dealt) (hk : d.key ≠ []) (he : d.rangeEnd = [])
    (hp : d.prevKv = false) (hg : PlainGet g d.key) (hw : WHyp c s d.key) (ha : AbsAt c s m d.key) :
    Agree c s m { compare := [cm], success := [.del d], failure := [.range g] } := by
  have hb := hw.bound
  have hu : toU64 n = n.toNat := toU64_of_nonneg (by omega) (by omega)
  have hexp : n.toNat ≤ s.dealt := by omega
  have hn0 : ¬ n.toNat = 0 := by omega
  have hshim : (shimTxn c s { compare := [cm], success := [.del d], failure := [.range g] }).1 =
      match curKv c s d.key with
      | none => .ok { ok := false, hdr := s.dealt + 1, resps := [.range (s.dealt + 1) [] 0 false], wrote := false }
      | some (k', cv, cmod) => if n.toNat = cmod
          then .ok { ok := true, hdr := s.dealt + 1, resps := [.range (s.dealt + 1) [(k', cv, cmod)] 0 false],
                     wrote := true }
          else .ok { ok := false, hdr := max (s.dealt + 1) cmod,
                     resps := [.range (max (s.dealt + 1) cmod) [(d.key, cv, cmod)] 0 false], wrote := false } := by
    rw [shimTxn_cases]
    rw [classify_gdelete hc h0 he hp hg]
    simp only
    rw [shimDelete_fst c s n d.key, hu, doDelete_fst c s d.key n.toNat hw hexp]
    cases curKv c s d.key with
    | none => rfl
    | some kv =>
      obtain ⟨k', cv, cmod⟩ := kv
      simp only
      by_cases hz : n.toNat = cmod <;> simp [hz, hn0]
  have href := ref_gdelete m cm d g n hc hk he hg ha.nodup
  rcases abs_cases ha with ⟨hcur, hget⟩ | ⟨e, hget, hcur, hek, _⟩
  · rw [hcur] at hshim
    rw [hget] at href
    simp only at hshim href
    rw [if_neg (by omega)] at href
    obtain ⟨m', hm'⟩ := exists_of_map_fst href
    exact ⟨_, _, m', hshim, hm', by simp [TxnResp.obs, readsOf, RespOp.kvs?]⟩
  · rw [hcur] at hshim
    rw [hget] at href
    simp only at hshim href
    by_cases hz : (e.mod : Int) = n
    · have hz' : n.toNat = e.mod := by omega
      rw [if_pos hz'] at hshim
      rw [if_pos hz] at href
      obtain ⟨m', hm'⟩ := exists_of_map_fst href
      exact ⟨_, _, m', hshim, hm', by simp [TxnResp.obs, readsOf, ha.rev]⟩
    · have hz' : ¬ n.toNat = e.mod := by omega
      rw [if_neg hz'] at hshim
      rw [if_neg hz] at href
      obtain ⟨m', hm'⟩ := exists_of_map_fst href
      exact ⟨_, _, m', hshim, hm', by simp [TxnResp.obs, readsOf, RespOp.kvs?, KVFull.proj, hek]⟩

/-- the shim's answer to the unguarded delete (a missing key: `Succeeded = true`, kv.go `!guarded`) -/
theorem shim_udelete (c : Cfg) (s : BState) (g : RangeReq) (d : DelReq) (he : d.rangeEnd = [])
    (hp : d.prevKv = false) (hg : PlainGet g d.key) (hw : WHyp c s d.key) :
    (shimTxn c s { compare := [], success := [.range g, .del d], failure := [] }).1 =
      match curKv c s d.key with
      | none => .ok { ok := true, hdr := s.dealt + 1, resps := [.range (s.dealt + 1) [] 0 false], wrote := false }
      | some (k', cv, cmod) =>
        .ok { ok := true, hdr := s.dealt + 1, resps := [.range (s.dealt + 1) [(k', cv, cmod)] 0 false], wrote := true } := by
  have hfst : (shimDelete c s 0 d.key).1 = match curKv c s d.key with
      | none => .ok { ok := false, hdr := s.dealt + 1, resps := [.range (s.dealt + 1) [] 0 false], wrote := false }
      | some (k', cv, cmod) =>
        .ok { ok := true, hdr := s.dealt + 1, resps := [.range (s.dealt + 1) [(k', cv, cmod)] 0 false], wrote := true } := by
    have hu : toU64 0 = 0 := by decide
    rw [shimDelete_fst c s 0 d.key, hu, doDelete_fst c s d.key 0 hw (by omega)]
    cases curKv c s d.key with
    | none => rfl
    | some kv =>
      obtain ⟨k', cv, cmod⟩ := kv
      simp
  rw [shimTxn_cases]
  rw [classify_udelete he hp hg]
  simp only
  generalize hd : shimDelete c s 0 d.key = pr at hfst
  obtain ⟨r, s'⟩ := pr
  simp only at hfst
  subst hfst
  cases curKv c s d.key with
  | none => rfl
  | some kv =>
    obtain ⟨k', cv, cmod⟩ := kv
    rfl

theorem sound_udelete (c : Cfg) (s : BState) (m : Mvcc) (g : RangeReq) (d : DelReq)
    (hk : d.key ≠ []) (he : d.rangeEnd = []) (hp : d.prevKv = false) (hg : PlainGet g d.key) (hw : WHyp c s d.key)
    (ha : AbsAt c s m d.key) :
    Agree c s m { compare := [], success := [.range g, .del d], failure := [] } := by
  have hshim := shim_udelete c s g d he hp hg hw
  have href := ref_udelete m g d hk he hg ha.nodup
  rcases abs_cases ha with ⟨hcur, hget⟩ | ⟨e, hget, hcur, hek, _⟩
  · rw [hcur] at hshim
    rw [hget] at href
    simp only at hshim href
    obtain ⟨m', hm'⟩ := exists_of_map_fst href
    exact ⟨_, _, m', hshim, hm', by simp [TxnResp.obs, readsOf, RespOp.kvs?]⟩
  · rw [hcur] at hshim
    rw [hget] at href
    simp only at hshim href
    obtain ⟨m', hm'⟩ := exists_of_map_fst href
    exact ⟨_, _, m', hshim, hm', by simp [TxnResp.obs, readsOf, RespOp.kvs?, KVFull.proj, hek, ha.rev]⟩

/-! ### expectations outside `0 .. dealt`: refused with a drift error, or answered like etcd -/

theorem toU64_neg {n : Int} (hlo : -2 ^ 63 ≤ n) (hneg : n < 0) : toU64 n = (n + 2 ^ 64).toNat := by
  unfold toU64
  have h : n % 2 ^ 64 = (n + 2 ^ 64) % 2 ^ 64 := by rw [Int.add_emod_right]
  rw [h, Int.emod_eq_of_lt (by omega) (by omega)]

theorem doUpdate_drift (c : Cfg) (s : BState) (k v : Bytes) (exp : Nat) (hgt : s.dealt + 1 ≤ exp) :
    (doUpdate c s k v exp []).1 = .error .drift := by
  have h0 : exp ≠ 0 := by omega
  simp [doUpdate, h0, hgt]

theorem doDelete_far (c : Cfg) (s : BState) (k : Bytes) (exp : Nat) (hgt : s.dealt + 1 ≤ exp) :
    (doDelete c s k exp []).1 = match curKv c s k with
      | none => .notFound (s.dealt + 1)
      | some _ => .error .drift := by
  have hpos : 0 < exp := by omega
  rw [curKv_eq]
  cases hg : getInternal c s.store k 0 with
  | none => simp [doDelete, bget_eq, hg]
  | some vm =>
    obtain ⟨vv, mm⟩ := vm
    by_cases ht : isTomb vv = true
    · simp [doDelete, bget_eq, hg, ht]
    · simp [doDelete, bget_eq, hg, ht, hpos, hgt]

/-- the far expectation as the backend sees it: a revision at or above `dealt + 1` (the revision about to be dealt) -/
theorem toU64_far {n : Int} {dealt : Nat} (hlo : -2 ^ 63 ≤ n) (hhi : n < 2 ^ 63) (h63 : dealt + 1 < 2 ^ 63)
    (hout : n < 0 ∨ (dealt : Int) + 1 ≤ n) : dealt + 1 ≤ toU64 n := by
  rcases hout with hneg | hbig
  · rw [toU64_neg hlo hneg]; omega
  · rw [toU64_of_nonneg (by omega) (by omega)]; omega

theorem sound_update (c : Cfg) (s : BState) (m : Mvcc) (cm : Compare) (p : PutReq) (g : RangeReq) (n : Int)
    (hc : ModCmp cm p.key n) (hlo : -2 ^ 63 ≤ n) (hhi : n < 2 ^ 63) (h63 : s.dealt + 1 < 2 ^ 63)
    (hp : PlainPut p) (hv : p.val ≠ []) (hg : PlainGet g p.key) (hw : WHyp c s p.key) (ha : AbsAt c s m p.key) :
    (∃ e, (shimTxn c s { compare := [cm], success := [.put p], failure := [.range g] }).1 = .error e) ∨
    Agree c s m { compare := [cm], success := [.put p], failure := [.range g] } := by
  by_cases hin : 0 ≤ n ∧ n ≤ s.dealt
  · exact .inr (sound_update_in c s m cm p g n hc hin.1 hin.2 hp hv hg hw ha)
  · left
    have hfar := toU64_far hlo hhi h63 (dealt := s.dealt) (by omega)
    refine ⟨.backend .drift, ?_⟩
    rw [shimTxn_cases]
    rw [classify_update hc hp hg]
    simp only
    rw [shimUpdate_fst c s n p.key p.val hv, doUpdate_drift c s p.key p.val (toU64 n) hfar]

theorem sound_gdelete (c : Cfg) (s : BState) (m : Mvcc) (cm : Compare) (d : DelReq) (g : RangeReq) (n : Int)
    (hc : ModCmp cm d.key n) (h0 : 0 < n) (hhi : n < 2 ^ 63) (h63 : s.dealt + 1 < 2 ^ 63) (hk : d.key ≠ [])
    (he : d.rangeEnd = []) (hp : d.prevKv = false) (hg : PlainGet g d.key) (hw : WHyp c s d.key)
    (ha : AbsAt c s m d.key) :
    (∃ e, (shimTxn c s { compare := [cm], success := [.del d], failure := [.range g] }).1 = .error e) ∨
    Agree c s m { compare := [cm], success := [.del d], failure := [.range g] } := by
  by_cases hin : n ≤ s.dealt
  · exact .inr (sound_gdelete_in c s m cm d g n hc h0 hin hk he hp hg hw ha)
  · have hfar := toU64_far (n := n) (by omega) hhi h63 (dealt := s.dealt) (by omega)
    have hshim : (shimTxn c s { compare := [cm], success := [.del d], failure := [.range g] }).1 =
        match curKv c s d.key with
        | none => .ok { ok := false, hdr := s.dealt + 1, resps := [.range (s.dealt + 1) [] 0 false], wrote := false }
        | some _ => .error (.backend .drift) := by
      rw [shimTxn_cases]
      rw [classify_gdelete hc h0 he hp hg]
      simp only
      rw [shimDelete_fst c s n d.key, doDelete_far c s d.key (toU64 n) hfar]
      cases curKv c s d.key <;> rfl
    rcases abs_cases ha with ⟨hcur, hget⟩ | ⟨e, _, hcur, _, _⟩
    · right
      rw [hcur] at hshim
      have href := ref_gdelete m cm d g n hc hk he hg ha.nodup
      rw [hget] at href
      simp only at hshim href
      rw [if_neg (by omega)] at href
      obtain ⟨m', hm'⟩ := exists_of_map_fst href
      exact ⟨_, _, m', hshim, hm', by simp [TxnResp.obs, readsOf, RespOp.kvs?]⟩
    · left
      rw [hcur] at hshim
      exact ⟨_, hshim⟩

/-! ### every transaction: refused, or answered like etcd -/

def Op.keyGiven : Op → Prop
  | .put p => p.key ≠ []
  | .range r => r.key ≠ []
  | .del d => d.key ≠ []
  | _ => True

/-- The request is structurally valid as far as it matters here (etcd's `checkTxnRequest` refuses the
rest before any semantics): every key is given, the compared integers are int64. -/
structure ReqOK (t : TxnReq) : Prop where
  ckeys : ∀ c ∈ t.compare, c.key ≠ []
  skeys : ∀ o ∈ t.success, o.keyGiven
  fkeys : ∀ o ∈ t.failure, o.keyGiven
  ints : ∀ c ∈ t.compare, -2 ^ 63 ≤ c.int ∧ c.int < 2 ^ 63

theorem shimCreate_flags (c : Cfg) (s : BState) (p : PutReq)
    (h : p.ignoreLease = true ∨ p.ignoreValue = true ∨ p.prevKv = true) :
    shimCreate c s p = (.error .field, s) := by
  unfold shimCreate
  rcases h with h | h | h <;> simp [h]

/-- a transaction whose backend call carries no value is answered with the backend's refusal and nothing is
executed: no revision is dealt, the state is unchanged (/repo f2a549c) -/
theorem shimTxn_empty_value (c : Cfg) (s : BState) (t : TxnReq) (call : BCall)
    (h : backendCall (classify t) = some call) (he : call.emptyValue = true) :
    shimTxn c s t = (.error (.backend .other), s) := by
  unfold shimTxn
  rw [h]
  simp only [runCall, he, if_true]
  cases hcl : classify t with
  | create p =>
    rw [hcl] at h
    by_cases hf : (p.ignoreLease || p.ignoreValue || p.prevKv) = true
    · simp [backendCall, hf] at h
    · simp [shapeTxn, hf, shapeCreate]
  | delete rev key guarded =>
    rw [hcl] at h
    simp only [backendCall, Option.some.injEq] at h
    subst h
    simp [BCall.emptyValue] at he
  | update rev key val lease => simp [shapeTxn, shapeUpdate]
  | compact => rw [hcl] at h; simp [backendCall] at h
  | unsupported => rw [hcl] at h; simp [backendCall] at h

theorem classify_none {t : TxnReq} (h1 : isCreate t = none) (h2 : isDelete t = none) (h3 : isUpdate t = none) :
    classify t = if isCompact t then .compact else .unsupported := by
  simp [classify, h1, h2, h3]

/-- what is executed is well-shaped: the case analysis behind `shim_sound` and
`executed_only_if_canonical` -/
theorem txn_cases (t : TxnReq) (hreq : ReqOK t) :
    (classify t = .unsupported) ∨ (classify t = .compact) ∨
    (∃ cm p, t = { compare := [cm], success := [.put p], failure := [] } ∧ ModCmp cm p.key 0 ∧
      (p.ignoreLease = true ∨ p.ignoreValue = true ∨ p.prevKv = true)) ∨
    (∃ call, backendCall (classify t) = some call ∧ call.emptyValue = true) ∨
    Canonical t := by
  cases h1 : isCreate t with
  | some p =>
    obtain ⟨cm, rfl, hc⟩ := isCreate_inv h1
    by_cases hf : p.ignoreLease = true ∨ p.ignoreValue = true ∨ p.prevKv = true
    · exact .inr (.inr (.inl ⟨cm, p, rfl, hc, hf⟩))
    · have hk : p.key ≠ [] := hreq.skeys (.put p) (by simp)
      have f1 : p.prevKv = false := by cases h : p.prevKv <;> simp_all
      have f2 : p.ignoreValue = false := by cases h : p.ignoreValue <;> simp_all
      have f3 : p.ignoreLease = false := by cases h : p.ignoreLease <;> simp_all
      by_cases hv : p.val = []
      · -- a create without a value: refused by the backend before a revision is dealt
        refine .inr (.inr (.inr (.inl ⟨.create p.key p.val p.lease, ?_, by simp [BCall.emptyValue, hv]⟩)))
        rw [classify_create hc]
        simp [backendCall, f1, f2, f3]
      · exact .inr (.inr (.inr (.inr (.create cm p hc ⟨hk, f1, f2, f3⟩ hv))))
  | none =>
    cases h2 : isDelete t with
    | some x =>
      obtain ⟨n, k, gd⟩ := x
      rcases isDelete_inv h2 with ⟨_, _, g, d, rfl, _, he, hp, hg⟩ | ⟨_, cm, g, d, rfl, _, hc, h0, he, hp, hg⟩
      · have hk : d.key ≠ [] := hreq.skeys (.del d) (by simp)
        exact .inr (.inr (.inr (.inr (.udelete g d hk he hp hg))))
      · have hk : d.key ≠ [] := hreq.skeys (.del d) (by simp)
        exact .inr (.inr (.inr (.inr (.gdelete cm d g n hc h0 hk he hp hg))))
    | none =>
      cases h3 : isUpdate t with
      | some x =>
        obtain ⟨n, k, v, l⟩ := x
        obtain ⟨cm, p, g, rfl, hc, f1, f2, f3, hg⟩ := isUpdate_inv h3
        have hk : p.key ≠ [] := hreq.skeys (.put p) (by simp)
        by_cases hv : p.val = []
        · -- an update without a value: refused by the backend before a revision is dealt
          refine .inr (.inr (.inr (.inl ⟨.update p.key p.val (toU64 n) p.lease, ?_, by simp [BCall.emptyValue, hv]⟩)))
          rw [classify_update' hc f1 f2 f3 hg]
          rfl
        · exact .inr (.inr (.inr (.inr (.update cm p g n hc ⟨hk, f1, f2, f3⟩ hv hg))))
      | none =>
        rw [classify_none h1 h2 h3]
        cases isCompact t <;> simp

/-- the key a well-shaped transaction works on -/
def opKey (t : TxnReq) : Bytes :=
  match t.success with
  | [.put p] => p.key
  | [.del d] => d.key
  | [_, .del d] => d.key
  | _ => []

/-- a well-shaped transaction is refused with a drift error (expectation outside `0 .. dealt+1`) or
answered like etcd -/
theorem canonical_sound (c : Cfg) (s : BState) (m : Mvcc) (t : TxnReq) (hcan : Canonical t)
    (hints : ∀ cm ∈ t.compare, -2 ^ 63 ≤ cm.int ∧ cm.int < 2 ^ 63) (h63 : s.dealt + 1 < 2 ^ 63)
    (hw : WHyp c s (opKey t)) (ha : AbsAt c s m (opKey t)) :
    (∃ e, (shimTxn c s t).1 = .error e) ∨ Agree c s m t := by
  cases hcan with
  | create cm p hc hp hv => exact .inr (sound_create c s m cm p hc hp hv hw ha)
  | update cm p g n hc hp hv hg =>
    have hi := hints cm (by simp)
    rw [hc.2.2.2.2] at hi
    exact sound_update c s m cm p g n hc hi.1 hi.2 h63 hp hv hg hw ha
  | gdelete cm d g n hc h0 hk he hp hg =>
    have hi := hints cm (by simp)
    rw [hc.2.2.2.2] at hi
    exact sound_gdelete c s m cm d g n hc h0 hi.2 h63 hk he hp hg hw ha
  | udelete g d hk he hp hg => exact .inr (sound_udelete c s m g d hk he hp hg hw ha)

theorem getInternal_empty (c : Cfg) (k : Bytes) (R : Nat) : getInternal c [] k R = none := by
  have hlim : ∀ lim, applyLimit c.q lim [] = [] := by
    intro lim
    unfold applyLimit
    split
    · rfl
    · cases c.q.limitMode <;> simp
  have hdesc : ∀ a b, iterDesc c.q [] a b = [] := by
    intro a b
    unfold iterDesc
    cases h : c.q.revFirstUnchecked <;> simp
  have hit : ∀ a b lim, iterate c.q [] a b lim = [] := by
    intro a b lim
    unfold iterate
    split
    · exact hlim lim
    · split
      · rw [hdesc]; exact hlim lim
      · exact hlim lim
  unfold getInternal
  simp only [hit]

end KB.Etcd
