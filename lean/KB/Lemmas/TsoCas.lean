/-
  Lemmas about the atomic-instruction LTS of the revision allocator (KB.TsoCas): the per-thread
  invariant `WF` and its preservation by every step, register monotonicity, stability of finished threads,
  solo runs of a Commit, and the potential argument that bounds the failed compare-and-swaps of one
  Commit by the changes other threads make to the register.
-/
import KB.TsoCas
namespace KB.TsoCas

/-! ## one step, thread by thread -/

theorem run_nil (s : State) : run s [] = s := rfl
theorem run_cons (s : State) (t : Nat) (p : List Nat) : run s (t :: p) = run (step s t) p := rfl
theorem run_append (s : State) (p q : List Nat) : run s (p ++ q) = run (run s p) q := by
  simp [run, List.foldl_append]

theorem step_none {s : State} {t : Nat} (h : s.threads[t]? = none) : step s t = s := by
  simp [step, h]

theorem step_some {s : State} {t : Nat} {pc : Pc} (h : s.threads[t]? = some pc) :
    step s t = { window := s.window, committed := (stepPc s.window s.committed s.deal pc).1, deal := (stepPc s.window s.committed s.deal pc).2.1,
                 threads := s.threads.set t (stepPc s.window s.committed s.deal pc).2.2 } := by
  simp [step, h]

theorem step_threads_ne (s : State) {t j : Nat} (hne : j ≠ t) : (step s t).threads[j]? = s.threads[j]? := by
  cases h : s.threads[t]? with
  | none => rw [step_none h]
  | some pc =>
    rw [step_some h]
    simp [Ne.symm hne]

theorem step_threads_self {s : State} {t : Nat} {pc : Pc} (h : s.threads[t]? = some pc) :
    (step s t).threads[t]? = some (stepPc s.window s.committed s.deal pc).2.2 := by
  rw [step_some h]
  have hlt : t < s.threads.length := by
    rcases List.getElem?_eq_some_iff.mp h with ⟨hl, _⟩
    exact hl
  simp [hlt]

theorem step_length (s : State) (t : Nat) : (step s t).threads.length = s.threads.length := by
  cases h : s.threads[t]? with
  | none => rw [step_none h]
  | some pc => rw [step_some h]; simp

theorem step_window (s : State) (t : Nat) : (step s t).window = s.window := by
  cases h : s.threads[t]? with
  | none => rw [step_none h]
  | some pc => rw [step_some h]

theorem run_window (s : State) (p : List Nat) : (run s p).window = s.window := by
  induction p generalizing s with
  | nil => rfl
  | cons t p ih => rw [run_cons, ih, step_window]

theorem run_length (s : State) (p : List Nat) : (run s p).threads.length = s.threads.length := by
  induction p generalizing s with
  | nil => rfl
  | cons t p ih => rw [run_cons, ih, step_length]

/-! ## finished threads -/

def Pc.done : Pc → Bool
  | .dealDone _ | .dealRefused _ _ | .getDone _ | .commitDone _ | .oldDone _ => true
  | _ => false

theorem stepPc_done {pc : Pc} (h : pc.done = true) (W c d : Nat) : stepPc W c d pc = (c, d, pc) := by
  cases pc <;> simp [Pc.done] at h <;> rfl

theorem step_done {s : State} {t : Nat} {pc : Pc} (h : s.threads[t]? = some pc) (hd : pc.done = true) :
    step s t = s := by
  rw [step_some h, stepPc_done hd]
  cases s with
  | mk W c d ts =>
    simp only [State.mk.injEq, true_and]
    apply List.ext_getElem?
    intro j
    by_cases hj : j = t
    · subst hj
      rcases List.getElem?_eq_some_iff.mp h with ⟨hlt, he⟩
      simp [hlt]
      exact he.symm
    · simp [Ne.symm hj]

theorem done_stable {s : State} {t : Nat} {pc : Pc} (h : s.threads[t]? = some pc) (hd : pc.done = true)
    (p : List Nat) : (run s p).threads[t]? = some pc := by
  induction p generalizing s with
  | nil => exact h
  | cons i p ih =>
    rw [run_cons]
    apply ih
    by_cases hi : i = t
    · subst hi; rw [step_done h hd]; exact h
    · rw [step_threads_ne s (Ne.symm hi)]; exact h

/-! ## monotone registers -/

theorem stepPc_deal_mono (W c d : Nat) (pc : Pc) : d ≤ (stepPc W c d pc).2.1 := by
  cases pc <;> simp only [stepPc] <;> (try split) <;> (try split) <;> simp_all <;> omega

theorem stepPc_committed_mono (W c d : Nat) (pc : Pc) (h : ∀ r, pc ≠ .oldStoreC r) : c ≤ (stepPc W c d pc).1 := by
  cases pc <;> simp only [stepPc] <;> (try split) <;> (try split) <;> simp_all <;> omega

theorem stepPc_not_oldStoreC (W c d : Nat) (pc : Pc) (r : Nat) : (stepPc W c d pc).2.2 ≠ .oldStoreC r := by
  cases pc <;> simp only [stepPc] <;> (try split) <;> (try split) <;> simp

theorem step_deal_mono (s : State) (t : Nat) : s.deal ≤ (step s t).deal := by
  cases h : s.threads[t]? with
  | none => rw [step_none h]; exact Nat.le_refl _
  | some pc => rw [step_some h]; exact stepPc_deal_mono _ _ _ _

theorem run_deal_mono (s : State) (p : List Nat) : s.deal ≤ (run s p).deal := by
  induction p generalizing s with
  | nil => exact Nat.le_refl _
  | cons t p ih => rw [run_cons]; exact Nat.le_trans (step_deal_mono s t) (ih _)

/-- No thread is about to execute the pre-db7d4ff plain store. -/
def NoPlainStore (s : State) : Prop := ∀ (i r : Nat), s.threads[i]? ≠ some (Pc.oldStoreC r)

theorem noPlainStore_step {s : State} (h : NoPlainStore s) (t : Nat) : NoPlainStore (step s t) := by
  intro i r hi
  by_cases hit : i = t
  · subst hit
    cases hs : s.threads[i]? with
    | none => rw [step_none hs] at hi; exact h i r hi
    | some pc =>
      rw [step_threads_self hs] at hi
      exact stepPc_not_oldStoreC _ _ _ _ _ (Option.some.inj hi)
  · rw [step_threads_ne s hit] at hi; exact h i r hi

theorem noPlainStore_run {s : State} (h : NoPlainStore s) (p : List Nat) : NoPlainStore (run s p) := by
  induction p generalizing s with
  | nil => exact h
  | cons t p ih => rw [run_cons]; exact ih (noPlainStore_step h t)

theorem step_committed_mono {s : State} (h : NoPlainStore s) (t : Nat) : s.committed ≤ (step s t).committed := by
  cases hs : s.threads[t]? with
  | none => rw [step_none hs]; exact Nat.le_refl _
  | some pc =>
    rw [step_some hs]
    exact stepPc_committed_mono _ _ _ _ (fun r hr => h t r (hr ▸ hs))

theorem run_committed_mono {s : State} (h : NoPlainStore s) (p : List Nat) : s.committed ≤ (run s p).committed := by
  induction p generalizing s with
  | nil => exact Nat.le_refl _
  | cons t p ih => rw [run_cons]; exact Nat.le_trans (step_committed_mono h t) (ih (noPlainStore_step h t))

/-! ## the invariant -/

/-- What a thread at `pc` knows about the registers `c d` (window `W`): results and loaded values are below
the register they were read from, a returned Deal result is inside the window of the CURRENT committed
revision, a refusal was justified by the values loaded, a Commit past its first loop has `committed ≥ r`, a
finished one has both. -/
def Local (W c d : Nat) : Pc → Prop
  | .dealLoadD | .getLoad | .loadC _ => True
  | .dealLoadC dealt => dealt ≤ d
  | .dealCas dealt c0 => dealt ≤ d ∧ c0 ≤ c
  | .dealDone v => 1 ≤ v ∧ v ≤ d ∧ v ≤ c + (W - 1)
  | .dealRefused dealt c0 => dealt ≤ d ∧ c0 ≤ c ∧ c0 ≤ dealt ∧ W ≤ dealt + 1 - c0
  | .getDone v => v ≤ c
  | .casC _ cur => cur ≤ c
  | .loadD r => r ≤ c
  | .casD r cur => r ≤ c ∧ cur ≤ d
  | .commitDone r => r ≤ c ∧ r ≤ d
  | .dealAddOld | .oldStoreC _ | .midLoadC _ | .midCasC _ _ | .oldLoadD _ | .oldCasD _ _ | .oldDone _ => False

/-- Returned Deal results are pairwise different. -/
def DistinctDeals (ts : List Pc) : Prop :=
  ∀ (i j v : Nat), ts[i]? = some (Pc.dealDone v) → ts[j]? = some (Pc.dealDone v) → i = j

/-- The invariant of the LTS (current routines only). -/
structure WF (s : State) : Prop where
  loc : ∀ (i : Nat) (pc : Pc), s.threads[i]? = some pc → Local s.window s.committed s.deal pc
  distinct : DistinctDeals s.threads

theorem Local_mono {W c d c' d' : Nat} {pc : Pc} (h : Local W c d pc) (hc : c ≤ c') (hd : d ≤ d') : Local W c' d' pc := by
  cases pc <;> simp only [Local] at h ⊢ <;> omega

theorem stepPc_local {W c d : Nat} {pc : Pc} (h : Local W c d pc) :
    c ≤ (stepPc W c d pc).1 ∧ d ≤ (stepPc W c d pc).2.1 ∧
      Local W (stepPc W c d pc).1 (stepPc W c d pc).2.1 (stepPc W c d pc).2.2 := by
  cases pc <;> simp only [Local] at h <;> simp only [stepPc] <;> (try split) <;> (try split) <;>
    simp only [Local] <;> (first | omega | simp)

theorem stepPc_dealDone {W c d : Nat} {pc : Pc} {v : Nat} (h : (stepPc W c d pc).2.2 = .dealDone v) :
    v = d + 1 ∨ pc = .dealDone v := by
  cases pc <;> simp only [stepPc] at h <;> (try split at h) <;> (try split at h) <;> simp_all <;> omega

theorem wf_not_old {s : State} (h : WF s) {i : Nat} {pc : Pc} (hi : s.threads[i]? = some pc) : pc.current = true := by
  have := h.loc i pc hi
  cases pc <;> simp [Local] at this <;> rfl

theorem wf_noPlainStore {s : State} (h : WF s) : NoPlainStore s := by
  intro i r hi
  have := h.loc i _ hi
  simp [Local] at this

theorem wf_step {s : State} (h : WF s) (t : Nat) : WF (step s t) := by
  cases hs : s.threads[t]? with
  | none => rw [step_none hs]; exact h
  | some pc =>
    have hl := stepPc_local (h.loc t pc hs)
    have hc : (step s t).committed = (stepPc s.window s.committed s.deal pc).1 := by rw [step_some hs]
    have hd : (step s t).deal = (stepPc s.window s.committed s.deal pc).2.1 := by rw [step_some hs]
    constructor
    · intro i pc' hi
      rw [step_window, hc, hd]
      by_cases hit : i = t
      · subst hit
        rw [step_threads_self hs] at hi
        cases hi
        exact hl.2.2
      · rw [step_threads_ne s hit] at hi
        exact Local_mono (h.loc i pc' hi) hl.1 hl.2.1
    · -- a fresh result is deal+1, above every result returned so far
      have origin : ∀ i v, (step s t).threads[i]? = some (.dealDone v) →
          s.threads[i]? = some (.dealDone v) ∨ (i = t ∧ v = s.deal + 1) := by
        intro i v hi
        by_cases hit : i = t
        · subst hit
          rw [step_threads_self hs] at hi
          rcases stepPc_dealDone (Option.some.inj hi) with hv | hpc
          · exact Or.inr ⟨rfl, hv⟩
          · exact Or.inl (hpc ▸ hs)
        · rw [step_threads_ne s hit] at hi; exact Or.inl hi
      intro i j v hi hj
      rcases origin i v hi with hi' | ⟨hit, hv⟩ <;> rcases origin j v hj with hj' | ⟨hjt, hv'⟩
      · exact h.distinct i j v hi' hj'
      · have := h.loc i _ hi'; simp only [Local] at this; omega
      · have := h.loc j _ hj'; simp only [Local] at this; omega
      · rw [hit, hjt]

theorem wf_run {s : State} (h : WF s) (p : List Nat) : WF (run s p) := by
  induction p generalizing s with
  | nil => exact h
  | cons t p ih => rw [run_cons]; exact ih (wf_step h t)

theorem wf_init (W c d : Nat) (calls : List Call) : WF (init W c d calls) := by
  constructor
  · intro i pc hi
    simp only [init, List.getElem?_map] at hi
    cases hc : calls[i]? with
    | none => simp [hc] at hi
    | some call =>
      simp [hc] at hi
      subst hi
      cases call <;> simp [Call.entry, Local]
  · intro i j v hi _
    simp only [init, List.getElem?_map] at hi
    cases hc : calls[i]? with
    | none => simp [hc] at hi
    | some call =>
      simp [hc] at hi
      cases call <;> simp [Call.entry] at hi

/-! ## the deal cursor stays inside the window of the committed revision -/

theorem stepPc_cursor_window {W c d : Nat} {pc : Pc} (h : Local W c d pc) (hw : d ≤ c + (W - 1)) :
    (stepPc W c d pc).2.1 ≤ (stepPc W c d pc).1 + (W - 1) := by
  cases pc <;> simp only [Local] at h <;> simp only [stepPc] <;> (try split) <;> (try split) <;> (try simp only) <;> omega

theorem step_cursor_window {s : State} (h : WF s) (hw : s.deal ≤ s.committed + (s.window - 1)) (t : Nat) :
    (step s t).deal ≤ (step s t).committed + ((step s t).window - 1) := by
  cases hs : s.threads[t]? with
  | none => rw [step_none hs]; exact hw
  | some pc =>
    rw [step_some hs]
    exact stepPc_cursor_window (h.loc t pc hs) hw

theorem run_cursor_window {s : State} (h : WF s) (hw : s.deal ≤ s.committed + (s.window - 1)) (p : List Nat) :
    (run s p).deal ≤ (run s p).committed + ((run s p).window - 1) := by
  induction p generalizing s with
  | nil => exact hw
  | cons t p ih => rw [run_cons]; exact ih (wf_step h t) (step_cursor_window h hw t)

/-! ## a Deal that has not executed its add yet returns a value above the current cursor -/

theorem stepPc_dealing {W c d : Nat} {pc : Pc} (h : pc.dealing = true) :
    (stepPc W c d pc).2.2 = .dealDone (d + 1) ∨ (stepPc W c d pc).2.2.dealing = true ∨
      ∃ a b, (stepPc W c d pc).2.2 = .dealRefused a b := by
  cases pc <;> simp [Pc.dealing] at h <;> simp only [stepPc] <;> (try split) <;> (try split) <;>
    simp_all [Pc.dealing]

/-- A Deal call that is still in progress (its successful add has not executed) returns, if it returns a
revision at all, one above the cursor's present value. -/
theorem deal_result_above {s : State} {b v : Nat} {pc : Pc} (p : List Nat)
    (hb : s.threads[b]? = some pc) (hpc : pc.dealing = true)
    (hv : (run s p).threads[b]? = some (.dealDone v)) : s.deal < v := by
  induction p generalizing s pc with
  | nil => rw [run_nil, hb] at hv; cases hv; simp [Pc.dealing] at hpc
  | cons i p ih =>
    rw [run_cons] at hv
    by_cases hi : i = b
    · subst hi
      have h1 := step_threads_self hb
      rcases stepPc_dealing (W := s.window) (c := s.committed) (d := s.deal) hpc with h2 | h2 | ⟨a, b, h2⟩
      · rw [h2] at h1
        have h3 := done_stable h1 rfl p
        rw [h3] at hv
        cases hv
        exact Nat.lt_succ_self _
      · exact Nat.lt_of_le_of_lt (step_deal_mono s i) (ih h1 h2 hv)
      · rw [h2] at h1
        have h3 := done_stable h1 rfl p
        rw [h3] at hv
        cases hv
    · have h1 : (step s i).threads[b]? = some pc := by
        rw [step_threads_ne s (Ne.symm hi)]; exact hb
      exact Nat.lt_of_le_of_lt (step_deal_mono s i) (ih h1 hpc hv)

/-- A GetRevision that has not executed its load yet returns at least the current committed revision. -/
theorem get_result_above {s : State} {g v : Nat} (p : List Nat) (hn : NoPlainStore s)
    (hg : s.threads[g]? = some .getLoad) (hv : (run s p).threads[g]? = some (.getDone v)) : s.committed ≤ v := by
  induction p generalizing s with
  | nil => rw [run_nil, hg] at hv; cases hv
  | cons i p ih =>
    rw [run_cons] at hv
    by_cases hi : i = g
    · subst hi
      have h1 : (step s i).threads[i]? = some (.getDone s.committed) := by
        rw [step_threads_self hg]; rfl
      have h2 := done_stable h1 rfl p
      rw [h2] at hv
      cases hv
      exact Nat.le_refl _
    · have h1 : (step s i).threads[g]? = some .getLoad := by
        rw [step_threads_ne s (Ne.symm hi)]; exact hg
      exact Nat.le_trans (step_committed_mono hn i) (ih (noPlainStore_step hn i) h1 hv)

/-! ## a Commit scheduled alone -/

/-- `n` consecutive instructions of one thread, seen from that thread. -/
def solo (W : Nat) : Nat → Nat × Nat × Pc → Nat × Nat × Pc
  | 0, x => x
  | n + 1, x => solo W n (stepPc W x.1 x.2.1 x.2.2)

theorem run_solo {s : State} {t : Nat} {pc : Pc} (n : Nat) (h : s.threads[t]? = some pc) :
    (run s (List.replicate n t)).committed = (solo s.window n (s.committed, s.deal, pc)).1 ∧
    (run s (List.replicate n t)).deal = (solo s.window n (s.committed, s.deal, pc)).2.1 ∧
    (run s (List.replicate n t)).threads[t]? = some (solo s.window n (s.committed, s.deal, pc)).2.2 := by
  induction n generalizing s pc with
  | zero => exact ⟨rfl, rfl, h⟩
  | succ n ih =>
    rw [List.replicate_succ, run_cons]
    have h' := step_threads_self h
    have := ih h'
    have hc : (step s t).committed = (stepPc s.window s.committed s.deal pc).1 := by rw [step_some h]
    have hd : (step s t).deal = (stepPc s.window s.committed s.deal pc).2.1 := by rw [step_some h]
    rw [hc, hd, step_window] at this
    exact this

theorem solo_done (W n : Nat) {pc : Pc} (h : pc.done = true) (c d : Nat) : solo W n (c, d, pc) = (c, d, pc) := by
  induction n with
  | zero => rfl
  | succ n ih => simp only [solo]; rw [stepPc_done h]; exact ih

theorem solo_loadD (W n c d r : Nat) : (solo W (n + 2) (c, d, .loadD r)).2.2 = .commitDone r := by
  show (solo W n (stepPc W c d (.casD r d))).2.2 = _
  by_cases h : r ≤ d
  · simp only [stepPc, if_pos h]; rw [solo_done W n rfl]
  · simp only [stepPc, if_neg h, if_true]; rw [solo_done W n rfl]

theorem solo_casD (W n c d r cur : Nat) : (solo W (n + 3) (c, d, .casD r cur)).2.2 = .commitDone r := by
  show (solo W (n + 2) (stepPc W c d (.casD r cur))).2.2 = _
  by_cases h1 : r ≤ cur
  · simp only [stepPc, if_pos h1]; rw [solo_done W (n + 2) rfl]
  · by_cases h2 : d = cur
    · simp only [stepPc, if_neg h1, if_pos h2]; rw [solo_done W (n + 2) rfl]
    · simp only [stepPc, if_neg h1, if_neg h2]; exact solo_loadD W n c d r

theorem solo_casC_ok (W n c d r cur : Nat) (h : r ≤ cur ∨ c = cur) :
    (solo W (n + 3) (c, d, .casC r cur)).2.2 = .commitDone r := by
  show (solo W (n + 2) (stepPc W c d (.casC r cur))).2.2 = _
  by_cases h1 : r ≤ cur
  · simp only [stepPc, if_pos h1]; exact solo_loadD W n c d r
  · have h2 : c = cur := h.resolve_left h1
    simp only [stepPc, if_neg h1, if_pos h2]; exact solo_loadD W n r d r

theorem solo_loadC (W n c d r : Nat) : (solo W (n + 4) (c, d, .loadC r)).2.2 = .commitDone r := by
  show (solo W (n + 3) (c, d, .casC r c)).2.2 = _
  exact solo_casC_ok W n c d r c (Or.inr rfl)

theorem solo_casC (W n c d r cur : Nat) : (solo W (n + 5) (c, d, .casC r cur)).2.2 = .commitDone r := by
  by_cases h : r ≤ cur ∨ c = cur
  · exact solo_casC_ok W (n + 2) c d r cur h
  · show (solo W (n + 4) (stepPc W c d (.casC r cur))).2.2 = _
    have h1 : ¬ r ≤ cur := fun x => h (Or.inl x)
    have h2 : ¬ c = cur := fun x => h (Or.inr x)
    simp only [stepPc, if_neg h1, if_neg h2]; exact solo_loadC W n c d r

/-- From ANY point inside a current `Commit r`, five instructions of the thread alone finish the call. -/
theorem solo_commit_five {W c d r : Nat} {pc : Pc} (h : pc.inCommit r = true) :
    (solo W 5 (c, d, pc)).2.2 = .commitDone r := by
  cases pc <;> simp [Pc.inCommit] at h <;> subst h
  · exact solo_loadC W 1 c d _
  · exact solo_casC W 0 c d _ _
  · exact solo_loadD W 3 c d _
  · exact solo_casD W 2 c d _ _

theorem solo_commit_four (W c d r : Nat) : (solo W 4 (c, d, .loadC r)).2.2 = .commitDone r :=
  solo_loadC W 0 c d r

/-! ## failed compare-and-swaps are paid for by other threads' writes -/

/-- Thread `t` is at the compare-and-swap of `Commit r`'s first loop and that compare-and-swap is going to
FAIL: the value it loaded is below `r` and is no longer the register's value. -/
def pendingFailC (s : State) (t r : Nat) : Bool :=
  match s.threads[t]? with
  | some (.casC r' cur) => r' == r && decide (cur < r) && decide (s.committed ≠ cur)
  | _ => false

def pendingFailD (s : State) (t r : Nat) : Bool :=
  match s.threads[t]? with
  | some (.casD r' cur) => r' == r && decide (cur < r) && decide (s.deal ≠ cur)
  | _ => false

/-- Number of failed compare-and-swaps on `committed` thread `t` executes along the schedule (as `Commit r`). -/
def failsC (t r : Nat) : State → List Nat → Nat
  | _, [] => 0
  | s, i :: p => (if i = t ∧ pendingFailC s t r = true then 1 else 0) + failsC t r (step s i) p

def failsD (t r : Nat) : State → List Nat → Nat
  | _, [] => 0
  | s, i :: p => (if i = t ∧ pendingFailD s t r = true then 1 else 0) + failsD t r (step s i) p

/-- Number of steps of OTHER threads along the schedule that change `committed` while it is below `r`
(with the current routines every such change is a successful raise: `step_committed_mono`). -/
def changesBelowC (t r : Nat) : State → List Nat → Nat
  | _, [] => 0
  | s, i :: p => (if i ≠ t ∧ s.committed < r ∧ (step s i).committed ≠ s.committed then 1 else 0) +
      changesBelowC t r (step s i) p

def changesBelowD (t r : Nat) : State → List Nat → Nat
  | _, [] => 0
  | s, i :: p => (if i ≠ t ∧ s.deal < r ∧ (step s i).deal ≠ s.deal then 1 else 0) +
      changesBelowD t r (step s i) p

theorem stepPc_casC {W c d : Nat} {pc : Pc} {r cur : Nat} (h : (stepPc W c d pc).2.2 = .casC r cur) :
    pc = .loadC r ∧ cur = c := by
  cases pc <;> simp only [stepPc] at h <;> (try split at h) <;> (try split at h) <;> simp_all

theorem stepPc_casD {W c d : Nat} {pc : Pc} {r cur : Nat} (h : (stepPc W c d pc).2.2 = .casD r cur) :
    pc = .loadD r ∧ cur = d := by
  cases pc <;> simp only [stepPc] at h <;> (try split at h) <;> (try split at h) <;> simp_all

theorem pendingFailC_iff {s : State} {t r : Nat} :
    pendingFailC s t r = true ↔ ∃ cur, s.threads[t]? = some (.casC r cur) ∧ cur < r ∧ s.committed ≠ cur := by
  unfold pendingFailC
  constructor
  · intro h
    split at h
    · rename_i r' cur heq
      simp only [Bool.and_eq_true, beq_iff_eq, decide_eq_true_eq] at h
      exact ⟨cur, by rw [heq, h.1.1], h.1.2, h.2⟩
    · cases h
  · rintro ⟨cur, h1, h2, h3⟩
    rw [h1]
    simp [h2, h3]

theorem pendingFailD_iff {s : State} {t r : Nat} :
    pendingFailD s t r = true ↔ ∃ cur, s.threads[t]? = some (.casD r cur) ∧ cur < r ∧ s.deal ≠ cur := by
  unfold pendingFailD
  constructor
  · intro h
    split at h
    · rename_i r' cur heq
      simp only [Bool.and_eq_true, beq_iff_eq, decide_eq_true_eq] at h
      exact ⟨cur, by rw [heq, h.1.1], h.1.2, h.2⟩
    · cases h
  · rintro ⟨cur, h1, h2, h3⟩
    rw [h1]
    simp [h2, h3]

/-- A pending failure executes as a failure: the thread goes back to its load, nothing is written. -/
theorem pendingFailC_step {s : State} {t r : Nat} (h : pendingFailC s t r = true) :
    (step s t).threads[t]? = some (.loadC r) ∧ (step s t).committed = s.committed ∧ (step s t).deal = s.deal := by
  rcases pendingFailC_iff.mp h with ⟨cur, h1, h2, h3⟩
  have hn : ¬ r ≤ cur := by omega
  refine ⟨?_, ?_, ?_⟩
  · rw [step_threads_self h1]; simp [stepPc, hn, h3]
  · rw [step_some h1]; simp [stepPc, hn, h3]
  · rw [step_some h1]; simp [stepPc, hn, h3]

theorem pendingFailD_step {s : State} {t r : Nat} (h : pendingFailD s t r = true) :
    (step s t).threads[t]? = some (.loadD r) ∧ (step s t).committed = s.committed ∧ (step s t).deal = s.deal := by
  rcases pendingFailD_iff.mp h with ⟨cur, h1, h2, h3⟩
  have hn : ¬ r ≤ cur := by omega
  refine ⟨?_, ?_, ?_⟩
  · rw [step_threads_self h1]; simp [stepPc, hn, h3]
  · rw [step_some h1]; simp [stepPc, hn, h3]
  · rw [step_some h1]; simp [stepPc, hn, h3]

/-- The potential argument, one step: a failure consumes a pending failure, and a pending failure only
comes into being when ANOTHER thread changes the register while it is below `r`. -/
theorem credit_step_C (s : State) (i t r : Nat) :
    (if i = t ∧ pendingFailC s t r = true then 1 else 0) + (if pendingFailC (step s i) t r = true then 1 else 0) ≤
    (if i ≠ t ∧ s.committed < r ∧ (step s i).committed ≠ s.committed then 1 else 0) +
      (if pendingFailC s t r = true then 1 else 0) := by
  by_cases hi : i = t
  · subst hi
    by_cases hp : pendingFailC s i r = true
    · have h1 : ¬ (pendingFailC (step s i) i r = true) := by
        intro h
        rcases pendingFailC_iff.mp h with ⟨cur, h1, _, _⟩
        rw [(pendingFailC_step hp).1] at h1
        cases h1
      simp [hp, h1]
    · have h1 : ¬ (pendingFailC (step s i) i r = true) := by
        intro h
        rcases pendingFailC_iff.mp h with ⟨cur, h1, h2, h3⟩
        cases hs : s.threads[i]? with
        | none => rw [step_none hs] at h; exact hp h
        | some pc =>
          rw [step_threads_self hs] at h1
          rcases stepPc_casC (Option.some.inj h1) with ⟨hpc, hcur⟩
          subst hpc
          rw [step_some hs] at h3
          simp [stepPc] at h3
          exact h3 hcur.symm
      simp [hp, h1]
  · by_cases hp' : pendingFailC (step s i) t r = true
    · by_cases hp : pendingFailC s t r = true
      · simp [hi, hp, hp']
      · rcases pendingFailC_iff.mp hp' with ⟨cur, h1, h2, h3⟩
        rw [step_threads_ne s (Ne.symm hi)] at h1
        have hc : s.committed = cur := by
          apply Classical.byContradiction
          intro hne
          exact hp (pendingFailC_iff.mpr ⟨cur, h1, h2, hne⟩)
        have hg : s.committed < r ∧ (step s i).committed ≠ s.committed := by
          rw [hc]; exact ⟨h2, h3⟩
        simp [hi, hp, hp', hg]
    · simp [hi, hp']

theorem credit_step_D (s : State) (i t r : Nat) :
    (if i = t ∧ pendingFailD s t r = true then 1 else 0) + (if pendingFailD (step s i) t r = true then 1 else 0) ≤
    (if i ≠ t ∧ s.deal < r ∧ (step s i).deal ≠ s.deal then 1 else 0) +
      (if pendingFailD s t r = true then 1 else 0) := by
  by_cases hi : i = t
  · subst hi
    by_cases hp : pendingFailD s i r = true
    · have h1 : ¬ (pendingFailD (step s i) i r = true) := by
        intro h
        rcases pendingFailD_iff.mp h with ⟨cur, h1, _, _⟩
        rw [(pendingFailD_step hp).1] at h1
        cases h1
      simp [hp, h1]
    · have h1 : ¬ (pendingFailD (step s i) i r = true) := by
        intro h
        rcases pendingFailD_iff.mp h with ⟨cur, h1, h2, h3⟩
        cases hs : s.threads[i]? with
        | none => rw [step_none hs] at h; exact hp h
        | some pc =>
          rw [step_threads_self hs] at h1
          rcases stepPc_casD (Option.some.inj h1) with ⟨hpc, hcur⟩
          subst hpc
          rw [step_some hs] at h3
          simp [stepPc] at h3
          exact h3 hcur.symm
      simp [hp, h1]
  · by_cases hp' : pendingFailD (step s i) t r = true
    · by_cases hp : pendingFailD s t r = true
      · simp [hi, hp, hp']
      · rcases pendingFailD_iff.mp hp' with ⟨cur, h1, h2, h3⟩
        rw [step_threads_ne s (Ne.symm hi)] at h1
        have hc : s.deal = cur := by
          apply Classical.byContradiction
          intro hne
          exact hp (pendingFailD_iff.mpr ⟨cur, h1, h2, hne⟩)
        have hg : s.deal < r ∧ (step s i).deal ≠ s.deal := by
          rw [hc]; exact ⟨h2, h3⟩
        simp [hi, hp, hp', hg]
    · simp [hi, hp']

theorem failsC_le (t r : Nat) (s : State) (p : List Nat) :
    failsC t r s p ≤ changesBelowC t r s p + (if pendingFailC s t r = true then 1 else 0) := by
  induction p generalizing s with
  | nil => simp [failsC, changesBelowC]
  | cons i p ih =>
    have h1 := ih (step s i)
    have h2 := credit_step_C s i t r
    simp only [failsC, changesBelowC]
    omega

theorem failsD_le (t r : Nat) (s : State) (p : List Nat) :
    failsD t r s p ≤ changesBelowD t r s p + (if pendingFailD s t r = true then 1 else 0) := by
  induction p generalizing s with
  | nil => simp [failsD, changesBelowD]
  | cons i p ih =>
    have h1 := ih (step s i)
    have h2 := credit_step_D s i t r
    simp only [failsD, changesBelowD]
    omega

/-! ## the same for Deal's compare-and-swap (the value it compares with was loaded TWO instructions earlier) -/

/-- Thread `t` is at Deal's compare-and-swap, the window check passes and the compare-and-swap is going to FAIL. -/
def pendingFailDeal (s : State) (t : Nat) : Bool :=
  match s.threads[t]? with
  | some (.dealCas dealt c0) => !(decide (c0 ≤ dealt ∧ s.window ≤ dealt + 1 - c0)) && decide (s.deal ≠ dealt)
  | _ => false

/-- Thread `t` is inside a Deal holding a value of `deal` that is no longer the register's value. -/
def staleDeal (s : State) (t : Nat) : Bool :=
  match s.threads[t]? with
  | some (.dealLoadC dealt) => decide (s.deal ≠ dealt)
  | some (.dealCas dealt _) => decide (s.deal ≠ dealt)
  | _ => false

/-- Number of failed compare-and-swaps thread `t` executes along the schedule inside Deal calls. -/
def failsDeal (t : Nat) : State → List Nat → Nat
  | _, [] => 0
  | s, i :: p => (if i = t ∧ pendingFailDeal s t = true then 1 else 0) + failsDeal t (step s i) p

/-- Number of steps of OTHER threads along the schedule that change `deal` (each of them raises it: a successful
compare-and-swap of another Deal, or of a Commit). -/
def changesD (t : Nat) : State → List Nat → Nat
  | _, [] => 0
  | s, i :: p => (if i ≠ t ∧ (step s i).deal ≠ s.deal then 1 else 0) + changesD t (step s i) p

theorem pendingFailDeal_iff {s : State} {t : Nat} :
    pendingFailDeal s t = true ↔ ∃ dealt c0, s.threads[t]? = some (.dealCas dealt c0) ∧
      ¬ (c0 ≤ dealt ∧ s.window ≤ dealt + 1 - c0) ∧ s.deal ≠ dealt := by
  unfold pendingFailDeal
  constructor
  · intro h
    split at h
    · rename_i dealt c0 heq
      simp only [Bool.and_eq_true, Bool.not_eq_true', decide_eq_false_iff_not, decide_eq_true_eq] at h
      exact ⟨dealt, c0, heq, h.1, h.2⟩
    · cases h
  · rintro ⟨dealt, c0, h1, h2, h3⟩
    rw [h1]
    simp only [Bool.and_eq_true, Bool.not_eq_true', decide_eq_false_iff_not, decide_eq_true_eq]
    exact ⟨h2, h3⟩

theorem pendingFailDeal_stale {s : State} {t : Nat} (h : pendingFailDeal s t = true) : staleDeal s t = true := by
  rcases pendingFailDeal_iff.mp h with ⟨dealt, c0, h1, _, h3⟩
  simp [staleDeal, h1, h3]

theorem pendingFailDeal_step {s : State} {t : Nat} (h : pendingFailDeal s t = true) :
    (step s t).threads[t]? = some .dealLoadD ∧ (step s t).committed = s.committed ∧ (step s t).deal = s.deal := by
  rcases pendingFailDeal_iff.mp h with ⟨dealt, c0, h1, h2, h3⟩
  refine ⟨?_, ?_, ?_⟩
  · rw [step_threads_self h1]; simp [stepPc, h2, h3]
  · rw [step_some h1]; simp [stepPc, h2, h3]
  · rw [step_some h1]; simp [stepPc, h2, h3]

theorem stepPc_dealLoadC {W c d : Nat} {pc : Pc} {x : Nat} (h : (stepPc W c d pc).2.2 = .dealLoadC x) :
    pc = .dealLoadD ∧ x = d ∧ (stepPc W c d pc).2.1 = d := by
  cases pc <;> simp only [stepPc] at h <;> (try split at h) <;> (try split at h) <;> simp_all [stepPc]

theorem stepPc_dealCas {W c d : Nat} {pc : Pc} {x y : Nat} (h : (stepPc W c d pc).2.2 = .dealCas x y) :
    pc = .dealLoadC x ∧ (stepPc W c d pc).2.1 = d := by
  cases pc <;> simp only [stepPc] at h <;> (try split at h) <;> (try split at h) <;> simp_all [stepPc]

/-- The thread's own step never makes its loaded value stale unless it already was (and a failure clears it). -/
theorem staleDeal_own_step {s : State} {t : Nat} (hs : staleDeal s t = false) :
    staleDeal (step s t) t = false := by
  cases hth : s.threads[t]? with
  | none => rw [step_none hth]; exact hs
  | some pc =>
    have h1 := step_threads_self hth
    have hd : (step s t).deal = (stepPc s.window s.committed s.deal pc).2.1 := by rw [step_some hth]
    cases hpc' : (stepPc s.window s.committed s.deal pc).2.2 with
    | dealLoadC x =>
      rcases stepPc_dealLoadC hpc' with ⟨_, hx, hdd⟩
      rw [hpc'] at h1
      simp [staleDeal, h1, hd, hdd, hx]
    | dealCas x y =>
      rcases stepPc_dealCas hpc' with ⟨hpc, hdd⟩
      rw [hpc'] at h1
      subst hpc
      have : s.deal = x := by
        simp [staleDeal, hth] at hs; exact hs
      rw [hdd] at hd
      simp [staleDeal, h1, hd, this]
    | _ => rw [hpc'] at h1; simp [staleDeal, h1]

theorem credit_step_Deal (s : State) (i t : Nat) :
    (if i = t ∧ pendingFailDeal s t = true then 1 else 0) + (if staleDeal (step s i) t = true then 1 else 0) ≤
    (if i ≠ t ∧ (step s i).deal ≠ s.deal then 1 else 0) + (if staleDeal s t = true then 1 else 0) := by
  by_cases hi : i = t
  · subst hi
    by_cases hp : pendingFailDeal s i = true
    · have h0 := pendingFailDeal_stale hp
      have h1 : staleDeal (step s i) i = false := by
        simp [staleDeal, (pendingFailDeal_step hp).1]
      simp [hp, h0, h1]
    · have hp' : pendingFailDeal s i = false := by simpa using hp
      by_cases hs : staleDeal s i = true
      · by_cases hs' : staleDeal (step s i) i = true <;> simp [hp', hs, hs']
      · have hs0 : staleDeal s i = false := by simpa using hs
        have h1 := staleDeal_own_step hs0
        simp [hp', hs0, h1]
  · by_cases hs' : staleDeal (step s i) t = true
    · by_cases hs : staleDeal s t = true
      · simp [hi, hs, hs']
      · have hth : (step s i).threads[t]? = s.threads[t]? := step_threads_ne s (Ne.symm hi)
        have hg : (step s i).deal ≠ s.deal := by
          intro heq
          apply hs
          unfold staleDeal at hs' ⊢
          rw [hth, heq] at hs'
          exact hs'
        simp [hi, hs, hs', hg]
    · simp [hi, hs']

theorem failsDeal_le (t : Nat) (s : State) (p : List Nat) :
    failsDeal t s p ≤ changesD t s p + (if staleDeal s t = true then 1 else 0) := by
  induction p generalizing s with
  | nil => simp [failsDeal, changesD]
  | cons i p ih =>
    have h1 := ih (step s i)
    have h2 := credit_step_Deal s i t
    simp only [failsDeal, changesD]
    omega

/-! ## a Deal scheduled alone -/

/-- The two ways a Deal call ends. -/
def Pc.dealOutcome (pc : Pc) : Prop := (∃ v, pc = .dealDone v) ∨ (∃ a b, pc = .dealRefused a b)

theorem solo_dealCas_ok (W n c d dealt c0 : Nat) (h : (c0 ≤ dealt ∧ W ≤ dealt + 1 - c0) ∨ d = dealt) :
    (solo W (n + 1) (c, d, .dealCas dealt c0)).2.2.dealOutcome := by
  show (solo W n (stepPc W c d (.dealCas dealt c0))).2.2.dealOutcome
  by_cases h1 : c0 ≤ dealt ∧ W ≤ dealt + 1 - c0
  · simp only [stepPc, if_pos h1]; rw [solo_done W n rfl]; exact Or.inr ⟨_, _, rfl⟩
  · have h2 : d = dealt := h.resolve_left h1
    simp only [stepPc, if_neg h1, if_pos h2]; rw [solo_done W n rfl]; exact Or.inl ⟨_, rfl⟩

theorem solo_dealLoadD (W n c d : Nat) : (solo W (n + 3) (c, d, .dealLoadD)).2.2.dealOutcome :=
  solo_dealCas_ok W n c d d c (Or.inr rfl)

theorem solo_dealCas (W n c d dealt c0 : Nat) : (solo W (n + 4) (c, d, .dealCas dealt c0)).2.2.dealOutcome := by
  by_cases h : (c0 ≤ dealt ∧ W ≤ dealt + 1 - c0) ∨ d = dealt
  · exact solo_dealCas_ok W (n + 3) c d dealt c0 h
  · have h1 : ¬ (c0 ≤ dealt ∧ W ≤ dealt + 1 - c0) := fun x => h (Or.inl x)
    have h2 : ¬ d = dealt := fun x => h (Or.inr x)
    show (solo W (n + 3) (stepPc W c d (.dealCas dealt c0))).2.2.dealOutcome
    simp only [stepPc, if_neg h1, if_neg h2]
    exact solo_dealLoadD W n c d

theorem solo_dealLoadC (W n c d dealt : Nat) : (solo W (n + 5) (c, d, .dealLoadC dealt)).2.2.dealOutcome :=
  solo_dealCas W n c d dealt c

/-- Thread is inside a CURRENT Deal call. -/
def Pc.inDeal : Pc → Bool
  | .dealLoadD | .dealLoadC _ | .dealCas _ _ => true
  | _ => false

theorem solo_deal_five {W c d : Nat} {pc : Pc} (h : pc.inDeal = true) : (solo W 5 (c, d, pc)).2.2.dealOutcome := by
  cases pc <;> simp [Pc.inDeal] at h
  · exact solo_dealLoadD W 2 c d
  · exact solo_dealLoadC W 0 c d _
  · exact solo_dealCas W 1 c d _ _

end KB.TsoCas
