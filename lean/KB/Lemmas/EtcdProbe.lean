/- Lemmas for the compaction-probe recogniser of C16 (`KB.Etcd.isCompact`, /repo 2870609): what it accepts is
exactly kube-apiserver's probe (`CompactProbe`), a transaction guarded by VERSION compares is the probe or
unsupported, and no other shape is ever answered with the canned probe answer. -/
import KB.Lemmas.Etcd
namespace KB.Etcd
open KB

/-- `Version(k) == n` on the single key `k` (any `n`) -/
def VerCmp (c : Compare) (k : Bytes) : Prop :=
  c.target = .version ∧ c.result = .equal ∧ c.key = k ∧ c.rangeEnd = []

/-- kube-apiserver's compaction probe (k8s.io/apiserver/pkg/storage/etcd3/compact.go):
`If(Version(compact_rev_key) = n).Then(Put compact_rev_key v).Else(Get compact_rev_key)` — the compare, the put
and the read on THAT key, no `range_end` on the compare, a put without flags, a plain Get. (The compared
version, the put's value and lease, limit / sort order / `serializable` of the point Get are free.) -/
inductive CompactProbe : TxnReq → Prop where
  | mk (c : Compare) (p : PutReq) (g : RangeReq) : VerCmp c compactRevKey → p.key = compactRevKey →
      p.prevKv = false → p.ignoreValue = false → p.ignoreLease = false → PlainGet g compactRevKey →
      CompactProbe { compare := [c], success := [.put p], failure := [.range g] }

theorem CompactProbe.inv {t : TxnReq} (h : CompactProbe t) :
    ∃ c p g, t = { compare := [c], success := [.put p], failure := [.range g] } ∧ VerCmp c compactRevKey ∧
      p.key = compactRevKey ∧ p.prevKv = false ∧ p.ignoreValue = false ∧ p.ignoreLease = false ∧
      PlainGet g compactRevKey := by
  obtain ⟨c, p, g, hc, hp, f1, f2, f3, hg⟩ := h
  exact ⟨c, p, g, rfl, hc, hp, f1, f2, f3, hg⟩

theorem isCompact_iff {t : TxnReq} : isCompact t = true ↔ CompactProbe t := by
  constructor
  · intro h
    unfold isCompact at h
    split at h
    · rename_i _ _ _ c g p h1 h2 h3
      simp only [Bool.and_eq_true, beq_iff_eq, List.isEmpty_iff, Bool.not_eq_true'] at h
      obtain ⟨⟨⟨⟨⟨⟨⟨⟨ht, hr⟩, he⟩, hk⟩, hpk⟩, f1⟩, f2⟩, f3⟩, hg⟩ := h
      rw [hk] at hpk hg
      have : t = { compare := [c], success := [.put p], failure := [.range g] } := by cases t; simp_all
      rw [this]
      exact .mk c p g ⟨ht, hr, hk, he⟩ hpk f1 f2 f3 (isPlainGet_iff.mp hg)
    · cases h
  · rintro ⟨c, p, g, ⟨ht, hr, hk, he⟩, hpk, f1, f2, f3, hg⟩
    have hgg := isPlainGet_iff.mpr hg
    simp [isCompact, ht, hr, hk, he, hpk, f1, f2, f3, hgg]

/-- a VERSION compare is no `ModRevision` compare -/
theorem isModOn_of_version {c : Compare} (h : c.target = .version) (k : Bytes) : c.isModOn k = false := by
  simp [Compare.isModOn, h]

theorem isCreate_of_version {t : TxnReq} (hver : ∀ cm ∈ t.compare, cm.target = .version) : isCreate t = none := by
  unfold isCreate
  split
  · rename_i _ _ _ c p h1 h2 h3
    have hv := hver c (by rw [h1]; simp)
    simp [isModOn_of_version hv]
  · rfl

theorem isUpdate_of_version {t : TxnReq} (hver : ∀ cm ∈ t.compare, cm.target = .version) : isUpdate t = none := by
  unfold isUpdate
  split
  · rename_i _ _ _ c g p h1 h2 h3
    have hv := hver c (by rw [h1]; simp)
    simp [isModOn_of_version hv]
  · rfl

theorem isDelete_of_version {t : TxnReq} (hver : ∀ cm ∈ t.compare, cm.target = .version) (hne : t.compare ≠ []) :
    isDelete t = none := by
  unfold isDelete
  split
  · rename_i _ _ _ g d h1 h2 h3
    exact absurd h1 hne
  · rename_i _ _ _ c g d h1 h2 h3
    have hv := hver c (by rw [h1]; simp)
    simp [isModOn_of_version hv]
  · rfl

/-- a transaction guarded by VERSION compares (at least one) is the compaction probe or unsupported -/
theorem classify_of_version {t : TxnReq} (hver : ∀ cm ∈ t.compare, cm.target = .version) (hne : t.compare ≠ []) :
    classify t = if isCompact t then .compact else .unsupported :=
  classify_none (isCreate_of_version hver) (isDelete_of_version hver hne) (isUpdate_of_version hver)

/-- THE PROBE RECOGNISER IS EXACT: a transaction takes the compactor's branch of `RPCServer.Txn` iff it is
kube-apiserver's probe. -/
theorem classify_compact_iff {t : TxnReq} : classify t = .compact ↔ CompactProbe t := by
  constructor
  · intro h
    unfold classify at h
    split at h
    · cases h
    · split at h
      · cases h
      · split at h
        · cases h
        · split at h
          · rename_i hc
            exact isCompact_iff.mp hc
          · cases h
  · intro h
    have hc := isCompact_iff.mpr h
    obtain ⟨c, p, g, hv, _, _, _, _, _⟩ := h
    have hver : ∀ cm ∈ ({ compare := [c], success := [.put p], failure := [.range g] } : TxnReq).compare,
        cm.target = .version := by
      intro cm hm
      simp at hm
      rw [hm]
      exact hv.1
    rw [classify_of_version hver (by simp), hc]
    rfl

/-- ... and a transaction guarded by VERSION compares that is not the probe is unsupported -/
theorem classify_version_not_probe {t : TxnReq} (hver : ∀ cm ∈ t.compare, cm.target = .version) (hne : t.compare ≠ [])
    (hnp : ¬ CompactProbe t) : classify t = .unsupported := by
  rw [classify_of_version hver hne]
  cases hc : isCompact t with
  | true => exact absurd (isCompact_iff.mp hc) hnp
  | false => rfl

/-- the canned probe answer (`Succeeded = false`, one range response with an invented key-value and Count 1) is
built for the compactor's shape only: no answer of the backend is ever shaped into it -/
theorem shapeTxn_eq_compactResp {sh : Shape} {a : BAns} (h : shapeTxn sh a = .ok compactResp) : sh = .compact := by
  cases sh with
  | create p =>
    simp only [shapeTxn] at h
    split at h
    · cases h
    · cases a <;> simp [shapeCreate, compactResp] at h
  | delete rev key g =>
    cases g with
    | true => cases a <;> simp [shapeTxn, shapeDelete, compactResp] at h
    | false =>
      cases a with
      | error e => simp [shapeTxn, shapeDelete] at h
      | resp ok hdr kv => cases ok <;> cases kv <;> simp [shapeTxn, shapeDelete, unguardedFlag, compactResp] at h
  | update rev key val l =>
    cases a with
    | error e => simp [shapeTxn, shapeUpdate] at h
    | resp ok hdr kv => cases ok <;> simp [shapeTxn, shapeUpdate, compactResp] at h
  | compact => rfl
  | unsupported => simp [shapeTxn] at h

/-- whatever `RPCServer.Txn` answers is the shaping of SOME backend answer for the shape of the transaction -/
theorem shimTxn_fst_shape (c : Cfg) (s : BState) (t : TxnReq) : ∃ a, (shimTxn c s t).1 = shapeTxn (classify t) a := by
  unfold shimTxn
  cases backendCall (classify t) with
  | none => exact ⟨_, rfl⟩
  | some call => exact ⟨(runCall c s call).1, rfl⟩

end KB.Etcd
