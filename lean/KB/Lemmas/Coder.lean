/-
  Helper lemmas for C10 (encoding reversible and order-preserving).
-/
import KB.Coder
namespace KB
open Generated

/-- A key is over the documented alphabet iff every byte is greater than the split byte. -/
def Alphabet (k : Bytes) : Prop := ∀ b ∈ k, splitByte < b

instance (k : Bytes) : Decidable (Alphabet k) := by unfold Alphabet; infer_instance

/-- The heart of order preservation: two keys over the alphabet, each followed by the split
byte and arbitrary tails, compare like the keys, and like the tails when the keys are equal. -/
theorem cmp_split (s : Nat) (k1 k2 t1 t2 : Bytes)
    (h1 : ∀ b ∈ k1, s < b) (h2 : ∀ b ∈ k2, s < b) :
    cmp (k1 ++ s :: t1) (k2 ++ s :: t2) = if k1 = k2 then cmp t1 t2 else cmp k1 k2 := by
  induction k1 generalizing k2 with
  | nil =>
    cases k2 with
    | nil => simp [cmp_cons_cons]
    | cons y ys =>
      have : s < y := h2 y (by simp)
      simp [cmp_cons_cons, this]
  | cons x xs ih =>
    cases k2 with
    | nil =>
      have : s < x := h1 x (by simp)
      have h' : ¬ x < s := by omega
      simp [cmp_cons_cons, this, h']
    | cons y ys =>
      simp only [List.cons_append, cmp_cons_cons, List.cons.injEq]
      by_cases hxy : x < y
      · have : x ≠ y := by omega
        simp [hxy, this]
      · by_cases hyx : y < x
        · have : x ≠ y := by omega
          simp [hxy, hyx, this]
        · have : x = y := by omega
          subst this
          simp only [hxy, if_false, true_and]
          exact ih ys (fun b hb => h1 b (by simp [hb])) (fun b hb => h2 b (by simp [hb]))

theorem encode_cmp {k1 k2 : Bytes} {r1 r2 : Nat} (h1 : Alphabet k1) (h2 : Alphabet k2)
    (hr1 : r1 < 2 ^ 64) (hr2 : r2 < 2 ^ 64) :
    cmp (encode k1 r1) (encode k2 r2) = if k1 = k2 then compare r1 r2 else cmp k1 k2 := by
  unfold encode
  rw [cmp_append_left, cmp_split splitByte k1 k2 _ _ h1 h2, cmp_be64 hr1 hr2]

theorem encode_length (k : Bytes) (r : Nat) : (encode k r).length = magic.length + k.length + 9 := by
  simp [encode, be64]; omega

theorem magic_length : magic.length = 4 := by decide

theorem decode_encode (k : Bytes) (r : Nat) (hr : r < 2 ^ 64) : decode (encode k r) = .ok k r := by
  have hlen := encode_length k r
  have hm := magic_length
  unfold decode
  have h1 : ¬ (encode k r).length < magic.length := by omega
  have h2 : (encode k r).take magic.length = magic := by simp [encode]
  have h3 : ¬ (encode k r).length < 9 := by omega
  have h4 : (encode k r).getD ((encode k r).length - 9) 0 = splitByte := by
    have : (encode k r).length - 9 = magic.length + k.length := by omega
    rw [this]
    simp [encode, List.getD_eq_getElem?_getD, List.getElem?_append_right]
  have h5 : ¬ (encode k r).length - 9 < magic.length := by omega
  have h6 : ((encode k r).drop magic.length).take ((encode k r).length - 9 - magic.length) = k := by
    have : (encode k r).length - 9 - magic.length = k.length := by omega
    rw [this]; simp [encode]
  have h7 : (encode k r).drop ((encode k r).length - 8) = be64 r := by
    have : (encode k r).length - 8 = magic.length + (k.length + 1) := by omega
    rw [this]
    simp only [encode]
    rw [List.drop_append]
    have e : (k ++ splitByte :: be64 r) = (k ++ [splitByte]) ++ be64 r := by simp
    rw [e, List.drop_append]
    simp
  rw [List.getD_eq_getElem?_getD] at h4
  simp [h1, h2, h3, h4, h5, h6, h7, fromBE_be64 hr]

theorem encode_inj {k1 k2 : Bytes} {r1 r2 : Nat} (hr1 : r1 < 2 ^ 64) (hr2 : r2 < 2 ^ 64)
    (h : encode k1 r1 = encode k2 r2) : k1 = k2 ∧ r1 = r2 := by
  have e1 := decode_encode k1 r1 hr1
  have e2 := decode_encode k2 r2 hr2
  rw [h, e2] at e1
  injection e1 with a b
  exact ⟨a.symm, b.symm⟩

/-! ### prefixEnd -/

theorem ble_all255 {bs k : Bytes} (hb : ∀ b ∈ bs, b = 255) (hk : ∀ b ∈ k, b < 256) :
    ble bs k = true ↔ hasPrefix k bs = true := by
  induction bs generalizing k with
  | nil => cases k <;> simp [ble, hasPrefix]
  | cons x xs ih =>
    have hx : x = 255 := hb x (by simp)
    subst hx
    cases k with
    | nil => simp [ble, hasPrefix]
    | cons y ys =>
      have hy : y < 256 := hk y (by simp)
      have ih' := ih (k := ys) (fun b h => hb b (by simp [h])) (fun b h => hk b (by simp [h]))
      simp only [ble, cmp_cons_cons, hasPrefix] at *
      by_cases h : y = 255
      · subst h; simpa using ih'
      · have h1 : ¬ 255 < y := by omega
        have h2 : y < 255 := by omega
        simp [h1, h2, h]

theorem prefixEndAux_none {p : Bytes} (hp : ∀ b ∈ p, b < 256) (h : prefixEndAux p = none) :
    ∀ b ∈ p, b = 255 := by
  induction p with
  | nil => simp
  | cons x xs ih =>
    simp only [prefixEndAux] at h
    split at h
    · simp at h
    · rename_i hn
      split at h
      · simp at h
      · intro b hb
        simp only [List.mem_cons] at hb
        rcases hb with rfl | hb
        · have := hp b (by simp); omega
        · exact ih (fun b h => hp b (by simp [h])) hn b hb

theorem prefix_end_exact_aux {p e k : Bytes} (hp : ∀ b ∈ p, b < 256) (hk : ∀ b ∈ k, b < 256)
    (he : prefixEndAux p = some e) :
    hasPrefix k p = true ↔ (ble p k = true ∧ blt k e = true) := by
  induction p generalizing e k with
  | nil => simp [prefixEndAux] at he
  | cons x xs ih =>
    have hx : x < 256 := hp x (by simp)
    have hxs : ∀ b ∈ xs, b < 256 := fun b h => hp b (by simp [h])
    simp only [prefixEndAux] at he
    cases k with
    | nil => simp [hasPrefix, ble]
    | cons y ys =>
      have hys : ∀ b ∈ ys, b < 256 := fun b h => hk b (by simp [h])
      split at he
      · rename_i e' he'
        injection he with he; subst he
        have ih' := ih (e := e') (k := ys) hxs hys he'
        simp only [hasPrefix, ble, blt, cmp_cons_cons, Bool.and_eq_true, beq_iff_eq] at *
        by_cases h1 : x < y
        · have : ¬ y < x := by omega
          have : y ≠ x := by omega
          simp [h1, *]
        · by_cases h2 : y < x
          · have : y ≠ x := by omega
            simp [h1, h2, *]
          · have : y = x := by omega
            subst this
            simp [h1, ih']
      · rename_i hn
        split at he
        · rename_i hlt
          injection he with he; subst he
          have hall := prefixEndAux_none hxs hn
          have hb := ble_all255 (k := ys) hall hys
          simp only [hasPrefix, ble, blt, cmp_cons_cons, Bool.and_eq_true, beq_iff_eq] at *
          by_cases h1 : x < y
          · have h3 : ¬ y < x + 1 := by omega
            have h4 : y ≠ x := by omega
            by_cases h5 : x + 1 < y
            · simp [h1, h3, h4, h5]
            · have : y = x + 1 := by omega
              subst this
              cases ys <;> simp [h4]
          · by_cases h2 : y < x
            · have : y ≠ x := by omega
              simp [h1, h2, this]
            · have : y = x := by omega
              subst this
              simp [hb]
        · simp at he

theorem prefixEndAux_all255 {p : Bytes} (h : ∀ b ∈ p, b = 255) : prefixEndAux p = none := by
  induction p with
  | nil => rfl
  | cons x xs ih =>
    have hx := h x (by simp)
    simp [prefixEndAux, ih (fun b hb => h b (by simp [hb])), hx]

end KB
