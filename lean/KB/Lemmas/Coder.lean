/-
  Helper lemmas for C10 (encoding reversible and order-preserving).
-/
import KB.Coder
namespace KB
open Generated

/-- A key is over the documented alphabet iff every byte is greater than the split byte. -/
def Alphabet (k : Bytes) : Prop := ∀ b ∈ k, splitByte < b

instance (k : Bytes) : Decidable (Alphabet k) := by unfold Alphabet; infer_instance

/-- The heart of order preservation: two keys over the alphabet, each followed by the split
byte and arbitrary tails, compare like the keys, and like the tails when the keys are equal. -/
theorem cmp_split (s : Nat) (k1 k2 t1 t2 : Bytes)
    (h1 : ∀ b ∈ k1, s < b) (h2 : ∀ b ∈ k2, s < b) :
    cmp (k1 ++ s :: t1) (k2 ++ s :: t2) = if k1 = k2 then cmp t1 t2 else cmp k1 k2 := by
  induction k1 generalizing k2 with
  | nil =>
    cases k2 with
    | nil => simp [cmp_cons_cons]
    | cons y ys =>
      have : s < y := h2 y (by simp)
      simp [cmp_cons_cons, this]
  | cons x xs ih =>
    cases k2 with
    | nil =>
      have : s < x := h1 x (by simp)
      have h' : ¬ x < s := by omega
      simp [cmp_cons_cons, this, h']
    | cons y ys =>
      simp only [List.cons_append, cmp_cons_cons, List.cons.injEq]
      by_cases hxy : x < y
      · have : x ≠ y := by omega
        simp [hxy, this]
      · by_cases hyx : y < x
        · have : x ≠ y := by omega
          simp [hxy, hyx, this]
        · have : x = y := by omega
          subst this
          simp only [hxy, if_false, true_and]
          exact ih ys (fun b hb => h1 b (by simp [hb])) (fun b hb => h2 b (by simp [hb]))

theorem encode_cmp {k1 k2 : Bytes} {r1 r2 : Nat} (h1 : Alphabet k1) (h2 : Alphabet k2)
    (hr1 : r1 < 2 ^ 64) (hr2 : r2 < 2 ^ 64) :
    cmp (encode k1 r1) (encode k2 r2) = if k1 = k2 then compare r1 r2 else cmp k1 k2 := by
  unfold encode
  rw [cmp_append_left, cmp_split splitByte k1 k2 _ _ h1 h2, cmp_be64 hr1 hr2]

theorem encode_length (k : Bytes) (r : Nat) : (encode k r).length = magic.length + k.length + 9 := by
  simp [encode, be64]; omega

theorem magic_length : magic.length = 4 := by decide

theorem decode_encode (k : Bytes) (r : Nat) (hr : r < 2 ^ 64) : decode (encode k r) = .ok k r := by
  have hlen := encode_length k r
  have hm := magic_length
  unfold decode
  have h1 : ¬ (encode k r).length < magic.length := by omega
  have h2 : (encode k r).take magic.length = magic := by simp [encode]
  have h3 : ¬ (encode k r).length < 9 := by omega
  have h4 : (encode k r).getD ((encode k r).length - 9) 0 = splitByte := by
    have : (encode k r).length - 9 = magic.length + k.length := by omega
    rw [this]
    simp [encode, List.getD_eq_getElem?_getD, List.getElem?_append_right]
  have h5 : ¬ (encode k r).length - 9 < magic.length := by omega
  have h6 : ((encode k r).drop magic.length).take ((encode k r).length - 9 - magic.length) = k := by
    have : (encode k r).length - 9 - magic.length = k.length := by omega
    rw [this]; simp [encode]
  have h7 : (encode k r).drop ((encode k r).length - 8) = be64 r := by
    have : (encode k r).length - 8 = magic.length + (k.length + 1) := by omega
    rw [this]
    simp only [encode]
    rw [List.drop_append]
    have e : (k ++ splitByte :: be64 r) = (k ++ [splitByte]) ++ be64 r := by simp
    rw [e, List.drop_append]
    simp
  rw [List.getD_eq_getElem?_getD] at h4
  simp [h1, h2, h3, h4, h5, h6, h7, fromBE_be64 hr]

theorem encode_inj {k1 k2 : Bytes} {r1 r2 : Nat} (hr1 : r1 < 2 ^ 64) (hr2 : r2 < 2 ^ 64)
    (h : encode k1 r1 = encode k2 r2) : k1 = k2 ∧ r1 = r2 := by
  have e1 := decode_encode k1 r1 hr1
  have e2 := decode_encode k2 r2 hr2
  rw [h, e2] at e1
  injection e1 with a b
  exact ⟨a.symm, b.symm⟩

/-! ### prefixEnd -/

theorem ble_all255 {bs k : Bytes} (hb : ∀ b ∈ bs, b = 255) (hk : ∀ b ∈ k, b < 256) :
    ble bs k = true ↔ hasPrefix k bs = true := by
  induction bs generalizing k with
  | nil => cases k <;> simp [ble, hasPrefix]
  | cons x xs ih =>
    have hx : x = 255 := hb x (by simp)
    subst hx
    cases k with
    | nil => simp [ble, hasPrefix]
    | cons y ys =>
      have hy : y < 256 := hk y (by simp)
      have ih' := ih (k := ys) (fun b h => hb b (by simp [h])) (fun b h => hk b (by simp [h]))
      simp only [ble, cmp_cons_cons, hasPrefix] at *
      by_cases h : y = 255
      · subst h; simpa using ih'
      · have h1 : ¬ 255 < y := by omega
        have h2 : y < 255 := by omega
        simp [h1, h2, h]

theorem prefixEndAux_none {p : Bytes} (hp : ∀ b ∈ p, b < 256) (h : prefixEndAux p = none) :
    ∀ b ∈ p, b = 255 := by
  induction p with
  | nil => simp
  | cons x xs ih =>
    simp only [prefixEndAux] at h
    split at h
    · simp at h
    · rename_i hn
      split at h
      · simp at h
      · intro b hb
        simp only [List.mem_cons] at hb
        rcases hb with rfl | hb
        · have := hp b (by simp); omega
        · exact ih (fun b h => hp b (by simp [h])) hn b hb

theorem prefix_end_exact_aux {p e k : Bytes} (hp : ∀ b ∈ p, b < 256) (hk : ∀ b ∈ k, b < 256)
    (he : prefixEndAux p = some e) :
    hasPrefix k p = true ↔ (ble p k = true ∧ blt k e = true) := by
  induction p generalizing e k with
  | nil => simp [prefixEndAux] at he
  | cons x xs ih =>
    have hx : x < 256 := hp x (by simp)
    have hxs : ∀ b ∈ xs, b < 256 := fun b h => hp b (by simp [h])
    simp only [prefixEndAux] at he
    cases k with
    | nil => simp [hasPrefix, ble]
    | cons y ys =>
      have hys : ∀ b ∈ ys, b < 256 := fun b h => hk b (by simp [h])
      split at he
      · rename_i e' he'
        injection he with he; subst he
        have ih' := ih (e := e') (k := ys) hxs hys he'
        simp only [hasPrefix, ble, blt, cmp_cons_cons, Bool.and_eq_true, beq_iff_eq] at *
        by_cases h1 : x < y
        · have : ¬ y < x := by omega
          have : y ≠ x := by omega
          simp [h1, *]
        · by_cases h2 : y < x
          · have : y ≠ x := by omega
            simp [h1, h2, *]
          · have : y = x := by omega
            subst this
            simp [h1, ih']
      · rename_i hn
        split at he
        · rename_i hlt
          injection he with he; subst he
          have hall := prefixEndAux_none hxs hn
          have hb := ble_all255 (k := ys) hall hys
          simp only [hasPrefix, ble, blt, cmp_cons_cons, Bool.and_eq_true, beq_iff_eq] at *
          by_cases h1 : x < y
          · have h3 : ¬ y < x + 1 := by omega
            have h4 : y ≠ x := by omega
            by_cases h5 : x + 1 < y
            · simp [h1, h3, h4, h5]
            · have : y = x + 1 := by omega
              subst this
              cases ys <;> simp [h4]
          · by_cases h2 : y < x
            · have : y ≠ x := by omega
              simp [h1, h2, this]
            · have : y = x := by omega
              subst this
              simp [hb]
        · simp at he

theorem prefixEndAux_all255 {p : Bytes} (h : ∀ b ∈ p, b = 255) : prefixEndAux p = none := by
  induction p with
  | nil => rfl
  | cons x xs ih =>
    have hx := h x (by simp)
    simp [prefixEndAux, ih (fun b hb => h b (by simp [hb])), hx]

/-! ### range bounds (`encodeBound` = `backend.encodeRangeBound`, /repo 146f0bb) -/

/-- Byte 0 is not in the alphabet: a bound over the alphabet is encoded as before (the index key). -/
theorem encodeBound_of_alphabet {b : Bytes} (hb : Alphabet b) : encodeBound b = encode b 0 := by
  unfold encodeBound
  have : ¬ b.getLast? = some 0 := by
    intro h
    have hm : (0 : Nat) ∈ b := List.mem_of_getLast? h
    have := hb 0 hm
    omega
  simp [this]

/-- The bound "just after K". -/
theorem encodeBound_succ (K : Bytes) : encodeBound (K ++ [0]) = encode K (2 ^ 64 - 1) ++ [0] := by
  simp [encodeBound]

/-- A range bound as an etcd client sends it: a key over the alphabet, or the immediate successor
`K ++ [0]` of one (continue key of a paginated list, end of a single-key range). -/
inductive RangeBound : Bytes → Prop where
  | key {b : Bytes} : Alphabet b → RangeBound b
  | succ {K : Bytes} : Alphabet K → RangeBound (K ++ [0])

/-- `K ++ [0]` is the immediate successor of `K` in `bytes.Compare` order (all byte strings):
`k < K ++ [0]` iff `k ≤ K`. -/
theorem cmp_succ_lt_iff (k K : Bytes) : cmp k (K ++ [0]) = .lt ↔ cmp k K ≠ .gt := by
  induction K generalizing k with
  | nil =>
    cases k with
    | nil => simp
    | cons x xs =>
      by_cases hx : 0 < x
      · simp [cmp_cons_cons, hx]
      · have : x = 0 := by omega
        subst this
        cases xs <;> simp [cmp_cons_cons]
  | cons y ys ih =>
    cases k with
    | nil => simp
    | cons x xs =>
      simp only [List.cons_append, cmp_cons_cons]
      by_cases h1 : x < y
      · simp [h1]
      · by_cases h2 : y < x
        · simp [h1, h2]
        · simp only [h1, h2, if_false]
          exact ih xs

theorem blt_succ_iff (k K : Bytes) : blt k (K ++ [0]) = true ↔ ble k K = true := by
  rw [blt_iff, ble_iff, cmp_succ_lt_iff]

theorem ble_succ_iff (k K : Bytes) : ble (K ++ [0]) k = true ↔ blt K k = true := by
  rw [← not_blt_iff_ble, blt_iff, ← cmp_gt_iff]
  have := blt_succ_iff k K
  rw [blt_iff, ble_iff] at this
  cases h : blt k (K ++ [0])
  · simp only [true_iff]
    have h' : ¬ cmp k (K ++ [0]) = .lt := by simpa [blt] using h
    rw [this] at h'
    cases hc : cmp k K <;> simp_all
  · simp only [Bool.true_eq_false, false_iff]
    have h' : cmp k (K ++ [0]) = .lt := by simpa [blt] using h
    rw [this] at h'
    exact h'

/-- equal length, not greater, and a non-empty tail on the right: smaller -/
theorem cmp_append_right_lt {a b t : Bytes} (hl : a.length = b.length) (h : cmp a b ≠ .gt) (ht : t ≠ []) :
    cmp a (b ++ t) = .lt := by
  induction a generalizing b with
  | nil =>
    cases b with
    | nil => cases t with
      | nil => exact absurd rfl ht
      | cons _ _ => rfl
    | cons _ _ => simp at hl
  | cons x xs ih =>
    cases b with
    | nil => simp at hl
    | cons y ys =>
      simp only [List.cons_append, cmp_cons_cons] at h ⊢
      by_cases h1 : x < y
      · simp [h1]
      · by_cases h2 : y < x
        · simp [h1, h2] at h
        · simp only [h1, h2, if_false] at h ⊢
          exact ih (by simpa using hl) h

/-- The heart of the repaired bound: against the bound "just after K" a record of `k` compares like `k`
against `K`, a record of `K` itself (whatever its revision) sorting BEFORE the bound. -/
theorem encode_cmp_succ {k K : Bytes} {r : Nat} (hk : Alphabet k) (hK : Alphabet K) (hr : r < 2 ^ 64) :
    cmp (encode k r) (encodeBound (K ++ [0])) = if cmp k K = .gt then .gt else .lt := by
  rw [encodeBound_succ]
  have e : encode K (2 ^ 64 - 1) ++ [0] = magic ++ (K ++ splitByte :: (be64 (2 ^ 64 - 1) ++ [0])) := by
    simp [encode]
  rw [e]
  unfold encode
  rw [cmp_append_left, cmp_split splitByte k K _ _ hk hK]
  by_cases h : k = K
  · subst h
    have hle : cmp (be64 r) (be64 (2 ^ 64 - 1)) ≠ .gt := by
      rw [cmp_be64 hr (by decide), Nat.compare_ne_gt]
      omega
    simp [cmp_append_right_lt (by simp [be64]) hle (by simp : ([0] : Bytes) ≠ [])]
  · have hne : cmp k K ≠ .eq := fun hc => h (cmp_eq_iff.mp hc)
    simp only [h, if_false]
    cases hc : cmp k K <;> simp_all

/-- Encoded bounds are ordered like the raw bounds. -/
theorem encodeBound_lt {a b : Bytes} (ha : RangeBound a) (hb : RangeBound b) (hab : cmp a b = .lt) :
    cmp (encodeBound a) (encodeBound b) = .lt := by
  cases ha with
  | key ha =>
    cases hb with
    | key hb =>
      have hne : a ≠ b := by intro e; rw [e] at hab; simp at hab
      rw [encodeBound_of_alphabet ha, encodeBound_of_alphabet hb, encode_cmp ha hb (by decide) (by decide)]
      simp [hne, hab]
    | succ hK =>
      rw [encodeBound_of_alphabet ha, encode_cmp_succ ha hK (by decide)]
      have := (cmp_succ_lt_iff a _).mp hab
      simp [this]
  | succ hK =>
    rename_i K
    cases hb with
    | key hb =>
      rw [encodeBound_of_alphabet hb, cmp_swap (encode b 0), encode_cmp_succ hb hK (by decide)]
      have h1 : blt K b = true := (ble_succ_iff b K).mp (by rw [ble_iff, hab]; decide)
      rw [blt_iff, ← cmp_gt_iff] at h1
      simp [h1]
    | succ hK' =>
      rename_i K'
      -- K ++ [0] < K' ++ [0] means K < K'
      have hlt : cmp K K' = .lt := by
        have h1 : ble (K ++ [0]) K' = true := (blt_succ_iff _ _).mp (blt_iff.mpr hab)
        exact blt_iff.mp ((ble_succ_iff _ _).mp h1)
      have hne : K ≠ K' := by intro e; rw [e] at hlt; simp at hlt
      rw [encodeBound_succ, encodeBound_succ]
      have e1 : ∀ X : Bytes, encode X (2 ^ 64 - 1) ++ [0] = magic ++ (X ++ splitByte :: (be64 (2 ^ 64 - 1) ++ [0])) := by
        intro X; simp [encode]
      rw [e1 K, e1 K', cmp_append_left, cmp_split splitByte K K' _ _ hK hK']
      simp [hne, hlt]

end KB
